import Revm.Proofs.EvmLinkKeep
/-! LINK, frame accounting and static mode, part 2: the stack / memory / code primitives and the derived helpers. -/
set_option linter.unusedSimpArgs false
set_option linter.unusedVariables false
namespace Revm.Proofs.EvmLink
open Revm Revm.Model Revm.Model.Interp

section prims
variable {s0 s : IState}

/-- a state update that leaves `is_static` and the gas meter alone -/
theorem kept_of_eq {s x : IState} (h1 : x.isStatic = s.isStatic) (h2 : x.gas = s.gas) : Kept s x :=
  ⟨h1, by rw [h2], by rw [h2]; exact Nat.le_refl _⟩

theorem keep_gasOrFail (h : Kept s0 s) (c : Option Nat) : Keep s0 T (gasOrFail c s) := by
  unfold gasOrFail
  cases c with
  | some x => exact keep_mono (keep_gasCharge h x) (fun _ _ _ _ => trivial)
  | none => exact .halt h

theorem keep_refund (h : Kept s0 s) (r : Int) : Keep s0 T (refund r s) :=
  keep_modifyS h _ ⟨rfl, rfl, Nat.le_refl _⟩

theorem keep_advancePc (h : Kept s0 s) (n : Nat) : Keep s0 T (advancePc n s) :=
  keep_modifyS h _ ⟨rfl, rfl, Nat.le_refl _⟩

theorem keep_setEof (h : Kept s0 s) (f : EofCtx → EofCtx) : Keep s0 T (setEof f s) :=
  keep_modifyS h _ ⟨rfl, rfl, Nat.le_refl _⟩

theorem keep_popN (h : Kept s0 s) (k : Nat) : Keep s0 T (popN k s) := by
  unfold popN
  generalize Stack.popMacro s.stack k = p
  obtain ⟨d, r⟩ := p
  cases r with
  | ok vs => exact .ok (h.trans ⟨rfl, rfl, Nat.le_refl _⟩) trivial
  | err e => exact .halt h
  | _ => exact .fault

theorem keep_popTop (h : Kept s0 s) (k : Nat) : Keep s0 T (popTop k s) := by
  unfold popTop
  split
  · exact .halt h
  · generalize Stack.popNUnsafe (k - 1) s.stack = p
    obtain ⟨d, r⟩ := p
    cases r with
    | ok vs =>
      dsimp only
      generalize Stack.peek d 0 = q
      obtain ⟨d2, r2⟩ := q
      cases r2 with
      | ok t => exact .ok (h.trans ⟨rfl, rfl, Nat.le_refl _⟩) trivial
      | _ => exact .fault
    | _ => exact .fault

theorem keep_setTop (h : Kept s0 s) (v : Nat) : Keep s0 T (setTop v s) := by
  unfold setTop
  generalize Stack.set s.stack 0 v = p
  obtain ⟨d, r⟩ := p
  cases r with
  | ok x => exact .ok (h.trans ⟨rfl, rfl, Nat.le_refl _⟩) trivial
  | _ => exact .fault

theorem keep_push (h : Kept s0 s) (v : Nat) : Keep s0 T (push v s) := by
  unfold push
  generalize Stack.push s.stack v = p
  obtain ⟨d, r⟩ := p
  cases r with
  | ok x => exact .ok (h.trans ⟨rfl, rfl, Nat.le_refl _⟩) trivial
  | err e => exact .halt h
  | _ => exact .fault

theorem keep_stackCall (h : Kept s0 s) (f : List Nat → List Nat × Stack.Res Unit) : Keep s0 T (stackCall f s) := by
  unfold stackCall
  generalize f s.stack = p
  obtain ⟨d, r⟩ := p
  cases r with
  | ok x => exact .ok (h.trans ⟨rfl, rfl, Nat.le_refl _⟩) trivial
  | err e => exact .halt h
  | _ => exact .fault

theorem keep_stackCallAdv (h : Kept s0 s) (f : List Nat → List Nat × Stack.Res Unit) (n : Nat) :
    Keep s0 T (stackCallAdv f n s) := by
  unfold stackCallAdv
  generalize f s.stack = p
  obtain ⟨d, r⟩ := p
  cases r with
  | ok x => exact .ok (h.trans ⟨rfl, rfl, Nat.le_refl _⟩) trivial
  | err e => exact .halt (h.trans ⟨rfl, rfl, Nat.le_refl _⟩)
  | _ => exact .fault

theorem keep_asUsizeOrFail (h : Kept s0 s) (v : Nat) (r : IResult) : Keep s0 T (asUsizeOrFail v r s) := by
  unfold asUsizeOrFail
  cases Jump.asUsizeOrFail v with
  | some x => exact keep_pure h trivial
  | none => exact .halt h

theorem keep_memRes {α β} (r : Memory.Res α) (k : α → Exec β) {Q : β → IState → Prop}
    (hk : ∀ a, r = .ok a → Keep s0 Q (k a)) : Keep s0 Q (memRes r k) := by
  cases r with
  | ok a => exact hk a rfl
  | panic => exact .fault
  | ub => exact .fault

/-- `resize_memory` never hands gas back -/
theorem resizeMemory_rem {m m' : Memory.SharedMemory} {rem n r' : Nat} {b : Bool}
    (h : Memory.resizeMemory m rem n = .ok (b, m', r')) : r' ≤ rem := by
  unfold Memory.resizeMemory at h
  dsimp only at h
  generalize U64ops.wsub _ _ = cost at h
  by_cases hc : cost ≤ rem
  · rw [if_pos hc] at h
    generalize Memory.resize m _ = q at h
    cases q with
    | ok m2 =>
      simp only [Memory.Res.ok.injEq, Prod.mk.injEq] at h
      omega
    | panic => cases h
    | ub => cases h
  · rw [if_neg hc] at h
    simp only [Memory.Res.ok.injEq, Prod.mk.injEq] at h
    omega

theorem resizeMemoryMacro_rem {m m' : Memory.SharedMemory} {rem o l r' : Nat} {b : Bool}
    (h : Memory.resizeMemoryMacro m rem o l = .ok (b, m', r')) : r' ≤ rem := by
  unfold Memory.resizeMemoryMacro at h
  dsimp only at h
  split at h
  · exact resizeMemory_rem h
  · simp only [Memory.Res.ok.injEq, Prod.mk.injEq] at h
    omega

theorem keep_resizeMem (h : Kept s0 s) (o l : Nat) : Keep s0 T (resizeMem o l s) := by
  unfold resizeMem
  refine keep_memRes _ _ fun r hr => ?_
  obtain ⟨b, m', r'⟩ := r
  have hle := resizeMemoryMacro_rem hr
  cases b with
  | true => exact .ok (h.trans ⟨rfl, rfl, hle⟩) trivial
  | false => exact .halt h

theorem keep_liftMemWrite (h : Kept s0 s) (f : Memory.SharedMemory → Memory.Res Memory.SharedMemory) :
    Keep s0 T (liftMemWrite f s) := by
  unfold liftMemWrite
  exact keep_memRes _ _ fun m _ => .ok (h.trans ⟨rfl, rfl, Nat.le_refl _⟩) trivial

theorem keep_memSlice (h : Kept s0 s) (o l : Nat) : Keep s0 T (memSlice o l s) := by
  unfold memSlice
  exact keep_memRes _ _ fun a _ => .ok h trivial

theorem keep_memSliceRange (h : Kept s0 s) (a c : Nat) : Keep s0 T (memSliceRange a c s) := by
  unfold memSliceRange
  exact keep_memRes _ _ fun x _ => .ok h trivial

theorem keep_memGetU256 (h : Kept s0 s) (o : Nat) : Keep s0 T (memGetU256 o s) := by
  unfold memGetU256
  exact keep_memRes _ _ fun x _ => .ok h trivial

theorem keep_memSetU256 (h : Kept s0 s) (o v : Nat) : Keep s0 T (memSetU256 o v s) := keep_liftMemWrite h _
theorem keep_memSetByte (h : Kept s0 s) (o v : Nat) : Keep s0 T (memSetByte o v s) := keep_liftMemWrite h _
theorem keep_memSetData (h : Kept s0 s) (a b c : Nat) (d : List Nat) : Keep s0 T (memSetData a b c d s) :=
  keep_liftMemWrite h _
theorem keep_memCopy (h : Kept s0 s) (a b c : Nat) : Keep s0 T (memCopy a b c s) := keep_liftMemWrite h _

theorem keep_codeSlice (h : Kept s0 s) (n : Nat) : Keep s0 T (codeSlice n s) := by
  unfold codeSlice; split
  · exact .ok h trivial
  · exact .fault

theorem keep_codeByte (h : Kept s0 s) (off : Nat) : Keep s0 T (codeByte off s) := by
  unfold codeByte
  cases s.code[s.pc + off]? with
  | some b => exact .ok h trivial
  | none => exact .fault

theorem keep_jumpRel (h : Kept s0 s) (d : Int) : Keep s0 T (jumpRel d s) := by
  unfold jumpRel
  dsimp only
  split
  · exact .fault
  · exact .ok (h.trans ⟨rfl, rfl, Nat.le_refl _⟩) trivial

theorem keep_getEof (h : Kept s0 s) : Keep s0 T (getEof s) := by
  unfold getEof
  cases s.eof with
  | some c => exact .ok h trivial
  | none => exact .fault

theorem keep_loadEofCode (h : Kept s0 s) (idx pc : Nat) : Keep s0 T (loadEofCode idx pc s) := by
  unfold loadEofCode
  cases s.eof with
  | none => exact .fault
  | some c =>
    dsimp only
    cases c.sections[idx]? with
    | none => exact .fault
    | some code => exact .ok (h.trans ⟨rfl, rfl, Nat.le_refl _⟩) trivial

end prims
end Revm.Proofs.EvmLink
