import Revm.Model.EvmLifecycle
/-! Proofs about the context life cycle of `Evm` (C31). -/
namespace Revm.Proofs.EvmLifecycle
open Revm.Model.Journal Revm.Model.EvmLifecycle

variable {Db Env Err Pre L1 G LS Act FR ER : Type}

/-- the context looks like that of a freshly built `Evm` (up to the journal's `spec` field and the
precompile field, which are not reset by the code) -/
def Clean (c : Ctx Db Env Err Pre L1) : Prop :=
  c.js = JState.new c.js.spec noPreloaded ∧ c.error = none ∧ c.l1 = none

def eraseSpec (j : JState) : JState := { j with spec := 0 }

def Work.setSpec (w : Work Db Err L1) (s : Nat) : Work Db Err L1 := { w with js := setSpecId w.js s }

/-- the stage does not look at `journaled_state.spec` (and does not change it) -/
def SpecBlind {α : Type} (st : Stage Db Env Err L1 α) : Prop :=
  ∀ env w s, st env (Work.setSpec w s) = ((st env w).1, Work.setSpec (st env w).2 s)

/-- the two stages that can run while the journal's spec is still stale - `tx_against_state` and,
for a validation error, `post_execution.end` - do not look at `journaled_state.spec` -/
def HSpecBlind (h : Handler Db Env Err Pre L1 G LS Act FR ER) : Prop :=
  SpecBlind h.txAgainstState ∧ ∀ e, SpecBlind (h.endHook (.error e))

/-- equal up to the journal's `spec` field and the precompile field -/
def Sim (c1 c2 : Ctx Db Env Err Pre L1) : Prop :=
  c1.db = c2.db ∧ c1.env = c2.env ∧ eraseSpec c1.js = eraseSpec c2.js ∧ c1.error = c2.error ∧ c1.l1 = c2.l1

def WSim (w1 w2 : Work Db Err L1) : Prop :=
  w1.db = w2.db ∧ eraseSpec w1.js = eraseSpec w2.js ∧ w1.error = w2.error ∧ w1.l1 = w2.l1

theorem eraseSpec_setSpecId (j : JState) (s : Nat) : eraseSpec (setSpecId j s) = eraseSpec j := rfl

theorem eraseSpec_new (s : Nat) (p : Addr → Bool) : eraseSpec (JState.new s p) = JState.new 0 p := rfl

theorem setSpecId_congr {j1 j2 : JState} (h : eraseSpec j1 = eraseSpec j2) (s : Nat) :
    setSpecId j1 s = setSpecId j2 s := by
  cases j1; cases j2
  simp only [eraseSpec, setSpecId, JState.mk.injEq] at *
  simp_all

theorem wsim_eq {w1 w2 : Work Db Err L1} (h : WSim w1 w2) : w1 = Work.setSpec w2 w1.js.spec := by
  obtain ⟨h1, h2, h3, h4⟩ := h
  cases w1 with | mk db1 js1 e1 l1 =>
  cases w2 with | mk db2 js2 e2 l2 =>
  simp only [Work.setSpec, Work.mk.injEq] at *
  refine ⟨h1, ?_, h3, h4⟩
  have := setSpecId_congr h2 js1.spec
  rw [← this]
  cases js1; rfl

theorem wsim_setSpec (w : Work Db Err L1) (s : Nat) : WSim (Work.setSpec w s) w :=
  ⟨rfl, rfl, rfl, rfl⟩

theorem wsim_symm {w1 w2 : Work Db Err L1} (h : WSim w1 w2) : WSim w2 w1 :=
  ⟨h.1.symm, h.2.1.symm, h.2.2.1.symm, h.2.2.2.symm⟩

theorem wsim_trans {w1 w2 w3 : Work Db Err L1} (h : WSim w1 w2) (h' : WSim w2 w3) : WSim w1 w3 :=
  ⟨h.1.trans h'.1, h.2.1.trans h'.2.1, h.2.2.1.trans h'.2.2.1, h.2.2.2.trans h'.2.2.2⟩

/-- a spec-blind stage gives the same answer on works that differ only in `spec` -/
theorem stage_sim {α : Type} {st : Stage Db Env Err L1 α} (hb : SpecBlind st) (env : Env)
    {w1 w2 : Work Db Err L1} (h : WSim w1 w2) :
    (st env w1).1 = (st env w2).1 ∧ WSim (st env w1).2 (st env w2).2 := by
  rw [wsim_eq h, hb]
  exact ⟨rfl, wsim_setSpec _ _⟩

section
variable (h : Handler Db Env Err Pre L1 G LS Act FR ER)

theorem sim_work {c1 c2 : Ctx Db Env Err Pre L1} (hs : Sim c1 c2) : WSim c1.work c2.work :=
  ⟨hs.1, hs.2.2.1, hs.2.2.2.1, hs.2.2.2.2⟩

theorem sim_withWork {c1 c2 : Ctx Db Env Err Pre L1} (he : c1.env = c2.env) {w1 w2 : Work Db Err L1}
    (hw : WSim w1 w2) : Sim (c1.withWork w1) (c2.withWork w2) :=
  ⟨hw.1, he, hw.2.1, hw.2.2.1, hw.2.2.2⟩

theorem sim_clear {c1 c2 : Ctx Db Env Err Pre L1} (hs : Sim c1 c2) : Sim (clear c1) (clear c2) :=
  ⟨hs.1, hs.2.1, rfl, rfl, rfl⟩

theorem clean_clear (c : Ctx Db Env Err Pre L1) : Clean (clear c) := ⟨rfl, rfl, rfl⟩

/-- validation: same answer, works stay similar -/
theorem preverifyInnerW_sim (hb : SpecBlind h.txAgainstState) (env : Env) {w1 w2 : Work Db Err L1}
    (hw : WSim w1 w2) :
    (preverifyInnerW h env w1).1 = (preverifyInnerW h env w2).1 ∧
    WSim (preverifyInnerW h env w1).2 (preverifyInnerW h env w2).2 := by
  unfold preverifyInnerW
  cases h.validateEnv env with
  | error e => exact ⟨rfl, hw⟩
  | ok _ =>
    cases h.initialTxGas env with
    | error e => exact ⟨rfl, hw⟩
    | ok g =>
      have hs := stage_sim hb env hw
      revert hs
      cases h.txAgainstState env w1 with | mk r1 v1 =>
      cases h.txAgainstState env w2 with | mk r2 v2 =>
      intro hs
      obtain ⟨hr, hv⟩ := hs
      simp only at hr hv
      subst hr
      cases r1 with
      | error e => exact ⟨rfl, hv⟩
      | ok _ => exact ⟨rfl, hv⟩

theorem preverifyInner_sim (hb : SpecBlind h.txAgainstState) {c1 c2 : Ctx Db Env Err Pre L1} (hs : Sim c1 c2) :
    (preverifyInner h c1).1 = (preverifyInner h c2).1 ∧ Sim (preverifyInner h c1).2 (preverifyInner h c2).2 := by
  unfold preverifyInner
  have := preverifyInnerW_sim h hb c1.env (sim_work hs)
  rw [show c2.env = c1.env from hs.2.1.symm]
  exact ⟨this.1, sim_withWork (by rw [hs.2.1]) this.2⟩

/-- `load_accounts` overwrites the journal's spec: similar works give EQUAL results -/
theorem loadAccountsW_sim (env : Env) {w1 w2 : Work Db Err L1} (hw : WSim w1 w2) :
    loadAccountsW h env w1 = loadAccountsW h env w2 := by
  obtain ⟨h1, h2, h3, h4⟩ := hw
  unfold loadAccountsW
  rw [setSpecId_congr h2 (canon h.spec)]
  cases w1; cases w2
  simp only at h1 h3 h4
  subst h1 h3 h4
  rfl

/-- `set_precompiles` overwrites the precompile field -/
theorem setPrecompiles_withWork {c1 c2 : Ctx Db Env Err Pre L1} (he : c1.env = c2.env) (w : Work Db Err L1) :
    setPrecompiles h (c1.withWork w) = setPrecompiles h (c2.withWork w) := by
  cases c1; cases c2
  simp only at he
  subst he
  rfl

/-- equal except for the precompile field -/
def SimP (c1 c2 : Ctx Db Env Err Pre L1) : Prop := c1.env = c2.env ∧ c1.work = c2.work

/-- relation between two outcomes of an entry point: both diverge, or both return the same result and
related contexts -/
def RelOpt {R : Type} (rel : Ctx Db Env Err Pre L1 → Ctx Db Env Err Pre L1 → Prop)
    (o1 o2 : Option (R × Ctx Db Env Err Pre L1)) : Prop :=
  match o1, o2 with
  | none, none => True
  | some p1, some p2 => p1.1 = p2.1 ∧ rel p1.2 p2.2
  | _, _ => False

theorem work_withWork (c : Ctx Db Env Err Pre L1) (w : Work Db Err L1) : (c.withWork w).work = w := rfl

/-- after `transact_preverified_inner` two similar contexts differ at most in the precompile field -/
theorem inner_sim (fuel : Nat) (g : G) {c1 c2 : Ctx Db Env Err Pre L1} (hs : Sim c1 c2) :
    RelOpt SimP (inner h fuel g c1) (inner h fuel g c2) := by
  unfold inner
  rw [show c2.env = c1.env from hs.2.1.symm, ← loadAccountsW_sim h c1.env (sim_work hs)]
  cases loadAccountsW h c1.env c1.work with | mk r w =>
  cases r with
  | error e => exact ⟨rfl, hs.2.1, rfl⟩
  | ok _ =>
    simp only
    rw [setPrecompiles_withWork h hs.2.1 w]
    cases innerRestW h fuel g (setPrecompiles h (c2.withWork w)).precompiles (setPrecompiles h (c2.withWork w)).env
      (setPrecompiles h (c2.withWork w)).work with
    | none => trivial
    | some p => exact ⟨rfl, rfl, rfl⟩

theorem simP_clear_withWork {d1 d2 : Ctx Db Env Err Pre L1} (hd : SimP d1 d2) (w : Work Db Err L1) :
    Sim (clear (d1.withWork w)) (clear (d2.withWork w)) :=
  ⟨rfl, hd.1, rfl, rfl, rfl⟩

theorem finish_sim (fuel : Nat) (g : G) {c1 c2 : Ctx Db Env Err Pre L1} (hs : Sim c1 c2) :
    RelOpt Sim (finish h fuel g c1) (finish h fuel g c2) := by
  unfold finish
  have hi := inner_sim h fuel g hs
  revert hi
  cases inner h fuel g c1 with
  | none =>
    cases inner h fuel g c2 with
    | none => intro _; trivial
    | some p2 => intro hi; exact hi.elim
  | some p1 =>
    cases inner h fuel g c2 with
    | none => intro hi; exact hi.elim
    | some p2 =>
      intro hi
      obtain ⟨hr, hc⟩ := hi
      cases p1 with | mk out1 d1 =>
      cases p2 with | mk out2 d2 =>
      simp only at hr hc
      subst hr
      simp only [RelOpt]
      rw [hc.1, hc.2]
      exact ⟨rfl, simP_clear_withWork hc _⟩

theorem transact_sim (hb : HSpecBlind h) (fuel : Nat) {c1 c2 : Ctx Db Env Err Pre L1}
    (hs : Sim c1 c2) : RelOpt Sim (transact h fuel c1) (transact h fuel c2) := by
  unfold transact
  have hp := preverifyInner_sim h hb.1 hs
  revert hp
  cases preverifyInner h c1 with | mk r1 d1 =>
  cases preverifyInner h c2 with | mk r2 d2 =>
  intro hp
  obtain ⟨hr, hd⟩ := hp
  simp only at hr hd
  subst hr
  cases r1 with
  | error e =>
    have he := stage_sim (hb.2 e) d1.env (sim_work hd)
    simp only [RelOpt]
    rw [show d2.env = d1.env from hd.2.1.symm]
    exact ⟨he.1, sim_clear (sim_withWork hd.2.1 he.2)⟩
  | ok g => exact finish_sim h fuel g hd

theorem transactPreverified_sim (fuel : Nat) {c1 c2 : Ctx Db Env Err Pre L1} (hs : Sim c1 c2) :
    RelOpt Sim (transactPreverified h fuel c1) (transactPreverified h fuel c2) := by
  unfold transactPreverified
  rw [show c2.env = c1.env from hs.2.1.symm]
  cases h.initialTxGas c1.env with
  | error e => exact ⟨rfl, sim_clear hs⟩
  | ok g => exact finish_sim h fuel g hs

theorem preverifyTransaction_sim (hb : SpecBlind h.txAgainstState) {c1 c2 : Ctx Db Env Err Pre L1}
    (hs : Sim c1 c2) :
    (preverifyTransaction h c1).1 = (preverifyTransaction h c2).1 ∧
    Sim (preverifyTransaction h c1).2 (preverifyTransaction h c2).2 := by
  unfold preverifyTransaction
  have hp := preverifyInner_sim h hb hs
  exact ⟨by show Except.map _ _ = Except.map _ _; rw [hp.1], sim_clear hp.2⟩

theorem transactCommit_sim (commit : Db → EvmState → Db) (hb : HSpecBlind h) (fuel : Nat)
    {c1 c2 : Ctx Db Env Err Pre L1} (hs : Sim c1 c2) :
    RelOpt Sim (transactCommit h commit fuel c1) (transactCommit h commit fuel c2) := by
  unfold transactCommit
  have ht := transact_sim h hb fuel hs
  revert ht
  cases transact h fuel c1 with
  | none =>
    cases transact h fuel c2 with
    | none => intro _; trivial
    | some p2 => intro ht; exact ht.elim
  | some p1 =>
    cases transact h fuel c2 with
    | none => intro ht; exact ht.elim
    | some p2 =>
      intro ht
      obtain ⟨hr, hc⟩ := ht
      cases p1 with | mk out1 d1 =>
      cases p2 with | mk out2 d2 =>
      simp only at hr hc
      subst hr
      cases out1 with
      | error e => exact ⟨rfl, hc⟩
      | ok rs =>
        cases rs with | mk res st =>
        refine ⟨rfl, ?_⟩
        obtain ⟨h1, h2, h3, h4, h5⟩ := hc
        exact ⟨by simp only [h1], h2, h3, h4, h5⟩

theorem relOpt_map {R R' : Type} (f : R → R') {o1 o2 : Option (R × Ctx Db Env Err Pre L1)}
    (hr : RelOpt Sim o1 o2) :
    RelOpt Sim (o1.map (fun p => (f p.1, p.2))) (o2.map (fun p => (f p.1, p.2))) := by
  cases o1 with
  | none => cases o2 with
    | none => trivial
    | some p2 => exact hr.elim
  | some p1 => cases o2 with
    | none => exact hr.elim
    | some p2 => exact ⟨by show f p1.1 = f p2.1; rw [hr.1], hr.2⟩

/-- every entry point: similar contexts give the same result (or both diverge) and similar contexts -/
theorem call_sim (commit : Db → EvmState → Db) (hb : HSpecBlind h) (e : EntryPoint) (fuel : Nat)
    {c1 c2 : Ctx Db Env Err Pre L1} (hs : Sim c1 c2) :
    RelOpt Sim (call h commit e fuel c1) (call h commit e fuel c2) := by
  cases e with
  | transact => exact relOpt_map _ (transact_sim h hb fuel hs)
  | transactPreverified => exact relOpt_map _ (transactPreverified_sim h fuel hs)
  | transactCommit => exact relOpt_map _ (transactCommit_sim h commit hb fuel hs)
  | preverify =>
    have hp := preverifyTransaction_sim h hb.1 hs
    exact ⟨by simp only [hp.1], hp.2⟩

/-! ### what the context looks like after a call -/

/-- `c'` is what an entry point can leave behind when started from `c`: same environment, the
precompile field either untouched or the handler's set, journal = `JournaledState::new(spec', ∅)`,
error slot `Ok(())`, no L1 block info -/
def ClearedFrom (c c' : Ctx Db Env Err Pre L1) : Prop :=
  c'.env = c.env ∧ Clean c' ∧ (c'.precompiles = c.precompiles ∨ c'.precompiles = h.loadPrecompiles)

theorem inner_env_pre (fuel : Nat) (g : G) {c c' : Ctx Db Env Err Pre L1} {r : Except Err (Out ER)}
    (hi : inner h fuel g c = some (r, c')) :
    c'.env = c.env ∧ (c'.precompiles = c.precompiles ∨ c'.precompiles = h.loadPrecompiles) := by
  unfold inner at hi
  revert hi
  cases loadAccountsW h c.env c.work with | mk r0 w =>
  cases r0 with
  | error e =>
    intro hi
    simp only [Option.some.injEq, Prod.mk.injEq] at hi
    rw [← hi.2]
    exact ⟨rfl, Or.inl rfl⟩
  | ok _ =>
    simp only
    cases innerRestW h fuel g (setPrecompiles h (c.withWork w)).precompiles (setPrecompiles h (c.withWork w)).env
      (setPrecompiles h (c.withWork w)).work with
    | none => intro hi; cases hi
    | some p =>
      intro hi
      simp only [Option.some.injEq, Prod.mk.injEq] at hi
      rw [← hi.2]
      exact ⟨rfl, Or.inr rfl⟩

theorem finish_cleared (fuel : Nat) (g : G) {c c' : Ctx Db Env Err Pre L1} {r : Except Err (Out ER)}
    (hf : finish h fuel g c = some (r, c')) : ClearedFrom h c c' := by
  unfold finish at hf
  revert hf
  cases hi : inner h fuel g c with
  | none => intro hf; cases hf
  | some p =>
    cases p with | mk out d =>
    intro hf
    simp only [Option.some.injEq, Prod.mk.injEq] at hf
    have := inner_env_pre h fuel g hi
    rw [← hf.2]
    exact ⟨this.1, clean_clear _, this.2⟩

theorem transact_cleared (fuel : Nat) {c c' : Ctx Db Env Err Pre L1} {r : Except Err (Out ER)}
    (ht : transact h fuel c = some (r, c')) : ClearedFrom h c c' := by
  unfold transact at ht
  revert ht
  have hp : (preverifyInner h c).2.env = c.env ∧ (preverifyInner h c).2.precompiles = c.precompiles := ⟨rfl, rfl⟩
  revert hp
  cases preverifyInner h c with | mk r0 d =>
  intro hp
  simp only at hp
  cases r0 with
  | error e =>
    intro ht
    simp only [Option.some.injEq, Prod.mk.injEq] at ht
    rw [← ht.2]
    exact ⟨hp.1, clean_clear _, Or.inl hp.2⟩
  | ok g =>
    intro ht
    have := finish_cleared h fuel g ht
    exact ⟨this.1.trans hp.1, this.2.1, by rw [← hp.2]; exact this.2.2⟩

theorem transactPreverified_cleared (fuel : Nat) {c c' : Ctx Db Env Err Pre L1} {r : Except Err (Out ER)}
    (ht : transactPreverified h fuel c = some (r, c')) : ClearedFrom h c c' := by
  unfold transactPreverified at ht
  revert ht
  cases h.initialTxGas c.env with
  | error e =>
    intro ht
    simp only [Option.some.injEq, Prod.mk.injEq] at ht
    rw [← ht.2]
    exact ⟨rfl, clean_clear _, Or.inl rfl⟩
  | ok g => intro ht; exact finish_cleared h fuel g ht

theorem preverifyTransaction_cleared (c : Ctx Db Env Err Pre L1) :
    ClearedFrom h c (preverifyTransaction h c).2 :=
  ⟨rfl, clean_clear _, Or.inl rfl⟩

theorem transactCommit_cleared (commit : Db → EvmState → Db) (fuel : Nat) {c c' : Ctx Db Env Err Pre L1}
    {r : Except Err ER} (ht : transactCommit h commit fuel c = some (r, c')) : ClearedFrom h c c' := by
  unfold transactCommit at ht
  revert ht
  cases hq : transact h fuel c with
  | none => intro ht; cases ht
  | some p =>
    cases p with | mk out d =>
    have hc := transact_cleared h fuel hq
    cases out with
    | error e =>
      intro ht
      simp only [Option.some.injEq, Prod.mk.injEq] at ht
      rw [← ht.2]; exact hc
    | ok rs =>
      cases rs with | mk res st =>
      intro ht
      simp only [Option.some.injEq, Prod.mk.injEq] at ht
      rw [← ht.2]
      exact ⟨hc.1, hc.2.1, hc.2.2⟩

theorem call_cleared (commit : Db → EvmState → Db) (e : EntryPoint) (fuel : Nat) {c c' : Ctx Db Env Err Pre L1}
    {r : CallResult Err ER} (hc : call h commit e fuel c = some (r, c')) : ClearedFrom h c c' := by
  cases e with
  | transact =>
    simp only [call, Option.map_eq_some_iff, Prod.mk.injEq] at hc
    obtain ⟨p, hp, _, hp2⟩ := hc
    cases p with | mk a b =>
    simp only at hp2
    subst hp2
    exact transact_cleared h fuel hp
  | transactPreverified =>
    simp only [call, Option.map_eq_some_iff, Prod.mk.injEq] at hc
    obtain ⟨p, hp, _, hp2⟩ := hc
    cases p with | mk a b =>
    simp only at hp2
    subst hp2
    exact transactPreverified_cleared h fuel hp
  | transactCommit =>
    simp only [call, Option.map_eq_some_iff, Prod.mk.injEq] at hc
    obtain ⟨p, hp, _, hp2⟩ := hc
    cases p with | mk a b =>
    simp only at hp2
    subst hp2
    exact transactCommit_cleared h commit fuel hp
  | preverify =>
    simp only [call, Option.some.injEq, Prod.mk.injEq] at hc
    rw [← hc.2]
    exact preverifyTransaction_cleared h c

end

/-! ### histories -/

/-- a context prepared for the next call on a reused instance is similar to a freshly built one -/
theorem prepare_sim_build (op : Op Db Env Err Pre L1 G LS Act FR ER) {c : Ctx Db Env Err Pre L1}
    (hc : Clean c) (pre0 : Pre) : Sim (prepare op c) (Ctx.build c.db op.env op.h.spec pre0) := by
  obtain ⟨h1, h2, h3⟩ := hc
  unfold prepare Ctx.build
  cases hb : op.rebuilt
  · simp only [Bool.false_eq_true, if_false]
    refine ⟨rfl, rfl, ?_, h2, h3⟩
    simp only
    rw [h1]; rfl
  · simp only [if_true]
    refine ⟨rfl, rfl, ?_, h2, h3⟩
    simp only
    rw [h1]; rfl

theorem sequence_eq (commit : Db → EvmState → Db) (pre0 : Pre) :
    ∀ (ops : List (Op Db Env Err Pre L1 G LS Act FR ER)) (c : Ctx Db Env Err Pre L1),
      Clean c → (∀ op ∈ ops, HSpecBlind op.h) →
      (runOne commit ops c).map (fun p => (p.1, p.2.db)) = runFresh commit pre0 ops c.db := by
  intro ops
  induction ops with
  | nil => intro c _ _; rfl
  | cons op ops ih =>
    intro c hc hb
    have hs := prepare_sim_build op hc pre0
    have hcall := call_sim op.h commit (hb op (List.mem_cons_self ..)) op.entry op.fuel hs
    unfold runOne runFresh
    revert hcall
    cases h1 : call op.h commit op.entry op.fuel (prepare op c) with
    | none =>
      cases call op.h commit op.entry op.fuel (Ctx.build c.db op.env op.h.spec pre0) with
      | none => intro _; rfl
      | some p2 => intro hr; exact hr.elim
    | some p1 =>
      cases call op.h commit op.entry op.fuel (Ctx.build c.db op.env op.h.spec pre0) with
      | none => intro hr; exact hr.elim
      | some p2 =>
        intro hr
        obtain ⟨hres, hsim⟩ := hr
        cases p1 with | mk r1 d1 =>
        cases p2 with | mk r2 d2 =>
        simp only at hres hsim
        subst hres
        have hclean : Clean d1 := (call_cleared op.h commit op.entry op.fuel h1).2.1
        have := ih d1 hclean (fun o ho => hb o (List.mem_cons_of_mem _ ho))
        simp only
        rw [← hsim.1, ← this]
        cases runOne commit ops d1 with
        | none => rfl
        | some q => rfl

/-- two clean contexts over the same database and environment are similar -/
theorem sim_of_clean {c1 c2 : Ctx Db Env Err Pre L1} (h1 : Clean c1) (h2 : Clean c2) (hdb : c1.db = c2.db)
    (henv : c1.env = c2.env) : Sim c1 c2 := by
  refine ⟨hdb, henv, ?_, h1.2.1.trans h2.2.1.symm, h1.2.2.trans h2.2.2.symm⟩
  rw [h1.1, h2.1]; rfl

theorem clean_build (db : Db) (env : Env) (spec : Nat) (pre0 : Pre) :
    Clean (Ctx.build db env spec pre0 : Ctx Db Env Err Pre L1) := ⟨rfl, rfl, rfl⟩

/-- related outcomes have equal results and equal databases -/
theorem relOpt_proj {R : Type} {o1 o2 : Option (R × Ctx Db Env Err Pre L1)} (hr : RelOpt Sim o1 o2) :
    o1.map (fun p => (p.1, p.2.db)) = o2.map (fun p => (p.1, p.2.db)) := by
  cases o1 with
  | none => cases o2 with
    | none => rfl
    | some p2 => exact hr.elim
  | some p1 => cases o2 with
    | none => exact hr.elim
    | some p2 =>
      show some (p1.1, p1.2.db) = some (p2.1, p2.2.db)
      rw [hr.1, hr.2.1]

theorem pushEntry_setSpecId (s : JState) (x : Nat) (e : Revm.Model.Journal.Entry) :
    pushEntry (setSpecId s x) e = (pushEntry s e).map (fun t => setSpecId t x) := by
  unfold pushEntry setSpecId
  cases s.journal <;> rfl

theorem loadAccount_setSpecId (db : Revm.Model.Journal.Db) (s : JState) (x : Nat) (a : Addr) :
    loadAccount db (setSpecId s x) a = (loadAccount db s a).map (fun p => (setSpecId p.1 x, p.2)) := by
  unfold loadAccount
  show (match s.state a with | some acc => _ | none => _) = _
  cases hs : s.state a with
  | some acc =>
    simp only
    by_cases hc : acc.cold
    · simp only [hc, if_true]
      show (pushEntry (setSpecId (setAcct s a { acc with cold := false }) x) _).map _ = _
      rw [pushEntry_setSpecId]
      cases pushEntry (setAcct s a { acc with cold := false }) (.accountWarmed a) <;> rfl
    · simp only [hc, if_false, Bool.false_eq_true]; rfl
  | none =>
    simp only
    show (if (!s.preloaded a) = true then (pushEntry (setSpecId (setAcct s a _) x) _).map _ else _) = _
    by_cases hc : (!s.preloaded a) = true
    · simp only [hc, if_true]
      rw [pushEntry_setSpecId]
      cases pushEntry (setAcct s a (match db.basic a with | some i => Acct.ofInfo i | none => Acct.newNotExisting)) (.accountWarmed a) <;> rfl
    · simp only [hc, if_false, Bool.false_eq_true]; rfl

theorem loadCode_setSpecId (db : Revm.Model.Journal.Db) (s : JState) (x : Nat) (a : Addr) :
    loadCode db (setSpecId s x) a = (loadCode db s a).map (fun p => (setSpecId p.1 x, p.2)) := by
  unfold loadCode
  rw [loadAccount_setSpecId]
  cases loadAccount db s a with
  | none => rfl
  | some p =>
    cases p with | mk s1 cold =>
    simp only [Option.map_some, bind, Option.bind]
    have hst : (setSpecId s1 x).state a = s1.state a := rfl
    rw [hst]
    cases s1.state a with
    | none => rfl
    | some acc =>
      simp only
      by_cases hc : acc.info.code.isNone = true
      · simp only [hc, if_true]; rfl
      · simp only [hc, if_false, Bool.false_eq_true]; rfl

/-- the mainnet body of `tx_against_state` (over the C06 journal model) does not look at the journal's
spec, whatever the database, the environment check and the caller -/
theorem mainnetTxAgainstState_specBlind (caller : Env → Addr) (view : Db → Revm.Model.Journal.Db)
    (dbErr : Db → Addr → Option Err) (check : Env → Acct → Except Err Unit × Acct) (panicErr : Err) :
    SpecBlind (mainnetTxAgainstState (L1 := L1) caller view dbErr check panicErr) := by
  intro env w s
  unfold mainnetTxAgainstState
  show (match dbErr w.db (caller env) with | some e => _ | none => _) = _
  cases dbErr w.db (caller env) with
  | some e => rfl
  | none =>
    simp only
    have hjs : (Work.setSpec w s).js = setSpecId w.js s := rfl
    have hdb : (Work.setSpec w s).db = w.db := rfl
    rw [hjs, hdb, loadCode_setSpecId]
    cases loadCode (view w.db) w.js (caller env) with
    | none => rfl
    | some p =>
      cases p with | mk js cold =>
      simp only [Option.map_some]
      have hst : (setSpecId js s).state (caller env) = js.state (caller env) := rfl
      rw [hst]
      cases js.state (caller env) with
      | none => rfl
      | some acc => rfl

end Revm.Proofs.EvmLifecycle
