import Revm.Proofs.EofValidate
import Revm.Proofs.EofJumps
/-! The access tracker of `validate_eof_codes`: every code section of an accepted container has been
through `validate_eof_code`. Core Lean only. -/
namespace Revm.Proofs.EofValidate
open Revm.Model.Eof Revm.Model.EofValidate Revm.Spec.Eof Revm.Proofs.Eof

set_option linter.unusedSimpArgs false
set_option linter.unusedVariables false

/-- how `validate_eof_code` may change the tracker: it only pushes, and whatever it newly marks as
accessed it also pushes -/
structure Ext (a b : Tracker) : Prop where
  stack : ∀ k, k ∈ a.stack → k ∈ b.stack
  codes : ∀ k, b.codes[k]? = some true → a.codes[k]? = some true ∨ k ∈ b.stack
  size : b.codes.size = a.codes.size
  subs : b.subs.size = a.subs.size

theorem Ext.refl (a : Tracker) : Ext a a := ⟨fun _ h => h, fun _ h => Or.inl h, rfl, rfl⟩

theorem Ext.trans {a b c : Tracker} (h1 : Ext a b) (h2 : Ext b c) : Ext a c :=
  ⟨fun k h => h2.stack k (h1.stack k h),
   fun k h => by
     rcases h2.codes k h with h | h
     · rcases h1.codes k h with h | h
       · exact Or.inl h
       · exact Or.inr (h2.stack k h)
     · exact Or.inr h,
   by rw [h2.size, h1.size], by rw [h2.subs, h1.subs]⟩

theorem accessCode_ext {tr tr' : Tracker} {k : Nat} (h : tr.accessCode k = .ok tr') : Ext tr tr' := by
  unfold Tracker.accessCode at h
  split at h
  · cases h
  rename_i was hwas
  simp only [R.ok.injEq] at h
  subst h
  cases was
  · refine ⟨fun j hj => ?_, fun j hj => ?_, ?_, rfl⟩
    · simp only [Bool.not_false, if_true]; exact List.mem_cons_of_mem _ hj
    · simp only [Bool.not_false, if_true] at hj ⊢
      rw [Array.getElem?_setIfInBounds] at hj
      by_cases hkj : k = j
      · subst hkj; exact Or.inr (List.mem_cons_self ..)
      · rw [if_neg hkj] at hj; exact Or.inl hj
    · simp only [Bool.not_false, if_true, Array.size_setIfInBounds]
  · refine ⟨fun j hj => ?_, fun j hj => ?_, ?_, rfl⟩
    · simpa using hj
    · simp only [Bool.not_true, Bool.false_eq_true, if_false] at hj ⊢
      rw [Array.getElem?_setIfInBounds] at hj
      by_cases hkj : k = j
      · subst hkj; exact Or.inl hwas
      · rw [if_neg hkj] at hj; exact Or.inl hj
    · simp only [Bool.not_true, Bool.false_eq_true, if_false, Array.size_setIfInBounds]

theorem setSub_ext {tr tr' : Tracker} {k : Nat} {t : CodeType}
    (h : tr.setSubcontainerType k t = .ok tr') : Ext tr tr' := by
  unfold Tracker.setSubcontainerType at h
  split at h
  · cases h
  · simp only [R.ok.injEq] at h; subst h
    exact ⟨fun _ h => h, fun _ h => Or.inl h, rfl, by simp only [Array.size_setIfInBounds]⟩
  · split at h
    · cases h
    · simp only [R.ok.injEq] at h; subst h; exact Ext.refl _

theorem requireType_ext {tr tr' : Tracker} {t : CodeType}
    (h : tr.requireType t = .ok tr') : Ext tr tr' := by
  unfold Tracker.requireType at h
  split at h
  · simp only [R.ok.injEq] at h; subst h; exact ⟨fun _ h => h, fun _ h => Or.inl h, rfl, rfl⟩
  · split at h
    · cases h
    · simp only [R.ok.injEq] at h; subst h; exact Ext.refl _

theorem opSpecific_ext {c : Ctx} {i op : Nat} {inf : OpInfo} {this : InstrInfo}
    {jumps : Array InstrInfo} {tr : Tracker} {isRet : Bool} :
    Holds (fun r => Ext tr r.tracker) (opSpecific c i op inf this jumps tr isRet) := by
  unfold opSpecific
  dsimp only
  repeat' first
    | exact holds_err
    | exact holds_panic
    | (refine holds_ite (fun _ => ?_) (fun _ => ?_))
    | (refine holds_bind (fun _ _ => ?_))
    | exact holds_pure (Ext.refl _)
    | exact holds_ok (Ext.refl _)
    | exact holds_pure (accessCode_ext ‹_›)
    | exact holds_pure (setSub_ext ‹_›)
    | exact holds_pure (requireType_ext ‹_›)
    | exact holds_pure (Ext.trans (requireType_ext ‹_›) (setSub_ext ‹_›))
    | split

theorem step_ext {c : Ctx} {s s' : St} (h : step c s = .ok s') : Ext s.tracker s'.tracker := by
  unfold step at h
  rw [bind_eq_ok] at h
  obtain ⟨op, hop, h⟩ := h
  split at h
  · cases h
  have hx := ite_err_eq_ok h; clear h; obtain ⟨_, h⟩ := hx
  split at h
  · cases h
  dsimp only at h
  have hx := ite_err_eq_ok h; clear h; obtain ⟨_, h⟩ := hx
  have hx := ite_err_eq_ok h; clear h; obtain ⟨_, h⟩ := hx
  rw [bind_eq_ok] at h
  obtain ⟨j1, hj1, h⟩ := h
  rw [bind_eq_ok] at h
  obtain ⟨r, hr, h⟩ := h
  have hx := ite_err_eq_ok h; clear h; obtain ⟨_, h⟩ := hx
  rw [bind_eq_ok] at h
  obtain ⟨j2, hj2, h⟩ := h
  simp only [pure_def, R.ok.injEq] at h
  subst h
  exact opSpecific_ext r hr

theorem loop_ext (c : Ctx) : ∀ (fuel : Nat) (s s' : St), loop c fuel s = .ok s' →
    Ext s.tracker s'.tracker := by
  intro fuel
  induction fuel with
  | zero =>
    intro s s' h
    unfold loop at h
    by_cases hi : s.i < c.code.size
    · rw [if_pos hi] at h; cases h
    · rw [if_neg hi] at h; cases h; exact Ext.refl _
  | succ fuel ih =>
    intro s s' h
    unfold loop at h
    by_cases hi : s.i < c.code.size
    · rw [if_pos hi] at h
      dsimp only at h
      rw [bind_eq_ok] at h
      obtain ⟨s1, h1, h2⟩ := h
      exact Ext.trans (step_ext h1) (ih s1 s' h2)
    · rw [if_neg hi] at h; cases h; exact Ext.refl _

theorem validateEofCode_ext {code : Array Nat} {dataSize idx nContainers : Nat}
    {types : Array TypesSection} {tr tr' : Tracker}
    (h : validateEofCode code dataSize idx nContainers types tr = .ok tr') : Ext tr tr' := by
  unfold validateEofCode at h
  split at h
  · cases h
  dsimp only at h
  rw [bind_eq_ok] at h
  obtain ⟨s, hs, h⟩ := h
  have hx := ite_err_eq_ok h; clear h; obtain ⟨_, h⟩ := hx
  have hx := ite_err_eq_ok h; clear h; obtain ⟨_, h⟩ := hx
  have hx := ite_err_eq_ok h; clear h; obtain ⟨_, h⟩ := hx
  simp only [pure_def, R.ok.injEq] at h
  subst h
  exact loop_ext _ _ _ _ hs

/-- section `k` of container `e` satisfies `SectionOk` and all its relative jumps land on
instruction starts -/
def SecOk (e : Eof) (k : Nat) : Prop :=
  ∀ code, e.body.codeSection[k]? = some code →
    SectionOk code.toArray e.body.typesSection.length e.body.containerSection.length ∧
    JumpsOnStarts code.toArray

theorem codesLoop_ok (e : Eof) : ∀ (fuel : Nat) (tr tr' : Tracker),
    codesLoop e e.body.typesSection.toArray fuel tr = .ok tr' →
    (∀ k, tr.codes[k]? = some true → k ∈ tr.stack ∨ SecOk e k) →
    (∀ k, tr'.codes[k]? = some true → SecOk e k) ∧ tr'.codes.size = tr.codes.size ∧
      tr'.subs.size = tr.subs.size := by
  intro fuel
  induction fuel with
  | zero =>
    intro tr tr' h inv
    unfold codesLoop at h
    split at h
    · rename_i hs
      cases h
      exact ⟨fun k hk => (inv k hk).resolve_left (by rw [hs]; simp), rfl, rfl⟩
    · cases h
  | succ fuel ih =>
    intro tr tr' h inv
    unfold codesLoop at h
    split at h
    · rename_i hs
      cases h
      exact ⟨fun k hk => (inv k hk).resolve_left (by rw [hs]; simp), rfl, rfl⟩
    · rename_i index rest hs
      dsimp only at h
      split at h
      · cases h
      rename_i code hcode
      rw [bind_eq_ok] at h
      obtain ⟨tr1, h1, h2⟩ := h
      have hsec := validateEofCode_ok h1
      have hjmp := validateEofCode_jumps h1
      have hext := validateEofCode_ext h1
      rw [List.size_toArray] at hsec
      have inv1 : ∀ k, tr1.codes[k]? = some true → k ∈ tr1.stack ∨ SecOk e k := by
        intro k hk
        rcases hext.codes k hk with h | h
        · rcases inv k h with h' | h'
          · rw [hs] at h'
            rcases List.mem_cons.1 h' with rfl | h'
            · right
              intro code' hc'
              rw [hcode] at hc'; cases hc'
              exact ⟨hsec, hjmp⟩
            · exact Or.inl (hext.stack k h')
          · exact Or.inr h'
        · exact Or.inl h
      obtain ⟨r1, r2, r3⟩ := ih tr1 tr' h2 inv1
      exact ⟨r1, by rw [r2, hext.size], by rw [r3, hext.subs]⟩

theorem unwrapAll_ok : ∀ (l : List (Option CodeType)) (r : List CodeType),
    unwrapAll l = .ok r → r.length = l.length
  | [], r, h => by simp only [unwrapAll, R.ok.injEq] at h; subst h; rfl
  | none :: _, r, h => by simp [unwrapAll] at h
  | some t :: l, r, h => by
    simp only [unwrapAll] at h
    rw [bind_eq_ok] at h
    obtain ⟨r', h1, h2⟩ := h
    simp only [pure_def, R.ok.injEq] at h2
    subst h2
    simp [unwrapAll_ok l r' h1]

/-- **per container**: whatever `validate_eof_codes` accepts has every code section `SectionOk`,
as many types as code sections, and returns one code type per sub-container -/
theorem validateEofCodes_ok {e : Eof} {t : Option CodeType} {l : List CodeType}
    (h : validateEofCodes e t = .ok l) :
    (∀ k, k < e.body.codeSection.length → SecOk e k) ∧
      e.body.codeSection.length = e.body.typesSection.length ∧ 0 < e.body.codeSection.length ∧
      l.length = e.body.containerSection.length := by
  unfold validateEofCodes at h
  have hx := ite_err_eq_ok h; clear h; obtain ⟨hlen, h⟩ := hx
  have hx := ite_err_eq_ok h; clear h; obtain ⟨hne, h⟩ := hx
  split at h
  · cases h
  have hx := ite_err_eq_ok h; clear h; obtain ⟨_, h⟩ := hx
  rw [bind_eq_ok] at h
  obtain ⟨tr0, h0, h⟩ := h
  rw [bind_eq_ok] at h
  obtain ⟨tr1, h1, h⟩ := h
  have hx := ite_err_eq_ok h; clear h; obtain ⟨hall, h⟩ := hx
  have hx := ite_err_eq_ok h; clear h; obtain ⟨_, h⟩ := hx
  have hx := ite_err_eq_ok h; clear h; obtain ⟨_, h⟩ := hx
  unfold Tracker.new at h0
  split at h0
  · cases h0
  simp only [R.ok.injEq] at h0
  subst h0
  have inv0 : ∀ k, ((Array.replicate e.body.codeSection.length false).setIfInBounds 0 true)[k]?
        = some true → k ∈ ([0] : List Nat) ∨ SecOk e k := by
    intro k hk
    rw [Array.getElem?_setIfInBounds] at hk
    by_cases hk0 : 0 = k
    · subst hk0; exact Or.inl (List.mem_cons_self ..)
    · rw [if_neg hk0, Array.getElem?_replicate] at hk
      split at hk <;> cases hk
  obtain ⟨r1, r2, r3⟩ := codesLoop_ok e _ _ _ h1 inv0
  dsimp only at r2 r3
  rw [Array.size_setIfInBounds, Array.size_replicate] at r2
  rw [Array.size_replicate] at r3
  have hall' : tr1.codes.all id = true := by simpa using hall
  rw [Array.all_eq_true] at hall'
  refine ⟨fun k hk => ?_, by simpa using hlen, ?_, ?_⟩
  · apply r1 k
    have hk' : k < tr1.codes.size := by omega
    rw [Array.getElem?_eq_getElem hk']
    have := hall' k hk'
    simpa using this
  · cases hc : e.body.codeSection with
    | nil => rw [hc] at hne; simp at hne
    | cons _ _ => simp
  · rw [unwrapAll_ok _ _ h, Array.length_toList, r3]

theorem validateEofCodes_container {e : Eof} {t : Option CodeType} {l : List CodeType}
    (h : validateEofCodes e t = .ok l) : ContainerOk e := by
  obtain ⟨h1, h2, h3, _⟩ := validateEofCodes_ok h
  refine ⟨h2.symm, h3, fun k code hk => ?_⟩
  have hk' : k < e.body.codeSection.length := by
    by_cases hlt : k < e.body.codeSection.length
    · exact hlt
    · rw [List.getElem?_eq_none (by omega)] at hk; cases hk
  exact (h1 k hk' code hk).1

theorem validateEofCodes_jumps {e : Eof} {t : Option CodeType} {l : List CodeType}
    (h : validateEofCodes e t = .ok l) : ContainerJumpsOk e := by
  obtain ⟨h1, _, _, _⟩ := validateEofCodes_ok h
  intro code hc
  obtain ⟨k, hk, hget⟩ := List.getElem_of_mem hc
  have hget' : e.body.codeSection[k]? = some code := by
    rw [List.getElem?_eq_getElem hk, hget]
  exact (h1 k hk code hget').2

theorem decodeChildren_ok : ∀ (cs : List (List Nat)) (ts : List CodeType)
    (r : List (Eof × Option CodeType)), decodeChildren cs ts = .ok r → cs.length ≤ ts.length →
    ∀ c, c ∈ cs → ∃ e', Eof.decode c = .ok e' ∧ ∃ t, (e', t) ∈ r
  | [], _, _, _, _, c, hc => by simp at hc
  | c0 :: cs, [], r, h, hl, c, hc => by simp at hl
  | c0 :: cs, t0 :: ts, r, h, hl, c, hc => by
    simp only [decodeChildren] at h
    rw [bind_eq_ok] at h
    obtain ⟨e0, h0, h⟩ := h
    rw [bind_eq_ok] at h
    obtain ⟨r', hr', h⟩ := h
    simp only [pure_def, R.ok.injEq] at h
    subst h
    rcases List.mem_cons.1 hc with rfl | hc
    · exact ⟨e0, mapErr_eq_ok h0, some t0, List.mem_cons_self ..⟩
    · obtain ⟨e', he', t, ht⟩ := decodeChildren_ok cs ts r' hr' (by simpa using hl) c hc
      exact ⟨e', he', t, List.mem_cons_of_mem _ ht⟩

/-- the container work-list of `validate_eof_inner`: everything on the stack is `DeepOk` -/
theorem innerLoop_ok : ∀ (fuel : Nat) (stack : List (Eof × Option CodeType)),
    innerLoop fuel stack = .ok () → ∀ p, p ∈ stack → DeepOk p.1 ∧ DeepJumpsOk p.1 := by
  intro fuel
  induction fuel with
  | zero =>
    intro stack h p hp
    cases stack with
    | nil => simp at hp
    | cons a rest => simp [innerLoop] at h
  | succ fuel ih =>
    intro stack h p hp
    cases stack with
    | nil => simp at hp
    | cons a rest =>
      obtain ⟨e, ct⟩ := a
      simp only [innerLoop] at h
      rw [bind_eq_ok] at h
      obtain ⟨tc, h1, h⟩ := h
      rw [bind_eq_ok] at h
      obtain ⟨children, h2, h3⟩ := h
      have h1' := mapErr_eq_ok h1
      have hall := ih _ h3
      rcases List.mem_cons.1 hp with rfl | hp
      · obtain ⟨_, _, _, hl⟩ := validateEofCodes_ok h1'
        have hchild : ∀ c e1, c ∈ e.body.containerSection → Eof.decode c = .ok e1 →
            DeepOk e1 ∧ DeepJumpsOk e1 := by
          intro c e1 hc he1
          obtain ⟨e', he', t, ht⟩ := decodeChildren_ok _ _ _ h2 (by omega) c hc
          rw [he1] at he'; cases he'
          exact hall (e1, t) (List.mem_append_left _ (List.mem_reverse.2 ht))
        refine ⟨DeepOk.mk e (validateEofCodes_container h1') (fun c hc => ?_)
          (fun c e1 hc he1 => (hchild c e1 hc he1).1),
          DeepJumpsOk.mk e (validateEofCodes_jumps h1') (fun c e1 hc he1 => (hchild c e1 hc he1).2)⟩
        obtain ⟨e', he', _⟩ := decodeChildren_ok _ _ _ h2 (by omega) c hc
        exact ⟨e', he'⟩
      · exact hall p (List.mem_append_right _ hp)

theorem validateEofInner_ok {e : Eof} {t : Option CodeType} (h : validateEofInner e t = .ok ()) :
    DeepOk e ∧ DeepJumpsOk e := by
  unfold validateEofInner at h
  have hx := ite_err_eq_ok h; clear h; obtain ⟨_, h⟩ := hx
  by_cases hc : e.body.containerSection.isEmpty = true
  · rw [if_pos hc, bind_eq_ok] at h
    obtain ⟨l, hl, _⟩ := h
    rw [List.isEmpty_iff] at hc
    refine ⟨DeepOk.mk e (validateEofCodes_container (mapErr_eq_ok hl)) (fun c hc' => ?_)
      (fun c _ hc' _ => ?_), DeepJumpsOk.mk e (validateEofCodes_jumps (mapErr_eq_ok hl))
      (fun c _ hc' _ => ?_)⟩
    · rw [hc] at hc'; simp at hc'
    · rw [hc] at hc'; simp at hc'
    · rw [hc] at hc'; simp at hc'
  · rw [if_neg hc] at h
    exact innerLoop_ok _ _ h (e, t) (List.mem_cons_self ..)

theorem validateRaw_deep' {bs : List Nat} {t : Option CodeType} {e : Eof}
    (h : validateRawEofInner bs t = .ok e) : DeepOk e ∧ DeepJumpsOk e := by
  unfold validateRawEofInner at h
  have hx := ite_err_eq_ok h; clear h; obtain ⟨_, h⟩ := hx
  rw [bind_eq_ok] at h
  obtain ⟨e', h1, h⟩ := h
  rw [bind_eq_ok] at h
  obtain ⟨u, h2, h⟩ := h
  simp only [pure_def, R.ok.injEq] at h
  subst h
  cases u
  exact validateEofInner_ok h2

theorem validateRaw_deep {bs : List Nat} {t : Option CodeType} {e : Eof}
    (h : validateRawEofInner bs t = .ok e) : DeepOk e := (validateRaw_deep' h).1

theorem validateRaw_deepJumps {bs : List Nat} {t : Option CodeType} {e : Eof}
    (h : validateRawEofInner bs t = .ok e) : DeepJumpsOk e := (validateRaw_deep' h).2

theorem deepOk_sub {e e' : Eof} (hs : SubOf e e') : DeepOk e → DeepOk e' := by
  induction hs with
  | refl => exact id
  | sub hc hd _ ih =>
    intro h
    cases h with
    | mk _ _ _ h3 => exact ih (h3 _ _ hc hd)

theorem deepJumpsOk_sub {e e' : Eof} (hs : SubOf e e') : DeepJumpsOk e → DeepJumpsOk e' := by
  induction hs with
  | refl => exact id
  | sub hc hd _ ih =>
    intro h
    cases h with
    | mk _ _ h3 => exact ih (h3 _ _ hc hd)

theorem deepOk_container {e : Eof} (h : DeepOk e) : ContainerOk e := by
  cases h with
  | mk _ h1 _ _ => exact h1

theorem deepJumpsOk_container {e : Eof} (h : DeepJumpsOk e) : ContainerJumpsOk e := by
  cases h with
  | mk _ h1 _ => exact h1

/-- every (transitive) sub-container of an accepted container is `ContainerOk` and has all its
relative jumps on instruction starts -/
theorem validateRaw_sub {bs : List Nat} {t : Option CodeType} {e e' : Eof}
    (h : validateRawEofInner bs t = .ok e) (hs : SubOf e e') :
    ContainerOk e' ∧ ContainerJumpsOk e' :=
  ⟨deepOk_container (deepOk_sub hs (validateRaw_deep h)),
   deepJumpsOk_container (deepJumpsOk_sub hs (validateRaw_deepJumps h))⟩

end Revm.Proofs.EofValidate
