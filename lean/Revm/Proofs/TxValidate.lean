import Revm.Proofs.GasCalcTx
import Revm.Spec.TxValid
/-! C02, validation part: the code-shaped `Model.TxValidate.validate` against `Spec.TxValid`
(core Lean only). Stage by stage, `stage = resOf (firstViolated (rules of the stage))`. -/
set_option linter.unusedSimpArgs false
set_option linter.unusedVariables false
namespace Revm.Proofs.TxValidate
open Revm
open Revm.Model.GasCalc (enabled canon calculateInitialTxGas)
open Revm.Model.GasCalc.SpecId
open Revm.Model.TxValidate
open Revm.Spec.GasCalc (Fork intrinsicGas floorGas)
open Revm.Spec.TxValid

/-! ### plumbing -/

/-- the reply of a stage whose first violated rule is `o` -/
def resOf : Option Err → Res
  | none => .ok
  | some e => .err e

theorem andThen_ok (k : Res) : Res.ok.andThen k = k := rfl
theorem andThen_err (e : Err) (k : Res) : (Res.err e).andThen k = .err e := rfl
theorem andThen_panic (k : Res) : Res.panic.andThen k = .panic := rfl

theorem andThen_eq_ok (r k : Res) : r.andThen k = .ok ↔ r = .ok ∧ k = .ok := by
  cases r <;> simp [Res.andThen]

theorem andThen_congr (r k k' : Res) (h : r = .ok → k = k') : r.andThen k = r.andThen k' := by
  cases r with
  | ok => simp only [andThen_ok]; exact h rfl
  | err e => rfl
  | panic => rfl

theorem fv_append (l1 l2 : List Rule) :
    resOf (firstViolated (l1 ++ l2)) = (resOf (firstViolated l1)).andThen (resOf (firstViolated l2)) := by
  induction l1 with
  | nil => rfl
  | cons r rs ih =>
    obtain ⟨e, b⟩ := r
    cases b
    · simp [firstViolated, resOf, Res.andThen]
    · simpa [firstViolated] using ih

theorem fv_none_iff (l : List Rule) : firstViolated l = none ↔ ∀ r ∈ l, r.2 = true := by
  induction l with
  | nil => simp [firstViolated]
  | cons r rs ih =>
    obtain ⟨e, b⟩ := r
    cases b <;> simp [firstViolated, ih]

theorem resOf_eq_ok (o : Option Err) : resOf o = .ok ↔ o = none := by
  cases o <;> simp [resOf]

/-- one rule in front of a list -/
theorem fv_cons (e : Err) (b : Bool) (l : List Rule) :
    resOf (firstViolated ((e, b) :: l)) = if b then resOf (firstViolated l) else .err e := by
  cases b <;> simp [firstViolated, resOf]

theorem fv_pos {P : Prop} [Decidable P] (e : Err) (l : List Rule) (h : P) :
    resOf (firstViolated ((e, decide P) :: l)) = resOf (firstViolated l) := by
  rw [fv_cons, decide_eq_true h]; rfl
theorem fv_neg {P : Prop} [Decidable P] (e : Err) (l : List Rule) (h : ¬ P) :
    resOf (firstViolated ((e, decide P) :: l)) = .err e := by
  rw [fv_cons, decide_eq_false h]; rfl
theorem decide_congr_iff {p q : Prop} [Decidable p] [Decidable q] (h : p ↔ q) : decide p = decide q :=
  decide_eq_decide.mpr h
theorem fv_nil : resOf (firstViolated []) = .ok := rfl

/-! ### the gates after `spec_to_generic!` -/

theorem enc_berlin (f : Fork) : enabled (canon f.id) BERLIN = hasEIP2930 f := by cases f <;> rfl
theorem enc_london (f : Fork) : enabled (canon f.id) LONDON = hasEIP1559 f := by cases f <;> rfl
theorem enc_merge (f : Fork) : enabled (canon f.id) MERGE = hasMerge f := by cases f <;> rfl
theorem enc_shanghai (f : Fork) : enabled (canon f.id) SHANGHAI = hasEIP3860 f := by cases f <;> rfl
theorem enc_cancun (f : Fork) : enabled (canon f.id) CANCUN = hasEIP4844 f := by cases f <;> rfl
theorem enc_prague (f : Fork) : enabled (canon f.id) PRAGUE = hasEIP7702 f := by cases f <;> rfl
theorem canon_of_cancun (f : Fork) (h : hasEIP4844 f = true) : canon f.id = f.id := by
  cases f <;> first | rfl | (exact absurd h (by decide))
theorem gates_mono (f : Fork) :
    (hasEIP7702 f = true → hasEIP4844 f = true) ∧ (hasEIP4844 f = true → hasEIP3860 f = true) ∧
    (hasEIP3860 f = true → hasMerge f = true) ∧ (hasMerge f = true → hasEIP1559 f = true) ∧
    (hasEIP1559 f = true → hasEIP2930 f = true) := by cases f <;> decide
theorem eip7702_eq (f : Fork) : hasEIP7702 f = Fork.hasEIP7623 f := by cases f <;> rfl

/-! ### header -/

theorem validateBlockEnv_eq (f : Fork) (blk : Block) :
    validateBlockEnv (canon f.id) blk = resOf (firstViolated (rulesHeader f blk)) := by
  unfold validateBlockEnv rulesHeader
  rw [enc_merge, enc_cancun]
  cases hasMerge f <;> cases hasEIP4844 f <;> cases blk.prevrandaoSet <;> cases blk.blobGasPrice <;>
    simp [firstViolated, resOf]

/-! ### `validate_tx` -/

theorem feeChecks_eq (f : Fork) (blk : Block) (tx : Tx)
    (hwrap : hasEIP1559 f = true → ∀ p, tx.priorityFee = some p → blk.basefee + p < W) :
    feeChecks (canon f.id) blk tx = resOf (firstViolated
      [(.PriorityFeeGreaterThanMaxFee, decide (hasEIP1559 f = true → PriorityOk tx)),
       (.GasPriceLessThanBasefee, decide (hasEIP1559 f = true → blk.basefee ≤ tx.gasPrice))]) := by
  by_cases hP1 : (hasEIP1559 f = true → PriorityOk tx) <;>
  by_cases hP2 : (hasEIP1559 f = true → blk.basefee ≤ tx.gasPrice) <;>
  (first | rw [fv_pos _ _ hP1] | rw [fv_neg _ _ hP1]) <;>
  (try first | rw [fv_pos _ _ hP2] | rw [fv_neg _ _ hP2]) <;>
  (try rw [fv_nil]) <;>
  unfold PriorityOk at hP1 <;>
  unfold feeChecks effectiveGasPrice <;>
  rw [enc_london] <;>
  cases hl : hasEIP1559 f <;> simp only [hl, Bool.false_eq_true, if_false, if_true, forall_const, false_implies, not_true_eq_false] at hP1 hP2 ⊢ <;>
  (cases hp : tx.priorityFee with
    | none =>
      simp only [hp, Bool.false_eq_true, if_false, not_true_eq_false] at hP1 hP2 ⊢
      repeat' split
      all_goals first | rfl | (exfalso; omega)
    | some p =>
      have hw := hwrap hl p hp
      have hadd : U256.wadd blk.basefee p = blk.basefee + p := Nat.mod_eq_of_lt hw
      simp only [hp, hadd, decide_eq_true_eq] at hP1 hP2 ⊢
      rw [Nat.min_def]
      repeat' split
      all_goals first | rfl | (exfalso; omega))

theorem maxInitcodeSize_cmp (cfg : Cfg) (len : Nat) (hlen : len < U64) :
    len > maxInitcodeSize cfg ↔ ¬ len ≤ 2 * maxCodeSize cfg := by
  have hU := U64_val
  unfold maxInitcodeSize maxCodeSize MAX_INITCODE_SIZE U64ops.saturatingMul
  cases cfg.limitContractCodeSize with
  | none => simp only [Option.getD_none]; omega
  | some l => simp only [Option.getD_some]; split <;> omega

theorem initcodeCheck_eq (f : Fork) (cfg : Cfg) (tx : Tx) (hlen : tx.data.length < U64) :
    initcodeCheck (canon f.id) cfg tx
      = resOf (firstViolated [(.CreateInitCodeSizeLimit, decide (InitcodeOk f cfg tx))]) := by
  have hc := maxInitcodeSize_cmp cfg tx.data.length hlen
  by_cases hP : InitcodeOk f cfg tx <;>
  (first | rw [fv_pos _ _ hP] | rw [fv_neg _ _ hP]) <;> (try rw [fv_nil]) <;>
  unfold InitcodeOk at hP <;>
  unfold initcodeCheck <;>
  rw [enc_shanghai] <;>
  cases h1 : hasEIP3860 f <;> cases h2 : tx.isCreate <;>
  simp only [h1, h2, Bool.and_true, Bool.and_false, Bool.false_eq_true, if_false, if_true, forall_const,
    false_implies, not_true_eq_false] at hP ⊢
  · rw [if_neg (fun h => (hc.1 h) hP)]
  · rw [if_pos (hc.2 hP)]

/-- reverse `find` = forward fold that keeps the last match -/
theorem rev_find_fold (p : Nat × Nat → Bool) (l : List (Nat × Nat)) (d : Nat) :
    (match l.reverse.find? p with
     | some e => e.2
     | none => d) = l.foldl (fun cur e => if p e then e.2 else cur) d := by
  induction l generalizing d with
  | nil => rfl
  | cons x xs ih =>
    rw [List.reverse_cons, List.find?_append, List.foldl_cons, ← ih]
    cases h : xs.reverse.find? p with
    | some e => simp
    | none =>
      by_cases hx : p x <;> simp [List.find?, hx]

theorem blobMaxCount_eq (cfg : Cfg) (f : Fork) (h : hasEIP4844 f = true) :
    blobMaxCount cfg (canon f.id) = maxBlobs cfg f := by
  unfold blobMaxCount maxBlobs
  rw [canon_of_cancun f h]
  have := rev_find_fold (fun e => decide (f.id ≥ e.1)) cfg.blobSchedule 6
  simp only [ge_iff_le, decide_eq_true_eq] at this ⊢
  exact this

theorem any_ne_iff (l : List Nat) :
    l.any (fun v => v != VERSIONED_HASH_VERSION_KZG) = true ↔ ¬ ∀ v ∈ l, v = 1 := by
  unfold VERSIONED_HASH_VERSION_KZG
  simp [List.any_eq_true]

/-- the seven blob rules of `rulesTx` -/
def rulesBlob (f : Fork) (cfg : Cfg) (blk : Block) (tx : Tx) : List Rule :=
  [(.BlobVersionedHashesNotSupported,
      decide ((tx.maxFeePerBlobGas.isSome = true ∨ tx.blobHashes ≠ []) → hasEIP4844 f = true)),
   (.BlobGasPriceGreaterThanMax, decide (BlobPriceOk blk tx)),
   (.EmptyBlobs, decide (tx.maxFeePerBlobGas.isSome = true → tx.blobHashes ≠ [])),
   (.BlobCreateTransaction, decide (tx.maxFeePerBlobGas.isSome = true → tx.isCreate = false)),
   (.BlobVersionNotSupported, decide (tx.maxFeePerBlobGas.isSome = true → ∀ v ∈ tx.blobHashes, v = 1)),
   (.TooManyBlobs, decide (tx.maxFeePerBlobGas.isSome = true → tx.blobHashes.length ≤ maxBlobs cfg f)),
   (.BlobVersionedHashesNotSupported, decide (tx.maxFeePerBlobGas = none → tx.blobHashes = []))]

theorem blobPriceOk_none (blk : Block) (tx : Tx) (h : tx.maxFeePerBlobGas = none) : BlobPriceOk blk tx := by
  unfold BlobPriceOk; rw [h]; trivial
theorem blobPriceOk_some (blk : Block) (tx : Tx) (m price : Nat) (h : tx.maxFeePerBlobGas = some m)
    (hb : blk.blobGasPrice = some price) : BlobPriceOk blk tx ↔ price ≤ m := by
  unfold BlobPriceOk; rw [h, hb]

theorem blobChecks_eq (f : Fork) (cfg : Cfg) (blk : Block) (tx : Tx)
    (hhdr : hasEIP4844 f = true → blk.blobGasPrice.isSome = true) :
    blobChecks (canon f.id) cfg blk tx = resOf (firstViolated (rulesBlob f cfg blk tx)) := by
  unfold blobChecks rulesBlob
  rw [enc_cancun]
  cases hc : hasEIP4844 f
  · -- before Cancun
    cases hm : tx.maxFeePerBlobGas with
    | none =>
      rw [decide_eq_true (blobPriceOk_none blk tx hm)]
      cases hh : tx.blobHashes <;> simp [firstViolated, resOf]
    | some m => simp [firstViolated, resOf]
  · have hmax := blobMaxCount_eq cfg f hc
    rw [hmax]
    have hb := hhdr hc
    cases hbp : blk.blobGasPrice with
    | none => rw [hbp] at hb; simp at hb
    | some price =>
      cases hm : tx.maxFeePerBlobGas with
      | none =>
        rw [decide_eq_true (blobPriceOk_none blk tx hm)]
        cases hh : tx.blobHashes <;> simp [firstViolated, resOf]
      | some m =>
        rw [decide_congr_iff (blobPriceOk_some blk tx m price hm hbp)]
        simp only [Bool.not_true, Bool.false_and, Bool.false_eq_true, if_false, Bool.true_and]
        by_cases h1 : price > m
        · have : ¬ price ≤ m := by omega
          simp [firstViolated, resOf, h1, this]
        · have h1' : price ≤ m := by omega
          cases hh : tx.blobHashes with
          | nil => simp [firstViolated, resOf, h1, h1']
          | cons v vs =>
            cases hcr : tx.isCreate
            · by_cases h3 : (v :: vs).any (fun v => v != VERSIONED_HASH_VERSION_KZG) = true
              · have h3' := (any_ne_iff (v :: vs)).1 h3
                have h3'' : ¬ (v = 1 ∧ ∀ a ∈ vs, a = 1) := by
                  intro ⟨a, b⟩
                  apply h3'
                  intro x hx
                  simp at hx
                  rcases hx with rfl | hx
                  · exact a
                  · exact b x hx
                rw [if_neg (by omega), if_neg (by simp), if_neg (by simp), if_pos h3]
                simp [firstViolated, resOf, h1, h1', h3'']
              · have h3' : ∀ x ∈ (v :: vs), x = 1 := by
                  by_cases h : ∀ x ∈ (v :: vs), x = 1
                  · exact h
                  · exact absurd ((any_ne_iff (v :: vs)).2 h) h3
                have hv : v = 1 := h3' v (by simp)
                have hvs : ∀ x ∈ vs, x = 1 := fun x hx => h3' x (by simp [hx])
                by_cases h4 : (v :: vs).length > maxBlobs cfg f
                · have : ¬ (vs.length + 1 ≤ maxBlobs cfg f) := by simp at h4; omega
                  rw [if_neg (by omega), if_neg (by simp), if_neg (by simp), if_neg h3, if_pos (by simpa using h4)]
                  simp [firstViolated, resOf, h1, h1', hv, hvs, this]
                  rw [if_pos hvs]
                · have : vs.length + 1 ≤ maxBlobs cfg f := by simp at h4; omega
                  rw [if_neg (by omega), if_neg (by simp), if_neg (by simp), if_neg h3, if_neg (by simpa using h4)]
                  simp [firstViolated, resOf, h1, h1', hv, hvs, this]
                  rw [if_pos hvs]
            · simp [firstViolated, resOf, h1, h1']

/-- the four authorization-list rules of `rulesTx` -/
def rulesAuth (f : Fork) (tx : Tx) : List Rule :=
  [(.AuthorizationListNotSupported, decide (tx.authList.isSome = true → hasEIP7702 f = true)),
   (.EmptyAuthorizationList, decide (tx.authList ≠ some 0)),
   (.AuthorizationListInvalidFields,
      decide (tx.authList.isSome = true → tx.maxFeePerBlobGas = none ∧ tx.blobHashes = [])),
   (.AuthorizationListInvalidFields, decide (tx.authList.isSome = true → tx.isCreate = false))]

theorem authChecks_eq (f : Fork) (tx : Tx) :
    authChecks (canon f.id) tx = resOf (firstViolated (rulesAuth f tx)) := by
  unfold authChecks rulesAuth
  rw [enc_prague]
  cases hasEIP7702 f <;> cases ha : tx.authList with
  | none => simp [firstViolated, resOf]
  | some n =>
    by_cases hn : n = 0
    · subst hn; simp [firstViolated, resOf]
    · cases tx.maxFeePerBlobGas <;> cases tx.blobHashes <;> cases tx.isCreate <;>
        simp [firstViolated, resOf, hn]

end Revm.Proofs.TxValidate
