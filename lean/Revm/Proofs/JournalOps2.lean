import Revm.Proofs.JournalOps
/-! C06, step R2 continued: the operations that move balances (`transfer`, `selfdestruct`,
`create_account_checkpoint`). -/
namespace Revm.Proofs.Journal
open Revm Revm.Model.Journal Revm.Spec.JournalAbs
set_option linter.unusedSimpArgs false
set_option linter.unusedVariables false

theorem wadd_sub_cancel {b v : Nat} (hb : b < W) (hv : v ≤ b) : U256.wadd (b - v) v = b := by
  unfold U256.wadd; rw [Nat.sub_add_cancel hv]; exact Nat.mod_eq_of_lt hb

theorem bsub_add_cancel (t v : Nat) : bsub (t + v) v = t := by
  unfold bsub; simp

theorem bsub_wadd_cancel {t v : Nat} (ht : t < W) (hv : v < W) : bsub (U256.wadd t v) v = t := by
  have hW := W_val
  unfold bsub U256.wadd
  by_cases h : t + v < W
  · rw [Nat.mod_eq_of_lt h]; simp
  · have e : (t + v) % W = t + v - W := by
      rw [Nat.mod_eq_sub_mod (by omega)]; exact Nat.mod_eq_of_lt (by omega)
    rw [e]
    have : ¬ v ≤ t + v - W := by omega
    simp [this]; omega

theorem wadd_zero_left {v : Nat} (hv : v < W) : U256.wadd 0 v = v := by
  unfold U256.wadd; simp; exact Nat.mod_eq_of_lt hv

theorem wadd_lt (a b : Nat) : U256.wadd a b < W := by
  unfold U256.wadd; exact Nat.mod_lt _ (by rw [W_val]; decide)

theorem bsub_lt {a b : Nat} (ha : a < W) : bsub a b < W := by
  unfold bsub; by_cases h : b ≤ a <;> simp [h] <;> omega

def setBal (x : AState) (f : Addr → Nat) : AState := { x with balance := f }

/-- entries that only clear touched marks commute with a rewrite of the balance map -/
theorem undoTs_touched_setBal (sd : Bool) (td : List Entry) (htd : ∀ e ∈ td, ∃ a, e = Entry.accountTouched a)
    (x : AState) (f : Addr → Nat) :
    undoTs sd (setBal x f) td = setBal (undoTs sd x td) f := by
  induction td generalizing x with
  | nil => rfl
  | cons e es ih =>
    obtain ⟨a, rfl⟩ := htd e (by simp)
    simp only [undoTs]
    have : undoT sd (setBal x f) (Entry.accountTouched a) = setBal (undoT sd x (Entry.accountTouched a)) f := rfl
    rw [this]
    exact ih (fun e he => htd e (by simp [he])) _

theorem touchedOnly_ite (c : Bool) (a : Addr) :
    ∀ e ∈ (if c then [] else [Entry.accountTouched a]), ∃ a, e = Entry.accountTouched a := by
  cases c <;> simp


theorem absT_setAcct_bal (db : Db) {s : JState} {a : Addr} {acc : Acct} (hs : s.state a = some acc) (n : Nat) :
    absT db (setAcct s a { acc with info := { acc.info with balance := n } }) =
      setBal (absT db s) (upd (absT db s).balance a n) := by
  have ha := absAcct_some db s hs
  simp [absT_setAcct, putA, absOf, ha, upd_self', absSlot_some, setBal]

theorem absT_balance_some (db : Db) {s : JState} {a : Addr} {acc : Acct} (hs : s.state a = some acc) :
    (absT db s).balance a = acc.info.balance := by
  simp [absAcct_some db s hs, absOf]

theorem setBal_self (x : AState) : setBal x x.balance = x := rfl
theorem setBal_setBal (x : AState) (f g : Addr → Nat) : setBal (setBal x f) g = setBal x g := rfl
@[simp] theorem setBal_balance (x : AState) (f : Addr → Nat) : (setBal x f).balance = f := rfl

/-- the unjournaled debit of `transfer`, a touch, and then either the credit plus its entry or the refund -/
theorem transfer_tail {db : Db} {s3 s5 sF : JState} {src : Addr} {fa : Acct} {v : Nat} {td es : List Entry}
    (hs3 : s3.state src = some fa)
    (p45 : Pushes db (setAcct s3 src { fa with info := { fa.info with balance := fa.info.balance - v } }) s5 td)
    (htd : ∀ e ∈ td, ∃ a, e = Entry.accountTouched a)
    (hjF : ∀ top rest, s5.journal = top :: rest → sF.journal = (es ++ top) :: rest)
    (hspec : sF.spec = s5.spec) (hpre : sF.preloaded = s5.preloaded) (hlogs : sF.logs = s5.logs)
    (hundo : undoTs (sdOf s3) (absT db sF) es = setBal (absT db s5) (absT db s3).balance)
    (hz : ∀ a, Entry.accountCreated a ∈ es → ∀ k, db.storage a k = 0)
    (hbF : BalOk (absT db s3) → BalOk (absT db sF))
    (hgF : Grows s5 sF) (hrF : ∀ e, e ∈ es → refsOk sF e)
    (hnA : ∀ b, Entry.accountWarmed b ∉ es := by simp)
    (hnS : ∀ b k, Entry.storageWarmed b k ∉ es := by simp) :
    Pushes db s3 sF (es ++ td) := by
  have g34 : Grows s3 (setAcct s3 src { fa with info := { fa.info with balance := fa.info.balance - v } }) :=
    Grows.upd hs3 rfl
  have g35 : Grows s3 s5 := Grows.trans g34 p45.grows
  refine ⟨fun t r ht => ?_, ?_, ?_, ?_, ?_, ?_, hbF, ?_, ?_, Grows.trans g35 hgF, fun e he => ?_⟩
  rotate_right
  · rcases List.mem_append.1 he with h | h
    · exact hrF e h
    · exact refsOk_mono hgF (p45.refs e h)
  · rw [hjF _ _ (p45.journal t r (by simpa using ht)), List.append_assoc]
  · rw [hspec, p45.spec]; rfl
  · rw [hpre, p45.pre]; rfl
  · rw [hlogs, p45.logs]; rfl
  · rw [undoTs_append, hundo, undoTs_touched_setBal _ _ htd]
    have := p45.undo
    rw [show sdOf (setAcct s3 src _) = sdOf s3 from rfl] at this
    rw [this, absT_setAcct_bal db hs3, setBal_setBal, setBal_self]
  · intro a ha; rcases List.mem_append.1 ha with h | h
    · exact hz a h
    · obtain ⟨b, hb⟩ := htd _ h; cases hb
  · intro b hb; rcases List.mem_append.1 hb with h | h
    · exact absurd h (hnA b)
    · obtain ⟨c, hc⟩ := htd _ h; cases hc
  · intro b k hb; rcases List.mem_append.1 hb with h | h
    · exact absurd h (hnS b k)
    · obtain ⟨c, hc⟩ := htd _ h; cases hc


theorem bal_transfer_undo (B : Addr → Nat) (src dst : Addr) (v : Nat) (hb : B src < W) (hv : v ≤ B src)
    (ht : (upd B src (B src - v)) dst + v < W) :
    upd (upd (upd (upd B src (B src - v)) dst ((upd B src (B src - v)) dst + v)) src
          (U256.wadd ((upd (upd B src (B src - v)) dst ((upd B src (B src - v)) dst + v)) src) v)) dst
        (bsub ((upd (upd (upd B src (B src - v)) dst ((upd B src (B src - v)) dst + v)) src
          (U256.wadd ((upd (upd B src (B src - v)) dst ((upd B src (B src - v)) dst + v)) src) v)) dst) v) = B := by
  by_cases hsd : src = dst
  · subst hsd
    have hvW : v < W := Nat.lt_of_le_of_lt hv hb
    simp only [upd_same, upd_upd_same, Nat.sub_add_cancel hv, bsub_wadd_cancel hb hvW]
    exact upd_self' rfl
  · have hds : ¬ dst = src := fun h => hsd h.symm
    funext x
    by_cases hx : x = dst
    · subst hx; simp [upd, hsd, hds, bsub_add_cancel]
    · by_cases hx2 : x = src
      · subst hx2; simp [upd, hsd, hds, wadd_sub_cancel hb hv]
      · simp [upd, hx, hx2]

theorem transfer_pushes {db : Db} {s s' : JState} {src dst : Addr} {v : Nat} {r : Option TransferErr}
    (hbal : BalOk (absT db s)) (h : transfer db s src dst v = some (s', r)) :
    (∃ es, Pushes db s s' es) ∧ Warms db s s' [src, dst] [] := by
  simp only [transfer, bind, Option.bind] at h
  cases hl1 : loadAccount db s src with
  | none => simp [hl1] at h
  | some r1 =>
    obtain ⟨s1, c1⟩ := r1
    obtain ⟨p1, hc1, _⟩ := loadAccount_pushes hl1
    have w1 := Warms.of_load p1 hc1
    simp [hl1] at h
    cases hl2 : loadAccount db s1 dst with
    | none => simp [hl2] at h
    | some r2 =>
      obtain ⟨s2, c2⟩ := r2
      obtain ⟨p2, hc2, _⟩ := loadAccount_pushes hl2
      have w12 : Warms db s s2 [src, dst] [] := by simpa using Warms.trans w1 (Warms.of_load p2 hc2)
      have wrest : ∀ {sF : JState} {es : List Entry}, Pushes db s2 sF es → NoWarm es → Warms db s sF [src, dst] [] := by
        intro sF es p hn; simpa using Warms.trans w12 (p.warms_nil hn)
      have nwBT : NoWarm [Entry.balanceTransfer src dst v] :=
        NoWarm.single (fun _ h => by cases h) (fun _ _ h => by cases h)
      simp [hl2] at h
      cases hs2 : s2.state src with
      | none => simp [hs2] at h
      | some fa0 =>
        simp [hs2] at h
        cases ht1 : touchAccount s2 src fa0 with
        | none => simp [ht1] at h
        | some r3 =>
          obtain ⟨s3, fa⟩ := r3
          obtain ⟨p3, hs3, _, _, _⟩ := touchAccount_pushes (db := db) hs2 ht1
          have p03 := Pushes.trans (Pushes.trans p1 p2) p3
          have hbal3 : BalOk (absT db s3) := p03.bal hbal
          have hb : fa.info.balance < W := by rw [← absT_balance_some db hs3]; exact hbal3 src
          simp [ht1] at h
          by_cases hf : fa.info.balance < v
          · simp [hf] at h; obtain ⟨h1, _⟩ := h; subst h1; exact ⟨⟨_, p03⟩, wrest p3 (NoWarm.touched _ _)⟩
          · have hv : v ≤ fa.info.balance := Nat.le_of_not_lt hf
            simp [hf] at h
            generalize hs4 : setAcct s3 src { fa with info := { fa.info with balance := fa.info.balance - v } } = s4 at h
            cases hd4 : s4.state dst with
            | none => simp [hd4] at h
            | some ta0 =>
              simp [hd4] at h
              cases ht2 : touchAccount s4 dst ta0 with
              | none => simp [ht2] at h
              | some r5 =>
                obtain ⟨s5, ta⟩ := r5
                obtain ⟨p45, hs5, _, hne5, hb5⟩ := touchAccount_pushes (db := db) hd4 ht2
                subst hs4
                have hB5 : (absT db s5).balance = upd (absT db s3).balance src (fa.info.balance - v) := by
                  rw [hb5, absT_setAcct_bal db hs3]; rfl
                have hta : ta.info.balance = (upd (absT db s3).balance src (fa.info.balance - v)) dst := by
                  rw [← hB5, absT_balance_some db hs5]
                have hfa : (absT db s3).balance src = fa.info.balance := absT_balance_some db hs3
                simp [ht2] at h
                by_cases ho : W ≤ ta.info.balance + v
                · simp [ho] at h
                  cases hs5s : s5.state src with
                  | none => simp [hs5s] at h
                  | some f =>
                    simp [hs5s] at h; obtain ⟨h1, _⟩ := h; subst h1
                    have hfb : f.info.balance = fa.info.balance - v := by
                      rw [← absT_balance_some db hs5s, hB5]; simp
                    have ptail : Pushes db s3 (setAcct s5 src { f with info := { f.info with balance := U256.wadd f.info.balance v } }) ([] ++ _) :=
                      transfer_tail (es := []) hs3 p45 (touchedOnly_ite _ _)
                      (fun _ _ h => by simpa using h) rfl rfl rfl ?_ (by simp) ?_
                      (hgF := Grows.upd hs5s rfl) (hrF := fun _ h => by simp at h)
                    refine ⟨⟨_, Pushes.trans p03 ptail⟩, wrest (Pushes.trans p3 ptail)
                      (NoWarm.append (NoWarm.append NoWarm.nil (NoWarm.touched _ _)) (NoWarm.touched _ _))⟩
                    · simp only [undoTs]
                      rw [absT_setAcct_bal db hs5s, hB5, hfb, wadd_sub_cancel hb hv, upd_upd_same, upd_self' hfa]
                    · intro _; apply BalOk.of_eq (x := absT db s3) _ hbal3
                      rw [absT_setAcct_bal db hs5s, hB5, hfb, wadd_sub_cancel hb hv, upd_upd_same, upd_self' hfa]; rfl
                · simp [ho] at h
                  have hlt : ta.info.balance + v < W := Nat.lt_of_not_le ho
                  cases hp : pushEntry (setAcct s5 dst { ta with info := { ta.info with balance := ta.info.balance + v } })
                      (.balanceTransfer src dst v) with
                  | none => simp [hp] at h
                  | some s7 =>
                  simp [hp] at h; obtain ⟨h1, _⟩ := h; subst h1
                  have p7 := pushEntry_some hp
                  have e7 : absT db s7 = setBal (absT db s5) (upd (absT db s5).balance dst (ta.info.balance + v)) := by
                    rw [p7.absT db, absT_setAcct_bal db hs5]
                  have hfin := bal_transfer_undo (absT db s3).balance src dst v (by rw [hfa]; exact hb)
                    (by rw [hfa]; exact hv) (by rw [hfa, ← hta]; exact hlt)
                  rw [hfa, ← hta] at hfin
                  have ptail : Pushes db s3 s7 ([.balanceTransfer src dst v] ++ _) :=
                    transfer_tail (es := [.balanceTransfer src dst v]) hs3 p45
                    (touchedOnly_ite _ _) (fun t r hj => by simpa using p7.journal t r (by simpa using hj))
                    p7.spec p7.pre p7.logs ?_ (by simp) ?_
                    (hgF := Grows.congr_right p7.state (Grows.upd hs5 rfl))
                    (hrF := fun e he => by
                      simp at he; subst he
                      refine refsOk_congr p7.state ?_
                      have hsrc : ((setAcct s5 dst { ta with info := { ta.info with balance := ta.info.balance + v } }).state src).isSome := by
                        by_cases e : src = dst
                        · subst e; simp [setAcct_state_same]
                        · rw [setAcct_state_ne _ _ e]
                          exact p45.grows.acct src (by simp [setAcct_state_same])
                      exact ⟨hsrc, by simp [setAcct_state_same]⟩)
                  refine ⟨⟨_, Pushes.trans p03 ptail⟩, wrest (Pushes.trans p3 ptail)
                    (NoWarm.append (NoWarm.append nwBT (NoWarm.touched _ _)) (NoWarm.touched _ _))⟩
                  · simp only [undoTs, e7, hB5]
                    show setBal (absT db s5) _ = _
                    simp only [setBal_balance]
                    rw [hfin]
                  · intro _; rw [e7, hB5]; intro x
                    simp only [setBal_balance]
                    by_cases hx : x = dst
                    · subst hx; simpa using hlt
                    · rw [upd_ne' hx]
                      by_cases hx2 : x = src
                      · subst hx2; simp; omega
                      · rw [upd_ne' hx2]; exact hbal3 x



theorem upd_upd_upd_ne {α : Type} (g : Addr → α) {a t : Addr} (w u z : α) (h : ¬ a = t) :
    upd (upd (upd g t w) a u) t z = upd (upd g t z) a u := by
  funext b; unfold upd; by_cases hb : b = t
  · subst hb; have : ¬ b = a := fun e => h e.symm; simp [this]
  · simp [hb]

/-- `selfdestruct`, the part after the target is loaded, `a = target` -/
theorem selfdestruct_self {db : Db} {s sF : JState} {a : Addr} {acc : Acct} (cond : Prop) [Decidable cond]
    (hbal : BalOk (absT db s)) (hs : s.state a = some acc)
    (h : (if cond then
            pushEntry (setAcct s a { acc with selfdestructed := true, info := { acc.info with balance := 0 } })
              (.accountDestroyed a a acc.selfdestructed acc.info.balance)
          else some s) = some sF) : ∃ es, Pushes db s sF es ∧ NoWarm es := by
  have ha := absAcct_some db s hs
  have hb : acc.info.balance < W := by rw [← absT_balance_some db hs]; exact hbal a
  by_cases hc : cond
  · rw [if_pos hc] at h
    refine ⟨_, Pushes.of_push h rfl rfl rfl rfl ?_ (by simp) ?_ (hg := Grows.upd hs rfl)
        (hr := by simp [refsOk, setAcct_state_same]),
      NoWarm.single (fun _ h => by cases h) (fun _ _ h => by cases h)⟩
    · simp [absT_setAcct, putA, undoT, absOf, upd_upd_same, ha, upd_self', absSlot_some, wadd_zero_left hb]
    · intro _ x
      simp only [absT_setAcct, putA, absOf]
      by_cases hx : x = a
      · subst hx; simp; rw [W_val]; decide
      · rw [upd_ne' hx]; exact hbal x
  · rw [if_neg hc] at h; simp at h; subst h; exact ⟨[], Pushes.refl db s, NoWarm.nil⟩


theorem Grows.upd2 {s : JState} {a t : Addr} {acc tacc acc' tacc' : Acct} (hs : s.state a = some acc)
    (ht : s.state t = some tacc) (hat : ¬ a = t) (h1 : tacc'.storage = tacc.storage) (h2 : acc'.storage = acc.storage) :
    Grows s (Model.Journal.setAcct (Model.Journal.setAcct s t tacc') a acc') :=
  Grows.trans (Grows.upd (acc' := tacc') ht h1) (Grows.upd (acc := acc) ((setAcct_state_ne s _ hat).trans hs) h2)

/-- `selfdestruct`, `a ≠ target`: credit of the (touched) target, then the debit of `a` with its entry -/
theorem selfdestruct_other {db : Db} {s sF : JState} {a t : Addr} {acc tacc : Acct} (cond : Prop) [Decidable cond]
    (hat : ¬ a = t)
    (hbal : BalOk (absT db s)) (hs : s.state a = some acc) (hst : s.state t = some tacc)
    (h : (if cond then
            pushEntry (setAcct (setAcct s t { tacc with info := { tacc.info with balance := U256.wadd tacc.info.balance acc.info.balance } })
                a { acc with selfdestructed := true, info := { acc.info with balance := 0 } })
              (.accountDestroyed a t acc.selfdestructed acc.info.balance)
          else
            pushEntry (setAcct (setAcct s t { tacc with info := { tacc.info with balance := U256.wadd tacc.info.balance acc.info.balance } })
                a { acc with info := { acc.info with balance := 0 } })
              (.balanceTransfer a t acc.info.balance)) = some sF) : ∃ es, Pushes db s sF es ∧ NoWarm es := by
  have ha := absAcct_some db s hs
  have hta' := absAcct_some db s hst
  have hta : ¬ t = a := fun e => hat e.symm
  have hb : acc.info.balance < W := by rw [← absT_balance_some db hs]; exact hbal a
  have htb : tacc.info.balance < W := by rw [← absT_balance_some db hst]; exact hbal t
  have hB : ∀ (acc' : Acct), acc'.info.balance = 0 →
      BalOk (absT db (setAcct (setAcct s t { tacc with info := { tacc.info with balance := U256.wadd tacc.info.balance acc.info.balance } }) a acc')) := by
    intro acc' h0 x
    simp only [absT_setAcct, putA, absOf]
    by_cases hx : x = a
    · subst hx; simp [h0]; rw [W_val]; decide
    · rw [upd_ne' hx]
      by_cases hx2 : x = t
      · subst hx2; simp; exact wadd_lt _ _
      · rw [upd_ne' hx2]; exact hbal x
  by_cases hc : cond
  · rw [if_pos hc] at h
    refine ⟨_, Pushes.of_push h rfl rfl rfl rfl ?_ (by simp) (fun _ => hB _ rfl)
        (hg := Grows.upd2 hs hst hat rfl rfl)
        (hr := by simp [refsOk, setAcct_state_same, setAcct_state_ne _ _ hta]),
      NoWarm.single (fun _ h => by cases h) (fun _ _ h => by cases h)⟩
    simp [absT_setAcct, putA, undoT, absOf, upd_upd_same, ha, hta', upd_self', upd_ne', absSlot_some, hta, hat,
      wadd_zero_left hb, upd_upd_upd_ne, bsub_wadd_cancel htb hb]
  · rw [if_neg hc] at h
    refine ⟨_, Pushes.of_push h rfl rfl rfl rfl ?_ (by simp) (fun _ => hB _ rfl)
        (hg := Grows.upd2 hs hst hat rfl rfl)
        (hr := by simp [refsOk, setAcct_state_same, setAcct_state_ne _ _ hta]),
      NoWarm.single (fun _ h => by cases h) (fun _ _ h => by cases h)⟩
    simp [absT_setAcct, putA, undoT, absOf, upd_upd_same, ha, hta', upd_self', upd_ne', absSlot_some, hta, hat,
      wadd_zero_left hb, upd_upd_upd_ne, bsub_wadd_cancel htb hb]


theorem selfdestruct_pushes {db : Db} {s s' : JState} {a t : Addr} {r : Bool × Bool × Bool × Bool}
    (hbal : BalOk (absT db s)) (h : selfdestruct db s a t = some (s', r)) :
    (∃ es, Pushes db s s' es) ∧ r.2.2.2 = !(absT db s).warm t ∧ Warms db s s' [t] [] := by
  simp only [selfdestruct, bind, Option.bind] at h
  cases hl1 : loadAccount db s t with
  | none => simp [hl1] at h
  | some r1 =>
    obtain ⟨s1, c1⟩ := r1
    obtain ⟨p1, hc1, _⟩ := loadAccount_pushes hl1
    have w1 := Warms.of_load p1 hc1
    have hbal1 := p1.bal hbal
    simp [hl1] at h
    cases hst1 : s1.state t with
    | none => simp [hst1] at h
    | some tacc1 =>
      simp [hst1] at h
      by_cases hat : a = t
      · subst hat
        simp [hst1] at h
        split at h
        · simp at h
        · rename_i sF _ hX
          simp at h; obtain ⟨h1, h2⟩ := h; subst h1
          obtain ⟨es, p2, n2⟩ := selfdestruct_self (db := db) _ hbal1 hst1 hX
          exact ⟨⟨_, Pushes.trans p1 p2⟩, by rw [← h2]; exact hc1, by simpa using Warms.trans w1 (p2.warms_nil n2)⟩
      · simp [hat] at h
        cases hs1 : s1.state a with
        | none => simp [hs1] at h
        | some acc =>
          simp [hs1] at h
          cases ht : touchAccount s1 t tacc1 with
          | none => simp [ht] at h
          | some r2 =>
            obtain ⟨s2, tacc⟩ := r2
            obtain ⟨p2, hst2, _, hne2, _⟩ := touchAccount_pushes (db := db) hst1 ht
            have hs2 : s2.state a = some acc := by rw [hne2 a hat]; exact hs1
            have hbal2 := p2.bal hbal1
            have hta : ¬ t = a := fun e => hat e.symm
            simp [ht, setAcct_state_ne, hat, hs2] at h
            split at h
            · simp at h
            · rename_i sF _ hX
              simp at h; obtain ⟨h1, h2⟩ := h; subst h1
              obtain ⟨es, p3, n3⟩ := selfdestruct_other (db := db) _ hat hbal2 hs2 hst2 hX
              exact ⟨⟨_, Pushes.trans (Pushes.trans p1 p2) p3⟩, by rw [← h2]; exact hc1,
                by simpa using Warms.trans w1 ((Pushes.trans p2 p3).warms_nil (NoWarm.append n3 (NoWarm.touched _ _)))⟩


end Revm.Proofs.Journal
