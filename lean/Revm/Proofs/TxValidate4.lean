import Revm.Proofs.TxValidate3
/-! C02, validation part 4: the two overflow regions and `validate = ok ↔ ValidTx`. -/
set_option linter.unusedSimpArgs false
set_option linter.unusedVariables false
namespace Revm.Proofs.TxValidate
open Revm
open Revm.Model.GasCalc (enabled canon calculateInitialTxGas)
open Revm.Model.GasCalc.SpecId
open Revm.Model.TxValidate
open Revm.Spec.GasCalc (Fork intrinsicGas floorGas)
open Revm.Spec.TxValid

/-! ### the two overflow regions, treated directly -/

theorem intrinsic_ge (f : Fork) (d : List Nat) (c : Bool) (a : List Nat) (n : Nat) :
    21000 ≤ intrinsicGas f d c a n := by
  unfold intrinsicGas; omega

/-- in the fee-wrap region (`basefee + priority fee ≥ 2^256`, London or later) the code rejects … -/
theorem feeChecks_wrap (f : Fork) (blk : Block) (tx : Tx) (p : Nat) (hl : hasEIP1559 f = true)
    (hp : tx.priorityFee = some p) (hw : blk.basefee + p ≥ W) (hpr : p < W) (hbr : blk.basefee < W) :
    feeChecks (canon f.id) blk tx ≠ .ok := by
  intro h
  unfold feeChecks at h
  rw [enc_london, hl] at h
  simp only [if_true] at h
  have heff : effectiveGasPrice blk tx = min tx.gasPrice (U256.wadd blk.basefee p) := by
    unfold effectiveGasPrice; rw [hp]
  have hadd : U256.wadd blk.basefee p = blk.basefee + p - W := by
    unfold U256.wadd
    generalize hx : blk.basefee + p = x
    have hx2 : x = (x - W) + W := by omega
    conv => lhs; rw [hx2]
    rw [Nat.add_mod_right]
    exact Nat.mod_eq_of_lt (by omega)
  rw [heff] at h
  have hlt : min tx.gasPrice (U256.wadd blk.basefee p) < blk.basefee := by
    rw [hadd, Nat.min_def]; split <;> omega
  rw [if_pos hlt] at h
  have key : ∀ b : Bool, (if b = true then Res.err Err.PriorityFeeGreaterThanMaxFee
      else Res.err Err.GasPriceLessThanBasefee) ≠ Res.ok := by
    intro b; cases b <;> simp
  exact key _ h

/-- … and the transaction is not valid either: both caps are at least 2^255 there, so the maximum
cost of at least 21000 gas exceeds every balance -/
theorem valid_not_wrap (f : Fork) (cfg : Cfg) (blk : Block) (tx : Tx) (snd : Sender) (p : Nat)
    (hl : hasEIP1559 f = true) (hp : tx.priorityFee = some p) (hw : blk.basefee + p ≥ W)
    (hbal : snd.balance < W) : ¬ ValidTx f cfg blk tx snd := by
  intro ⟨_, _, _, _, hfee, _, _, _, hgas, _, _, hfunds⟩
  have hW := W_val
  have h1 := hfee hl
  rw [hp] at h1
  simp only [] at h1
  obtain ⟨h1a, h1b⟩ := h1
  have hg := Nat.le_trans (intrinsic_ge f tx.data tx.isCreate tx.accessList (tx.authList.getD 0)) hgas.1
  unfold FundsOk maxCost at hfunds
  have hgp : tx.gasPrice * 2 ≥ W := by omega
  have : 21000 * tx.gasPrice ≤ tx.gasLimit * tx.gasPrice := Nat.mul_le_mul_right _ hg
  generalize tx.gasLimit * tx.gasPrice = a at *
  generalize tx.maxFeePerBlobGas.getD 0 * blobGas tx = b at *
  omega

/-- the exact region in which `saturating_mul` of the blob fee lets an unaffordable transaction
through: the true blob fee does not fit in 256 bits, nothing else is charged, and the balance is 2^256 − 1 -/
def BlobFeeSaturation (tx : Tx) (snd : Sender) : Prop :=
  blobFee tx ≥ W ∧ tx.gasLimit * tx.gasPrice + tx.value = 0 ∧ snd.balance = W - 1

/-- `balance_check` when the blob fee saturates (Cancun or later) -/
theorem balanceCheck_sat (f : Fork) (blk : Block) (tx : Tx) (snd : Sender) (hr : InRange blk tx snd)
    (hc : hasEIP4844 f = true) (hsat : ¬ blobFee tx < W) :
    balanceCheck (canon f.id) tx =
      if tx.gasLimit * tx.gasPrice + tx.value = 0 then some (W - 1) else none := by
  have hW := W_val
  have hfee := maxDataFee_eq tx hr.blobLen
  rw [if_neg hsat] at hfee
  unfold balanceCheck U256.checkedMul U256.checkedAdd
  rw [enc_cancun, hc, hfee]
  generalize tx.gasLimit * tx.gasPrice = a at *
  generalize tx.value = v at *
  by_cases h1 : a < W
  · simp only [h1, if_true]
    by_cases h2 : a + v < W
    · simp only [h2, if_true]
      by_cases h3 : a + v = 0
      · rw [if_pos (by omega), if_pos h3]; congr 1; omega
      · rw [if_neg (by omega), if_neg h3]
    · simp only [h2, if_false]; rw [if_neg (by omega)]
  · simp only [h1, if_false]; rw [if_neg (by omega)]

theorem state_ok_iff (f : Fork) (blk : Block) (tx : Tx) (snd : Sender) (hr : InRange blk tx snd)
    (hblob : hasEIP4844 f = false → tx.maxFeePerBlobGas = none)
    (hsat : ¬ BlobFeeSaturation tx snd) :
    validateTxAgainstState (canon f.id) tx snd = .ok ↔
      snd.code ≠ .other ∧ NonceOk tx snd ∧ FundsOk tx snd := by
  have hW := W_val
  by_cases hns : blobFee tx < W
  · rw [validateTxAgainstState_eq f blk tx snd hr hblob hns, resOf_eq_ok, state_iff tx snd hr.balance]
  · -- saturation: both sides are false
    have hc : hasEIP4844 f = true := by
      cases h : hasEIP4844 f
      · have := hblob h; unfold blobFee at hns; rw [this] at hns; simp at hns; omega
      · rfl
    have hbal := hr.balance
    constructor
    · intro h
      exfalso
      unfold validateTxAgainstState at h
      rw [balanceCheck_sat f blk tx snd hr hc hns] at h
      by_cases hcode : snd.code = .other
      · rw [if_pos hcode] at h; exact nomatch h
      · rw [if_neg hcode, andThen_eq_ok] at h
        have h2 := h.2
        by_cases h3 : tx.gasLimit * tx.gasPrice + tx.value = 0
        · rw [if_pos h3] at h2
          simp only [] at h2
          by_cases h5 : W - 1 > snd.balance
          · rw [if_pos h5] at h2; exact nomatch h2
          · exact hsat ⟨by omega, h3, by omega⟩
        · rw [if_neg h3] at h2
          exact nomatch h2
    · intro ⟨_, _, hf⟩
      exfalso
      unfold FundsOk maxCost at hf
      have : blobFee tx = tx.maxFeePerBlobGas.getD 0 * blobGas tx := rfl
      generalize tx.gasLimit * tx.gasPrice = a at *
      generalize tx.maxFeePerBlobGas.getD 0 * blobGas tx = b at *
      omega

/-! ### `validate = ok ↔ ValidTx` -/

/-- the two places where revm lets a transaction type through before its fork -/
def TypeGap (f : Fork) (tx : Tx) (snd : Sender) : Prop :=
  (tx.priorityFee.isSome = true ∧ hasEIP1559 f = false) ∨ (snd.code = .eip7702 ∧ hasEIP7702 f = false)

theorem validate_iff (f : Fork) (cfg : Cfg) (blk : Block) (tx : Tx) (snd : Sender)
    (hr : InRange blk tx snd) (hfit : GasFits f tx)
    (hgap : ¬ TypeGap f tx snd) (hsat : ¬ BlobFeeSaturation tx snd) :
    validate f.id cfg blk tx snd = .ok ↔ ValidTx f cfg blk tx snd := by
  have hd1 : tx.priorityFee.isSome = true → hasEIP1559 f = true := by
    intro h
    cases h5 : hasEIP1559 f
    · exact absurd (Or.inl ⟨h, h5⟩) hgap
    · rfl
  have hd2 : snd.code = .eip7702 → hasEIP7702 f = true := by
    intro h
    cases h7 : hasEIP7702 f
    · exact absurd (Or.inr ⟨h, h7⟩) hgap
    · rfl
  by_cases hwrap : hasEIP1559 f = true → ∀ p, tx.priorityFee = some p → blk.basefee + p < W
  · -- no fee wrap
    unfold validate validateCanon
    rw [validateEnv_eq f cfg blk tx hwrap hr.dataLen, validateInitialTxGas_eq f tx hfit,
      andThen_eq_ok, andThen_eq_ok, fv_append, andThen_eq_ok, resOf_eq_ok, resOf_eq_ok, resOf_eq_ok,
      header_iff, gas_iff]
    have hsender : snd.code ≠ .other ↔ SenderOk f snd := by
      unfold SenderOk
      cases hc : snd.code <;> simp [hc] at hd2 ⊢
      exact hd2
    constructor
    · intro ⟨⟨hH, hT⟩, hG, hS⟩
      have hhdr : hasEIP4844 f = true → blk.blobGasPrice.isSome = true := hH.2
      have hblob := tx_ok_blob f cfg blk tx ((resOf_eq_ok _).2 hT)
      rw [tx_iff f cfg blk tx hd1] at hT
      rw [state_ok_iff f blk tx snd hr hblob hsat] at hS
      obtain ⟨t1, t2, t3, t4, t5, t6, t7⟩ := hT
      exact ⟨hH, t1, t2, t3, t4, t5, t6, t7, hG, hsender.1 hS.1, hS.2.1, hS.2.2⟩
    · intro ⟨hH, t1, t2, t3, t4, t5, t6, t7, hG, s1, s2, s3⟩
      have hhdr : hasEIP4844 f = true → blk.blobGasPrice.isSome = true := hH.2
      have hT : firstViolated (rulesTx f cfg blk tx) = none :=
        (tx_iff f cfg blk tx hd1).2 ⟨t1, t2, t3, t4, t5, t6, t7⟩
      have hblob := tx_ok_blob f cfg blk tx ((resOf_eq_ok _).2 hT)
      exact ⟨⟨hH, hT⟩, hG, (state_ok_iff f blk tx snd hr hblob hsat).2 ⟨hsender.2 s1, s2, s3⟩⟩
  · -- fee wrap: rejected by the code, and invalid
    have hex : hasEIP1559 f = true ∧ ∃ p, tx.priorityFee = some p ∧ blk.basefee + p ≥ W := by
      cases h5 : hasEIP1559 f
      · exact absurd (fun h => by rw [h5] at h; exact nomatch h) hwrap
      · refine ⟨rfl, ?_⟩
        cases hp : tx.priorityFee with
        | none => exact absurd (fun _ p h => by rw [hp] at h; exact nomatch h) hwrap
        | some p =>
          refine ⟨p, rfl, ?_⟩
          by_cases h : blk.basefee + p < W
          · exact absurd (fun _ q hq => by rw [hp] at hq; cases hq; exact h) hwrap
          · omega
    obtain ⟨hl, p, hp, hw⟩ := hex
    constructor
    · intro h
      exfalso
      unfold validate validateCanon validateEnv at h
      rw [andThen_eq_ok, andThen_eq_ok] at h
      have h2 := h.1.2
      unfold validateTx at h2
      split at h2
      · exact nomatch h2
      · split at h2
        · exact nomatch h2
        · split at h2
          · exact nomatch h2
          · rw [andThen_eq_ok] at h2
            exact feeChecks_wrap f blk tx p hl hp hw (hr.priorityFee p hp) hr.basefee h2.1
    · intro h
      exact absurd h (valid_not_wrap f cfg blk tx snd p hl hp hw hr.balance)

end Revm.Proofs.TxValidate
