import Revm.Proofs.Journal
/-! C06, step R1: every concrete `JournalEntry` undo that does not panic is the abstract undo on the
observable state. -/
namespace Revm.Proofs.Journal
open Revm Revm.Model.Journal Revm.Spec.JournalAbs
set_option linter.unusedSimpArgs false
set_option linter.unusedVariables false

def UndoOk (db : Db) (s s' : JState) (e : Entry) : Prop :=
  absT db s' = undoT (sdOf s) (absT db s) e ∧ s'.spec = s.spec ∧
      s'.preloaded = s.preloaded ∧ s'.journal = s.journal ∧ s'.logs = s.logs

theorem undo_accountWarmed (db : Db) (s s' : JState) (a : Addr)
    (h : undoEntry (sdOf s) s (.accountWarmed a) = some s') : UndoOk db s s' (.accountWarmed a) := by
  simp only [undoEntry, bind, Option.bind] at h
  cases hs : s.state a with
  | none => simp [hs] at h
  | some acc =>
    have ha := absAcct_some db s hs
    simp [hs] at h; subst h
    refine ⟨?_, rfl, rfl, rfl, rfl⟩
    simp [absT_setAcct, putA, undoT, absOf, upd_upd_same, ha, upd_self', absSlot_some]

theorem undo_accountTouched (db : Db) (s s' : JState) (a : Addr)
    (h : undoEntry (sdOf s) s (.accountTouched a) = some s') : UndoOk db s s' (.accountTouched a) := by
  simp only [undoEntry, bind, Option.bind] at h
  by_cases hp : sdOf s = true ∧ a = PRECOMPILE3
  · simp [hp] at h; subst h
    refine ⟨?_, rfl, rfl, rfl, rfl⟩
    simp only [undoT, unT, hp, and_self, if_true]
    rw [upd_self' rfl]
  · cases hs : s.state a with
    | none => simp [hs, hp] at h
    | some acc =>
      have ha := absAcct_some db s hs
      simp [hs, hp] at h; subst h
      refine ⟨?_, rfl, rfl, rfl, rfl⟩
      simp [absT_setAcct, putA, undoT, absOf, upd_upd_same, ha, upd_self', absSlot_some, hp, maskT, unT]

theorem undo_accountDestroyed (db : Db) (s s' : JState) (a t : Addr) (was : Bool) (had : Nat)
    (h : undoEntry (sdOf s) s (.accountDestroyed a t was had) = some s') :
    UndoOk db s s' (.accountDestroyed a t was had) := by
  simp only [undoEntry, bind, Option.bind] at h
  cases hs : s.state a with
  | none => simp [hs] at h
  | some acc =>
    have ha := absAcct_some db s hs
    by_cases hat : a = t
    · subst hat
      simp [hs, setAcct_state_same] at h; subst h
      refine ⟨?_, rfl, rfl, rfl, rfl⟩
      simp [absT_setAcct, putA, undoT, absOf, upd_upd_same, ha, upd_self', absSlot_some]
    · have hta : ¬ t = a := fun h => hat h.symm
      cases ht : s.state t with
      | none => simp [hs, hat, setAcct_state_ne, ht, hta] at h
      | some tacc =>
        have hta' := absAcct_some db s ht
        simp [hs, hat, setAcct_state_ne, ht, hta] at h; subst h
        refine ⟨?_, rfl, rfl, rfl, rfl⟩
        simp [absT_setAcct, putA, undoT, absOf, upd_upd_same, ha, hta', upd_self', upd_ne', absSlot_some, hta, hat]

theorem undo_balanceTransfer (db : Db) (s s' : JState) (a t : Addr) (had : Nat)
    (h : undoEntry (sdOf s) s (.balanceTransfer a t had) = some s') : UndoOk db s s' (.balanceTransfer a t had) := by
  simp only [undoEntry, bind, Option.bind] at h
  cases hs : s.state a with
  | none => simp [hs] at h
  | some acc =>
    have ha := absAcct_some db s hs
    by_cases hat : a = t
    · subst hat
      simp [hs, setAcct_state_same] at h; subst h
      refine ⟨?_, rfl, rfl, rfl, rfl⟩
      simp [absT_setAcct, putA, undoT, absOf, upd_upd_same, ha, upd_self', absSlot_some]
    · have hta : ¬ t = a := fun h => hat h.symm
      cases ht : s.state t with
      | none => simp [hs, hat, setAcct_state_ne, ht, hta] at h
      | some tacc =>
        have hta' := absAcct_some db s ht
        simp [hs, hat, setAcct_state_ne, ht, hta] at h; subst h
        refine ⟨?_, rfl, rfl, rfl, rfl⟩
        simp [absT_setAcct, putA, undoT, absOf, upd_upd_same, ha, hta', upd_self', upd_ne', absSlot_some, hta, hat]

theorem undo_nonceChange (db : Db) (s s' : JState) (a : Addr)
    (h : undoEntry (sdOf s) s (.nonceChange a) = some s') : UndoOk db s s' (.nonceChange a) := by
  simp only [undoEntry, bind, Option.bind] at h
  cases hs : s.state a with
  | none => simp [hs] at h
  | some acc =>
    have ha := absAcct_some db s hs
    simp [hs] at h; subst h
    refine ⟨?_, rfl, rfl, rfl, rfl⟩
    simp [absT_setAcct, putA, undoT, absOf, upd_upd_same, ha, upd_self', absSlot_some]

theorem undo_codeChange (db : Db) (s s' : JState) (a : Addr)
    (h : undoEntry (sdOf s) s (.codeChange a) = some s') : UndoOk db s s' (.codeChange a) := by
  simp only [undoEntry, bind, Option.bind] at h
  cases hs : s.state a with
  | none => simp [hs] at h
  | some acc =>
    have ha := absAcct_some db s hs
    simp [hs] at h; subst h
    refine ⟨?_, rfl, rfl, rfl, rfl⟩
    simp [absT_setAcct, putA, undoT, absOf, upd_upd_same, ha, upd_self', absSlot_some]

/-- with no storage behind the address in the database, `created` does not change what an absent slot reads -/
theorem slotsOf_created_irrel (db : Db) (a : Addr) (hz : ∀ k, db.storage a k = 0) (c : Bool)
    (st : Nat → Option Slot) : slotsOf db a c st = slotsOf db a false st := by
  funext k; unfold slotsOf; cases st k <;> simp [hz]

theorem undo_accountCreated (db : Db) (s s' : JState) (a : Addr) (hz : ∀ k, db.storage a k = 0)
    (h : undoEntry (sdOf s) s (.accountCreated a) = some s') : UndoOk db s s' (.accountCreated a) := by
  simp only [undoEntry, bind, Option.bind] at h
  cases hs : s.state a with
  | none => simp [hs] at h
  | some acc =>
    have ha := absAcct_some db s hs
    simp [hs] at h; subst h
    refine ⟨?_, rfl, rfl, rfl, rfl⟩
    simp [absT_setAcct, putA, undoT, absOf, upd_upd_same, ha, upd_self', absSlot_some,
      slotsOf_created_irrel db a hz acc.created]

theorem undo_storageWarmed (db : Db) (s s' : JState) (a : Addr) (k : Nat)
    (h : undoEntry (sdOf s) s (.storageWarmed a k) = some s') : UndoOk db s s' (.storageWarmed a k) := by
  simp only [undoEntry, bind, Option.bind] at h
  cases hs : s.state a with
  | none => simp [hs] at h
  | some acc =>
    have ha := absAcct_some db s hs
    cases hk : acc.storage k with
    | none => simp [hs, hk] at h
    | some sl =>
      simp [hs, hk] at h; subst h
      refine ⟨?_, rfl, rfl, rfl, rfl⟩
      simp [absT_setAcct, putA, undoT, absOf, upd_upd_same, ha, upd_self', absSlot_some, slotsOf_setSlot,
        slotsOf_some db a acc.created hk]

theorem undo_storageChanged (db : Db) (s s' : JState) (a : Addr) (k had : Nat)
    (h : undoEntry (sdOf s) s (.storageChanged a k had) = some s') : UndoOk db s s' (.storageChanged a k had) := by
  simp only [undoEntry, bind, Option.bind] at h
  cases hs : s.state a with
  | none => simp [hs] at h
  | some acc =>
    have ha := absAcct_some db s hs
    cases hk : acc.storage k with
    | none => simp [hs, hk] at h
    | some sl =>
      simp [hs, hk] at h; subst h
      refine ⟨?_, rfl, rfl, rfl, rfl⟩
      simp [absT_setAcct, putA, undoT, absOf, upd_upd_same, ha, upd_self', absSlot_some, slotsOf_setSlot,
        slotsOf_some db a acc.created hk]

theorem undo_transientChange (db : Db) (s s' : JState) (a : Addr) (k had : Nat)
    (h : undoEntry (sdOf s) s (.transientChange a k had) = some s') : UndoOk db s s' (.transientChange a k had) := by
  simp only [undoEntry] at h
  simp at h; subst h
  refine ⟨?_, rfl, rfl, rfl, rfl⟩
  apply AState.ext' <;> try rfl
  simp only [undoT, absT_tr, tload_setTransient]
  funext b j; by_cases hb : b = a ∧ j = k <;> simp [hb]
  by_cases h0 : had = 0 <;> simp [h0]

theorem undoEntry_abs (db : Db) (s s' : JState) (e : Entry)
    (h : undoEntry (sdOf s) s e = some s')
    (hz : ∀ a, e = .accountCreated a → ∀ k, db.storage a k = 0) : UndoOk db s s' e := by
  cases e with
  | accountWarmed a => exact undo_accountWarmed db s s' a h
  | accountTouched a => exact undo_accountTouched db s s' a h
  | accountDestroyed a t was had => exact undo_accountDestroyed db s s' a t was had h
  | balanceTransfer a t had => exact undo_balanceTransfer db s s' a t had h
  | nonceChange a => exact undo_nonceChange db s s' a h
  | accountCreated a => exact undo_accountCreated db s s' a (hz a rfl) h
  | storageWarmed a k => exact undo_storageWarmed db s s' a k h
  | storageChanged a k had => exact undo_storageChanged db s s' a k had h
  | transientChange a k had => exact undo_transientChange db s s' a k had h
  | codeChange a => exact undo_codeChange db s s' a h


theorem sdOf_eq {s s' : JState} (h : s'.spec = s.spec) : sdOf s' = sdOf s := by simp [sdOf, h]

/-- what an undo of a list of entries leaves alone, and what it does to the observable state -/
structure UndoneBy (db : Db) (s s' : JState) (es : List Entry) : Prop where
  abs : absT db s' = undoTs (sdOf s) (absT db s) es
  spec : s'.spec = s.spec
  pre : s'.preloaded = s.preloaded
  journal : s'.journal = s.journal
  logs : s'.logs = s.logs

theorem undoLevel_abs (db : Db) (l : List Entry) (s s' : JState)
    (h : undoLevel (sdOf s) s l = some s')
    (hz : ∀ a, Entry.accountCreated a ∈ l → ∀ k, db.storage a k = 0) : UndoneBy db s s' l := by
  induction l generalizing s with
  | nil => simp [undoLevel] at h; subst h; exact ⟨rfl, rfl, rfl, rfl, rfl⟩
  | cons e es ih =>
    simp only [undoLevel, bind, Option.bind] at h
    cases h1 : undoEntry (sdOf s) s e with
    | none => simp [h1] at h
    | some s1 =>
      simp [h1] at h
      obtain ⟨a1, a2, a3, a4, a5⟩ := undoEntry_abs db s s1 e h1 (fun a ha => hz a (by simp [ha]))
      have esd : sdOf s1 = sdOf s := sdOf_eq a2
      rw [← esd] at h
      have r := ih s1 h (fun a ha => hz a (by simp [ha]))
      exact ⟨by rw [r.abs, esd, a1]; rfl, r.spec.trans a2, r.pre.trans a3, r.journal.trans a4, r.logs.trans a5⟩

theorem undoLevels_abs (db : Db) (ls : List (List Entry)) (s s' : JState)
    (h : undoLevels (sdOf s) s ls = some s')
    (hz : ∀ a, Entry.accountCreated a ∈ ls.flatten → ∀ k, db.storage a k = 0) : UndoneBy db s s' ls.flatten := by
  induction ls generalizing s with
  | nil => simp [undoLevels] at h; subst h; exact ⟨rfl, rfl, rfl, rfl, rfl⟩
  | cons l rest ih =>
    simp only [undoLevels, bind, Option.bind] at h
    cases h1 : undoLevel (sdOf s) s l with
    | none => simp [h1] at h
    | some s1 =>
      simp [h1] at h
      have r1 := undoLevel_abs db l s s1 h1 (fun a ha => hz a (by simp [ha]))
      have esd : sdOf s1 = sdOf s := sdOf_eq r1.spec
      rw [← esd] at h
      have r := ih s1 h (fun a ha => hz a (by simp [ha]))
      refine ⟨?_, r.spec.trans r1.spec, r.pre.trans r1.pre, r.journal.trans r1.journal, r.logs.trans r1.logs⟩
      rw [r.abs, esd, r1.abs, List.flatten_cons, undoTs_append]

/-- the entries in the journal levels with index `≥ j` (newest first) -/
def above (j : Nat) (journal : List (List Entry)) : List Entry := (journal.take (journal.length - j)).flatten

/-- `checkpoint_revert`, observably: the entries above the checkpoint are undone, logs and journal truncated -/
theorem revert_abs (db : Db) (s s' : JState) (cp : Checkpoint) (h : revert s cp = some s')
    (hz : ∀ a, Entry.accountCreated a ∈ above cp.journalI s.journal → ∀ k, db.storage a k = 0) :
    cp.journalI ≤ s.journal.length ∧
    absT db s' = undoTs (sdOf s) (absT db s) (above cp.journalI s.journal) ∧
    s'.spec = s.spec ∧ s'.preloaded = s.preloaded ∧
    s'.journal = s.journal.drop (s.journal.length - cp.journalI) ∧ s'.logs = s.logs.take cp.logI := by
  unfold revert at h
  by_cases hl : s.journal.length < cp.journalI
  · simp [hl] at h
  · simp only [hl, if_false] at h
    cases hu : undoLevels (decide (s.spec ≥ SPURIOUS_DRAGON)) s (s.journal.take (s.journal.length - cp.journalI)) with
    | none => simp [hu] at h
    | some s1 =>
      simp [hu] at h; subst h
      have r := undoLevels_abs db _ s s1 hu hz
      refine ⟨Nat.le_of_not_lt hl, ?_, r.spec, r.pre, rfl, rfl⟩
      show _ = undoTs (sdOf s) (absT db s) (s.journal.take (s.journal.length - cp.journalI)).flatten
      rw [← r.abs]
      exact absT_congr db rfl rfl rfl rfl



/-! ## journal entries refer to entries of the state map that are present (no `unwrap` panic on revert) -/

/-- entries of the state map and of the storage maps are never removed -/
structure Grows (s s' : JState) : Prop where
  acct : ∀ a, (s.state a).isSome → (s'.state a).isSome
  slot : ∀ a acc k, s.state a = some acc → (acc.storage k).isSome →
    ∃ acc', s'.state a = some acc' ∧ (acc'.storage k).isSome

theorem Grows.refl (s : JState) : Grows s s := ⟨fun _ h => h, fun _ acc _ h1 h2 => ⟨acc, h1, h2⟩⟩

theorem Grows.trans {s s1 s2 : JState} (h1 : Grows s s1) (h2 : Grows s1 s2) : Grows s s2 :=
  ⟨fun a h => h2.acct a (h1.acct a h),
   fun a acc k ha hk => by
     obtain ⟨acc1, e1, k1⟩ := h1.slot a acc k ha hk
     exact h2.slot a acc1 k e1 k1⟩

theorem Grows.of_state_eq {s s' : JState} (h : s'.state = s.state) : Grows s s' :=
  ⟨fun a ha => by rw [h]; exact ha, fun a acc k ha hk => ⟨acc, by rw [h]; exact ha, hk⟩⟩

/-- replacing the entry of `a` by one whose storage map has at least the slots of the old one -/
theorem Grows.setAcct {s : JState} {a : Addr} {acc' : Acct}
    (h : ∀ acc, s.state a = some acc → ∀ k, (acc.storage k).isSome → (acc'.storage k).isSome) :
    Grows s (setAcct s a acc') := by
  refine ⟨fun b hb => ?_, fun b acc k hb hk => ?_⟩
  · by_cases e : b = a
    · subst e; simp [setAcct_state_same]
    · rw [setAcct_state_ne _ _ e]; exact hb
  · by_cases e : b = a
    · subst e; exact ⟨acc', setAcct_state_same _ _ _, h acc hb k hk⟩
    · exact ⟨acc, by rw [setAcct_state_ne _ _ e]; exact hb, hk⟩

theorem refsOk_mono {s s' : JState} (g : Grows s s') {e : Entry} (h : refsOk s e) : refsOk s' e := by
  cases e <;> simp only [refsOk] at h ⊢
  case accountWarmed a => exact g.acct a h
  case accountTouched a => exact g.acct a h
  case accountDestroyed a t _ _ => exact ⟨g.acct a h.1, g.acct t h.2⟩
  case balanceTransfer a t _ => exact ⟨g.acct a h.1, g.acct t h.2⟩
  case nonceChange a => exact g.acct a h
  case accountCreated a => exact g.acct a h
  case codeChange a => exact g.acct a h
  case storageWarmed a k => obtain ⟨acc, h1, h2⟩ := h; exact g.slot a acc k h1 h2
  case storageChanged a k _ => obtain ⟨acc, h1, h2⟩ := h; exact g.slot a acc k h1 h2


theorem isSome_cases {α : Type} {o : Option α} (h : o.isSome) : ∃ x, o = some x := by
  cases o with
  | none => cases h
  | some x => exact ⟨x, rfl⟩

/-- an undo never removes an entry -/
theorem undoEntry_grows {sd : Bool} {s s' : JState} {e : Entry} (h : undoEntry sd s e = some s') : Grows s s' := by
  cases e <;> simp only [undoEntry, bind, Option.bind] at h
  case accountWarmed a =>
    cases hs : s.state a <;> simp [hs] at h
    subst h; exact Grows.setAcct (fun acc ha k hk => by rw [hs] at ha; cases ha; exact hk)
  case accountTouched a =>
    by_cases hp : sd = true ∧ a = PRECOMPILE3
    · simp [hp] at h; subst h; exact Grows.refl _
    · cases hs : s.state a <;> simp [hs, hp] at h
      subst h; exact Grows.setAcct (fun acc ha k hk => by rw [hs] at ha; cases ha; exact hk)
  case accountDestroyed a t was had =>
    cases hs : s.state a <;> simp [hs] at h
    rename_i acc
    by_cases hat : a = t
    · subst hat
      simp at h; subst h
      exact Grows.setAcct (fun acc ha k hk => by rw [hs] at ha; cases ha; exact hk)
    · have hta : ¬ t = a := fun e => hat e.symm
      simp [hat, setAcct_state_ne _ _ hta] at h
      cases ht : s.state t <;> simp [ht] at h
      subst h
      refine Grows.trans (Grows.setAcct (fun acc ha k hk => by rw [hs] at ha; cases ha; exact hk))
        (Grows.setAcct (fun acc' ha k hk => ?_))
      rw [setAcct_state_ne _ _ hta, ht] at ha; cases ha; exact hk
  case balanceTransfer a t had =>
    cases hs : s.state a <;> simp [hs] at h
    rename_i acc
    by_cases hat : a = t
    · subst hat
      simp [setAcct_state_same] at h; subst h
      refine Grows.trans (Grows.setAcct (fun acc ha k hk => by rw [hs] at ha; cases ha; exact hk))
        (Grows.setAcct (fun acc' ha k hk => ?_))
      rw [setAcct_state_same] at ha; cases ha; exact hk
    · have hta : ¬ t = a := fun e => hat e.symm
      simp [setAcct_state_ne _ _ hta] at h
      cases ht : s.state t <;> simp [ht] at h
      subst h
      refine Grows.trans (Grows.setAcct (fun acc ha k hk => by rw [hs] at ha; cases ha; exact hk))
        (Grows.setAcct (fun acc' ha k hk => ?_))
      rw [setAcct_state_ne _ _ hta, ht] at ha; cases ha; exact hk
  case nonceChange a =>
    cases hs : s.state a <;> simp [hs] at h
    subst h; exact Grows.setAcct (fun acc ha k hk => by rw [hs] at ha; cases ha; exact hk)
  case accountCreated a =>
    cases hs : s.state a <;> simp [hs] at h
    subst h; exact Grows.setAcct (fun acc ha k hk => by rw [hs] at ha; cases ha; exact hk)
  case codeChange a =>
    cases hs : s.state a <;> simp [hs] at h
    subst h; exact Grows.setAcct (fun acc ha k hk => by rw [hs] at ha; cases ha; exact hk)
  case storageWarmed a k =>
    cases hs : s.state a <;> simp [hs] at h
    rename_i acc
    cases hk : acc.storage k <;> simp [hk] at h
    subst h
    exact Grows.setAcct (fun acc' ha j hj => by
      rw [hs] at ha; cases ha
      by_cases e : j = k
      · subst e; simp [setSlot]
      · simpa [setSlot, e] using hj)
  case storageChanged a k had =>
    cases hs : s.state a <;> simp [hs] at h
    rename_i acc
    cases hk : acc.storage k <;> simp [hk] at h
    subst h
    exact Grows.setAcct (fun acc' ha j hj => by
      rw [hs] at ha; cases ha
      by_cases e : j = k
      · subst e; simp [setSlot]
      · simpa [setSlot, e] using hj)
  case transientChange a k had =>
    simp at h; subst h; exact Grows.of_state_eq rfl

/-- with its references present, an undo does not panic -/
theorem undoEntry_isSome {sd : Bool} {s : JState} {e : Entry} (h : refsOk s e) : (undoEntry sd s e).isSome := by
  cases e <;> simp only [refsOk] at h <;> simp only [undoEntry, bind, Option.bind]
  case accountWarmed a => obtain ⟨acc, hs⟩ := isSome_cases h; simp [hs]
  case accountTouched a =>
    obtain ⟨acc, hs⟩ := isSome_cases h
    by_cases hp : sd = true ∧ a = PRECOMPILE3 <;> simp [hp, hs]
  case accountDestroyed a t was had =>
    obtain ⟨acc, hs⟩ := isSome_cases h.1
    obtain ⟨tacc, ht⟩ := isSome_cases h.2
    by_cases hat : a = t
    · subst hat; simp [hs]
    · have hta : ¬ t = a := fun e => hat e.symm
      simp [hs, hat, setAcct_state_ne _ _ hta, ht]
  case balanceTransfer a t had =>
    obtain ⟨acc, hs⟩ := isSome_cases h.1
    obtain ⟨tacc, ht⟩ := isSome_cases h.2
    by_cases hat : a = t
    · subst hat; simp [hs, setAcct_state_same]
    · have hta : ¬ t = a := fun e => hat e.symm
      simp [hs, setAcct_state_ne _ _ hta, ht]
  case nonceChange a => obtain ⟨acc, hs⟩ := isSome_cases h; simp [hs]
  case accountCreated a => obtain ⟨acc, hs⟩ := isSome_cases h; simp [hs]
  case codeChange a => obtain ⟨acc, hs⟩ := isSome_cases h; simp [hs]
  case storageWarmed a k =>
    obtain ⟨acc, hs, hk⟩ := h
    obtain ⟨sl, hk⟩ := isSome_cases hk
    simp [hs, hk]
  case storageChanged a k had =>
    obtain ⟨acc, hs, hk⟩ := h
    obtain ⟨sl, hk⟩ := isSome_cases hk
    simp [hs, hk]
  case transientChange a k had => simp

theorem undoLevel_isSome {sd : Bool} (l : List Entry) (s : JState) (h : ∀ e, e ∈ l → refsOk s e) :
    ∃ s', undoLevel sd s l = some s' ∧ Grows s s' := by
  induction l generalizing s with
  | nil => exact ⟨s, rfl, Grows.refl _⟩
  | cons e es ih =>
    obtain ⟨s1, h1⟩ := isSome_cases (undoEntry_isSome (sd := sd) (h e (by simp)))
    have g1 := undoEntry_grows h1
    obtain ⟨s2, h2, g2⟩ := ih s1 (fun e' he' => refsOk_mono g1 (h e' (by simp [he'])))
    exact ⟨s2, by simp [undoLevel, bind, Option.bind, h1, h2], Grows.trans g1 g2⟩

theorem undoLevels_isSome {sd : Bool} (ls : List (List Entry)) (s : JState)
    (h : ∀ l, l ∈ ls → ∀ e, e ∈ l → refsOk s e) :
    ∃ s', undoLevels sd s ls = some s' ∧ Grows s s' := by
  induction ls generalizing s with
  | nil => exact ⟨s, rfl, Grows.refl _⟩
  | cons l rest ih =>
    obtain ⟨s1, h1, g1⟩ := undoLevel_isSome (sd := sd) l s (h l (by simp))
    obtain ⟨s2, h2, g2⟩ := ih s1 (fun l' hl' e he => refsOk_mono g1 (h l' (by simp [hl']) e he))
    exact ⟨s2, by simp [undoLevels, bind, Option.bind, h1, h2], Grows.trans g1 g2⟩

theorem _root_.Revm.Spec.JournalAbs.JRefs.new (spec : Nat) (pre : Addr → Bool) : JRefs (JState.new spec pre) := by
  intro l hl e he; simp [JState.new] at hl; subst hl; cases he

/-- **`checkpoint_revert` does not panic** on a checkpoint that is not newer than the journal -/
theorem revert_isSome {s : JState} {cp : Checkpoint} (h : JRefs s) (hlen : cp.journalI ≤ s.journal.length) :
    ∃ s', revert s cp = some s' ∧ Grows s s' ∧ JRefs s' := by
  have hnl : ¬ s.journal.length < cp.journalI := Nat.not_lt.2 hlen
  obtain ⟨s1, h1, g1⟩ := undoLevels_isSome (sd := decide (s.spec ≥ SPURIOUS_DRAGON))
    (s.journal.take (s.journal.length - cp.journalI)) s
    (fun l hl e he => h l (List.mem_of_mem_take hl) e he)
  refine ⟨{ s1 with depth := decU64 s.depth, logs := s.logs.take cp.logI,
                      journal := s.journal.drop (s.journal.length - cp.journalI) }, ?_, ?_, ?_⟩
  · simp [revert, hnl, h1]
  · exact Grows.trans g1 (Grows.of_state_eq rfl)
  · intro l hl e he
    have : l ∈ s.journal := List.mem_of_mem_drop hl
    exact refsOk_mono (Grows.trans g1 (Grows.of_state_eq rfl)) (h l this e he)


theorem undoLevel_grows {sd : Bool} (l : List Entry) {s s' : JState} (h : undoLevel sd s l = some s') : Grows s s' := by
  induction l generalizing s with
  | nil => simp [undoLevel] at h; subst h; exact Grows.refl _
  | cons e es ih =>
    simp only [undoLevel, bind, Option.bind] at h
    cases h1 : undoEntry sd s e with
    | none => simp [h1] at h
    | some s1 => simp [h1] at h; exact Grows.trans (undoEntry_grows h1) (ih h)

theorem undoLevels_grows {sd : Bool} (ls : List (List Entry)) {s s' : JState} (h : undoLevels sd s ls = some s') :
    Grows s s' := by
  induction ls generalizing s with
  | nil => simp [undoLevels] at h; subst h; exact Grows.refl _
  | cons l rest ih =>
    simp only [undoLevels, bind, Option.bind] at h
    cases h1 : undoLevel sd s l with
    | none => simp [h1] at h
    | some s1 => simp [h1] at h; exact Grows.trans (undoLevel_grows l h1) (ih h)

theorem revert_grows {s s' : JState} {cp : Checkpoint} (h : revert s cp = some s') : Grows s s' := by
  unfold revert at h
  by_cases hl : s.journal.length < cp.journalI
  · simp [hl] at h
  · simp only [hl, if_false] at h
    cases hu : undoLevels (decide (s.spec ≥ SPURIOUS_DRAGON)) s (s.journal.take (s.journal.length - cp.journalI)) with
    | none => simp [hu] at h
    | some s1 =>
      simp [hu] at h; subst h
      exact Grows.trans (undoLevels_grows _ hu) (Grows.of_state_eq rfl)

theorem Grows.congr_right {s t t' : JState} (h : t'.state = t.state) (g : Grows s t) : Grows s t' :=
  Grows.trans g (Grows.of_state_eq h)

theorem Grows.congr_left {s s0 t : JState} (h : s.state = s0.state) (g : Grows s0 t) : Grows s t :=
  Grows.trans (Grows.of_state_eq h.symm) g

theorem refsOk_congr {s s' : JState} (h : s'.state = s.state) {e : Entry} (r : refsOk s e) : refsOk s' e :=
  refsOk_mono (Grows.of_state_eq h) r

/-- rewriting the entry of `a` without touching its storage map -/
theorem Grows.upd {s : JState} {a : Addr} {acc acc' : Acct} (hs : s.state a = some acc)
    (h : acc'.storage = acc.storage) : Grows s (Model.Journal.setAcct s a acc') :=
  Grows.setAcct (fun acc0 h0 k hk => by rw [hs] at h0; cases h0; rw [h]; exact hk)

/-- inserting an entry for an absent account -/
theorem Grows.ins {s : JState} {a : Addr} {acc' : Acct} (hs : s.state a = none) :
    Grows s (Model.Journal.setAcct s a acc') :=
  Grows.setAcct (fun acc0 h0 => by rw [hs] at h0; cases h0)

/-- writing one slot -/
theorem Grows.slot' {s : JState} {a : Addr} {acc : Acct} (hs : s.state a = some acc) (k : Nat) (sl : Slot) :
    Grows s (Model.Journal.setAcct s a (setSlot acc k sl)) :=
  Grows.setAcct (fun acc0 h0 j hj => by
    rw [hs] at h0; cases h0
    by_cases e : j = k
    · subst e; simp [setSlot]
    · simpa [setSlot, e] using hj)

end Revm.Proofs.Journal
