import Revm.Proofs.Journal
/-! C06, step R1: every concrete `JournalEntry` undo that does not panic is the abstract undo on the
observable state. -/
namespace Revm.Proofs.Journal
open Revm Revm.Model.Journal Revm.Spec.JournalAbs
set_option linter.unusedSimpArgs false
set_option linter.unusedVariables false

def UndoOk (db : Db) (s s' : JState) (e : Entry) : Prop :=
  absT db s' = undoT (sdOf s) (absT db s) e ∧ s'.spec = s.spec ∧
      s'.preloaded = s.preloaded ∧ s'.journal = s.journal ∧ s'.logs = s.logs

theorem undo_accountWarmed (db : Db) (s s' : JState) (a : Addr)
    (h : undoEntry (sdOf s) s (.accountWarmed a) = some s') : UndoOk db s s' (.accountWarmed a) := by
  simp only [undoEntry, bind, Option.bind] at h
  cases hs : s.state a with
  | none => simp [hs] at h
  | some acc =>
    have ha := absAcct_some db s hs
    simp [hs] at h; subst h
    refine ⟨?_, rfl, rfl, rfl, rfl⟩
    simp [absT_setAcct, putA, undoT, absOf, upd_upd_same, ha, upd_self', absSlot_some]

theorem undo_accountTouched (db : Db) (s s' : JState) (a : Addr)
    (h : undoEntry (sdOf s) s (.accountTouched a) = some s') : UndoOk db s s' (.accountTouched a) := by
  simp only [undoEntry, bind, Option.bind] at h
  by_cases hp : sdOf s = true ∧ a = PRECOMPILE3
  · simp [hp] at h; subst h
    refine ⟨?_, rfl, rfl, rfl, rfl⟩
    simp only [undoT, unT, hp, and_self, if_true]
    rw [upd_self' rfl]
  · cases hs : s.state a with
    | none => simp [hs, hp] at h
    | some acc =>
      have ha := absAcct_some db s hs
      simp [hs, hp] at h; subst h
      refine ⟨?_, rfl, rfl, rfl, rfl⟩
      simp [absT_setAcct, putA, undoT, absOf, upd_upd_same, ha, upd_self', absSlot_some, hp, maskT, unT]

theorem undo_accountDestroyed (db : Db) (s s' : JState) (a t : Addr) (was : Bool) (had : Nat)
    (h : undoEntry (sdOf s) s (.accountDestroyed a t was had) = some s') :
    UndoOk db s s' (.accountDestroyed a t was had) := by
  simp only [undoEntry, bind, Option.bind] at h
  cases hs : s.state a with
  | none => simp [hs] at h
  | some acc =>
    have ha := absAcct_some db s hs
    by_cases hat : a = t
    · subst hat
      simp [hs, setAcct_state_same] at h; subst h
      refine ⟨?_, rfl, rfl, rfl, rfl⟩
      simp [absT_setAcct, putA, undoT, absOf, upd_upd_same, ha, upd_self', absSlot_some]
    · have hta : ¬ t = a := fun h => hat h.symm
      cases ht : s.state t with
      | none => simp [hs, hat, setAcct_state_ne, ht, hta] at h
      | some tacc =>
        have hta' := absAcct_some db s ht
        simp [hs, hat, setAcct_state_ne, ht, hta] at h; subst h
        refine ⟨?_, rfl, rfl, rfl, rfl⟩
        simp [absT_setAcct, putA, undoT, absOf, upd_upd_same, ha, hta', upd_self', upd_ne', absSlot_some, hta, hat]

theorem undo_balanceTransfer (db : Db) (s s' : JState) (a t : Addr) (had : Nat)
    (h : undoEntry (sdOf s) s (.balanceTransfer a t had) = some s') : UndoOk db s s' (.balanceTransfer a t had) := by
  simp only [undoEntry, bind, Option.bind] at h
  cases hs : s.state a with
  | none => simp [hs] at h
  | some acc =>
    have ha := absAcct_some db s hs
    by_cases hat : a = t
    · subst hat
      simp [hs, setAcct_state_same] at h; subst h
      refine ⟨?_, rfl, rfl, rfl, rfl⟩
      simp [absT_setAcct, putA, undoT, absOf, upd_upd_same, ha, upd_self', absSlot_some]
    · have hta : ¬ t = a := fun h => hat h.symm
      cases ht : s.state t with
      | none => simp [hs, hat, setAcct_state_ne, ht, hta] at h
      | some tacc =>
        have hta' := absAcct_some db s ht
        simp [hs, hat, setAcct_state_ne, ht, hta] at h; subst h
        refine ⟨?_, rfl, rfl, rfl, rfl⟩
        simp [absT_setAcct, putA, undoT, absOf, upd_upd_same, ha, hta', upd_self', upd_ne', absSlot_some, hta, hat]

theorem undo_nonceChange (db : Db) (s s' : JState) (a : Addr)
    (h : undoEntry (sdOf s) s (.nonceChange a) = some s') : UndoOk db s s' (.nonceChange a) := by
  simp only [undoEntry, bind, Option.bind] at h
  cases hs : s.state a with
  | none => simp [hs] at h
  | some acc =>
    have ha := absAcct_some db s hs
    simp [hs] at h; subst h
    refine ⟨?_, rfl, rfl, rfl, rfl⟩
    simp [absT_setAcct, putA, undoT, absOf, upd_upd_same, ha, upd_self', absSlot_some]

theorem undo_codeChange (db : Db) (s s' : JState) (a : Addr)
    (h : undoEntry (sdOf s) s (.codeChange a) = some s') : UndoOk db s s' (.codeChange a) := by
  simp only [undoEntry, bind, Option.bind] at h
  cases hs : s.state a with
  | none => simp [hs] at h
  | some acc =>
    have ha := absAcct_some db s hs
    simp [hs] at h; subst h
    refine ⟨?_, rfl, rfl, rfl, rfl⟩
    simp [absT_setAcct, putA, undoT, absOf, upd_upd_same, ha, upd_self', absSlot_some]

/-- with no storage behind the address in the database, `created` does not change what an absent slot reads -/
theorem slotsOf_created_irrel (db : Db) (a : Addr) (hz : ∀ k, db.storage a k = 0) (c : Bool)
    (st : Nat → Option Slot) : slotsOf db a c st = slotsOf db a false st := by
  funext k; unfold slotsOf; cases st k <;> simp [hz]

theorem undo_accountCreated (db : Db) (s s' : JState) (a : Addr) (hz : ∀ k, db.storage a k = 0)
    (h : undoEntry (sdOf s) s (.accountCreated a) = some s') : UndoOk db s s' (.accountCreated a) := by
  simp only [undoEntry, bind, Option.bind] at h
  cases hs : s.state a with
  | none => simp [hs] at h
  | some acc =>
    have ha := absAcct_some db s hs
    simp [hs] at h; subst h
    refine ⟨?_, rfl, rfl, rfl, rfl⟩
    simp [absT_setAcct, putA, undoT, absOf, upd_upd_same, ha, upd_self', absSlot_some,
      slotsOf_created_irrel db a hz acc.created]

theorem undo_storageWarmed (db : Db) (s s' : JState) (a : Addr) (k : Nat)
    (h : undoEntry (sdOf s) s (.storageWarmed a k) = some s') : UndoOk db s s' (.storageWarmed a k) := by
  simp only [undoEntry, bind, Option.bind] at h
  cases hs : s.state a with
  | none => simp [hs] at h
  | some acc =>
    have ha := absAcct_some db s hs
    cases hk : acc.storage k with
    | none => simp [hs, hk] at h
    | some sl =>
      simp [hs, hk] at h; subst h
      refine ⟨?_, rfl, rfl, rfl, rfl⟩
      simp [absT_setAcct, putA, undoT, absOf, upd_upd_same, ha, upd_self', absSlot_some, slotsOf_setSlot,
        slotsOf_some db a acc.created hk]

theorem undo_storageChanged (db : Db) (s s' : JState) (a : Addr) (k had : Nat)
    (h : undoEntry (sdOf s) s (.storageChanged a k had) = some s') : UndoOk db s s' (.storageChanged a k had) := by
  simp only [undoEntry, bind, Option.bind] at h
  cases hs : s.state a with
  | none => simp [hs] at h
  | some acc =>
    have ha := absAcct_some db s hs
    cases hk : acc.storage k with
    | none => simp [hs, hk] at h
    | some sl =>
      simp [hs, hk] at h; subst h
      refine ⟨?_, rfl, rfl, rfl, rfl⟩
      simp [absT_setAcct, putA, undoT, absOf, upd_upd_same, ha, upd_self', absSlot_some, slotsOf_setSlot,
        slotsOf_some db a acc.created hk]

theorem undo_transientChange (db : Db) (s s' : JState) (a : Addr) (k had : Nat)
    (h : undoEntry (sdOf s) s (.transientChange a k had) = some s') : UndoOk db s s' (.transientChange a k had) := by
  simp only [undoEntry] at h
  simp at h; subst h
  refine ⟨?_, rfl, rfl, rfl, rfl⟩
  apply AState.ext' <;> try rfl
  simp only [undoT, absT_tr, tload_setTransient]
  funext b j; by_cases hb : b = a ∧ j = k <;> simp [hb]
  by_cases h0 : had = 0 <;> simp [h0]

theorem undoEntry_abs (db : Db) (s s' : JState) (e : Entry)
    (h : undoEntry (sdOf s) s e = some s')
    (hz : ∀ a, e = .accountCreated a → ∀ k, db.storage a k = 0) : UndoOk db s s' e := by
  cases e with
  | accountWarmed a => exact undo_accountWarmed db s s' a h
  | accountTouched a => exact undo_accountTouched db s s' a h
  | accountDestroyed a t was had => exact undo_accountDestroyed db s s' a t was had h
  | balanceTransfer a t had => exact undo_balanceTransfer db s s' a t had h
  | nonceChange a => exact undo_nonceChange db s s' a h
  | accountCreated a => exact undo_accountCreated db s s' a (hz a rfl) h
  | storageWarmed a k => exact undo_storageWarmed db s s' a k h
  | storageChanged a k had => exact undo_storageChanged db s s' a k had h
  | transientChange a k had => exact undo_transientChange db s s' a k had h
  | codeChange a => exact undo_codeChange db s s' a h


theorem sdOf_eq {s s' : JState} (h : s'.spec = s.spec) : sdOf s' = sdOf s := by simp [sdOf, h]

/-- what an undo of a list of entries leaves alone, and what it does to the observable state -/
structure UndoneBy (db : Db) (s s' : JState) (es : List Entry) : Prop where
  abs : absT db s' = undoTs (sdOf s) (absT db s) es
  spec : s'.spec = s.spec
  pre : s'.preloaded = s.preloaded
  journal : s'.journal = s.journal
  logs : s'.logs = s.logs

theorem undoLevel_abs (db : Db) (l : List Entry) (s s' : JState)
    (h : undoLevel (sdOf s) s l = some s')
    (hz : ∀ a, Entry.accountCreated a ∈ l → ∀ k, db.storage a k = 0) : UndoneBy db s s' l := by
  induction l generalizing s with
  | nil => simp [undoLevel] at h; subst h; exact ⟨rfl, rfl, rfl, rfl, rfl⟩
  | cons e es ih =>
    simp only [undoLevel, bind, Option.bind] at h
    cases h1 : undoEntry (sdOf s) s e with
    | none => simp [h1] at h
    | some s1 =>
      simp [h1] at h
      obtain ⟨a1, a2, a3, a4, a5⟩ := undoEntry_abs db s s1 e h1 (fun a ha => hz a (by simp [ha]))
      have esd : sdOf s1 = sdOf s := sdOf_eq a2
      rw [← esd] at h
      have r := ih s1 h (fun a ha => hz a (by simp [ha]))
      exact ⟨by rw [r.abs, esd, a1]; rfl, r.spec.trans a2, r.pre.trans a3, r.journal.trans a4, r.logs.trans a5⟩

theorem undoLevels_abs (db : Db) (ls : List (List Entry)) (s s' : JState)
    (h : undoLevels (sdOf s) s ls = some s')
    (hz : ∀ a, Entry.accountCreated a ∈ ls.flatten → ∀ k, db.storage a k = 0) : UndoneBy db s s' ls.flatten := by
  induction ls generalizing s with
  | nil => simp [undoLevels] at h; subst h; exact ⟨rfl, rfl, rfl, rfl, rfl⟩
  | cons l rest ih =>
    simp only [undoLevels, bind, Option.bind] at h
    cases h1 : undoLevel (sdOf s) s l with
    | none => simp [h1] at h
    | some s1 =>
      simp [h1] at h
      have r1 := undoLevel_abs db l s s1 h1 (fun a ha => hz a (by simp [ha]))
      have esd : sdOf s1 = sdOf s := sdOf_eq r1.spec
      rw [← esd] at h
      have r := ih s1 h (fun a ha => hz a (by simp [ha]))
      refine ⟨?_, r.spec.trans r1.spec, r.pre.trans r1.pre, r.journal.trans r1.journal, r.logs.trans r1.logs⟩
      rw [r.abs, esd, r1.abs, List.flatten_cons, undoTs_append]

/-- the entries in the journal levels with index `≥ j` (newest first) -/
def above (j : Nat) (journal : List (List Entry)) : List Entry := (journal.take (journal.length - j)).flatten

/-- `checkpoint_revert`, observably: the entries above the checkpoint are undone, logs and journal truncated -/
theorem revert_abs (db : Db) (s s' : JState) (cp : Checkpoint) (h : revert s cp = some s')
    (hz : ∀ a, Entry.accountCreated a ∈ above cp.journalI s.journal → ∀ k, db.storage a k = 0) :
    cp.journalI ≤ s.journal.length ∧
    absT db s' = undoTs (sdOf s) (absT db s) (above cp.journalI s.journal) ∧
    s'.spec = s.spec ∧ s'.preloaded = s.preloaded ∧
    s'.journal = s.journal.drop (s.journal.length - cp.journalI) ∧ s'.logs = s.logs.take cp.logI := by
  unfold revert at h
  by_cases hl : s.journal.length < cp.journalI
  · simp [hl] at h
  · simp only [hl, if_false] at h
    cases hu : undoLevels (decide (s.spec ≥ SPURIOUS_DRAGON)) s (s.journal.take (s.journal.length - cp.journalI)) with
    | none => simp [hu] at h
    | some s1 =>
      simp [hu] at h; subst h
      have r := undoLevels_abs db _ s s1 hu hz
      refine ⟨Nat.le_of_not_lt hl, ?_, r.spec, r.pre, rfl, rfl⟩
      show _ = undoTs (sdOf s) (absT db s) (s.journal.take (s.journal.length - cp.journalI)).flatten
      rw [← r.abs]
      exact absT_congr db rfl rfl rfl rfl


end Revm.Proofs.Journal
