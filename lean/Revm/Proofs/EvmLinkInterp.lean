import Revm.Proofs.EvmLinkTotal4
import Revm.Proofs.EvmLinkInit
import Revm.Proofs.MemoryOutcome
/-! LINK, the interpreter side of panic-freedom, part 1: what C25's sweep (`execInstr_good`) says about ONE step of a
frame that satisfies C25's invariant, with the facts the frame machine needs on top of `StepOkP`: the checkpoints of the
shared memory are not touched by an instruction, and the state in which a frame halts has a well-formed memory. Plus
the memory lemmas of `new_context` / `free_context` around a child frame, and the bound on a frame's memory context
that its (non-saturated) memory cost gives. -/
set_option linter.unusedSimpArgs false
set_option linter.unusedVariables false
namespace Revm.Proofs.EvmLink
open Revm Revm.Model Revm.Model.Interp
open Revm.Proofs.Memory (WF)

local notation "IInv" => Revm.Proofs.Interp.Inv
local notation "imeas" => Revm.Proofs.Interp.measure
local notation "iclen" => Revm.Proofs.Interp.clen

/-- the checkpoints of `x`'s memory are those of `s`'s -/
def CkEq (s x : IState) : Prop :=
  x.mem.lastCheckpoint = s.mem.lastCheckpoint ∧ x.mem.checkpoints = s.mem.checkpoints

theorem CkEq.refl (s : IState) : CkEq s s := ⟨rfl, rfl⟩
theorem CkEq.trans {a b c : IState} (h1 : CkEq a b) (h2 : CkEq b c) : CkEq a c :=
  ⟨h2.1.trans h1.1, h2.2.trans h1.2⟩

/-- one resolved instruction, relative to the state before it (C25's `StepOkP` plus the memory facts) -/
inductive StepOk2 (s : IState) : Done → Prop
  | next {s' : IState} (hi : IInv s') (hm : imeas s' + 1 ≤ imeas s) (hc : CkEq s s') : StepOk2 s (.next s')
  | action {a : Action} {s' : IState} (hi : IInv s') (hm : imeas s' + a.gasLimit + 1 ≤ imeas s)
      (hr : Revm.Proofs.Interp.RetOk a (iclen s'.mem)) (hc : CkEq s s') : StepOk2 s (.action a s')
  | halt {r : IResult} {o : List Nat} {s' : IState} (hm : imeas s' ≤ imeas s) (hw : WF s'.mem) (hc : CkEq s s') :
      StepOk2 s (.halt r o s')

inductive StepGood2 (s : IState) : Outcome → Prop
  | pure {d : Done} (h : StepOk2 s d) : StepGood2 s (.pure d)
  | host {op : HostOp} {k : HostResp → Done} (h : ∀ r, Revm.Proofs.Interp.RespOk r → StepOk2 s (k r)) :
      StepGood2 s (.host op k)

theorem stepOk2_of_doneGood {s : IState} (hi : IInv s) {d : Done}
    (hd : Revm.Proofs.Interp.DoneGood { s with pc := s.pc + 1 } d) : StepOk2 s d := by
  have h1 := Revm.Proofs.Interp.stepOk_of_doneGood (c := s.code) (n := s.origLen) ⟨hi, rfl, rfl⟩ hd
  cases hd with
  | next hn =>
    cases h1 with
    | next hi' hm => exact .next hi'.1 hm ⟨hn.core.ck, hn.core.cks⟩
  | action hn =>
    cases h1 with
    | action hi' hm hr => exact .action hi'.1 hm hr ⟨hn.core.ck, hn.core.cks⟩
  | halt hn =>
    cases h1 with
    | halt hm => exact .halt hm hn.memWF ⟨hn.ck, hn.cks⟩

/-- **one instruction of a frame that satisfies C25's invariant**: never a fault; the invariant is kept; the
checkpoints of the shared memory stay; a halting state has a well-formed memory -/
theorem step_good2 (s : IState) (hi : IInv s) : StepGood2 s (step s) := by
  have hpc := hi.pc
  rw [Revm.Proofs.Interp.step_eq hpc]
  by_cases hin : s.pc < s.origLen
  · have hs := hi.start hin
    have hg := Revm.Proofs.Interp.execInstr_good hs (decode s.code[s.pc])
    generalize execInstr (decode s.code[s.pc]) { s with pc := s.pc + 1 } = o at hg ⊢
    cases hg with
    | pure hd => exact .pure (stepOk2_of_doneGood hi hd)
    | host hk => exact .host (fun r hr => stepOk2_of_doneGood hi (hk r hr))
  · have h0 := hi.pad s.pc (by omega) hpc
    rw [List.getElem?_eq_getElem hpc] at h0
    injection h0 with h0
    rw [h0, Revm.Proofs.Interp.decode_zero]
    exact .pure (.halt (Nat.le_refl _) hi.memWF ⟨rfl, rfl⟩)

/-! ## replacing the memory by one of the same shape -/

theorem inv_setMem {s : IState} (hi : IInv s) {m : Memory.SharedMemory} (hs : Revm.Proofs.Interp.Shape s.mem m) :
    IInv { s with mem := m } ∧ imeas { s with mem := m } = imeas s := by
  have hm : imeas { s with mem := m } = imeas s := by
    show s.gas.remaining + Memory.currentExpansionCost m = s.gas.remaining + Memory.currentExpansionCost s.mem
    rw [Revm.Proofs.Interp.cost_shape hs]
  refine ⟨?_, hm⟩
  exact
    { codeLen := hi.codeLen, pad := hi.pad, jt := hi.jt, legacy := hi.legacy, notInit := hi.notInit
      envOk := hi.envOk, origLe := hi.origLe, pc := hi.pc, stack := hi.stack
      memWF := Revm.Proofs.Interp.WF_shape hi.memWF hs
      memCk := by show m.lastCheckpoint ≤ _; rw [hs.1]; exact hi.memCk
      rdLen := hi.rdLen, inLen := hi.inLen
      meas := by rw [hm]; exact hi.meas
      safe := by rw [hm]; exact hi.safe }

/-! ## `new_context` / `free_context` around a child -/

/-- the memory `c` is a context opened on top of a memory of the shape of `p` -/
def AboveM (c p : Memory.SharedMemory) : Prop :=
  c.checkpoints = p.buffer.length :: p.checkpoints ∧ c.lastCheckpoint = p.buffer.length

theorem aboveM_newContext (m : Memory.SharedMemory) : AboveM (Memory.newContext m) m := ⟨rfl, rfl⟩

/-- `free_context` of a well-formed child memory gives the parent a memory of the shape it had -/
theorem freeContext_above {c p : Memory.SharedMemory} (hc : WF c) (hp : WF p) (ha : AboveM c p) :
    ∃ m, Memory.freeContext c = .ok m ∧ Revm.Proofs.Interp.Shape p m := by
  obtain ⟨h1, h2, h3⟩ := hc
  obtain ⟨p1, p2, p3⟩ := hp
  unfold Memory.freeContext
  rw [ha.1] at h1 ⊢
  simp only []
  rw [if_pos h1.1]
  refine ⟨_, rfl, ?_, rfl, ?_⟩
  · show (match p.checkpoints with | [] => 0 | c :: _ => c) = p.lastCheckpoint
    rw [p2]
    cases p.checkpoints <;> rfl
  · show (c.buffer.take p.buffer.length).length = p.buffer.length
    rw [List.length_take]
    exact Nat.min_eq_left h1.1

/-! ## the memory context of a frame whose memory cost is not saturated is small -/

def FB : Nat := 2^43

theorem clen_le_of_cost {m : Memory.SharedMemory} (h : WF m) (hc : Memory.currentExpansionCost m < U64 - 1) :
    iclen m ≤ FB := by
  have hU := U64_val
  unfold Memory.currentExpansionCost at hc
  rw [Revm.Proofs.Interp.len_clen h] at hc
  have hl := Revm.Proofs.Interp.clen_lt h
  show Revm.Proofs.Interp.clen m ≤ FB
  generalize Revm.Proofs.Interp.clen m = n at hc hl ⊢
  unfold Memory.memoryGas Memory.numWords at hc
  have hs : U64ops.saturatingAdd n 31 = n + 31 := by
    unfold U64ops.saturatingAdd
    unfold Memory.ISIZE_MAX at hl
    split <;> omega
  rw [hs] at hc
  simp only [] at hc
  generalize hw : (n + 31) / 32 = w at hc
  unfold FB
  by_cases hb : w ≤ 2^38
  · omega
  · exfalso
    have h2 : 2^38 * 2^38 ≤ w * w := Nat.mul_le_mul (by omega) (by omega)
    generalize w * w = q at hc h2
    split at hc <;> omega

end Revm.Proofs.EvmLink
