import Revm.Proofs.EvmLinkTotal3
import Revm.Proofs.EvmLinkEther6
import Revm.Proofs.EvmLinkNoFuel
import Revm.Proofs.EvmLinkFeeVal
import Revm.Proofs.EvmLinkCor
/-! LINK, panic-freedom, part 4: the transaction handler around the loop — validation, `load_accounts`,
`deduct_caller`, the EIP-7702 list, the first frame, `reimburse_caller`, `reward_beneficiary`, `output` — and
**`Evm.transact` hits no journal / frame-machine `unwrap`** on a well-formed world. -/
set_option linter.unusedSimpArgs false
set_option linter.unusedVariables false
namespace Revm.Proofs.EvmLink
open Revm Revm.Model Revm.Model.Evm
open Revm.Proofs.Frame (Good DbBal)
open Revm.Proofs.Journal (Grows)

theorem good_meta {s : Journal.JState} (g : Good s) (spec : Nat) (pre : Nat → Bool) :
    Good { s with spec := spec, preloaded := pre } :=
  ⟨Proofs.Frame.JRefs.mono g.refs (Grows.of_state_eq rfl) rfl, g.ne, fun a acc h => g.bal a acc h⟩

theorem wok_setMetaW {w : World} (h : WOk w) (spec : Nat) (pre : Nat → Bool) : WOk (setMetaW w spec pre) :=
  ⟨good_meta h.good spec pre, h.dbal⟩

theorem foldl_slots (db : Journal.Db) (a : Nat) : ∀ (keys : List Nat) (acc : Journal.Acct) (k : Nat),
    (acc.storage k).isSome →
    ((keys.foldl (fun acc k =>
      match acc.storage k with
      | some _ => acc
      | none => let v := db.storage a k; Journal.setSlot acc k { orig := v, present := v, cold := false }) acc).storage k).isSome := by
  intro keys
  induction keys with
  | nil => intro acc k h; exact h
  | cons x ks ih =>
    intro acc k h
    simp only [List.foldl_cons]
    apply ih
    split
    · exact h
    · simp only [Journal.setSlot]
      split
      · rfl
      · exact h

theorem good_initialLoad {db : Journal.Db} {s : Journal.JState} (hdb : DbBal db) (g : Good s) (a : Nat)
    (keys : List Nat) : Good (Journal.initialAccountLoad db s a keys) := by
  unfold Journal.initialAccountLoad
  simp only
  refine ⟨Proofs.Frame.JRefs.mono g.refs (Grows.setAcct (fun acc hacc k hk => ?_)) rfl, g.ne, ?_⟩
  · rw [hacc]; exact foldl_slots db a keys acc k hk
  · intro b accb hb
    by_cases e : b = a
    · subst e
      simp only [Journal.setAcct, if_true, Option.some.injEq] at hb
      rw [← hb, foldl_info _ (by intro acc k; split <;> rfl)]
      cases hs : s.state b with
      | some acc => exact g.bal b acc hs
      | none =>
        simp only
        have := hdb b
        cases hd : db.basic b with
        | some i => rw [hd] at this; exact this
        | none => rw [hd] at this; exact this
    · simp only [Journal.setAcct, e, if_false] at hb
      exact g.bal b accb hb

theorem wok_accessFold (e : Evm.Env) : ∀ (w : World), WOk w → WOk (accessFold e w) := by
  unfold accessFold
  generalize e.tx.accessList = l
  induction l with
  | nil => intro w h; exact h
  | cons it l ih =>
    intro w h
    simp only [List.foldl_cons]
    apply ih
    have h1 : WOk ({ w with js := Journal.initialAccountLoad w.db w.js it.addr it.keys }.noteAddr it.addr) :=
      wok_noteAddr (wok_js h (good_initialLoad h.dbal h.good _ _)) _
    generalize ({ w with js := Journal.initialAccountLoad w.db w.js it.addr it.keys }.noteAddr it.addr) = w1 at h1
    generalize it.keys = ks
    induction ks generalizing w1 with
    | nil => exact h1
    | cons k ks ih2 => simp only [List.foldl_cons]; exact ih2 _ (wok_noteSlot h1 _ _)

theorem wok_loadAccounts (e : Evm.Env) (spec : Nat) {w : World} (h : WOk w) : WOk (loadAccounts e spec w) := by
  rw [loadAccounts_eq]
  exact wok_setMetaW (wok_accessFold e _ (wok_setMetaW h _ _)) _ _

/-- rewriting the balance (a word) / nonce / code fields of a loaded account -/
theorem wok_setInfo {w : World} (h : WOk w) {a : Nat} {acc acc' : Journal.Acct} (hs : w.js.state a = some acc)
    (hst : acc'.storage = acc.storage) (hb : acc'.info.balance < W) :
    WS w { w with js := Journal.setAcct w.js a acc' } :=
  ⟨⟨h.good.upd hs hst hb, h.dbal⟩, Grows.upd hs hst, rfl⟩

theorem tot2_deductCaller {w : World} (h : WOk w) (e : Evm.Env) (spec : Nat)
    (hfee : GasCalc.enabled spec GasCalc.SpecId.CANCUN = true → e.block.blobGasPrice.isSome) :
    Tot2 (deductCaller e spec w) (fun w1 => WS w w1) := by
  unfold deductCaller
  refine tot2_bind (tot2_of_tot (tot_loadAccount h _)) (fun r hr => ?_)
  obtain ⟨w1, c⟩ := r
  dsimp only at hr ⊢
  refine tot2_bind (tot2_of_tot (tot_acct hr.2)) (fun acc hacc => ?_)
  refine tot2_bind (P := fun _ => True) ?_ (fun gc _ => ?_)
  · split
    · rename_i hc
      unfold Evm.Env.calcDataFee
      obtain ⟨p, hp⟩ := Proofs.Journal.isSome_cases (hfee hc)
      rw [hp]
      exact tot2_pure trivial
    · exact tot2_pure trivial
  · have hb := h.good
    refine tot2_pure (hr.1.trans (wok_setInfo hr.1.ok hacc ?_ ?_))
    · split <;> rfl
    · have := hr.1.ok.good.bal _ _ hacc
      have hle : U256.saturatingSub acc.info.balance gc ≤ acc.info.balance := by
        unfold U256.saturatingSub; omega
      split <;> exact Nat.lt_of_le_of_lt hle this

theorem ws_addCode {w : World} (h : WOk w) (hash : Nat) (c : List Nat) : WS w (w.addCode hash c) := by
  have e1 : (w.addCode hash c).js = w.js := addCode_js _ _ _
  have hb : (w.addCode hash c).db.basic = w.db.basic := by
    unfold World.addCode
    split
    · rfl
    · split <;> rfl
  refine ⟨⟨by rw [e1]; exact h.good, fun x => ?_⟩, by rw [e1]; exact Grows.refl _, by rw [e1]⟩
  show ((((w.addCode hash c).db.basic x).getD Journal.Info.default).balance < W)
  rw [hb]; exact h.dbal x

theorem tot2_applyAuth {w : World} (h : WOk w) (e : Evm.Env) (a : Auth) :
    Tot2 (applyAuth e w a) (fun r => WS w r.1) := by
  unfold applyAuth
  simp only [pure, Except.pure]
  split
  · exact WS.refl h
  · split
    · exact WS.refl h
    · split
      · rename_i authority _
        cases hl : w.loadCode authority with
        | error err => have := tot_loadCode h authority; rw [hl] at this; exact Or.inl this
        | ok r =>
          have hr := (tot_loadCode h authority).ok_inv hl
          obtain ⟨w1, c⟩ := r
          dsimp only at hr
          show Tot2 (w1.acct authority >>= _) _
          refine tot2_bind (tot2_of_tot (tot_acct hr.2)) (fun acc hacc => ?_)
          obtain ⟨hh, hhh⟩ := Proofs.Journal.isSome_cases (w_loadCode_cached hl acc hacc)
          refine tot2_bind (tot2_of_tot (tot_ofOpt (P := fun _ => True) hhh trivial)) (fun _ _ => ?_)
          refine tot2_bind (tot2_of_tot (tot_codeOf _)) (fun code _ => ?_)
          split
          · exact hr.1
          · split
            · exact hr.1
            · have hbal := hr.1.ok.good.bal _ _ hacc
              by_cases hz : a.address = 0
              · simp only [hz, if_true]
                exact hr.1.trans (wok_setInfo hr.1.ok hacc rfl hbal)
              · simp only [hz, if_false]
                have h2 := ws_addCode hr.1.ok (Keccak.keccak256w (designator a.address)) (designator a.address)
                have hacc2 : (w1.addCode (Keccak.keccak256w (designator a.address)) (designator a.address)).js.state
                    authority = some acc := by rw [addCode_js]; exact hacc
                exact (hr.1.trans h2).trans (wok_setInfo h2.ok hacc2 rfl hbal)
      · exact WS.refl h

theorem tot2_forIn {α σ : Type} (f : α → σ → R (ForInStep σ)) (Inv : σ → Prop)
    (hf : ∀ a s, Inv s → Tot2 (f a s) (fun st => ∃ s', st = .yield s' ∧ Inv s')) :
    ∀ (l : List α) (s : σ), Inv s → Tot2 (forIn (m := R) l s f) Inv := by
  intro l
  induction l with
  | nil => intro s hs; exact tot2_pure hs
  | cons a l ih =>
    intro s hs
    rw [List.forIn_cons]
    refine tot2_bind (hf a s hs) (fun st hst => ?_)
    obtain ⟨s', rfl, hs'⟩ := hst
    exact ih s' hs'

theorem tot2_applyAuthList {w : World} (h : WOk w) (e : Evm.Env) (spec : Nat) :
    Tot2 (applyAuthList e spec w) (fun r => WS w r.1) := by
  unfold applyAuthList
  split
  · exact tot2_pure (WS.refl h)
  · split
    · rename_i l _
      refine tot2_bind (tot2_forIn _ (fun r : World × Nat => WS w r.1) (fun a r hr => ?_) l (w, 0) (WS.refl h))
        (fun r hr => tot2_pure hr)
      refine tot2_bind (tot2_applyAuth hr.ok e a) (fun p hp => ?_)
      obtain ⟨w', b⟩ := p
      dsimp only at hp ⊢
      split
      · exact tot2_pure ⟨_, rfl, hr.trans hp⟩
      · exact tot2_pure ⟨_, rfl, hr.trans hp⟩
    · exact tot2_pure (WS.refl h)

/-- `validate_env` never reaches `expect("already checked")`: the block check rejects a Cancun block without blob gas
price first, and blob fields before Cancun are rejected before the price is read — for every `SpecId` -/
theorem tv_validateEnv_ne_panic (s : Nat) (cfg : TxValidate.Cfg) (blk : TxValidate.Block) (tx : TxValidate.Tx) :
    TxValidate.validateEnv s cfg blk tx ≠ .panic := by
  unfold TxValidate.validateEnv TxValidate.validateBlockEnv
  split
  · exact fun h => nomatch h
  · split
    · exact fun h => nomatch h
    · rename_i hb
      show TxValidate.validateTx s cfg blk tx ≠ .panic
      unfold TxValidate.validateTx
      split
      · exact fun h => nomatch h
      · split
        · exact fun h => nomatch h
        · split
          · exact fun h => nomatch h
          · apply Proofs.TxValidate.andThen_ne_panic _ _ (Proofs.TxValidate.feeChecks_ne_panic _ _ _)
            intro _
            apply Proofs.TxValidate.andThen_ne_panic _ _ (Proofs.TxValidate.initcodeCheck_ne_panic _ _ _)
            intro _
            have hbc : TxValidate.blobChecks s cfg blk tx ≠ .panic := by
              unfold TxValidate.blobChecks
              split
              · exact fun h => nomatch h
              · rename_i hn
                split
                · rename_i mx hmx
                  split
                  · rename_i hnone
                    exfalso
                    simp only [hmx, Option.isSome_some, Bool.true_or, Bool.and_true, Bool.not_eq_true',
                      Bool.not_eq_true] at hn
                    simp only [hnone, Option.isNone_none, Bool.and_true, Bool.not_eq_true] at hb
                    exact hn hb
                  · repeat' split
                    all_goals exact fun h => nomatch h
                · split <;> exact fun h => nomatch h
            apply Proofs.TxValidate.andThen_ne_panic _ _ hbc
            intro _
            unfold TxValidate.authChecks
            repeat' split
            all_goals exact fun h => nomatch h

/-- the initcode cost never overflows: `num_words` saturates at `u64::MAX / 32` -/
theorem initcodeCost_some (len : Nat) : ∃ c, GasCalc.initcodeCost len = some c := by
  unfold GasCalc.initcodeCost GasCalc.costPerWord U64ops.checkedMul GasCalc.numWords GasCalc.INITCODE_WORD_COST
  have hU := U64_val
  have h1 : U64ops.saturatingAdd len 31 ≤ U64 - 1 := by unfold U64ops.saturatingAdd; split <;> omega
  generalize U64ops.saturatingAdd len 31 = x at h1
  rw [if_pos (by omega)]
  exact ⟨_, rfl⟩

theorem initialTxGas_ne_none (spec : Nat) (input : List Nat) (ic : Bool) (al : List Nat) (n : Nat) :
    GasCalc.calculateInitialTxGas spec input ic al n ≠ none := by
  unfold GasCalc.calculateInitialTxGas
  obtain ⟨c, hc⟩ := initcodeCost_some input.length
  simp only [hc]
  split
  · rename_i heq
    split at heq <;> cases heq
  · split <;> exact fun h => nomatch h

theorem tot2_preverify {w : World} (h : WOk w) (e : Evm.Env) (spec : Nat) :
    Tot2 (preverify w e spec) (fun o => ∀ p, o = some p → WS w p.1) := by
  unfold preverify
  have hv : Tot2 (validateEnv e spec) (fun _ => True) := by
    rw [validateEnv_link]
    generalize hr : TxValidate.validateEnv spec (tvCfg e) (tvBlock e) (tvTx e) = r
    cases r with
    | ok => exact trivial
    | err x => exact trivial
    | panic => exact absurd hr (tv_validateEnv_ne_panic _ _ _ _)
  refine tot2_bind hv (fun b _ => ?_)
  split
  · exact tot2_pure (fun p hp => nomatch hp)
  · refine tot2_bind (P := fun _ => True) ?_ (fun g _ => ?_)
    · generalize ho : GasCalc.calculateInitialTxGas spec e.tx.data e.tx.to.isNone _ _ = o
      cases o with
      | none => exact absurd ho (initialTxGas_ne_none _ _ _ _ _)
      | some x => exact tot2_pure trivial
    · obtain ⟨ig, fg⟩ := g
      dsimp only
      split
      · exact tot2_pure (fun p hp => nomatch hp)
      · split
        · exact tot2_pure (fun p hp => nomatch hp)
        · cases hl : w.loadCode e.tx.caller with
          | error err => have := tot_loadCode h e.tx.caller; rw [hl] at this; exact Or.inl this
          | ok r =>
            have hr := (tot_loadCode h e.tx.caller).ok_inv hl
            obtain ⟨w1, c⟩ := r
            dsimp only at hr
            show Tot2 (w1.acct e.tx.caller >>= _) _
            refine tot2_bind (tot2_of_tot (tot_acct hr.2)) (fun acc hacc => ?_)
            obtain ⟨hh, hhh⟩ := Proofs.Journal.isSome_cases (w_loadCode_cached hl acc hacc)
            refine tot2_bind (tot2_of_tot (tot_ofOpt (P := fun _ => True) hhh trivial)) (fun _ _ => ?_)
            refine tot2_bind (tot2_of_tot (tot_codeOf _)) (fun code _ => ?_)
            split
            · exact tot2_pure (fun p hp => nomatch hp)
            · exact tot2_pure (fun p hp => by cases hp; exact hr.1)

theorem satAdd_lt (a b : Nat) : U256.saturatingAdd a b < W := by
  unfold U256.saturatingAdd
  have := W_val
  split <;> omega

theorem classOf_some {r : Interp.IResult} (h : RGood r) : ∃ c, classOf r = some c := by
  obtain ⟨h1, h2, h3, h4⟩ := h
  cases r <;> first | exact ⟨_, rfl⟩ | contradiction

theorem tot2_finish {w : World} (h : WOk w) (e : Evm.Env) (spec fg r7 : Nat) (ic : Bool) (res : Interp.ChildResult)
    (hres : RGood res.result) : Tot2 (finish e spec fg r7 ic res w) (fun p => WOk p.2) := by
  unfold finish
  generalize finalGas e spec fg r7 res = g
  dsimp only
  refine tot2_bind (tot2_of_tot (tot_loadAccount h _)) (fun r1 hr1 => ?_)
  obtain ⟨w1, c1⟩ := r1
  dsimp only at hr1 ⊢
  refine tot2_bind (tot2_of_tot (tot_acct hr1.2)) (fun cacc hcacc => ?_)
  have hw2 : ∀ acc' : Journal.Acct, acc'.storage = cacc.storage → acc'.info.balance < W →
      WOk { w1 with js := Journal.setAcct w1.js e.tx.caller acc' } :=
    fun acc' h1 h2 => (wok_setInfo hr1.1.ok hcacc h1 h2).ok
  refine tot2_bind (tot2_of_tot (tot_loadAccount ?hw _)) (fun r3 hr3 => ?_)
  case hw => exact hw2 _ rfl (satAdd_lt _ _)
  obtain ⟨w3, c3⟩ := r3
  dsimp only at hr3 ⊢
  refine tot2_bind (tot2_of_tot (tot_acct hr3.2)) (fun bacc hbacc => ?_)
  refine tot2_bind (P := fun _ => True) ?_ (fun cls _ => ?_)
  · obtain ⟨c, hc⟩ := classOf_some hres
    rw [hc]
    exact tot2_pure trivial
  · have hw4 : ∀ acc' : Journal.Acct, acc'.storage = bacc.storage → acc'.info.balance < W →
        WOk { w3 with js := Journal.setAcct w3.js e.block.coinbase acc' } :=
      fun acc' h1 h2 => (wok_setInfo hr3.1.ok hbacc h1 h2).ok
    refine tot2_pure ?_
    exact hw4 _ rfl (satAdd_lt _ _)

/-- what `prepare` hands to the loop: one frame with its checkpoint inside the journal, or an immediate result -/
def FirstOk (p : FrameOrResult Journal.Checkpoint × World × Bool × Nat) : Prop :=
  match p.1 with
  | .frame f => LI [f] p.2.1
  | .result r => WOk p.2.1 ∧ RGood r.result

theorem first_of_fout {w w1 : World} {fr : FrameOrResult Journal.Checkpoint} (h : WOk w) (fo : FOut w w1 fr)
    (fa : FrAddr w1 fr) (hrg : ∀ r, fr = .result r → RGood r.result) (b : Bool) (k : Nat) : FirstOk (fr, w1, b, k) := by
  unfold FirstOk
  cases fr with
  | result r => exact ⟨fo.ok, hrg r rfl⟩
  | frame f =>
    obtain ⟨k1, k2⟩ := fo.cp f rfl
    have := wok_len_pos h
    refine ⟨fo.ok, ⟨by omega, k2, trivial⟩, fun g hg a ha => ?_⟩
    cases hg with
    | head => exact fa f rfl a ha
    | tail _ hg => cases hg

theorem tot2_prepare {w : World} (h : WOk w) (e : Evm.Env) (spec ig : Nat)
    (hfee : GasCalc.enabled spec GasCalc.SpecId.CANCUN = true → e.block.blobGasPrice.isSome) :
    Tot2 (prepare journalOps e spec ig w) FirstOk := by
  unfold prepare
  dsimp only
  refine tot2_bind (tot2_deductCaller (wok_loadAccounts e spec h) e spec hfee) (fun wd hd => ?_)
  refine tot2_bind (tot2_applyAuthList hd.ok e spec) (fun p hp => ?_)
  obtain ⟨wa, rf⟩ := p
  dsimp only at hp ⊢
  split
  · refine tot2_bind' (tot2_makeFrame (cfg := e.toCfg spec) hp.ok (.call _) Memory.new) (fun q heq hq => ?_)
    obtain ⟨f, wf⟩ := q
    exact tot2_pure (first_of_fout hp.ok hq.1 hq.2 (fun r hr => by subst hr; exact makeCallFrame_rgood heq) _ _)
  · refine tot2_bind' (tot2_makeFrame (cfg := e.toCfg spec) hp.ok (.create _) Memory.new) (fun q heq hq => ?_)
    obtain ⟨f, wf⟩ := q
    exact tot2_pure (first_of_fout hp.ok hq.1 hq.2 (fun r hr => by subst hr; exact makeCreateFrame_rgood heq) _ _)

/-- **`Evm.transact` hits no journal / frame-machine `unwrap`**: on a well-formed world (C07 `Good` journal, 256-bit
balances in the database), for every environment, fork and fuel, the answer is a result, a soft failure, or a residual
failure (interpreter side / environment / fuel) -/
theorem transact_tot2 (fuel : Nat) (w : World) (e : Evm.Env) (spec : Nat) (h : WOk w) :
    Tot2 (Evm.transact fuel w e spec) (fun p => WOk p.2) := by
  unfold Evm.transact transactWith
  refine tot2_bind' (tot2_preverify h e (GasCalc.canon spec)) (fun o hp ho => ?_)
  cases o with
  | none => exact tot2_pure h
  | some p =>
    obtain ⟨w1, ig, fg⟩ := p
    have h1 : WOk w1 := (ho _ rfl).ok
    obtain ⟨hvE, _, _, _, _⟩ := preverify_some_inv w w1 e _ ig fg hp
    have hfee : GasCalc.enabled (GasCalc.canon spec) GasCalc.SpecId.CANCUN = true → e.block.blobGasPrice.isSome :=
      (Proofs.TxGas.validateEnv_none _ _ (txgas_validateEnv_of_evm e _ hvE)).1
    dsimp only
    refine tot2_bind (P := fun p : TxResult × World => WOk p.2) ?_ (fun p hp => tot2_pure hp)
    unfold execute
    refine tot2_bind' (tot2_prepare h1 e _ ig hfee) (fun q hprep hq => ?_)
    obtain ⟨first, w2, isCreate, k⟩ := q
    dsimp only
    refine tot2_bind (P := fun p : Interp.ChildResult × World => WOk p.2 ∧ RGood p.1.result) ?_ (fun p hp => ?_)
    · unfold FirstOk at hq
      cases first with
      | frame f => exact (tot2_runLoop _ fuel).1 [f] w2 (List.cons_ne_nil _ _) hq (Proofs.EvmInstLoaded.prepare_inv hprep)
      | result r => exact tot2_pure hq
    · obtain ⟨res, w3⟩ := p
      exact tot2_finish hp.1 e _ fg k isCreate res hp.2

/-- a world on a fresh journal, with 256-bit balances in the pre-state, is well formed -/
theorem wok_fresh (w : World) (spec : Nat) (pre : Nat → Bool) (hjs : w.js = Journal.JState.new spec pre)
    (hbal : ∀ p ∈ w.pre, p.balance < W) : WOk w := by
  refine ⟨by rw [hjs]; exact Proofs.Frame.good_new spec pre, fun a => ?_⟩
  show (((w.preAcct a).map _).getD Journal.Info.default).balance < W
  cases hp : w.preAcct a with
  | none => show (0 : Nat) < W; rw [W_val]; decide
  | some p =>
    have : p ∈ w.pre := List.mem_of_find?_eq_some hp
    exact hbal p this

end Revm.Proofs.EvmLink
