import Revm.Proofs.EvmRefineDb
set_option linter.unusedSimpArgs false
set_option linter.unusedVariables false
namespace Revm.Proofs.EvmRefine
open Revm Revm.Model Revm.Model.Journal Revm.Spec.JournalAbs Revm.Proofs.Journal Revm.Proofs.Frame
open Revm.Model.Evm (World PreAcct CpOps journalOps R callReturn)
open Revm.Spec.Evm (Snap snapshotOps)

/-- the two worlds outside the subroutine bookkeeping -/
structure WRel (w1 w2 : World) : Prop where
  rel : JRel (dbPre w1.pre) w1.js w2.js
  pre : w2.pre = w1.pre
  codes : w2.codes = w1.codes
  logs : w2.logs = w1.logs
  pc : w2.pcOracle = w1.pcOracle
  hs1 : w1.dbHasStorage = true
  hs2 : w2.dbHasStorage = true
  /-- the specification's address list is exactly the domain of its state map -/
  pres : ∀ a, w2.addrs.contains a = (w2.js.state a).isSome
  bal : ∀ p ∈ w1.pre, p.balance < W

/-- the saved states of the open subroutines (innermost first) against the current state -/
def SnapsOk : JState → List JState → Prop
  | _, [] => True
  | s, x :: xs => s.depth = incU64 x.depth ∧ x.spec = s.spec ∧ x.preloaded = s.preloaded ∧
      (∀ a, (x.state a).isSome → (s.state a).isSome) ∧ SnapsOk x xs

/-- forward steps of the specification keep the saved states consistent -/
theorem SnapsOk.fwd {s s' : JState} {xs : List JState} (h : SnapsOk s xs) (hd : s'.depth = s.depth)
    (hsp : s'.spec = s.spec) (hp : s'.preloaded = s.preloaded) (hdom : ∀ a, (s.state a).isSome → (s'.state a).isSome) :
    SnapsOk s' xs := by
  cases xs with
  | nil => trivial
  | cons x xs =>
    obtain ⟨a, b, c, d, e⟩ := h
    exact ⟨by rw [hd]; exact a, by rw [hsp]; exact b, by rw [hp]; exact c, fun y hy => hdom y (d y hy), e⟩

/-- the configuration relation of the simulation: the journal machine with its open checkpoints `ks1`, the snapshot
machine with the saved states `ks2` -/
structure CfgRel (ks1 : List Checkpoint) (w1 : World) (ks2 : List Snap) (w2 : World) : Prop where
  w : WRel w1 w2
  len : ks1.length = ks2.length
  chain : ∃ cps, Chain (dbPre w1.pre) (hsPre w1.pre) ⟨w1.js, cps⟩ (ks1.zip (ks2.map (·.js)))
  snaps : SnapsOk w2.js (ks2.map (·.js))

theorem WRel.dbBal {w1 w2 : World} (h : WRel w1 w2) : DbBal (dbPre w1.pre) := dbBal_pre _ h.bal

theorem restoredBase_some (w : World) (saved : JState) (a : Addr) (h : (saved.state a).isSome) :
    (Spec.Evm.restoredBase w saved a).isSome := by
  unfold Spec.Evm.restoredBase
  cases hs : saved.state a with
  | none => rw [hs] at h; simp at h
  | some x => rfl

theorem restored3_isSome (w : World) (saved : JState) :
    (Spec.Evm.restored3 w saved).isSome = (Spec.Evm.restoredBase w saved PRECOMPILE3).isSome := by
  unfold Spec.Evm.restored3
  cases w.js.state PRECOMPILE3 with
  | none => rfl
  | some cur =>
    simp only
    split
    · simp
    · rfl

theorem restoredState_isSome (w : World) (saved : JState) (a : Addr) :
    (Spec.Evm.restoredState w saved (Spec.Evm.restored3 w saved) a).isSome = (Spec.Evm.restoredBase w saved a).isSome := by
  unfold Spec.Evm.restoredState
  by_cases h : a = PRECOMPILE3
  · subst h; simp only [if_true]; exact restored3_isSome w saved
  · simp only [h, if_false]

theorem restoredBase_isSome_pres (w : World) (saved : JState)
    (hdom : ∀ a, (saved.state a).isSome → w.addrs.contains a = true) (a : Addr) :
    (Spec.Evm.restoredBase w saved a).isSome = w.addrs.contains a := by
  unfold Spec.Evm.restoredBase
  cases hs : saved.state a with
  | some x => simp only [Option.isSome_some]; exact (hdom a (by rw [hs]; rfl)).symm
  | none =>
    simp only
    by_cases hc : w.addrs.contains a = true
    · rw [if_pos hc, hc]; rfl
    · rw [if_neg hc]; simp at hc; simp [hc]

/-- `call_return`: commit and revert -/
theorem callRet_rel (k1 : Checkpoint) (ks1 : List Checkpoint) (w1 : World) (k2 : Snap) (ks2 : List Snap) (w2 : World)
    (r r1 : Interp.ChildResult) (w1' : World) (hR : CfgRel (k1 :: ks1) w1 (k2 :: ks2) w2)
    (h : callReturn journalOps w1 k1 r = .ok (r1, w1')) :
    ∃ w2', callReturn snapshotOps w2 k2 r = .ok (r1, w2') ∧ CfgRel ks1 w1' ks2 w2' := by
  obtain ⟨hw, hlen, ⟨cps, hch⟩, hsn⟩ := hR
  have hdb := dbOk_pre w1.pre
  have hbal := hw.dbBal
  simp only [List.map_cons, List.zip_cons_cons] at hch
  simp only [List.map_cons] at hsn
  obtain ⟨sd, ssp, spr, sdom, srest⟩ := hsn
  unfold callReturn at h ⊢
  by_cases hok : r.result.isOk = true
  · rw [if_pos hok] at h ⊢
    simp only [pure, Except.pure, Except.ok.injEq, Prod.mk.injEq] at h
    obtain ⟨h1, h2⟩ := h
    subst h1; subst h2
    refine ⟨_, rfl, ?_, by simpa using hlen, ⟨cps, hch.close_commit hdb hbal⟩, ?_⟩
    · -- WRel after commit
      refine ⟨?_, hw.pre, hw.codes, hw.logs, hw.pc, hw.hs1, hw.hs2, hw.pres, hw.bal⟩
      show JRel (dbPre w1.pre) (Journal.commit w1.js) { w2.js with depth := decU64 w2.js.depth }
      have g := hch.good hdb hbal
      have gc := good_commit g
      refine ⟨?_, ?_, ?_, ?_, ?_, ?_, gc.ne, hw.rel.sne, ?_, ?_⟩
      · intro a; have := hw.rel.ent a; simpa [Journal.commit] using this
      · intro a k; have := hw.rel.tr a k; simpa [Journal.commit, tload] using this
      · simpa [Journal.commit] using hw.rel.logs
      · simp only [Journal.commit]; rw [hw.rel.depth]
      · simpa [Journal.commit] using hw.rel.spec
      · simpa [Journal.commit] using hw.rel.pre
      · intro a acc hacc; exact hw.rel.cj a acc (by simpa [Journal.commit] using hacc)
      · intro a acc hacc; exact hw.rel.cs a acc hacc
    · show SnapsOk { w2.js with depth := decU64 w2.js.depth } (ks2.map (·.js))
      cases hks : ks2.map (·.js) with
      | nil => trivial
      | cons y ys =>
        rw [hks] at srest
        obtain ⟨a, b, c, d, e⟩ := srest
        refine ⟨?_, by rw [b]; exact ssp, by rw [c]; exact spr, fun z hz => sdom z (d z hz), e⟩
        show decU64 w2.js.depth = incU64 y.depth
        rw [sd, decU64_incU64]; exact a
  · rw [if_neg hok] at h ⊢
    simp only [bind, Except.bind] at h ⊢
    obtain ⟨j', jpre, hrev, habs, hsnap, hjne, hch'⟩ := hch.close_revert hdb hbal
    have hrw : journalOps.revert w1 k1 = .ok { w1 with js := j' } := by
      show World.revert w1 k1 = _
      unfold World.revert
      simp only [hrev, Evm.ofOpt, bind, Except.bind, pure, Except.pure]
    rw [hrw] at h
    simp only [pure, Except.pure, Except.ok.injEq, Prod.mk.injEq] at h
    obtain ⟨h1, h2⟩ := h
    subst h1; subst h2
    have hbasic : w2.db.basic = (dbPre w1.pre).basic := by rw [db_basic, hw.pre]
    have hrel := revert_rel (db := dbPre w1.pre) w2 rfl hbasic (dbCode_pre _) hw.rel hsnap habs hrev sdom hw.pres sd ssp spr hjne
    refine ⟨{ w2 with js := { k2.js with state := Spec.Evm.restoredState w2 k2.js (Spec.Evm.restored3 w2 k2.js) } },
      rfl, ?_, by simpa using hlen, ⟨cps, hch'⟩, ?_⟩
    · refine ⟨hrel, hw.pre, hw.codes, hw.logs, hw.pc, hw.hs1, hw.hs2, ?_, hw.bal⟩
      intro a
      show w2.addrs.contains a = (Spec.Evm.restoredState w2 k2.js (Spec.Evm.restored3 w2 k2.js) a).isSome
      rw [restoredState_isSome, restoredBase_isSome_pres]
      intro b hb; rw [hw.pres b]; exact sdom b hb
    · show SnapsOk { k2.js with state := Spec.Evm.restoredState w2 k2.js (Spec.Evm.restored3 w2 k2.js) } (ks2.map (·.js))
      refine srest.fwd rfl rfl rfl ?_
      intro a ha
      show (Spec.Evm.restoredState w2 k2.js (Spec.Evm.restored3 w2 k2.js) a).isSome = true
      rw [restoredState_isSome]; exact restoredBase_some w2 k2.js a ha

end Revm.Proofs.EvmRefine
