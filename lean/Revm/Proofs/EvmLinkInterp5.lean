import Revm.Proofs.EvmLinkInterp4
/-! LINK, the interpreter side of panic-freedom, part 5: the model facts `MF` of part 2 from the lemmas of part 4 —
what remains are three closed statements: the output of a halting instruction and the calldata / initcode of an action
are slices of the memory (`OutB`, `InB`), and the executable precompiles return a Rust `Bytes` (`PcOut`) — proved in parts 11 (`outB`), 13 (`inB`) and 14
(`pcOut`). -/
set_option linter.unusedSimpArgs false
set_option linter.unusedVariables false
namespace Revm.Proofs.EvmLink
open Revm Revm.Model Revm.Model.Evm
open Revm.Proofs.Memory (WF)

local notation "IInv" => Revm.Proofs.Interp.Inv
local notation "imeas" => Revm.Proofs.Interp.measure
local notation "ISZ" => Memory.ISIZE_MAX

/-- RETURN / REVERT output is a slice of the memory -/
def OutB : Prop :=
  ∀ (s : Interp.IState) (d : Interp.Done) r out s', IInv s →
    (Interp.step s = .pure d ∨ ∃ op k resp, Interp.step s = .host op k ∧ d = k resp) → d = .halt r out s' →
    out.length ≤ s'.mem.buffer.length

/-- calldata / initcode is a slice of the memory, hence a Rust `Bytes` -/
def InB : Prop :=
  ∀ (s : Interp.IState) (d : Interp.Done) a s', IInv s →
    (Interp.step s = .pure d ∨ ∃ op k resp, Interp.step s = .host op k ∧ d = k resp) → d = .action a s' →
    dataLen a ≤ ISZ ∧ ∀ i, a ≠ .eofCreate i

theorem makeFrame_out (pco : PcOut) {cfg : Cfg} {w w' : World} {a : Interp.Action} {mem fr}
    (h : makeFrame journalOps cfg w a mem = .ok (fr, w')) (hs : StoreOk w) (hd : dataLen a ≤ ISZ) :
    MkOut w w' a.gasLimit fr := by
  unfold makeFrame at h
  cases a with
  | call i => exact (makeCallFrame_out pco h hs.2 hd).1
  | create i => exact (makeCreateFrame_out h).1
  | eofCreate i => cases h

theorem frameReturn_out {cfg : Cfg} {top : JFrame} {w w' : World} {res res' : Interp.ChildResult}
    (h : frameReturn journalOps cfg top w res = .ok (res', w')) (hs : StoreOk w) :
    res'.gasRemaining ≤ res.gasRemaining ∧ res'.output.length ≤ res.output.length ∧
      (res.output.length ≤ ISZ → StoreOk w') := by
  unfold frameReturn at h
  split at h
  · have e := callReturn_res h
    subst e
    exact ⟨Nat.le_refl _, Nat.le_refl _, fun _ => hs.eq (callReturn_store h)⟩
  · obtain ⟨k1, k2⟩ := createReturn_store h hs
    exact ⟨createReturn_gas h, k2, k1⟩

theorem makeFrame_init {cfg : Cfg} {w w' : World} {a : Interp.Action} {mem : Memory.SharedMemory} {f : JFrame}
    (pco : PcOut) (h : makeFrame journalOps cfg w a mem = .ok (.frame f, w')) (hs : StoreOk w)
    (hd : dataLen a ≤ ISZ) (hg : a.gasLimit < U64) (henv : Revm.Proofs.Interp.EnvOk cfg.spec cfg.env)
    (hm : WF mem) (hl : mem.buffer.length ≤ 2^62) :
    IInv f.interp ∧ imeas f.interp = a.gasLimit ∧ f.interp.mem = Memory.newContext mem ∧ FKind a f.kind := by
  unfold makeFrame at h
  cases a with
  | call i =>
    obtain ⟨hk, code, hc, hi⟩ := (makeCallFrame_out pco h hs.2 hd).2 f rfl
    obtain ⟨i1, i2⟩ := init_inv' code i.input i.gasLimit i.isStatic cfg.spec i.targetAddress i.caller i.value cfg.env
      (Memory.newContext mem) (hc hs.1) hd hg henv (freshMem_newContext hm hl)
    rw [hi]
    exact ⟨i1, i2, rfl, hk⟩
  | create i =>
    obtain ⟨created, hk, hi⟩ := (makeCreateFrame_out h).2 f rfl
    obtain ⟨i1, i2⟩ := init_inv' i.initCode [] i.gasLimit false cfg.spec created i.caller i.value cfg.env
      (Memory.newContext mem) hd (Nat.zero_le _) hg henv (freshMem_newContext hm hl)
    rw [hi]
    exact ⟨i1, i2, rfl, created, hk⟩
  | eofCreate i => cases h

/-- **the model facts of part 2**, from the three that remain -/
theorem mf_of (pco : PcOut) (hout : OutB) (hin : InB) : MF where
  outB := hout
  inB := hin
  answerCodes := fun _ _ _ _ _ h => answer_store h
  frameCodes := fun _ _ _ _ _ _ h hs hd => (makeFrame_out pco h hs hd).store
  returnOut := fun _ _ _ _ _ _ h hs => frameReturn_out h hs
  early := fun _ _ _ _ _ _ h hs hd => (makeFrame_out pco h hs hd).res _ rfl
  frameInit := fun _ _ _ _ _ _ h hc hd hg henv hm hl => makeFrame_init pco h hc hd hg henv hm hl

end Revm.Proofs.EvmLink
