import Revm.Proofs.EvmLinkGasInv4
/-! LINK, payments, the case sender = beneficiary (C09 `sender_is_beneficiary`): `reward_beneficiary` loads the very
account `reimburse_caller` has just written, so the account ends at (what the execution left) + reimbursement + reward. -/
set_option linter.unusedSimpArgs false
namespace Revm.Proofs.EvmLink
open Revm Revm.Model Revm.Model.Evm
open Revm.Model.GasCalc (enabled)

/-- the sender's account after `finish` when the sender is the beneficiary -/
theorem finish_same (e : Evm.Env) (spec floorGas r7 : Nat) (isCreate : Bool) (res : Interp.ChildResult)
    (w w' : World) (r : TxResult) (h : Evm.finish e spec floorGas r7 isCreate res w = .ok (r, w'))
    (heq : e.tx.caller = e.block.coinbase) :
    ∃ (w1 : World) (c1 : Bool) (cacc acc' : Journal.Acct),
      w.loadAccount e.tx.caller = .ok (w1, c1) ∧ w1.acct e.tx.caller = .ok cacc ∧
      w'.js.state e.tx.caller = some acc' ∧
      acc'.info.balance = U256.saturatingAdd (U256.saturatingAdd cacc.info.balance
        (TxGas.reimburseAmount (gasEnv e spec) (Evm.finalGas e spec floorGas r7 res)))
        (TxGas.rewardAmount (gasEnv e spec) (Evm.finalGas e spec floorGas r7 res)) := by
  obtain ⟨w1, c1, cacc, cacc', w2, w3, c3, bacc, bacc', cls, logs, h1, h2, hb, hw2, h3, h4, hb', _, hw, _, _⟩ :=
    finish_legs e spec floorGas r7 isCreate res w w' r h
  refine ⟨w1, c1, cacc, bacc', h1, h2, ?_, ?_⟩
  · rw [hw, heq]; simp only [Journal.setAcct, if_true]
  · have hinfo : HasInfo w2.js e.block.coinbase cacc'.info := by
      refine ⟨cacc', ?_, rfl⟩
      rw [hw2, ← heq]; simp only [Journal.setAcct, if_true]
    obtain ⟨accl, hs, hi⟩ := loadAccount_info (world_loadAccount_inv h3) hinfo
    have : bacc = accl := by
      have := acct_ok h4
      rw [hs] at this
      exact (Option.some.inj this).symm
    subst this
    rw [hb', hi, hb]

/-- C09 `sender_is_beneficiary` on a completed executed `Evm.transact` -/
theorem transact_sender_is_beneficiary (fuel : Nat) (w w' : World) (e : Evm.Env) (spec : Nat) (r : TxResult)
    (h : Evm.transact fuel w e spec = .ok (.executed r, w')) (hL : e.tx.gasLimit < U64)
    (heq : e.tx.caller = e.block.coinbase) :
    ∃ (w1 : World) (accV : Journal.Acct) (code : List Nat) (ig fg k : Nat) (res : Interp.ChildResult) (w3 : World),
      loadSender w e.tx.caller = .ok (w1, accV, code) ∧
      FirstFrameResult fuel w e spec ig fg k res w3 ∧
      (accV.info.balance < W →
        tipPrice e spec * r.gasUsed ≤ effPrice e spec * r.gasUsed ∧
        ∃ (wx : World) (c : Bool) (accX accF : Journal.Acct),
          w3.loadAccount e.tx.caller = .ok (wx, c) ∧ wx.acct e.tx.caller = .ok accX ∧
          w'.js.state e.tx.caller = some accF ∧
          accF.info.balance = U256.saturatingAdd (U256.saturatingAdd accX.info.balance
            (e.tx.gasLimit * effPrice e spec + blobFeeOf e spec - (effPrice e spec * r.gasUsed + blobFeeOf e spec)))
            (tipPrice e spec * r.gasUsed)) := by
  have hfa := frameAccounting fuel w e spec
  obtain ⟨w1, ig, fg, first, w2, isCreate, k, res, w3, hp, hpr, hk, hrf, hfin⟩ :=
    transact_executed_stages fuel w w' e spec r h
  have hff : FirstFrameResult fuel w e spec ig fg k res w3 := ⟨w1, first, w2, isCreate, hp, hpr, hrf⟩
  obtain ⟨hvE, hi, _, _, accV, code, hl, hvs⟩ := preverify_some_inv w w1 e _ ig fg hp
  refine ⟨w1, accV, code, ig, fg, k, res, w3, hl, hff, fun hW => ?_⟩
  have hv := txgas_validateEnv_of_evm e _ hvE
  have hs := txgas_validateAgainstState_of_evm e _ code accV.info hvs
  have ha := admissible_of_firstFrame hff hL (hfa ig fg k res w3 hff) (U64ops.wsub e.tx.gasLimit ig)
  obtain ⟨wd, hd⟩ := prepare_deduct hpr
  obtain ⟨cold, hh, _, hacct, _, _⟩ := loadSender_inv hl
  have hinfo : HasInfo w1.js e.tx.caller accV.info := ⟨accV, acct_ok hacct, rfl⟩
  obtain ⟨d, accD, hda, hsD, hbD⟩ := deduct_on_validated hinfo hd
  obtain ⟨o, hpipe, o1, o2, o3, o4⟩ :=
    pipeline_of_deduct (gasEnv e (GasCalc.canon spec)) fg k (txFrame e ig res) d hda
  obtain ⟨s1, s2, _, s4, _, _⟩ :=
    Props.C09.sender_pays _ ig fg k _ ha (feeShape e) accV.info.balance hW hv hs o hpipe
  obtain ⟨hrle, _⟩ := Props.C09.sender_is_beneficiary _ ig fg k _ ha (feeShape e) accV.info.balance hW hv hs o hpipe
  obtain ⟨hmul, _, _, _⟩ := Props.C09.validated_facts _ (feeShape e) accV.info.balance hv hs
  obtain ⟨b1, _, _, _⟩ := Props.C09.beneficiary_gets _ ig fg k _ ha hmul o hpipe
  obtain ⟨_, hu, _, _⟩ := finish_gas e _ fg _ isCreate res w3 w' r hfin
  have hfg : Evm.finalGas e (GasCalc.canon spec) fg
      (U64ops.wmul k (Evm.PER_EMPTY_ACCOUNT_COST - Evm.PER_AUTH_BASE_COST)) res =
      TxGas.finalGas (gasEnv e (GasCalc.canon spec)) fg k (txFrame e ig res) :=
    finalGas_eq_txgas e (GasCalc.canon spec) fg k res (U64ops.wsub e.tx.gasLimit ig)
  rw [hfg] at hu
  rw [← o2] at hu
  have hgl : (gasEnv e (GasCalc.canon spec)).gasLimit = e.tx.gasLimit := rfl
  rw [hgl, o1] at s1
  rw [o1] at s4
  have e1 : d = e.tx.gasLimit * effPrice e spec + blobFeeOf e spec := s1
  have e4 : d = o.reimbursed + (effPrice e spec * r.gasUsed + blobFeeOf e spec) := by rw [hu]; exact s4
  have hrw : o.reward = tipPrice e spec * r.gasUsed := by rw [b1, hu]; rfl
  refine ⟨by rw [← hrw, hu]; exact hrle, ?_⟩
  obtain ⟨wx, c, accX, accF, x1, x2, x3, x4⟩ := finish_same e _ fg _ isCreate res w3 w' r hfin heq
  refine ⟨wx, c, accX, accF, x1, x2, x3, ?_⟩
  rw [x4, hfg, ← o3, ← o4, hrw, ← e1]
  congr 2
  omega

end Revm.Proofs.EvmLink
