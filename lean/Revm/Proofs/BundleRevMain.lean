import Revm.Proofs.BundleRevGlobal
/-! C17, second sentence, assembled: `revert(j)` (= j times `revert_latest`) on the bundle built from groups 1..n,
inside the decidable region `revertOk`, leaves a bundle whose changeset (both `OriginalValuesKnown` settings)
applied to the pre-bundle state gives the reference state after groups 1..n-j — the same state the changeset of
the bundle built from groups 1..n-j gives (C16). Core Lean only. -/
namespace Revm.Proofs.Bundle
open Revm.Model.Bundle Revm.Spec.Bundle

set_option linter.unusedSimpArgs false
set_option linter.unusedVariables false

theorem revertN_succ (b : BState) (j : Nat) :
    revertN b (j + 1) = if (revertLatest b).2 then revertN (revertLatest b).1 j else (revertLatest b).1 := rfl

/-- **induction on j**: `revert(j)` walks j frames down the chain (or to its end) -/
theorem revertN_chain (p0 : Plain) (j : Nat) : ∀ (fr : List (BMap BAcct × Plain)) (f : BMap BAcct × Plain) (b' : BState),
    RevChain p0 (f :: fr) b'.reverts → RState b' f.1 p0 f.2 → revertOk b' j = true →
    ∃ f', (f :: fr)[min j fr.length]? = some f' ∧ RState (revertN b' j) f'.1 p0 f'.2 := by
  induction j with
  | zero => intro fr f b' _ hR _; exact ⟨f, by simp, hR⟩
  | succ j ih =>
    intro fr f b' hch hR hok
    cases fr with
    | nil =>
      have hnil : b'.reverts = [] := hch
      have hf : (revertLatest b').2 = false := by rw [revertLatest_flag]; simp [hnil]
      refine ⟨f, by simp, ?_⟩
      rw [revertN_succ]
      simp only [hf, Bool.false_eq_true, if_false]
      rw [revertLatest_noop b' hnil]; exact hR
    | cons f0 tl =>
      obtain ⟨pre, blk, hrev, hblk, hrest⟩ := hch
      simp only [revertOk, Bool.and_eq_true] at hok
      obtain ⟨hok1, hok2⟩ := hok
      obtain ⟨g1, g2, g3⟩ := revertLatest_rstate b' f0.1 f.1 p0 f0.2 f.2 pre blk hrev hR hblk hok1
      simp only [g3, if_true] at hok2
      obtain ⟨f', w1, w2⟩ := ih tl f0 (revertLatest b').1 (by rw [g2]; exact hrest) g1 hok2
      refine ⟨f', ?_, ?_⟩
      · have : min (j + 1) (f0 :: tl).length = min j tl.length + 1 := by
          simp only [List.length_cons]; omega
        rw [this, List.getElem?_cons_succ]; exact w1
      · rw [revertN_succ]; simp only [g3, if_true]; exact w2

theorem revertN_one (b : BState) : revertN b 1 = (revertLatest b).1 := by
  rw [revertN_succ]
  cases (revertLatest b).2 <;> rfl

theorem revertOk_one (b : BState) : revertOk b 1 = revertStepOk b := by
  simp only [revertOk]
  cases (revertLatest b).2 <;> simp

/-- none of the last j blocks holds a storage-wiping revert ⇒ every step of `revert(j)` is in the region -/
theorem noWipe_revertOk (j : Nat) : ∀ b : BState, noWipeInLast b j = true → revertOk b j = true := by
  induction j with
  | zero => intro b _; rfl
  | succ j ih =>
    intro b h
    simp only [revertOk, Bool.and_eq_true]
    cases hl : b.reverts.getLast? with
    | none =>
      have hnil : b.reverts = [] := List.getLast?_eq_none_iff.mp hl
      have hf : (revertLatest b).2 = false := by rw [revertLatest_flag]; simp [hnil]
      exact ⟨by simp [revertStepOk, hl], by simp [hf]⟩
    | some blk =>
      obtain ⟨pre, hpre⟩ := List.getLast?_eq_some_iff.mp hl
      simp only [noWipeInLast, List.all_eq_true] at h
      have hdrop : (pre ++ [blk]).drop ((pre ++ [blk]).length - (j + 1)) = pre.drop (pre.length - j) ++ [blk] := by
        have : (pre ++ [blk]).length - (j + 1) = pre.length - j := by simp
        rw [this, List.drop_append_of_le_length (Nat.sub_le _ _)]
      rw [hpre, hdrop] at h
      have hblk : ∀ e, e ∈ blk → (!e.2.wipe) = true := h blk (by simp)
      refine ⟨?_, ?_⟩
      · simp only [revertStepOk, hl, List.all_eq_true]
        intro e he
        have := hblk e he
        simp only [wipeOk, this, Bool.true_or]
      · have hf : (revertLatest b).2 = true := by rw [revertLatest_flag]; simp [hpre]
        simp only [hf, if_true]
        apply ih
        simp only [noWipeInLast, List.all_eq_true]
        rw [revertLatest_reverts, hpre, List.dropLast_concat]
        intro x hx
        exact h x (by simp [hx])

theorem runHistory_take (h : List Group) : ∀ (s : SState) (p : Plain) (l : List (SState × Plain)) (m : Nat),
    runHistory s p h = some l → runHistory s p (h.take m) = some (l.take m) := by
  induction h with
  | nil => intro s p l m hr; simp only [runHistory, Option.some.injEq] at hr; subst hr; simp [runHistory]
  | cons g gs ih =>
    intro s p l m hr
    cases m with
    | zero => simp [runHistory]
    | succ m =>
      simp only [runHistory] at hr
      cases hg : runGroup s p g with
      | none => rw [hg] at hr; cases hr
      | some r =>
        rw [hg] at hr
        simp only [Option.bind] at hr
        cases hl' : runHistory r.1 r.2 gs with
        | none => rw [hl'] at hr; cases hr
        | some l' =>
          rw [hl'] at hr
          simp only [Option.map, Option.some.injEq] at hr
          subst hr
          simp only [List.take_succ_cons, runHistory, hg, Option.bind, ih r.1 r.2 l' m hl', Option.map]

theorem reachHistory_take (sc : Bool) (p : Plain) (h : List Group) (m : Nat) (hr : reachHistory sc p h = true) :
    reachHistory sc p (h.take m) = true := by
  have := reachHistory_append sc p (h.take m) (h.drop m)
  rw [List.take_append_drop, hr] at this
  have := this.symm
  simp only [Bool.and_eq_true] at this
  exact this.1

/-- the bundle built from only the first m groups (the bundle of a fresh `State` when m = 0) -/
def prefixBundle (l : List (SState × Plain)) (m : Nat) : BState :=
  match (l.take m).getLast? with
  | some x => x.1.bundle
  | none => {}

theorem plainEq_symm {p q : Plain} (h : PlainEq p q) : PlainEq q p :=
  ⟨fun a => (h.1 a).symm, fun a k => (h.2 a k).symm⟩

theorem plainEq_trans {p q r : Plain} (h1 : PlainEq p q) (h2 : PlainEq q r) : PlainEq p r :=
  ⟨fun a => (h1.1 a).trans (h2.1 a), fun a k => (h1.2 a k).trans (h2.2 a k)⟩

theorem applyChangeset_empty (known : Bool) (p0 : Plain) : applyChangeset (toPlainState {} known) p0 = p0 := rfl

/-- **C17, second sentence** in the region `revertOk`: all databases, all EVM-reachable histories, all merge
schedules, all j (also j > number of groups), both `OriginalValuesKnown` settings -/
theorem revert_j_proof (db : BMap Info) (sc : Bool) (p0 : Plain) (h : List Group) (j : Nat) (known : Bool)
    (hdb : dbMatches db p0) (hwf : plainWF p0) (hr : reachHistory sc p0 h = true) :
    ∃ l, runHistory { db := db, sc := sc } p0 h = some l ∧
      ∀ s r, l.getLast? = some (s, r) → revertOk s.bundle j = true →
        ∀ tgt, (p0 :: l.map (·.2))[h.length - j]? = some tgt →
          PlainEq (applyChangeset (toPlainState (revertN s.bundle j) known) p0) tgt := by
  have hinit := init_inv db sc p0 hdb hwf
  obtain ⟨l, h1, h2, h3⟩ := runHistory_inv sc p0 h { db := db, sc := sc } p0 hinit rfl hr
  refine ⟨l, h1, fun s r hl hok tgt htgt => ?_⟩
  obtain ⟨q1, q2, _⟩ := h3 s r hl
  have hch := runHistory_chain sc p0 h { db := db, sc := sc } p0 [] hinit rfl hr
    (show RevChain p0 [(([] : BMap BAcct), p0)] [] from rfl) l h1
  have hlr : lastReverts { db := db, sc := sc } l = s.bundle.reverts := by simp only [lastReverts, hl]
  rw [hlr] at hch
  obtain ⟨ys, hys⟩ := List.getLast?_eq_some_iff.mp hl
  have hfr : (l.map frameOf).reverse ++ [(([] : BMap BAcct), p0)] =
      (s.bundle.state, r) :: ((ys.map frameOf).reverse ++ [(([] : BMap BAcct), p0)]) := by
    rw [hys]; simp [frameOf]
  have hch' : RevChain p0 ((s.bundle.state, r) :: ((ys.map frameOf).reverse ++ [(([] : BMap BAcct), p0)]))
      s.bundle.reverts := by
    rw [← hfr]; exact hch
  obtain ⟨f', w1, w2⟩ := revertN_chain p0 j _ (s.bundle.state, r) s.bundle hch'
    (RState.refl s.bundle p0 r (bundleOK_of_inv s p0 r q1 q2)) hok
  have hlen : ((ys.map frameOf).reverse ++ [(([] : BMap BAcct), p0)]).length = h.length := by
    rw [← h2, hys]; simp
  rw [hlen, ← hfr] at w1
  have hsnd : ((l.map frameOf).reverse ++ [(([] : BMap BAcct), p0)]).map (·.2) = (p0 :: l.map (·.2)).reverse := by
    simp [frameOf, List.map_reverse, Function.comp_def]
  have w1' : ((p0 :: l.map (·.2)).reverse)[min j h.length]? = some f'.2 := by
    rw [← hsnd, List.getElem?_map, w1]; rfl
  have hlt : min j h.length < (p0 :: l.map (·.2)).length := by simp [h2]; omega
  rw [List.getElem?_reverse hlt] at w1'
  have hidx : (p0 :: l.map (·.2)).length - 1 - min j h.length = h.length - j := by simp [h2]; omega
  rw [hidx, htgt] at w1'
  injection w1' with w1'
  rw [w1']
  exact changeset_of_bundleOK (revertN s.bundle j) known p0 f'.2 w2.bundleOK

/-- **one `revert_latest` step** (task form): the bundle after groups 1..n, reverted once inside the region,
describes the reference state after groups 1..n-1 -/
theorem revert_latest_proof (db : BMap Info) (sc : Bool) (p0 : Plain) (h : List Group) (known : Bool)
    (hdb : dbMatches db p0) (hwf : plainWF p0) (hr : reachHistory sc p0 h = true) :
    ∃ l, runHistory { db := db, sc := sc } p0 h = some l ∧
      ∀ s r, l.getLast? = some (s, r) → revertStepOk s.bundle = true →
        ∀ tgt, (p0 :: l.map (·.2))[h.length - 1]? = some tgt →
          PlainEq (applyChangeset (toPlainState (revertLatest s.bundle).1 known) p0) tgt := by
  obtain ⟨l, h1, h2⟩ := revert_j_proof db sc p0 h 1 known hdb hwf hr
  refine ⟨l, h1, fun s r hl hok tgt htgt => ?_⟩
  have := h2 s r hl (by rw [revertOk_one]; exact hok) tgt htgt
  rw [revertN_one] at this
  exact this

/-- the same, against the bundle built from only the first n-j groups -/
theorem revert_j_prefix_proof (db : BMap Info) (sc : Bool) (p0 : Plain) (h : List Group) (j : Nat) (known : Bool)
    (hdb : dbMatches db p0) (hwf : plainWF p0) (hr : reachHistory sc p0 h = true) :
    ∃ l, runHistory { db := db, sc := sc } p0 h = some l ∧
      runHistory { db := db, sc := sc } p0 (h.take (h.length - j)) = some (l.take (h.length - j)) ∧
      ∀ s r, l.getLast? = some (s, r) → revertOk s.bundle j = true →
        PlainEq (applyChangeset (toPlainState (revertN s.bundle j) known) p0)
          (applyChangeset (toPlainState (prefixBundle l (h.length - j)) known) p0) := by
  obtain ⟨l, h1, h2⟩ := revert_j_proof db sc p0 h j known hdb hwf hr
  have htk := runHistory_take h _ p0 l (h.length - j) h1
  refine ⟨l, h1, htk, fun s r hl hok => ?_⟩
  obtain ⟨l2, g1, g2⟩ := changeset_correct_proof db sc p0 (h.take (h.length - j)) known hdb hwf
    (reachHistory_take sc p0 h _ hr)
  rw [htk] at g1
  injection g1 with g1
  subst g1
  have hlen : l.length = h.length := by
    obtain ⟨l', e1, e2, _⟩ := runHistory_inv sc p0 h { db := db, sc := sc } p0 (init_inv db sc p0 hdb hwf) rfl hr
    rw [h1] at e1; injection e1 with e1; rw [e1]; exact e2
  cases hm : h.length - j with
  | zero =>
    have := h2 s r hl hok p0 (by rw [hm]; rfl)
    simp only [prefixBundle, List.take_zero, List.getLast?_nil]
    rw [applyChangeset_empty]
    exact this
  | succ m =>
    have hmlt : m < l.length := by omega
    have hgl : (l.take (m + 1)).getLast? = some l[m] := by
      rw [List.getLast?_eq_getElem?]
      simp only [List.length_take]
      have : min (m + 1) l.length - 1 = m := by omega
      rw [this, List.getElem?_take]
      simp [hmlt]
    have htgt : (p0 :: l.map (·.2))[m + 1]? = some l[m].2 := by
      simp [hmlt]
    have e1 := h2 s r hl hok l[m].2 (by rw [hm]; exact htgt)
    rw [hm] at g2
    have e2 := g2 l[m].1 l[m].2 (by rw [hgl])
    simp only [prefixBundle, hgl]
    exact plainEq_trans e1 (plainEq_symm e2)

end Revm.Proofs.Bundle
