import Revm.Proofs.InterpEofC26
import Revm.Proofs.InterpEofWf
import Revm.Proofs.EofTop
/-! C25 ↔ C26, the whole step: a container accepted by `validate_raw_eof_inner` is well-formed in the sense of C25
(`WfCtx (ctxOf e)`), so the EOF theorems of C25 apply to every validated container. -/
set_option linter.unusedSimpArgs false
set_option linter.unusedVariables false
namespace Revm.Proofs.Interp
open Revm Revm.Model Revm.Model.Interp

theorem spec_u16At {sec : List Nat} {p : Nat} (h : p + 1 < sec.length) :
    Spec.Eof.u16At sec.toArray p = some (u16At sec p) := by
  unfold Spec.Eof.u16At u16At
  simp only [List.getElem?_toArray]
  rw [List.getElem?_eq_getElem (by omega : p < sec.length), List.getElem?_eq_getElem h,
    getD_of_lt (by omega : p < sec.length), getD_of_lt h]

theorem spec_byte {sec : List Nat} {p : Nat} (h : p < sec.length) :
    sec.toArray[p]? = some (sec.getD p 0) := by
  rw [List.getElem?_toArray, List.getElem?_eq_getElem h, getD_of_lt h]

theorem targetOk_intro {B : List Nat} {t : Int} (h0 : 0 ≤ t) (hB : t.toNat ∈ B) : targetOk B t = true := by
  unfold targetOk
  simp only [Bool.and_eq_true, decide_eq_true_eq, List.contains_iff_mem]
  exact ⟨h0, hB⟩

/-- `instrOk` at a boundary from the facts validation establishes -/
theorem instrOk_of_facts {sec : List Nat} {types : List (Nat × Nat × Nat)} {containers : List (List Nat)}
    {self i : Nat} (hb : ∀ b ∈ sec, b < 256) (hi : i ∈ boundaries sec)
    (hr : InRange types.length containers.length sec i)
    (hknown : notEofOf (sec.getD i 0) = false)
    (hj : Spec.Eof.JumpsOnStarts sec.toArray)
    (hnext : i + 1 + Spec.Eof.immLen sec.toArray i < sec.length ∨ Proofs.EofValidate.Term sec.toArray i)
    (hretf : sec.getD i 0 = 0xe4 → returning (typeOf types self) = true)
    (hjumpf : sec.getD i 0 = 0xe5 →
      (!(returning (typeOf types (u16At sec (i + 1)))) || returning (typeOf types self)) = true)
    (hec : sec.getD i 0 = 0xec → ∃ c, containers[sec.getD (i + 1) 0]? = some c ∧ subcontainerOk c = true)
    (hrc : sec.getD i 0 = 0xee → ∃ c h, containers[sec.getD (i + 1) 0]? = some c ∧ headerOf c = some h ∧
      h.dataSizeRawI + 2 ≤ c.length) :
    instrOk (boundaries sec) types containers self sec i = true := by
  have hs := boundary_isInstrStart hb hi
  have hlt : i < sec.length := by have := hs.2; rw [List.size_toArray] at this; exact this
  have hop : sec[i] < 256 := hb _ (List.getElem_mem hlt)
  obtain ⟨t1, t2, t89, t4, tterm⟩ := opcode_row hop
  obtain ⟨b1, b2, b3, b4, b5, b6, b7, b8, b9, b10⟩ := byteTag_spec sec[i]
  have hgd := getD_of_lt hlt
  have hcode : sec.toArray[i]? = some sec[i] := by rw [List.getElem?_toArray, List.getElem?_eq_getElem hlt]
  obtain ⟨hlen, hspec⟩ := hr
  rw [hgd] at hspec hretf hjumpf hec hrc hknown
  have hc : i + 1 < sec.length ∨ sec[i] ≠ 0xe2 := by
    by_cases h7 : sec[i] = 0xe2
    · left
      have : eofTag (decode sec[i]) = 7 := by rw [t1]; exact b7.mpr h7
      have hl := hlen
      unfold instrLen at hl
      rw [instrLenOf_static, hgd, if_pos this] at hl
      omega
    · exact Or.inr h7
  have hlen' := instrLen_eq hb hlt hc
  -- part 2: the next position
  have hnext' : terminating (decode sec[i]) = true ∨ (i + instrLen sec i) ∈ boundaries sec := by
    rcases hnext with hn | ⟨op, inf, h1, h2, h3⟩
    · right
      rw [hlen']
      have e : i + (1 + Spec.Eof.immLen sec.toArray i) = i + 1 + Spec.Eof.immLen sec.toArray i := by omega
      rw [e]
      refine isInstrStart_boundary hb ⟨Proofs.EofValidate.Reach.snoc hs.1 hs.2, ?_⟩
      rw [List.size_toArray]; exact hn
    · left
      rw [hcode] at h1
      have e := Option.some.inj h1
      subst e
      exact tterm (by unfold termOf; rw [h2]; exact h3) hknown
  -- part 3: the facts per tag
  have hjs := hj i hs
  have f56 : eofTag (decode sec[i]) = 5 ∨ eofTag (decode sec[i]) = 6 → i + 3 ≤ sec.length →
      (0 ≤ (i : Int) + 3 + i16At sec (i + 1) ∧ (i : Int) + 3 + i16At sec (i + 1) < sec.length) →
      targetOk (boundaries sec) ((i : Int) + 3 + i16At sec (i + 1)) = true := by
    intro ht hl3 hrange
    rw [t1] at ht
    have hopc : sec.toArray[i]? = some EofValidate.RJUMP ∨ sec.toArray[i]? = some EofValidate.RJUMPI := by
      rw [hcode]
      rcases ht with e | e
      · left; rw [b5.mp e]; rfl
      · right; rw [b6.mp e]; rfl
    have hst := hjs.1 hopc _ (spec_u16At (by omega))
    rw [i16At_eq]
    exact targetOk_intro (by rw [← i16At_eq]; exact hrange.1) (isInstrStart_boundary hb hst)
  have f7 : eofTag (decode sec[i]) = 7 → i + (4 + 2 * sec.getD (i + 1) 0) ≤ sec.length →
      (∀ k, k ≤ sec.getD (i + 1) 0 →
        0 ≤ ((i + (4 + 2 * sec.getD (i + 1) 0) : Nat) : Int) + i16At sec (i + 2 + 2 * k) ∧
        ((i + (4 + 2 * sec.getD (i + 1) 0) : Nat) : Int) + i16At sec (i + 2 + 2 * k) < sec.length) →
      ∀ k, k < sec.getD (i + 1) 0 + 1 →
        targetOk (boundaries sec) (((i + (4 + 2 * sec.getD (i + 1) 0) : Nat) : Int)
          + i16At sec (i + 2 + 2 * k)) = true := by
    intro ht hl hrange k hk
    rw [t1] at ht
    have hopc : sec.toArray[i]? = some EofValidate.RJUMPV := by rw [hcode, b7.mp ht]; rfl
    have hst := hjs.2 hopc _ (spec_byte (by omega : i + 1 < sec.length)) k (by omega) _
      (spec_u16At (by omega : i + 2 + 2 * k + 1 < sec.length))
    refine targetOk_intro (hrange k (by omega)).1 ?_
    have hB := isInstrStart_boundary hb hst
    rw [i16At_eq]
    generalize EofValidate.toI16 (u16At sec (i + 2 + 2 * k)) = x at hB ⊢
    generalize sec.getD (i + 1) 0 = m at hB ⊢
    have e : ((i + (4 + 2 * m) : Nat) : Int) + x = ((i : Int) + 2 + 2 * ((m : Int) + 1)) + x := by omega
    rw [e]; exact hB
  have f10 : eofTag (decode sec[i]) = 10 → sec[i] = 0xe4 := fun ht => b10.mp (by rw [← t1]; exact ht)
  have f2 : eofTag (decode sec[i]) = 2 → sec[i] = 0xe5 := fun ht => b2.mp (by rw [← t1]; exact ht)
  have f3 : eofTag (decode sec[i]) = 3 → sec[i] = 0xec := fun ht => b3.mp (by rw [← t1]; exact ht)
  have f4 : eofTag (decode sec[i]) = 4 → sec[i] = 0xee := fun ht => b4.mp (by rw [← t1]; exact ht)
  unfold instrOk
  simp only [Bool.and_eq_true, decide_eq_true_eq, Bool.or_eq_true, List.contains_iff_mem]
  rw [hgd]
  refine ⟨⟨hlen, hnext'⟩, ?_⟩
  have hlenI : i + instrLenOf (decode sec[i]) sec i ≤ sec.length := by
    have := hlen; unfold instrLen at this; rw [hgd] at this; exact this
  generalize decode sec[i] = I at hspec hretf hjumpf hec hrc f56 f7 f10 f2 f3 f4 hlenI
  cases I
  case rjump => exact f56 (Or.inl rfl) hlenI hspec
  case rjumpi => exact f56 (Or.inr rfl) hlenI hspec
  case rjumpv =>
    show ((List.range (sec.getD (i + 1) 0 + 1)).all fun k =>
      targetOk (boundaries sec) (((i + (4 + 2 * sec.getD (i + 1) 0) : Nat) : Int)
        + i16At sec (i + 2 + 2 * k))) = true
    rw [List.all_eq_true]
    intro k hk
    exact f7 rfl hlenI hspec k (List.mem_range.mp hk)
  case callf => exact decide_eq_true hspec
  case jumpf =>
    show (decide (u16At sec (i + 1) < types.length) &&
      (!(returning (typeOf types (u16At sec (i + 1)))) || returning (typeOf types self))) = true
    rw [Bool.and_eq_true]
    exact ⟨decide_eq_true hspec, hjumpf (f2 rfl)⟩
  case retf => exact hretf (f10 rfl)
  case eofcreate =>
    obtain ⟨c, hc1, hc2⟩ := hec (f3 rfl)
    show (match containers[sec.getD (i + 1) 0]? with
      | some c => subcontainerOk c
      | none => false) = true
    rw [hc1]; exact hc2
  case returnContract =>
    obtain ⟨c, h, hc1, hc2, hc3⟩ := hrc (f4 rfl)
    show (match containers[sec.getD (i + 1) 0]? with
      | some c =>
        (match headerOf c with
         | some h => decide (h.dataSizeRawI + 2 ≤ c.length)
         | none => false)
      | none => false) = true
    rw [hc1]
    simp only []
    rw [hc2]
    exact decide_eq_true hc3
  case codesize => exact hspec.elim
  case codecopy => exact hspec.elim
  all_goals rfl

/-! ## the container -/

theorem typeOf_map {ts : List Eof.TypesSection} {k : Nat} {tt : Eof.TypesSection} (h : ts[k]? = some tt) :
    typeOf (ts.map fun t => (t.inputs, t.outputs, t.maxStackSize)) k = (tt.inputs, tt.outputs, tt.maxStackSize) := by
  unfold typeOf
  rw [List.getD_eq_getElem?_getD, List.getElem?_map, h]; rfl

theorem returning_eq (tt : Eof.TypesSection) :
    returning (tt.inputs, tt.outputs, tt.maxStackSize) = !tt.isNonReturning := rfl

theorem decode_e3 : decode 0xe3 = .callf := rfl
theorem decode_e5 : decode 0xe5 = .jumpf := rfl
theorem decode_ec : decode 0xec = .eofcreate := rfl
theorem decode_ee : decode 0xee = .returnContract := rfl

/-- a decoded container starts with a decodable header whose `data_size` field lies inside the bytes -/
theorem header_of_decoded {c : List Nat} {e' : Eof.Eof} (hb : Eof.IsBytes c) (h : Eof.Eof.decode c = .ok e') :
    ∃ hd, headerOf c = some hd ∧ hd.dataSizeRawI + 2 ≤ c.length := by
  unfold Eof.Eof.decode at h
  rw [Proofs.Eof.bind_eq_ok] at h
  obtain ⟨⟨hd, rest⟩, h1, _⟩ := h
  refine ⟨hd, by unfold headerOf; rw [h1], ?_⟩
  obtain ⟨hin, _⟩ := Proofs.Eof.headerDecode_ok h1 hb
  have hspec := Proofs.Eof.dataSizeRawI_spec hd
  have hl : ((hd.encode.drop hd.dataSizeRawI).take 2).length = 2 := by rw [hspec]; rfl
  rw [List.length_take, List.length_drop] at hl
  rw [hin, List.length_append]
  omega

/-- **validation ⇒ well-formed.** Every container `validate_raw_eof_inner` accepts satisfies the hypothesis of the
EOF theorems of C25. -/
theorem validated_wf {bs : List Nat} {t : Option EofValidate.CodeType} {e : Eof.Eof} (hbs : Eof.IsBytes bs)
    (h : EofValidate.validateRawEofInner bs t = .ok e) : WfCtx (ctxOf e) := by
  obtain ⟨hne, htl, hdl, hsecs, hsubs⟩ := validated_inRange hbs h
  obtain ⟨_, hdec, _⟩ := Proofs.EofValidate.validateRaw_ok h
  obtain ⟨henc, _, _, _, _⟩ := Proofs.Eof.decode_ok hdec hbs
  have hcont := Proofs.EofValidate.validateRaw_sub h (Spec.Eof.SubOf.refl e)
  obtain ⟨l, hcodes, hchildren⟩ := Proofs.EofValidate.validateRaw_top h
  obtain ⟨⟨trF, hflow, hl⟩, ⟨ft, hft, hnr⟩, _⟩ := Proofs.EofValidate.validateEofCodes_flow hcodes
  have hsizes := Proofs.Eof.decoded_sizes hdec hbs
  have hcbytes : ∀ c ∈ e.body.containerSection, Eof.IsBytes c := by
    intro c hc b hb
    have hb' : Eof.IsBytes e.encodeSlow := by rw [henc]; exact hbs
    unfold Eof.Eof.encodeSlow Eof.Body.encode at hb'
    apply hb'
    simp only [List.mem_append, List.mem_flatten]
    exact Or.inr (Or.inl (Or.inr ⟨c, hc, hb⟩))
  refine ⟨hne, htl, ?_, hdl, ?_⟩
  · -- the first section is non-returning
    show returning (typeOf (e.body.typesSection.map fun t => (t.inputs, t.outputs, t.maxStackSize)) 0) = false
    rw [typeOf_map hft, returning_eq, hnr]; rfl
  · intro k sec hk
    obtain ⟨hbytes, hB⟩ := hsecs k sec hk
    have hk' : e.body.codeSection[k]? = some sec := hk
    have hklt : k < e.body.codeSection.length := by
      rcases Nat.lt_or_ge k e.body.codeSection.length with hh | hh
      · exact hh
      · rw [List.getElem?_eq_none hh] at hk'; cases hk'
    have hmem : sec ∈ e.body.codeSection := List.mem_of_getElem? hk'
    have hpos : 0 < sec.length := (hsizes.2.2.2.2.2.2.2.2.2.2.1 sec hmem).1
    obtain ⟨⟨tt, htt, hsf⟩, hcreate⟩ := hflow k hklt sec hk'
    have htt' : e.body.typesSection[k]? = some tt := by rw [← List.getElem?_toArray]; exact htt
    have hjumps : Spec.Eof.JumpsOnStarts sec.toArray := hcont.2 sec hmem
    have hsok := hcont.1.sections k sec hk'
    refine ⟨hbytes, ?_, fun i hi => ?_⟩
    · unfold boundaries scan
      rw [if_pos hpos]; exact List.mem_cons_self ..
    obtain ⟨hlt, hr⟩ := hB i hi
    refine ⟨hlt, ?_⟩
    have hs := boundary_isInstrStart hbytes hi
    have hgd := getD_of_lt hlt
    have hcode : sec.toArray[i]? = some sec[i] := by rw [List.getElem?_toArray, List.getElem?_eq_getElem hlt]
    have hself : typeOf (ctxOf e).types k = (tt.inputs, tt.outputs, tt.maxStackSize) := typeOf_map htt'
    refine instrOk_of_facts hbytes hi hr ?_ hjumps (hsf.noRunOff i hs) ?_ ?_ ?_ ?_
    · -- the opcode is EOF-enabled
      obtain ⟨op, inf, h1, h2, h3⟩ := (hsok i hs).known
      rw [hcode] at h1
      have e1 := Option.some.inj h1
      subst e1
      rw [hgd]; unfold notEofOf; rw [h2]; exact h3
    · -- RETF only in a returning section
      intro hop
      rw [hself, returning_eq]
      cases hn : tt.isNonReturning with
      | false => rfl
      | true =>
        exfalso
        have := (hsf.discipline hn i hs).1
        apply this
        rw [hcode, ← hgd, hop]; rfl
    · -- JUMPF to a returning section only from a returning one
      intro hop
      rw [hself, returning_eq]
      cases hn : tt.isNonReturning with
      | false => simp
      | true =>
        have hnr2 := (hsf.discipline hn i hs).2 (by rw [hcode, ← hgd, hop]; rfl)
        have hr2 := hr.2
        have hl1 := hr.1
        unfold instrLen at hl1
        rw [hop, decode_e5] at hr2 hl1
        have hidx : u16At sec (i + 1) < (ctxOf e).types.length := hr2
        have hl3 : i + 3 ≤ sec.length := hl1
        rw [show (ctxOf e).types.length = e.body.typesSection.length from List.length_map _] at hidx
        have hsome : e.body.typesSection[u16At sec (i + 1)]? = some (e.body.typesSection[u16At sec (i + 1)]'hidx) :=
          List.getElem?_eq_getElem hidx
        have := hnr2 _ _ (spec_u16At (by omega)) (by rw [List.getElem?_toArray]; exact hsome)
        have ht2 : typeOf (ctxOf e).types (u16At sec (i + 1)) = _ := typeOf_map hsome
        rw [ht2, returning_eq, this]; rfl
    · -- EOFCREATE: the sub-container was validated as an init container
      intro hop
      obtain ⟨idx, hidx, hsub⟩ := hcreate i hs (by rw [hcode, ← hgd, hop]; rfl)
      have hidx' := getD_of_some hidx
      have hlidx := hl _ _ hsub
      have hr2 := hr.2
      rw [hop, decode_ec] at hr2
      have hlt2 : sec.getD (i + 1) 0 < e.body.containerSection.length := hr2
      rw [hidx'] at hlt2 ⊢
      have hcs : e.body.containerSection[idx]? = some (e.body.containerSection[idx]'hlt2) :=
        List.getElem?_eq_getElem hlt2
      obtain ⟨e', l', hd', hv'⟩ := hchildren idx _ _ hcs hlidx
      refine ⟨_, hcs, ?_⟩
      have hfilled := (Proofs.EofValidate.validateEofCodes_flow hv').2.2 rfl
      unfold subcontainerOk
      rw [hd']; exact hfilled
    · -- RETURNCONTRACT: the sub-container decodes
      intro hop
      have hr2 := hr.2
      rw [hop, decode_ee] at hr2
      have hlt2 : sec.getD (i + 1) 0 < e.body.containerSection.length := hr2
      have hcs : e.body.containerSection[sec.getD (i + 1) 0]? = some (e.body.containerSection[sec.getD (i + 1) 0]'hlt2) :=
        List.getElem?_eq_getElem hlt2
      have hcm := List.getElem_mem hlt2
      obtain ⟨e', hd'⟩ := hsubs _ hcm
      obtain ⟨hd, hh1, hh2⟩ := header_of_decoded (hcbytes _ hcm) hd'
      exact ⟨_, hd, hcs, hh1, hh2⟩

end Revm.Proofs.Interp
