import Revm.Model.InspectorWrap
/-! Proofs for C28: the inspector register is invisible for observing inspectors.
Part 1: instruction level (`inspector_instruction`, LOG / SELFDESTRUCT wrappers, `step`, `run`). -/
namespace Revm.Proofs.InspectorWrap
open Revm Revm.Model.InspectorWrap

set_option linter.unusedSimpArgs false
set_option linter.unusedVariables false

variable {T : Ty} {S : Type}

/-- the wrapper state with another inspector state: the three input stacks are the same -/
abbrev withObs (w : WState T S) (s : S) : WState T S := { w with obs := s }

@[simp] theorem withObs_withObs (w : WState T S) (s s' : S) : withObs (withObs w s) s' = withObs w s' := rfl
@[simp] theorem withObs_callStack (w : WState T S) (s : S) : (withObs w s).callStack = w.callStack := rfl
@[simp] theorem withObs_createStack (w : WState T S) (s : S) : (withObs w s).createStack = w.createStack := rfl
@[simp] theorem withObs_eofStack (w : WState T S) (s : S) : (withObs w s).eofStack = w.eofStack := rfl

/-! ### `inspector_instruction` -/

/-- `ip - 1 … ip + 1` nets to the identity: when the interpreter is still running
(`instruction_result == Continue`, which is the loop condition of `Interpreter::run`) and the pointer was
already advanced by `step` (`1 ≤ ip`), the wrapped instruction is the instruction; only the inspector's own
state moves. -/
theorem inspectorInstruction_running {rel : ORel} {obs : Observer T S} (h : Observing obs rel)
    (i : IState T → T.E → IState T × T.E) (st : IState T) (c : T.E × WState T S)
    (hc : st.instructionResult = .Continue) (hip : 1 ≤ st.ip) :
    ∃ s', inspectorInstruction obs (liftInstr i) st c = ((i st c.1).1, ((i st c.1).2, withObs c.2 s')) := by
  obtain ⟨ip, ir, gas, mem, na, rest⟩ := st
  simp only at hc hip
  subst hc
  have hs := h.step c.2.obs { ip := ip - 1, instructionResult := .Continue, gas := gas, mem := mem, nextAction := na, rest := rest } c.1
  have hip' : ip - 1 + 1 = ip := by omega
  refine ⟨(obs.stepEnd (obs.step c.2.obs { ip := ip - 1, instructionResult := .Continue, gas := gas, mem := mem, nextAction := na, rest := rest } c.1).1
    (i { ip := ip, instructionResult := .Continue, gas := gas, mem := mem, nextAction := na, rest := rest } c.1).1
    (i { ip := ip, instructionResult := .Continue, gas := gas, mem := mem, nextAction := na, rest := rest } c.1).2).1, ?_⟩
  unfold inspectorInstruction
  dsimp only
  simp only [hs, ne_eq, not_true_eq_false, if_false, liftInstr, hip']
  have he := h.stepEnd (obs.step c.2.obs { ip := ip - 1, instructionResult := .Continue, gas := gas, mem := mem, nextAction := na, rest := rest } c.1).1
    (i { ip := ip, instructionResult := .Continue, gas := gas, mem := mem, nextAction := na, rest := rest } c.1).1
    (i { ip := ip, instructionResult := .Continue, gas := gas, mem := mem, nextAction := na, rest := rest } c.1).2
  simp only [he]

/-- what happens otherwise: if `instruction_result` is not `Continue` when the wrapped instruction is
entered, the instruction is NOT executed and the pointer stays decremented (the early `return`). `run`
never calls `step` in that state. -/
theorem inspectorInstruction_halted {rel : ORel} {obs : Observer T S} (h : Observing obs rel)
    (prev : IState T → T.E × WState T S → IState T × (T.E × WState T S)) (st : IState T)
    (c : T.E × WState T S) (hc : st.instructionResult ≠ .Continue) :
    ∃ s', inspectorInstruction obs prev st c = ({ st with ip := st.ip - 1 }, (c.1, withObs c.2 s')) := by
  have hs := h.step c.2.obs { st with ip := st.ip - 1 } c.1
  refine ⟨(obs.step c.2.obs { st with ip := st.ip - 1 } c.1).1, ?_⟩
  unfold inspectorInstruction
  dsimp only
  simp only [hs, ne_eq, hc, not_false_eq_true, if_true]

/-- `.last().unwrap()` in the LOG wrapper cannot panic -/
theorem log_unwrap_safe {α : Type} (l : List α) (n : Nat) (h : l.length = n + 1) : l.getLast?.isSome = true := by
  cases l with
  | nil => simp at h
  | cons a t => simp [List.getLast?_cons]

theorem logWrapper_eq {rel : ORel} {obs : Observer T S} (h : Observing obs rel) (ops : EnvOps T)
    (prev : IState T → T.E × WState T S → IState T × (T.E × WState T S)) (st : IState T)
    (c : T.E × WState T S) :
    ∃ s', logWrapper ops obs prev st c = ((prev st c).1, ((prev st c).2.1, withObs (prev st c).2.2 s')) := by
  unfold logWrapper
  dsimp only
  by_cases hl : (ops.logs (prev st c).2.1).length = (ops.logs c.1).length + 1
  · simp only [hl, if_true]
    cases hg : (ops.logs (prev st c).2.1).getLast? with
    | none => exact ⟨(prev st c).2.2.obs, rfl⟩
    | some l =>
      have := h.log (prev st c).2.2.obs (prev st c).1 (prev st c).2.1 l
      exact ⟨(obs.log (prev st c).2.2.obs (prev st c).1 (prev st c).2.1 l).1, by simp only [this]⟩
  · simp only [hl, if_false]
    exact ⟨(prev st c).2.2.obs, rfl⟩

theorem selfdestructWrapper_eq (ops : EnvOps T) (obs : Observer T S)
    (prev : IState T → T.E × WState T S → IState T × (T.E × WState T S)) (st : IState T)
    (c : T.E × WState T S) :
    ∃ s', selfdestructWrapper ops obs prev st c = ((prev st c).1, ((prev st c).2.1, withObs (prev st c).2.2 s')) := by
  unfold selfdestructWrapper
  dsimp only
  by_cases hl : (prev st c).1.instructionResult = .SelfDestruct
  · simp only [hl, ne_eq, not_true_eq_false, if_false]
    exact ⟨_, rfl⟩
  · simp only [hl, ne_eq, not_false_eq_true, if_true]
    exact ⟨(prev st c).2.2.obs, rfl⟩

/-- every entry of the wrapped instruction table, on a running interpreter, is the plain entry -/
theorem wrapTable_running {rel : ORel} {obs : Observer T S} (h : Observing obs rel) (ops : EnvOps T)
    (table : Nat → IState T → T.E → IState T × T.E) (opcode : Nat) (st : IState T) (c : T.E × WState T S)
    (hc : st.instructionResult = .Continue) (hip : 1 ≤ st.ip) :
    ∃ s', wrapTable ops obs table opcode st c =
      ((table opcode st c.1).1, ((table opcode st c.1).2, withObs c.2 s')) := by
  obtain ⟨s1, h1⟩ := inspectorInstruction_running h (table opcode) st c hc hip
  unfold wrapTable
  by_cases hlog : opLOG0 ≤ opcode ∧ opcode ≤ opLOG4
  · simp only [hlog, and_self, if_true]
    obtain ⟨s2, h2⟩ := logWrapper_eq h ops (inspectorInstruction obs (liftInstr (table opcode))) st c
    rw [h2, h1]; exact ⟨s2, rfl⟩
  · simp only [hlog, if_false]
    by_cases hsd : opcode = opSELFDESTRUCT
    · simp only [hsd, if_true]
      obtain ⟨s2, h2⟩ := selfdestructWrapper_eq ops obs (inspectorInstruction obs (liftInstr (table opSELFDESTRUCT))) st c
      rw [h2]; subst hsd; rw [h1]; exact ⟨s2, rfl⟩
    · simp only [hsd, if_false]; exact ⟨s1, h1⟩

/-! ### `Interpreter::step`, `run`, `execute_frame` -/

theorem wrap_step {rel : ORel} {obs : Observer T S} (h : Observing obs rel) (ops : EnvOps T)
    (m : Machine T T.E) (st : IState T) (c : T.E × WState T S) (hc : st.instructionResult = .Continue) :
    ∃ s', (wrap ops obs m).step st c = ((m.step st c.1).1, ((m.step st c.1).2, withObs c.2 s')) := by
  unfold Machine.step
  exact wrapTable_running h ops m.table (m.fetch st) { st with ip := st.ip + 1 } c hc (by simp)

/-- lift the result of the plain interpreter loop -/
def liftRun (w : WState T S) (s : S) : Option (IState T × T.E) → Option (IState T × (T.E × WState T S))
  | none => none
  | some x => some (x.1, (x.2, withObs w s))

theorem wrap_runInterp {rel : ORel} {obs : Observer T S} (h : Observing obs rel) (ops : EnvOps T)
    (m : Machine T T.E) : ∀ (n : Nat) (st : IState T) (c : T.E × WState T S),
    ∃ s', (wrap ops obs m).runInterp n st c = liftRun c.2 s' (m.runInterp n st c.1) := by
  intro n
  induction n with
  | zero => intro st c; exact ⟨c.2.obs, rfl⟩
  | succ n ih =>
    intro st c
    by_cases hc : st.instructionResult = .Continue
    · obtain ⟨s1, h1⟩ := wrap_step h ops m st c hc
      obtain ⟨s2, h2⟩ := ih (m.step st c.1).1 ((m.step st c.1).2, withObs c.2 s1)
      refine ⟨s2, ?_⟩
      show (if st.instructionResult = .Continue then _ else _) = liftRun c.2 s2 (if st.instructionResult = .Continue then _ else _)
      rw [if_pos hc, if_pos hc, h1]
      exact h2
    · refine ⟨c.2.obs, ?_⟩
      show (if st.instructionResult = .Continue then _ else _) = liftRun c.2 c.2.obs (if st.instructionResult = .Continue then _ else _)
      rw [if_neg hc, if_neg hc]
      rfl

/-- lift the result of `run` -/
def liftAct (w : WState T S) (s : S) : Option (Action T × IState T × T.E) →
    Option (Action T × IState T × (T.E × WState T S))
  | none => none
  | some x => some (x.1, x.2.1, (x.2.2, withObs w s))

theorem wrap_run {rel : ORel} {obs : Observer T S} (h : Observing obs rel) (ops : EnvOps T)
    (m : Machine T T.E) (n : Nat) (st : IState T) (mem : T.Mem) (c : T.E × WState T S) :
    ∃ s', (wrap ops obs m).run n st mem c = liftAct c.2 s' (m.run n st mem c.1) := by
  obtain ⟨s1, h1⟩ := wrap_runInterp h ops m n { st with nextAction := .none, mem := mem } c
  refine ⟨s1, ?_⟩
  unfold Machine.run
  simp only [h1]
  cases hr : m.runInterp n { st with nextAction := .none, mem := mem } c.1 with
  | none => rfl
  | some x =>
    obtain ⟨st', e'⟩ := x
    simp only [liftRun]
    cases hna : st'.nextAction <;> simp [liftAct, hna]

/-- lift the result of `execute_frame` -/
def liftExec (w : WState T S) (s : S) : Option (Action T × Frame T × T.Mem × T.E) →
    Option (Action T × Frame T × T.Mem × (T.E × WState T S))
  | none => none
  | some x => some (x.1, x.2.1, x.2.2.1, (x.2.2.2, withObs w s))

theorem wrap_executeFrame {rel : ORel} {obs : Observer T S} (h : Observing obs rel) (ops : EnvOps T)
    (m : Machine T T.E) (n : Nat) (f : Frame T) (sh : T.Mem) (c : T.E × WState T S) :
    ∃ s', (wrap ops obs m).executeFrame n f sh c = liftExec c.2 s' (m.executeFrame n f sh c.1) := by
  obtain ⟨s1, h1⟩ := wrap_run h ops m n f.interp sh c
  refine ⟨s1, ?_⟩
  unfold Machine.executeFrame
  rw [h1]
  cases hr : m.run n f.interp sh c.1 with
  | none => rfl
  | some x => rfl

end Revm.Proofs.InspectorWrap
