import Revm.Proofs.EvmLinkValidate2
/-! LINK validation, part 3: `Evm.validateAgainstState` and `Evm.preverify` against `TxValidate.validateCanon` (C02). -/
set_option linter.unusedSimpArgs false
namespace Revm.Proofs.EvmLink
open Revm Revm.Model Revm.Model.Evm
open Revm.Model.GasCalc (enabled)

/-- the sender's `Bytecode` kind as `validate_tx_against_state` distinguishes it -/
def codeKind (code : List Nat) : TxValidate.CodeKind :=
  if code.isEmpty then .empty else if (delegateOf code).isSome then .eip7702 else .other

/-- the loaded sender as C02 reads it -/
def senderOf (code : List Nat) (info : Journal.Info) : TxValidate.Sender :=
  { balance := info.balance, nonce := info.nonce, code := codeKind code }

/-- accept / reject of a verdict -/
def accepted : TxValidate.Res → Bool
  | .ok => true
  | _ => false

theorem maxDataFee_eq (e : Evm.Env) : e.calcMaxDataFee.getD 0 = TxValidate.maxDataFee (tvTx e) := by
  unfold Evm.Env.calcMaxDataFee TxValidate.maxDataFee
  have ht : e.totalBlobGas = TxValidate.totalBlobGas (tvTx e) := by
    unfold Evm.Env.totalBlobGas TxValidate.totalBlobGas tvTx
    simp only [List.length_map]; rfl
  cases h : e.tx.maxFeePerBlobGas with
  | none => simp [tvTx, h]
  | some m => simp [tvTx, h, ht]

theorem nest3 {β} (m : Option Nat) (a F : Nat → Option Nat) (X : Nat → β) (d : β) :
    (match m with
     | some gc => match a gc with
       | some c => match F c with
         | some c2 => X c2
         | _ => d
       | _ => d
     | _ => d) =
    (match (match m with
            | some gc => match a gc with
              | some c => F c
              | none => none
            | none => none) with
     | some c2 => X c2
     | none => d) := by
  cases m with
  | none => rfl
  | some gc =>
    dsimp only
    cases a gc with
    | none => rfl
    | some c => dsimp only; cases F c <;> rfl

theorem balanceCheck_eq (e : Evm.Env) (spec : Nat) :
    (match U256.checkedMul e.tx.gasLimit e.tx.gasPrice with
     | some gasCost =>
       match U256.checkedAdd gasCost e.tx.value with
       | some check =>
         if enabled spec GasCalc.SpecId.CANCUN = true then U256.checkedAdd check (e.calcMaxDataFee.getD 0) else some check
       | none => none
     | none => none) = TxValidate.balanceCheck spec (tvTx e) := by
  unfold TxValidate.balanceCheck
  rw [maxDataFee_eq]
  show _ = (match U256.checkedMul e.tx.gasLimit e.tx.gasPrice with
    | none => none
    | some gasCost => match U256.checkedAdd gasCost e.tx.value with
      | none => none
      | some bc => if enabled spec GasCalc.SpecId.CANCUN = true then U256.checkedAdd bc (TxValidate.maxDataFee (tvTx e)) else some bc)
  cases U256.checkedMul e.tx.gasLimit e.tx.gasPrice with
  | none => rfl
  | some gc => dsimp only; cases U256.checkedAdd gc e.tx.value <;> rfl

/-- **`Evm.validateAgainstState` accepts exactly when `TxValidate.validateTxAgainstState` says `Ok`** -/
theorem validateAgainstState_link (e : Evm.Env) (spec : Nat) (code : List Nat) (info : Journal.Info) :
    Evm.validateAgainstState e spec code info =
      accepted (TxValidate.validateTxAgainstState spec (tvTx e) (senderOf code info)) := by
  have hbal :
      (match U256.checkedMul e.tx.gasLimit e.tx.gasPrice with
        | some gasCost =>
          match U256.checkedAdd gasCost e.tx.value with
          | some check =>
            match
              if enabled spec GasCalc.SpecId.CANCUN = true then U256.checkedAdd check (e.calcMaxDataFee.getD 0)
              else some check with
            | some check => if check > info.balance then false else true
            | x => false
          | x => false
        | x => false) =
      accepted (match TxValidate.balanceCheck spec (tvTx e) with
        | none => .err .OverflowPaymentInTransaction
        | some bc => if bc > info.balance then .err .LackOfFundForMaxFee else .ok) := by
    rw [← balanceCheck_eq]
    rw [nest3 (U256.checkedMul e.tx.gasLimit e.tx.gasPrice) (fun gc => U256.checkedAdd gc e.tx.value)
      (fun c => if enabled spec GasCalc.SpecId.CANCUN = true then U256.checkedAdd c (e.calcMaxDataFee.getD 0) else some c)
      (fun c2 => if c2 > info.balance then false else true) false]
    generalize (match U256.checkedMul e.tx.gasLimit e.tx.gasPrice with
      | some gc => match U256.checkedAdd gc e.tx.value with
        | some c => if enabled spec GasCalc.SpecId.CANCUN = true then U256.checkedAdd c (e.calcMaxDataFee.getD 0) else some c
        | none => none
      | none => none) = o
    cases o with
    | none => rfl
    | some c2 => dsimp only; split <;> rfl
  unfold Evm.validateAgainstState TxValidate.validateTxAgainstState TxValidate.nonceCheck
  simp only [Id.run, pure, senderOf, codeKind]
  by_cases hc : (!code.isEmpty) = true ∧ (delegateOf code).isNone = true
  · have h1 : code.isEmpty = false := by simpa using hc.1
    have h2 : (delegateOf code).isSome = false := by
      cases hd : delegateOf code <;> simp_all
    simp [hc.1, hc.2, h1, h2, accepted]
  · have hk : ¬ ((if code.isEmpty = true then TxValidate.CodeKind.empty
        else if (delegateOf code).isSome = true then .eip7702 else .other) = .other) := by
      cases h1 : code.isEmpty
      · cases hd : delegateOf code
        · exact absurd ⟨by simp [h1], by simp [hd]⟩ hc
        · simp [hd]
      · simp
    rw [if_neg hc]
    simp only [hk, if_false]
    cases hn : e.tx.nonce with
    | none =>
      simp only [tvTx, hn, TxValidate.Res.andThen]
      exact hbal
    | some n =>
      simp only [tvTx, hn]
      by_cases h3 : n = info.nonce
      · by_cases h4 : n = U64 - 1
        · have : ¬ (info.nonce > info.nonce) := by omega
          simp [h3, h4, accepted, TxValidate.Res.andThen]
          subst h3
          simp [h4, accepted, TxValidate.Res.andThen]
        · subst h3
          have h5 : ¬ (info.nonce > info.nonce) := by omega
          have h6 : ¬ (info.nonce < info.nonce) := by omega
          simp only [ne_eq, not_true_eq_false, if_false, h4, h5, h6, TxValidate.Res.andThen]
          exact hbal
      · by_cases h5 : n > info.nonce
        · simp [h3, h5, accepted, TxValidate.Res.andThen]
        · have h6 : n < info.nonce := by omega
          simp [h3, h5, h6, accepted, TxValidate.Res.andThen]

/-- `validation.initial_tx_gas`: the numbers `Evm.preverify` computes -/
def initialGas (e : Evm.Env) (spec : Nat) : Option (Nat × Nat) :=
  GasCalc.calculateInitialTxGas spec e.tx.data e.tx.to.isNone (e.tx.accessList.map (·.keys.length))
    (match e.tx.authList with | some l => l.length | none => 0)

theorem initialGas_eq (e : Evm.Env) (spec : Nat) :
    initialGas e spec =
      GasCalc.calculateInitialTxGas spec (tvTx e).data (tvTx e).isCreate (tvTx e).accessList ((tvTx e).authList.getD 0) := by
  unfold initialGas tvTx
  cases e.tx.authList <;> rfl

/-- `journaled_state.load_code(caller)`, the account, the bytes of its code: what `validate_tx_against_state` reads -/
def loadSender (w : World) (a : Nat) : R (World × Journal.Acct × List Nat) := do
  let (w, _) ← w.loadCode a
  let acc ← w.acct a
  let h ← ofOpt "code not cached" acc.info.code
  let code ← ofOpt "code_by_hash" (w.codeOf h)
  pure (w, acc, code)

theorem bind_ok {ε α β} {x : Except ε α} {f : α → Except ε β} {b : β} (h : (x >>= f) = .ok b) :
    ∃ a, x = .ok a ∧ f a = .ok b := by
  cases x with
  | error err => simp [bind, Except.bind] at h
  | ok a => exact ⟨a, rfl, h⟩

theorem loadSender_inv {w w1 : World} {a : Nat} {acc : Journal.Acct} {code : List Nat}
    (h : loadSender w a = .ok (w1, acc, code)) :
    ∃ cold hh, w.loadCode a = .ok (w1, cold) ∧ w1.acct a = .ok acc ∧ acc.info.code = some hh ∧
      w1.codeOf hh = some code := by
  unfold loadSender at h
  obtain ⟨⟨w1', cold⟩, h1, h⟩ := bind_ok h
  obtain ⟨acc', h2, h⟩ := bind_ok h
  obtain ⟨hh, h3, h⟩ := bind_ok h
  obtain ⟨code', h4, h⟩ := bind_ok h
  simp only [pure, Except.pure, Except.ok.injEq, Prod.mk.injEq] at h
  obtain ⟨rfl, rfl, rfl⟩ := h
  refine ⟨cold, hh, h1, h2, ?_, ?_⟩
  · cases hc : acc'.info.code with
    | none => rw [hc] at h3; simp [ofOpt] at h3
    | some x => rw [hc] at h3; simp only [ofOpt, Except.ok.injEq] at h3; rw [h3]
  · cases hc : w1'.codeOf hh with
    | none => rw [hc] at h4; simp [ofOpt] at h4
    | some x => rw [hc] at h4; simp only [ofOpt, Except.ok.injEq] at h4; rw [h4]

/-- `Evm.preverify` once the sender is known to load: the three validation stages in sequence -/
theorem preverify_flat (w w1 : World) (e : Evm.Env) (spec : Nat) (acc : Journal.Acct) (code : List Nat)
    (hload : loadSender w e.tx.caller = .ok (w1, acc, code)) :
    Evm.preverify w e spec =
      (match Evm.validateEnv e spec with
       | .error err => .error err
       | .ok v =>
         if (!v) = true then .ok none else
         match initialGas e spec with
         | none => .error (.panic "initcode_cost")
         | some g =>
           if g.1 > e.tx.gasLimit then .ok none
           else if enabled spec GasCalc.SpecId.PRAGUE = true ∧ g.2 > e.tx.gasLimit then .ok none
           else if (!Evm.validateAgainstState e spec code acc.info) = true then .ok none
           else .ok (some (w1, g.1, g.2))) := by
  obtain ⟨cold, hh, h1, h2, h3, h4⟩ := loadSender_inv hload
  unfold Evm.preverify
  simp only [bind, Except.bind, pure, Except.pure]
  cases hv : Evm.validateEnv e spec with
  | error err => rfl
  | ok v =>
    dsimp only
    split
    · rfl
    · unfold initialGas
      generalize GasCalc.calculateInitialTxGas spec e.tx.data e.tx.to.isNone _ _ = ig
      cases ig with
      | none => rfl
      | some g =>
        simp only [ofOpt, h1, h2, h3, h4]

/-- `validate_tx_against_state` has no panic -/
theorem validateTxAgainstState_ne_panic (s : Nat) (tx : TxValidate.Tx) (snd : TxValidate.Sender) :
    TxValidate.validateTxAgainstState s tx snd ≠ .panic := by
  unfold TxValidate.validateTxAgainstState TxValidate.nonceCheck
  repeat' split
  all_goals simp [TxValidate.Res.andThen]
  all_goals (repeat' split) <;> simp

/-- **`Evm.preverify` is `TxValidate.validateCanon`** (C02: `validate_env`, `validate_initial_tx_gas`,
`validate_tx_against_state` in this order) on the sender loaded through the journal: the same verdict
(accepted / rejected / panic), and on acceptance the world with the sender loaded and the two gas numbers -/
theorem preverify_verdict (w w1 : World) (e : Evm.Env) (spec : Nat) (acc : Journal.Acct) (code : List Nat)
    (hload : loadSender w e.tx.caller = .ok (w1, acc, code)) :
    (TxValidate.validateCanon spec (tvCfg e) (tvBlock e) (tvTx e) (senderOf code acc.info) = .ok →
      ∃ ig fg, initialGas e spec = some (ig, fg) ∧ Evm.preverify w e spec = .ok (some (w1, ig, fg))) ∧
    (∀ x, TxValidate.validateCanon spec (tvCfg e) (tvBlock e) (tvTx e) (senderOf code acc.info) = .err x →
      Evm.preverify w e spec = .ok none) ∧
    (TxValidate.validateCanon spec (tvCfg e) (tvBlock e) (tvTx e) (senderOf code acc.info) = .panic →
      ∃ msg, Evm.preverify w e spec = .error (.panic msg)) := by
  rw [preverify_flat w w1 e spec acc code hload, validateEnv_link, validateAgainstState_link]
  unfold TxValidate.validateCanon TxValidate.validateInitialTxGas
  rw [← initialGas_eq]
  have hnp := validateTxAgainstState_ne_panic spec (tvTx e) (senderOf code acc.info)
  generalize TxValidate.validateTxAgainstState spec (tvTx e) (senderOf code acc.info) = r3 at hnp
  cases hv : TxValidate.validateEnv spec (tvCfg e) (tvBlock e) (tvTx e) with
  | err x => simp [resToR, TxValidate.Res.andThen]
  | panic => simp [resToR, TxValidate.Res.andThen]
  | ok =>
    simp only [resToR, TxValidate.Res.andThen, Bool.not_true, Bool.false_eq_true, if_false]
    cases hi : initialGas e spec with
    | none => simp
    | some g =>
      obtain ⟨ig, fg⟩ := g
      have htx : (tvTx e).gasLimit = e.tx.gasLimit := rfl
      simp only [htx]
      by_cases h1 : ig > e.tx.gasLimit
      · simp [h1]
      · by_cases h2 : enabled spec GasCalc.SpecId.PRAGUE = true ∧ fg > e.tx.gasLimit
        · simp [h1, h2.1, h2.2]
        · have h2' : (enabled spec GasCalc.SpecId.PRAGUE && decide (fg > e.tx.gasLimit)) = false := by
            cases hp : enabled spec GasCalc.SpecId.PRAGUE
            · rfl
            · simp only [Bool.true_and, decide_eq_false_iff_not]; exact fun h => h2 ⟨hp, h⟩
          simp only [h1, if_false, h2, h2', Bool.false_eq_true]
          cases r3 <;> simp [accepted] at hnp ⊢

end Revm.Proofs.EvmLink
