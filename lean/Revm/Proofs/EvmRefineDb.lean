import Revm.Proofs.EvmRefineChain
import Revm.Proofs.EvmSimTx
set_option linter.unusedSimpArgs false
set_option linter.unusedVariables false
namespace Revm.Proofs.EvmRefine
open Revm Revm.Model Revm.Model.Journal Revm.Spec.JournalAbs Revm.Proofs.Journal Revm.Proofs.Frame
open Revm.Model.Evm (World PreAcct CpOps journalOps R)
open Revm.Spec.Evm (Snap snapshotOps)

/-- the database of a pre-state as the journal model sees it, without the delegation lookup (the histories of the
refinement proof use `loadCode` + `load` instead of `loadDelegated`) -/
def dbPre (pre : List PreAcct) : Db :=
  { basic := (Evm.World.db { js := JState.new 0 (fun _ => false), pre := pre }).basic,
    storage := (Evm.World.db { js := JState.new 0 (fun _ => false), pre := pre }).storage,
    delegate := fun _ => none }

/-- a faithful `has_storage` for that database -/
def hsPre (pre : List PreAcct) (a : Addr) : Bool :=
  match pre.find? (fun p => p.addr == a) with
  | some p => p.storage.any (fun kv => kv.2 != 0)
  | none => false

theorem db_basic (w : World) : w.db.basic = (dbPre w.pre).basic := rfl
theorem db_storage (w : World) : w.db.storage = (dbPre w.pre).storage := rfl

theorem lookup_zero (l : List (Nat × Nat)) (k : Nat) (h : l.any (fun kv => kv.2 != 0) = false) :
    (l.lookup k).getD 0 = 0 := by
  induction l with
  | nil => rfl
  | cons x xs ih =>
    simp only [List.any_cons, Bool.or_eq_false_iff] at h
    simp only [List.lookup]
    by_cases hk : k == x.1
    · simp only [hk]
      have : x.2 = 0 := by simpa using h.1
      simp [this]
    · simp only [hk]; exact ih h.2

theorem dbOk_pre (pre : List PreAcct) : DbOk (dbPre pre) (hsPre pre) := by
  intro a h k
  show (match (Evm.World.preAcct { js := JState.new 0 (fun _ => false), pre := pre } a) with
    | some p => (p.storage.lookup k).getD 0
    | none => 0) = 0
  unfold hsPre at h
  unfold Evm.World.preAcct
  cases hf : pre.find? (fun p => p.addr == a) with
  | none => rfl
  | some p => rw [hf] at h; exact lookup_zero _ k h

theorem dbBal_pre (pre : List PreAcct) (h : ∀ p ∈ pre, p.balance < W) : DbBal (dbPre pre) := by
  intro a
  show ((Option.map _ (Evm.World.preAcct { js := JState.new 0 (fun _ => false), pre := pre } a)).getD Info.default).balance < W
  unfold Evm.World.preAcct
  cases hf : pre.find? (fun p => p.addr == a) with
  | none => simp [Info.default]; rw [W_val]; decide
  | some p => simp only [Option.map_some, Option.getD_some]; exact h p (List.mem_of_find?_eq_some hf)

theorem dbCode_pre (pre : List PreAcct) : ∀ b i, (dbPre pre).basic b = some i → ∀ hh, i.code = some hh → hh = i.codeHash := by
  intro b i hb hh hc
  change Option.map _ (Evm.World.preAcct { js := JState.new 0 (fun _ => false), pre := pre } b) = some i at hb
  cases hp : Evm.World.preAcct { js := JState.new 0 (fun _ => false), pre := pre } b with
  | none => rw [hp] at hb; simp at hb
  | some p =>
    rw [hp] at hb
    simp only [Option.map_some, Option.some.injEq] at hb
    subst hb
    simp only [Option.some.injEq] at hc
    exact hc.symm

end Revm.Proofs.EvmRefine
