import Revm.Proofs.EvmLinkStrict4
import Revm.Proofs.EvmLinkKeep5
/-! LINK, frame accounting, part 5: CALL / CALLCODE / DELEGATECALL / STATICCALL / CREATE / CREATE2 / EOFCREATE / EXT*CALL
pay for the gas they give the child (the CALL stipend is covered by the value-transfer surcharge), and `Interp.step`. -/
set_option linter.unusedSimpArgs false
set_option linter.unusedVariables false
namespace Revm.Proofs.EvmLink
open Revm Revm.Model Revm.Model.Interp

/-- `advancePc` does not touch the gas meter -/
theorem sk_advancePc_gas {fl : Bool} {s0 s : IState} (h : KeptB fl s0 s) (n : Nat) :
    SKeep fl s0 (fun _ s' => s'.gas = s.gas) (advancePc n s) := .ok (h.trans ⟨rfl, rfl, Nat.le_refl _⟩) rfl

attribute [local irreducible] gasCharge getS check requireNonStatic requireEof requireInitEof requireSome assumeNotEof
  gasOrFail refund advancePc setEof popN popTop setTop push stackCall stackCallAdv asUsizeOrFail resizeMem memSlice
  memSliceRange memGetU256 memSetU256 memSetByte memSetData memCopy codeSlice codeByte jumpRel getEof loadEofCode
  haltWith haltOut faultWith modifyS liftMemWrite pop1 pop2 pop3 pop4 popAddress popTop1 popTop2 popTop3 readU16 readI16

section
variable {fl : Bool} {s0 s : IState}

theorem sk_resizeMemRange (h : KeptB fl s0 s) (o l : Nat) : SKeep fl s0 T (resizeMemRange o l s) := by
  unfold resizeMemRange; sk_auto
macro_rules | `(tactic| sk_prim) => `(tactic| exact sk_resizeMemRange ‹_› _ _)
attribute [local irreducible] resizeMemRange

theorem sk_getMemoryInputAndOutRanges (h : KeptB fl s0 s) : SKeep fl s0 T (getMemoryInputAndOutRanges s) := by
  unfold getMemoryInputAndOutRanges; sk_auto
theorem sk_popExtcallTarget (h : KeptB fl s0 s) : SKeep fl s0 T (popExtcallTarget s) := by
  unfold popExtcallTarget; sk_auto
theorem sk_extcallInput (h : KeptB fl s0 s) : SKeep fl s0 T (extcallInput s) := by
  unfold extcallInput; sk_auto
theorem sk_checkWhen (h : KeptB fl s0 s) (b : Bool) (k : Nat) : SKeep fl s0 T (checkWhen b k s) := by
  unfold checkWhen; sk_auto
theorem sk_initcodeCharge (h : KeptB fl s0 s) (l : Nat) : SKeep fl s0 T (initcodeCharge l s) := by
  unfold initcodeCharge
  refine sk_bind (sk_getS h) (fun x s' hk _ => ?_)
  split
  · split
    · sk_auto
    · cases GasCalc.initcodeCost l with
      | some c => (try dsimp only); sk_auto
      | none => (try dsimp only); sk_auto
  · sk_auto
macro_rules | `(tactic| sk_prim) => `(tactic| first
  | exact sk_getMemoryInputAndOutRanges ‹_› | exact sk_popExtcallTarget ‹_› | exact sk_extcallInput ‹_›
  | exact sk_checkWhen ‹_› _ _ | exact sk_initcodeCharge ‹_› _)
attribute [local irreducible] getMemoryInputAndOutRanges popExtcallTarget extcallInput checkWhen initcodeCharge

theorem sk_createCode (h : KeptB fl s0 s) (o l : Nat) : SKeep fl s0 T (createCode o l s) := by
  unfold createCode; sk_auto
theorem sk_createScheme (h : KeptB fl s0 s) (b : Bool) (l : Nat) : SKeep true s0 T (createScheme b l s) := by
  unfold createScheme; sk_auto
macro_rules | `(tactic| sk_prim) => `(tactic| first | exact sk_createCode ‹_› _ _ | exact sk_createScheme ‹_› _ _)
attribute [local irreducible] createCode createScheme

/-- `calc_call_gas`: the access cost (at least 1) has been paid, and when value is transferred at least the stipend
and one more -/
theorem sk_calcCallGas (h : KeptB fl s0 s) (r : HostResp) (ie ht : Bool) (l : Nat) :
    SKeep true s0 (fun _ s' => s'.gas.remaining + 1 ≤ s.gas.remaining ∧
        (ht = true → s'.gas.remaining + GasCalc.CALL_STIPEND + 1 ≤ s.gas.remaining))
      (calcCallGas r ie ht l s) := by
  unfold calcCallGas
  refine sk_bind (sk_getS h) (fun x s1 h1 hx => ?_)
  obtain ⟨rfl, rfl⟩ := hx
  refine sk_bind (sk_gasCharge1 h1 _ (callCost_pos _ _ _ _ _)) (fun _ s2 h2 hq => ?_)
  refine sk_bind (sk_getS h2) (fun y s3 h3 hy => ?_)
  obtain ⟨rfl, rfl⟩ := hy
  refine sk_pure h3 ⟨?_, fun hht => ?_⟩
  · have := callCost_pos s1.spec ht r.isCold r.delegCold ie
    omega
  · subst hht
    have := callCost_transfer1 s1.spec r.isCold r.delegCold ie
    omega

theorem callI_strict (s : IState) : SOutcome s (callI s) := by
  unfold callI
  have h := KeptB.refl s
  refine hostCallAction_strict (fl := ?fl) (fl' := true) ?_ (fun b r s' hrok h => ?_)
  rotate_left
  · sk_auto
  · obtain ⟨lgl, to, value, input, rs, re⟩ := b
    dsimp only
    refine sk_bind (sk_requireSome h r hrok) (fun _ s1 h1 _ => ?_)
    refine sk_bind (sk_calcCallGas h1 r _ (decide (value ≠ 0)) _) (fun gl s2 h2 hq => ?_)
    refine sk_bind (sk_gasCharge h2 gl) (fun _ s3 h3 hq3 => ?_)
    refine sk_bind (sk_getS h3) (fun y s4 h4 hy => ?_)
    obtain ⟨rfl, rfl⟩ := hy
    refine sk_pure h4 ?_
    show s4.gas.remaining + (if value ≠ 0 then U64ops.saturatingAdd gl GasCalc.CALL_STIPEND else gl) + 1
      ≤ s.gas.remaining
    have := h1.rem
    by_cases hv : value ≠ 0
    · rw [if_pos hv]
      have := hq.2 (by simpa using hv)
      have := satAdd_le gl GasCalc.CALL_STIPEND
      omega
    · rw [if_neg hv]
      have := hq.1
      omega

theorem callcodeI_strict (s : IState) : SOutcome s (callcodeI s) := by
  unfold callcodeI
  have h := KeptB.refl s
  refine hostCallAction_strict (fl := ?fl) (fl' := true) ?_ (fun b r s' hrok h => ?_)
  rotate_left
  · sk_auto
  · obtain ⟨lgl, to, value, input, rs, re⟩ := b
    dsimp only
    refine sk_bind (sk_requireSome h r hrok) (fun _ s1 h1 _ => ?_)
    refine sk_bind (sk_calcCallGas h1 r _ (decide (value ≠ 0)) _) (fun gl s2 h2 hq => ?_)
    refine sk_bind (sk_gasCharge h2 gl) (fun _ s3 h3 hq3 => ?_)
    refine sk_bind (sk_getS h3) (fun y s4 h4 hy => ?_)
    obtain ⟨rfl, rfl⟩ := hy
    refine sk_pure h4 ?_
    show s4.gas.remaining + (if value ≠ 0 then U64ops.saturatingAdd gl GasCalc.CALL_STIPEND else gl) + 1
      ≤ s.gas.remaining
    have := h1.rem
    by_cases hv : value ≠ 0
    · rw [if_pos hv]
      have := hq.2 (by simpa using hv)
      have := satAdd_le gl GasCalc.CALL_STIPEND
      omega
    · rw [if_neg hv]
      have := hq.1
      omega

theorem delegatecallI_strict (s : IState) : SOutcome s (delegatecallI s) := by
  unfold delegatecallI
  have h := KeptB.refl s
  refine hostCallAction_strict (fl := ?fl) (fl' := true) ?_ (fun b r s' hrok h => ?_)
  rotate_left
  · sk_auto
  · obtain ⟨lgl, to, input, rs, re⟩ := b
    dsimp only
    refine sk_bind (sk_requireSome h r hrok) (fun _ s1 h1 _ => ?_)
    refine sk_bind (sk_calcCallGas h1 r _ _ _) (fun gl s2 h2 hq => ?_)
    refine sk_bind (sk_gasCharge h2 gl) (fun _ s3 h3 hq3 => ?_)
    refine sk_bind (sk_getS h3) (fun y s4 h4 hy => ?_)
    obtain ⟨rfl, rfl⟩ := hy
    refine sk_pure h4 ?_
    show s4.gas.remaining + gl + 1 ≤ s.gas.remaining
    have := h1.rem
    have := hq.1
    omega

theorem staticcallI_strict (s : IState) : SOutcome s (staticcallI s) := by
  unfold staticcallI
  have h := KeptB.refl s
  refine hostCallAction_strict (fl := ?fl) (fl' := true) ?_ (fun b r s' hrok h => ?_)
  rotate_left
  · sk_auto
  · obtain ⟨lgl, to, input, rs, re⟩ := b
    dsimp only
    refine sk_bind (sk_requireSome h r hrok) (fun _ s1 h1 _ => ?_)
    refine sk_bind (sk_calcCallGas h1 r _ _ _) (fun gl s2 h2 hq => ?_)
    refine sk_bind (sk_gasCharge h2 gl) (fun _ s3 h3 hq3 => ?_)
    refine sk_bind (sk_getS h3) (fun y s4 h4 hy => ?_)
    obtain ⟨rfl, rfl⟩ := hy
    refine sk_pure h4 ?_
    show s4.gas.remaining + gl + 1 ≤ s.gas.remaining
    have := h1.rem
    have := hq.1
    omega

theorem createI_strict (c2 : Bool) (s : IState) : SOutcome s (.pure (createI c2 s).toDoneAction) := by
  refine .pure (toDoneAction_strict (fl := true) ?_)
  unfold createI
  have h := KeptB.refl s
  refine sk_bind (by sk_prim) (fun _ _ _ _ => ?_)
  refine sk_bind (by sk_prim) (fun _ _ _ _ => ?_)
  refine sk_bind (by sk_prim) (fun p _ _ _ => ?_)
  obtain ⟨value, codeOffset, len⟩ := p
  dsimp only
  refine sk_bind (by sk_prim) (fun len' _ _ _ => ?_)
  refine sk_bind (by sk_prim) (fun code _ _ _ => ?_)
  refine sk_bind (by sk_prim) (fun salt s1 h1 _ => ?_)
  refine sk_bind (sk_getS h1) (fun x s2 h2 hx => ?_)
  obtain ⟨rfl, rfl⟩ := hx
  (try dsimp only)
  refine sk_bind (sk_gasCharge h2 _) (fun _ s3 h3 hq3 => ?_)
  refine sk_bind (sk_getS h3) (fun y s4 h4 hy => ?_)
  obtain ⟨rfl, rfl⟩ := hy
  refine sk_pure h4 ?_
  exact Nat.le_trans (Nat.succ_le_succ hq3) (h2.strict rfl)

theorem eofcreateI_strict (s : IState) : SOutcome s (eofcreateI s) := by
  unfold eofcreateI
  have h := KeptB.refl s
  refine hostCallAction_strict (fl := true) (fl' := true) ?_ (fun b r s' hrok h => ?_)
  · unfold eofcreatePre
    refine sk_bind (by sk_prim) (fun _ _ _ _ => ?_)
    refine sk_bind (by sk_prim) (fun _ _ _ _ => ?_)
    refine sk_bind (by sk_prim) (fun _ _ _ _ => ?_)
    refine sk_bind (by sk_prim) (fun idx _ _ _ => ?_)
    refine sk_bind (by sk_prim) (fun p _ _ _ => ?_)
    obtain ⟨value, salt, dataOff, dataSize⟩ := p
    dsimp only
    refine sk_bind (by sk_prim) (fun c s1 h1 _ => ?_)
    cases c.containers[idx]? with
    | none => exact sk_faultWith _
    | some sub =>
      (try dsimp only)
      generalize subcontainerOk sub = okb
      refine sk_bind (by sk_prim) (fun q s2 h2 _ => ?_)
      obtain ⟨a, b⟩ := q
      (try dsimp only)
      refine sk_bind (Q := T) (by split <;> sk_prim) (fun input s3 h3 _ => ?_)
      cases okb with
      | false => exact sk_faultWith _
      | true =>
        simp only [Bool.not_true, Bool.false_eq_true, if_false]
        refine sk_bind (by sk_prim) (fun _ s4 h4 _ => ?_)
        refine sk_bind (sk_getS h4) (fun x s5 h5 _ => ?_)
        exact sk_pure h5 trivial
  · obtain ⟨value, sub, input⟩ := b
    refine sk_bind (sk_getS h) (fun x s1 h1 hx => ?_)
    obtain ⟨rfl, rfl⟩ := hx
    generalize Gas.remaining63of64 s1.gas = gl
    refine sk_bind (sk_gasCharge h1 _) (fun _ s2 h2 hq2 => ?_)
    refine sk_bind (sk_advancePc_gas h2 1) (fun _ s3 h3 hg3 => ?_)
    have hfin : s3.gas.remaining + gl + 1 ≤ s.gas.remaining := by
      rw [hg3]; have := h1.strict rfl; omega
    have hp : ∀ i : EofCreateInputs, i.gasLimit = gl → SPaid s (Action.eofCreate i) s3 := by
      intro i hi
      show s3.gas.remaining + i.gasLimit + 1 ≤ s.gas.remaining
      rw [hi]; exact hfin
    exact sk_pure h3 (hp _ rfl)

end
end Revm.Proofs.EvmLink
