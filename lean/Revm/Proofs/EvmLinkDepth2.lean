import Revm.Proofs.EvmLinkDepth
/-! LINK, frame depth (C07), part 2: `make_create_frame`, `call_return`, `create_return` on EvmFrame. -/
set_option linter.unusedSimpArgs false
namespace Revm.Proofs.EvmLink
open Revm Revm.Model Revm.Model.Evm
open Revm.Model.Journal (incU64 decU64)
open Revm.Proofs.Frame (dec_inc inc_small dec_pos)

/-! ## depth of `make_create_frame` -/

/-- `make_create_frame` from the precompile-address check on -/
def createTail {κ : Type} (C : CpOps κ) (cfg : Cfg) (w : World) (i : Interp.CreateInputs)
    (mem : Memory.SharedMemory) (created : Nat) : R (FrameOrResult κ × World) := do
  if isPrecompile cfg.spec created then return (.result (earlyResult .CreateCollision i.gasLimit), w)
  let (w, _) ← w.loadAccount created
  let hasStorage := w.hasStorage created
  let (w, r) ← C.createCheckpoint w i.caller created hasStorage i.value cfg.spec
  match r with
  | .error .collision => pure (.result (earlyResult .CreateCollision i.gasLimit), w)
  | .error .overflowPayment => pure (.result (earlyResult .OverflowPayment i.gasLimit), w)
  | .ok cp =>
    let interp := Interp.IState.init i.initCode [] i.gasLimit false cfg.spec created i.caller i.value cfg.env
      (Memory.newContext mem)
    pure (.frame { kind := .create created, checkpoint := cp, interp := interp }, w)

/-- `make_create_frame` in stages -/
def makeCreateFrameS {κ : Type} (C : CpOps κ) (cfg : Cfg) (w : World) (i : Interp.CreateInputs)
    (mem : Memory.SharedMemory) : R (FrameOrResult κ × World) := do
  if w.js.depth > CALL_STACK_LIMIT then return (.result (earlyResult .CallTooDeep i.gasLimit), w)
  let (w, _) ← w.loadAccount i.caller
  let cacc ← w.acct i.caller
  if cacc.info.balance < i.value then return (.result (earlyResult .OutOfFunds i.gasLimit), w)
  let (js, newNonce?) ← ofOpt "inc_nonce" (Journal.incNonce w.js i.caller)
  let w := { w with js := js }
  let some newNonce := newNonce? | return (.result (earlyResult .Return i.gasLimit), w)
  createTail C cfg w i mem (match i.salt with
    | none => Keccak.createAddress i.caller (newNonce - 1)
    | some salt => Keccak.create2Address i.caller salt (Keccak.keccak256w i.initCode))

theorem makeCreateFrame_staged {κ : Type} (C : CpOps κ) (cfg : Cfg) (w : World) (i : Interp.CreateInputs)
    (mem : Memory.SharedMemory) : makeCreateFrame C cfg w i mem = makeCreateFrameS C cfg w i mem := by
  unfold makeCreateFrame makeCreateFrameS createTail
  rfl

theorem createTail_depth {cfg : Cfg} {w w' : World} {i : Interp.CreateInputs} {mem fr} {created : Nat}
    (h : createTail journalOps cfg w i mem created = .ok (fr, w')) :
    (∀ r, fr = .result r → w'.js.depth = w.js.depth ∧ r.result ≠ .CallTooDeep) ∧
    (∀ f, fr = .frame f → w'.js.depth = incU64 w.js.depth) := by
  unfold createTail at h
  simp only [pure, Except.pure] at h
  split at h
  · simp only [Except.ok.injEq, Prod.mk.injEq] at h
    obtain ⟨rfl, rfl⟩ := h
    refine ⟨fun r hr => ?_, fun f hf => nomatch hf⟩
    cases hr
    exact ⟨rfl, by show Interp.IResult.CreateCollision ≠ _; decide⟩
  · obtain ⟨⟨w3, c3⟩, h3, h⟩ := bind_ok h
    have d3 := w_loadAccount_depth h3
    obtain ⟨⟨w4, r4⟩, h4, h⟩ := bind_ok h
    obtain ⟨dok, derr⟩ := w_createCheckpoint_depth h4
    simp only at h
    split at h
    · simp only [Except.ok.injEq, Prod.mk.injEq] at h
      obtain ⟨rfl, rfl⟩ := h
      refine ⟨fun r hr => ?_, fun f hf => nomatch hf⟩
      cases hr
      exact ⟨by rw [derr _ rfl]; exact d3, by show Interp.IResult.CreateCollision ≠ _; decide⟩
    · simp only [Except.ok.injEq, Prod.mk.injEq] at h
      obtain ⟨rfl, rfl⟩ := h
      refine ⟨fun r hr => ?_, fun f hf => nomatch hf⟩
      cases hr
      exact ⟨by rw [derr _ rfl]; exact d3, by show Interp.IResult.OverflowPayment ≠ _; decide⟩
    · simp only [Except.ok.injEq, Prod.mk.injEq] at h
      obtain ⟨rfl, rfl⟩ := h
      refine ⟨fun r hr => (by cases hr), fun f _ => ?_⟩
      rw [dok _ rfl]; exact congrArg incU64 d3

/-- **`make_create_frame` and the depth** (C07 `frame_depth_neutral_create`, `max_depth_create` on EvmFrame) -/
theorem makeCreateFrame_depth {cfg : Cfg} {w w' : World} {i : Interp.CreateInputs} {mem fr}
    (h : makeCreateFrame journalOps cfg w i mem = .ok (fr, w')) :
    (∀ r, fr = .result r → w'.js.depth = w.js.depth ∧ (r.result = .CallTooDeep ↔ w.js.depth > CALL_STACK_LIMIT)) ∧
    (∀ f, fr = .frame f → w'.js.depth = incU64 w.js.depth ∧ ¬ w.js.depth > CALL_STACK_LIMIT) := by
  rw [makeCreateFrame_staged] at h
  unfold makeCreateFrameS at h
  simp only [pure, Except.pure] at h
  split at h
  · rename_i hd
    simp only [Except.ok.injEq, Prod.mk.injEq] at h
    obtain ⟨rfl, rfl⟩ := h
    refine ⟨fun r hr => ?_, fun f hf => nomatch hf⟩
    cases hr
    exact ⟨rfl, fun _ => hd, fun _ => rfl⟩
  · rename_i hd
    have hnot : ∀ x : Interp.IResult, x ≠ .CallTooDeep →
        (x = .CallTooDeep ↔ w.js.depth > CALL_STACK_LIMIT) :=
      fun x hx => ⟨fun h' => absurd h' hx, fun h' => absurd h' hd⟩
    obtain ⟨⟨w1, c⟩, h1, h⟩ := bind_ok h
    have d1 := w_loadAccount_depth h1
    obtain ⟨cacc, _, h⟩ := bind_ok h
    simp only at h
    split at h
    · simp only [Except.ok.injEq, Prod.mk.injEq] at h
      obtain ⟨rfl, rfl⟩ := h
      refine ⟨fun r hr => ?_, fun f hf => nomatch hf⟩
      cases hr
      exact ⟨d1, hnot _ (by show Interp.IResult.OutOfFunds ≠ _; decide)⟩
    · obtain ⟨⟨js, nn⟩, h2, h⟩ := bind_ok h
      have d2 : js.depth = w1.js.depth := Proofs.Frame.incNonce_depth (Proofs.EvmHost.ofOpt_ok h2)
      simp only at h
      cases nn with
      | none =>
        simp only [Except.ok.injEq, Prod.mk.injEq] at h
        obtain ⟨rfl, rfl⟩ := h
        refine ⟨fun r hr => ?_, fun f hf => nomatch hf⟩
        cases hr
        exact ⟨by show js.depth = _; rw [d2, d1], hnot _ (by show Interp.IResult.Return ≠ _; decide)⟩
      | some newNonce =>
        simp only at h
        obtain ⟨hr, hf⟩ := createTail_depth h
        have dw : ({ w1 with js := js } : World).js.depth = w.js.depth := by show js.depth = _; rw [d2, d1]
        refine ⟨fun r hr' => ?_, fun f hf' => ?_⟩
        · obtain ⟨e1, e2⟩ := hr r hr'
          exact ⟨by rw [e1, dw], hnot _ e2⟩
        · exact ⟨by rw [hf f hf', dw], hd⟩

/-! ## `call_return`, `create_return` -/

theorem callReturn_depth {w w' : World} {cp : Journal.Checkpoint} {r r' : Interp.ChildResult}
    (h : callReturn journalOps w cp r = .ok (r', w')) : w'.js.depth = decU64 w.js.depth := by
  unfold callReturn at h
  split at h
  · simp only [pure, Except.pure, Except.ok.injEq, Prod.mk.injEq] at h
    rw [← h.2]; rfl
  · obtain ⟨w1, h1, h⟩ := bind_ok h
    simp only [pure, Except.pure, Except.ok.injEq, Prod.mk.injEq] at h
    rw [← h.2]; exact w_revert_depth h1

theorem createReturn_depth {cfg : Cfg} {w w' : World} {cp : Journal.Checkpoint} {a : Nat} {r r' : Interp.ChildResult}
    (h : createReturn journalOps cfg w cp a r = .ok (r', w')) : w'.js.depth = decU64 w.js.depth := by
  have tail : ∀ (c : Prop) [Decidable c] (x : Interp.ChildResult) (hash : Nat) (out : List Nat) (y : Interp.ChildResult),
      (if c then (do
          let w ← journalOps.revert w cp
          Except.ok (x, w) : R (Interp.ChildResult × World))
        else do
          let w2 ← journalOps.setCode (journalOps.commit w) a hash
          Except.ok (y, w2.addCode hash out)) = .ok (r', w') →
      w'.js.depth = decU64 w.js.depth := by
    intro c _ x hash out y h
    split at h
    · obtain ⟨w1, h1, h⟩ := bind_ok h
      simp only [Except.ok.injEq, Prod.mk.injEq] at h
      rw [← h.2]; exact w_revert_depth h1
    · obtain ⟨w2, h1, h⟩ := bind_ok h
      -- `journalOps.setCode` (the `set_code_with_hash` of `create_return`, a field of `CpOps` since the refinement proof)
      change (do
        let js ← ofOpt "set_code" (Journal.setCode (journalOps.commit w).js a hash)
        pure ({ journalOps.commit w with js := js } : World) : R World) = .ok w2 at h1
      obtain ⟨js, h1, h2⟩ := bind_ok h1
      simp only [pure, Except.pure, Except.ok.injEq] at h2
      simp only [Except.ok.injEq, Prod.mk.injEq] at h
      rw [← h.2, addCode_js, ← h2]
      show js.depth = _
      rw [Proofs.Frame.setCode_depth (Proofs.EvmHost.ofOpt_ok h1)]
      rfl
  unfold createReturn at h
  simp only [pure, Except.pure] at h
  split at h
  · obtain ⟨w1, h1, h⟩ := bind_ok h
    simp only [Except.ok.injEq, Prod.mk.injEq] at h
    rw [← h.2]; exact w_revert_depth h1
  · split at h
    · obtain ⟨w1, h1, h⟩ := bind_ok h
      simp only [Except.ok.injEq, Prod.mk.injEq] at h
      rw [← h.2]; exact w_revert_depth h1
    · split at h
      · obtain ⟨w1, h1, h⟩ := bind_ok h
        simp only [Except.ok.injEq, Prod.mk.injEq] at h
        rw [← h.2]; exact w_revert_depth h1
      · by_cases hg : U64ops.wmul r.output.length CODEDEPOSIT ≤ r.gasRemaining
        · simp only [hg, if_true] at h
          exact tail _ _ _ _ _ h
        · simp only [hg, if_false] at h
          exact tail _ _ _ _ _ h

end Revm.Proofs.EvmLink
