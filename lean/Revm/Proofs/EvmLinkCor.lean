import Revm.Proofs.EvmLinkFees
import Revm.Proofs.Evm
import Revm.Props.C09
import Revm.Props.C02
/-! LINK, the facts the component theorems need, extracted from a completed `Evm.transact` run: what an accepting
`preverify` established, and the first frame's result as an input of the C09 pipeline (`Admissible`). -/
set_option linter.unusedSimpArgs false
namespace Revm.Proofs.EvmLink
open Revm Revm.Model Revm.Model.Evm
open Revm.Model.GasCalc (enabled)

/-- for non-vacuity examples: a verdict that is `Ok(None)` -/
def isNoneOk {α} : R (Option α) → Bool
  | .ok none => true
  | _ => false

theorem eq_none_of_isNoneOk {α} {x : R (Option α)} (h : isNoneOk x = true) : x = .ok none := by
  cases x with
  | error e => exact Bool.noConfusion h
  | ok o => cases o with
    | none => rfl
    | some a => exact Bool.noConfusion h

/-- for non-vacuity examples: a run that completes with an executed transaction -/
def isExecuted : R (Outcome × World) → Bool
  | .ok (.executed _, _) => true
  | _ => false

theorem exists_of_isExecuted {x : R (Outcome × World)} (h : isExecuted x = true) :
    ∃ r w', x = .ok (.executed r, w') := by
  cases x with
  | error e => exact Bool.noConfusion h
  | ok p =>
    obtain ⟨o, w'⟩ := p
    cases o with
    | rejected => exact Bool.noConfusion h
    | executed r => exact ⟨r, w', rfl⟩

/-- for witnesses: the sender loads and is, in C02's reading, `snd` -/
def loadedSenderIs (w : World) (a : Nat) (snd : TxValidate.Sender) : Bool :=
  match loadSender w a with
  | .ok (_, acc, code) => decide (senderOf code acc.info = snd)
  | .error _ => false

theorem loadedSenderIs_spec {w : World} {a : Nat} {snd : TxValidate.Sender} (h : loadedSenderIs w a snd = true) :
    ∃ w1 acc code, loadSender w a = .ok (w1, acc, code) ∧ senderOf code acc.info = snd := by
  unfold loadedSenderIs at h
  cases hl : loadSender w a with
  | error e => rw [hl] at h; cases h
  | ok p =>
    obtain ⟨w1, acc, code⟩ := p
    rw [hl] at h
    exact ⟨w1, acc, code, rfl, by simpa using h⟩

/-- before Prague the floor returned by `calculate_initial_tx_gas` is 0 -/
theorem initialGas_floor_zero (e : Evm.Env) (spec ig fg : Nat) (h : initialGas e spec = some (ig, fg))
    (hp : enabled spec GasCalc.SpecId.PRAGUE = false) : fg = 0 := by
  unfold initialGas GasCalc.calculateInitialTxGas at h
  simp only [hp, Bool.false_eq_true, if_false] at h
  split at h
  · cases h
  · simp only [Option.some.injEq, Prod.mk.injEq] at h; exact h.2.symm

/-- what an accepting `preverify` established: the three stages said yes, the sender was loaded -/
theorem preverify_some_inv (w w1 : World) (e : Evm.Env) (spec ig fg : Nat)
    (h : Evm.preverify w e spec = .ok (some (w1, ig, fg))) :
    Evm.validateEnv e spec = .ok true ∧ initialGas e spec = some (ig, fg) ∧ ig ≤ e.tx.gasLimit ∧ fg ≤ e.tx.gasLimit ∧
    ∃ acc code, loadSender w e.tx.caller = .ok (w1, acc, code) ∧
      Evm.validateAgainstState e spec code acc.info = true := by
  unfold Evm.preverify at h
  simp only [bind, Except.bind, pure, Except.pure] at h
  cases hv : Evm.validateEnv e spec with
  | error err => rw [hv] at h; cases h
  | ok b =>
    rw [hv] at h
    cases b with
    | false => simp at h
    | true =>
      simp only [Bool.not_true, Bool.false_eq_true, if_false] at h
      generalize hgi : GasCalc.calculateInitialTxGas spec e.tx.data e.tx.to.isNone _ _ = gi at h
      have hi' : initialGas e spec = gi := hgi
      cases gi with
      | none => simp [ofOpt] at h
      | some g =>
        obtain ⟨ig', fg'⟩ := g
        simp only [ofOpt] at h
        by_cases h1 : ig' > e.tx.gasLimit
        · simp [h1] at h
        · simp only [h1, if_false] at h
          by_cases h2 : enabled spec GasCalc.SpecId.PRAGUE = true ∧ fg' > e.tx.gasLimit
          · simp [h2] at h
          · simp only [h2, if_false] at h
            cases hl : w.loadCode e.tx.caller with
            | error err => rw [hl] at h; cases h
            | ok p =>
              rw [hl] at h
              simp only at h
              cases ha : p.1.acct e.tx.caller with
              | error err => rw [ha] at h; cases h
              | ok acc =>
                rw [ha] at h
                simp only at h
                cases hc : acc.info.code with
                | none => rw [hc] at h; cases h
                | some hh =>
                  rw [hc] at h
                  simp only at h
                  cases hcd : p.1.codeOf hh with
                  | none => rw [hcd] at h; cases h
                  | some code =>
                    rw [hcd] at h
                    simp only at h
                    cases h3 : Evm.validateAgainstState e spec code acc.info with
                    | false => rw [h3] at h; simp at h
                    | true =>
                      rw [h3] at h
                      simp only [Bool.not_true, Bool.false_eq_true, if_false, Except.ok.injEq, Option.some.injEq,
                        Prod.mk.injEq] at h
                      obtain ⟨rfl, rfl, rfl⟩ := h
                      refine ⟨rfl, hi', by omega, ?_, acc, code, ?_, h3⟩
                      · cases hp : enabled spec GasCalc.SpecId.PRAGUE
                        · have := initialGas_floor_zero e spec _ _ hi' hp; omega
                        · have : ¬ fg' > e.tx.gasLimit := fun hgt => h2 ⟨hp, hgt⟩
                          omega
                      · unfold loadSender
                        obtain ⟨pw, pc⟩ := p
                        simp only [bind, Except.bind, hl, pure, Except.pure]
                        simp only at ha hcd
                        simp only [ha, hc, hcd, ofOpt]

/-- `res` is the result of the first frame of the transaction `e` run on `w` (fuel `fuel`), `ig` / `fg` the initial and
the floor gas validation computed, `k` the number of refunded EIP-7702 authorities, `w3` the world the frame left -/
def FirstFrameResult (fuel : Nat) (w : World) (e : Evm.Env) (spec : Nat) (ig fg k : Nat) (res : Interp.ChildResult)
    (w3 : World) : Prop :=
  ∃ (w1 : World) (first : FrameOrResult Journal.Checkpoint) (w2 : World) (isCreate : Bool),
    Evm.preverify w e (GasCalc.canon spec) = .ok (some (w1, ig, fg)) ∧
    Evm.prepare journalOps e (GasCalc.canon spec) ig w1 =
      .ok (first, w2, isCreate, U64ops.wmul k (Evm.PER_EMPTY_ACCOUNT_COST - Evm.PER_AUTH_BASE_COST)) ∧
    Evm.runFirst journalOps (e.toCfg (GasCalc.canon spec)) fuel first w2 = .ok (res, w3)

/-- the first frame's result as the input of the C09 pipeline (its own meter had the limit `gas_limit − initial_gas`) -/
abbrev txFrame (e : Evm.Env) (ig : Nat) (res : Interp.ChildResult) : TxGas.FrameRes :=
  frameRes res (U64ops.wsub e.tx.gasLimit ig)

/-- THE FRAME MACHINE'S GUARANTEE, as a hypothesis: the first frame gives back at most the gas it was given
(`gas_limit − initial_gas`) -/
def FrameAccounting (fuel : Nat) (w : World) (e : Evm.Env) (spec : Nat) : Prop :=
  ∀ ig fg k res w3, FirstFrameResult fuel w e spec ig fg k res w3 → res.gasRemaining ≤ e.tx.gasLimit - ig

/-- for witnesses: run the stages and test the frame machine's guarantee on the first frame's result -/
def frameAccountingCheck (fuel : Nat) (w : World) (e : Evm.Env) (spec : Nat) : Bool :=
  match Evm.preverify w e (GasCalc.canon spec) with
  | .ok (some (w1, ig, _)) =>
    (match Evm.prepare journalOps e (GasCalc.canon spec) ig w1 with
     | .ok (first, w2, _, _) =>
       (match Evm.runFirst journalOps (e.toCfg (GasCalc.canon spec)) fuel first w2 with
        | .ok (res, _) => decide (res.gasRemaining ≤ e.tx.gasLimit - ig)
        | .error _ => true)
     | .error _ => true)
  | _ => true

theorem frameAccounting_of_check {fuel : Nat} {w : World} {e : Evm.Env} {spec : Nat}
    (h : frameAccountingCheck fuel w e spec = true) : FrameAccounting fuel w e spec := by
  intro ig fg k res w3 hff
  obtain ⟨w1, first, w2, isCreate, hp, hpr, hrf⟩ := hff
  unfold frameAccountingCheck at h
  rw [hp] at h
  simp only [hpr, hrf, decide_eq_true_eq] at h
  exact h

/-- a completed executed transaction: its first frame's result and what `finish` reports of it -/
theorem transact_first_frame (fuel : Nat) (w w' : World) (e : Evm.Env) (spec : Nat) (r : TxResult)
    (h : Evm.transact fuel w e spec = .ok (.executed r, w')) :
    ∃ ig fg k res w3 isCreate, FirstFrameResult fuel w e spec ig fg k res w3 ∧
      k ≤ authLen e ∧
      Evm.finish e (GasCalc.canon spec) fg (U64ops.wmul k (Evm.PER_EMPTY_ACCOUNT_COST - Evm.PER_AUTH_BASE_COST))
        isCreate res w3 = .ok (r, w') ∧
      classOf res.result = some r.cls ∧ r.reason = res.result ∧
      r.gasUsed = TxGas.gasUsed (TxGas.finalGas (gasEnv e (GasCalc.canon spec)) fg k (txFrame e ig res)) ∧
      (r.cls = .success →
        r.gasRefunded = TxGas.gasRefunded (TxGas.finalGas (gasEnv e (GasCalc.canon spec)) fg k (txFrame e ig res))) ∧
      (r.cls ≠ .success → r.gasRefunded = 0) := by
  obtain ⟨w1, ig, fg, first, w2, isCreate, k, res, w3, hp, hpr, hk, hrf, hfin⟩ :=
    transact_executed_stages fuel w w' e spec r h
  obtain ⟨hc, hu, hs, hn⟩ := finish_gas e _ fg _ isCreate res w3 w' r hfin
  obtain ⟨_, hreason, _⟩ := Proofs.Evm.finish_result e _ fg _ isCreate res w3 w' r hfin
  rw [finalGas_eq_txgas e _ fg k res (U64ops.wsub e.tx.gasLimit ig)] at hu hs
  exact ⟨ig, fg, k, res, w3, isCreate, ⟨w1, first, w2, isCreate, hp, hpr, hrf⟩, hk, hfin, hc, hreason, hu, hs, hn⟩

/-- the first frame's result is an admissible input of the C09 pipeline, given the frame machine's guarantee -/
theorem admissible_of_firstFrame {fuel : Nat} {w : World} {e : Evm.Env} {spec ig fg k : Nat}
    {res : Interp.ChildResult} {w3 : World} (hff : FirstFrameResult fuel w e spec ig fg k res w3)
    (hL : e.tx.gasLimit < U64) (hrem : res.gasRemaining ≤ e.tx.gasLimit - ig) (limit : Nat) :
    Props.C09.Admissible (gasEnv e (GasCalc.canon spec)) ig fg (frameRes res limit) := by
  obtain ⟨w1, first, w2, isCreate, hp, _, _⟩ := hff
  obtain ⟨_, _, h1, h2, _⟩ := preverify_some_inv w w1 e _ ig fg hp
  exact ⟨hL, h1, h2, hrem⟩

end Revm.Proofs.EvmLink
