import Revm.Proofs.EvmStep2Prim
import Revm.Spec.EvmRules2Call
/-! (f) CREATE, CREATE2: `Interp.step` is the rule of `Spec/EvmRules2Call.lean`. -/
set_option linter.unusedSimpArgs false
set_option linter.unusedVariables false
namespace Revm.Proofs.EvmStep2
open Revm Revm.Model Revm.Model.Interp
open Revm.Model.GasCalc (enabled)
open Revm.Spec.EvmRules Revm.Spec.EvmRules2
open Revm.Spec.GasCalc (Fork ceil32 memCost)
open Revm.Proofs.EvmStep

theorem create_en_petersburg (f : Fork) : enabled f.id GasCalc.SpecId.PETERSBURG = hasCreate2 f := by cases f <;> rfl

/-- `if IS_CREATE2 { check!(interp, PETERSBURG) }` -/
theorem checkWhen_eq (f : Fork) (c2 : Bool) (s : IState) (hf : s.spec = f.id) :
    checkWhen c2 GasCalc.SpecId.PETERSBURG s =
      if (c2 && !hasCreate2 f) = true then .halt .NotActivated [] s else .ok () s := by
  cases c2
  · rfl
  · show check GasCalc.SpecId.PETERSBURG s = _
    by_cases hen : enabled s.spec GasCalc.SpecId.PETERSBURG = true
    · rw [check_ok _ s hen]
      rw [hf, create_en_petersburg] at hen
      simp [hen]
    · rw [check_fail _ s hen]
      rw [hf, create_en_petersburg] at hen
      simp [hen]

/-- the EIP-3860 part: the size limit, then `2` per word (the 64-bit word count saturates only where the charge
exceeds any budget below the gas bound) -/
theorem initcodeCharge_eq (f : Fork) (len : Nat) (s : IState) (hf : s.spec = f.id) (hg : s.gas.remaining < GAS_BOUND)
    (hlen : len < U64) :
    initcodeCharge len s =
      if f.hasEIP3860 then
        if maxInitcodeSize s.env < len then .halt .CreateInitCodeSizeLimit [] s
        else if s.gas.remaining < Spec.GasCalc.initcodeCost len then .halt .OutOfGas [] s
        else .ok () (charge s (Spec.GasCalc.initcodeCost len))
      else .ok () s := by
  have hU := U64_val
  have hG := GAS_BOUND_val
  unfold initcodeCharge
  rw [bind_ok _ _ _ _ _ (getS_ok s)]
  have hsp : enabled s.spec GasCalc.SpecId.SHANGHAI = f.hasEIP3860 := by rw [hf, Proofs.GasCalc.en_shanghai]
  by_cases hsh : f.hasEIP3860 = true
  · rw [if_pos (hsp.trans hsh), if_pos hsh]
    by_cases hlim : maxInitcodeSize s.env < len
    · rw [if_pos hlim, if_pos (show len > maxInitcodeSize s.env from hlim)]
      rfl
    · rw [if_neg hlim, if_neg (show ¬ len > maxInitcodeSize s.env from hlim)]
      by_cases h31 : len + 31 < U64
      · rw [Proofs.GasCalc.initcodeCost_eq len h31]
        simp only []
        by_cases hc : s.gas.remaining < Spec.GasCalc.initcodeCost len
        · rw [if_pos hc, gasCharge_fail s _ hc]
        · rw [if_neg hc, gasCharge_ok s _ (by omega) (by omega)]
          rfl
      · have hsp : s.gas.remaining < Spec.GasCalc.initcodeCost len := by
          unfold Spec.GasCalc.initcodeCost ceil32; omega
        rw [if_pos hsp]
        unfold GasCalc.initcodeCost GasCalc.costPerWord U64ops.checkedMul GasCalc.numWords U64ops.saturatingAdd
          GasCalc.INITCODE_WORD_COST
        rw [if_neg h31]
        have : 2 * ((U64 - 1) / 32) < U64 := by omega
        rw [if_pos this]
        simp only []
        exact gasCharge_fail s _ (by omega)
  · rw [if_neg (by rw [hsp]; exact hsh), if_neg hsh]
    rfl

/-- `gas_or_fail!(create2_cost(len))` -/
theorem create2Charge_eq (s : IState) (len : Nat) (hl : len < U64) (hg : s.gas.remaining < GAS_BOUND) :
    gasOrFail (GasCalc.create2Cost len) s
      = if s.gas.remaining < Spec.GasCalc.create2Cost len then .halt .OutOfGas [] s
        else .ok () (charge s (Spec.GasCalc.create2Cost len)) :=
  gasOrFail_words s GasCalc.CREATE GasCalc.KECCAK256WORD len (by decide) (by decide) (by decide) hl hg

/-- the init code of `create`, followed by the rest of the handler -/
theorem createCode_bind (f : Fork) (off len : Nat) (k : List Nat → M Action) (s : IState)
    (K : IState → List Nat → Done) (hf : s.spec = f.id) (h : MemOK s) (hoff : off < W) (hlen : len < U64)
    (hK : ∀ (g : Gas.Gas) (m : Memory.SharedMemory) (code : List Nat), MemOK { s with gas := g, mem := m } →
        (k code { s with gas := g, mem := m }).toDoneAction = K { s with gas := g, mem := m } code) :
    ((createCode off len >>= k) s).toDoneAction = initCodeAccess f s off len K := by
  have hU := U64_val
  unfold createCode initCodeAccess
  by_cases hz : len = 0
  · rw [if_neg (fun hne => hne hz), if_pos hz]
    exact hK s.gas s.mem [] h
  · rw [if_pos hz, if_neg hz, bind_assoc']
    -- what follows the EIP-3860 part, on any state that differs from `s` in the gas meter only
    have hread : ∀ (g0 : Gas.Gas), MemOK { s with gas := g0 } →
        (((asUsizeOrFail off >>= fun o => resizeMem o len >>= fun _ => memSlice o len) >>= k)
            { s with gas := g0 }).toDoneAction
          = (if U64 ≤ off then Done.halt .InvalidOperandOOG [] { s with gas := g0 }
             else memAccess { s with gas := g0 } off len fun s2 => K s2 (load (memOf s2) off len)) := by
      intro g0 h0
      rw [bind_assoc']
      by_cases ho : U64 ≤ off
      · rw [bind_halt _ _ _ _ _ _ (asUsizeOrFail_fail off _ _ ho hoff), if_pos ho]
        rfl
      · rw [bind_ok _ _ _ _ _ (asUsizeOrFail_ok off _ _ (by omega)), if_neg ho, bind_assoc']
        unfold memAccess
        by_cases hc : ({ s with gas := g0 } : IState).gas.remaining < touchCost (memOf { s with gas := g0 }) off len
        · rw [bind_halt _ _ _ _ _ _ (resizeMem_fail _ _ len h0 (by omega) hlen hc), if_pos hc]
          rfl
        · rw [bind_ok _ _ _ _ _ (resizeMem_ok _ _ len h0 (by omega) hlen hc), if_neg hc]
          have h3 := h0.touch off len hc
          have hcov := touch_covers (memOf { s with gas := g0 }) off len
          have hm3 : memOf (setMem (charge { s with gas := g0 } (touchCost (memOf { s with gas := g0 }) off len))
              (touch (memOf { s with gas := g0 }) off len)) = touch (memOf { s with gas := g0 }) off len :=
            memOf_setMem h0.mem _
          rw [bind_ok _ _ _ _ _ (memSlice_eq _ off len h3.mem (by rw [hm3]; exact hcov))]
          exact hK _ _ _ h3
    have hic := initcodeCharge_eq f len s hf h.bound hlen
    by_cases hsh : f.hasEIP3860 = true
    · rw [if_pos hsh] at hic
      rw [if_pos hsh]
      by_cases hlim : maxInitcodeSize s.env < len
      · rw [if_pos hlim] at hic
        rw [bind_halt _ _ _ _ _ _ hic, if_pos hlim]
        rfl
      · rw [if_neg hlim] at hic
        rw [if_neg hlim]
        unfold needGas
        by_cases hc : s.gas.remaining < Spec.GasCalc.initcodeCost len
        · rw [if_pos hc] at hic
          rw [bind_halt _ _ _ _ _ _ hic, if_pos hc]
          rfl
        · rw [if_neg hc] at hic
          rw [bind_ok _ _ _ _ _ hic, if_neg hc]
          exact hread _ (h.charge _)
    · rw [if_neg hsh] at hic
      rw [bind_ok _ _ _ _ _ hic, if_neg hsh]
      exact hread s.gas h

/-- the end of `create`: the child's gas is taken from the meter, the action is emitted -/
theorem createTail_eq (f : Fork) (salt : Option Nat) (value : Nat) (code : List Nat) (s0 s : IState)
    (hf : s.spec = f.id) (hg : s.gas.remaining < U64) (ht : s.target = s0.target) :
    ((do
        let s ← getS
        let gasLimit := s.gas.remaining
        let gasLimit :=
          if enabled s.spec GasCalc.SpecId.TANGERINE then U64ops.wsub gasLimit (gasLimit / 64) else gasLimit
        gasCharge gasLimit
        let s ← getS
        pure (Action.create { caller := s.target, salt := salt, value := value, initCode := code,
                              gasLimit := gasLimit }) : M Action)
      s).toDoneAction = createEmit f s0 s salt value code := by
  have hU := U64_val
  rw [bind_ok _ _ _ _ _ (getS_ok s)]
  have hgl : (if enabled s.spec GasCalc.SpecId.TANGERINE = true then U64ops.wsub s.gas.remaining (s.gas.remaining / 64)
      else s.gas.remaining) = createGas f s.gas := by
    unfold createGas
    rw [hf, Proofs.GasCalc.en_tangerine, Proofs.Gas.wsub_of_le _ _ hg (by omega)]
    rfl
  rw [hgl]
  have hle : createGas f s.gas ≤ s.gas.remaining := by
    unfold createGas Spec.Gas.remaining63of64 Spec.Gas.abs
    split
    · show s.gas.remaining - s.gas.remaining / 64 ≤ s.gas.remaining; omega
    · exact Nat.le_refl _
  rw [bind_ok _ _ _ _ _ (gasCharge_ok s _ hg hle), bind_ok _ _ _ _ _ (getS_ok _)]
  unfold createEmit
  rw [← ht]
  rfl

theorem createI_eq (f : Fork) (c2 : Bool) (s : IState) (hf : s.spec = f.id) (h : MemOK s)
    (hw : ∀ w ∈ s.stack, w < W) :
    (createI c2 s).toDoneAction =
      if s.isStatic then .halt .StateChangeDuringStaticCall [] s
      else if c2 && !hasCreate2 f then .halt .NotActivated [] s
      else match s.stack.reverse with
        | value :: off :: len :: rest =>
          let s1 := { s with stack := rest.reverse }
          if U64 ≤ len then .halt .InvalidOperandOOG [] s1
          else initCodeAccess f s1 off len fun s2 code =>
            if c2 then
              match rest with
              | salt :: rest' =>
                needGas { s2 with stack := rest'.reverse } (Spec.GasCalc.create2Cost len) fun s3 =>
                  createEmit f s s3 (some salt) value code
              | [] => .halt .StackUnderflow [] s2
            else needGas s2 GasCalc.CREATE fun s3 => createEmit f s s3 none value code
        | _ => .halt .StackUnderflow [] s := by
  have hU := U64_val
  unfold createI
  by_cases hstc : s.isStatic = true
  · rw [bind_halt _ _ _ _ _ _ (requireNonStatic_fail s hstc), if_pos hstc]
    rfl
  · have hstf : s.isStatic = false := by simpa using hstc
    rw [bind_ok _ _ _ _ _ (requireNonStatic_ok s hstf), if_neg hstc]
    have hcw := checkWhen_eq f c2 s hf
    by_cases hna : (c2 && !hasCreate2 f) = true
    · rw [if_pos hna] at hcw
      rw [bind_halt _ _ _ _ _ _ hcw, if_pos hna]
      rfl
    · rw [if_neg hna] at hcw
      rw [bind_ok _ _ _ _ _ hcw, if_neg hna]
      rcases hrev : s.stack.reverse with _ | ⟨value, _ | ⟨off, _ | ⟨len, rest⟩⟩⟩
      · have : s.stack.length < 3 := by rw [← List.length_reverse, hrev]; decide
        rw [bind_halt _ _ _ _ _ _ (pop3_underflow s this)]
        rfl
      · have : s.stack.length < 3 := by rw [← List.length_reverse, hrev]; simp
        rw [bind_halt _ _ _ _ _ _ (pop3_underflow s this)]
        rfl
      · have : s.stack.length < 3 := by rw [← List.length_reverse, hrev]; simp
        rw [bind_halt _ _ _ _ _ _ (pop3_underflow s this)]
        rfl
      · have hs : s.stack = rest.reverse ++ [len, off, value] := by
          simpa using stack_of_reverse (pre := [value, off, len]) hrev
        have hoff : off < W := lt_W_of_mem hw (pre := [value, off, len]) hrev (by simp)
        have hlenW : len < W := lt_W_of_mem hw (pre := [value, off, len]) hrev (by simp)
        rw [bind_ok _ _ _ _ _ (pop3_ok s _ value off len hs)]
        simp only []
        have h1 : MemOK ({ s with stack := rest.reverse } : IState) := h.stack _
        by_cases hl : U64 ≤ len
        · rw [bind_halt _ _ _ _ _ _ (asUsizeOrFail_fail len _ _ hl hlenW), if_pos hl]
          rfl
        · rw [bind_ok _ _ _ _ _ (asUsizeOrFail_ok len _ _ (by omega)), if_neg hl]
          apply createCode_bind f off len _ _ _ (by exact hf) h1 hoff (by omega)
          intro g m code hm
          cases c2
          · -- CREATE
            simp only [Bool.false_eq_true, if_false]
            unfold createScheme
            simp only [Bool.false_eq_true, if_false]
            rw [bind_assoc']
            unfold needGas
            generalize GasCalc.CREATE = cst
            by_cases hc : ({ s with stack := rest.reverse, gas := g, mem := m } : IState).gas.remaining < cst
            · rw [bind_halt _ _ _ _ _ _ (gasCharge_fail _ _ hc), if_pos hc]
              rfl
            · rw [bind_ok _ _ _ _ _ (gasCharge_ok _ _ hm.gas (Nat.le_of_not_lt hc)), if_neg hc]
              rw [pure_bind']
              exact createTail_eq f none value code s _ (by exact hf) (by exact (hm.charge _).gas) rfl
          · -- CREATE2
            simp only [if_true]
            unfold createScheme
            simp only [if_true]
            rw [bind_assoc']
            rcases rest with _ | ⟨salt, rest'⟩
            · rw [bind_halt _ _ _ _ _ _ (pop1_underflow _ (by simp))]
              rfl
            · rw [bind_ok _ _ _ _ _ (pop1_ok _ rest'.reverse salt (by simp)), bind_assoc']
              have h2 : MemOK ({ s with stack := rest'.reverse, gas := g, mem := m } : IState) :=
                ⟨hm.gas, hm.mem, hm.ck, hm.budget⟩
              have hcc := create2Charge_eq { s with stack := rest'.reverse, gas := g, mem := m } len (by omega) h2.bound
              simp only []
              unfold needGas
              by_cases hc : ({ s with stack := rest'.reverse, gas := g, mem := m } : IState).gas.remaining
                  < Spec.GasCalc.create2Cost len
              · rw [if_pos hc] at hcc
                rw [bind_halt _ _ _ _ _ _ hcc, if_pos hc]
                rfl
              · rw [if_neg hc] at hcc
                rw [bind_ok _ _ _ _ _ hcc, if_neg hc]
                rw [pure_bind']
                exact createTail_eq f (some salt) value code s _ (by exact hf) (by exact (h2.charge _).gas) rfl

theorem step_create (f : Fork) (s : IState) (hcode : s.code[s.pc]? = some 0xf0) (hwf : WFM s) (hf : s.spec = f.id) :
    step s = .pure (createRule f false s) := by
  unfold step
  rw [hcode]
  have hdec : decode 0xf0 = .create false := rfl
  simp only [hdec, execInstr, execPure]
  show Outcome.pure (createI false (adv s)).toDoneAction = _
  rw [createI_eq f false (adv s) hf hwf.memOK.adv hwf.words]
  rfl

theorem step_create2 (f : Fork) (s : IState) (hcode : s.code[s.pc]? = some 0xf5) (hwf : WFM s) (hf : s.spec = f.id) :
    step s = .pure (createRule f true s) := by
  unfold step
  rw [hcode]
  have hdec : decode 0xf5 = .create true := rfl
  simp only [hdec, execInstr, execPure]
  show Outcome.pure (createI true (adv s)).toDoneAction = _
  rw [createI_eq f true (adv s) hf hwf.memOK.adv hwf.words]
  rfl

/-- where the table of `hasCreate2` (the implementation's `PETERSBURG` gate) differs from the main-net activation of
EIP-1014 (Constantinople): on the fork value `constantinople` CREATE2 is not activated. The implementation never runs
an interpreter on that value (`spec_to_generic!` maps Constantinople to Petersburg). -/
theorem create2_constantinople_notActivated (s : IState) (hs : s.isStatic = false) :
    createRule .constantinople true s = .halt .NotActivated [] (adv s) := by
  unfold createRule
  rw [if_neg (by rw [hs]; exact Bool.false_ne_true)]
  rfl

end Revm.Proofs.EvmStep2
