import Revm.Model.Gas
import Revm.Spec.Gas
/-! Helper lemmas and proofs for C13 (core Lean only). -/
set_option linter.unusedSimpArgs false
set_option linter.unusedVariables false
namespace Revm.Proofs.Gas
open Revm Revm.Model.Gas
open Revm.Spec.Gas (abs)

/-! ### machine arithmetic -/

theorem wsub_of_le (a b : Nat) (ha : a < U64) (hb : b ≤ a) : U64ops.wsub a b = a - b := by
  have hU := U64_val
  unfold U64ops.wsub; rw [hU]; omega

theorem wsub_of_lt (a b : Nat) (hb : b < U64) (hab : a < b) : U64ops.wsub a b = a + U64 - b := by
  have hU := U64_val
  unfold U64ops.wsub; rw [hU]; omega

theorem wsub_lt (a b : Nat) : U64ops.wsub a b < U64 := by
  have hU := U64_val
  unfold U64ops.wsub; rw [hU]; omega

theorem wadd_of_lt (a b : Nat) (h : a + b < U64) : U64ops.wadd a b = a + b := by
  unfold U64ops.wadd; exact Nat.mod_eq_of_lt h

theorem wadd_lt (a b : Nat) : U64ops.wadd a b < U64 := by
  have hU := U64_val
  unfold U64ops.wadd; rw [hU]; omega

theorem i64AsU64_lt (x : Int) : i64AsU64 x < U64 := by
  have hU := U64_val
  unfold i64AsU64; rw [hU]; omega

theorem i64AsU64_nonneg (x : Int) (h0 : 0 ≤ x) (h1 : x ≤ I64MAX) : i64AsU64 x = x.toNat := by
  have hU := U64_val
  unfold i64AsU64 I64MAX at *; rw [hU]; omega

theorem i64AsU64_neg (x : Int) (h0 : x < 0) (h1 : I64MIN ≤ x) : i64AsU64 x = (x + (U64 : Int)).toNat := by
  have hU := U64_val
  unfold i64AsU64 I64MIN at *; rw [hU]; omega

theorem i64AsU64_neg_ge (x : Int) (h0 : x < 0) (h1 : I64MIN ≤ x) : 9223372036854775808 ≤ i64AsU64 x := by
  have hU := U64_val
  unfold i64AsU64 I64MIN at *; rw [hU]; omega

theorem u64AsI64_range (n : Nat) (h : n < U64) : I64MIN ≤ u64AsI64 n ∧ u64AsI64 n ≤ I64MAX := by
  have hU := U64_val
  unfold u64AsI64 I64MIN I64MAX; rw [hU]
  split <;> omega

theorem u64AsI64_small (n : Nat) (h : n < 9223372036854775808) : u64AsI64 n = (n : Int) := by
  unfold u64AsI64; simp [h]

theorem i64WrapAdd_range (a b : Int) : I64MIN ≤ i64WrapAdd a b ∧ i64WrapAdd a b ≤ I64MAX :=
  u64AsI64_range _ (i64AsU64_lt _)

theorem i64WrapAdd_exact (a b : Int) (h0 : I64MIN ≤ a + b) (h1 : a + b ≤ I64MAX) : i64WrapAdd a b = a + b := by
  have hU := U64_val
  unfold i64WrapAdd u64AsI64 i64AsU64 I64MIN I64MAX at *; rw [hU]
  split <;> omega

/-! ### record_cost -/

theorem recordCost_ok (g : Gas) (c : Nat) (hr : g.remaining < U64) (h : c ≤ g.remaining) :
    recordCost g c = ({ g with remaining := g.remaining - c }, true) := by
  have hn : ¬ g.remaining < c := by omega
  simp only [recordCost, overflowingSub, hn, decide_false, Bool.not_false, if_true,
    wsub_of_le g.remaining c hr h]

theorem recordCost_fail (g : Gas) (c : Nat) (h : g.remaining < c) : recordCost g c = (g, false) := by
  simp [recordCost, overflowingSub, h]

theorem recordCost_flag (g : Gas) (c : Nat) : (recordCost g c).2 = decide (c ≤ g.remaining) := by
  by_cases h : g.remaining < c
  · rw [recordCost_fail g c h]; simp; omega
  · simp [recordCost, overflowingSub, h]; omega

/-! ### spent -/

theorem spent_eq (g : Gas) (hl : g.limit < U64) (hi : MeterInv g) : spent g = g.limit - g.remaining := by
  unfold spent; exact wsub_of_le _ _ hl hi

theorem spent_lt (g : Gas) : spent g < U64 := wsub_lt _ _

/-! ### preservation of WF / MeterInv / limit by each operation -/

theorem step_limit (g : Gas) (op : Op) : (step g op).1.limit = g.limit := by
  cases op <;> simp only [step, eraseCost, recordRefund, setFinalRefund, setRefund, setSpent, spendAll]
  · rename_i c
    by_cases h : g.remaining < c
    · rw [recordCost_fail g c h]
    · simp [recordCost, overflowingSub, h]

theorem setFinalRefund_min_lt (g : Gas) (b : Bool) :
    min (i64AsU64 g.refunded) (spent g / (if b then 5 else 2)) < 9223372036854775808 := by
  have hU := U64_val
  have hs := spent_lt g
  rw [hU] at hs
  cases b <;> simp only [if_true, if_false, Bool.false_eq_true] <;> omega

theorem step_WF (g : Gas) (op : Op) (hw : WF g) (ht : op.typed) : WF (step g op).1 := by
  have hU := U64_val
  obtain ⟨hl, hr, hf0, hf1⟩ := hw
  cases op with
  | recordCost c =>
    by_cases h : g.remaining < c
    · simp only [step]; rw [recordCost_fail g c h]; exact ⟨hl, hr, hf0, hf1⟩
    · simp only [step]; rw [recordCost_ok g c hr (by omega)]
      exact ⟨hl, by show g.remaining - c < U64; omega, hf0, hf1⟩
  | eraseCost r => exact ⟨hl, wadd_lt _ _, hf0, hf1⟩
  | recordRefund r => exact ⟨hl, hr, i64WrapAdd_range _ _⟩
  | setFinalRefund b =>
    refine ⟨hl, hr, ?_⟩
    show I64MIN ≤ u64AsI64 _ ∧ u64AsI64 _ ≤ I64MAX
    apply u64AsI64_range
    have := setFinalRefund_min_lt g b
    rw [hU]; omega
  | setRefund r => exact ⟨hl, hr, ht⟩
  | setSpent s => exact ⟨hl, by show g.limit - s < U64; omega, hf0, hf1⟩
  | spendAll => exact ⟨hl, by show 0 < U64; omega, hf0, hf1⟩

theorem eraseCost_exact (g : Gas) (r : Nat) (hl : g.limit < U64) (hi : MeterInv g) (h : r ≤ spent g) :
    eraseCost g r = { g with remaining := g.remaining + r } ∧ MeterInv (eraseCost g r) := by
  have hU := U64_val
  rw [spent_eq g hl hi] at h
  unfold MeterInv at hi
  have e : U64ops.wadd g.remaining r = g.remaining + r := wadd_of_lt _ _ (by omega)
  unfold eraseCost MeterInv; rw [e]; exact ⟨rfl, by show g.remaining + r ≤ g.limit; omega⟩

theorem step_Inv (g : Gas) (op : Op) (hl : g.limit < U64) (hi : MeterInv g) (hf : FrameOk g op) :
    MeterInv (step g op).1 := by
  cases op with
  | recordCost c =>
    by_cases h : g.remaining < c
    · simp only [step]; rw [recordCost_fail g c h]; exact hi
    · unfold MeterInv at hi
      simp only [step]; rw [recordCost_ok g c (by omega) (by omega)]
      show g.remaining - c ≤ g.limit; omega
  | eraseCost r => exact (eraseCost_exact g r hl hi hf).2
  | recordRefund r => exact hi
  | setFinalRefund b => exact hi
  | setRefund r => exact hi
  | setSpent s => show g.limit - s ≤ g.limit; omega
  | spendAll => show 0 ≤ g.limit; omega

/-! ### set_final_refund -/

theorem setFinalRefund_nonneg (g : Gas) (b : Bool) (h0 : 0 ≤ g.refunded) (h1 : g.refunded ≤ I64MAX) :
    (setFinalRefund g b).refunded = min g.refunded ((spent g / (if b then 5 else 2) : Nat) : Int) := by
  have hlt := setFinalRefund_min_lt g b
  show u64AsI64 _ = _
  rw [u64AsI64_small _ hlt, i64AsU64_nonneg _ h0 h1]
  generalize spent g / (if b then 5 else 2) = q
  omega

theorem setFinalRefund_neg (g : Gas) (b : Bool) (h0 : g.refunded < 0) (h1 : I64MIN ≤ g.refunded) :
    (setFinalRefund g b).refunded = ((spent g / (if b then 5 else 2) : Nat) : Int) := by
  have hU := U64_val
  have hlt := setFinalRefund_min_lt g b
  have hge := i64AsU64_neg_ge _ h0 h1
  have hs := spent_lt g
  show u64AsI64 _ = _
  rw [u64AsI64_small _ hlt]
  rw [hU] at hs
  cases b <;> simp only [if_true, if_false, Bool.false_eq_true] <;> omega

theorem setFinalRefund_bounds (g : Gas) (b : Bool) :
    0 ≤ (setFinalRefund g b).refunded ∧
    (setFinalRefund g b).refunded ≤ ((spent g / (if b then 5 else 2) : Nat) : Int) := by
  have hlt := setFinalRefund_min_lt g b
  show 0 ≤ u64AsI64 _ ∧ u64AsI64 _ ≤ _
  rw [u64AsI64_small _ hlt]
  generalize spent g / (if b then 5 else 2) = q
  omega

/-! ### derived observables -/

theorem spentSubRefunded_nonneg (g : Gas) (h0 : 0 ≤ g.refunded) (h1 : g.refunded ≤ I64MAX) :
    spentSubRefunded g = spent g - g.refunded.toNat := by
  unfold spentSubRefunded U64ops.saturatingSub; rw [i64AsU64_nonneg _ h0 h1]

theorem remaining63of64_eq (g : Gas) (hr : g.remaining < U64) :
    remaining63of64 g = g.remaining - g.remaining / 64 := by
  unfold remaining63of64; exact wsub_of_le _ _ hr (by omega)

/-! ### whole sequences: invariant -/

theorem run_append (g : Gas) (xs ys : List Op) :
    (run g (xs ++ ys)).1 = (run (run g xs).1 ys).1 := by
  induction xs generalizing g with
  | nil => rfl
  | cons x xs ih => simp only [List.cons_append, run]; exact ih _

theorem frameOkRun_prefix (g : Gas) (xs ys : List Op) (h : FrameOkRun g (xs ++ ys)) : FrameOkRun g xs := by
  induction xs generalizing g with
  | nil => trivial
  | cons x xs ih =>
    simp only [List.cons_append, FrameOkRun] at h ⊢
    exact ⟨h.1, h.2.1, ih _ h.2.2⟩

theorem run_invariant (g : Gas) (ops : List Op) (hw : WF g) (hi : MeterInv g) (hf : FrameOkRun g ops) :
    WF (run g ops).1 ∧ MeterInv (run g ops).1 ∧ (run g ops).1.limit = g.limit := by
  induction ops generalizing g with
  | nil => exact ⟨hw, hi, rfl⟩
  | cons op ops ih =>
    obtain ⟨ht, hf1, hf2⟩ := hf
    have := ih (step g op).1 (step_WF g op hw ht) (step_Inv g op hw.1 hi hf1) hf2
    simp only [run]
    exact ⟨this.1, this.2.1, by rw [this.2.2, step_limit]⟩

/-! ### whole sequences: refinement of the unbounded meter -/

theorem step_refines (g : Gas) (op : Op) (hw : WF g) (hi : MeterInv g) (ht : op.typed)
    (ha : Spec.Gas.Admissible (abs g) op) :
    abs (step g op).1 = (Spec.Gas.step (abs g) op).1 ∧ (step g op).2 = (Spec.Gas.step (abs g) op).2
    ∧ FrameOk g op := by
  have hU := U64_val
  obtain ⟨hl, hr, hf0, hf1⟩ := hw
  cases op with
  | recordCost c =>
    by_cases h : g.remaining < c
    · have hn : ¬ c ≤ g.remaining := by omega
      simp only [step, Spec.Gas.step, Spec.Gas.charge, abs, hn, if_false]
      rw [recordCost_fail g c h]; exact ⟨rfl, rfl, trivial⟩
    · have hn : c ≤ g.remaining := by omega
      simp only [step, Spec.Gas.step, Spec.Gas.charge, abs, hn, if_true]
      rw [recordCost_ok g c hr hn]; exact ⟨rfl, rfl, trivial⟩
  | eraseCost r =>
    have hle : r ≤ spent g := by
      rw [spent_eq g hl hi]
      have : g.remaining + r ≤ g.limit := ha
      omega
    refine ⟨?_, rfl, hle⟩
    simp only [step, Spec.Gas.step, Spec.Gas.giveBack, abs]
    rw [(eraseCost_exact g r hl hi hle).1]
  | recordRefund r =>
    refine ⟨?_, rfl, trivial⟩
    have h := i64WrapAdd_exact g.refunded r ha.1 ha.2
    simp only [step, Spec.Gas.step, Spec.Gas.refund, abs, recordRefund, h]
  | setFinalRefund b =>
    refine ⟨?_, rfl, trivial⟩
    have h0 : 0 ≤ g.refunded := ha
    have h := setFinalRefund_nonneg g b h0 hf1
    have hs : spent g = g.limit - g.remaining := spent_eq g hl hi
    simp only [step, Spec.Gas.step, Spec.Gas.finalRefund, Spec.Gas.spent, Spec.Gas.refundQuotient, abs]
    rw [← hs, ← h]; rfl
  | setRefund r => exact ⟨rfl, rfl, trivial⟩
  | setSpent s =>
    refine ⟨?_, rfl, trivial⟩
    simp only [step, Spec.Gas.step, Spec.Gas.setSpent, abs, setSpent, U64ops.saturatingSub]
    have : g.limit - s = g.limit - min s g.limit := by omega
    rw [this]
  | spendAll => exact ⟨rfl, rfl, trivial⟩

theorem run_refines (g : Gas) (ops : List Op) (hw : WF g) (hi : MeterInv g)
    (ha : Spec.Gas.AdmissibleRun (abs g) ops) :
    abs (run g ops).1 = (Spec.Gas.run (abs g) ops).1 ∧ (run g ops).2 = (Spec.Gas.run (abs g) ops).2
    ∧ FrameOkRun g ops := by
  induction ops generalizing g with
  | nil => exact ⟨rfl, rfl, trivial⟩
  | cons op ops ih =>
    obtain ⟨ht, ha1, ha2⟩ := ha
    obtain ⟨e1, e2, e3⟩ := step_refines g op hw hi ht ha1
    rw [← e1] at ha2
    obtain ⟨i1, i2, i3⟩ := ih (step g op).1 (step_WF g op hw ht) (step_Inv g op hw.1 hi e3) ha2
    simp only [run, Spec.Gas.run]
    rw [← e1, ← e2]
    exact ⟨i1, by rw [i2], ht, e3, i3⟩

/-- in the unbounded meter every successful charge took exactly its cost and every failed one
nothing: flags are `cost ≤ remaining` -/
theorem spec_charge_flag (m : Spec.Gas.Meter) (c : Nat) :
    (Spec.Gas.charge m c).2 = decide (c ≤ m.remaining) := by
  unfold Spec.Gas.charge; by_cases h : c ≤ m.remaining <;> simp [h]

/-! ### whole sequences: the gas part refines the unbounded meter under frame accounting alone
(no condition on refunds: they may wrap, the gas columns do not depend on them) -/

/-- limit and remaining agree -/
def GasRel (g : Gas) (m : Spec.Gas.Meter) : Prop := m.limit = g.limit ∧ m.remaining = g.remaining

theorem step_gas_refines (g : Gas) (m : Spec.Gas.Meter) (op : Op) (hR : GasRel g m) (hw : WF g)
    (hi : MeterInv g) (hf : FrameOk g op) :
    GasRel (step g op).1 (Spec.Gas.step m op).1 ∧ (step g op).2 = (Spec.Gas.step m op).2 := by
  obtain ⟨hl, hr, hf0, hf1⟩ := hw
  obtain ⟨r1, r2⟩ := hR
  cases op with
  | recordCost c =>
    by_cases h : g.remaining < c
    · have hn : ¬ c ≤ m.remaining := by omega
      simp only [step, Spec.Gas.step, Spec.Gas.charge, hn, if_false]
      rw [recordCost_fail g c h]; exact ⟨⟨r1, r2⟩, rfl⟩
    · have hn : c ≤ m.remaining := by omega
      simp only [step, Spec.Gas.step, Spec.Gas.charge, hn, if_true]
      rw [recordCost_ok g c hr (by omega)]
      exact ⟨⟨r1, by show m.remaining - c = g.remaining - c; rw [r2]⟩, rfl⟩
  | eraseCost r =>
    refine ⟨⟨r1, ?_⟩, rfl⟩
    simp only [step, Spec.Gas.step, Spec.Gas.giveBack]
    rw [(eraseCost_exact g r hl hi hf).1]
    show m.remaining + r = g.remaining + r; rw [r2]
  | recordRefund r => exact ⟨⟨r1, r2⟩, rfl⟩
  | setFinalRefund b => exact ⟨⟨r1, r2⟩, rfl⟩
  | setRefund r => exact ⟨⟨r1, r2⟩, rfl⟩
  | setSpent s =>
    refine ⟨⟨r1, ?_⟩, rfl⟩
    show m.limit - min s m.limit = g.limit - s
    rw [r1]; omega
  | spendAll => exact ⟨⟨r1, rfl⟩, rfl⟩

theorem run_gas_refines (g : Gas) (m : Spec.Gas.Meter) (ops : List Op) (hR : GasRel g m) (hw : WF g)
    (hi : MeterInv g) (hf : FrameOkRun g ops) :
    GasRel (run g ops).1 (Spec.Gas.run m ops).1 ∧ (run g ops).2 = (Spec.Gas.run m ops).2 := by
  induction ops generalizing g m with
  | nil => exact ⟨hR, rfl⟩
  | cons op ops ih =>
    obtain ⟨ht, hf1, hf2⟩ := hf
    obtain ⟨e1, e2⟩ := step_gas_refines g m op hR hw hi hf1
    obtain ⟨i1, i2⟩ := ih (step g op).1 (Spec.Gas.step m op).1 e1 (step_WF g op hw ht)
      (step_Inv g op hw.1 hi hf1) hf2
    simp only [run, Spec.Gas.run]
    exact ⟨i1, by rw [e2, i2]⟩

end Revm.Proofs.Gas
