import Revm.Model.InspectorWrap
import Revm.Model.EvmTx
/-! Instantiating the abstract frame machine of C28 (`Model/InspectorWrap.lean`) with the whole-EVM model
(`Model/Evm*.lean`), part 1: the type parameters and the conversions between the two vocabularies.

* `Interp.IResult` and `InspectorWrap.IR` are the same 40-variant enum (`toIR` / `ofIR`, a bijection that preserves the
  three classes);
* `Interp.ChildResult` (result, output, gas remaining, gas refunded, create address) against
  `InspectorWrap.InterpreterResult` (result, output, `Gas { limit, remaining, refunded }`) plus the `address` of a
  `CreateOutcome` / the `memory_offset` of a `CallOutcome`.  The concrete record has NO `gas.limit`: going to the abstract
  side the limit is a parameter (`resOfChild lim`): the limit of the interpreter / inputs that produced the result, as
  `Gas::new(gas_limit)` does.  No consumer of an outcome reads it (`insert_*_outcome` read `remaining` / `refunded`,
  `last_frame_return` overwrites the record). -/
namespace Revm.Proofs.EvmInstWrap
open Revm Revm.Model

abbrev IR := InspectorWrap.IR

/-! ## `InstructionResult` -/

def toIR : Interp.IResult → IR
  | .Continue => .Continue | .Stop => .Stop | .Return => .Return | .SelfDestruct => .SelfDestruct
  | .ReturnContract => .ReturnContract | .Revert => .Revert | .CallTooDeep => .CallTooDeep
  | .OutOfFunds => .OutOfFunds | .CreateInitCodeStartingEF00 => .CreateInitCodeStartingEF00
  | .InvalidEOFInitCode => .InvalidEOFInitCode
  | .InvalidExtDelegateCallTarget => .InvalidExtDelegateCallTarget | .CallOrCreate => .CallOrCreate
  | .OutOfGas => .OutOfGas | .MemoryOOG => .MemoryOOG | .MemoryLimitOOG => .MemoryLimitOOG
  | .PrecompileOOG => .PrecompileOOG | .InvalidOperandOOG => .InvalidOperandOOG
  | .OpcodeNotFound => .OpcodeNotFound | .CallNotAllowedInsideStatic => .CallNotAllowedInsideStatic
  | .StateChangeDuringStaticCall => .StateChangeDuringStaticCall | .InvalidFEOpcode => .InvalidFEOpcode
  | .InvalidJump => .InvalidJump | .NotActivated => .NotActivated | .StackUnderflow => .StackUnderflow
  | .StackOverflow => .StackOverflow | .OutOfOffset => .OutOfOffset | .CreateCollision => .CreateCollision
  | .OverflowPayment => .OverflowPayment | .PrecompileError => .PrecompileError
  | .NonceOverflow => .NonceOverflow | .CreateContractSizeLimit => .CreateContractSizeLimit
  | .CreateContractStartingWithEF => .CreateContractStartingWithEF
  | .CreateInitCodeSizeLimit => .CreateInitCodeSizeLimit | .FatalExternalError => .FatalExternalError
  | .ReturnContractInNotInitEOF => .ReturnContractInNotInitEOF
  | .EOFOpcodeDisabledInLegacy => .EOFOpcodeDisabledInLegacy
  | .EOFFunctionStackOverflow => .EOFFunctionStackOverflow | .EofAuxDataOverflow => .EofAuxDataOverflow
  | .EofAuxDataTooSmall => .EofAuxDataTooSmall | .InvalidEXTCALLTarget => .InvalidEXTCALLTarget

def ofIR : IR → Interp.IResult
  | .Continue => .Continue | .Stop => .Stop | .Return => .Return | .SelfDestruct => .SelfDestruct
  | .ReturnContract => .ReturnContract | .Revert => .Revert | .CallTooDeep => .CallTooDeep
  | .OutOfFunds => .OutOfFunds | .CreateInitCodeStartingEF00 => .CreateInitCodeStartingEF00
  | .InvalidEOFInitCode => .InvalidEOFInitCode
  | .InvalidExtDelegateCallTarget => .InvalidExtDelegateCallTarget | .CallOrCreate => .CallOrCreate
  | .OutOfGas => .OutOfGas | .MemoryOOG => .MemoryOOG | .MemoryLimitOOG => .MemoryLimitOOG
  | .PrecompileOOG => .PrecompileOOG | .InvalidOperandOOG => .InvalidOperandOOG
  | .OpcodeNotFound => .OpcodeNotFound | .CallNotAllowedInsideStatic => .CallNotAllowedInsideStatic
  | .StateChangeDuringStaticCall => .StateChangeDuringStaticCall | .InvalidFEOpcode => .InvalidFEOpcode
  | .InvalidJump => .InvalidJump | .NotActivated => .NotActivated | .StackUnderflow => .StackUnderflow
  | .StackOverflow => .StackOverflow | .OutOfOffset => .OutOfOffset | .CreateCollision => .CreateCollision
  | .OverflowPayment => .OverflowPayment | .PrecompileError => .PrecompileError
  | .NonceOverflow => .NonceOverflow | .CreateContractSizeLimit => .CreateContractSizeLimit
  | .CreateContractStartingWithEF => .CreateContractStartingWithEF
  | .CreateInitCodeSizeLimit => .CreateInitCodeSizeLimit | .FatalExternalError => .FatalExternalError
  | .ReturnContractInNotInitEOF => .ReturnContractInNotInitEOF
  | .EOFOpcodeDisabledInLegacy => .EOFOpcodeDisabledInLegacy
  | .EOFFunctionStackOverflow => .EOFFunctionStackOverflow | .EofAuxDataOverflow => .EofAuxDataOverflow
  | .EofAuxDataTooSmall => .EofAuxDataTooSmall | .InvalidEXTCALLTarget => .InvalidEXTCALLTarget

theorem ofIR_toIR (r : Interp.IResult) : ofIR (toIR r) = r := by cases r <;> rfl
theorem toIR_ofIR (r : IR) : toIR (ofIR r) = r := by cases r <;> rfl

theorem toIR_injective {a b : Interp.IResult} (h : toIR a = toIR b) : a = b := by
  rw [← ofIR_toIR a, ← ofIR_toIR b, h]

/-- `return_error!()` on the concrete enum: neither ok nor revert nor the internal `CallOrCreate` -/
def isErr (r : Interp.IResult) : Bool := !(r.isOk || r.isRevert || decide (r = .CallOrCreate))

theorem toIR_isOk (r : Interp.IResult) : (toIR r).isOk = r.isOk := by cases r <;> rfl
theorem toIR_isRevert (r : Interp.IResult) : (toIR r).isRevert = r.isRevert := by cases r <;> rfl
theorem toIR_isError (r : Interp.IResult) : (toIR r).isError = isErr r := by cases r <;> rfl
theorem ofIR_isOk (r : IR) : (ofIR r).isOk = r.isOk := by cases r <;> rfl
theorem ofIR_isRevert (r : IR) : (ofIR r).isRevert = r.isRevert := by cases r <;> rfl
theorem ofIR_isErr (r : IR) : isErr (ofIR r) = r.isError := by cases r <;> rfl

theorem toIR_eq_continue {r : Interp.IResult} : toIR r = .Continue ↔ r = .Continue := by
  cases r <;> simp [toIR]
theorem ofIR_eq_fatal {r : IR} : ofIR r = .FatalExternalError ↔ r = .FatalExternalError := by
  cases r <;> simp [ofIR]

/-- an error-class result is neither ok nor revert -/
theorem isErr_not_ok_revert {r : Interp.IResult} (h : isErr r = true) : r.isOk = false ∧ r.isRevert = false := by
  cases r <;> simp [isErr, Interp.IResult.isOk, Interp.IResult.isRevert] at h ⊢

/-! ## the context and the type parameters -/

/-- `EvmContext`: the world (journal, code store, logs, database) and the sticky error slot
(`context.evm.error`): a database error or Rust panic inside an instruction / host call is recorded here, the
instruction ends with `FatalExternalError`, and `take_error()?` surfaces it after `execute_frame` -/
structure ECtx where
  w : Evm.World
  err : Option Evm.Err := none

/-- the type parameters of the frame machine of the whole-EVM model; `κ` is what a frame keeps to be able to revert -/
abbrev evmTy (κ : Type) : InspectorWrap.Ty where
  E := ECtx
  Rest := Interp.IState
  Mem := Memory.SharedMemory
  CallIn := Interp.CallInputs
  CreateIn := Interp.CreateInputs
  EofIn := Interp.EofCreateInputs
  FrameData := Evm.FrameKind × κ
  Err := Evm.Err
  Log := Nat
  SD := Nat × Nat × Nat

abbrev AState (κ : Type) := InspectorWrap.IState (evmTy κ)
abbrev AFrame (κ : Type) := InspectorWrap.Frame (evmTy κ)
abbrev AAction (κ : Type) := InspectorWrap.Action (evmTy κ)
abbrev ARes (α : Type) := InspectorWrap.Res Evm.Err α

/-! ## results -/

/-- abstract `InterpreterResult` (+ address) → concrete `ChildResult`; `gas.limit` is dropped -/
def childOf (r : InspectorWrap.InterpreterResult) (addr : Option Nat) : Interp.ChildResult :=
  { result := ofIR r.result, output := r.output, gasRemaining := r.gas.remaining, gasRefunded := r.gas.refunded,
    address := addr }

/-- concrete `ChildResult` → abstract `InterpreterResult` whose `gas.limit` is `lim` -/
def resOfChild (lim : Nat) (c : Interp.ChildResult) : InspectorWrap.InterpreterResult :=
  { result := toIR c.result, output := c.output,
    gas := { limit := lim, remaining := c.gasRemaining, refunded := c.gasRefunded } }

def callOutcomeOf (lim : Nat) (c : Interp.ChildResult) (rs re : Nat) : InspectorWrap.CallOutcome :=
  { result := resOfChild lim c, memoryOffset := (rs, re) }

def createOutcomeOf (lim : Nat) (c : Interp.ChildResult) : InspectorWrap.CreateOutcome :=
  { result := resOfChild lim c, address := c.address }

theorem childOf_resOfChild (lim : Nat) (c : Interp.ChildResult) : childOf (resOfChild lim c) c.address = c := by
  cases c; simp only [childOf, resOfChild, ofIR_toIR]

theorem resOfChild_childOf (r : InspectorWrap.InterpreterResult) (a : Option Nat) :
    resOfChild r.gas.limit (childOf r a) = r := by
  obtain ⟨res, out, ⟨l, rem, ref⟩⟩ := r
  simp only [childOf, resOfChild, toIR_ofIR]

/-- `resultOf r out s` is the concrete reading of the abstract `Return { result: r, output: out, gas: s.gas }` -/
theorem childOf_ret (r : Interp.IResult) (out : List Nat) (s : Interp.IState) :
    childOf { result := toIR r, output := out, gas := s.gas } none = Evm.resultOf r out s := by
  simp only [childOf, Evm.resultOf, ofIR_toIR]

/-- the `FrameResult` of the first frame of a transaction (`isCreate`: `TxKind::Create`) -/
def frameResultOf (isCreate : Bool) (lim : Nat) (c : Interp.ChildResult) : InspectorWrap.FrameResult :=
  if isCreate then .create (createOutcomeOf lim c) else .call (callOutcomeOf lim c 0 0)

/-- back: what `output` reads of the first frame's result -/
def childOfFrameResult : InspectorWrap.FrameResult → Interp.ChildResult
  | .call o => childOf o.result none
  | .create o => childOf o.result o.address
  | .eofcreate o => childOf o.result o.address

/-! ## actions -/

def actionOf {κ : Type} : Interp.Action → AAction κ
  | .call i => .call i
  | .create i => .create i
  | .eofCreate i => .eofcreate i

end Revm.Proofs.EvmInstWrap
