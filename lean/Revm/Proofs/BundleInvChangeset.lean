import Revm.Proofs.BundleInvGlobal
/-! `to_plain_state` of a bundle that satisfies the invariant, applied to the pre-bundle plain state, gives
the current reference state: the fold over the addresses of `applyChangeset`, and the assembled C16 theorem.
Core Lean only. -/
namespace Revm.Proofs.Bundle
open Revm.Model.Bundle Revm.Spec.Bundle

set_option linter.unusedSimpArgs false
set_option linter.unusedVariables false

section filtermap
variable {α β : Type}

theorem filterMap_ite (m : List α) (c : α → Bool) (g : α → β) :
    m.filterMap (fun e => if c e then some (g e) else none) = (m.filter c).map g := by
  induction m with
  | nil => rfl
  | cons e r ih =>
    by_cases h : c e = true
    · simp [List.filterMap_cons, List.filter_cons, h, ih]
    · have h' : c e = false := by simpa using h
      simp [List.filterMap_cons, List.filter_cons, h', ih]
end filtermap

/-- what the invariant says about each address once everything is merged -/
def BundleOK (st : BMap BAcct) (p0 R : Plain) : Prop :=
  WF st ∧ ∀ a, match st.get a with
    | none => R.acct a = p0.acct a ∧ ∀ k, R.slot a k = p0.slot a k
    | some b => b.info.map wc = R.acct a ∧ b.origInfo.map wc = p0.acct a ∧
        StorageInv b (fun k => p0.slot a k) (fun k => R.slot a k)

theorem bundleOK_of_inv (s : SState) (p0 R : Plain) (h : SInv s p0 R R) (hts : s.ts = []) :
    BundleOK s.bundle.state p0 R := by
  refine ⟨h.wfb, fun a => ?_⟩
  obtain ⟨_, _, hrest⟩ := h.acct a
  have htn : s.ts.get a = none := by rw [hts]; rfl
  rw [htn] at hrest
  cases hc : s.cache.get a with
  | none =>
    rw [hc] at hrest
    obtain ⟨_, q2, q3, q4, _, _⟩ := hrest
    rw [q2]; exact ⟨q3, fun k => congrFun q4 k⟩
  | some c =>
    rw [hc] at hrest
    obtain ⟨_, ms, _, _, hB⟩ := hrest
    cases hb : s.bundle.state.get a with
    | none => rw [hb] at hB; obtain ⟨q1, q2, _⟩ := hB; exact ⟨q1, fun k => congrFun q2 k⟩
    | some b => rw [hb] at hB; exact ⟨hB.1.info, hB.1.orig, hB.1.stor⟩

/-! ## observations of `applyChangeset` -/

theorem acct_foldl_setAcct (l : List (Nat × Option Info)) (hw : WF l) (p : Plain) (a : Nat) :
    (l.foldl (fun p e => p.setAcct e.1 (e.2.map Info.withoutCode)) p).acct a =
      match BMap.get l a with
      | some v => v.map Info.withoutCode
      | none => p.acct a := by
  induction l generalizing p with
  | nil => rfl
  | cons e r ih =>
    rw [WF_cons] at hw
    simp only [List.foldl]
    rw [ih hw.2, get_cons, acct_setAcct]
    by_cases h : e.1 = a
    · have : BMap.get r a = none := get_none_of_not_mem r a (h ▸ hw.1)
      simp [h, this]
    · simp [h]

theorem slot_foldl_setAcct (l : List (Nat × Option Info)) (p : Plain) (a k : Nat) :
    (l.foldl (fun p e => p.setAcct e.1 (e.2.map Info.withoutCode)) p).slot a k = p.slot a k := by
  induction l generalizing p with
  | nil => rfl
  | cons e r ih => simp only [List.foldl]; rw [ih]; rfl

theorem slot_setSlots_ne (p : Plain) (a : Nat) (l : List (Nat × Nat)) (a' k : Nat) (h : a ≠ a') :
    (p.setSlots a l).slot a' k = p.slot a' k := by
  unfold Plain.setSlots
  induction l generalizing p with
  | nil => rfl
  | cons e r ih =>
    simp only [List.foldl]
    rw [ih, slot_setSlot]
    simp [h]

/-- one `PlainStorageChangeset` row -/
def rowStep (p : Plain) (e : Nat × Bool × List (Nat × Nat)) : Plain :=
  (if e.2.1 then p.wipe e.1 else p).setSlots e.1 e.2.2

theorem acct_rowStep (p : Plain) (e : Nat × Bool × List (Nat × Nat)) (a : Nat) : (rowStep p e).acct a = p.acct a := by
  unfold rowStep; rw [acct_setSlots]; cases e.2.1 <;> rfl

theorem acct_foldl_rows (rows : List (Nat × Bool × List (Nat × Nat))) (p : Plain) (a : Nat) :
    (rows.foldl rowStep p).acct a = p.acct a := by
  induction rows generalizing p with
  | nil => rfl
  | cons e r ih => simp only [List.foldl]; rw [ih, acct_rowStep]

theorem slot_rowStep_ne (p : Plain) (e : Nat × Bool × List (Nat × Nat)) (a k : Nat) (h : e.1 ≠ a) :
    (rowStep p e).slot a k = p.slot a k := by
  unfold rowStep
  rw [slot_setSlots_ne _ _ _ _ _ h]
  cases e.2.1 with
  | false => rfl
  | true => simp only [if_true]; rw [slot_wipe]; simp [h]

theorem slot_rowStep_self (p : Plain) (e : Nat × Bool × List (Nat × Nat)) (hw : WF e.2.2) (k : Nat) :
    (rowStep p e).slot e.1 k = applyRow e.2.1 e.2.2 (fun k => p.slot e.1 k) k := by
  unfold rowStep applyRow
  rw [slot_setSlots _ _ _ hw]
  simp only [if_true, writeSlots]
  cases BMap.get e.2.2 k with
  | some v => rfl
  | none =>
    cases e.2.1 with
    | false => rfl
    | true => simp [slot_wipe]

theorem slot_foldl_rows (rows : List (Nat × Bool × List (Nat × Nat))) (hw : WF rows) (p : Plain) (a k : Nat)
    (hwl : ∀ r, BMap.get rows a = some r → WF r.2) :
    (rows.foldl rowStep p).slot a k =
      match BMap.get rows a with
      | some r => applyRow r.1 r.2 (fun k => p.slot a k) k
      | none => p.slot a k := by
  induction rows generalizing p with
  | nil => rfl
  | cons e r ih =>
    rw [WF_cons] at hw
    simp only [List.foldl]
    by_cases h : e.1 = a
    · have hn : BMap.get r a = none := get_none_of_not_mem r a (h ▸ hw.1)
      have hge : BMap.get (e :: r) a = some e.2 := by rw [get_cons]; simp [h]
      rw [ih hw.2 _ (fun r' hr' => by rw [hn] at hr'; cases hr'), hn, hge]
      simp only
      subst h
      exact slot_rowStep_self p e (hwl e.2 hge) k
    · have hge : BMap.get (e :: r) a = BMap.get r a := by rw [get_cons]; simp [h]
      rw [ih hw.2 _ (fun r' hr' => hwl r' (by rw [hge]; exact hr')), hge]
      cases hg : BMap.get r a with
      | none => simp only; exact slot_rowStep_ne p e a k h
      | some r' =>
        simp only
        have : (fun k => (rowStep p e).slot a k) = fun k => p.slot a k := funext fun k => slot_rowStep_ne p e a k h
        rw [this]

theorem applyChangeset_eq (cs : Changeset) (p : Plain) :
    applyChangeset cs p = cs.storage.foldl rowStep
      (cs.accounts.foldl (fun p e => p.setAcct e.1 (e.2.map Info.withoutCode)) p) := rfl

theorem plainStorage_WF (acc : BAcct) (known : Bool) (hw : WF acc.storage) : WF (acc.plainStorage known) := by
  unfold BAcct.plainStorage
  exact WF_map_val _ _ (WF_filter _ _ hw)

theorem map_wc_idem (i : Option Info) : (i.map Info.withoutCode).map Info.withoutCode = i.map Info.withoutCode := by
  cases i <;> rfl

/-- **(iii)** the fold over addresses: a bundle whose every address satisfies the invariant describes,
through `to_plain_state`, exactly the step from the pre-bundle plain state to the current reference state -/
theorem changeset_of_bundleOK (b : BState) (known : Bool) (p0 R : Plain) (h : BundleOK b.state p0 R) :
    PlainEq (applyChangeset (toPlainState b known) p0) R := by
  obtain ⟨hw, hall⟩ := h
  have hacc : (toPlainState b known).accounts =
      (b.state.filter (fun e => !known || e.2.isInfoChanged)).map (fun e => (e.1, e.2.info.map Info.withoutCode)) := by
    simp only [toPlainState]; exact filterMap_ite _ _ _
  have hsto : (toPlainState b known).storage =
      (b.state.filter (fun e => !(e.2.plainStorage known).isEmpty || e.2.status.wasDestroyed)).map
        (fun e => (e.1, e.2.status.wasDestroyed, e.2.plainStorage known)) := by
    simp only [toPlainState]; exact filterMap_ite _ _ _
  constructor
  · intro a
    rw [applyChangeset_eq, acct_foldl_rows, acct_foldl_setAcct _ (by rw [hacc]; exact WF_map_val _ _ (WF_filter _ _ hw)), hacc,
      get_map_val (b.state.filter fun e => !known || e.2.isInfoChanged) (fun e => e.2.info.map Info.withoutCode),
      get_filter _ _ _ hw]
    have ha := hall a
    cases hg : b.state.get a with
    | none => rw [hg] at ha; simp only [Option.bind, Option.map_some, Option.map_none]; exact ha.1.symm
    | some acc =>
      rw [hg] at ha
      obtain ⟨hi, ho, _⟩ := ha
      by_cases hc : (!known || acc.isInfoChanged) = true
      · simp only [Option.bind, hc, if_true, Option.map_some, Option.map_none]; rw [map_wc_idem]; exact hi
      · simp only [Option.bind, hc, Bool.false_eq_true, if_false, Option.map_some, Option.map_none]
        have := account_row_correct acc known (p0.acct a) (R.acct a) hi.symm ho.symm
        simp only [hc, Bool.false_eq_true, if_false] at this
        exact this
  · intro a k
    have hwrows : WF (toPlainState b known).storage := by rw [hsto]; exact WF_map_val _ _ (WF_filter _ _ hw)
    have hrow : BMap.get (toPlainState b known).storage a =
        (b.state.get a).bind (fun acc => if (!(acc.plainStorage known).isEmpty || acc.status.wasDestroyed)
          then some (acc.status.wasDestroyed, acc.plainStorage known) else none) := by
      rw [hsto, get_map_val (b.state.filter fun e => !(e.2.plainStorage known).isEmpty || e.2.status.wasDestroyed)
        (fun e => (e.2.status.wasDestroyed, e.2.plainStorage known)), get_filter _ _ _ hw]
      cases b.state.get a with
      | none => rfl
      | some acc =>
        simp only [Option.bind]
        by_cases hc : (!(acc.plainStorage known).isEmpty || acc.status.wasDestroyed) = true
        · simp only [hc, if_true, Option.map_some, Option.map_none]
        · simp only [hc, Bool.false_eq_true, if_false, Option.map_some, Option.map_none]
    have ha := hall a
    rw [applyChangeset_eq]
    cases hg : b.state.get a with
    | none =>
      rw [hg] at ha hrow
      rw [slot_foldl_rows _ hwrows _ _ _ (fun r hr => by rw [hrow] at hr; cases hr), hrow]
      simp only [Option.bind]
      rw [slot_foldl_setAcct]; exact (ha.2 k).symm
    | some acc =>
      rw [hg] at ha hrow
      obtain ⟨_, _, hs⟩ := ha
      simp only [Option.bind] at hrow
      by_cases hc : (!(acc.plainStorage known).isEmpty || acc.status.wasDestroyed) = true
      · simp only [hc, if_true] at hrow
        rw [slot_foldl_rows _ hwrows _ _ _ (fun r hr => by
          rw [hrow] at hr; injection hr with hr; rw [← hr]; exact plainStorage_WF acc known hs.1), hrow]
        simp only
        have : (fun k => (List.foldl (fun p e => p.setAcct e.1 (Option.map Info.withoutCode e.2)) p0
            (toPlainState b known).accounts).slot a k) = fun k => p0.slot a k :=
          funext fun k => slot_foldl_setAcct _ _ _ _
        rw [this]
        exact storage_row_correct acc known _ _ hs k
      · have hc' : (!(acc.plainStorage known).isEmpty || acc.status.wasDestroyed) = false := by simpa using hc
        simp only [hc', Bool.false_eq_true, if_false] at hrow
        rw [slot_foldl_rows _ hwrows _ _ _ (fun r hr => by rw [hrow] at hr; cases hr), hrow]
        simp only
        rw [slot_foldl_setAcct]
        exact (no_row_means_unchanged acc known _ _ hs hc' k).symm

/-- **C16**: for every database that agrees with a well-formed plain state, both state-clear settings,
every EVM-reachable history under every merge schedule, and both `OriginalValuesKnown` settings: nothing
panics, and the changeset of the bundle (built by a fresh `State` from an empty bundle) applied to the
pre-history plain state is the post-history plain state -/
theorem changeset_correct_proof : ChangesetCorrectStatement := by
  intro db sc p0 h known hdb hwf hr
  obtain ⟨l, h1, _, h3⟩ := runHistory_inv sc p0 h { db := db, sc := sc } p0 (init_inv db sc p0 hdb hwf) rfl hr
  refine ⟨l, h1, fun s r hl => ?_⟩
  obtain ⟨q1, q2, _⟩ := h3 s r hl
  exact changeset_of_bundleOK s.bundle known p0 r (bundleOK_of_inv s p0 r q1 q2)

end Revm.Proofs.Bundle
