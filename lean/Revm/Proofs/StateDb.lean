import Revm.Spec.StateDb
/-! Proofs for C15: the per-address invariant of DESIGN Appendix A.2 and its preservation. -/
namespace Revm.Proofs.StateDb
open Revm Revm.Model.StateDb Revm.Spec.StateDb

set_option linter.unusedSimpArgs false
set_option linter.unusedVariables false

/-- two infos a reader cannot tell apart: same balance, nonce and code hash, and the same code
bytes once resolved through the code table `T` -/
def Sim (T : Nat → Code) (i j : Info) : Prop :=
  i.balance = j.balance ∧ i.nonce = j.nonce ∧ i.codeHash = j.codeHash ∧
    resolveCode T i = resolveCode T j

/-- facts about the reference entry itself: well-formed info; while state clearing is off an empty
account has no storage (follows from the two exclusions) -/
def RefOk (sc : Bool) (ra : Option (Info × (Slot → Word))) : Prop :=
  ∀ p, ra = some p → WfInfo p.1 ∧ (sc = false → p.1.isEmpty = true → ∀ k, p.2 k = 0)

def StatusOk (D : Db) (a : Addr) (st : Status) (i : Info) : Prop :=
  match st with
  | .Loaded => D.basic a = some i ∧ i.isEmpty = false
  | .LoadedEmptyEIP161 => i = Info.default ∧ ∃ i0, D.basic a = some i0 ∧ i0.isEmpty = true
  | .Changed => i.isEmpty = false
  | .InMemoryChange | .DestroyedChanged => True
  | .LoadedNotExisting | .Destroyed | .DestroyedAgain => False

def readSlot (D : Db) (a : Addr) (st : Status) (m : Storage) (k : Slot) : Word :=
  match m k with
  | some v => v
  | none => if st.isStorageKnown then 0 else D.storage a k

/-- the cached account against the reference entry (Appendix A.2) -/
def CacheRel (D : Db) (T : Nat → Code) (a : Addr) (c : CacheAccount) (ra : Option (Info × (Slot → Word))) : Prop :=
  match c.account with
  | none => (c.status = .LoadedNotExisting ∨ c.status = .Destroyed ∨ c.status = .DestroyedAgain) ∧ ra = none
  | some am => ∃ j σ, ra = some (j, σ) ∧ Sim T am.1 j ∧ WfInfo am.1 ∧
      (∀ k, σ k = readSlot D a c.status am.2 k) ∧ StatusOk D a c.status am.1

/-- `D` is the database the State reads from, `E` the effective database (`D` itself, or `D` with the
prestate bundle's changeset applied) -/
def AcctInv (D E : Db) (sc : Bool) (a : Addr) (oc : Option CacheAccount)
    (ra : Option (Info × (Slot → Word))) : Prop :=
  RefOk sc ra ∧ match oc with
    | none => ra = refOfDb E a
    | some c => CacheRel D E.code a c ra

variable {T : Nat → Code} {E : Db}

/-! ### small facts -/

theorem wf_default : WfInfo Info.default := by
  refine ⟨by decide, fun _ => Or.inr rfl⟩

theorem default_isEmpty : Info.default.isEmpty = true := by decide

theorem sim_refl (i : Info) : Sim T i i := ⟨rfl, rfl, rfl, rfl⟩

theorem isEmpty_of_sim {i j : Info} (h : Sim T i j) : i.isEmpty = j.isEmpty := by
  unfold Info.isEmpty Info.isEmptyCodeHash; rw [h.1, h.2.1, h.2.2.1]

theorem codeless_of_sim {i j : Info} (h : Sim T i j) : i.hasNoCodeAndNonce = j.hasNoCodeAndNonce := by
  unfold Info.hasNoCodeAndNonce Info.isEmptyCodeHash; rw [h.2.1, h.2.2.1]

/-- an empty well-formed info has the empty-code hash -/
theorem empty_hash {i : Info} (hw : WfInfo i) (he : i.isEmpty = true) :
    i.balance = 0 ∧ i.nonce = 0 ∧ i.codeHash = KECCAK_EMPTY := by
  unfold Info.isEmpty Info.isEmptyCodeHash at he
  have h0 := hw.1
  simp only [Bool.and_eq_true, Bool.or_eq_true, beq_iff_eq] at he
  rcases he with ⟨⟨h | h, hb⟩, hn⟩
  · exact ⟨hb, hn, h⟩
  · exact absurd h h0

theorem empty_noCodeNonce {i : Info} (hw : WfInfo i) (he : i.isEmpty = true) :
    i.hasNoCodeAndNonce = true := by
  have := empty_hash hw he
  unfold Info.hasNoCodeAndNonce Info.isEmptyCodeHash
  simp [this.2.1, this.2.2]

theorem sim_of_empty {i j : Info} (hi : WfInfo i) (hj : WfInfo j) (ei : i.isEmpty = true)
    (ej : j.isEmpty = true) : Sim T i j := by
  have a := empty_hash hi ei; have b := empty_hash hj ej
  refine ⟨by rw [a.1, b.1], by rw [a.2.1, b.2.1], by rw [a.2.2, b.2.2], ?_⟩
  unfold resolveCode
  rcases hi.2 a.2.2 with c1 | c1 <;> rcases hj.2 b.2.2 with c2 | c2 <;> simp [c1, c2, a.2.2, b.2.2]

theorem view_of_sim {i j : Info} (h : Sim T i j) : i.view T = j.view T := by
  obtain ⟨h1, h2, h3, h4⟩ := h
  unfold Info.view
  rw [h1, h2, h3, h4]

theorem over_nil (σ : Slot → Word) : over [] σ = σ := by
  funext k; simp [over, Changes.get]

theorem extend_nil (m : Storage) : m.extend [] = m := by
  funext k; simp [Storage.extend, Changes.get]

/-! ### per-account transitions preserve the relation -/

theorem rel_selfdestruct {D : Db} {a : Addr} {c : CacheAccount} {ra} (h : CacheRel D T a c ra) :
    CacheRel D T a c.selfdestruct.1 none := by
  unfold CacheRel CacheAccount.selfdestruct
  refine ⟨?_, rfl⟩
  cases c.status <;> simp [Status.onSelfdestructed]

theorem readSlot_known_ofChanges (D : Db) (a : Addr) (st : Status) (ch : Changes) (k : Slot)
    (hk : st.isStorageKnown = true) :
    readSlot D a st (Storage.ofChanges ch) k = over ch zeroStorage k := by
  unfold readSlot Storage.ofChanges over zeroStorage
  cases ch.get k <;> simp [hk]

theorem rel_newlyCreated {D : Db} {a : Addr} {c : CacheAccount} (info : Info) (ch : Changes)
    (hw : WfInfo info) :
    CacheRel D T a (c.newlyCreated info ch).1 (some (info, over ch zeroStorage)) := by
  unfold CacheRel CacheAccount.newlyCreated
  refine ⟨info, _, rfl, sim_refl _, hw, ?_, ?_⟩
  · intro k
    rw [readSlot_known_ofChanges]
    cases c.status <;> rfl
  · cases c.status <;> simp [Status.onCreated, StatusOk]

theorem readSlot_onChanged {D : Db} {a : Addr} {st : Status} {i : Info} (m : Storage) (k : Slot)
    (hD : DbWf D) (hE : CodelessNoStorage D) (hs : StatusOk D a st i) :
    readSlot D a (st.onChanged i.hasNoCodeAndNonce) m k = readSlot D a st m k := by
  unfold readSlot
  cases hm : m k with
  | some v => rfl
  | none =>
    cases st <;> simp only [StatusOk] at hs <;> simp only [Status.onChanged, Status.isStorageKnown]
      <;> try rfl
    · -- Loaded
      cases hc : i.hasNoCodeAndNonce
      · simp [Status.isStorageKnown]
      · simp [Status.isStorageKnown, hE a i hs.1 hc k]
    · -- LoadedEmptyEIP161
      obtain ⟨_, i0, h0, he⟩ := hs
      simp [hE a i0 h0 (empty_noCodeNonce (hD a i0 h0) he) k]

theorem statusOk_onChanged {D : Db} {a : Addr} {st : Status} {i : Info} (i' : Info) (b : Bool)
    (hs : StatusOk D a st i) (hne : i.isEmpty = false → i'.isEmpty = false) :
    StatusOk D a (st.onChanged b) i' := by
  cases st <;> simp only [StatusOk] at hs <;> simp only [Status.onChanged, StatusOk]
  · cases b <;> simp [StatusOk, hne hs.2]
  · exact hne hs

theorem rel_change {D : Db} {a : Addr} {c : CacheAccount} {ra} (info : Info) (ch : Changes)
    (hD : DbWf D) (hE : CodelessNoStorage D) (h : CacheRel D T a c ra) (hw : WfInfo info)
    (hne : info.isEmpty = false) :
    CacheRel D T a (c.change info ch).1
      (some (info, over ch (storageOf ra))) := by
  rcases c with ⟨acc, st⟩
  cases acc with
  | none =>
    obtain ⟨hst, hra⟩ := h
    subst hra
    simp only [CacheRel, CacheAccount.change, CacheAccount.accountInfo, Option.map]
    refine ⟨info, _, rfl, sim_refl _, hw, ?_, ?_⟩
    · intro k
      have : (st.onChanged false).isStorageKnown = true := by
        rcases hst with h | h | h <;> (simp only at h; subst h; rfl)
      unfold readSlot Storage.extend Storage.empty over storageOf zeroStorage
      cases ch.get k <;> simp [this]
    · rcases hst with h | h | h <;> (simp only at h; subst h; simp [Status.onChanged, StatusOk])
  | some am =>
    obtain ⟨j, σ, hra, hsim, hwf, hslots, hok⟩ := h
    subst hra
    simp only [CacheRel, CacheAccount.change, CacheAccount.accountInfo, Option.map]
    refine ⟨info, _, rfl, sim_refl _, hw, ?_, statusOk_onChanged _ _ hok (fun _ => hne)⟩
    intro k
    simp only at hok hslots
    have h1 := readSlot_onChanged am.2 k hD hE hok
    unfold over
    unfold readSlot Storage.extend
    cases hg : ch.get k with
    | some v => simp
    | none =>
      simp only [storageOf, hslots k]
      unfold readSlot at h1
      exact h1.symm

theorem rel_touchEmpty {D : Db} {a : Addr} {c : CacheAccount} {ra} (h : CacheRel D T a c ra)
    (he : isEmptyRef ra) : ∃ r, c.touchEmptyEip161 = .ok r ∧ CacheRel D T a r.1 none := by
  rcases c with ⟨acc, st⟩
  cases acc with
  | none =>
    obtain ⟨hst, hra⟩ := h
    rcases hst with h | h | h <;> (simp only at h; subst h) <;>
      simp [CacheAccount.touchEmptyEip161, Status.onTouchedEmptyPostEip161, CacheRel]
  | some am =>
    obtain ⟨j, σ, hra, hsim, hwf, hslots, hok⟩ := h
    subst hra
    have hj : j.isEmpty = true := he
    have hi : am.1.isEmpty = true := by rw [isEmpty_of_sim hsim]; exact hj
    cases st <;> simp only [StatusOk] at hok <;>
      simp_all [CacheAccount.touchEmptyEip161, Status.onTouchedEmptyPostEip161, CacheRel]

theorem rel_touchCreatePre {D : Db} {a : Addr} {c : CacheAccount} {ra} (info : Info)
    (h : CacheRel D T a c ra) (hr : RefOk false ra) (he : isEmptyRef ra) (hw : WfInfo info)
    (hie : info.isEmpty = true) :
    ∃ r, c.touchCreatePreEip161 [] = .ok r ∧
      CacheRel D T a r.1 (some (info, storageOf ra)) := by
  have hdi : Sim T Info.default info := sim_of_empty wf_default hw default_isEmpty hie
  rcases c with ⟨acc, st⟩
  cases acc with
  | none =>
    obtain ⟨hst, hra⟩ := h
    subst hra
    rcases hst with h | h | h <;> (simp only at h; subst h) <;>
      simp only [CacheAccount.touchCreatePreEip161, Status.onTouchedCreatedPreEip161, CacheRel] <;>
      refine ⟨_, rfl, info, _, rfl, hdi, wf_default, ?_, ?_⟩ <;>
      simp [readSlot, Storage.ofChanges, Changes.get, Status.isStorageKnown, zeroStorage, StatusOk, storageOf]
  | some am =>
    obtain ⟨j, σ, hra, hsim, hwf, hslots, hok⟩ := h
    subst hra
    have hj : j.isEmpty = true := he
    have hi : am.1.isEmpty = true := by rw [isEmpty_of_sim hsim]; exact hj
    have hz : ∀ k, σ k = 0 := (hr _ rfl).2 rfl hj
    have hai : Sim T am.1 info := sim_of_empty hwf hw hi hie
    cases st <;> simp only [StatusOk] at hok
    · -- Loaded
      rw [hi] at hok; exact absurd hok.2 (by simp)
    · -- LoadedEmptyEIP161
      refine ⟨_, rfl, ?_⟩
      exact ⟨info, σ, rfl, hai, hwf, hslots, hok⟩
    · -- InMemoryChange
      simp only [CacheAccount.touchCreatePreEip161, Status.onTouchedCreatedPreEip161, CacheRel]
      refine ⟨_, rfl, info, _, rfl, hdi, wf_default, ?_, trivial⟩
      intro k
      simp [readSlot, Storage.ofChanges, Changes.get, Status.isStorageKnown, hz k, storageOf]
    · -- Changed
      rw [hi] at hok; exact absurd hok (by simp)
    · -- DestroyedChanged
      simp only [CacheAccount.touchCreatePreEip161, Status.onTouchedCreatedPreEip161, hi, if_true]
      refine ⟨_, rfl, ?_⟩
      exact ⟨info, σ, rfl, hai, hwf, hslots, trivial⟩

def mapBalance (g : Nat → Nat) (ra : Option (Info × (Slot → Word))) : Info × (Slot → Word) :=
  match ra with
  | some p => ({ p.1 with balance := g p.1.balance }, p.2)
  | none => ({ Info.default with balance := g 0 }, zeroStorage)

/-- `account_info_change` with a balance-only update `g` -/
theorem rel_infoChange {D : Db} {a : Addr} {c : CacheAccount} {ra} (g : Nat → Nat)
    (hD : DbWf D) (hE : CodelessNoStorage D) (h : CacheRel D T a c ra)
    (hne : ∀ p, ra = some p → p.1.isEmpty = false →
      ({ p.1 with balance := g p.1.balance } : Info).isEmpty = false) :
    CacheRel D T a (c.accountInfoChange (fun i => { i with balance := g i.balance })).1
      (some (mapBalance g ra)) := by
  rcases c with ⟨acc, st⟩
  cases acc with
  | none =>
    obtain ⟨hst, hra⟩ := h
    subst hra
    simp only [CacheRel, CacheAccount.accountInfoChange, CacheAccount.accountInfo, Option.map, mapBalance]
    refine ⟨_, _, rfl, sim_refl _, ⟨wf_default.1, wf_default.2⟩, ?_, ?_⟩
    · intro k
      have : (st.onChanged false).isStorageKnown = true := by
        rcases hst with h | h | h <;> (simp only at h; subst h; rfl)
      simp [readSlot, Storage.empty, zeroStorage, this]
    · rcases hst with h | h | h <;> (simp only at h; subst h; simp [Status.onChanged, StatusOk])
  | some am =>
    obtain ⟨j, σ, hra, hsim, hwf, hslots, hok⟩ := h
    subst hra
    simp only [CacheRel, CacheAccount.accountInfoChange, CacheAccount.accountInfo, Option.map, mapBalance]
    have hsim' : Sim T ({ am.1 with balance := g am.1.balance } : Info) { j with balance := g j.balance } := by
      obtain ⟨h1, h2, h3, h4⟩ := hsim
      exact ⟨by simp [h1], h2, h3, h4⟩
    refine ⟨_, _, rfl, hsim', ⟨hwf.1, hwf.2⟩, ?_, ?_⟩
    · intro k
      simp only at hok hslots
      show σ k = _
      rw [hslots k]
      exact (readSlot_onChanged am.2 k hD hE hok).symm
    · refine statusOk_onChanged _ _ hok ?_
      intro hne1
      rw [isEmpty_of_sim hsim']
      refine hne _ rfl ?_
      rw [← isEmpty_of_sim hsim]; exact hne1

theorem infoChange_congr (c : CacheAccount) (f f' : Info → Info)
    (h : f (match c.account with | some a => a.1 | none => Info.default) =
         f' (match c.account with | some a => a.1 | none => Info.default)) :
    c.accountInfoChange f = c.accountInfoChange f' := by
  rcases c with ⟨acc, st⟩
  cases acc with
  | none => simp only [CacheAccount.accountInfoChange] at *; simp only [h]
  | some am => simp only [CacheAccount.accountInfoChange] at *; simp only [h]

/-- the cached balance is the reference balance -/
theorem rel_balance {D : Db} {a : Addr} {c : CacheAccount} {ra} (h : CacheRel D T a c ra) :
    (match c.account with | some a => a.1.balance | none => 0) = balanceOf ra := by
  rcases c with ⟨acc, st⟩
  cases acc with
  | none => obtain ⟨_, hra⟩ := h; subst hra; rfl
  | some am => obtain ⟨j, σ, hra, hsim, _⟩ := h; subst hra; exact hsim.1

theorem rel_inc {D : Db} {a : Addr} {c : CacheAccount} {ra} (amount : Nat)
    (hD : DbWf D) (hE : CodelessNoStorage D) (h : CacheRel D T a c ra) (hamt : amount ≠ 0)
    (hno : balanceOf ra + amount < W) :
    CacheRel D T a (c.incrementBalance amount).1 (incAcct ra amount) := by
  have hb := rel_balance h
  have hcong : c.accountInfoChange (fun i => { i with balance := U256.saturatingAdd i.balance amount })
      = c.accountInfoChange (fun i => { i with balance := (fun b => b + amount) i.balance }) := by
    apply infoChange_congr
    rcases c with ⟨acc, st⟩
    cases acc with
    | none =>
      simp only at hb ⊢
      have : Info.default.balance = 0 := rfl
      simp only [U256.saturatingAdd, this]
      rw [← hb] at hno
      simp
      omega
    | some am =>
      simp only at hb ⊢
      rw [← hb] at hno
      simp [U256.saturatingAdd, hno]
  have := rel_infoChange (fun b => b + amount) hD hE h (by
    intro p _ _
    unfold Info.isEmpty
    have : (p.1.balance + amount == 0) = false := by simp; omega
    simp [this])
  unfold CacheAccount.incrementBalance
  rw [if_neg hamt]
  simp only [hcong]
  unfold incAcct
  cases ra with
  | none => simpa [mapBalance] using this
  | some p => simpa [mapBalance] using this

theorem rel_drain {D : Db} {a : Addr} {c : CacheAccount} {ra}
    (hD : DbWf D) (hE : CodelessNoStorage D) (h : CacheRel D T a c ra) (hb : balanceOf ra < U128)
    (hr2 : ∀ p, ra = some p → p.1.isEmpty = false → ({ p.1 with balance := 0 } : Info).isEmpty = false) :
    ∃ c' t, c.drainBalance = .ok (balanceOf ra, c', t) ∧ CacheRel D T a c' (drainAcct ra) := by
  have hbal := rel_balance h
  have := rel_infoChange (fun _ => 0) hD hE h hr2
  have hd : c.drainBalance = .ok (balanceOf ra,
      (c.accountInfoChange (fun i => { i with balance := (fun _ => 0) i.balance })).1,
      (c.accountInfoChange (fun i => { i with balance := (fun _ => 0) i.balance })).2) := by
    rcases c with ⟨acc, st⟩
    cases acc with
    | none =>
      simp only at hbal
      simp only [CacheAccount.drainBalance]
      rw [hbal, if_pos hb]
    | some am =>
      simp only at hbal
      simp only [CacheAccount.drainBalance]
      rw [hbal, if_pos hb]
  refine ⟨_, _, hd, ?_⟩
  unfold drainAcct
  cases ra with
  | none =>
    have hdef : ({ Info.default with balance := 0 } : Info) = Info.default := rfl
    simpa [hdef, mapBalance] using this
  | some p => simpa [mapBalance] using this

/-! ### one committed account -/

theorem acct_step {D : Db} {sc : Bool} {a : Addr} {oc : Option CacheAccount} {ra} (acct : CommitAcct)
    (hD : DbWf D) (hE : CodelessNoStorage D) (hinv : AcctInv D E sc a oc ra)
    (hl : acct.touched = true → oc ≠ none) (hw : acct.touched = true → WfInfo acct.info)
    (hre : acct.touched = true → acct.selfdestructed = false → acct.created = false →
      acct.info.isEmpty = true → isEmptyRef ra ∧ acct.changed = [])
    (hx : ExclAcct sc acct) :
    ∃ oc' t, applyAccountState sc oc acct = .ok (oc', t) ∧ AcctInv D E sc a oc' (applyAcct sc ra acct) := by
  unfold applyAccountState applyAcct
  cases ht : acct.touched with
  | false => exact ⟨oc, none, by simp, by simpa using hinv⟩
  | true =>
    have hw := hw ht
    cases oc with
    | none => exact absurd rfl (hl ht)
    | some c =>
      obtain ⟨hrok, hrel⟩ := hinv
      simp only [Bool.not_true, Bool.false_eq_true, if_false]
      cases hsd : acct.selfdestructed with
      | true =>
        refine ⟨some c.selfdestruct.1, c.selfdestruct.2, by simp, ?_⟩
        simp only [if_true]
        exact ⟨(by intro p hp; cases hp), rel_selfdestruct hrel⟩
      | false =>
        cases hcr : acct.created with
        | true =>
          refine ⟨some (c.newlyCreated acct.info acct.changed).1,
            some (c.newlyCreated acct.info acct.changed).2, by simp, ?_⟩
          simp only [Bool.false_eq_true, if_false, if_true]
          refine ⟨?_, rel_newlyCreated _ _ hw⟩
          intro p hp
          cases hp
          exact ⟨hw, fun hsc hem => hx hsc ht hsd hcr hem⟩
        | false =>
          cases hem : acct.info.isEmpty with
          | true =>
            obtain ⟨her, hch⟩ := hre ht hsd hcr hem
            cases sc with
            | true =>
              obtain ⟨r, hr1, hr2⟩ := rel_touchEmpty hrel her
              refine ⟨some r.1, r.2, by simp [hr1], ?_⟩
              simp only [Bool.false_eq_true, if_false, Bool.and_self, if_true]
              exact ⟨(by intro p hp; cases hp), hr2⟩
            | false =>
              obtain ⟨r, hr1, hr2⟩ := rel_touchCreatePre acct.info hrel hrok her hw hem
              rw [hch]
              refine ⟨some r.1, r.2, by simp [hr1], ?_⟩
              simp only [Bool.false_eq_true, if_false, Bool.and_false, over_nil]
              refine ⟨?_, hr2⟩
              intro p hp
              cases hp
              refine ⟨hw, fun _ _ k => ?_⟩
              cases ra with
              | none => rfl
              | some q => exact (hrok q rfl).2 rfl her k
          | false =>
            refine ⟨some (c.change acct.info acct.changed).1,
              some (c.change acct.info acct.changed).2, by simp, ?_⟩
            simp only [Bool.false_eq_true, if_false, Bool.false_and]
            refine ⟨?_, rel_change _ _ hD hE hrel hw hem⟩
            intro p hp
            cases hp
            exact ⟨hw, fun _ h => by rw [hem] at h; cases h⟩

/-! ### the whole state -/

/-- what a vacant cache entry will be filled with from the preloaded bundle -/
def fromBundle (s : State) (a : Addr) : Option CacheAccount :=
  if s.usePreloadedBundle then (s.bundle a).map BundleAccount.toCache else none
def codeFromBundle (s : State) (h : Nat) : Option Code :=
  if s.usePreloadedBundle then s.bundleContracts h else none

/-- `D`: the database under the State; `E`: the effective database the reference starts from
(`E = D` without prestate; `D` with the bundle's changeset applied otherwise) -/
structure Inv (D E : Db) (sc : Bool) (s : State) (t : St) : Prop where
  db : s.db = D
  hsc : s.hasStateClear = sc
  accts : ∀ a, AcctInv D E sc a (s.accounts a) (t.ref a)
  loaded : ∀ a, t.loaded a = true → s.accounts a ≠ none
  contracts : ∀ h c, s.contracts h = some c → c = E.code h
  /-- a bundle account, read as a cache account over `D`, is related to `E`'s entry; addresses
  outside the bundle are unchanged -/
  preA : ∀ a, match fromBundle s a with
    | some c => CacheRel D E.code a c (refOfDb E a)
    | none => refOfDb E a = refOfDb D a
  preC : ∀ h, E.code h = match codeFromBundle s h with
    | some c => c
    | none => D.code h

theorem inv_update {D : Db} {sc : Bool} {s : State} {t : St} (s' : State) (t' : St) (a : Addr)
    (h : Inv D E sc s t) (hdb : s'.db = s.db) (hsc : s'.hasStateClear = s.hasStateClear)
    (hpre : s'.usePreloadedBundle = s.usePreloadedBundle) (hbu : s'.bundle = s.bundle)
    (hbc : s'.bundleContracts = s.bundleContracts) (hcon : s'.contracts = s.contracts)
    (hacc : ∀ x, x ≠ a → s'.accounts x = s.accounts x) (href : ∀ x, x ≠ a → t'.ref x = t.ref x)
    (hl : ∀ x, t'.loaded x = true → t.loaded x = true ∨ (x = a ∧ s'.accounts a ≠ none))
    (hmono : s.accounts a ≠ none → s'.accounts a ≠ none)
    (ha : AcctInv D E sc a (s'.accounts a) (t'.ref a)) : Inv D E sc s' t' := by
  refine ⟨by rw [hdb, h.db], by rw [hsc, h.hsc], ?_, ?_, by rw [hcon]; exact h.contracts, ?_, ?_⟩
  · intro x
    by_cases hx : x = a
    · subst hx; exact ha
    · rw [hacc x hx, href x hx]; exact h.accts x
  · intro x hx
    rcases hl x hx with h1 | ⟨h1, h2⟩
    · by_cases hxa : x = a
      · subst hxa; exact hmono (h.loaded x h1)
      · rw [hacc x hxa]; exact h.loaded x h1
    · subst h1; exact h2
  · intro x
    have := h.preA x
    unfold fromBundle at this ⊢
    rw [hpre, hbu]; exact this
  · intro x
    have := h.preC x
    unfold codeFromBundle at this ⊢
    rw [hpre, hbc]; exact this

theorem addTransition_fields (s : State) (a : Addr) (t : Option Transition) :
    (s.addTransition a t).db = s.db ∧ (s.addTransition a t).hasStateClear = s.hasStateClear ∧
    (s.addTransition a t).usePreloadedBundle = s.usePreloadedBundle ∧
    (s.addTransition a t).contracts = s.contracts ∧ (s.addTransition a t).accounts = s.accounts ∧
    (s.addTransition a t).bundle = s.bundle ∧ (s.addTransition a t).bundleContracts = s.bundleContracts := by
  unfold State.addTransition
  cases t <;> cases s.transitions <;> simp

theorem inv_addTransition {D : Db} {sc : Bool} {s : State} {t : St} (a : Addr) (tr : Option Transition)
    (h : Inv D E sc s t) : Inv D E sc (s.addTransition a tr) t := by
  obtain ⟨h1, h2, h3, h4, h5, h6, h7⟩ := addTransition_fields s a tr
  refine inv_update _ _ a h h1 h2 h3 h6 h7 h4 (fun x _ => by rw [h5]) (fun _ _ => rfl)
    (fun x hx => Or.inl hx) (by rw [h5]; exact id) (by rw [h5]; exact h.accts a)

/-- replace the cached account of `a` and the reference entry of `a` -/
theorem inv_set {D : Db} {sc : Bool} {s : State} {t : St} (a : Addr) (c : CacheAccount) (v)
    (h : Inv D E sc s t) (hc : AcctInv D E sc a (some c) v) : Inv D E sc (s.setAccount a c) (t.set a v) := by
  refine inv_update _ _ a h rfl rfl rfl rfl rfl rfl ?_ ?_ ?_ ?_ ?_
  · intro x hx; simp [State.setAccount, hx]
  · intro x hx; simp [St.set, hx]
  · intro x hx; exact Or.inl hx
  · intro _; simp [State.setAccount]
  · simpa [State.setAccount, St.set] using hc

theorem inv_load_mark {D : Db} {sc : Bool} {s : State} {t : St} (a : Addr)
    (h : Inv D E sc s t) (hs : s.accounts a ≠ none) : Inv D E sc s (t.load a) := by
  refine inv_update _ _ a h rfl rfl rfl rfl rfl rfl (fun _ _ => rfl) (fun _ _ => rfl) ?_ id (h.accts a)
  intro x hx
  by_cases hxa : x = a
  · exact Or.inr ⟨hxa, hs⟩
  · simp only [St.load, hxa, if_false] at hx; exact Or.inl hx

theorem initial_acct {sc : Bool} (a : Addr) (hD : DbWf E) (hE : CodelessNoStorage E) :
    RefOk sc (refOfDb E a) := by
  intro p hp
  unfold refOfDb at hp
  cases hb : E.basic a with
  | none => rw [hb] at hp; cases hp
  | some i =>
    rw [hb] at hp
    cases hp
    exact ⟨hD a i hb, fun _ he k => hE a i hb (empty_noCodeNonce (hD a i hb) he) k⟩

/-- `load_cache_account` -/
theorem inv_load {D : Db} {sc : Bool} {s : State} {t : St} (a : Addr) (hD : DbWf D)
    (h : Inv D E sc s t) :
    Inv D E sc (s.loadCacheAccount a).1 (t.load a) ∧
    (s.loadCacheAccount a).1.accounts a = some (s.loadCacheAccount a).2 ∧
    CacheRel D E.code a (s.loadCacheAccount a).2 (t.ref a) := by
  have hai := h.accts a
  unfold State.loadCacheAccount
  cases hacc : s.accounts a with
  | some c =>
    rw [hacc] at hai
    exact ⟨inv_load_mark a h (by rw [hacc]; simp), hacc, hai.2⟩
  | none =>
    rw [hacc] at hai
    obtain ⟨hrok, href⟩ := hai
    simp only at href
    have key : ∀ c : CacheAccount, CacheRel D E.code a c (t.ref a) →
        Inv D E sc (s.setAccount a c) (t.load a) ∧ (s.setAccount a c).accounts a = some c ∧
          CacheRel D E.code a c (t.ref a) := by
      intro c hc
      refine ⟨?_, by simp [State.setAccount], hc⟩
      have h1 := inv_set a c (t.ref a) h ⟨hrok, hc⟩
      have h2 : (t.set a (t.ref a)) = t := by
        cases t; simp only [St.set]; congr; funext x; by_cases hx : x = a <;> simp [hx]
      rw [h2] at h1
      exact inv_load_mark a h1 (by simp [State.setAccount])
    have hpre := h.preA a
    unfold fromBundle at hpre
    cases hfb : (if s.usePreloadedBundle = true then Option.map BundleAccount.toCache (s.bundle a) else none) with
    | some c =>
      rw [hfb] at hpre
      simp only at hpre ⊢
      rw [← href] at hpre
      exact key c hpre
    | none =>
      rw [hfb] at hpre
      simp only at hpre ⊢
      rw [hpre] at href
      simp only [h.db]
      unfold refOfDb at href
      cases hb : D.basic a with
      | none =>
        rw [hb] at href
        refine key _ ?_
        simp [CacheRel, CacheAccount.newLoadedNotExisting, href]
      | some acc =>
        rw [hb] at href
        simp only [Option.map] at href
        have hwacc := hD a acc hb
        cases he : acc.isEmpty with
        | true =>
          simp only [he, if_true]
          refine key _ ?_
          simp only [CacheRel, CacheAccount.newLoadedEmptyEip161]
          refine ⟨acc, D.storage a, href, sim_of_empty wf_default hwacc default_isEmpty he, wf_default, ?_, ?_⟩
          · intro k; simp [readSlot, CacheAccount.newLoadedEmptyEip161, Storage.empty, Status.isStorageKnown]
          · exact ⟨rfl, acc, hb, he⟩
        | false =>
          simp only [he, Bool.false_eq_true, if_false]
          refine key _ ?_
          simp only [CacheRel, CacheAccount.newLoaded]
          refine ⟨acc, D.storage a, href, sim_refl _, hwacc, ?_, ?_⟩
          · intro k; simp [readSlot, CacheAccount.newLoaded, Storage.empty, Status.isStorageKnown]
          · exact ⟨hb, he⟩

/-! ### operations -/

theorem inv_codeByHash {D : Db} {sc : Bool} {s : State} {t : St} (h : Nat) (hi : Inv D E sc s t) :
    Inv D E sc (s.codeByHash h).1 t ∧ (s.codeByHash h).2 = E.code h := by
  unfold State.codeByHash
  cases hc : s.contracts h with
  | some c => exact ⟨hi, hi.contracts h c hc⟩
  | none =>
    have hpc := hi.preC h
    unfold codeFromBundle at hpc
    simp only
    cases hfb : (if s.usePreloadedBundle = true then s.bundleContracts h else none) with
    | some c0 =>
      rw [hfb] at hpc
      simp only at hpc ⊢
      refine ⟨⟨hi.db, hi.hsc, hi.accts, hi.loaded, ?_, hi.preA, hi.preC⟩, hpc.symm⟩
      intro x c hx
      simp only at hx
      by_cases hxh : x = h
      · simp only [hxh, if_true] at hx; cases hx; rw [hxh]; exact hpc.symm
      · simp only [hxh, if_false] at hx; exact hi.contracts x c hx
    | none =>
      rw [hfb] at hpc
      simp only at hpc ⊢
      refine ⟨⟨hi.db, hi.hsc, hi.accts, hi.loaded, ?_, hi.preA, hi.preC⟩, by rw [hpc, hi.db]⟩
      intro x c hx
      simp only at hx
      by_cases hxh : x = h
      · simp only [hxh, if_true] at hx; cases hx; rw [hxh, hpc, hi.db]
      · simp only [hxh, if_false] at hx; exact hi.contracts x c hx

theorem basic_ok {D : Db} {sc : Bool} {s : State} {t : St} (a : Addr) (hD : DbWf D)
    (hi : Inv D E sc s t) :
    Inv D E sc (s.basicView a).1 (t.load a) ∧
    (s.basicView a).2 = (t.ref a).map (fun p => p.1.view E.code) := by
  obtain ⟨h1, h2, h3⟩ := inv_load a hD hi
  have hrok := (hi.accts a).1
  unfold State.basicView State.basic
  generalize s.loadCacheAccount a = r at h1 h2 h3
  obtain ⟨s1, c⟩ := r
  simp only at h1 h2 h3 ⊢
  rcases c with ⟨acc, st⟩
  cases acc with
  | none =>
    obtain ⟨_, hra⟩ := h3
    simp only [CacheAccount.accountInfo, Option.map]
    exact ⟨h1, by rw [hra]⟩
  | some am =>
    obtain ⟨j, σ, hra, hsim, hwf, _, _⟩ := h3
    have hwj := (hrok _ hra).1
    have hv := view_of_sim hsim
    simp only [CacheAccount.accountInfo, Option.map]
    rw [hra]
    simp only [Option.map]
    rw [← hv]
    unfold Info.view resolveCode
    cases hcode : am.1.code with
    | some c => exact ⟨h1, by first | rfl | trivial | simp⟩
    | none =>
      by_cases hk : am.1.codeHash = KECCAK_EMPTY
      · simp only [hk, if_true]; exact ⟨h1, by first | rfl | trivial | simp⟩
      · simp only [hk, if_false]
        obtain ⟨h4, h5⟩ := inv_codeByHash am.1.codeHash h1
        exact ⟨h4, by rw [h5]⟩

theorem storage_ok {D : Db} {sc : Bool} {s : State} {t : St} (a : Addr) (k : Slot)
    (hi : Inv D E sc s t) (hl : t.loaded a = true) :
    ∃ s', s.storage a k = .ok (s', storageOf (t.ref a) k) ∧ Inv D E sc s' t := by
  have hne := hi.loaded a hl
  have hai := hi.accts a
  unfold State.storage
  cases hacc : s.accounts a with
  | none => exact absurd hacc hne
  | some c =>
    rw [hacc] at hai
    obtain ⟨hrok, hrel⟩ := hai
    rcases c with ⟨acc, st⟩
    cases acc with
    | none =>
      obtain ⟨_, hra⟩ := hrel
      exact ⟨s, by simp [hra, storageOf, zeroStorage], hi⟩
    | some am =>
      obtain ⟨j, σ, hra, hsim, hwf, hslots, hok⟩ := hrel
      obtain ⟨i, m⟩ := am
      simp only at hslots hok hsim hwf
      have hk := hslots k
      unfold readSlot at hk
      simp only [hra, storageOf]
      cases hm : m k with
      | some v =>
        rw [hm] at hk
        exact ⟨s, by simp [hk], hi⟩
      | none =>
        rw [hm] at hk
        simp only at hk
        refine ⟨s.setAccount a ⟨some (i, m.insert k (if st.isStorageKnown then 0 else s.db.storage a k)), st⟩,
          by simp only [hi.db, hk], ?_⟩
        have h1 := inv_set a ⟨some (i, m.insert k (if st.isStorageKnown then 0 else s.db.storage a k)), st⟩
          (t.ref a) hi ⟨hrok, ?_⟩
        · have h2 : (t.set a (t.ref a)) = t := by
            cases t; simp only [St.set]; congr; funext x; by_cases hx : x = a <;> simp [hx]
          rw [h2] at h1; exact h1
        · refine ⟨j, σ, hra, hsim, hwf, ?_, hok⟩
          intro x
          simp only [readSlot, Storage.insert]
          by_cases hx : x = k
          · subst hx; simp [hk, hi.db]
          · simp only [hx, if_false]; exact hslots x

theorem commit_ok {D : Db} {sc : Bool} (hD : DbWf D) (hE : CodelessNoStorage D) (accts : List CommitAcct) :
    ∀ (s : State) (t : St), Inv D E sc s t → ReachCommit sc t accts → (∀ a ∈ accts, ExclAcct sc a) →
      ∃ s', s.commit accts = .ok s' ∧ Inv D E sc s' (applyCommit sc t accts) := by
  induction accts with
  | nil => intro s t hi _ _; exact ⟨s, rfl, hi⟩
  | cons a rest ih =>
    intro s t hi hr hx
    obtain ⟨hra, hrr⟩ := hr
    have hxa := hx a (List.mem_cons_self ..)
    obtain ⟨oc', tr, h1, h2⟩ := acct_step a hD hE (hi.accts a.addr)
      (fun ht => hi.loaded _ (hra ht).1) (fun ht => (hra ht).2.1)
      (fun ht hsd hcr hem => (hra ht).2.2 hsd hcr hem) hxa
    simp only [State.commit, applyCommit, hi.hsc, h1]
    apply ih _ _ ?_ hrr (fun b hb => hx b (List.mem_cons_of_mem _ hb))
    apply inv_addTransition
    cases oc' with
    | some c => exact inv_set a.addr c _ hi h2
    | none =>
      simp only
      -- only an untouched account that was never loaded stays vacant
      have hnone : s.accounts a.addr = none := by
        unfold applyAccountState at h1
        cases ht : a.touched with
        | false => simp [ht] at h1; exact h1.1
        | true =>
          simp only [ht, Bool.not_true, Bool.false_eq_true, if_false] at h1
          cases hs : s.accounts a.addr with
          | none => rfl
          | some c =>
            rw [hs] at h1
            simp only at h1
            split at h1
            · cases h1
            · split at h1
              · cases h1
              · split at h1
                · split at h1
                  · split at h1 <;> cases h1
                  · split at h1 <;> cases h1
                · cases h1
      refine inv_update s _ a.addr hi rfl rfl rfl rfl rfl rfl (fun _ _ => rfl) ?_ ?_ id ?_
      · intro x hx; simp [St.set, hx]
      · intro x hx; exact Or.inl hx
      · rw [hnone]; simpa [St.set] using h2

theorem refOk_inc {sc : Bool} {ra} (amount : Nat) (h : RefOk sc ra) (hamt : amount ≠ 0) :
    RefOk sc (incAcct ra amount) := by
  intro p hp
  unfold incAcct at hp
  cases ra with
  | none =>
    cases hp
    refine ⟨⟨wf_default.1, wf_default.2⟩, fun _ he => ?_⟩
    simp [Info.isEmpty, hamt, Info.default] at he
  | some q =>
    obtain ⟨i, σ⟩ := q
    cases hp
    refine ⟨⟨(h _ rfl).1.1, (h _ rfl).1.2⟩, fun _ he => ?_⟩
    have : (i.balance + amount == 0) = false := by simp; omega
    simp [Info.isEmpty, this] at he

theorem refOk_drain {sc : Bool} {ra} (h : RefOk sc ra)
    (hr2 : ∀ p, ra = some p → p.1.isEmpty = false → ({ p.1 with balance := 0 } : Info).isEmpty = false) :
    RefOk sc (drainAcct ra) := by
  intro p hp
  unfold drainAcct at hp
  cases ra with
  | none =>
    cases hp
    exact ⟨wf_default, fun _ _ _ => rfl⟩
  | some q =>
    obtain ⟨i, σ⟩ := q
    cases hp
    refine ⟨⟨(h _ rfl).1.1, (h _ rfl).1.2⟩, fun hsc he k => ?_⟩
    cases hie : i.isEmpty with
    | true => exact (h _ rfl).2 hsc hie k
    | false =>
      have := hr2 _ rfl hie
      simp only at this he
      rw [this] at he; cases he

theorem inc_ok {D : Db} {sc : Bool} (hD : DbWf D) (hE : CodelessNoStorage D) (l : List (Addr × Nat)) :
    ∀ (s : State) (t : St), Inv D E sc s t → ReachInc t l → Inv D E sc (s.incrementBalances l) (applyInc t l) := by
  induction l with
  | nil => intro s t hi _; exact hi
  | cons x rest ih =>
    intro s t hi hr
    obtain ⟨a, amount⟩ := x
    unfold State.incrementBalances applyInc
    unfold ReachInc at hr
    by_cases hz : amount = 0
    · simp only [hz, if_true] at hr ⊢; exact ih s t hi hr
    · simp only [hz, if_false] at hr ⊢
      obtain ⟨hno, hrr⟩ := hr
      obtain ⟨h1, h2, h3⟩ := inv_load a hD hi
      have hrok := (hi.accts a).1
      apply ih _ _ ?_ hrr
      apply inv_addTransition
      exact inv_set a _ _ h1 ⟨refOk_inc amount hrok hz, rel_inc amount hD hE h3 hz hno⟩

theorem drain_ok {D : Db} {sc : Bool} (hD : DbWf D) (hE : CodelessNoStorage D) (l : List Addr) :
    ∀ (s : State) (t : St), Inv D E sc s t → ReachDrain t l →
      ∃ s', s.drainBalances l = .ok (s', (applyDrain t l).2) ∧ Inv D E sc s' (applyDrain t l).1 := by
  induction l with
  | nil => intro s t hi _; exact ⟨s, rfl, hi⟩
  | cons a rest ih =>
    intro s t hi hr
    obtain ⟨hb, hr2, hrr⟩ := hr
    obtain ⟨h1, h2, h3⟩ := inv_load a hD hi
    have hrok := (hi.accts a).1
    obtain ⟨c', tr, hd, hrel⟩ := rel_drain hD hE h3 hb hr2
    have hinv := inv_addTransition a (some tr) (inv_set a c' _ h1 ⟨refOk_drain hrok hr2, hrel⟩)
    obtain ⟨s', hs1, hs2⟩ := ih _ _ hinv hrr
    refine ⟨s', ?_, hs2⟩
    simp only [State.drainBalances, applyDrain, hd, hs1]

theorem step_ok {D : Db} {sc : Bool} {s : State} {t : St} (op : Op) (hD : DbWf D)
    (hE : CodelessNoStorage D) (hi : Inv D E sc s t) (hr : ReachOp sc t op) (hx : ExclOp sc op) :
    ∃ s', s.step op = .ok (s', (step E.code sc t op).2) ∧ Inv D E sc s' (step E.code sc t op).1 := by
  cases op with
  | basic a =>
    obtain ⟨h1, h2⟩ := basic_ok a hD hi
    exact ⟨_, by simp only [State.step, step, h2], h1⟩
  | storage a k =>
    obtain ⟨s', h1, h2⟩ := storage_ok a k hi hr
    refine ⟨s', ?_, h2⟩
    simp only [State.step, step, h1, storageOf, zeroStorage]
    cases t.ref a <;> rfl
  | code h =>
    obtain ⟨h1, h2⟩ := inv_codeByHash h hi
    exact ⟨_, by simp only [State.step, step, h2], h1⟩
  | commit accts =>
    obtain ⟨s', h1, h2⟩ := commit_ok hD hE accts s t hi hr hx
    exact ⟨s', by simp only [State.step, step, h1], h2⟩
  | inc l =>
    exact ⟨_, rfl, inc_ok hD hE l s t hi hr⟩
  | drain l =>
    obtain ⟨s', h1, h2⟩ := drain_ok hD hE l s t hi hr
    exact ⟨s', by simp only [State.step, step, h1], h2⟩

theorem run_ok {D : Db} {sc : Bool} (hD : DbWf D) (hE : CodelessNoStorage D) (ops : List Op) :
    ∀ (s : State) (t : St), Inv D E sc s t → Reach E.code sc t ops → Excl sc ops →
      ∃ s', s.run ops = .ok (s', (run E.code sc t ops).2) ∧ Inv D E sc s' (run E.code sc t ops).1 := by
  induction ops with
  | nil => intro s t hi _ _; exact ⟨s, rfl, hi⟩
  | cons op rest ih =>
    intro s t hi hr hx
    obtain ⟨hr1, hr2⟩ := hr
    obtain ⟨s1, h1, h2⟩ := step_ok op hD hE hi hr1 (hx op (List.mem_cons_self ..))
    obtain ⟨s2, h3, h4⟩ := ih s1 _ h2 hr2 (fun o ho => hx o (List.mem_cons_of_mem _ ho))
    exact ⟨s2, by simp only [State.run, run, h1, h3], h4⟩

theorem inv_init {D : Db} (sc bu : Bool) (hD : DbWf D) (hE : CodelessNoStorage D) :
    Inv D D sc (State.build D sc bu none) (St.init D) :=
  ⟨rfl, rfl, fun a => ⟨initial_acct a hD hE, rfl⟩, fun a h => by simp [St.init] at h,
    fun h c hc => by simp [State.build] at hc, fun a => rfl, fun h => rfl⟩

/-- C15 main theorem (under the two exclusions) -/
theorem state_reads_ref {D : Db} (sc bu : Bool) (ops : List Op) (hD : DbWf D)
    (hE : CodelessNoStorage D) (hx : Excl sc ops) (hr : Reach D.code sc (St.init D) ops) :
    ∃ s', (State.build D sc bu none).run ops = .ok (s', (run D.code sc (St.init D) ops).2) := by
  obtain ⟨s', h, _⟩ := run_ok (E := D) hD hE ops _ _ (inv_init sc bu hD hE) hr hx
  exact ⟨s', h⟩

/-- a State built over `D` with a preloaded bundle, against the reference started from `E` -/
theorem inv_init_pre {D : Db} (sc bu : Bool) (B : Addr → Option BundleAccount) (BC : Nat → Option Code)
    (hD : DbWf E) (hE : CodelessNoStorage E)
    (hA : ∀ a, match (B a).map BundleAccount.toCache with
      | some c => CacheRel D E.code a c (refOfDb E a)
      | none => refOfDb E a = refOfDb D a)
    (hC : ∀ h, E.code h = match BC h with | some c => c | none => D.code h) :
    Inv D E sc (State.build D sc bu (some (B, BC))) (St.init E) :=
  ⟨rfl, rfl, fun a => ⟨initial_acct a hD hE, rfl⟩, fun a h => by simp [St.init] at h,
    fun h c hc => by simp [State.build] at hc, hA, hC⟩

/-- C19 core: the State with the preloaded bundle answers like the reference started from `E` -/
theorem prestate_reads_ref {D : Db} (sc bu : Bool) (B : Addr → Option BundleAccount)
    (BC : Nat → Option Code) (ops : List Op) (hD : DbWf D) (hE : CodelessNoStorage D)
    (hD' : DbWf E) (hE' : CodelessNoStorage E)
    (hA : ∀ a, match (B a).map BundleAccount.toCache with
      | some c => CacheRel D E.code a c (refOfDb E a)
      | none => refOfDb E a = refOfDb D a)
    (hC : ∀ h, E.code h = match BC h with | some c => c | none => D.code h)
    (hx : Excl sc ops) (hr : Reach E.code sc (St.init E) ops) :
    ∃ s', (State.build D sc bu (some (B, BC))).run ops = .ok (s', (run E.code sc (St.init E) ops).2) := by
  obtain ⟨s', h, _⟩ := run_ok hD hE ops _ _ (inv_init_pre sc bu B BC hD' hE' hA hC) hr hx
  exact ⟨s', h⟩

end Revm.Proofs.StateDb
