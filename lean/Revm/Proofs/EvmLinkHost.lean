import Revm.Proofs.EvmLinkFees
import Revm.Spec.AccessHistory
/-! LINK, the `Host` of the whole-EVM model as a history of journal operations (C06 / C10 / C34 are stated on such
histories, `Spec.JournalAbs.run`): every answer of `Evm.answer` IS one `JournalAbs.step` (or none) on the journal of the
world, over the same database, and the `is_cold` bits handed to the interpreter are `coldBits` of that operation —
the bits `is_cold_iff` (C34) is about. -/
set_option linter.unusedSimpArgs false
namespace Revm.Proofs.EvmLink
open Revm Revm.Model Revm.Model.Evm
open Revm.Spec.JournalAbs (Op Run)

/-- the journal operations behind a `Host` question (`impl Host for Context`); the log id is the world's next id -/
def hostOps (w : World) : Interp.HostOp → List Op
  | .keccak _ => []
  | .balance a => [.load a]
  | .code a => [.loadCode a]
  | .codeHash a => [.loadCode a]
  | .blockHash _ => []
  | .sload a k => [.sload a k]
  | .sstore a k v => [.sstore a k v]
  | .tload a k => [.tload a k]
  | .tstore a k v => [.tstore a k v]
  | .log _ _ _ => [.log w.logs.length]
  | .selfdestruct a t => [.selfdestruct a t]
  | .loadAccountDelegated a => [.loadDelegated a]

/-- the `is_cold` bits in a `Host` answer -/
def respBits : Interp.HostOp → Interp.HostResp → List Bool
  | .balance _, r | .code _, r | .codeHash _, r | .sload _ _, r | .sstore _ _ _, r | .selfdestruct _ _, r => [r.isCold]
  | .loadAccountDelegated _, r => r.isCold :: r.delegCold.toList
  | _, _ => []

theorem noteSlot_db (w : World) (a k : Nat) : (w.noteSlot a k).db = w.db := by
  unfold World.noteSlot; split <;> rfl

theorem w_loadAccount_tr {w w1 : World} {a : Nat} {c : Bool} (h : w.loadAccount a = .ok (w1, c)) :
    Journal.loadAccount w.db w.js a = some (w1.js, c) ∧ w1.db = w.db := by
  unfold World.loadAccount at h
  obtain ⟨⟨js, c'⟩, h1, h2⟩ := bind_ok h
  simp only [pure, Except.pure, Except.ok.injEq, Prod.mk.injEq] at h2
  obtain ⟨rfl, rfl⟩ := h2
  exact ⟨by rw [Proofs.EvmHost.noteAddr_js]; exact Proofs.EvmHost.ofOpt_ok h1, Proofs.EvmHost.noteAddr_db _ _⟩

theorem w_loadCode_tr {w w1 : World} {a : Nat} {c : Bool} (h : w.loadCode a = .ok (w1, c)) :
    Journal.loadCode w.db w.js a = some (w1.js, c) ∧ w1.db = w.db := by
  unfold World.loadCode at h
  obtain ⟨⟨js, c'⟩, h1, h2⟩ := bind_ok h
  simp only [pure, Except.pure, Except.ok.injEq, Prod.mk.injEq] at h2
  obtain ⟨rfl, rfl⟩ := h2
  exact ⟨by rw [Proofs.EvmHost.noteAddr_js]; exact Proofs.EvmHost.ofOpt_ok h1, Proofs.EvmHost.noteAddr_db _ _⟩

theorem w_loadAccountDelegated_tr {w w1 : World} {a : Nat} {ie c : Bool} {dc : Option Bool}
    (h : w.loadAccountDelegated a = .ok (w1, ie, c, dc)) :
    Journal.loadAccountDelegated w.db w.js a = some (w1.js, ie, c, dc) ∧ w1.db = w.db := by
  unfold World.loadAccountDelegated at h
  obtain ⟨⟨js, ie', c', dc'⟩, h1, h2⟩ := bind_ok h
  simp only [pure, Except.pure, Except.ok.injEq, Prod.mk.injEq] at h2
  obtain ⟨rfl, rfl, rfl, rfl⟩ := h2
  have h1' := Proofs.EvmHost.ofOpt_ok h1
  split
  · exact ⟨by rw [Proofs.EvmHost.noteAddr_js, Proofs.EvmHost.noteAddr_js]; exact h1',
      by rw [Proofs.EvmHost.noteAddr_db, Proofs.EvmHost.noteAddr_db]; rfl⟩
  · exact ⟨by rw [Proofs.EvmHost.noteAddr_js]; exact h1', by rw [Proofs.EvmHost.noteAddr_db]; rfl⟩

open Revm.Spec.JournalAbs Revm.Spec.AccessHistory in
/-- **every `Host` answer is a journal history**: the world's journal after the answer is `JournalAbs.run` of
`hostOps` on the journal before it, over the same database and with the same checkpoints handed out; and for the
operations that expose `is_cold` (C34 `exposes`), the bits in the answer are `coldBits` of the operation -/
theorem answer_trace {he : HostEnv} {w w1 : World} {op : Interp.HostOp} {resp : Interp.HostResp}
    (h : answer he w op = .ok (resp, w1)) (cps : List Journal.Checkpoint) :
    run w.db { js := w.js, cps := cps } (hostOps w op) = some { js := w1.js, cps := cps } ∧ w1.db = w.db ∧
    (∀ o, o ∈ hostOps w op → exposes o = true → coldBits w.db w.js o = some (respBits op resp)) := by
  cases op with
  | keccak d =>
    simp only [answer, pure, Except.pure, Except.ok.injEq, Prod.mk.injEq] at h
    obtain ⟨_, rfl⟩ := h
    exact ⟨rfl, rfl, fun o ho => nomatch ho⟩
  | blockHash n =>
    simp only [answer, pure, Except.pure, Except.ok.injEq, Prod.mk.injEq] at h
    obtain ⟨_, rfl⟩ := h
    exact ⟨rfl, rfl, fun o ho => nomatch ho⟩
  | tload a k =>
    simp only [answer, pure, Except.pure, Except.ok.injEq, Prod.mk.injEq] at h
    obtain ⟨_, rfl⟩ := h
    exact ⟨rfl, rfl, fun o ho hx => by simp only [hostOps, List.mem_singleton] at ho; subst ho; cases hx⟩
  | balance a =>
    simp only [answer] at h
    obtain ⟨⟨w2, c⟩, h1, h⟩ := bind_ok h
    obtain ⟨acc, _, h⟩ := bind_ok h
    simp only [pure, Except.pure, Except.ok.injEq, Prod.mk.injEq] at h
    obtain ⟨rfl, rfl⟩ := h
    obtain ⟨t1, t2⟩ := w_loadAccount_tr h1
    refine ⟨by simp only [hostOps, run, step, t1, Option.map_some], t2, fun o ho _ => ?_⟩
    simp only [hostOps, List.mem_singleton] at ho; subst ho
    simp only [coldBits, t1, Option.map_some, respBits]
  | code a =>
    simp only [answer] at h
    obtain ⟨⟨w2, c⟩, h1, h⟩ := bind_ok h
    obtain ⟨acc, _, h⟩ := bind_ok h
    obtain ⟨hh, _, h⟩ := bind_ok h
    obtain ⟨bytes, _, h⟩ := bind_ok h
    simp only [pure, Except.pure, Except.ok.injEq, Prod.mk.injEq] at h
    obtain ⟨rfl, rfl⟩ := h
    obtain ⟨t1, t2⟩ := w_loadCode_tr h1
    refine ⟨by simp only [hostOps, run, step, t1, Option.map_some], t2, fun o ho _ => ?_⟩
    simp only [hostOps, List.mem_singleton] at ho; subst ho
    simp only [coldBits, t1, Option.map_some, respBits]
  | codeHash a =>
    simp only [answer] at h
    obtain ⟨⟨w2, c⟩, h1, h⟩ := bind_ok h
    obtain ⟨acc, _, h⟩ := bind_ok h
    obtain ⟨t1, t2⟩ := w_loadCode_tr h1
    split at h <;> simp only [pure, Except.pure, Except.ok.injEq, Prod.mk.injEq] at h <;> obtain ⟨rfl, rfl⟩ := h <;>
      (refine ⟨by simp only [hostOps, run, step, t1, Option.map_some], t2, fun o ho _ => ?_⟩
       simp only [hostOps, List.mem_singleton] at ho; subst ho
       simp only [coldBits, t1, Option.map_some, respBits])
  | sload a k =>
    simp only [answer] at h
    obtain ⟨⟨js, v, c⟩, h1, h⟩ := bind_ok h
    simp only [pure, Except.pure, Except.ok.injEq, Prod.mk.injEq] at h
    obtain ⟨rfl, rfl⟩ := h
    have t1 := Proofs.EvmHost.ofOpt_ok h1
    refine ⟨by simp only [hostOps, run, step, t1, Option.map_some, Proofs.EvmHost.noteSlot_js],
      by rw [noteSlot_db]; rfl, fun o ho _ => ?_⟩
    simp only [hostOps, List.mem_singleton] at ho; subst ho
    simp only [coldBits, t1, Option.map_some, respBits]
  | sstore a k v =>
    simp only [answer] at h
    obtain ⟨⟨js, o, p, n, c⟩, h1, h⟩ := bind_ok h
    simp only [pure, Except.pure, Except.ok.injEq, Prod.mk.injEq] at h
    obtain ⟨rfl, rfl⟩ := h
    have t1 := Proofs.EvmHost.ofOpt_ok h1
    refine ⟨by simp only [hostOps, run, step, t1, Option.map_some, Proofs.EvmHost.noteSlot_js],
      by rw [noteSlot_db]; rfl, fun o ho _ => ?_⟩
    simp only [hostOps, List.mem_singleton] at ho; subst ho
    simp only [coldBits, t1, Option.map_some, respBits]
  | tstore a k v =>
    simp only [answer] at h
    obtain ⟨js, h1, h⟩ := bind_ok h
    simp only [pure, Except.pure, Except.ok.injEq, Prod.mk.injEq] at h
    obtain ⟨rfl, rfl⟩ := h
    have t1 := Proofs.EvmHost.ofOpt_ok h1
    refine ⟨by simp only [hostOps, run, step, t1, Option.map_some], rfl, fun o ho hx => ?_⟩
    simp only [hostOps, List.mem_singleton] at ho; subst ho; cases hx
  | log a t d =>
    simp only [answer, pure, Except.pure, Except.ok.injEq, Prod.mk.injEq] at h
    obtain ⟨rfl, rfl⟩ := h
    refine ⟨rfl, rfl, fun o ho hx => ?_⟩
    simp only [hostOps, List.mem_singleton] at ho; subst ho; cases hx
  | selfdestruct a t =>
    simp only [answer] at h
    obtain ⟨⟨js, hv, te, pd, c⟩, h1, h⟩ := bind_ok h
    simp only [pure, Except.pure, Except.ok.injEq, Prod.mk.injEq] at h
    obtain ⟨rfl, rfl⟩ := h
    have t1 := Proofs.EvmHost.ofOpt_ok h1
    refine ⟨by simp only [hostOps, run, step, t1, Option.map_some, Proofs.EvmHost.noteAddr_js],
      by rw [Proofs.EvmHost.noteAddr_db]; rfl, fun o ho _ => ?_⟩
    simp only [hostOps, List.mem_singleton] at ho; subst ho
    simp only [coldBits, t1, Option.map_some, respBits]
  | loadAccountDelegated a =>
    simp only [answer] at h
    obtain ⟨⟨w2, ie, c, dc⟩, h1, h⟩ := bind_ok h
    simp only [pure, Except.pure, Except.ok.injEq, Prod.mk.injEq] at h
    obtain ⟨rfl, rfl⟩ := h
    obtain ⟨t1, t2⟩ := w_loadAccountDelegated_tr h1
    refine ⟨by simp only [hostOps, run, step, t1, Option.map_some], t2, fun o ho _ => ?_⟩
    simp only [hostOps, List.mem_singleton] at ho; subst ho
    simp only [coldBits, t1, Option.map_some, respBits]

end Revm.Proofs.EvmLink
