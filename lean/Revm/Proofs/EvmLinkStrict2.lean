import Revm.Proofs.EvmLinkStrict
import Revm.Proofs.EvmLinkKeep2
import Revm.Proofs.EvmLinkCostPos
/-! LINK, termination, part 2: the stack / memory / code primitives with the flag. -/
set_option linter.unusedSimpArgs false
set_option linter.unusedVariables false
namespace Revm.Proofs.EvmLink
open Revm Revm.Model Revm.Model.Interp

section prims
variable {fl : Bool} {s0 s : IState}

theorem sk_gasOrFail (h : KeptB fl s0 s) (c : Option Nat) : SKeep fl s0 T (gasOrFail c s) := by
  unfold gasOrFail
  cases c with
  | some x => exact sk_mono (sk_gasCharge h x) (fun _ _ _ _ => trivial)
  | none => exact .halt h (by decide)

/-- `gas_or_fail!` of a cost of at least 1: the flag is set -/
theorem sk_gasOrFail1 (h : KeptB fl s0 s) (c : Option Nat) (hc : ∀ x, c = some x → 1 ≤ x) :
    SKeep true s0 T (gasOrFail c s) := by
  unfold gasOrFail
  cases c with
  | some x => exact sk_mono (sk_gasCharge1 h x (hc x rfl)) (fun _ _ _ _ => trivial)
  | none => exact .halt h (by decide)

theorem sk_refund (h : KeptB fl s0 s) (r : Int) : SKeep fl s0 T (refund r s) :=
  sk_modifyS h _ ⟨rfl, rfl, Nat.le_refl _⟩

theorem sk_advancePc (h : KeptB fl s0 s) (n : Nat) : SKeep fl s0 T (advancePc n s) :=
  sk_modifyS h _ ⟨rfl, rfl, Nat.le_refl _⟩

theorem sk_setEof (h : KeptB fl s0 s) (f : EofCtx → EofCtx) : SKeep fl s0 T (setEof f s) :=
  sk_modifyS h _ ⟨rfl, rfl, Nat.le_refl _⟩

theorem sk_popN (h : KeptB fl s0 s) (k : Nat) : SKeep fl s0 T (popN k s) := by
  unfold popN
  generalize Stack.popMacro s.stack k = p
  obtain ⟨d, r⟩ := p
  cases r with
  | ok vs => exact .ok (h.trans ⟨rfl, rfl, Nat.le_refl _⟩) trivial
  | err e => exact .halt h (by cases e <;> decide)
  | _ => exact .fault

theorem sk_popTop (h : KeptB fl s0 s) (k : Nat) : SKeep fl s0 T (popTop k s) := by
  unfold popTop
  split
  · exact .halt h (by decide)
  · generalize Stack.popNUnsafe (k - 1) s.stack = p
    obtain ⟨d, r⟩ := p
    cases r with
    | ok vs =>
      dsimp only
      generalize Stack.peek d 0 = q
      obtain ⟨d2, r2⟩ := q
      cases r2 with
      | ok t => exact .ok (h.trans ⟨rfl, rfl, Nat.le_refl _⟩) trivial
      | _ => exact .fault
    | _ => exact .fault

theorem sk_setTop (h : KeptB fl s0 s) (v : Nat) : SKeep fl s0 T (setTop v s) := by
  unfold setTop
  generalize Stack.set s.stack 0 v = p
  obtain ⟨d, r⟩ := p
  cases r with
  | ok x => exact .ok (h.trans ⟨rfl, rfl, Nat.le_refl _⟩) trivial
  | _ => exact .fault

theorem sk_push (h : KeptB fl s0 s) (v : Nat) : SKeep fl s0 T (push v s) := by
  unfold push
  generalize Stack.push s.stack v = p
  obtain ⟨d, r⟩ := p
  cases r with
  | ok x => exact .ok (h.trans ⟨rfl, rfl, Nat.le_refl _⟩) trivial
  | err e => exact .halt h (by cases e <;> decide)
  | _ => exact .fault

theorem sk_stackCall (h : KeptB fl s0 s) (f : List Nat → List Nat × Stack.Res Unit) : SKeep fl s0 T (stackCall f s) := by
  unfold stackCall
  generalize f s.stack = p
  obtain ⟨d, r⟩ := p
  cases r with
  | ok x => exact .ok (h.trans ⟨rfl, rfl, Nat.le_refl _⟩) trivial
  | err e => exact .halt h (by cases e <;> decide)
  | _ => exact .fault

theorem sk_stackCallAdv (h : KeptB fl s0 s) (f : List Nat → List Nat × Stack.Res Unit) (n : Nat) :
    SKeep fl s0 T (stackCallAdv f n s) := by
  unfold stackCallAdv
  generalize f s.stack = p
  obtain ⟨d, r⟩ := p
  cases r with
  | ok x => exact .ok (h.trans ⟨rfl, rfl, Nat.le_refl _⟩) trivial
  | err e => exact .halt (h.trans ⟨rfl, rfl, Nat.le_refl _⟩) (by cases e <;> decide)
  | _ => exact .fault

theorem sk_asUsizeOrFail (h : KeptB fl s0 s) (v : Nat) (r : IResult) (hr : RGood r) :
    SKeep fl s0 T (asUsizeOrFail v r s) := by
  unfold asUsizeOrFail
  cases Jump.asUsizeOrFail v with
  | some x => exact sk_pure h trivial
  | none => exact .halt h hr

theorem sk_memRes {α β} (r : Memory.Res α) (k : α → Exec β) {Q : β → IState → Prop}
    (hk : ∀ a, r = .ok a → SKeep fl s0 Q (k a)) : SKeep fl s0 Q (memRes r k) := by
  cases r with
  | ok a => exact hk a rfl
  | panic => exact .fault
  | ub => exact .fault

theorem sk_resizeMem (h : KeptB fl s0 s) (o l : Nat) : SKeep fl s0 T (resizeMem o l s) := by
  unfold resizeMem
  refine sk_memRes _ _ fun r hr => ?_
  obtain ⟨b, m', r'⟩ := r
  have hle := resizeMemoryMacro_rem hr
  cases b with
  | true => exact .ok (h.trans ⟨rfl, rfl, hle⟩) trivial
  | false => exact .halt h (by decide)

theorem sk_liftMemWrite (h : KeptB fl s0 s) (f : Memory.SharedMemory → Memory.Res Memory.SharedMemory) :
    SKeep fl s0 T (liftMemWrite f s) := by
  unfold liftMemWrite
  exact sk_memRes _ _ fun m _ => .ok (h.trans ⟨rfl, rfl, Nat.le_refl _⟩) trivial

theorem sk_memSlice (h : KeptB fl s0 s) (o l : Nat) : SKeep fl s0 T (memSlice o l s) := by
  unfold memSlice
  exact sk_memRes _ _ fun a _ => .ok h trivial

theorem sk_memSliceRange (h : KeptB fl s0 s) (a c : Nat) : SKeep fl s0 T (memSliceRange a c s) := by
  unfold memSliceRange
  exact sk_memRes _ _ fun x _ => .ok h trivial

theorem sk_memGetU256 (h : KeptB fl s0 s) (o : Nat) : SKeep fl s0 T (memGetU256 o s) := by
  unfold memGetU256
  exact sk_memRes _ _ fun x _ => .ok h trivial

theorem sk_memSetU256 (h : KeptB fl s0 s) (o v : Nat) : SKeep fl s0 T (memSetU256 o v s) := sk_liftMemWrite h _
theorem sk_memSetByte (h : KeptB fl s0 s) (o v : Nat) : SKeep fl s0 T (memSetByte o v s) := sk_liftMemWrite h _
theorem sk_memSetData (h : KeptB fl s0 s) (a b c : Nat) (d : List Nat) : SKeep fl s0 T (memSetData a b c d s) :=
  sk_liftMemWrite h _
theorem sk_memCopy (h : KeptB fl s0 s) (a b c : Nat) : SKeep fl s0 T (memCopy a b c s) := sk_liftMemWrite h _

theorem sk_codeSlice (h : KeptB fl s0 s) (n : Nat) : SKeep fl s0 T (codeSlice n s) := by
  unfold codeSlice; split
  · exact .ok h trivial
  · exact .fault

theorem sk_codeByte (h : KeptB fl s0 s) (off : Nat) : SKeep fl s0 T (codeByte off s) := by
  unfold codeByte
  cases s.code[s.pc + off]? with
  | some b => exact .ok h trivial
  | none => exact .fault

theorem sk_jumpRel (h : KeptB fl s0 s) (d : Int) : SKeep fl s0 T (jumpRel d s) := by
  unfold jumpRel
  dsimp only
  split
  · exact .fault
  · exact .ok (h.trans ⟨rfl, rfl, Nat.le_refl _⟩) trivial

theorem sk_getEof (h : KeptB fl s0 s) : SKeep fl s0 T (getEof s) := by
  unfold getEof
  cases s.eof with
  | some c => exact .ok h trivial
  | none => exact .fault

theorem sk_loadEofCode (h : KeptB fl s0 s) (idx pc : Nat) : SKeep fl s0 T (loadEofCode idx pc s) := by
  unfold loadEofCode
  cases s.eof with
  | none => exact .fault
  | some c =>
    dsimp only
    cases c.sections[idx]? with
    | none => exact .fault
    | some code => exact .ok (h.trans ⟨rfl, rfl, Nat.le_refl _⟩) trivial

end prims
end Revm.Proofs.EvmLink

