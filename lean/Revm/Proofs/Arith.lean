import Revm.Model.Arith
import Revm.Spec.Arith
/-! Helper lemmas and proofs for C03 (core Lean only). -/
set_option linter.unusedSimpArgs false
namespace Revm.Proofs.Arith
open Revm Revm.U256 Revm.Model.Arith

theorem wneg_of_pos (a : Nat) (h0 : 0 < a) (ha : a < W) : wneg a = W - a := by
  unfold wneg; exact Nat.mod_eq_of_lt (by omega)

theorem wneg_zero : wneg 0 = 0 := by simp [wneg]

theorem toInt_neg (a : Nat) (h : a ≥ 2^255) (_ha : a < W) : toInt a = -((W - a : Nat) : Int) := by
  have hW := W_val
  unfold toInt; simp [h]; omega

theorem toInt_nonneg (a : Nat) (h : a < 2^255) : toInt a = (a : Int) := by
  unfold toInt; simp; intro h'; omega

theorem ofInt_natCast (n : Nat) (h : n < W) : ofInt (n : Int) = n := by
  unfold ofInt
  have : ((n : Int) % (W : Int)) = (n : Int) := Int.emod_eq_of_lt (by omega) (by exact_mod_cast h)
  rw [this]; simp

theorem ofInt_neg_natCast (n : Nat) (_h0 : 0 < n) (h : n ≤ W) : ofInt (-(n : Int)) = W - n := by
  unfold ofInt
  have h1 : (-(n : Int)) % (W : Int) = ((W - n : Nat) : Int) := by
    have : (-(n : Int)) = ((W - n : Nat) : Int) + (W : Int) * (-1) := by
      rw [Int.ofNat_sub h]; omega
    rw [this, Int.add_mul_emod_self_left]
    exact Int.emod_eq_of_lt (by omega) (by
      have : W - n < W := by omega
      exact_mod_cast this)
  rw [h1]; simp

theorem bit255 (v : Nat) (hv : v < W) : bit v 255 = decide (v ≥ 2^255) := by
  have hW := W_val
  unfold bit
  rw [Nat.testBit_eq_decide_div_mod_eq]
  by_cases h : v ≥ 2^255
  · have : v / 2^255 = 1 := by omega
    simp [this, h]
  · have : v / 2^255 = 0 := by omega
    simp [this, h]

/-- `i256_sign_compl` characterised -/
theorem signCompl_neg (v : Nat) (hv : v < W) (h : v ≥ 2^255) : i256SignCompl v = (.minus, W - v) := by
  have hW := W_val
  unfold i256SignCompl i256Sign
  rw [bit255 v hv]; simp [h]; exact wneg_of_pos v (by omega) hv
theorem signCompl_zero : i256SignCompl 0 = (.zero, 0) := by
  unfold i256SignCompl i256Sign bit; simp
theorem signCompl_pos (v : Nat) (hv : v < W) (h : v < 2^255) (h0 : v ≠ 0) : i256SignCompl v = (.plus, v) := by
  have hn : ¬ (v ≥ 2^255) := by omega
  unfold i256SignCompl i256Sign
  rw [bit255 v hv]; simp [h0, hn]

theorem sub_eq (a b : Nat) (ha : a < W) (hb : b < W) : Model.Arith.sub a b = Spec.Arith.sub a b := by
  have hW := W_val
  unfold Model.Arith.sub Spec.Arith.sub wsub ofInt
  rw [Nat.mod_eq_of_lt hb]
  by_cases h : b ≤ a
  · have e1 : (a + W - b) % W = a - b := by
      have : a + W - b = (a - b) + W := by omega
      rw [this, Nat.add_mod_right]; exact Nat.mod_eq_of_lt (by omega)
    have e2 : ((a : Int) - (b : Int)) % (W : Int) = ((a - b : Nat) : Int) := by
      rw [← Int.ofNat_sub h]; exact Int.emod_eq_of_lt (by omega) (by exact_mod_cast (by omega : a - b < W))
    rw [e1, e2]; simp
  · have e1 : (a + W - b) % W = a + W - b := Nat.mod_eq_of_lt (by omega)
    have e2 : ((a : Int) - (b : Int)) % (W : Int) = ((a + W - b : Nat) : Int) := by
      have : ((a : Int) - (b : Int)) = ((a + W - b : Nat) : Int) + (W : Int) * (-1) := by
        rw [Int.ofNat_sub (by omega)]; push_cast; omega
      rw [this, Int.add_mul_emod_self_left]
      exact Int.emod_eq_of_lt (by omega) (by exact_mod_cast (by omega : a + W - b < W))
    rw [e1, e2]; simp

theorem div_eq (a b : Nat) : Model.Arith.div a b = Spec.Arith.div a b := by
  unfold Model.Arith.div Spec.Arith.div; by_cases h : b = 0 <;> simp [h]
theorem mod_eq (a b : Nat) : Model.Arith.rem a b = Spec.Arith.mod a b := by
  unfold Model.Arith.rem Spec.Arith.mod; by_cases h : b = 0 <;> simp [h]

/-- quotient of magnitudes is below 2^255 unless it is the MIN over minus-one case -/
theorem div_lt (x y : Nat) (hx : x ≤ 2^255) (hy : 0 < y) (h : ¬ (x = 2^255 ∧ y = 1)) : x / y < 2^255 := by
  by_cases hy1 : y = 1
  · subst hy1; simp at h; simp; omega
  · have : x / y ≤ x / 2 := Nat.div_le_div_left (by omega) (by omega)
    omega

theorem core_case (x y : Nat) (hx2 : x ≤ 2^255) (hy : 0 < y)
    (hmin : ¬ (x = 2^255 ∧ y = 1)) :
    removeSign (x / y) = x / y ∧ ofInt (((x / y : Nat) : Int)) = x / y ∧
    ofInt (-(((x / y : Nat) : Int))) = wneg (x / y) := by
  have hW := W_val
  have hlt := div_lt x y hx2 hy hmin
  unfold removeSign
  generalize x / y = q at hlt ⊢
  refine ⟨Nat.mod_eq_of_lt hlt, ofInt_natCast _ (by omega), ?_⟩
  by_cases h0 : q = 0
  · rw [h0]; simp [ofInt, wneg]
  · rw [ofInt_neg_natCast _ (by omega) (by omega), wneg_of_pos _ (by omega) (by omega)]

theorem min_case : wneg MIN_NEG = ofInt ((2^255 : Nat) : Int) := by
  unfold wneg ofInt MIN_NEG; rw [W_val]; decide

theorem sdiv_eq (a b : Nat) (ha : a < W) (hb : b < W) : Model.Arith.sdiv a b = Spec.Arith.sdiv a b := by
  have hW := W_val
  unfold Model.Arith.sdiv i256Div Spec.Arith.sdiv
  by_cases hb0 : b = 0
  · subst hb0; simp [signCompl_zero]
  have hbpos : 0 < b := Nat.pos_of_ne_zero hb0
  by_cases hbn : b ≥ 2^255 <;> by_cases han : a ≥ 2^255
  · rw [signCompl_neg b hb hbn, signCompl_neg a ha han, toInt_neg a han ha, toInt_neg b hbn hb]
    simp only [hb0, if_false, reduceCtorEq, ne_eq, not_true_eq_false, and_false, or_false, false_and, and_true, or_self, true_and]
    rw [Int.neg_tdiv_neg, ← Int.ofNat_tdiv]
    by_cases hmin : W - a = MIN_NEG ∧ W - b = 1
    · simp only [hmin, and_self, if_true]
      rw [Nat.div_one]; exact min_case
    · simp only [hmin, if_false]
      obtain ⟨h1, h2, _⟩ := core_case (W - a) (W - b) (by omega) (by omega) hmin
      rw [h1, h2]
  · rw [signCompl_neg b hb hbn]
    by_cases ha0 : a = 0
    · subst ha0; simp [signCompl_zero, hb0, removeSign, toInt, ofInt, MIN_NEG, wneg_zero]
    rw [signCompl_pos a ha (by omega) ha0, toInt_nonneg a (by omega), toInt_neg b hbn hb]
    simp only [hb0, if_false, reduceCtorEq, ne_eq, not_true_eq_false, and_false, or_false, false_and, and_true, or_self, true_and, not_false_eq_true, or_true, if_true]
    rw [Int.tdiv_neg, ← Int.ofNat_tdiv]
    have hmin : ¬ (a = MIN_NEG ∧ W - b = 1) := by unfold MIN_NEG; omega
    simp only [hmin, if_false]
    obtain ⟨h1, _, h3⟩ := core_case a (W - b) (by omega) (by omega) hmin
    rw [h1, h3]
  · rw [signCompl_pos b hb (by omega) hb0, signCompl_neg a ha han, toInt_neg a han ha, toInt_nonneg b (by omega)]
    simp only [hb0, if_false, reduceCtorEq, ne_eq, not_true_eq_false, and_false, or_false, false_and, and_true, or_self, true_and, not_false_eq_true, or_true, if_true]
    rw [Int.neg_tdiv, ← Int.ofNat_tdiv]
    by_cases hmin : W - a = MIN_NEG ∧ b = 1
    · simp only [hmin, and_self, if_true]
      rw [Nat.div_one]
      unfold wneg ofInt MIN_NEG; rw [W_val]; decide
    · simp only [hmin, if_false]
      obtain ⟨h1, _, h3⟩ := core_case (W - a) b (by omega) (by omega) hmin
      rw [h1, h3]
  · rw [signCompl_pos b hb (by omega) hb0]
    by_cases ha0 : a = 0
    · subst ha0; simp [signCompl_zero, hb0, removeSign, toInt, ofInt, MIN_NEG]
    rw [signCompl_pos a ha (by omega) ha0, toInt_nonneg a (by omega), toInt_nonneg b (by omega), ← Int.ofNat_tdiv]
    simp only [hb0, if_false, reduceCtorEq, ne_eq, not_true_eq_false, and_false, or_false, false_and, and_true, or_self, true_and]
    have hmin : ¬ (a = MIN_NEG ∧ b = 1) := by unfold MIN_NEG; omega
    simp only [hmin, if_false]
    obtain ⟨h1, h2, _⟩ := core_case a b (by omega) (by omega) hmin
    rw [h1, h2]

end Revm.Proofs.Arith
