import Revm.Model.Arith
import Revm.Spec.Arith
/-! Helper lemmas and proofs for C03 (core Lean only). -/
set_option linter.unusedSimpArgs false
namespace Revm.Proofs.Arith
open Revm Revm.U256 Revm.Model.Arith

theorem wneg_of_pos (a : Nat) (h0 : 0 < a) (ha : a < W) : wneg a = W - a := by
  unfold wneg; exact Nat.mod_eq_of_lt (by omega)

theorem wneg_zero : wneg 0 = 0 := by simp [wneg]

theorem toInt_neg (a : Nat) (h : a ≥ 2^255) (_ha : a < W) : toInt a = -((W - a : Nat) : Int) := by
  have hW := W_val
  unfold toInt; simp [h]; omega

theorem toInt_nonneg (a : Nat) (h : a < 2^255) : toInt a = (a : Int) := by
  unfold toInt; simp; intro h'; omega

theorem ofInt_natCast (n : Nat) (h : n < W) : ofInt (n : Int) = n := by
  unfold ofInt
  have : ((n : Int) % (W : Int)) = (n : Int) := Int.emod_eq_of_lt (by omega) (by exact_mod_cast h)
  rw [this]; simp

theorem ofInt_neg_natCast (n : Nat) (_h0 : 0 < n) (h : n ≤ W) : ofInt (-(n : Int)) = W - n := by
  unfold ofInt
  have h1 : (-(n : Int)) % (W : Int) = ((W - n : Nat) : Int) := by
    have : (-(n : Int)) = ((W - n : Nat) : Int) + (W : Int) * (-1) := by
      rw [Int.ofNat_sub h]; omega
    rw [this, Int.add_mul_emod_self_left]
    exact Int.emod_eq_of_lt (by omega) (by
      have : W - n < W := by omega
      exact_mod_cast this)
  rw [h1]; simp

theorem bit255 (v : Nat) (hv : v < W) : bit v 255 = decide (v ≥ 2^255) := by
  have hW := W_val
  unfold bit
  rw [Nat.testBit_eq_decide_div_mod_eq]
  by_cases h : v ≥ 2^255
  · have : v / 2^255 = 1 := by omega
    simp [this, h]
  · have : v / 2^255 = 0 := by omega
    simp [this, h]

/-- `i256_sign_compl` characterised -/
theorem signCompl_neg (v : Nat) (hv : v < W) (h : v ≥ 2^255) : i256SignCompl v = (.minus, W - v) := by
  have hW := W_val
  unfold i256SignCompl i256Sign
  rw [bit255 v hv]; simp [h]; exact wneg_of_pos v (by omega) hv
theorem signCompl_zero : i256SignCompl 0 = (.zero, 0) := by
  unfold i256SignCompl i256Sign bit; simp
theorem signCompl_pos (v : Nat) (hv : v < W) (h : v < 2^255) (h0 : v ≠ 0) : i256SignCompl v = (.plus, v) := by
  have hn : ¬ (v ≥ 2^255) := by omega
  unfold i256SignCompl i256Sign
  rw [bit255 v hv]; simp [h0, hn]

theorem sub_eq (a b : Nat) (ha : a < W) (hb : b < W) : Model.Arith.sub a b = Spec.Arith.sub a b := by
  have hW := W_val
  unfold Model.Arith.sub Spec.Arith.sub wsub ofInt
  rw [Nat.mod_eq_of_lt hb]
  by_cases h : b ≤ a
  · have e1 : (a + W - b) % W = a - b := by
      have : a + W - b = (a - b) + W := by omega
      rw [this, Nat.add_mod_right]; exact Nat.mod_eq_of_lt (by omega)
    have e2 : ((a : Int) - (b : Int)) % (W : Int) = ((a - b : Nat) : Int) := by
      rw [← Int.ofNat_sub h]; exact Int.emod_eq_of_lt (by omega) (by exact_mod_cast (by omega : a - b < W))
    rw [e1, e2]; simp
  · have e1 : (a + W - b) % W = a + W - b := Nat.mod_eq_of_lt (by omega)
    have e2 : ((a : Int) - (b : Int)) % (W : Int) = ((a + W - b : Nat) : Int) := by
      have : ((a : Int) - (b : Int)) = ((a + W - b : Nat) : Int) + (W : Int) * (-1) := by
        rw [Int.ofNat_sub (by omega)]; push_cast; omega
      rw [this, Int.add_mul_emod_self_left]
      exact Int.emod_eq_of_lt (by omega) (by exact_mod_cast (by omega : a + W - b < W))
    rw [e1, e2]; simp

theorem div_eq (a b : Nat) : Model.Arith.div a b = Spec.Arith.div a b := by
  unfold Model.Arith.div Spec.Arith.div; by_cases h : b = 0 <;> simp [h]
theorem mod_eq (a b : Nat) : Model.Arith.rem a b = Spec.Arith.mod a b := by
  unfold Model.Arith.rem Spec.Arith.mod; by_cases h : b = 0 <;> simp [h]

/-- quotient of magnitudes is below 2^255 unless it is the MIN over minus-one case -/
theorem div_lt (x y : Nat) (hx : x ≤ 2^255) (hy : 0 < y) (h : ¬ (x = 2^255 ∧ y = 1)) : x / y < 2^255 := by
  by_cases hy1 : y = 1
  · subst hy1; simp at h; simp; omega
  · have : x / y ≤ x / 2 := Nat.div_le_div_left (by omega) (by omega)
    omega

theorem core_case (x y : Nat) (hx2 : x ≤ 2^255) (hy : 0 < y)
    (hmin : ¬ (x = 2^255 ∧ y = 1)) :
    removeSign (x / y) = x / y ∧ ofInt (((x / y : Nat) : Int)) = x / y ∧
    ofInt (-(((x / y : Nat) : Int))) = wneg (x / y) := by
  have hW := W_val
  have hlt := div_lt x y hx2 hy hmin
  unfold removeSign
  generalize x / y = q at hlt ⊢
  refine ⟨Nat.mod_eq_of_lt hlt, ofInt_natCast _ (by omega), ?_⟩
  by_cases h0 : q = 0
  · rw [h0]; simp [ofInt, wneg]
  · rw [ofInt_neg_natCast _ (by omega) (by omega), wneg_of_pos _ (by omega) (by omega)]

theorem min_case : wneg MIN_NEG = ofInt ((2^255 : Nat) : Int) := by
  unfold wneg ofInt MIN_NEG; rw [W_val]; decide

theorem sdiv_eq (a b : Nat) (ha : a < W) (hb : b < W) : Model.Arith.sdiv a b = Spec.Arith.sdiv a b := by
  have hW := W_val
  unfold Model.Arith.sdiv i256Div Spec.Arith.sdiv
  by_cases hb0 : b = 0
  · subst hb0; simp [signCompl_zero]
  have hbpos : 0 < b := Nat.pos_of_ne_zero hb0
  by_cases hbn : b ≥ 2^255 <;> by_cases han : a ≥ 2^255
  · rw [signCompl_neg b hb hbn, signCompl_neg a ha han, toInt_neg a han ha, toInt_neg b hbn hb]
    simp only [hb0, if_false, reduceCtorEq, ne_eq, not_true_eq_false, and_false, or_false, false_and, and_true, or_self, true_and]
    rw [Int.neg_tdiv_neg, ← Int.ofNat_tdiv]
    by_cases hmin : W - a = MIN_NEG ∧ W - b = 1
    · simp only [hmin, and_self, if_true]
      rw [Nat.div_one]; exact min_case
    · simp only [hmin, if_false]
      obtain ⟨h1, h2, _⟩ := core_case (W - a) (W - b) (by omega) (by omega) hmin
      rw [h1, h2]
  · rw [signCompl_neg b hb hbn]
    by_cases ha0 : a = 0
    · subst ha0; simp [signCompl_zero, hb0, removeSign, toInt, ofInt, MIN_NEG, wneg_zero]
    rw [signCompl_pos a ha (by omega) ha0, toInt_nonneg a (by omega), toInt_neg b hbn hb]
    simp only [hb0, if_false, reduceCtorEq, ne_eq, not_true_eq_false, and_false, or_false, false_and, and_true, or_self, true_and, not_false_eq_true, or_true, if_true]
    rw [Int.tdiv_neg, ← Int.ofNat_tdiv]
    have hmin : ¬ (a = MIN_NEG ∧ W - b = 1) := by unfold MIN_NEG; omega
    simp only [hmin, if_false]
    obtain ⟨h1, _, h3⟩ := core_case a (W - b) (by omega) (by omega) hmin
    rw [h1, h3]
  · rw [signCompl_pos b hb (by omega) hb0, signCompl_neg a ha han, toInt_neg a han ha, toInt_nonneg b (by omega)]
    simp only [hb0, if_false, reduceCtorEq, ne_eq, not_true_eq_false, and_false, or_false, false_and, and_true, or_self, true_and, not_false_eq_true, or_true, if_true]
    rw [Int.neg_tdiv, ← Int.ofNat_tdiv]
    by_cases hmin : W - a = MIN_NEG ∧ b = 1
    · simp only [hmin, and_self, if_true]
      rw [Nat.div_one]
      unfold wneg ofInt MIN_NEG; rw [W_val]; decide
    · simp only [hmin, if_false]
      obtain ⟨h1, _, h3⟩ := core_case (W - a) b (by omega) (by omega) hmin
      rw [h1, h3]
  · rw [signCompl_pos b hb (by omega) hb0]
    by_cases ha0 : a = 0
    · subst ha0; simp [signCompl_zero, hb0, removeSign, toInt, ofInt, MIN_NEG]
    rw [signCompl_pos a ha (by omega) ha0, toInt_nonneg a (by omega), toInt_nonneg b (by omega), ← Int.ofNat_tdiv]
    simp only [hb0, if_false, reduceCtorEq, ne_eq, not_true_eq_false, and_false, or_false, false_and, and_true, or_self, true_and]
    have hmin : ¬ (a = MIN_NEG ∧ b = 1) := by unfold MIN_NEG; omega
    simp only [hmin, if_false]
    obtain ⟨h1, h2, _⟩ := core_case a b (by omega) (by omega) hmin
    rw [h1, h2]

/-! ### near-definitional opcodes -/
theorem addmod_eq (a b n : Nat) : Model.Arith.addmod a b n = Spec.Arith.addmod a b n := rfl
theorem mulmod_eq (a b n : Nat) : Model.Arith.mulmod a b n = Spec.Arith.mulmod a b n := rfl
theorem lt_eq (a b : Nat) : Model.Arith.lt a b = Spec.Arith.lt a b := rfl
theorem gt_eq (a b : Nat) : Model.Arith.gt a b = Spec.Arith.gt a b := rfl
theorem eq_eq (a b : Nat) : Model.Arith.eq a b = Spec.Arith.eq a b := rfl
theorem iszero_eq (a : Nat) : Model.Arith.iszero a = Spec.Arith.iszero a := rfl
theorem and_eq (a b : Nat) : Model.Arith.bitand a b = Spec.Arith.and a b := rfl
theorem or_eq (a b : Nat) : Model.Arith.bitor a b = Spec.Arith.or a b := rfl
theorem xor_eq (a b : Nat) : Model.Arith.bitxor a b = Spec.Arith.xor a b := rfl
theorem not_eq (a : Nat) : Model.Arith.bitnot a = Spec.Arith.not a := rfl

/-- the square-and-multiply loop computes `r * base^e` when the fuel covers the bits of `e` -/
theorem powLoop_eq (fuel : Nat) : ∀ (base e r : Nat), e < 2^fuel → r < W →
    powLoop fuel base e r = (r * base^e) % W := by
  induction fuel with
  | zero =>
    intro base e r he hr
    have : e = 0 := by simpa using he
    subst this; simp [powLoop, Nat.mod_eq_of_lt hr]
  | succ n ih =>
    intro base e r he hr
    unfold powLoop
    by_cases h0 : e = 0
    · subst h0; simp [Nat.mod_eq_of_lt hr]
    simp only [h0, if_false]
    have hWpos : 0 < W := by rw [W_val]; omega
    have he2 : e / 2 < 2^n := by
      have : 2^(n+1) = 2 * 2^n := by rw [Nat.pow_succ]; omega
      omega
    have hsq : ∀ k, (wmul base base)^k % W = (base^(2*k)) % W := by
      intro k; unfold wmul; rw [← Nat.pow_mod, Nat.pow_mul, Nat.pow_two]
    by_cases h1 : e % 2 = 1
    · simp only [h1, if_true]
      rw [ih _ _ _ he2 (show wmul r base < W from Nat.mod_lt _ hWpos)]
      have hE : base ^ e = base * base^(2*(e/2)) := by
        have : e = 2*(e/2) + 1 := by omega
        conv => lhs; rw [this]
        rw [Nat.pow_succ, Nat.mul_comm]
      rw [Nat.mul_mod, hsq]
      unfold wmul
      rw [Nat.mod_mod, ← Nat.mul_mod, hE, Nat.mul_assoc]
    · simp only [h1, if_false]
      rw [ih _ _ _ he2 hr]
      have hE : base ^ e = base^(2*(e/2)) := by
        have : e = 2*(e/2) := by omega
        conv => lhs; rw [this]
      rw [Nat.mul_mod, hsq, ← Nat.mul_mod, hE]

theorem exp_eq (a b : Nat) (hb : b < W) : Model.Arith.exp a b = Spec.Arith.exp a b := by
  have hW := W_val
  unfold Model.Arith.exp Spec.Arith.exp
  rw [powLoop_eq 256 a b _ hb (Nat.mod_lt _ (by omega))]
  have : 1 % W = 1 := Nat.mod_eq_of_lt (by omega)
  rw [this, Nat.one_mul]

/-! ### SMOD, SLT, SGT -/
/-- remainder of magnitudes: below 2^255, so `u256_remove_sign` is the identity on it -/
theorem mod_core (x y : Nat) (hy0 : 0 < y) (hy : y ≤ 2^255) :
    removeSign (x % y) = x % y ∧ ofInt (((x % y : Nat) : Int)) = x % y ∧
    ofInt (-(((x % y : Nat) : Int))) = wneg (x % y) := by
  have hW := W_val
  have hlt : x % y < 2^255 := Nat.lt_of_lt_of_le (Nat.mod_lt _ hy0) hy
  unfold removeSign
  generalize x % y = q at hlt ⊢
  refine ⟨Nat.mod_eq_of_lt hlt, ofInt_natCast _ (by omega), ?_⟩
  by_cases h0 : q = 0
  · rw [h0]; simp [ofInt, wneg]
  · rw [ofInt_neg_natCast _ (by omega) (by omega), wneg_of_pos _ (by omega) (by omega)]

theorem smod_eq (a b : Nat) (ha : a < W) (hb : b < W) : Model.Arith.smod a b = Spec.Arith.smod a b := by
  have hW := W_val
  unfold Model.Arith.smod i256Mod Spec.Arith.smod
  by_cases ha0 : a = 0
  · subst ha0
    by_cases hb0 : b = 0 <;> simp [signCompl_zero, hb0, toInt, ofInt]
  by_cases hb0 : b = 0
  · subst hb0
    by_cases han : a ≥ 2^255
    · rw [signCompl_neg a ha han]; simp [signCompl_zero]
    · rw [signCompl_pos a ha (by omega) ha0]; simp [signCompl_zero]
  by_cases hbn : b ≥ 2^255 <;> by_cases han : a ≥ 2^255
  · rw [signCompl_neg b hb hbn, signCompl_neg a ha han, toInt_neg a han ha, toInt_neg b hbn hb]
    simp only [hb0, if_false, reduceCtorEq, if_true]
    rw [Int.tmod_neg, Int.neg_tmod, ← Int.ofNat_tmod]
    obtain ⟨h1, _, h3⟩ := mod_core (W - a) (W - b) (by omega) (by omega)
    rw [h1, h3]
  · rw [signCompl_neg b hb hbn, signCompl_pos a ha (by omega) ha0, toInt_nonneg a (by omega), toInt_neg b hbn hb]
    simp only [hb0, if_false, reduceCtorEq, if_true]
    rw [Int.tmod_neg, ← Int.ofNat_tmod]
    obtain ⟨h1, h2, _⟩ := mod_core a (W - b) (by omega) (by omega)
    rw [h1, h2]
  · rw [signCompl_pos b hb (by omega) hb0, signCompl_neg a ha han, toInt_neg a han ha, toInt_nonneg b (by omega)]
    simp only [hb0, if_false, reduceCtorEq, if_true]
    rw [Int.neg_tmod, ← Int.ofNat_tmod]
    obtain ⟨h1, _, h3⟩ := mod_core (W - a) b (by omega) (by omega)
    rw [h1, h3]
  · rw [signCompl_pos b hb (by omega) hb0, signCompl_pos a ha (by omega) ha0, toInt_nonneg a (by omega), toInt_nonneg b (by omega)]
    simp only [hb0, if_false, reduceCtorEq, if_true]
    rw [← Int.ofNat_tmod]
    obtain ⟨h1, h2, _⟩ := mod_core a b (by omega) (by omega)
    rw [h1, h2]

theorem sign_neg (v : Nat) (hv : v < W) (h : v ≥ 2^255) : i256Sign v = .minus := by
  unfold i256Sign; rw [bit255 v hv]; simp [h]
theorem sign_zero : i256Sign 0 = .zero := by unfold i256Sign bit; simp
theorem sign_pos (v : Nat) (hv : v < W) (h : v < 2^255) (h0 : v ≠ 0) : i256Sign v = .plus := by
  have hn : ¬ (v ≥ 2^255) := by omega
  unfold i256Sign; rw [bit255 v hv]; simp [h0, hn]

theorem signInt (a : Nat) (ha : a < W) :
    (i256Sign a).toInt = if a ≥ 2^255 then -1 else if a = 0 then 0 else 1 := by
  unfold i256Sign; rw [bit255 a ha]
  by_cases h : a ≥ 2^255
  · simp [h, Sign.toInt]
  · by_cases h0 : a = 0 <;> simp [h, h0, Sign.toInt]

/-- `i256_cmp` is the three-way comparison of the two's-complement readings -/
theorem i256Cmp_eq (a b : Nat) (ha : a < W) (hb : b < W) :
    i256Cmp a b = if toInt a < toInt b then -1 else if toInt a > toInt b then 1 else 0 := by
  have hW := W_val
  unfold i256Cmp
  simp only [signInt a ha, signInt b hb]
  unfold toInt
  repeat' split
  all_goals (first | rfl | omega)

theorem slt_eq (a b : Nat) (ha : a < W) (hb : b < W) : Model.Arith.slt a b = Spec.Arith.slt a b := by
  unfold Model.Arith.slt Spec.Arith.slt
  rw [i256Cmp_eq a b ha hb]
  by_cases h1 : toInt a < toInt b
  · simp [h1, Model.Arith.b2w, Spec.Arith.b2w]
  · by_cases h2 : toInt a > toInt b <;> simp [h1, h2, Model.Arith.b2w, Spec.Arith.b2w]

theorem sgt_eq (a b : Nat) (ha : a < W) (hb : b < W) : Model.Arith.sgt a b = Spec.Arith.sgt a b := by
  unfold Model.Arith.sgt Spec.Arith.sgt
  rw [i256Cmp_eq a b ha hb]
  by_cases h1 : toInt a < toInt b
  · have : ¬ (toInt a > toInt b) := by omega
    simp [h1, this, Model.Arith.b2w, Spec.Arith.b2w]
  · by_cases h2 : toInt a > toInt b <;> simp [h1, h2, Model.Arith.b2w, Spec.Arith.b2w]

/-! ### BYTE, SHL, SHR -/
theorem asU64Sat_small (s : Nat) (h : s < 256) : asU64Sat s = s := by
  have := U64_val; unfold asU64Sat; simp; omega
theorem asU64Sat_big (s : Nat) (h : ¬ s < 256) : ¬ asU64Sat s < 256 := by
  have := U64_val; unfold asU64Sat; split <;> omega

theorem byte_eq (i x : Nat) : Model.Arith.byte i x = Spec.Arith.byte i x := by
  unfold Model.Arith.byte Spec.Arith.byte
  by_cases h : i < 32
  · rw [asU64Sat_small i (by omega)]; simp [h, Nat.shiftRight_eq_div_pow]
  · have : ¬ asU64Sat i < 32 := by
      have := U64_val; unfold asU64Sat; split <;> omega
    simp [h, this]

theorem pow_ge_W (s : Nat) (h : ¬ s < 256) : ∃ k, 2^s = W * k := by
  refine ⟨2^(s-256), ?_⟩
  have e : s = 256 + (s - 256) := by omega
  have : 2^s = 2^256 * 2^(s-256) := by rw [← Nat.pow_add, ← e]
  exact this

theorem shl_eq (s x : Nat) : Model.Arith.shl s x = Spec.Arith.shl s x := by
  unfold Model.Arith.shl Spec.Arith.shl
  by_cases h : s < 256
  · rw [asU64Sat_small s h]; simp [h, Nat.shiftLeft_eq]
  · obtain ⟨k, hk⟩ := pow_ge_W s h
    simp only [asU64Sat_big s h, if_false]
    rw [hk, ← Nat.mul_assoc, Nat.mul_comm x W, Nat.mul_assoc, Nat.mul_mod_right]

theorem shr_eq (s x : Nat) (hx : x < W) : Model.Arith.shr s x = Spec.Arith.shr s x := by
  unfold Model.Arith.shr Spec.Arith.shr
  by_cases h : s < 256
  · rw [asU64Sat_small s h]; simp [h, Nat.shiftRight_eq_div_pow]
  · obtain ⟨k, hk⟩ := pow_ge_W s h
    simp only [asU64Sat_big s h, if_false]
    have hk0 : 0 < k := by
      rcases Nat.eq_zero_or_pos k with h0 | h0
      · rw [h0, Nat.mul_zero] at hk; have := Nat.two_pow_pos s; omega
      · exact h0
    have : x < 2^s := by
      rw [hk]; exact Nat.lt_of_lt_of_le hx (Nat.le_mul_of_pos_right W hk0)
    exact (Nat.div_eq_of_lt this).symm

/-! ### SAR -/
theorem W_le_pow (s : Nat) (h : ¬ s < 256) : W ≤ 2^s := by
  obtain ⟨k, hk⟩ := pow_ge_W s h
  have hk0 : 0 < k := by
    rcases Nat.eq_zero_or_pos k with h0 | h0
    · rw [h0, Nat.mul_zero] at hk; have := Nat.two_pow_pos s; omega
    · exact h0
  rw [hk]; exact Nat.le_mul_of_pos_right W hk0

theorem W_split (s : Nat) (h : s < 256) : W = 2^(256-s) * 2^s := by
  have : 2^256 = 2^(256-s) * 2^s := by rw [← Nat.pow_add]; congr 1; omega
  exact this

/-- floor division of a negative reading, shift below 256 -/
theorem sar_neg_small (s x : Nat) (hs : s < 256) (hx : x < W) :
    (x >>> s) ||| (W - 2^(256 - s)) % W = ofInt (((x : Int) - (W : Int)) / ((2^s : Nat) : Int)) := by
  have hW := W_val
  have hsplit := W_split s hs
  have hm1 : 0 < 2^(256-s) := Nat.two_pow_pos _
  have hd : 0 < 2^s := Nat.two_pow_pos _
  have hq : x / 2^s < 2^(256-s) := by
    rw [Nat.div_lt_iff_lt_mul hd]; rw [← hsplit]; exact hx
  have hmW : 2^(256-s) ≤ W := by
    rw [hsplit]; exact Nat.le_mul_of_pos_right _ hd
  -- the Int side
  have hI : ((x : Int) - (W : Int)) / ((2^s : Nat) : Int)
      = -(((2^(256-s) - x / 2^s : Nat)) : Int) := by
    have e : ((x : Int) - (W : Int)) = (x : Int) + (-((2^(256-s) : Nat) : Int)) * ((2^s : Nat) : Int) := by
      rw [hsplit]; push_cast; rw [Int.neg_mul]; omega
    rw [e, Int.add_mul_ediv_right _ _ (by exact_mod_cast (Nat.ne_of_gt hd))]
    rw [← Int.natCast_ediv] -- (x:Int) / (2^s:Nat) = ((x / 2^s : Nat) : Int)
    rw [Int.ofNat_sub (Nat.le_of_lt hq)]; omega
  rw [hI, Nat.shiftRight_eq_div_pow]
  generalize x / 2^s = q at hq ⊢
  rw [ofInt_neg_natCast _ (by omega) (by omega)]
  by_cases hs0 : s = 0
  · subst hs0
    have : 2^(256-0) = W := rfl
    rw [this] at hq ⊢
    simp; omega
  · have hmlt : 2^(256-s) < W := by
      rw [hsplit]
      have : 2 ≤ 2^s := by
        have := Nat.pow_le_pow_right (n := 2) (by omega) (show 1 ≤ s by omega)
        simpa using this
      have := (Nat.mul_lt_mul_left (a := 2^(256-s)) (b := 1) (c := 2^s) hm1).2 (by omega)
      rw [Nat.mul_one] at this; exact this
    rw [Nat.mod_eq_of_lt (by omega)]
    have hfac : W - 2^(256-s) = 2^(256-s) * (2^s - 1) := by
      rw [Nat.mul_sub, Nat.mul_one, ← hsplit]
    rw [hfac, Nat.or_comm, ← Nat.two_pow_add_eq_or_of_lt hq, ← hfac]
    omega


/-- floor division of a negative reading by at least 2^256 is -1 -/
theorem sar_neg_big (s x : Nat) (hs : ¬ s < 256) (hx : x < W) (hn : x ≥ 2^255) :
    W - 1 = ofInt (((x : Int) - (W : Int)) / ((2^s : Nat) : Int)) := by
  have hW := W_val
  have hle := W_le_pow s hs
  have hI : ((x : Int) - (W : Int)) / ((2^s : Nat) : Int) = -1 := by
    generalize 2^s = d at hle
    have e : ((x : Int) - (W : Int)) = ((d - (W - x) : Nat) : Int) + (-1) * (d : Int) := by
      rw [Int.ofNat_sub (by omega), Int.ofNat_sub (by omega)]; omega
    rw [e, Int.add_mul_ediv_right _ _ (by omega), ← Int.natCast_ediv, Nat.div_eq_of_lt (by omega)]
    simp
  rw [hI]
  have := ofInt_neg_natCast 1 (by omega) (by omega)
  simpa using this.symm

theorem sar_eq (s x : Nat) (hx : x < W) : Model.Arith.sar s x = Spec.Arith.sar s x := by
  have hW := W_val
  unfold Model.Arith.sar Spec.Arith.sar arithShr
  rw [bit255 x hx]
  by_cases hn : x ≥ 2^255
  · rw [toInt_neg x hn hx, Int.ofNat_sub (Nat.le_of_lt hx), Int.neg_sub]
    by_cases hs : s < 256
    · rw [asU64Sat_small s hs]; simp only [hs, hn, if_true, decide_true]
      exact sar_neg_small s x hs hx
    · simp only [asU64Sat_big s hs, hn, if_false, if_true, decide_true]
      exact sar_neg_big s x hs hx hn
  · rw [toInt_nonneg x (by omega), ← Int.natCast_ediv]
    have hd : 0 < 2^s := Nat.two_pow_pos _
    have hlt : x / 2^s < W := Nat.lt_of_le_of_lt (Nat.div_le_self _ _) hx
    rw [ofInt_natCast _ hlt]
    by_cases hs : s < 256
    · rw [asU64Sat_small s hs]; simp [hs, hn, Nat.shiftRight_eq_div_pow]
    · simp only [asU64Sat_big s hs, hn, if_false, decide_false]
      have := W_le_pow s hs
      exact (Nat.div_eq_of_lt (by omega)).symm

/-! ### SIGNEXTEND -/
theorem W_split' (s : Nat) (h : s ≤ 256) : W = 2^s * 2^(256-s) := by
  have : 2^256 = 2^s * 2^(256-s) := by rw [← Nat.pow_add]; congr 1; omega
  exact this

/-- OR-ing the ones from bit `k` up to bit 255 onto a word -/
theorem or_high_ones (x k : Nat) (hx : x < W) (hk : k ≤ 256) :
    x ||| (W - 2^k) = (W - 2^k) + x % 2^k := by
  have hfac : W - 2^k = 2^k * (2^(256-k) - 1) := by
    rw [Nat.mul_sub, Nat.mul_one, ← W_split' k hk]
  have hr : x % 2^k < 2^k := Nat.mod_lt _ (Nat.two_pow_pos _)
  rw [hfac]
  apply Nat.eq_of_testBit_eq
  intro j
  rw [Nat.testBit_two_pow_mul_add _ hr, Nat.testBit_or, Nat.testBit_two_pow_mul,
    Nat.testBit_two_pow_sub_one, Nat.testBit_mod_two_pow]
  by_cases hj : j < k
  · have : ¬ j ≥ k := by omega
    simp [hj, this]
  · by_cases hj2 : j < 256
    · have h1 : j ≥ k := by omega
      have h2 : j - k < 256 - k := by omega
      simp [hj, h1, h2]
    · have hxj : x.testBit j = false := by
        apply Nat.testBit_lt_two_pow
        have : W ≤ 2^j := Nat.pow_le_pow_right (by omega) (by omega)
        omega
      have h2 : ¬ j - k < 256 - k := by omega
      simp [hj, hxj, h2]

theorem signextend_eq (k x : Nat) (hx : x < W) :
    Model.Arith.signextend k x = Spec.Arith.signextend k x := by
  have hW := W_val
  unfold Model.Arith.signextend Spec.Arith.signextend
  by_cases hk : k < 31
  · simp only [hk, if_true]
    have hn : 8 * (k + 1) = (8 * k + 7) + 1 := by omega
    rw [hn, Nat.add_sub_cancel]
    generalize hbi : 8 * k + 7 = bi
    have hbi' : bi ≤ 247 := by omega
    have hp : 2^bi < W := by
      have : 2^bi < 2^256 := Nat.pow_lt_pow_right (by omega) (by omega)
      exact this
    have hp0 : 0 < 2^bi := Nat.two_pow_pos _
    have hmask : wsub ((1 <<< bi) % W) 1 = 2^bi - 1 := by
      rw [Nat.shiftLeft_eq, Nat.one_mul, Nat.mod_eq_of_lt hp]
      unfold wsub
      rw [Nat.mod_eq_of_lt (by omega : 1 < W)]
      have : 2^bi + W - 1 = (2^bi - 1) + W := by omega
      rw [this, Nat.add_mod_right]; exact Nat.mod_eq_of_lt (by omega)
    rw [hmask]
    have hlo : x % 2^(bi+1) = x % 2^bi + 2^bi * (x / 2^bi % 2) := Nat.mod_pow_succ
    have hr : x % 2^bi < 2^bi := Nat.mod_lt _ hp0
    unfold bit
    rw [Nat.testBit_eq_decide_div_mod_eq]
    by_cases hb : x / 2^bi % 2 = 1
    · rw [hb, Nat.mul_one] at hlo
      have hge : x % 2^(bi+1) ≥ 2^bi := by omega
      simp only [hb, decide_true, if_true, hge]
      have hnot : U256.not (2^bi - 1) = W - 2^bi := by unfold U256.not; omega
      rw [hnot, or_high_ones x bi hx (by omega), hlo, Nat.pow_succ]
      generalize x % 2^bi = r at hr ⊢
      generalize 2^bi = p at *
      have : ((r + p : Nat) : Int) - ((p * 2 : Nat) : Int) = -((p - r : Nat) : Int) := by omega
      rw [this, ofInt_neg_natCast _ (by omega) (by omega)]
      omega
    · have hb0 : x / 2^bi % 2 = 0 := by omega
      rw [hb0, Nat.mul_zero, Nat.add_zero] at hlo
      have hge : ¬ x % 2^(bi+1) ≥ 2^bi := by omega
      simp only [hb, decide_false, if_false, hge, Bool.false_eq_true]
      rw [Nat.and_two_pow_sub_one_eq_mod, hlo, Nat.add_zero]
  · simp only [hk, if_false]

/-! ### EXP gas -/
/-- position of the top bit splits at any limb boundary below it -/
theorem log2_split (v k : Nat) (h : v / 2^k ≠ 0) : v.log2 = k + (v / 2^k).log2 := by
  have hv : v ≠ 0 := by
    intro h0; subst h0; simp at h
  have hd : 0 < 2^k := Nat.two_pow_pos _
  rw [Nat.log2_eq_iff hv]
  have h1 := Nat.log2_self_le h
  have h2 := Nat.lt_log2_self (n := v / 2^k)
  generalize (v / 2^k).log2 = e at h1 h2
  constructor
  · rw [Nat.pow_add]
    have := (Nat.le_div_iff_mul_le hd).1 h1
    rw [Nat.mul_comm]; exact this
  · have := (Nat.div_lt_iff_lt_mul hd).1 h2
    have e2 : 2^(k + e + 1) = 2^(e+1) * 2^k := by rw [← Nat.pow_add]; congr 1; omega
    rw [e2]; exact this

theorem log2floorFrom_eq (n : Nat) : ∀ v, v < 2^(64 * n) →
    log2floorFrom v n (64 * n) = if v = 0 then 0 else v.log2 := by
  induction n with
  | zero => intro v hv; have : v = 0 := by simpa using hv
            subst this; simp [log2floorFrom]
  | succ n ih =>
    intro v hv
    unfold log2floorFrom
    have hd : 0 < 2^(64*n) := Nat.two_pow_pos _
    have hq : v / 2^(64*n) < 2^64 := by
      rw [Nat.div_lt_iff_lt_mul hd, ← Nat.pow_add]
      have : 64 + 64 * n = 64 * (n+1) := by omega
      rw [this]; exact hv
    have hl : limb v n = v / 2^(64*n) := by unfold limb; exact Nat.mod_eq_of_lt hq
    rw [hl]
    by_cases h0 : v / 2^(64*n) = 0
    · have hv' : v < 2^(64*n) := by
        rcases Nat.lt_or_ge v (2^(64*n)) with h | h
        · exact h
        · have := (Nat.le_div_iff_mul_le hd).2 (by rw [Nat.one_mul]; exact h); omega
      simp only [h0, if_true]
      have : 64 * (n+1) - 64 = 64 * n := by omega
      rw [this]; exact ih v hv'
    · have hv0 : v ≠ 0 := by intro h; subst h; simp at h0
      simp only [h0, hv0, if_false]
      have hsp := log2_split v (64*n) h0
      have hlog : (v / 2^(64*n)).log2 < 64 := (Nat.log2_lt h0).2 hq
      unfold lz64
      simp only [h0, if_false]
      generalize (v / 2^(64*n)).log2 = e at *
      have : 64 * (n+1) - (63 - e) = 64 * n + e + 1 := by omega
      rw [this]
      have : ¬ (64 * n + e + 1 = 0) := by omega
      simp only [this, if_false]; omega

theorem log2floor_eq (v : Nat) (hv : v < W) : log2floor v = if v = 0 then 0 else v.log2 :=
  log2floorFrom_eq 4 v hv

theorem expCost_eq (sd : Bool) (p : Nat) (hp : p < W) :
    Model.Arith.expCost sd p = some (Spec.Arith.expCost sd p) := by
  have hW := W_val
  have hU := U64_val
  unfold Model.Arith.expCost Spec.Arith.expCost Spec.Arith.byteLen
  by_cases h0 : p = 0
  · simp [h0]
  · simp only [h0, if_false]
    rw [log2floor_eq p hp]; simp only [h0, if_false]
    have hlog : p.log2 < 256 := (Nat.log2_lt h0).2 hp
    generalize p.log2 = e at hlog
    unfold checkedMul checkedAdd
    cases sd
    · have h1 : 10 * (e / 8 + 1) < W := by omega
      have h2 : 10 + 10 * (e / 8 + 1) < W := by omega
      have h3 : 10 + 10 * (e / 8 + 1) < U64 := by omega
      simp [h1, h2, h3]
    · have h1 : 50 * (e / 8 + 1) < W := by omega
      have h2 : 10 + 50 * (e / 8 + 1) < W := by omega
      have h3 : 10 + 50 * (e / 8 + 1) < U64 := by omega
      simp [h1, h2, h3]

/-! ### results stay in range; NOT characterised -/
theorem W_pos : 0 < W := by rw [W_val]; omega
theorem ofInt_lt (i : Int) : ofInt i < W := by
  unfold ofInt
  have hpos : (0 : Int) < (W : Int) := by exact_mod_cast W_pos
  have h1 := Int.emod_nonneg i (Int.ne_of_gt hpos)
  have h2 := Int.emod_lt_of_pos i hpos
  omega
theorem b2w_lt (b : Bool) : Model.Arith.b2w b < W := by
  have hW := W_val; unfold Model.Arith.b2w; split <;> omega

theorem add_lt (a b : Nat) : Model.Arith.add a b < W := Nat.mod_lt _ W_pos
theorem mul_lt (a b : Nat) : Model.Arith.mul a b < W := Nat.mod_lt _ W_pos
theorem sub_lt (a b : Nat) : Model.Arith.sub a b < W := Nat.mod_lt _ W_pos
theorem div_lt_W (a b : Nat) (ha : a < W) : Model.Arith.div a b < W := by
  rw [div_eq]; unfold Spec.Arith.div; split
  · exact W_pos
  · exact Nat.lt_of_le_of_lt (Nat.div_le_self _ _) ha
theorem mod_lt_W (a b : Nat) (hb : b < W) : Model.Arith.rem a b < W := by
  rw [mod_eq]; unfold Spec.Arith.mod; split
  · exact W_pos
  · exact Nat.lt_trans (Nat.mod_lt _ (by omega)) hb
theorem sdiv_lt (a b : Nat) (ha : a < W) (hb : b < W) : Model.Arith.sdiv a b < W := by
  rw [sdiv_eq a b ha hb]; unfold Spec.Arith.sdiv; split
  · exact W_pos
  · exact ofInt_lt _
theorem smod_lt (a b : Nat) (ha : a < W) (hb : b < W) : Model.Arith.smod a b < W := by
  rw [smod_eq a b ha hb]; unfold Spec.Arith.smod; split
  · exact W_pos
  · exact ofInt_lt _
theorem addmod_lt (a b n : Nat) (hn : n < W) : Model.Arith.addmod a b n < W := by
  unfold Model.Arith.addmod; split
  · exact W_pos
  · exact Nat.lt_trans (Nat.mod_lt _ (by omega)) hn
theorem mulmod_lt (a b n : Nat) (hn : n < W) : Model.Arith.mulmod a b n < W := by
  unfold Model.Arith.mulmod; split
  · exact W_pos
  · exact Nat.lt_trans (Nat.mod_lt _ (by omega)) hn
theorem exp_lt (a b : Nat) (hb : b < W) : Model.Arith.exp a b < W := by
  rw [exp_eq a b hb]; exact Nat.mod_lt _ W_pos
theorem signextend_lt (k x : Nat) (hx : x < W) : Model.Arith.signextend k x < W := by
  rw [signextend_eq k x hx]; unfold Spec.Arith.signextend
  by_cases hk : k < 31
  · simp only [hk, if_true]
    split
    · exact ofInt_lt _
    · exact Nat.lt_of_le_of_lt (Nat.mod_le _ _) hx
  · simp only [hk, if_false]; exact hx
theorem lt_lt (a b : Nat) : Model.Arith.lt a b < W := b2w_lt _
theorem gt_lt (a b : Nat) : Model.Arith.gt a b < W := b2w_lt _
theorem slt_lt (a b : Nat) : Model.Arith.slt a b < W := b2w_lt _
theorem sgt_lt (a b : Nat) : Model.Arith.sgt a b < W := b2w_lt _
theorem eq_lt (a b : Nat) : Model.Arith.eq a b < W := b2w_lt _
theorem iszero_lt (a : Nat) : Model.Arith.iszero a < W := b2w_lt _
theorem and_lt (a b : Nat) (ha : a < W) : Model.Arith.bitand a b < W :=
  Nat.lt_of_le_of_lt Nat.and_le_left ha
theorem or_lt (a b : Nat) (ha : a < W) (hb : b < W) : Model.Arith.bitor a b < W :=
  Nat.or_lt_two_pow (n := 256) ha hb
theorem xor_lt (a b : Nat) (ha : a < W) (hb : b < W) : Model.Arith.bitxor a b < W :=
  Nat.xor_lt_two_pow (n := 256) ha hb
theorem not_lt (a : Nat) : Model.Arith.bitnot a < W := by
  have := W_pos; unfold Model.Arith.bitnot U256.not; omega
theorem byte_lt (i x : Nat) : Model.Arith.byte i x < W := by
  have hW := W_val
  unfold Model.Arith.byte; simp only []; split
  · exact Nat.lt_trans (Nat.mod_lt _ (by omega)) (by omega)
  · omega
theorem shl_lt (s x : Nat) : Model.Arith.shl s x < W := by
  rw [shl_eq]; exact Nat.mod_lt _ W_pos
theorem shr_lt (s x : Nat) (hx : x < W) : Model.Arith.shr s x < W := by
  rw [shr_eq s x hx]; exact Nat.lt_of_le_of_lt (Nat.div_le_self _ _) hx
theorem sar_lt (s x : Nat) (hx : x < W) : Model.Arith.sar s x < W := by
  rw [sar_eq s x hx]; exact ofInt_lt _

/-- NOT flips exactly the 256 bits of the word -/
theorem not_testBit (a : Nat) (ha : a < W) (i : Nat) :
    (Spec.Arith.not a).testBit i = (decide (i < 256) && !a.testBit i) := by
  unfold Spec.Arith.not
  have : W - 1 - a = 2^256 - (a + 1) := by unfold W; omega
  rw [this]; exact Nat.testBit_two_pow_sub_succ ha i

/-- NOT is `-a - 1` in two's complement -/
theorem not_int (a : Nat) (ha : a < W) : Spec.Arith.not a = ofInt (-(toInt a) - 1) := by
  have hW := W_val
  unfold Spec.Arith.not
  by_cases h : a ≥ 2^255
  · rw [toInt_neg a h ha]
    have : -(-((W - a : Nat) : Int)) - 1 = ((W - 1 - a : Nat) : Int) := by omega
    rw [this, ofInt_natCast _ (by omega)]
  · rw [toInt_nonneg a (by omega)]
    have : -(a : Int) - 1 = -((a + 1 : Nat) : Int) := by omega
    rw [this, ofInt_neg_natCast _ (by omega) (by omega)]; omega

end Revm.Proofs.Arith
