import Revm.Proofs.EvmLinkStrict6
import Revm.Proofs.EvmLinkLoop
import Revm.Proofs.EvmLinkGasInv3
import Revm.Proofs.EvmLinkDepth2
/-! LINK, panic-freedom: **a frame never ends with an internal result flag.** Every `InstructionResult` with which an
instruction or an outcome insertion stops a frame is one `SuccessOrHalt::from` classifies (`RGood`: not `Continue`,
`CallOrCreate`, `FatalExternalError`, `InvalidExtDelegateCallTarget`) — the host's answers being `Some` (they are: the
databases modelled are infallible). Hence `output` never meets its `panic!` arm. -/
set_option linter.unusedSimpArgs false
set_option linter.unusedVariables false
namespace Revm.Proofs.EvmLink
open Revm Revm.Model Revm.Model.Interp

/-- every halt of `m` carries a classifiable result -/
def HG {α} (m : M α) : Prop := ∀ s r o s', m s = .halt r o s' → RGood r

theorem hg_bind {α β} {m : M α} {f : α → M β} (h1 : HG m) (h2 : ∀ a, HG (f a)) : HG (m >>= f) := by
  intro s r o s' h
  change M.bind m f s = _ at h
  unfold M.bind at h
  cases hm : m s with
  | ok a s1 => rw [hm] at h; exact h2 a s1 r o s' h
  | halt r1 o1 s1 => rw [hm] at h; cases h; exact h1 s _ _ _ hm
  | fault f => rw [hm] at h; cases h
theorem hg_modifyS (f : IState → IState) : HG (modifyS f) := fun s r o s' h => nomatch h
theorem hg_getS : HG getS := fun s r o s' h => nomatch h
theorem hg_faultWith {α} (f : Fault) : HG (faultWith f : M α) := fun s r o s' h => nomatch h
theorem hg_push (v : Nat) : HG (push v) := by
  intro s r o s' h
  unfold push at h
  split at h
  · cases h
  · rename_i e _; cases h; cases e <;> decide
  · cases h
theorem hg_liftMemWrite (f : Memory.SharedMemory → Memory.Res Memory.SharedMemory) : HG (liftMemWrite f) := by
  intro s r o s' h
  unfold liftMemWrite memRes at h
  split at h <;> cases h

syntax "hg_auto" : tactic
macro_rules | `(tactic| hg_auto) => `(tactic| repeat (first
  | exact hg_modifyS _ | exact hg_getS | exact hg_faultWith _ | exact hg_push _ | exact hg_liftMemWrite _
  | (refine hg_bind ?_ (fun _ => ?_))
  | split
  | dsimp only))

theorem hg_insertCall (rs re : Nat) (o : ChildResult) : HG (insertCallOutcome rs re o) := by
  unfold insertCallOutcome; hg_auto
theorem hg_insertCreate (o : ChildResult) : HG (insertCreateOutcome o) := by
  unfold insertCreateOutcome; hg_auto

end Revm.Proofs.EvmLink

namespace Revm.Proofs.EvmLink
open Revm Revm.Model Revm.Model.Evm

theorem hg_insertBy (kind : FrameKind) (o : Interp.ChildResult) : HG (insertBy kind o) := by
  unfold insertBy
  cases kind with
  | call rs re => exact hg_insertCall rs re o
  | create a => exact hg_insertCreate o

/-- the `Host` answers of EvmHost are `Some` (`ok = true`): the databases modelled are infallible -/
theorem answer_ok {he : HostEnv} {w w1 : World} {op : Interp.HostOp} {resp : Interp.HostResp}
    (h : answer he w op = .ok (resp, w1)) : resp.ok = true := by
  cases op <;> simp only [answer] at h
  case keccak d => cases h; rfl
  case blockHash n => cases h; rfl
  case tload a k => cases h; rfl
  case create2Address d sl c => cases h; rfl
  case log a t d => cases h; rfl
  case balance a =>
    obtain ⟨⟨w2, c⟩, _, h⟩ := bind_ok h
    obtain ⟨acc, _, h⟩ := bind_ok h
    cases h; rfl
  case code a =>
    obtain ⟨⟨w2, c⟩, _, h⟩ := bind_ok h
    obtain ⟨acc, _, h⟩ := bind_ok h
    obtain ⟨hh, _, h⟩ := bind_ok h
    obtain ⟨bytes, _, h⟩ := bind_ok h
    cases h; rfl
  case codeHash a =>
    obtain ⟨⟨w2, c⟩, _, h⟩ := bind_ok h
    obtain ⟨acc, _, h⟩ := bind_ok h
    split at h <;> (cases h; rfl)
  case sload a k =>
    obtain ⟨⟨js, v, c⟩, _, h⟩ := bind_ok h
    cases h; rfl
  case sstore a k v =>
    obtain ⟨⟨js, o, p, n, c⟩, _, h⟩ := bind_ok h
    cases h; rfl
  case tstore a k v =>
    obtain ⟨js, _, h⟩ := bind_ok h
    cases h; rfl
  case selfdestruct a t =>
    obtain ⟨⟨js, hv, te, pd, c⟩, _, h⟩ := bind_ok h
    cases h; rfl
  case loadAccountDelegated a =>
    obtain ⟨⟨w2, x⟩, _, h⟩ := bind_ok h
    cases h; rfl

theorem createReturn_rgood {κ : Type} {C : CpOps κ} {cfg : Cfg} {w w' : World} {cp : κ} {a : Nat}
    {r r' : Interp.ChildResult} (hr : RGood r.result) (h : createReturn C cfg w cp a r = .ok (r', w')) :
    RGood r'.result := by
  have tail : ∀ (c : Prop) [Decidable c] (x y : Interp.ChildResult) (hash : Nat) (out : List Nat),
      RGood x.result → RGood y.result →
      (if c then (do
          let w ← C.revert w cp
          Except.ok (x, w) : R (Interp.ChildResult × World))
        else do
          let w2 ← C.setCode (C.commit w) a hash
          Except.ok (y, w2.addCode hash out)) = .ok (r', w') →
      RGood r'.result := by
    intro c _ x y hash out hx hy h
    split at h
    · obtain ⟨w1, _, h⟩ := bind_ok h
      simp only [Except.ok.injEq, Prod.mk.injEq] at h
      rw [← h.1]; exact hx
    · obtain ⟨w2, _, h⟩ := bind_ok h
      simp only [Except.ok.injEq, Prod.mk.injEq] at h
      rw [← h.1]; exact hy
  unfold createReturn at h
  simp only [pure, Except.pure] at h
  split at h
  · obtain ⟨w1, _, h⟩ := bind_ok h
    simp only [Except.ok.injEq, Prod.mk.injEq] at h
    rw [← h.1]; exact hr
  · split at h
    · obtain ⟨w1, _, h⟩ := bind_ok h
      simp only [Except.ok.injEq, Prod.mk.injEq] at h
      rw [← h.1]; exact (by decide : RGood Interp.IResult.CreateContractStartingWithEF)
    · split at h
      · obtain ⟨w1, _, h⟩ := bind_ok h
        simp only [Except.ok.injEq, Prod.mk.injEq] at h
        rw [← h.1]; exact (by decide : RGood Interp.IResult.CreateContractSizeLimit)
      · by_cases hg : U64ops.wmul r.output.length CODEDEPOSIT ≤ r.gasRemaining
        · simp only [hg, if_true] at h
          exact tail _ _ _ _ _ (by decide : RGood Interp.IResult.OutOfGas) (by decide : RGood Interp.IResult.Return) h
        · simp only [hg, if_false, if_true] at h
          exact tail _ _ _ _ _ (by decide : RGood Interp.IResult.OutOfGas) (by decide : RGood Interp.IResult.Return) h

theorem frameReturn_rgood {cfg : Cfg} {top : JFrame} {w w' : World} {res res' : Interp.ChildResult}
    (hr : RGood res.result) (h : frameReturn journalOps cfg top w res = .ok (res', w')) : RGood res'.result := by
  unfold frameReturn at h
  split at h
  · rw [callReturn_res h]; exact hr
  · exact createReturn_rgood hr h

/-! ## immediate results of `make_call_frame` / `make_create_frame` -/

theorem callValueStep_rgood {w w1 : World} {i : Interp.CallInputs} {f} (h : callValueStep w i = .ok (w1, f)) :
    ∀ r, f = some r → RGood r := by
  unfold callValueStep at h
  split at h
  · split at h
    · obtain ⟨⟨w2, c⟩, _, h⟩ := bind_ok h
      obtain ⟨w3, _, h⟩ := bind_ok h
      simp only [pure, Except.pure, Except.ok.injEq, Prod.mk.injEq] at h
      rw [← h.2]; exact fun r hr => nomatch hr
    · obtain ⟨⟨w2, e⟩, _, h⟩ := bind_ok h
      simp only at h
      split at h <;> simp only [pure, Except.pure, Except.ok.injEq, Prod.mk.injEq] at h <;> rw [← h.2] <;>
        intro r hr <;> first | (cases hr; decide) | cases hr
  · simp only [pure, Except.pure, Except.ok.injEq, Prod.mk.injEq] at h
    rw [← h.2]; exact fun r hr => nomatch hr

section
variable {κ : Type}

theorem callTail_rgood {C : CpOps κ} {cfg : Cfg} {w w' : World} {cp : κ} {i : Interp.CallInputs}
    {mem : Memory.SharedMemory} {o : Interp.ChildResult} (h : callTail C cfg w cp i mem = .ok (.result o, w')) :
    RGood o.result := by
  unfold callTail at h
  obtain ⟨⟨w1, c⟩, _, h⟩ := bind_ok h
  obtain ⟨acc, _, h⟩ := bind_ok h
  obtain ⟨hh, _, h⟩ := bind_ok h
  obtain ⟨bytecode, _, h⟩ := bind_ok h
  split at h
  · simp only [pure, Except.pure, Except.ok.injEq, Prod.mk.injEq, FrameOrResult.result.injEq] at h
    rw [← h.1]; exact (by decide : RGood Interp.IResult.Stop)
  · obtain ⟨⟨w2, code2⟩, _, h⟩ := bind_ok h
    simp only [pure, Except.pure, Except.ok.injEq, Prod.mk.injEq] at h
    cases h.1

theorem makeCallFrame_rgood {C : CpOps κ} {cfg : Cfg} {w w' : World} {i : Interp.CallInputs}
    {mem : Memory.SharedMemory} {o : Interp.ChildResult} (h : makeCallFrame C cfg w i mem = .ok (.result o, w')) :
    RGood o.result := by
  have early : ∀ x : Interp.IResult, RGood x → FrameOrResult.result (κ := κ) (earlyResult x i.gasLimit) = .result o →
      RGood o.result := fun x hx hr => by cases hr; exact hx
  rw [makeCallFrame_staged] at h
  unfold makeCallFrameS at h
  split at h
  · simp only [pure, Except.pure, Except.ok.injEq, Prod.mk.injEq] at h
    exact early _ (by decide) h.1
  · obtain ⟨⟨w1, x⟩, _, h⟩ := bind_ok h
    simp only at h
    obtain ⟨⟨w2, failed⟩, hv, h⟩ := bind_ok h
    cases failed with
    | some r0 =>
      simp only at h
      obtain ⟨w3, _, h⟩ := bind_ok h
      simp only [pure, Except.pure, Except.ok.injEq, Prod.mk.injEq] at h
      exact early _ (callValueStep_rgood hv r0 rfl) h.1
    | none =>
      simp only at h
      unfold callPrecompile at h
      obtain ⟨pc, _, h⟩ := bind_ok h
      cases pc with
      | none => exact callTail_rgood h
      | some res =>
        simp only at h
        cases res with
        | ok gasUsed out =>
          simp only at h
          split at h
          · simp only [pure, Except.pure, Except.ok.injEq, Prod.mk.injEq, FrameOrResult.result.injEq] at h
            rw [← h.1]; exact (by decide : RGood Interp.IResult.Return)
          · obtain ⟨w3, _, h⟩ := bind_ok h
            simp only [pure, Except.pure, Except.ok.injEq, Prod.mk.injEq] at h
            exact early _ (by decide) h.1
        | err e =>
          simp only at h
          obtain ⟨w3, _, h⟩ := bind_ok h
          simp only [pure, Except.pure, Except.ok.injEq, Prod.mk.injEq] at h
          exact early _ (by split <;> decide) h.1
        | panic =>
          simp only at h
          obtain ⟨x, hx, _⟩ := bind_ok h
          cases hx

theorem createTail_rgood {C : CpOps κ} {cfg : Cfg} {w w' : World} {i : Interp.CreateInputs}
    {mem : Memory.SharedMemory} {created : Nat} {o : Interp.ChildResult}
    (h : createTail C cfg w i mem created = .ok (.result o, w')) : RGood o.result := by
  have early : ∀ x : Interp.IResult, RGood x → FrameOrResult.result (κ := κ) (earlyResult x i.gasLimit) = .result o →
      RGood o.result := fun x hx hr => by cases hr; exact hx
  unfold createTail at h
  simp only [pure, Except.pure] at h
  split at h
  · simp only [Except.ok.injEq, Prod.mk.injEq] at h
    exact early _ (by decide) h.1
  · obtain ⟨⟨w3, c3⟩, _, h⟩ := bind_ok h
    obtain ⟨⟨w4, r4⟩, _, h⟩ := bind_ok h
    simp only at h
    split at h
    · simp only [Except.ok.injEq, Prod.mk.injEq] at h
      exact early _ (by decide) h.1
    · simp only [Except.ok.injEq, Prod.mk.injEq] at h
      exact early _ (by decide) h.1
    · simp only [Except.ok.injEq, Prod.mk.injEq] at h
      cases h.1

theorem makeCreateFrame_rgood {C : CpOps κ} {cfg : Cfg} {w w' : World} {i : Interp.CreateInputs}
    {mem : Memory.SharedMemory} {o : Interp.ChildResult}
    (h : makeCreateFrame C cfg w i mem = .ok (.result o, w')) : RGood o.result := by
  have early : ∀ x : Interp.IResult, RGood x → FrameOrResult.result (κ := κ) (earlyResult x i.gasLimit) = .result o →
      RGood o.result := fun x hx hr => by cases hr; exact hx
  rw [makeCreateFrame_staged] at h
  unfold makeCreateFrameS at h
  simp only [pure, Except.pure] at h
  split at h
  · simp only [Except.ok.injEq, Prod.mk.injEq] at h
    exact early _ (by decide) h.1
  · obtain ⟨⟨w1, c⟩, _, h⟩ := bind_ok h
    obtain ⟨cacc, _, h⟩ := bind_ok h
    simp only at h
    split at h
    · simp only [Except.ok.injEq, Prod.mk.injEq] at h
      exact early _ (by decide) h.1
    · obtain ⟨⟨js, nn⟩, _, h⟩ := bind_ok h
      simp only at h
      cases nn with
      | none =>
        simp only [Except.ok.injEq, Prod.mk.injEq] at h
        exact early _ (by decide) h.1
      | some newNonce =>
        simp only at h
        exact createTail_rgood h

end

end Revm.Proofs.EvmLink
