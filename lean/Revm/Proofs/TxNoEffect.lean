import Revm.Model.TxValidate
/-! C02, second sentence: a rejected transaction changes nothing. Theorems about the model of
`Evm::transact`'s context (`Model.TxValidate.transact`), for ALL context states, all databases and
every accepted-path function `exec` (core Lean only). -/
set_option linter.unusedSimpArgs false
set_option linter.unusedVariables false
namespace Revm.Proofs.TxNoEffect
open Revm Revm.Model.TxValidate
open Revm.Model.GasCalc (canon)

variable {D O : Type}

/-- the context `Evm::transact` leaves behind and expects: empty journal of its spec, error slot `Ok` -/
def Clean (c : Ctx D) : Prop := c.journal = Journal.new c.journal.spec ∧ c.error = none

/-- reads do not change the database value (a `DatabaseRef`-backed database; for a caching database
such as `CacheDB` a read fills the cache — observationally the same database, see C20) -/
def ReadOnly (ops : DbOps D) : Prop := ∀ d a, (ops.basic d a).1 = d

theorem clear_clean (c : Ctx D) : Clean (clear c) := ⟨rfl, rfl⟩

theorem clear_of_clean (c : Ctx D) (h : Clean c) : clear c = c := by
  obtain ⟨db, j, e⟩ := c
  obtain ⟨h1, h2⟩ := h
  simp only at h1 h2
  subst h2
  unfold clear Journal.clear
  simp only
  rw [← h1]

/-- the database after `load_code`: untouched, or after the one `basic` read of the caller -/
theorem loadCode_db (ops : DbOps D) (c : Ctx D) (a : Nat) :
    (loadCode ops c a).2.db = c.db ∨ (loadCode ops c a).2.db = (ops.basic c.db a).1 := by
  unfold loadCode
  split
  · exact Or.inl rfl
  · exact Or.inr rfl

theorem loadCode_spec (ops : DbOps D) (c : Ctx D) (a : Nat) :
    (loadCode ops c a).2.journal.spec = c.journal.spec := by
  unfold loadCode
  split <;> rfl

theorem preverify_db (ops : DbOps D) (c : Ctx D) (env : Env) :
    (preverify ops c env).2.db = c.db ∨ (preverify ops c env).2.db = (ops.basic c.db env.caller).1 := by
  unfold preverify
  simp only []
  split
  · split
    · exact loadCode_db ops c env.caller
    · exact Or.inl rfl
  · exact Or.inl rfl

theorem preverify_spec (ops : DbOps D) (c : Ctx D) (env : Env) :
    (preverify ops c env).2.journal.spec = c.journal.spec := by
  unfold preverify
  simp only []
  split
  · split
    · exact loadCode_spec ops c env.caller
    · rfl
  · rfl

/-- on a clean context `preverify` is the pure validation function applied to the sender as the
database reports it -/
theorem preverify_eq_validate (ops : DbOps D) (c : Ctx D) (env : Env) (h : c.journal.loaded = []) :
    (preverify ops c env).1 =
      validate c.journal.spec env.cfg env.blk env.tx ((ops.basic c.db env.caller).2.getD {}) := by
  unfold preverify validate validateCanon
  simp only []
  cases h1 : validateEnv (canon c.journal.spec) env.cfg env.blk env.tx with
  | ok =>
    simp only [Res.andThen]
    cases h2 : validateInitialTxGas (canon c.journal.spec) env.tx with
    | ok =>
      simp only []
      unfold loadCode
      rw [h]
      rfl
    | err e => rfl
    | panic => rfl
  | err e => rfl
  | panic => rfl

/-- **a rejected transaction changes nothing** — for every context state (dirty journal, pending
error), every database and every accepted-path function: no output; the journal is the empty
journal of the same spec; the error slot is `Ok`; the database is the old one up to (at most) the one
`basic` read of the caller -/
theorem rejected_no_effect (ops : DbOps D) (exec : Ctx D → Env → O × Ctx D) (c : Ctx D) (env : Env)
    (e : Err) (o : Option O) (c' : Ctx D)
    (h : transact ops exec c env = ((.err e, o), c')) :
    o = none ∧ c'.journal = Journal.new c.journal.spec ∧ c'.error = none ∧
      (c'.db = c.db ∨ c'.db = (ops.basic c.db env.caller).1) := by
  unfold transact at h
  have hdb := preverify_db ops c env
  have hsp := preverify_spec ops c env
  generalize preverify ops c env = r at *
  obtain ⟨res, c1⟩ := r
  cases res with
  | ok => simp only [Prod.mk.injEq, reduceCtorEq, false_and] at h
  | panic => simp only [Prod.mk.injEq, reduceCtorEq, false_and] at h
  | err e1 =>
    simp only [Prod.mk.injEq] at h
    obtain ⟨⟨_, ho⟩, hc⟩ := h
    subst hc
    refine ⟨ho.symm, ?_, rfl, hdb⟩
    show Journal.new c1.journal.spec = _
    rw [hsp]

/-- with a database whose reads are pure, the database is *equal* afterwards -/
theorem rejected_db_equal (ops : DbOps D) (hro : ReadOnly ops) (exec : Ctx D → Env → O × Ctx D)
    (c : Ctx D) (env : Env) (e : Err) (o : Option O) (c' : Ctx D)
    (h : transact ops exec c env = ((.err e, o), c')) : c'.db = c.db := by
  have := (rejected_no_effect ops exec c env e o c' h).2.2.2
  rcases this with h | h
  · exact h
  · rw [h, hro]

/-- … and on a clean context the whole context is *equal* afterwards: as if the transaction had
never been submitted -/
theorem rejected_ctx_equal (ops : DbOps D) (hro : ReadOnly ops) (exec : Ctx D → Env → O × Ctx D)
    (c : Ctx D) (hc : Clean c) (env : Env) (e : Err) (o : Option O) (c' : Ctx D)
    (h : transact ops exec c env = ((.err e, o), c')) : c' = c := by
  have h1 := rejected_no_effect ops exec c env e o c' h
  have h2 := rejected_db_equal ops hro exec c env e o c' h
  obtain ⟨db, j, er⟩ := c
  obtain ⟨db', j', er'⟩ := c'
  obtain ⟨hj, he⟩ := hc
  simp only at h1 h2 hj he ⊢
  obtain ⟨_, h1j, h1e, _⟩ := h1
  subst h2 h1e he
  rw [h1j, ← hj]

/-- every transaction that does not panic leaves a clean context -/
theorem transact_clean (ops : DbOps D) (exec : Ctx D → Env → O × Ctx D) (c : Ctx D) (env : Env)
    (h : (transact ops exec c env).1.1 ≠ .panic) : Clean (transact ops exec c env).2 := by
  unfold transact at h ⊢
  generalize preverify ops c env = r at *
  obtain ⟨res, c1⟩ := r
  cases res with
  | ok => exact clear_clean _
  | err e => exact clear_clean _
  | panic => exact absurd rfl h

/-- later results are a function of the database and the environment only: two contexts with the
same database and spec — whatever their journals and error slots held before `clear` — give the same
result and the same next context -/
theorem result_function_of_db_env (ops : DbOps D) (exec : Ctx D → Env → O × Ctx D) (c1 c2 : Ctx D)
    (hdb : c1.db = c2.db) (hsp : c1.journal.spec = c2.journal.spec) (env : Env) :
    transact ops exec (clear c1) env = transact ops exec (clear c2) env := by
  have : clear c1 = clear c2 := by
    obtain ⟨d1, j1, e1⟩ := c1
    obtain ⟨d2, j2, e2⟩ := c2
    simp only at hdb hsp
    unfold clear Journal.clear
    simp only [hdb, hsp]
  rw [this]

/-! ### histories -/

/-- run a list of transactions on one context (a panic unwinds: the history ends there) -/
def runHistory (ops : DbOps D) (exec : Ctx D → Env → O × Ctx D) :
    Ctx D → List Env → List (Res × Option O) × Ctx D
  | c, [] => ([], c)
  | c, env :: rest =>
    let r := transact ops exec c env
    match r.1.1 with
    | .panic => ([r.1], r.2)
    | _ =>
      let rs := runHistory ops exec r.2 rest
      (r.1 :: rs.1, rs.2)

def isRejected : Res × Option O → Bool
  | (.err _, _) => true
  | _ => false

/-- the transactions of a history that were NOT rejected when it ran (the twin's input) -/
def notRejected (ops : DbOps D) (exec : Ctx D → Env → O × Ctx D) : Ctx D → List Env → List Env
  | _, [] => []
  | c, env :: rest =>
    let r := transact ops exec c env
    match r.1.1 with
    | .panic => [env]
    | .err _ => notRejected ops exec r.2 rest
    | .ok => env :: notRejected ops exec r.2 rest

/-- **a history with rejected transactions interleaved ≡ the same history without them**: the twin
that never saw the rejected transactions produces exactly the results of the accepted ones and ends
in the same context (database included) -/
theorem history_skip_rejected (ops : DbOps D) (hro : ReadOnly ops) (exec : Ctx D → Env → O × Ctx D)
    (envs : List Env) : ∀ (c : Ctx D), Clean c →
    runHistory ops exec c (notRejected ops exec c envs)
      = (((runHistory ops exec c envs).1.filter (fun r => !isRejected r)), (runHistory ops exec c envs).2) := by
  induction envs with
  | nil => intro c _; rfl
  | cons env rest ih =>
    intro c hc
    unfold notRejected
    simp only []
    cases hres : (transact ops exec c env).1.1 with
    | panic =>
      simp only []
      unfold runHistory
      simp only [hres]
      have : isRejected (transact ops exec c env).1 = false := by
        generalize (transact ops exec c env).1 = x at *
        obtain ⟨a, b⟩ := x
        simp only at hres
        subst hres
        rfl
      simp [List.filter, this]
    | err e =>
      simp only []
      have hrej : isRejected (transact ops exec c env).1 = true := by
        generalize (transact ops exec c env).1 = x at *
        obtain ⟨a, b⟩ := x
        simp only at hres
        subst hres
        rfl
      have heq : (transact ops exec c env).2 = c := by
        apply rejected_ctx_equal ops hro exec c hc env e (transact ops exec c env).1.2
        generalize transact ops exec c env = x at *
        obtain ⟨⟨a, b⟩, d⟩ := x
        simp only at hres
        subst hres
        rfl
      conv => rhs; unfold runHistory
      simp only [hres]
      rw [heq, ih c hc]
      simp [List.filter, hrej]
    | ok =>
      simp only []
      have hrej : isRejected (transact ops exec c env).1 = false := by
        generalize (transact ops exec c env).1 = x at *
        obtain ⟨a, b⟩ := x
        simp only at hres
        subst hres
        rfl
      have hclean : Clean (transact ops exec c env).2 :=
        transact_clean ops exec c env (by rw [hres]; exact fun h => nomatch h)
      conv => lhs; unfold runHistory
      conv => rhs; unfold runHistory
      simp only [hres]
      rw [ih _ hclean]
      simp [List.filter, hrej]

end Revm.Proofs.TxNoEffect
