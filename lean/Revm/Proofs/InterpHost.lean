import Revm.Proofs.InterpCtl
/-! Proofs for C25, part 5: the instructions that ask the host (for every answer), KECCAK256 (for every hash),
and CALL / CALLCODE / DELEGATECALL / STATICCALL / CREATE / CREATE2. -/
set_option linter.unusedSimpArgs false
set_option linter.unusedVariables false
namespace Revm.Proofs.Interp
open Revm Revm.Model Revm.Model.Interp
open Revm.Proofs.Memory (WF)

section host
variable {s0 : IState}

variable {N : IState → Prop} {A : Action → IState → Prop}

theorem hostCall_good {β} (hN : ∀ s', Done1 s0 s' → N s') (pre : M (HostOp × β)) (post : β → HostResp → M Unit)
    (P : β → IState → Prop)
    (hpre : Exec.Sat (pre s0) (Halt s0) (fun p s' => P p.2 s'))
    (hpost : ∀ b s' r, P b s' → RespOk r →
      Exec.Sat (post b r s') (Halt s0) (fun _ s'' => Done1 s0 s'')) :
    GoodP (Halt s0) N A (hostCall pre post s0) := by
  unfold hostCall
  cases hp : pre s0 with
  | ok p s' =>
    obtain ⟨op, b⟩ := p
    rw [hp] at hpre
    have hb := sat_ok_inv hpre
    exact .host (fun r hr => toDoneP hN (hpost b s' r hb hr))
  | halt r o s' => rw [hp] at hpre; exact .pure (.halt (sat_halt_inv hpre))
  | fault f => rw [hp] at hpre; exact (sat_fault_inv hpre).elim

theorem hostCallAction_good {β} {QA : Action → IState → Prop} (hA : ∀ a s', QA a s' → A a s')
    (pre : M (HostOp × β))
    (post : β → HostResp → M Action) (P : β → IState → Prop)
    (hpre : Exec.Sat (pre s0) (Halt s0) (fun p s' => P p.2 s'))
    (hpost : ∀ b s' r, P b s' → RespOk r →
      Exec.Sat (post b r s') (Halt s0) (fun a s'' => QA a s'')) :
    GoodP (Halt s0) N A (hostCallAction pre post s0) := by
  unfold hostCallAction
  cases hp : pre s0 with
  | ok p s' =>
    obtain ⟨op, b⟩ := p
    rw [hp] at hpre
    have hb := sat_ok_inv hpre
    exact .host (fun r hr => toDoneActionQ hA (hpost b s' r hb hr))
  | halt r o s' => rw [hp] at hpre; exact .pure (.halt (sat_halt_inv hpre))
  | fault f => rw [hp] at hpre; exact (sat_fault_inv hpre).elim

theorem hostCallOptAction_good {β} (hN : ∀ s', Done1 s0 s' → N s') (hA : ∀ a s', ActRel s0 a s' → A a s')
    (pre : M (HostOp × β)) (post : β → HostResp → M (Option Action)) (P : β → IState → Prop)
    (hpre : Exec.Sat (pre s0) (Halt s0) (fun p s' => P p.2 s'))
    (hpost : ∀ b s' r, P b s' → RespOk r →
      Exec.Sat (post b r s') (Halt s0) (fun oa s'' => match oa with
        | some a => ActRel s0 a s''
        | none => Done1 s0 s'')) :
    GoodP (Halt s0) N A (hostCallOptAction pre post s0) := by
  unfold hostCallOptAction
  cases hp : pre s0 with
  | ok p s' =>
    obtain ⟨op, b⟩ := p
    rw [hp] at hpre
    have hb := sat_ok_inv hpre
    exact .host (fun r hr => toDoneOptActionP hN hA (hpost b s' r hb hr))
  | halt r o s' => rw [hp] at hpre; exact .pure (.halt (sat_halt_inv hpre))
  | fault f => rw [hp] at hpre; exact (sat_fault_inv hpre).elim

/-- `gas!(c); push!(v)` after the host answered -/
theorem chargePush_sat {k : Nat} {st ne : Bool} {L : Nat} {s : IState} (h : Rel k st ne L s0 s)
    (c v : Nat) (hc : 1 ≤ c) :
    Exec.Sat ((do gasCharge c; push v : M Unit) s) (Halt s0) (fun _ s' => Done1 s0 s') := by
  refine sat_bind (gasCharge_sat h c) ?_
  intro _ s1 h1
  have h1' := h1.mkStrict (by omega)
  exact sat_mono (push_sat h1' v) (fun _ _ h2 => done1_of h2 (by omega))

theorem balanceI_good (hb : Base s0) (hN : ∀ s', Done1 s0 s' → N s') :
    GoodP (Halt s0) N A (balanceI s0) := by
  unfold balanceI
  refine hostCall_good hN _ _ (fun _ s' => Rel 0 true false 0 s0 s') ?_ ?_
  · refine sat_bind (popAddress_sat hb.rel) ?_
    intro a s1 h1
    exact sat_pure h1
  · intro _ s1 r h1 _
    refine sat_bind (requireSome_sat h1 r) ?_
    rintro _ _ ⟨rfl, _⟩
    refine sat_bind (getS_sat h1) ?_
    rintro _ _ ⟨rfl, rfl⟩
    exact chargePush_sat h1 _ _ (by have := balanceGas_ge s1.spec r.isCold; omega)

theorem selfbalanceI_good (hb : Base s0) (hN : ∀ s', Done1 s0 s' → N s') :
    GoodP (Halt s0) N A (selfbalanceI s0) := by
  unfold selfbalanceI
  refine hostCall_good hN _ _ (fun _ s' => Rel (0 + GasCalc.LOW) true false 0 s0 s') ?_ ?_
  · refine sat_bind (check_sat hb.rel _) ?_
    rintro _ _ rfl
    refine sat_bind (gasCharge_sat hb.rel _) ?_
    intro _ s1 h1
    refine sat_bind (getS_sat h1) ?_
    rintro _ _ ⟨rfl, rfl⟩
    exact sat_pure (h1.mkStrict (by decide))
  · intro _ s1 r h1 _
    refine sat_bind (requireSome_sat h1 r) ?_
    rintro _ _ ⟨rfl, _⟩
    exact sat_mono (push_sat h1 _) (fun _ _ h2 => done1_of h2 (by decide))

theorem extcodesizeI_good (hb : Base s0) (hN : ∀ s', Done1 s0 s' → N s') :
    GoodP (Halt s0) N A (extcodesizeI s0) := by
  unfold extcodesizeI
  refine hostCall_good hN _ _ (fun _ s' => Rel 0 true false 0 s0 s') ?_ ?_
  · refine sat_bind (popAddress_sat hb.rel) ?_
    intro a s1 h1
    exact sat_pure h1
  · intro _ s1 r h1 _
    refine sat_bind (requireSome_sat h1 r) ?_
    rintro _ _ ⟨rfl, _⟩
    refine sat_bind (getS_sat h1) ?_
    rintro _ _ ⟨rfl, rfl⟩
    exact chargePush_sat h1 _ _ (by have := extcodesizeGas_ge s1.spec r.isCold; omega)

theorem extcodehashI_good (hb : Base s0) (hN : ∀ s', Done1 s0 s' → N s') :
    GoodP (Halt s0) N A (extcodehashI s0) := by
  unfold extcodehashI
  refine hostCall_good hN _ _ (fun _ s' => Rel 0 true false 0 s0 s') ?_ ?_
  · refine sat_bind (check_sat hb.rel _) ?_
    rintro _ _ rfl
    refine sat_bind (popAddress_sat hb.rel) ?_
    intro a s1 h1
    exact sat_pure h1
  · intro _ s1 r h1 _
    refine sat_bind (requireSome_sat h1 r) ?_
    rintro _ _ ⟨rfl, _⟩
    refine sat_bind (getS_sat h1) ?_
    rintro _ _ ⟨rfl, rfl⟩
    exact chargePush_sat h1 _ _ (by have := extcodehashGas_ge s1.spec r.isCold; omega)

theorem extcodecopyI_good (hb : Base s0) (hN : ∀ s', Done1 s0 s' → N s') :
    GoodP (Halt s0) N A (extcodecopyI s0) := by
  unfold extcodecopyI
  refine hostCall_good hN _ _ (fun _ s' => Rel 0 true false 0 s0 s') ?_ ?_
  · refine sat_bind (popAddress_sat hb.rel) ?_
    intro a s1 h1
    refine sat_bind (pop3_sat h1) ?_
    intro args s2 h2
    exact sat_pure h2
  · rintro ⟨memOff, codeOff, lenW⟩ s1 r h1 hr
    refine sat_bind (requireSome_sat h1 r) ?_
    rintro _ _ ⟨rfl, _⟩
    refine sat_bind (asUsizeOrFail_sat h1 lenW _) ?_
    rintro len _ ⟨rfl, hlen⟩
    refine sat_bind (getS_sat h1) ?_
    rintro _ _ ⟨rfl, rfl⟩
    refine sat_bind (gasOrFail_sat h1 _) ?_
    rintro _ s2 ⟨c, hc, h2⟩
    have hc20 := extcodecopyCost_ge hc
    split
    · exact sat_pure (done1_of h2 (by omega))
    · refine sat_bind (asUsizeOrFail_sat h2 memOff _) ?_
      rintro memOff' _ ⟨rfl, hmo⟩
      refine sat_bind (resizeMem_sat (h2.mkStrict (by omega)) memOff' len hmo hlen) ?_
      intro _ s3 h3
      refine sat_mono (memSetData_sat h3 memOff' _ len r.bytes hr (by omega)) ?_
      intro _ s4 h4
      exact done1_of h4 (by omega)

theorem blockhashI_good (hb : Base s0) (hN : ∀ s', Done1 s0 s' → N s') :
    GoodP (Halt s0) N A (blockhashI s0) := by
  unfold blockhashI
  refine hostCall_good hN _ _ (fun _ s' => Rel (0 + GasCalc.BLOCKHASH) true true 0 s0 s') ?_ ?_
  · refine sat_bind (gasCharge_sat hb.rel _) ?_
    intro _ s1 h1
    refine sat_bind (popTop1_sat h1) ?_
    intro n s2 h2
    exact sat_pure h2
  · intro _ s1 r h1 _
    refine sat_bind (requireSome_sat h1 r) ?_
    rintro _ _ ⟨rfl, _⟩
    exact sat_mono (setTop_sat h1 _) (fun _ _ h2 => done1_of h2 (by decide))

theorem sloadI_good (hb : Base s0) (hN : ∀ s', Done1 s0 s' → N s') :
    GoodP (Halt s0) N A (sloadI s0) := by
  unfold sloadI
  refine hostCall_good hN _ _ (fun _ s' => Rel 0 true true 0 s0 s') ?_ ?_
  · refine sat_bind (popTop1_sat hb.rel) ?_
    intro idx s1 h1
    refine sat_bind (getS_sat h1) ?_
    rintro _ _ ⟨rfl, rfl⟩
    exact sat_pure h1
  · intro _ s1 r h1 _
    refine sat_bind (requireSome_sat h1 r) ?_
    rintro _ _ ⟨rfl, _⟩
    refine sat_bind (getS_sat h1) ?_
    rintro _ _ ⟨rfl, rfl⟩
    refine sat_bind (gasCharge_sat h1 _) ?_
    intro _ s2 h2
    refine sat_mono (setTop_sat h2 _) ?_
    intro _ s3 h3
    exact done1_of h3 (by have := sloadCost_ge s1.spec r.isCold; omega)

theorem sstoreI_good (hb : Base s0) (hN : ∀ s', Done1 s0 s' → N s') :
    GoodP (Halt s0) N A (sstoreI s0) := by
  unfold sstoreI
  refine hostCall_good hN _ _ (fun _ s' => Rel 0 true false 0 s0 s') ?_ ?_
  · refine sat_bind (requireNonStatic_sat hb.rel) ?_
    rintro _ _ rfl
    refine sat_bind (pop2_sat hb.rel) ?_
    rintro ⟨idx, v⟩ s1 h1
    refine sat_bind (getS_sat h1) ?_
    rintro _ _ ⟨rfl, rfl⟩
    exact sat_pure h1
  · intro _ s1 r h1 _
    refine sat_bind (requireSome_sat h1 r) ?_
    rintro _ _ ⟨rfl, _⟩
    refine sat_bind (getS_sat h1) ?_
    rintro _ _ ⟨rfl, rfl⟩
    refine sat_bind (gasOrFail_sat h1 _) ?_
    rintro _ s2 ⟨c, hc, h2⟩
    have hc1 := sstoreCost_ge hc
    refine sat_mono (refund_sat h2 _) ?_
    intro _ s3 h3
    exact done1_of h3 (by omega)

theorem tstoreI_good (hb : Base s0) (hN : ∀ s', Done1 s0 s' → N s') :
    GoodP (Halt s0) N A (tstoreI s0) := by
  unfold tstoreI
  refine hostCall_good hN _ _ (fun _ s' => Done1 s0 s') ?_ ?_
  · refine sat_bind (check_sat hb.rel _) ?_
    rintro _ _ rfl
    refine sat_bind (requireNonStatic_sat hb.rel) ?_
    rintro _ _ rfl
    refine sat_bind (gasCharge_sat hb.rel _) ?_
    intro _ s1 h1
    refine sat_bind (pop2_sat h1) ?_
    rintro ⟨idx, v⟩ s2 h2
    refine sat_bind (getS_sat h2) ?_
    rintro _ _ ⟨rfl, rfl⟩
    exact sat_pure (done1_of h2 (by decide))
  · intro _ s1 r h1 _
    exact sat_pure h1

theorem tloadI_good (hb : Base s0) (hN : ∀ s', Done1 s0 s' → N s') :
    GoodP (Halt s0) N A (tloadI s0) := by
  unfold tloadI
  refine hostCall_good hN _ _
    (fun _ s' => Rel (0 + GasCalc.WARM_STORAGE_READ_COST) true true 0 s0 s') ?_ ?_
  · refine sat_bind (check_sat hb.rel _) ?_
    rintro _ _ rfl
    refine sat_bind (gasCharge_sat hb.rel _) ?_
    intro _ s1 h1
    refine sat_bind (popTop1_sat h1) ?_
    intro idx s2 h2
    refine sat_bind (getS_sat h2) ?_
    rintro _ _ ⟨rfl, rfl⟩
    exact sat_pure h2
  · intro _ s1 r h1 _
    exact sat_mono (setTop_sat h1 _) (fun _ _ h2 => done1_of h2 (by decide))

theorem logI_good (hb : Base s0) (hN : ∀ s', Done1 s0 s' → N s') (n : Nat) :
    GoodP (Halt s0) N A (logI n s0) := by
  unfold logI
  refine hostCall_good hN _ _ (fun _ s' => Done1 s0 s') ?_ ?_
  · refine sat_bind (requireNonStatic_sat hb.rel) ?_
    rintro _ _ rfl
    refine sat_bind (pop2_sat hb.rel) ?_
    rintro ⟨offset, len⟩ s1 h1
    refine sat_bind (asUsizeOrFail_sat h1 len _) ?_
    rintro len' _ ⟨rfl, hlen⟩
    refine sat_bind (gasOrFail_sat h1 _) ?_
    rintro _ s2 ⟨c, hc, h2⟩
    have hc1 := logCost_ge hc
    refine sat_bind (Q := fun _ s' => ∃ L, Rel (0 + c) true false L s0 s') ?_ ?_
    · split
      · exact sat_pure ⟨0, h2.mkStrict (by omega)⟩
      · refine sat_bind (asUsizeOrFail_sat h2 offset _) ?_
        rintro off _ ⟨rfl, hoff⟩
        refine sat_bind (resizeMem_sat (h2.mkStrict (by omega)) off len' hoff hlen) ?_
        intro _ s3 h3
        refine sat_mono (memSlice_sat h3 off len' (by omega)) ?_
        rintro data _ ⟨rfl, _⟩
        exact ⟨_, h3⟩
    · rintro data s3 ⟨L, h3⟩
      refine sat_bind (popN_sat h3 n) ?_
      rintro topics s4 ⟨h4, _⟩
      refine sat_bind (getS_sat h4) ?_
      rintro _ _ ⟨rfl, rfl⟩
      exact sat_pure (done1_of h4 (by omega))
  · intro _ s1 r h1 _
    exact sat_pure h1

theorem selfdestructI_good (hb : Base s0) (hN : ∀ s', Done1 s0 s' → N s') :
    GoodP (Halt s0) N A (selfdestructI s0) := by
  unfold selfdestructI
  refine hostCall_good hN _ _ (fun _ s' => Rel 0 true false 0 s0 s') ?_ ?_
  · refine sat_bind (requireNonStatic_sat hb.rel) ?_
    rintro _ _ rfl
    refine sat_bind (popAddress_sat hb.rel) ?_
    intro t s1 h1
    refine sat_bind (getS_sat h1) ?_
    rintro _ _ ⟨rfl, rfl⟩
    exact sat_pure h1
  · intro _ s1 r h1 _
    refine sat_bind (requireSome_sat h1 r) ?_
    rintro _ _ ⟨rfl, _⟩
    refine sat_bind (getS_sat h1) ?_
    rintro _ _ ⟨rfl, rfl⟩
    dsimp only []
    split
    · refine sat_bind (refund_sat h1 _) ?_
      intro _ s2 h2
      refine sat_bind (gasCharge_sat h2 _) ?_
      intro _ s3 h3
      exact haltWith_sat h3 _
    · refine sat_bind (gasCharge_sat h1 _) ?_
      intro _ s3 h3
      exact haltWith_sat h3 _

/-! ### KECCAK256 -/

theorem keccakPre_sat (hb : Base s0) :
    Exec.Sat (keccakPre s0) (Halt s0)
      (fun _ s' => ∃ k L, 1 ≤ k ∧ Rel k true true L s0 s') := by
  unfold keccakPre
  refine sat_bind (popTop2_sat hb.rel) ?_
  rintro ⟨offset, len⟩ s1 h1
  refine sat_bind (asUsizeOrFail_sat h1 len _) ?_
  rintro len' _ ⟨rfl, hlen⟩
  refine sat_bind (gasOrFail_sat h1 _) ?_
  rintro _ s2 ⟨c, hc, h2⟩
  have hc1 := keccak256Cost_ge hc
  have h2' := h2.mkStrict (by omega)
  split
  · exact sat_pure ⟨_, _, by omega, h2'⟩
  · refine sat_bind (asUsizeOrFail_sat h2' offset _) ?_
    rintro src _ ⟨rfl, hsrc⟩
    refine sat_bind (resizeMem_sat h2' src len' hsrc hlen) ?_
    intro _ s3 h3
    refine sat_bind (memSlice_sat h3 src len' (by omega)) ?_
    rintro data _ ⟨rfl, _⟩
    exact sat_pure ⟨_, _, by omega, h3⟩

theorem keccak256I_good (hb : Base s0) (hN : ∀ s', Done1 s0 s' → N s') :
    GoodP (Halt s0) N A (keccak256I s0) := by
  unfold keccak256I
  have hpre := keccakPre_sat hb
  cases hp : keccakPre s0 with
  | ok d s' =>
    rw [hp] at hpre
    obtain ⟨k, L, hk, hr⟩ := sat_ok_inv hpre
    cases d with
    | none =>
      exact .pure (toDoneP hN (sat_mono (setTop_sat hr _) (fun _ _ h2 => done1_of h2 hk)))
    | some data =>
      exact .host (fun r _ => toDoneP hN (sat_mono (setTop_sat hr _) (fun _ _ h2 => done1_of h2 hk)))
  | halt r o s' => rw [hp] at hpre; exact .pure (.halt (sat_halt_inv hpre))
  | fault f => rw [hp] at hpre; exact (sat_fault_inv hpre).elim

end host

end Revm.Proofs.Interp
