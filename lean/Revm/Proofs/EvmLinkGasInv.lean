import Revm.Proofs.EvmLinkKeep6
import Revm.Proofs.EvmLinkLoop2
/-! LINK, frame accounting, part 7: re-entry of a child result gives back at most the child's remaining gas; the frame
functions hand out frames whose meter is `Gas::new(inputs.gas_limit)` and early results within `inputs.gas_limit`. -/
set_option linter.unusedSimpArgs false
set_option linter.unusedVariables false
namespace Revm.Proofs.EvmLink
open Revm Revm.Model Revm.Model.Interp Revm.Model.Evm

/-- the state `s` with `g` more gas: the base against which a re-entry is `Kept` -/
def plusGas (s : IState) (g : Nat) : IState := { s with gas := { s.gas with remaining := s.gas.remaining + g } }

theorem wadd_le (a b : Nat) : U64ops.wadd a b ≤ a + b := by unfold U64ops.wadd; exact Nat.mod_le _ _

theorem kept_plus_eraseCost (s : IState) (g : Nat) (r : Int) (rd : List Nat) :
    Kept (plusGas s g)
      { s with returnData := rd, gas := Gas.recordRefund (Gas.eraseCost s.gas g) r } ∧
    Kept (plusGas s g) { s with returnData := rd, gas := Gas.eraseCost s.gas g } ∧
    Kept (plusGas s g) { s with returnData := rd } :=
  ⟨⟨rfl, rfl, wadd_le _ _⟩, ⟨rfl, rfl, wadd_le _ _⟩, ⟨rfl, rfl, Nat.le_add_right _ _⟩⟩

/-- `insert_call_outcome`: the frame gets back at most `o.gas_remaining` -/
theorem insertCall_kept (rs re : Nat) (o : ChildResult) (s : IState) :
    Keep (plusGas s o.gasRemaining) T (insertCallOutcome rs re o s) := by
  obtain ⟨k1, k2, k3⟩ := kept_plus_eraseCost s o.gasRemaining o.gasRefunded o.output
  unfold insertCallOutcome
  refine keep_bind (m := modifyS _) (Q := fun _ s' => s' = { s with returnData := o.output }) (.ok k3 rfl)
    (fun _ s1 _ hs1 => ?_)
  subst hs1
  refine keep_bind (keep_getS k3) (fun x s2 _ hx => ?_)
  obtain ⟨rfl, rfl⟩ := hx
  by_cases hok : o.result.isOk = true
  · rw [if_pos hok]
    refine keep_bind (m := modifyS _) (Q := T) (.ok k1 trivial) (fun _ s3 h3 _ => ?_)
    refine keep_bind (keep_liftMemWrite h3 _) (fun _ s4 h4 _ => ?_)
    exact keep_push h4 _
  · rw [if_neg hok]
    by_cases hrev : o.result.isRevert = true
    · rw [if_pos hrev]
      refine keep_bind (m := modifyS _) (Q := T) (.ok k2 trivial) (fun _ s3 h3 _ => ?_)
      refine keep_bind (keep_liftMemWrite h3 _) (fun _ s4 h4 _ => ?_)
      exact keep_push h4 _
    · rw [if_neg hrev]
      split
      · exact .fault
      · exact keep_push k3 _

/-- `insert_create_outcome`: the same -/
theorem insertCreate_kept (o : ChildResult) (s : IState) :
    Keep (plusGas s o.gasRemaining) T (insertCreateOutcome o s) := by
  have k3 : Kept (plusGas s o.gasRemaining) { s with returnData := if o.result.isRevert = true then o.output else [] } :=
    ⟨rfl, rfl, Nat.le_add_right _ _⟩
  unfold insertCreateOutcome
  refine keep_bind (m := modifyS _) (Q := fun _ s' => s'.gas = s.gas ∧ s'.isStatic = s.isStatic) (.ok k3 ⟨rfl, rfl⟩)
    (fun _ s1 h1 hs1 => ?_)
  have hrel : ∀ s2, Kept s1 s2 → ∀ (g : Nat) (r : Int), Kept (plusGas s o.gasRemaining)
      { s2 with gas := Gas.recordRefund (Gas.eraseCost s2.gas o.gasRemaining) r } ∧
      Kept (plusGas s o.gasRemaining) { s2 with gas := Gas.eraseCost s2.gas o.gasRemaining } := by
    intro s2 h2 g r
    have e1 := h2.rem; have e2 := h2.lim; have e3 := h2.st
    rw [hs1.1] at e1 e2
    rw [hs1.2] at e3
    have := wadd_le s2.gas.remaining o.gasRemaining
    exact ⟨⟨e3, e2, by show U64ops.wadd _ _ ≤ s.gas.remaining + _; omega⟩,
           ⟨e3, e2, by show U64ops.wadd _ _ ≤ s.gas.remaining + _; omega⟩⟩
  have hplain : ∀ s2, Kept s1 s2 → Kept (plusGas s o.gasRemaining) s2 := by
    intro s2 h2
    have e1 := h2.rem; have e2 := h2.lim; have e3 := h2.st
    rw [hs1.1] at e1 e2
    rw [hs1.2] at e3
    exact ⟨e3, e2, by show s2.gas.remaining ≤ s.gas.remaining + _; omega⟩
  have pushThen : ∀ (v : Nat) (f : IState → IState),
      (∀ s2, Kept s1 s2 → Kept (plusGas s o.gasRemaining) (f s2)) →
      Keep (plusGas s o.gasRemaining) T ((push v >>= fun _ => modifyS f) s1) := by
    intro v f hf
    have hp := keep_push (Kept.refl s1) v
    show Keep _ T (M.bind (push v) (fun _ => modifyS f) s1)
    unfold M.bind
    generalize push v s1 = e at hp
    cases hp with
    | ok h2 _ => exact .ok (hf _ h2) trivial
    | halt h2 => exact .halt (hplain _ h2)
    | fault => exact .fault
  by_cases hok : o.result.isOk = true
  · rw [if_pos hok]
    exact pushThen _ _ (fun s2 h2 => (hrel s2 h2 0 o.gasRefunded).1)
  · rw [if_neg hok]
    by_cases hrev : o.result.isRevert = true
    · rw [if_pos hrev]
      exact pushThen _ _ (fun s2 h2 => (hrel s2 h2 0 0).2)
    · rw [if_neg hrev]
      split
      · exact .fault
      · exact keep_rebase (hplain s1 (Kept.refl s1)) (keep_push (Kept.refl s1) 0)

end Revm.Proofs.EvmLink
