import Revm.Spec.EvmRules2Table
import Revm.Proofs.EvmStepTable
import Revm.Proofs.EvmStep2Mem
import Revm.Proofs.EvmStep2Copy
import Revm.Proofs.EvmStep2Halt
import Revm.Proofs.EvmStep2Host
import Revm.Proofs.EvmStep2State
import Revm.Proofs.EvmStep2Misc
import Revm.Proofs.EvmStep2Call
import Revm.Proofs.EvmStep2Create
/-! The summary: every legacy opcode byte has at most one row in `Spec/EvmRules2Table.lean`, `Interp.step` agrees with the
row's rule, and a byte without a row names no instruction. -/
set_option linter.unusedSimpArgs false
set_option linter.unusedVariables false
namespace Revm.Proofs.EvmStep2
open Revm Revm.Model Revm.Model.Interp
open Revm.Spec.EvmRules Revm.Spec.EvmRules2
open Revm.Spec.GasCalc (Fork)
open Revm.Proofs.EvmStep

/-- the host answers for which EXTCODECOPY is compared: the code is a byte slice -/
abbrev OkAnswer : HostResp → Prop := fun r => r.bytes.length ≤ Memory.ISIZE_MAX

theorem agree_refl (P : HostResp → Prop) (o : Outcome) : AgreeOn P o o := by
  cases o with
  | pure d => exact rfl
  | host op k => exact ⟨rfl, fun _ _ => rfl⟩

theorem agree_of_eq {P : HostResp → Prop} {a b : Outcome} (h : a = b) : AgreeOn P a b := h ▸ agree_refl P a

/-- no two rows share an opcode byte -/
theorem rows_disjoint : ruleTable.Pairwise (fun a b => a.hi < b.lo ∨ b.hi < a.lo) := by decide +kernel

def isUnknown : Instr → Bool
  | .unknown => true
  | _ => false

theorem eq_unknown {i : Instr} (h : isUnknown i = true) : i = .unknown := by
  cases i <;> first | rfl | cases h

/-- a byte without a row is a byte the opcode table of the code does not assign -/
theorem unassigned_decode : ∀ op, op < 256 → (lookup op).isNone = true → isUnknown (decode op) = true := by
  decide +kernel

/-- the bytes without a row -/
theorem unassigned_list :
    (List.range 256).filter (fun op => (lookup op).isNone) =
      List.range' 0x0c 4 ++ List.range' 0x1e 2 ++ List.range' 0x21 15 ++ List.range' 0x4b 5 ++ List.range' 0xa5 43 ++
      List.range' 0xd4 12 ++ [0xe9, 0xea, 0xeb, 0xed, 0xef, 0xf6, 0xfc] := by decide +kernel

theorem eofOnly_d (op : Nat) (h1 : 0xd0 ≤ op) (h2 : op ≤ 0xd3) : IsEofOnly (decode op) := by
  have : op = 0xd0 ∨ op = 0xd1 ∨ op = 0xd2 ∨ op = 0xd3 := by omega
  rcases this with rfl | rfl | rfl | rfl <;> exact trivial

theorem eofOnly_e (op : Nat) (h1 : 0xe0 ≤ op) (h2 : op ≤ 0xe8) : IsEofOnly (decode op) := by
  have : op = 0xe0 ∨ op = 0xe1 ∨ op = 0xe2 ∨ op = 0xe3 ∨ op = 0xe4 ∨ op = 0xe5 ∨ op = 0xe6 ∨ op = 0xe7 ∨ op = 0xe8 := by
    omega
  rcases this with rfl | rfl | rfl | rfl | rfl | rfl | rfl | rfl | rfl <;> exact trivial

theorem eofOnly_f (op : Nat) (h1 : 0xf8 ≤ op) (h2 : op ≤ 0xf9) : IsEofOnly (decode op) := by
  have : op = 0xf8 ∨ op = 0xf9 := by omega
  rcases this with rfl | rfl <;> exact trivial

theorem pureRow_agrees (e : Row) (he : e ∈ pureRows) (op : Nat) (hlo : e.lo ≤ op) (hhi : op ≤ e.hi) (f : Fork)
    (s : IState) (hcode : s.code[s.pc]? = some op) (hwf : WFM s) (hl : Legacy s) :
    AgreeOn OkAnswer (step s) (e.rule f op s) := by
  unfold pureRows at he
  rcases List.mem_append.mp he with he | he
  · rcases List.mem_append.mp he with he | he
    · obtain ⟨w, hw, rfl⟩ := List.mem_map.mp he
      have hop : op = w.op := Nat.le_antisymm hhi hlo
      subst hop
      exact agree_of_eq (step_word_agrees w hw s hcode hwf.toWF)
    · obtain ⟨w, hw, rfl⟩ := List.mem_map.mp he
      have hop : op = w.op := Nat.le_antisymm hhi hlo
      subst hop
      exact agree_of_eq (step_env_agrees w hw s hcode hwf.toWF (fun _ => hl.1))
  · simp only [List.mem_cons, List.not_mem_nil, or_false] at he
    rcases he with rfl | rfl | rfl | rfl | rfl | rfl | rfl | rfl | rfl | rfl | rfl | rfl
    · have hop : op = 0x0a := Nat.le_antisymm hhi hlo
      subst hop
      exact agree_of_eq (step_exp s hcode hwf.toWF)
    · have hop : op = 0x44 := Nat.le_antisymm hhi hlo
      subst hop
      exact agree_of_eq (step_difficulty s hcode hwf.gas)
    · have hop : op = 0x50 := Nat.le_antisymm hhi hlo
      subst hop
      exact agree_of_eq (step_pop s hcode hwf.gas)
    · have hop : op = 0x5f := Nat.le_antisymm hhi hlo
      subst hop
      exact agree_of_eq (step_push0 s hcode hwf.gas)
    · have hop : op = 0x56 := Nat.le_antisymm hhi hlo
      subst hop
      exact agree_of_eq (step_jump s hcode hwf.gas)
    · have hop : op = 0x57 := Nat.le_antisymm hhi hlo
      subst hop
      exact agree_of_eq (step_jumpi s hcode hwf.gas)
    · have hop : op = 0x5b := Nat.le_antisymm hhi hlo
      subst hop
      exact agree_of_eq (step_jumpdest s hcode hwf.gas)
    · have hop : op = 0x54 := Nat.le_antisymm hhi hlo
      subst hop
      exact agree_of_eq (step_sload s hcode hwf.gas)
    · have hop : op = 0x5c := Nat.le_antisymm hhi hlo
      subst hop
      exact agree_of_eq (step_tload s hcode hwf.gas)
    · have h1 : 0x60 ≤ op := hlo
      have h2 : op ≤ 0x7f := hhi
      obtain ⟨n, rfl⟩ : ∃ n : Fin 32, op = 0x60 + n.val := ⟨⟨op - 0x60, by omega⟩, by show op = 0x60 + (op - 0x60); omega⟩
      have e : 0x60 + n.val - 0x60 + 1 = n.val + 1 := by omega
      show AgreeOn _ _ (.pure (pushRule (0x60 + n.val - 0x60 + 1) s))
      rw [e]
      exact agree_of_eq (step_push s _ n hcode (decode_push n) hwf.gas hwf.depth)
    · have h1 : 0x80 ≤ op := hlo
      have h2 : op ≤ 0x8f := hhi
      obtain ⟨n, rfl⟩ : ∃ n : Fin 16, op = 0x80 + n.val := ⟨⟨op - 0x80, by omega⟩, by show op = 0x80 + (op - 0x80); omega⟩
      have e : 0x80 + n.val - 0x80 + 1 = n.val + 1 := by omega
      show AgreeOn _ _ (.pure (dupRule (0x80 + n.val - 0x80 + 1) s))
      rw [e]
      exact agree_of_eq (step_dup s _ n hcode (decode_dup n) hwf.gas)
    · have h1 : 0x90 ≤ op := hlo
      have h2 : op ≤ 0x9f := hhi
      obtain ⟨n, rfl⟩ : ∃ n : Fin 16, op = 0x90 + n.val := ⟨⟨op - 0x90, by omega⟩, by show op = 0x90 + (op - 0x90); omega⟩
      have e : 0x90 + n.val - 0x90 + 1 = n.val + 1 := by omega
      show AgreeOn _ _ (.pure (swapRule (0x90 + n.val - 0x90 + 1) s))
      rw [e]
      exact agree_of_eq (step_swap s _ n hcode (decode_swap n) hwf.gas)

theorem newRow_agrees (e : Row) (he : e ∈ newRows) (op : Nat) (hlo : e.lo ≤ op) (hhi : op ≤ e.hi) (f : Fork)
    (s : IState) (hcode : s.code[s.pc]? = some op) (hwf : WFM s) (hf : s.spec = f.id) (hl : Legacy s) :
    AgreeOn OkAnswer (step s) (e.rule f op s) := by
  unfold newRows at he
  simp only [List.mem_cons, List.not_mem_nil, or_false] at he
  rcases he with rfl | rfl | rfl | rfl | rfl | rfl | rfl | rfl | rfl | rfl | rfl | rfl | rfl | rfl | rfl | rfl | rfl | rfl | rfl | rfl | rfl | rfl | rfl | rfl | rfl | rfl | rfl | rfl | rfl | rfl | rfl | rfl | rfl | rfl | rfl | rfl | rfl
  · have hop : op = 0x51 := Nat.le_antisymm hhi hlo
    subst hop
    exact agree_of_eq (step_mload s hcode hwf)
  · have hop : op = 0x52 := Nat.le_antisymm hhi hlo
    subst hop
    exact agree_of_eq (step_mstore s hcode hwf)
  · have hop : op = 0x53 := Nat.le_antisymm hhi hlo
    subst hop
    exact agree_of_eq (step_mstore8 s hcode hwf)
  · have hop : op = 0x5e := Nat.le_antisymm hhi hlo
    subst hop
    exact agree_of_eq (step_mcopy s hcode hwf)
  · have hop : op = 0x35 := Nat.le_antisymm hhi hlo
    subst hop
    exact agree_of_eq (step_calldataload s hcode hwf)
  · have hop : op = 0x37 := Nat.le_antisymm hhi hlo
    subst hop
    exact agree_of_eq (step_calldatacopy s hcode hwf)
  · have hop : op = 0x39 := Nat.le_antisymm hhi hlo
    subst hop
    exact agree_of_eq (step_codecopy s hcode hwf hl.1)
  · have hop : op = 0x3e := Nat.le_antisymm hhi hlo
    subst hop
    exact agree_of_eq (step_returndatacopy s hcode hwf)
  · have hop : op = 0x00 := Nat.le_antisymm hhi hlo
    subst hop
    exact agree_of_eq (step_stop s hcode)
  · have hop : op = 0xf3 := Nat.le_antisymm hhi hlo
    subst hop
    exact agree_of_eq (step_return s hcode hwf)
  · have hop : op = 0xfd := Nat.le_antisymm hhi hlo
    subst hop
    exact agree_of_eq (step_revert s hcode hwf)
  · have hop : op = 0xfe := Nat.le_antisymm hhi hlo
    subst hop
    exact agree_of_eq (step_invalid s hcode)
  · have hop : op = 0x20 := Nat.le_antisymm hhi hlo
    subst hop
    exact agree_of_eq (step_keccak s hcode hwf)
  · have h1 : 0xa0 ≤ op := hlo
    have h2 : op ≤ 0xa4 := hhi
    obtain ⟨n, rfl⟩ : ∃ n : Fin 5, op = 0xa0 + n.val := ⟨⟨op - 0xa0, by omega⟩, by show op = 0xa0 + (op - 0xa0); omega⟩
    have e : 0xa0 + n.val - 0xa0 = n.val := by omega
    show AgreeOn _ _ (logRule (0xa0 + n.val - 0xa0) s)
    rw [e]
    exact agree_of_eq (step_log s n hcode hwf)
  · have hop : op = 0x31 := Nat.le_antisymm hhi hlo
    subst hop
    exact agree_of_eq (step_balance f s hcode hwf hf)
  · have hop : op = 0x47 := Nat.le_antisymm hhi hlo
    subst hop
    exact agree_of_eq (step_selfbalance s hcode hwf)
  · have hop : op = 0x3b := Nat.le_antisymm hhi hlo
    subst hop
    exact agree_of_eq (step_extcodesize f s hcode hwf hf)
  · have hop : op = 0x3f := Nat.le_antisymm hhi hlo
    subst hop
    exact agree_of_eq (step_extcodehash f s hcode hwf hf)
  · have hop : op = 0x3c := Nat.le_antisymm hhi hlo
    subst hop
    exact step_extcodecopy f s hcode hwf hf
  · have hop : op = 0x40 := Nat.le_antisymm hhi hlo
    subst hop
    exact agree_of_eq (step_blockhash s hcode hwf)
  · have hop : op = 0x55 := Nat.le_antisymm hhi hlo
    subst hop
    exact agree_of_eq (step_sstore f s hcode hwf hf)
  · have hop : op = 0x5d := Nat.le_antisymm hhi hlo
    subst hop
    exact agree_of_eq (step_tstore s hcode hwf)
  · have hop : op = 0xff := Nat.le_antisymm hhi hlo
    subst hop
    exact agree_of_eq (step_selfdestruct f s hcode hwf hf)
  · have hop : op = 0x49 := Nat.le_antisymm hhi hlo
    subst hop
    exact agree_of_eq (step_blobhash s hcode hwf)
  · have hop : op = 0xf1 := Nat.le_antisymm hhi hlo
    subst hop
    exact agree_of_eq (step_call f s hcode hwf hf)
  · have hop : op = 0xf2 := Nat.le_antisymm hhi hlo
    subst hop
    exact agree_of_eq (step_callcode f s hcode hwf hf)
  · have hop : op = 0xf4 := Nat.le_antisymm hhi hlo
    subst hop
    exact agree_of_eq (step_delegatecall f s hcode hwf hf)
  · have hop : op = 0xfa := Nat.le_antisymm hhi hlo
    subst hop
    exact agree_of_eq (step_staticcall f s hcode hwf hf)
  · have hop : op = 0xf0 := Nat.le_antisymm hhi hlo
    subst hop
    exact agree_of_eq (step_create f s hcode hwf hf)
  · have hop : op = 0xf5 := Nat.le_antisymm hhi hlo
    subst hop
    exact agree_of_eq (step_create2 f s hcode hwf hf)
  · exact agree_of_eq (step_eofOnly s op hcode (eofOnly_d op hlo hhi) hl)
  · exact agree_of_eq (step_eofOnly s op hcode (eofOnly_e op hlo hhi) hl)
  · have hop : op = 0xec := Nat.le_antisymm hhi hlo
    subst hop
    exact agree_of_eq (step_eofOnly s _ hcode trivial hl)
  · have hop : op = 0xee := Nat.le_antisymm hhi hlo
    subst hop
    exact agree_of_eq (step_returnContract s hcode hl)
  · have hop : op = 0xf7 := Nat.le_antisymm hhi hlo
    subst hop
    exact agree_of_eq (step_eofOnly s _ hcode trivial hl)
  · exact agree_of_eq (step_eofOnly s op hcode (eofOnly_f op hlo hhi) hl)
  · have hop : op = 0xfb := Nat.le_antisymm hhi hlo
    subst hop
    exact agree_of_eq (step_eofOnly s _ hcode trivial hl)

/-- `step_agrees_all_modelled`: on every well-formed legacy state, for EVERY opcode byte, `Interp.step` agrees with the rule
of the byte's row — the one row that covers it (`rows_disjoint`) — or, for a byte without a row (`unassigned_list`),
stops with `OpcodeNotFound`. Agreement is equality, except that the continuation of EXTCODECOPY is compared on answers whose
code is a byte slice. -/
theorem step_agrees_all (f : Fork) (s : IState) (op : Nat) (hop : op < 256) (hcode : s.code[s.pc]? = some op)
    (hwf : WFM s) (hf : s.spec = f.id) (hl : Legacy s) : AgreeOn OkAnswer (step s) (ruleOf f op s) := by
  unfold ruleOf
  cases hlk : lookup op with
  | none =>
    have hd := eq_unknown (unassigned_decode op hop (by rw [hlk]; rfl))
    exact agree_of_eq (step_unknown s op hcode hd)
  | some e =>
    have hlk' : ruleTable.find? (fun r => r.covers op) = some e := hlk
    have hmem : e ∈ ruleTable := List.mem_of_find?_eq_some hlk'
    have hcov := List.find?_some hlk'
    unfold Row.covers at hcov
    simp only [Bool.and_eq_true, decide_eq_true_eq] at hcov
    rcases List.mem_append.mp hmem with hm | hm
    · exact pureRow_agrees e hm op hcov.1 hcov.2 f s hcode hwf hl
    · exact newRow_agrees e hm op hcov.1 hcov.2 f s hcode hwf hf hl

end Revm.Proofs.EvmStep2
