import Revm.Proofs.EvmLinkKeep3
/-! LINK, frame accounting and static mode, part 4: the instructions that ask the host, the call / create family with
its gas accounting (`remaining + child's gas limit ≤ remaining before the instruction`, the CALL stipend included), and
`Interp.step`. -/
set_option linter.unusedSimpArgs false
set_option linter.unusedVariables false
namespace Revm.Proofs.EvmLink
open Revm Revm.Model Revm.Model.Interp

attribute [local irreducible] gasCharge getS check requireNonStatic requireEof requireInitEof requireSome assumeNotEof
  gasOrFail refund advancePc setEof popN popTop setTop push stackCall stackCallAdv asUsizeOrFail resizeMem memSlice
  memSliceRange memGetU256 memSetU256 memSetByte memSetData memCopy codeSlice codeByte jumpRel getEof loadEofCode
  haltWith haltOut faultWith modifyS liftMemWrite pop1 pop2 pop3 pop4 popAddress popTop1 popTop2 popTop3 readU16 readI16

/-- what one resolved instruction does to its frame: `is_static` and the gas limit stay, gas is only spent, and an
action has paid for the gas it gives the child -/
inductive KDone (s : IState) : Done → Prop
  | next {s'} (h : Kept s s') : KDone s (.next s')
  | halt {r o s'} (h : Kept s s') : KDone s (.halt r o s')
  | fault {f} : KDone s (.fault f)
  | action {a s'} (h : Kept s s') (hg : s'.gas.remaining + a.gasLimit ≤ s.gas.remaining) : KDone s (.action a s')

inductive KOutcome (s : IState) : Outcome → Prop
  | pure {d} (h : KDone s d) : KOutcome s (.pure d)
  | host {op k} (h : ∀ r, KDone s (k r)) : KOutcome s (.host op k)

section
variable {s0 s : IState}

theorem toDone_kept {e : Exec Unit} (h : Keep s0 T e) : KDone s0 e.toDone := by
  cases h with
  | ok h _ => exact .next h
  | halt h => exact .halt h
  | fault => exact .fault

/-- the postcondition of a handler that hands out an action -/
abbrev Paid (s0 : IState) : Action → IState → Prop := fun a s' => s'.gas.remaining + a.gasLimit ≤ s0.gas.remaining
abbrev PaidOpt (s0 : IState) : Option Action → IState → Prop :=
  fun a s' => ∀ x, a = some x → s'.gas.remaining + x.gasLimit ≤ s0.gas.remaining

theorem toDoneAction_kept {e : Exec Action} (h : Keep s0 (Paid s0) e) : KDone s0 e.toDoneAction := by
  cases h with
  | ok h hq => exact .action h hq
  | halt h => exact .halt h
  | fault => exact .fault

theorem toDoneOptAction_kept {e : Exec (Option Action)} (h : Keep s0 (PaidOpt s0) e) : KDone s0 e.toDoneOptAction := by
  cases h with
  | @ok a s' h hq =>
    cases a with
    | none => exact .next h
    | some x => exact .action h (hq x rfl)
  | halt h => exact .halt h
  | fault => exact .fault

theorem hostCall_kept {β} {pre : M (HostOp × β)} {post : β → HostResp → M Unit}
    (hpre : Keep s0 T (pre s0)) (hpost : ∀ b r s', Kept s0 s' → Keep s0 T (post b r s')) :
    KOutcome s0 (hostCall pre post s0) := by
  unfold hostCall
  cases hp : pre s0 with
  | ok p s' =>
    obtain ⟨op, b⟩ := p
    rw [hp] at hpre
    cases hpre with
    | ok hk _ => exact .host (fun r => toDone_kept (hpost b r s' hk))
  | halt r o s' => rw [hp] at hpre; cases hpre with | halt hk => exact .pure (.halt hk)
  | fault f => exact .pure .fault

theorem hostCallAction_kept {β} {pre : M (HostOp × β)} {post : β → HostResp → M Action}
    (hpre : Keep s0 T (pre s0)) (hpost : ∀ b r s', Kept s0 s' → Keep s0 (Paid s0) (post b r s')) :
    KOutcome s0 (hostCallAction pre post s0) := by
  unfold hostCallAction
  cases hp : pre s0 with
  | ok p s' =>
    obtain ⟨op, b⟩ := p
    rw [hp] at hpre
    cases hpre with
    | ok hk _ => exact .host (fun r => toDoneAction_kept (hpost b r s' hk))
  | halt r o s' => rw [hp] at hpre; cases hpre with | halt hk => exact .pure (.halt hk)
  | fault f => exact .pure .fault

theorem hostCallOptAction_kept {β} {pre : M (HostOp × β)} {post : β → HostResp → M (Option Action)}
    (hpre : Keep s0 T (pre s0)) (hpost : ∀ b r s', Kept s0 s' → Keep s0 (PaidOpt s0) (post b r s')) :
    KOutcome s0 (hostCallOptAction pre post s0) := by
  unfold hostCallOptAction
  cases hp : pre s0 with
  | ok p s' =>
    obtain ⟨op, b⟩ := p
    rw [hp] at hpre
    cases hpre with
    | ok hk _ => exact .host (fun r => toDoneOptAction_kept (hpost b r s' hk))
  | halt r o s' => rw [hp] at hpre; cases hpre with | halt hk => exact .pure (.halt hk)
  | fault f => exact .pure .fault

/-! ## the reading / writing host instructions -/

theorem keep_keccakPre (h : Kept s0 s) : Keep s0 T (keccakPre s) := by unfold keccakPre; keep_auto

theorem keccak256I_kept (s : IState) : KOutcome s (keccak256I s) := by
  unfold keccak256I
  have hk := keep_keccakPre (Kept.refl s)
  generalize keccakPre s = e at hk
  cases hk with
  | @ok d s' hk' _ =>
    cases d with
    | none => exact .pure (toDone_kept (keep_setTop hk' _))
    | some data => exact .host (fun r => toDone_kept (keep_setTop hk' _))
  | halt hk' => exact .pure (.halt hk')
  | fault => exact .pure .fault

theorem balanceI_kept (s : IState) : KOutcome s (balanceI s) := by
  unfold balanceI
  have h := Kept.refl s
  refine hostCall_kept ?_ (fun b r s' h => ?_) <;> keep_auto
theorem selfbalanceI_kept (s : IState) : KOutcome s (selfbalanceI s) := by
  unfold selfbalanceI
  have h := Kept.refl s
  refine hostCall_kept ?_ (fun b r s' h => ?_) <;> keep_auto
theorem extcodesizeI_kept (s : IState) : KOutcome s (extcodesizeI s) := by
  unfold extcodesizeI
  have h := Kept.refl s
  refine hostCall_kept ?_ (fun b r s' h => ?_) <;> keep_auto
theorem extcodehashI_kept (s : IState) : KOutcome s (extcodehashI s) := by
  unfold extcodehashI
  have h := Kept.refl s
  refine hostCall_kept ?_ (fun b r s' h => ?_) <;> keep_auto
theorem extcodecopyI_kept (s : IState) : KOutcome s (extcodecopyI s) := by
  unfold extcodecopyI
  have h := Kept.refl s
  refine hostCall_kept ?_ (fun b r s' h => ?_) <;> keep_auto
theorem blockhashI_kept (s : IState) : KOutcome s (blockhashI s) := by
  unfold blockhashI
  have h := Kept.refl s
  refine hostCall_kept ?_ (fun b r s' h => ?_) <;> keep_auto
theorem sloadI_kept (s : IState) : KOutcome s (sloadI s) := by
  unfold sloadI
  have h := Kept.refl s
  refine hostCall_kept ?_ (fun b r s' h => ?_) <;> keep_auto
theorem sstoreI_kept (s : IState) : KOutcome s (sstoreI s) := by
  unfold sstoreI
  have h := Kept.refl s
  refine hostCall_kept ?_ (fun b r s' h => ?_) <;> keep_auto
theorem tstoreI_kept (s : IState) : KOutcome s (tstoreI s) := by
  unfold tstoreI
  have h := Kept.refl s
  refine hostCall_kept ?_ (fun b r s' h => ?_) <;> keep_auto
theorem tloadI_kept (s : IState) : KOutcome s (tloadI s) := by
  unfold tloadI
  have h := Kept.refl s
  refine hostCall_kept ?_ (fun b r s' h => ?_) <;> keep_auto
theorem logI_kept (n : Nat) (s : IState) : KOutcome s (logI n s) := by
  unfold logI
  have h := Kept.refl s
  refine hostCall_kept ?_ (fun b r s' h => ?_) <;> keep_auto
theorem selfdestructI_kept (s : IState) : KOutcome s (selfdestructI s) := by
  unfold selfdestructI
  have h := Kept.refl s
  refine hostCall_kept ?_ (fun b r s' h => ?_) <;> keep_auto

end
end Revm.Proofs.EvmLink
