import Revm.Proofs.EofValidate
/-! `validate_eof_code` accepts a section only if every relative jump (RJUMP, RJUMPI, every entry of
every RJUMPV table) lands on the first byte of an instruction — never inside the immediate bytes of
an earlier or a later instruction (`Spec.Eof.JumpsOnStarts`).

The two halves of the validator's bookkeeping, both needed:
* a jump to a byte that was **already** marked immediate (`target.is_immediate`, backward jumps and
  jumps into the own immediates) is refused by the jump itself (`processJump`),
* a jump to a byte that is marked immediate **later** (forward jump into the immediates — RJUMPV
  table included — of a later instruction) is refused when that later instruction marks its
  immediates: `mark_as_immediate` finds `is_jumpdest` set (`markImm`).
Invariant of the loop at offset `i`: no byte is both `is_jumpdest` and `is_immediate`; every byte
below `i` is an instruction start or `is_immediate`; every target of every jump decoded below `i`
is `is_jumpdest`. Core Lean only. -/
namespace Revm.Proofs.EofValidate
open Revm.Model.Eof Revm.Model.EofValidate Revm.Spec.Eof Revm.Proofs.Eof

set_option linter.unusedSimpArgs false
set_option linter.unusedVariables false

/-! ## linear decoding -/

theorem Reach.le {code : Array Nat} {a b : Nat} (h : Reach code a b) : a ≤ b := by
  induction h with
  | refl => exact Nat.le_refl _
  | step _ _ ih => omega

theorem Reach.snoc {code : Array Nat} {a b : Nat} (h : Reach code a b) (hb : b < code.size) :
    Reach code a (b + 1 + immLen code b) := by
  induction h with
  | refl i => exact Reach.step hb (Reach.refl _)
  | step h1 _ ih => exact Reach.step h1 (ih hb)

/-- the linear decoding is deterministic: two reachable offsets are ordered by whole instructions -/
theorem Reach.next_le {code : Array Nat} {a i j : Nat} (hi : Reach code a i) (hj : Reach code a j)
    (hlt : i < j) : i + 1 + immLen code i ≤ j := by
  induction hi with
  | refl i =>
    cases hj with
    | refl => omega
    | step _ h2 => exact Reach.le h2
  | step h1 h2 ih =>
    cases hj with
    | refl => have := Reach.le h2; omega
    | step _ h2' => exact ih h2' hlt

/-! ## the two flags as predicates on offsets -/

/-- `jumps[k].is_immediate` -/
def ImmAt (jumps : Array InstrInfo) (k : Nat) : Prop :=
  ∃ info, jumps[k]? = some info ∧ info.isImm = true
/-- `jumps[k].is_jumpdest` -/
def JdAt (jumps : Array InstrInfo) (k : Nat) : Prop :=
  ∃ info, jumps[k]? = some info ∧ info.isJumpdest = true

theorem getElem?_set_of_some {jumps : Array InstrInfo} {k : Nat} {info info' : InstrInfo}
    (hk : jumps[k]? = some info) (x : Nat) :
    (jumps.setIfInBounds k info')[x]? = if k = x then some info' else jumps[x]? := by
  rw [Array.getElem?_setIfInBounds, if_pos (lt_of_getElem? hk)]

theorem ImmAt_set {jumps : Array InstrInfo} {k : Nat} {info info' : InstrInfo}
    (hk : jumps[k]? = some info) (x : Nat) :
    ImmAt (jumps.setIfInBounds k info') x ↔
      (x = k ∧ info'.isImm = true) ∨ (x ≠ k ∧ ImmAt jumps x) := by
  unfold ImmAt
  rw [getElem?_set_of_some hk]
  by_cases hx : k = x
  · subst hx; simp
  · rw [if_neg hx]
    have : x ≠ k := fun h => hx h.symm
    simp [this]

theorem JdAt_set {jumps : Array InstrInfo} {k : Nat} {info info' : InstrInfo}
    (hk : jumps[k]? = some info) (x : Nat) :
    JdAt (jumps.setIfInBounds k info') x ↔
      (x = k ∧ info'.isJumpdest = true) ∨ (x ≠ k ∧ JdAt jumps x) := by
  unfold JdAt
  rw [getElem?_set_of_some hk]
  by_cases hx : k = x
  · subst hx; simp
  · rw [if_neg hx]
    have : x ≠ k := fun h => hx h.symm
    simp [this]

/-- replacing an entry by one with the same two flags changes neither predicate -/
theorem flags_set_same {jumps : Array InstrInfo} {k : Nat} {info info' : InstrInfo}
    (hk : jumps[k]? = some info) (h1 : info'.isImm = info.isImm)
    (h2 : info'.isJumpdest = info.isJumpdest) (x : Nat) :
    (ImmAt (jumps.setIfInBounds k info') x ↔ ImmAt jumps x) ∧
    (JdAt (jumps.setIfInBounds k info') x ↔ JdAt jumps x) := by
  rw [ImmAt_set hk, JdAt_set hk]
  by_cases hx : x = k
  · subst hx
    unfold ImmAt JdAt
    rw [hk, h1, h2]
    simp
  · simp [hx]

/-! ## marking immediates -/

/-- effect of marking the offsets `S` as immediate: exactly they become `is_immediate`, no
`is_jumpdest` changes, and none of them was a jump destination (else `JumpToImmediateBytes`) -/
structure MarkRel (jumps jumps' : Array InstrInfo) (S : Nat → Prop) : Prop where
  imm : ∀ x, ImmAt jumps' x ↔ ImmAt jumps x ∨ S x
  jd : ∀ x, JdAt jumps' x ↔ JdAt jumps x
  nojd : ∀ x, S x → ¬ JdAt jumps x

theorem markImm_rel {jumps jumps' : Array InstrInfo} {k : Nat}
    (h : markImm jumps k = .ok jumps') : MarkRel jumps jumps' (fun x => x = k) := by
  unfold markImm at h
  split at h
  · cases h
  rename_i info hk
  have hx := ite_err_eq_ok h; clear h; obtain ⟨hjd, h⟩ := hx
  simp only [R.ok.injEq] at h
  subst h
  have hjd' : info.isJumpdest = false := by simpa using hjd
  refine ⟨fun x => ?_, fun x => ?_, fun x hx hj => ?_⟩
  · rw [ImmAt_set hk]
    by_cases hx : x = k
    · simp [hx]
    · simp [hx]
  · rw [JdAt_set hk]
    by_cases hx : x = k
    · subst hx
      unfold JdAt
      rw [hk]
      simp [hjd']
    · simp [hx]
  · subst hx
    obtain ⟨i2, h1, h2⟩ := hj
    rw [hk] at h1
    cases h1
    rw [hjd'] at h2
    cases h2

theorem markImmRange_rel : ∀ (n start : Nat) (jumps jumps' : Array InstrInfo),
    markImmRange jumps start n = .ok jumps' →
    MarkRel jumps jumps' (fun x => start ≤ x ∧ x < start + n)
  | 0, start, jumps, jumps', h => by
    simp only [markImmRange, R.ok.injEq] at h
    subst h
    exact ⟨fun x => by constructor
                       · exact fun h => Or.inl h
                       · rintro (h | h)
                         · exact h
                         · omega,
           fun x => Iff.rfl, fun x hx => by omega⟩
  | n + 1, start, jumps, jumps', h => by
    simp only [markImmRange] at h
    rw [bind_eq_ok] at h
    obtain ⟨j1, h1, h2⟩ := h
    have r1 := markImm_rel h1
    have r2 := markImmRange_rel n (start + 1) j1 jumps' h2
    refine ⟨fun x => ?_, fun x => ?_, fun x hx hj => ?_⟩
    · rw [r2.imm, r1.imm]
      constructor
      · rintro ((h | h) | h)
        · exact Or.inl h
        · exact Or.inr (by omega)
        · exact Or.inr (by omega)
      · rintro (h | h)
        · exact Or.inl (Or.inl h)
        · by_cases hxs : x = start
          · exact Or.inl (Or.inr hxs)
          · exact Or.inr (by omega)
    · rw [r2.jd, r1.jd]
    · by_cases hxs : x = start
      · exact r1.nojd x hxs hj
      · exact r2.nojd x (by omega) ((r1.jd x).2 hj)

/-! ## processing jump targets -/

/-- effect of `for absolute_jump in absolute_jumpdest`: `is_immediate` unchanged; exactly the targets
become (or stay) `is_jumpdest`; every target is inside the section and was not `is_immediate`
(else `BackwardJumpToImmediateBytes`) -/
structure JumpRel (len : Nat) (jumps jumps' : Array InstrInfo) (ts : List Int) : Prop where
  imm : ∀ x, ImmAt jumps' x ↔ ImmAt jumps x
  jd : ∀ x, JdAt jumps' x ↔ JdAt jumps x ∨ ∃ t, t ∈ ts ∧ x = t.toNat
  tgt : ∀ t, t ∈ ts → 0 ≤ t ∧ t < (len : Int) ∧ ¬ ImmAt jumps t.toNat

theorem processJump_rel {len i : Nat} {ns nb : Int} {jumps j' : Array InstrInfo} {t : Int}
    (h : processJump len i ns nb jumps t = .ok j') : JumpRel len jumps j' [t] := by
  have hrange := processJump_ok h
  unfold processJump at h
  have hx := ite_err_eq_ok h; clear h; obtain ⟨_, h⟩ := hx
  have hx := ite_err_eq_ok h; clear h; obtain ⟨_, h⟩ := hx
  dsimp only at h
  split at h
  · cases h
  rename_i target hk
  have hx := ite_err_eq_ok h; clear h; obtain ⟨himm, h⟩ := hx
  have himm' : target.isImm = false := by simpa using himm
  -- in both branches the entry is replaced by one with `isJumpdest = true` and the same `isImm`
  have key : ∃ info' : InstrInfo, j' = jumps.setIfInBounds t.toNat info' ∧
      info'.isImm = target.isImm ∧ info'.isJumpdest = true := by
    split at h
    · have hx := ite_err_eq_ok h; clear h; obtain ⟨_, h⟩ := hx
      have hx := ite_err_eq_ok h; clear h; obtain ⟨_, h⟩ := hx
      simp only [R.ok.injEq] at h
      exact ⟨_, h.symm, rfl, rfl⟩
    · simp only [R.ok.injEq] at h
      exact ⟨_, h.symm, rfl, rfl⟩
  obtain ⟨info', hj', hi1, hi2⟩ := key
  subst hj'
  have hnot : ¬ ImmAt jumps t.toNat := by
    rintro ⟨i2, h1, h2⟩
    rw [hk] at h1
    cases h1
    rw [himm'] at h2
    cases h2
  refine ⟨fun x => ?_, fun x => ?_, fun t' ht' => ?_⟩
  · rw [ImmAt_set hk]
    by_cases hx : x = t.toNat
    · subst hx
      rw [hi1, himm']
      simp [hnot]
    · simp [hx]
  · rw [JdAt_set hk]
    by_cases hx : x = t.toNat
    · simp [hx, hi2]
    · simp [hx]
  · simp only [List.mem_singleton] at ht'
    subst ht'
    exact ⟨hrange.1, hrange.2, hnot⟩

theorem processJumps_rel {len i : Nat} {ns nb : Int} : ∀ (ts : List Int)
    (jumps j' : Array InstrInfo), processJumps len i ns nb jumps ts = .ok j' →
    JumpRel len jumps j' ts
  | [], jumps, j', h => by
    simp only [processJumps, R.ok.injEq] at h
    subst h
    exact ⟨fun x => Iff.rfl, fun x => by simp, fun t ht => by simp at ht⟩
  | t0 :: ts, jumps, j', h => by
    simp only [processJumps] at h
    rw [bind_eq_ok] at h
    obtain ⟨j1, h1, h2⟩ := h
    have r1 := processJump_rel h1
    have r2 := processJumps_rel ts j1 j' h2
    refine ⟨fun x => ?_, fun x => ?_, fun t ht => ?_⟩
    · rw [r2.imm, r1.imm]
    · rw [r2.jd, r1.jd]
      constructor
      · rintro ((h | ⟨t, ht, hx⟩) | ⟨t, ht, hx⟩)
        · exact Or.inl h
        · simp only [List.mem_singleton] at ht
          subst ht
          exact Or.inr ⟨t, List.mem_cons_self .., hx⟩
        · exact Or.inr ⟨t, List.mem_cons_of_mem _ ht, hx⟩
      · rintro (h | ⟨t, ht, hx⟩)
        · exact Or.inl (Or.inl h)
        · rcases List.mem_cons.1 ht with rfl | ht
          · exact Or.inl (Or.inr ⟨t, List.mem_singleton.2 rfl, hx⟩)
          · exact Or.inr ⟨t, ht, hx⟩
    · rcases List.mem_cons.1 ht with rfl | ht
      · exact r1.tgt t (List.mem_singleton.2 rfl)
      · obtain ⟨a, b, c⟩ := r2.tgt t ht
        exact ⟨a, b, fun hi => c ((r1.imm _).2 hi)⟩

/-! ## the RJUMPV table is marked by `opSpecific` -/

theorem opSpecific_jumps_ne {c : Ctx} {i op : Nat} {inf : OpInfo} {this : InstrInfo}
    {jumps : Array InstrInfo} {tr : Tracker} {isRet : Bool} (hne : op ≠ RJUMPV) :
    Holds (fun r => r.jumps = jumps) (opSpecific c i op inf this jumps tr isRet) := by
  unfold opSpecific
  dsimp only
  repeat' first
    | exact holds_err
    | exact holds_panic
    | (refine holds_ite (fun _ => ?_) (fun _ => ?_))
    | (refine holds_bind (fun _ _ => ?_))
    | exact holds_pure rfl
    | exact holds_ok rfl
    | contradiction
    | split

theorem opSpecific_jumps_rjumpv {c : Ctx} {i : Nat} {inf : OpInfo} {this : InstrInfo}
    {jumps : Array InstrInfo} {tr : Tracker} {isRet : Bool} {r : OpRes}
    (h : opSpecific c i RJUMPV inf this jumps tr isRet = .ok r) :
    markImmRange jumps (i + 2) r.extra = .ok r.jumps := by
  unfold opSpecific at h
  dsimp only at h
  rw [if_neg (by decide), if_pos rfl, bind_eq_ok] at h
  obtain ⟨m, hm, h⟩ := h
  have hx := ite_err_eq_ok h; clear h; obtain ⟨hlt, h⟩ := hx
  rw [bind_eq_ok] at h
  obtain ⟨j2, hj2, h⟩ := h
  rw [bind_eq_ok] at h
  obtain ⟨ts, hts, h⟩ := h
  simp only [pure_def, R.ok.injEq] at h
  subst h
  exact hj2

/-! ## the loop invariant -/

/-- the jump target `t` (absolute, as computed by the validator) is inside the section and
`is_jumpdest` -/
def Tgt (code : Array Nat) (jumps : Array InstrInfo) (t : Int) : Prop :=
  0 ≤ t ∧ t < (code.size : Int) ∧ JdAt jumps t.toNat

/-- all targets of the relative jump at instruction start `j` (if it is one) are `is_jumpdest` -/
def Marked (code : Array Nat) (jumps : Array InstrInfo) (j : Nat) : Prop :=
  (code[j]? = some RJUMP ∨ code[j]? = some RJUMPI →
    ∀ v, u16At code (j + 1) = some v → Tgt code jumps ((j + 3 : Int) + toI16 v)) ∧
  (code[j]? = some RJUMPV → ∀ m, code[j + 1]? = some m → ∀ k, k ≤ m →
    ∀ v, u16At code (j + 2 + 2 * k) = some v →
      Tgt code jumps ((j + 2 + 2 * (m + 1) : Int) + toI16 v))

theorem Marked.mono {code : Array Nat} {jumps jumps' : Array InstrInfo} {j : Nat}
    (hjd : ∀ x, JdAt jumps x → JdAt jumps' x) (h : Marked code jumps j) : Marked code jumps' j :=
  ⟨fun hc v hv => let ⟨a, b, c⟩ := h.1 hc v hv; ⟨a, b, hjd _ c⟩,
   fun hc m hm k hk v hv => let ⟨a, b, c⟩ := h.2 hc m hm k hk v hv; ⟨a, b, hjd _ c⟩⟩

structure Inv (c : Ctx) (s : St) : Prop where
  reach : Reach c.code 0 s.i
  excl : ∀ x, JdAt s.jumps x → ¬ ImmAt s.jumps x
  starts : ∀ x, x < s.i → Reach c.code 0 x ∨ ImmAt s.jumps x
  marked : ∀ j, Reach c.code 0 j → j < s.i → Marked c.code s.jumps j

theorem step_inv {c : Ctx} {s s' : St} (h : step c s = .ok s') (inv : Inv c s) : Inv c s' := by
  obtain ⟨hok, hnext⟩ := step_ok h
  unfold step at h
  rw [bind_eq_ok] at h
  obtain ⟨op, hop, h⟩ := h
  have hcode := byteAt_ok hop
  split at h
  · cases h
  rename_i inf hinf
  have hx := ite_err_eq_ok h; clear h; obtain ⟨hne, h⟩ := hx
  split at h
  · cases h
  rename_i this0 hthis
  dsimp only at h
  have hx := ite_err_eq_ok h; clear h; obtain ⟨_, h⟩ := hx
  have hx := ite_err_eq_ok h; clear h; obtain ⟨himm, h⟩ := hx
  rw [bind_eq_ok] at h
  obtain ⟨j1, hj1, h⟩ := h
  rw [bind_eq_ok] at h
  obtain ⟨r, hr, h⟩ := h
  have hx := ite_err_eq_ok h; clear h; obtain ⟨_, h⟩ := hx
  rw [bind_eq_ok] at h
  obtain ⟨j2, hj2, h⟩ := h
  simp only [pure_def, R.ok.injEq] at h
  subst h
  dsimp only at hnext ⊢
  have hi : s.i < c.code.size := lt_of_getElem? hcode
  -- A: the entry of this instruction is rewritten with the same flags
  have hA := flags_set_same (jumps := s.jumps) (k := s.i) (info := this0)
    (info' := if (!s.afterTerm) = true then
        { this0 with smallest := min this0.smallest s.nextSmallest,
                     biggest := max this0.biggest s.nextBiggest } else this0) hthis
    (by split <;> rfl) (by split <;> rfl)
  -- B: the table-sized immediates; C: the RJUMPV table; D: the jump targets
  have hB := markImmRange_rel _ _ _ _ hj1
  have hC : MarkRel j1 r.jumps (fun x => s.i + 2 ≤ x ∧ x < s.i + 2 + r.extra) := by
    by_cases hv : op = RJUMPV
    · subst hv
      exact markImmRange_rel _ _ _ _ (opSpecific_jumps_rjumpv hr)
    · have he : r.extra = 0 := opSpecific_extra hv r hr
      have hj : r.jumps = j1 := opSpecific_jumps_ne hv r hr
      rw [he, hj]
      exact ⟨fun x => ⟨fun h => Or.inl h, fun h => h.elim id (fun h => by omega)⟩,
             fun x => Iff.rfl, fun x hx => by omega⟩
  have hD := processJumps_rel _ _ _ hj2
  have hshape : r.extra = 0 ∨ inf.imm = 1 := by
    by_cases hv : op = RJUMPV
    · subst hv
      right
      have := imm_table.2.2; rw [hinf] at this; simpa using this
    · exact Or.inl (opSpecific_extra hv r hr)
  -- flags along the chain
  have imm_chain : ∀ x, ImmAt j2 x ↔ ImmAt s.jumps x ∨ (s.i + 1 ≤ x ∧ x < s.i + 1 + inf.imm) ∨
      (s.i + 2 ≤ x ∧ x < s.i + 2 + r.extra) := by
    intro x
    rw [hD.imm, hC.imm, hB.imm, (hA x).1]
    constructor
    · rintro ((h | h) | h)
      · exact Or.inl h
      · exact Or.inr (Or.inl h)
      · exact Or.inr (Or.inr h)
    · rintro (h | h | h)
      · exact Or.inl (Or.inl h)
      · exact Or.inl (Or.inr h)
      · exact Or.inr h
  have jd_old : ∀ x, JdAt r.jumps x ↔ JdAt s.jumps x := by
    intro x
    rw [hC.jd, hB.jd, (hA x).2]
  have jd_mono : ∀ x, JdAt s.jumps x → JdAt j2 x := fun x h =>
    (hD.jd x).2 (Or.inl ((jd_old x).2 h))
  have hlen : immLen c.code s.i = inf.imm + r.extra := by omega
  refine ⟨?_, ?_, ?_, ?_⟩
  · -- reach
    have := Reach.snoc inv.reach hi
    rw [hlen] at this
    have e : s.i + 1 + inf.imm + r.extra = s.i + 1 + (inf.imm + r.extra) := by omega
    rw [e]; exact this
  · -- excl
    intro x hjd himm2
    rcases (hD.jd x).1 hjd with hold | ⟨t, ht, hxt⟩
    · have hold' := (jd_old x).1 hold
      rcases (imm_chain x).1 himm2 with h | h | h
      · exact inv.excl x hold' h
      · exact hB.nojd x h (((hA x).2).2 hold')
      · exact hC.nojd x h ((hB.jd x).2 (((hA x).2).2 hold'))
    · subst hxt
      exact (hD.tgt t ht).2.2 ((hD.imm _).1 himm2)
  · -- starts
    intro x hx
    dsimp only at hx
    by_cases h1 : x < s.i
    · rcases inv.starts x h1 with h | h
      · exact Or.inl h
      · exact Or.inr ((imm_chain x).2 (Or.inl h))
    · by_cases h2 : x = s.i
      · subst h2; exact Or.inl inv.reach
      · right
        apply (imm_chain x).2
        right
        rcases hshape with h0 | h1'
        · left; omega
        · by_cases h3 : x = s.i + 1
          · left; omega
          · right; omega
  · -- marked
    intro j hj hlt
    dsimp only at hlt
    by_cases h1 : j < s.i
    · exact Marked.mono jd_mono (inv.marked j hj h1)
    · by_cases h2 : j = s.i
      · subst h2
        constructor
        · intro hc v hv
          have hop' : op = RJUMP ∨ op = RJUMPI := by
            rcases hc with hc | hc <;> (rw [hcode] at hc; cases hc; simp)
          obtain ⟨v0, hv0, ht⟩ := opSpecific_rjump hop' hr
          rw [hv0] at hv; cases hv
          have hmem : (toI16 v + 3 + (s.i : Int)) ∈ r.targets := by
            rw [ht]; exact List.mem_cons_self ..
          obtain ⟨a, b, _⟩ := hD.tgt _ hmem
          have e : ((s.i + 3 : Int) + toI16 v) = toI16 v + 3 + (s.i : Int) := by omega
          rw [e]
          exact ⟨a, b, (hD.jd _).2 (Or.inr ⟨_, hmem, rfl⟩)⟩
        · intro hc m hm k hk v hv
          rw [hcode] at hc; cases hc
          obtain ⟨m0, hm0, he, _, hall⟩ := opSpecific_rjumpv hr
          rw [hm0] at hm; cases hm
          obtain ⟨v0, hv0, hmem⟩ := hall k hk
          rw [hv0] at hv; cases hv
          obtain ⟨a, b, _⟩ := hD.tgt _ hmem
          have e : ((s.i + 2 + 2 * (m + 1) : Int) + toI16 v) =
              toI16 v + (s.i : Int) + 2 + (r.extra : Int) := by rw [he]; omega
          rw [e]
          exact ⟨a, b, (hD.jd _).2 (Or.inr ⟨_, hmem, rfl⟩)⟩
      · exfalso
        have := Reach.next_le inv.reach hj (by omega)
        omega

theorem loop_inv (c : Ctx) : ∀ (fuel : Nat) (s s' : St), loop c fuel s = .ok s' → Inv c s →
    Inv c s' ∧ ¬ s'.i < c.code.size := by
  intro fuel
  induction fuel with
  | zero =>
    intro s s' h inv
    unfold loop at h
    by_cases hi : s.i < c.code.size
    · rw [if_pos hi] at h; cases h
    · rw [if_neg hi] at h; cases h; exact ⟨inv, hi⟩
  | succ fuel ih =>
    intro s s' h inv
    unfold loop at h
    by_cases hi : s.i < c.code.size
    · rw [if_pos hi] at h
      dsimp only at h
      rw [bind_eq_ok] at h
      obtain ⟨s1, h1, h2⟩ := h
      exact ih s1 s' h2 (step_inv h1 inv)
    · rw [if_neg hi] at h; cases h; exact ⟨inv, hi⟩

/-- **per section**: whatever `validate_eof_code` accepts has all its relative jumps — RJUMP, RJUMPI
and every entry of every RJUMPV table — landing on instruction starts -/
theorem validateEofCode_jumps {code : Array Nat} {dataSize idx nContainers : Nat}
    {types : Array TypesSection} {tr tr' : Tracker}
    (h : validateEofCode code dataSize idx nContainers types tr = .ok tr') :
    JumpsOnStarts code := by
  unfold validateEofCode at h
  split at h
  · cases h
  rename_i thisTypes _
  dsimp only at h
  rw [bind_eq_ok] at h
  obtain ⟨s, hs, _⟩ := h
  have inv0 : Inv { code := code, dataSize := dataSize, nContainers := nContainers, types := types,
                    thisTypes := thisTypes }
      { jumps := Array.replicate code.size {}, afterTerm := false,
        nextSmallest := thisTypes.inputs, nextBiggest := thisTypes.inputs,
        isReturning := false, i := 0, tracker := tr } := by
    refine ⟨Reach.refl 0, ?_, fun x hx => absurd hx (Nat.not_lt_zero _),
      fun j _ hj => absurd hj (Nat.not_lt_zero _)⟩
    rintro x ⟨info, h1, h2⟩ _
    dsimp only at h1
    rw [Array.getElem?_replicate] at h1
    split at h1
    · cases h1; cases h2
    · cases h1
  obtain ⟨inv, hend⟩ := loop_inv _ _ _ _ hs inv0
  dsimp only at inv hend
  have tgt_start : ∀ t : Int, Tgt code s.jumps t → IsInstrStart code t.toNat := by
    rintro t ⟨h0, hlt, hjd⟩
    have hlt' : t.toNat < code.size := by omega
    refine ⟨?_, hlt'⟩
    rcases inv.starts t.toNat (by omega) with h | h
    · exact h
    · exact absurd h (inv.excl _ hjd)
  intro j hj
  have hm := inv.marked j hj.1 (by have := hj.2; omega)
  exact ⟨fun hc v hv => tgt_start _ (hm.1 hc v hv),
         fun hc m hm' k hk v hv => tgt_start _ (hm.2 hc m hm' k hk v hv)⟩

end Revm.Proofs.EofValidate
