import Revm.Proofs.TxValidate4
/-! C02, validation part 5: a valid transaction is in none of the departure regions; validation never
panics. -/
set_option linter.unusedSimpArgs false
set_option linter.unusedVariables false
namespace Revm.Proofs.TxValidate
open Revm
open Revm.Model.GasCalc (enabled canon calculateInitialTxGas)
open Revm.Model.GasCalc.SpecId
open Revm.Model.TxValidate
open Revm.Spec.GasCalc (Fork intrinsicGas floorGas)
open Revm.Spec.TxValid

theorem valid_no_gap (f : Fork) (cfg : Cfg) (blk : Block) (tx : Tx) (snd : Sender)
    (hbal : snd.balance < W) (h : ValidTx f cfg blk tx snd) :
    ¬ TypeGap f tx snd ∧ ¬ BlobFeeSaturation tx snd := by
  obtain ⟨_, _, _, hty, _, _, _, _, _, hsnd, _, hfunds⟩ := h
  constructor
  · intro hg
    rcases hg with ⟨h1, h2⟩ | ⟨h1, h2⟩
    · have := hty.2.1 h1; rw [h2] at this; exact nomatch this
    · unfold SenderOk at hsnd
      rcases hsnd with h | ⟨h, _⟩
      · rw [h1] at h; exact nomatch h
      · rw [h2] at h; exact nomatch h
  · intro ⟨h1, _, h3⟩
    unfold FundsOk maxCost at hfunds
    have : blobFee tx = tx.maxFeePerBlobGas.getD 0 * blobGas tx := rfl
    generalize tx.gasLimit * tx.gasPrice = a at *
    generalize tx.maxFeePerBlobGas.getD 0 * blobGas tx = b at *
    omega

/-- completeness at full strength: every valid transaction is accepted -/
theorem valid_accepted (f : Fork) (cfg : Cfg) (blk : Block) (tx : Tx) (snd : Sender)
    (hr : InRange blk tx snd) (hfit : GasFits f tx) (h : ValidTx f cfg blk tx snd) :
    validate f.id cfg blk tx snd = .ok := by
  obtain ⟨h1, h2⟩ := valid_no_gap f cfg blk tx snd hr.balance h
  exact (validate_iff f cfg blk tx snd hr hfit h1 h2).2 h

/-! ### no panic -/

theorem resOf_ne_panic (o : Option Err) : resOf o ≠ .panic := by cases o <;> exact fun h => nomatch h

theorem andThen_ne_panic (r k : Res) (h1 : r ≠ .panic) (h2 : r = .ok → k ≠ .panic) :
    r.andThen k ≠ .panic := by
  cases r with
  | ok => exact h2 rfl
  | err e => exact fun h => nomatch h
  | panic => exact absurd rfl h1

theorem feeChecks_ne_panic (s : Nat) (blk : Block) (tx : Tx) : feeChecks s blk tx ≠ .panic := by
  unfold feeChecks
  repeat' split
  all_goals exact fun h => nomatch h

theorem initcodeCheck_ne_panic (s : Nat) (cfg : Cfg) (tx : Tx) : initcodeCheck s cfg tx ≠ .panic := by
  unfold initcodeCheck
  split
  · split <;> exact fun h => nomatch h
  · exact fun h => nomatch h

theorem validateTx_ne_panic (f : Fork) (cfg : Cfg) (blk : Block) (tx : Tx)
    (hhdr : hasEIP4844 f = true → blk.blobGasPrice.isSome = true) :
    validateTx (canon f.id) cfg blk tx ≠ .panic := by
  unfold validateTx
  split
  · exact fun h => nomatch h
  · split
    · exact fun h => nomatch h
    · split
      · exact fun h => nomatch h
      · apply andThen_ne_panic _ _ (feeChecks_ne_panic _ _ _)
        intro _
        apply andThen_ne_panic _ _ (initcodeCheck_ne_panic _ _ _)
        intro _
        rw [blobChecks_eq f cfg blk tx hhdr, authChecks_eq]
        exact andThen_ne_panic _ _ (resOf_ne_panic _) (fun _ => resOf_ne_panic _)

theorem validateTxAgainstState_ne_panic (s : Nat) (tx : Tx) (snd : Sender)
    (hn : ∀ n, tx.nonce = some n → n < U64) : validateTxAgainstState s tx snd ≠ .panic := by
  unfold validateTxAgainstState
  split
  · exact fun h => nomatch h
  · rw [nonceCheck_eq tx snd hn]
    apply andThen_ne_panic _ _ (resOf_ne_panic _)
    intro _
    split
    · exact fun h => nomatch h
    · split <;> exact fun h => nomatch h

/-- validation never reaches `expect("already checked")` nor the `initcode_cost` overflow panic -/
theorem validate_ne_panic (f : Fork) (cfg : Cfg) (blk : Block) (tx : Tx) (snd : Sender)
    (hr : InRange blk tx snd) (hfit : GasFits f tx) : validate f.id cfg blk tx snd ≠ .panic := by
  unfold validate validateCanon validateEnv
  rw [validateBlockEnv_eq, validateInitialTxGas_eq f tx hfit]
  apply andThen_ne_panic
  · apply andThen_ne_panic _ _ (resOf_ne_panic _)
    intro h
    exact validateTx_ne_panic f cfg blk tx (header_ok_blob f blk h)
  · intro _
    exact andThen_ne_panic _ _ (resOf_ne_panic _)
      (fun _ => validateTxAgainstState_ne_panic _ tx snd hr.nonce)

end Revm.Proofs.TxValidate
