import Revm.Proofs.FrameTotal
/-! C07: under journal well-formedness the frame functions never panic, and they keep it. -/
namespace Revm.Proofs.Frame
open Revm Revm.Model.Journal Revm.Model.Frame Revm.Spec.JournalAbs Revm.Proofs.Journal
set_option linter.unusedSimpArgs false
set_option linter.unusedVariables false

/-- what a `make_*_frame` guarantees about the journal it leaves -/
structure FrameOut (s s1 : JState) (r : FrameOrResult) : Prop where
  good : Good s1
  grows : Grows s s1
  len : s.journal.length ≤ s1.journal.length
  cp : ∀ cp, r = .frame cp → s.journal.length ≤ cp.journalI ∧ cp.journalI < s1.journal.length

theorem journal_len_pos {s : JState} (g : Good s) : 1 ≤ s.journal.length := by
  cases hj : s.journal with
  | nil => exact absurd hj g.ne
  | cons t r => simp

theorem callValueStep_good {db : Db} {s : JState} (hdb : DbBal db) (g : Good s) (inp : CallInputs) :
    ∃ s' r, callValueStep db s inp = some (s', r) ∧ Good s' ∧ Grows s s' ∧ s'.journal.length = s.journal.length := by
  unfold callValueStep
  cases hv : inp.value with
  | transfer v =>
    simp only
    by_cases h0 : v = 0
    · obtain ⟨s1, c, h1, g1, gr1, l1, _⟩ := loadAccount_good hdb g inp.target
      obtain ⟨s2, h2, g2, gr2, l2⟩ := touch_good hdb g1 inp.target
      exact ⟨s2, none, by simp [h0, h1, h2, bind], g2, Grows.trans gr1 gr2, by rw [l2, l1]⟩
    · obtain ⟨s1, r, h1, g1, gr1, l1⟩ := transfer_good hdb g inp.caller inp.target v
      exact ⟨s1, r, by simp [h0, h1], g1, gr1, l1⟩
  | apparent v => exact ⟨s, none, rfl, g, Grows.refl _, rfl⟩

/-- tail of `make_call_frame` inside the checkpoint `cp` -/
theorem callTail_total {db : Db} {s : JState} (hdb : DbBal db) (g : Good s) (cp : Checkpoint) (inp : CallInputs)
    (o : CallOracle) (h1 : 1 ≤ cp.journalI) (hlt : cp.journalI < s.journal.length) :
    ∃ s1 r, callTail true db s cp inp o = some (s1, r) ∧ Good s1 ∧ Grows s s1 ∧ cp.journalI ≤ s1.journal.length ∧
      (∀ cp', r = .frame cp' → cp' = cp ∧ cp.journalI < s1.journal.length) := by
  obtain ⟨s2, c, h2, g2, gr2, l2, p2⟩ := loadCode_good hdb g inp.bytecodeAddr
  obtain ⟨acc, hacc⟩ := isSome_cases p2
  simp only [callTail, h2, bind, Option.bind_some, hacc]
  by_cases hext : inp.isExtDelegate = true ∧ (!o.codeIsEof) = true
  · obtain ⟨s3, h3, g3, gr3, l3⟩ := revert_good (cp := cp) g2 h1 (by omega)
    exact ⟨s3, .result .invalidExtDelegateCallTarget, by simp [hext, h3], g3, Grows.trans gr2 gr3, by omega, fun _ h => by cases h⟩
  · simp only [hext, if_false]
    by_cases hem : o.codeIsEmpty = true
    · exact ⟨commit s2, .result .stop, by simp [hem], good_commit g2, Grows.trans gr2 (Grows.of_state_eq rfl),
        by show cp.journalI ≤ s2.journal.length; omega, fun _ h => by cases h⟩
    · simp only [hem, if_false]
      cases hd : acc.info.code.bind db.delegate with
      | none => exact ⟨s2, .frame cp, by simp [hd], g2, gr2, by omega, fun _ h => by cases h; exact ⟨rfl, by omega⟩⟩
      | some d =>
        obtain ⟨s3, c3, h3, g3, gr3, l3, _⟩ := loadCode_good hdb g2 d
        exact ⟨s3, .frame cp, by simp [hd, h3], g3, Grows.trans gr2 gr3, by omega, fun _ h => by cases h; exact ⟨rfl, by omega⟩⟩

/-- **`make_call_frame` never panics** under journal well-formedness, and keeps it -/
theorem makeCallFrame_total {db : Db} {s : JState} (hdb : DbBal db) (g : Good s) (inp : CallInputs) (o : CallOracle) :
    ∃ s1 r, makeCallFrame db s inp o = some (s1, r) ∧ FrameOut s s1 r := by
  simp only [makeCallFrame, makeCallFrameCore]
  by_cases hd : s.depth > CALL_STACK_LIMIT
  · exact ⟨s, .result .callTooDeep, by simp [hd], g, Grows.refl _, Nat.le_refl _, fun _ h => by cases h⟩
  · obtain ⟨s0, x, h0, g0, gr0, l0⟩ := loadAccountDelegated_good hdb g inp.bytecodeAddr
    obtain ⟨x1, x2, x3⟩ := x
    have gsc := good_checkpoint g0
    have hcp : (checkpoint s0).2.journalI = s.journal.length := by show s0.journal.length = _; exact l0
    have hscl : (checkpoint s0).1.journal.length = s.journal.length + 1 := by simp [checkpoint, l0]
    have grsc : Grows s (checkpoint s0).1 := Grows.trans gr0 (Grows.of_state_eq rfl)
    have hpos := journal_len_pos g
    obtain ⟨sv, terr, hv, gv, grv, lv⟩ := callValueStep_good hdb gsc inp
    simp only [hd, if_false, h0, bind, Option.bind_some, hv]
    cases terr with
    | some e =>
      obtain ⟨s3, h3, g3, gr3, l3⟩ := revert_good (cp := (checkpoint s0).2) gv (by omega) (by omega)
      exact ⟨s3, .result (transferErrRes e), by simp [h3], g3, Grows.trans grsc (Grows.trans grv gr3), by omega, fun _ h => by cases h⟩
    | none =>
      simp only
      cases hpc : (if inp.isExtDelegate = true then none else o.precompile) with
      | some pc =>
        simp only
        cases hres : pc.toRes with
        | none => exact ⟨sv, .fatal, by simp, gv, Grows.trans grsc grv, by omega, fun _ h => by cases h⟩
        | some r =>
          simp only
          by_cases hok : r.isOk = true
          · exact ⟨commit sv, .result r, by simp [hok], good_commit gv, Grows.trans grsc (Grows.trans grv (Grows.of_state_eq rfl)),
              by show s.journal.length ≤ sv.journal.length; omega, fun _ h => by cases h⟩
          · obtain ⟨s3, h3, g3, gr3, l3⟩ := revert_good (cp := (checkpoint s0).2) gv (by omega) (by omega)
            exact ⟨s3, .result r, by simp [hok, h3], g3, Grows.trans grsc (Grows.trans grv gr3), by omega, fun _ h => by cases h⟩
      | none =>
        simp only
        obtain ⟨s3, r, h3, g3, gr3, l3, hf⟩ := callTail_total hdb gv (checkpoint s0).2 inp o (by omega) (by omega)
        refine ⟨s3, r, h3, g3, Grows.trans grsc (Grows.trans grv gr3), by omega, ?_⟩
        intro cp' hr
        obtain ⟨rfl, hlt⟩ := hf cp' hr
        exact ⟨by omega, hlt⟩

theorem callReturn_total {s : JState} {cp : Checkpoint} (g : Good s) (ok : Bool) (h1 : 1 ≤ cp.journalI)
    (hlt : cp.journalI < s.journal.length) :
    ∃ s', callReturn s cp ok = some s' ∧ Good s' ∧ Grows s s' ∧ cp.journalI ≤ s'.journal.length := by
  unfold callReturn
  cases ok with
  | true => exact ⟨commit s, by simp, good_commit g, Grows.of_state_eq rfl, by show _ ≤ s.journal.length; omega⟩
  | false =>
    obtain ⟨s', h, g', gr, l⟩ := revert_good (cp := cp) g h1 (by omega)
    exact ⟨s', by simp [h], g', gr, by omega⟩

/-- common tail of the two create functions -/
theorem createTail_total {db : Db} {s : JState} (hdb : DbBal db) (g : Good s) (spec caller v created : Nat)
    (ip hs : Addr → Bool) (hc : (s.state caller).isSome) :
    ∃ s1 r, createTail db s spec caller v created ip hs = some (s1, r, created) ∧ FrameOut s s1 r ∧
      (∀ cp, r = .frame cp → (s1.state created).isSome) := by
  unfold createTail
  by_cases hp : ip created = true
  · exact ⟨s, .result .createCollision, by simp [hp], ⟨g, Grows.refl _, Nat.le_refl _, fun _ h => by cases h⟩,
      fun _ h => by cases h⟩
  · obtain ⟨s2, c, h2, g2, gr2, l2, p2⟩ := loadAccount_good hdb g created
    obtain ⟨s3, r, h3, g3, gr3, hr⟩ := createAccountCheckpoint_good g2 (caller := caller) (a := created) (hs created) v spec p2
      (gr2.acct caller hc)
    simp only [hp, Bool.false_eq_true, if_false, h2, bind, Option.bind_some, h3]
    cases r with
    | ok cp =>
      simp only at hr
      refine ⟨s3, .frame cp, rfl, ⟨g3, Grows.trans gr2 gr3, by omega, ?_⟩, fun _ _ => gr3.acct created p2⟩
      intro cp' h; cases h
      obtain ⟨rfl, hl⟩ := hr
      have : (checkpoint s2).2.journalI = s2.journal.length := rfl
      omega
    | error e =>
      simp only at hr
      exact ⟨s3, .result (createErrRes e), rfl, ⟨g3, Grows.trans gr2 gr3, by omega, fun _ h => by cases h⟩,
        fun _ h => by cases h⟩

/-- **`make_create_frame` never panics** -/
theorem makeCreateFrame_total {db : Db} {s : JState} (hdb : DbBal db) (g : Good s) (spec : Nat) (inp : CreateInputs)
    (o : CreateOracle) :
    ∃ s1 r a, makeCreateFrame db s spec inp o = some (s1, r, a) ∧ FrameOut s s1 r ∧
      (∀ cp, r = .frame cp → (s1.state a).isSome) := by
  unfold makeCreateFrame
  by_cases hd : s.depth > CALL_STACK_LIMIT
  · exact ⟨s, .result .callTooDeep, 0, by simp [hd], ⟨g, Grows.refl _, Nat.le_refl _, fun _ h => by cases h⟩, fun _ h => by cases h⟩
  · by_cases hef : spec ≥ OSAKA ∧ o.initStartsEF00 = true
    · exact ⟨s, .result .createInitCodeStartingEF00, 0, by simp [hd, hef], ⟨g, Grows.refl _, Nat.le_refl _, fun _ h => by cases h⟩,
        fun _ h => by cases h⟩
    · obtain ⟨s1, c, h1, g1, gr1, l1, p1⟩ := loadAccount_good hdb g inp.caller
      obtain ⟨cacc, hcacc⟩ := isSome_cases p1
      simp only [hd, hef, if_false, h1, bind, Option.bind_some, hcacc]
      by_cases hb : cacc.info.balance < inp.value
      · exact ⟨s1, .result .outOfFunds, 0, by simp [hb], ⟨g1, gr1, by omega, fun _ h => by cases h⟩, fun _ h => by cases h⟩
      · obtain ⟨s2, n, h2, g2, gr2, l2⟩ := incNonce_good hdb g1 p1
        simp only [hb, if_false, h2, Option.bind_some]
        cases n with
        | none => exact ⟨s2, .result .ret, 0, rfl, ⟨g2, Grows.trans gr1 gr2, by omega, fun _ h => by cases h⟩, fun _ h => by cases h⟩
        | some nonce =>
          simp only
          obtain ⟨s3, r, h3, fo, hp⟩ := createTail_total hdb g2 spec inp.caller inp.value (o.createdAddr (nonce - 1))
            o.isPrecompile o.hasStorage (gr2.acct _ p1)
          refine ⟨s3, r, _, h3, ⟨fo.good, Grows.trans gr1 (Grows.trans gr2 fo.grows), by have := fo.len; omega, ?_⟩, hp⟩
          intro cp hr
          have := fo.cp cp hr
          omega

/-- **`make_eofcreate_frame` never panics**; for a create transaction the caller is loaded (by `deduct_caller`) -/
theorem makeEofCreateFrame_total {db : Db} {s : JState} (hdb : DbBal db) (g : Good s) (spec : Nat) (inp : CreateInputs)
    (kind : EofCreateKind) (o : CreateOracle)
    (hcaller : ∀ d v f, kind = .tx d v f → (s.state inp.caller).isSome) :
    ∃ s1 r a, makeEofCreateFrame db s spec inp kind o = some (s1, r, a) ∧ FrameOut s s1 r ∧
      (∀ cp, r = .frame cp → (s1.state a).isSome) := by
  -- the part after the container checks
  have main : ∀ (createdOpt : Option Addr), ∃ s1 r a,
      (if s.depth > CALL_STACK_LIMIT then some (s, FrameOrResult.result .callTooDeep, 0) else do
        let (s, _) ← loadAccount db s inp.caller
        let c ← s.state inp.caller
        if c.info.balance < inp.value then some (s, .result .outOfFunds, 0) else do
        let (s, n) ← incNonce s inp.caller
        match n with
        | none => some (s, .result .ret, 0)
        | some nonce =>
          let created := match createdOpt with
            | some a => a
            | none => o.createdAddr (nonce - 1)
          createTail db s spec inp.caller inp.value created o.isPrecompile o.hasStorage) = some (s1, r, a) ∧
      FrameOut s s1 r ∧ (∀ cp, r = .frame cp → (s1.state a).isSome) := by
    intro createdOpt
    by_cases hd : s.depth > CALL_STACK_LIMIT
    · exact ⟨s, .result .callTooDeep, 0, by simp [hd], ⟨g, Grows.refl _, Nat.le_refl _, fun _ h => by cases h⟩, fun _ h => by cases h⟩
    · obtain ⟨s1, c, h1, g1, gr1, l1, p1⟩ := loadAccount_good hdb g inp.caller
      obtain ⟨cacc, hcacc⟩ := isSome_cases p1
      simp only [hd, if_false, h1, bind, Option.bind_some, hcacc]
      by_cases hb : cacc.info.balance < inp.value
      · exact ⟨s1, .result .outOfFunds, 0, by simp [hb], ⟨g1, gr1, by omega, fun _ h => by cases h⟩, fun _ h => by cases h⟩
      · obtain ⟨s2, n, h2, g2, gr2, l2⟩ := incNonce_good hdb g1 p1
        simp only [hb, if_false, h2, Option.bind_some]
        cases n with
        | none => exact ⟨s2, .result .ret, 0, rfl, ⟨g2, Grows.trans gr1 gr2, by omega, fun _ h => by cases h⟩, fun _ h => by cases h⟩
        | some nonce =>
          simp only
          obtain ⟨s3, r, h3, fo, hp⟩ := createTail_total hdb g2 spec inp.caller inp.value
            (match createdOpt with | some a => a | none => o.createdAddr (nonce - 1)) o.isPrecompile o.hasStorage (gr2.acct _ p1)
          refine ⟨s3, r, _, h3, ⟨fo.good, Grows.trans gr1 (Grows.trans gr2 fo.grows), by have := fo.len; omega, ?_⟩, hp⟩
          intro cp hr
          have := fo.cp cp hr
          omega
  cases kind with
  | opcode a =>
    simp only [makeEofCreateFrame]
    exact main (some a)
  | tx d v f =>
    by_cases hbad : (!d || !v) = true
    · obtain ⟨s2, n, h2, g2, gr2, l2⟩ := incNonce_good hdb g (hcaller d v f rfl)
      refine ⟨s2, .result .invalidEOFInitCode, 0, ?_, ⟨g2, gr2, by omega, fun _ h => by cases h⟩, fun _ h => by cases h⟩
      have hbad' : (!d) = true ∨ (!v) = true := by
        cases d <;> cases v <;> simp at hbad ⊢
      simp only [makeEofCreateFrame, if_pos hbad', h2, bind, Option.bind_some]
    · have hbad' : ¬ ((!d) = true ∨ (!v) = true) := by
        cases d <;> cases v <;> simp at hbad ⊢
      simp only [makeEofCreateFrame, if_neg hbad']
      exact main f

theorem createReturn_total {s : JState} {cp : Checkpoint} (g : Good s) (spec : Nat) (a : Addr) (r : CreateRet)
    (h1 : 1 ≤ cp.journalI) (hlt : cp.journalI < s.journal.length) (ha : (s.state a).isSome) :
    ∃ s' res, createReturn s spec cp a r = some (s', res) ∧ Good s' ∧ Grows s s' ∧ cp.journalI ≤ s'.journal.length := by
  obtain ⟨sr, hr, gr', grr, lr⟩ := revert_good (cp := cp) g h1 (by omega)
  unfold createReturn
  by_cases c1 : (!r.resultOk) = true
  · exact ⟨sr, .otherHalt, by simp [c1, hr], gr', grr, by omega⟩
  · by_cases c2 : spec ≥ LONDON ∧ r.firstByteEF = true
    · exact ⟨sr, .createContractStartingWithEF, by simp [c1, c2, hr], gr', grr, by omega⟩
    · by_cases c3 : spec ≥ SPURIOUS_DRAGON ∧ r.lenOverMax = true
      · exact ⟨sr, .createContractSizeLimit, by simp [c1, c2, c3, hr], gr', grr, by omega⟩
      · by_cases c4 : (!r.depositOk) = true ∧ spec ≥ HOMESTEAD
        · exact ⟨sr, .outOfGas, by simp [c1, c2, c3, c4, hr], gr', grr, by omega⟩
        · obtain ⟨s2, h2, g2, gr2, l2⟩ := setCode_good (good_commit g) (a := a) (if r.depositOk then r.codeHash else KECCAK_EMPTY) ha
          have c4' : ¬ ((!r.depositOk) = true ∧ spec ≥ HOMESTEAD) := c4
          refine ⟨s2, .ret, by simp only [c1, c2, c3, if_neg c4', if_false, h2, bind, Option.bind_some]; simp, g2, Grows.trans (Grows.of_state_eq (s := s) (s' := commit s) rfl) gr2, ?_⟩
          have : (commit s).journal.length = s.journal.length := rfl
          omega

theorem eofcreateReturn_total {s : JState} {cp : Checkpoint} (g : Good s) (a : Addr) (r : EofCreateRet)
    (h1 : 1 ≤ cp.journalI) (hlt : cp.journalI < s.journal.length) (ha : (s.state a).isSome)
    (hdec : r.decodes = true) :
    ∃ s' res, eofcreateReturn s cp a r = some (s', res) ∧ Good s' ∧ Grows s s' ∧ cp.journalI ≤ s'.journal.length := by
  obtain ⟨sr, hr, gr', grr, lr⟩ := revert_good (cp := cp) g h1 (by omega)
  unfold eofcreateReturn
  by_cases c1 : (!r.isReturnContract) = true
  · exact ⟨sr, .otherHalt, by simp [c1, hr], gr', grr, by omega⟩
  · by_cases c2 : r.lenOverMax = true
    · exact ⟨sr, .createContractSizeLimit, by simp [c1, c2, hr], gr', grr, by omega⟩
    · by_cases c3 : (!r.depositOk) = true
      · exact ⟨sr, .outOfGas, by simp [c1, c2, c3, hr], gr', grr, by omega⟩
      · obtain ⟨s2, h2, g2, gr2, l2⟩ := setCode_good (good_commit g) (a := a) r.codeHash ha
        refine ⟨s2, .returnContract, by simp [c1, c2, c3, hdec, h2, bind], g2, Grows.trans (Grows.of_state_eq (s := s) (s' := commit s) rfl) gr2, ?_⟩
        have : (commit s).journal.length = s.journal.length := rfl
        omega

end Revm.Proofs.Frame
