import Revm.Proofs.InterpHost
/-! Proofs for C25, part 6: CALL / CALLCODE / DELEGATECALL / STATICCALL / CREATE / CREATE2, then `execInstr`
and `step` as a whole. -/
set_option linter.unusedSimpArgs false
set_option linter.unusedVariables false
namespace Revm.Proofs.Interp
open Revm Revm.Model Revm.Model.Interp
open Revm.Proofs.Memory (WF)

/-- a memory range handed out by `call_helpers::resize_memory`: empty, or inside the first `L` bytes -/
def RangeOk (a b L : Nat) : Prop := a = b ∨ (a ≤ b ∧ b ≤ L)

section call
variable {s0 : IState} {N : IState → Prop} {A : Action → IState → Prop}

theorem resizeMemRange_sat {k : Nat} {ne : Bool} {L : Nat} {s : IState} (h : Rel k true ne L s0 s)
    (offset len : Nat) :
    Exec.Sat (resizeMemRange offset len s) (Halt s0)
      (fun p s' => ∃ L', L ≤ L' ∧ Rel k true ne L' s0 s' ∧ RangeOk p.1 p.2 L') := by
  unfold resizeMemRange
  refine sat_bind (asUsizeOrFail_sat h len _) ?_
  rintro len' _ ⟨rfl, hlen⟩
  split
  · refine sat_bind (asUsizeOrFail_sat h offset _) ?_
    rintro off _ ⟨rfl, hoff⟩
    refine sat_bind (resizeMem_sat h off len' hoff hlen) ?_
    intro _ s1 h1
    refine sat_pure ⟨max L (off + len'), by omega, h1, Or.inr ?_⟩
    have h2 := h1.memL
    have h3 := clen_lt h1.memWF
    have hI := Proofs.Memory.isize_lt_u64
    have : (off + len') % U64 = off + len' := Nat.mod_eq_of_lt (by omega)
    show off ≤ (off + len') % U64 ∧ (off + len') % U64 ≤ max L (off + len')
    rw [this]; omega
  · exact sat_pure ⟨L, Nat.le_refl _, h, Or.inl rfl⟩

theorem getMemRanges_sat {k : Nat} {st ne : Bool} {L : Nat} {s : IState} (h : Rel k st ne L s0 s) :
    Exec.Sat (getMemoryInputAndOutRanges s) (Halt s0)
      (fun p s' => ∃ L', Rel k true false L' s0 s' ∧ RangeOk p.2.1 p.2.2 L') := by
  unfold getMemoryInputAndOutRanges
  refine sat_bind (pop4_sat h) ?_
  rintro ⟨inOff, inLen, outOff, outLen⟩ s1 h1
  refine sat_bind (resizeMemRange_sat h1 inOff inLen) ?_
  rintro ⟨a, b⟩ s2 ⟨L2, _, h2, hr2⟩
  refine sat_bind (Q := fun _ s' => s2 = s') ?_ ?_
  · split
    · rename_i hab
      have : a ≤ b ∧ b ≤ L2 := by
        rcases hr2 with h0 | h0
        · simp only [] at h0 hab; omega
        · exact h0
      exact sat_mono (memSliceRange_sat h2 a b this.1 this.2) (fun _ _ hq => hq.1)
    · exact sat_pure rfl
  · rintro input _ rfl
    refine sat_bind (resizeMemRange_sat h2 outOff outLen) ?_
    rintro ⟨c, d⟩ s3 ⟨L3, _, h3, hr3⟩
    exact sat_pure ⟨L3, h3, hr3⟩

theorem calcCallGas_sat {k : Nat} {st ne : Bool} {L : Nat} {s : IState} (h : Rel k st ne L s0 s)
    (r : HostResp) (isEmpty hasTransfer : Bool) (lgl : Nat) :
    Exec.Sat (calcCallGas r isEmpty hasTransfer lgl s) (Halt s0)
      (fun _ s' => ∃ cc, 40 ≤ cc ∧ (hasTransfer = true → 9040 ≤ cc) ∧ Rel (k + cc) true ne L s0 s') := by
  unfold calcCallGas
  refine sat_bind (getS_sat h) ?_
  rintro _ _ ⟨rfl, rfl⟩
  refine sat_bind (gasCharge_sat h _) ?_
  intro _ s1 h1
  refine sat_bind (getS_sat h1) ?_
  rintro _ _ ⟨rfl, rfl⟩
  have hcc := callCost_ge s.spec hasTransfer r.isCold r.delegCold isEmpty
  exact sat_pure ⟨_, hcc.1, hcc.2, h1.mkStrict (by omega)⟩

/-- the common tail of the four call instructions: `calc_call_gas`, `gas!(gas_limit)`, stipend (`adj`), inputs -/
theorem callTail_sat {L : Nat} {s : IState} (h : Rel 0 true false L s0 s) (r : HostResp)
    (isEmpty hasTransfer : Bool) (lgl : Nat) (adj : Nat → Nat)
    (hadj : ∀ g, adj g ≤ g + 2300 ∧ (hasTransfer = false → adj g = g))
    (mk : Nat → IState → CallInputs) (hmk : ∀ g s', (mk g s').gasLimit = g)
    (rs re : Nat) (hret : ∀ g s', (mk g s').retStart = rs ∧ (mk g s').retEnd = re) (hrange : RangeOk rs re L) :
    Exec.Sat ((do
        let gasLimit ← calcCallGas r isEmpty hasTransfer lgl
        gasCharge gasLimit
        let s ← getS
        pure (Action.call (mk (adj gasLimit) s)) : M Action) s) (Halt s0)
      (fun a s' => ActRel s0 a s') := by
  refine sat_bind (calcCallGas_sat h r isEmpty hasTransfer lgl) ?_
  rintro gl s1 ⟨cc, hcc, hcct, h1⟩
  refine sat_bind (gasCharge_sat h1 gl) ?_
  intro _ s2 h2
  refine sat_bind (getS_sat h2) ?_
  rintro _ _ ⟨rfl, rfl⟩
  refine sat_pure ⟨_, _, _, _, h2, ?_, ?_⟩
  · show (mk (adj gl) s2).gasLimit + 1 ≤ 0 + cc + gl
    rw [hmk]
    obtain ⟨ha1, ha2⟩ := hadj gl
    cases ht : hasTransfer with
    | false => have := ha2 ht; omega
    | true => have := hcct ht; omega
  · show RetOk (Action.call (mk (adj gl) s2)) L
    unfold RetOk
    simp only []
    obtain ⟨e1, e2⟩ := hret (adj gl) s2
    rw [e1, e2]
    rcases hrange with h0 | h0
    · left; omega
    · right; exact h0

theorem stipend_adj (value : Nat) (g : Nat) :
    (if value ≠ 0 then U64ops.saturatingAdd g GasCalc.CALL_STIPEND else g) ≤ g + 2300
      ∧ (decide (value ≠ 0) = false →
          (if value ≠ 0 then U64ops.saturatingAdd g GasCalc.CALL_STIPEND else g) = g) := by
  have h2300 : GasCalc.CALL_STIPEND = 2300 := rfl
  have := satAdd_le_add g GasCalc.CALL_STIPEND
  refine ⟨by split <;> omega, fun e => ?_⟩
  have : ¬ value ≠ 0 := by simpa using e
  rw [if_neg this]

theorem callI_good (hb : Base s0) (hA : ∀ a s', ActRel s0 a s' → A a s') :
    GoodP (Halt s0) N A (callI s0) := by
  unfold callI
  refine hostCallAction_good hA _ _
    (fun b s' => ∃ L, Rel 0 true false L s0 s' ∧ RangeOk b.2.2.2.2.1 b.2.2.2.2.2 L) ?_ ?_
  · refine sat_bind (pop1_sat hb.rel) ?_
    intro lgl s1 h1
    refine sat_bind (popAddress_sat h1) ?_
    intro to s2 h2
    refine sat_bind (pop1_sat h2) ?_
    intro value s3 h3
    refine sat_bind (getS_sat h3) ?_
    rintro _ _ ⟨rfl, rfl⟩
    split
    · exact haltWith_sat h3 _
    · refine sat_bind (getMemRanges_sat h3) ?_
      rintro ⟨input, rs, re⟩ s4 ⟨L, h4, hr⟩
      exact sat_pure ⟨L, h4, hr⟩
  · rintro ⟨lgl, to, value, input, rs, re⟩ s1 r ⟨L, h1, hr⟩ _
    refine sat_bind (requireSome_sat h1 r) ?_
    rintro _ _ ⟨rfl, _⟩
    exact callTail_sat h1 r r.isEmpty (decide (value ≠ 0)) lgl
      (fun g => if value ≠ 0 then U64ops.saturatingAdd g GasCalc.CALL_STIPEND else g) (stipend_adj value)
      (fun g s => { input := input, retStart := rs, retEnd := re, gasLimit := g, bytecodeAddress := to,
                    targetAddress := to, caller := s.target, valueTransfer := true, value := value,
                    scheme := .call, isStatic := s.isStatic, isEof := false })
      (fun _ _ => rfl) rs re (fun _ _ => ⟨rfl, rfl⟩) hr

theorem callcodeI_good (hb : Base s0) (hA : ∀ a s', ActRel s0 a s' → A a s') :
    GoodP (Halt s0) N A (callcodeI s0) := by
  unfold callcodeI
  refine hostCallAction_good hA _ _
    (fun b s' => ∃ L, Rel 0 true false L s0 s' ∧ RangeOk b.2.2.2.2.1 b.2.2.2.2.2 L) ?_ ?_
  · refine sat_bind (pop1_sat hb.rel) ?_
    intro lgl s1 h1
    refine sat_bind (popAddress_sat h1) ?_
    intro to s2 h2
    refine sat_bind (pop1_sat h2) ?_
    intro value s3 h3
    refine sat_bind (getMemRanges_sat h3) ?_
    rintro ⟨input, rs, re⟩ s4 ⟨L, h4, hr⟩
    exact sat_pure ⟨L, h4, hr⟩
  · rintro ⟨lgl, to, value, input, rs, re⟩ s1 r ⟨L, h1, hr⟩ _
    refine sat_bind (requireSome_sat h1 r) ?_
    rintro _ _ ⟨rfl, _⟩
    exact callTail_sat h1 r false (decide (value ≠ 0)) lgl
      (fun g => if value ≠ 0 then U64ops.saturatingAdd g GasCalc.CALL_STIPEND else g) (stipend_adj value)
      (fun g s => { input := input, retStart := rs, retEnd := re, gasLimit := g, bytecodeAddress := to,
                    targetAddress := s.target, caller := s.target, valueTransfer := true, value := value,
                    scheme := .callCode, isStatic := s.isStatic, isEof := false })
      (fun _ _ => rfl) rs re (fun _ _ => ⟨rfl, rfl⟩) hr

theorem delegatecallI_good (hb : Base s0) (hA : ∀ a s', ActRel s0 a s' → A a s') :
    GoodP (Halt s0) N A (delegatecallI s0) := by
  unfold delegatecallI
  refine hostCallAction_good hA _ _
    (fun b s' => ∃ L, Rel 0 true false L s0 s' ∧ RangeOk b.2.2.2.1 b.2.2.2.2 L) ?_ ?_
  · refine sat_bind (check_sat hb.rel _) ?_
    rintro _ _ rfl
    refine sat_bind (pop1_sat hb.rel) ?_
    intro lgl s1 h1
    refine sat_bind (popAddress_sat h1) ?_
    intro to s2 h2
    refine sat_bind (getMemRanges_sat h2) ?_
    rintro ⟨input, rs, re⟩ s4 ⟨L, h4, hr⟩
    exact sat_pure ⟨L, h4, hr⟩
  · rintro ⟨lgl, to, input, rs, re⟩ s1 r ⟨L, h1, hr⟩ _
    refine sat_bind (requireSome_sat h1 r) ?_
    rintro _ _ ⟨rfl, _⟩
    exact callTail_sat h1 r false false lgl (fun g => g) (fun g => ⟨by omega, fun _ => rfl⟩)
      (fun g s => { input := input, retStart := rs, retEnd := re, gasLimit := g, bytecodeAddress := to,
                    targetAddress := s.target, caller := s.caller, valueTransfer := false, value := s.callValue,
                    scheme := .delegateCall, isStatic := s.isStatic, isEof := false })
      (fun _ _ => rfl) rs re (fun _ _ => ⟨rfl, rfl⟩) hr

theorem staticcallI_good (hb : Base s0) (hA : ∀ a s', ActRel s0 a s' → A a s') :
    GoodP (Halt s0) N A (staticcallI s0) := by
  unfold staticcallI
  refine hostCallAction_good hA _ _
    (fun b s' => ∃ L, Rel 0 true false L s0 s' ∧ RangeOk b.2.2.2.1 b.2.2.2.2 L) ?_ ?_
  · refine sat_bind (check_sat hb.rel _) ?_
    rintro _ _ rfl
    refine sat_bind (pop1_sat hb.rel) ?_
    intro lgl s1 h1
    refine sat_bind (popAddress_sat h1) ?_
    intro to s2 h2
    refine sat_bind (getMemRanges_sat h2) ?_
    rintro ⟨input, rs, re⟩ s4 ⟨L, h4, hr⟩
    exact sat_pure ⟨L, h4, hr⟩
  · rintro ⟨lgl, to, input, rs, re⟩ s1 r ⟨L, h1, hr⟩ _
    refine sat_bind (requireSome_sat h1 r) ?_
    rintro _ _ ⟨rfl, _⟩
    exact callTail_sat h1 r false false lgl (fun g => g) (fun g => ⟨by omega, fun _ => rfl⟩)
      (fun g s => { input := input, retStart := rs, retEnd := re, gasLimit := g, bytecodeAddress := to,
                    targetAddress := to, caller := s.target, valueTransfer := true, value := 0,
                    scheme := .staticCall, isStatic := true, isEof := false })
      (fun _ _ => rfl) rs re (fun _ _ => ⟨rfl, rfl⟩) hr

/-! ### CREATE / CREATE2 -/

theorem initcodeCost_some (len : Nat) (h : len < U64) : ∃ c, GasCalc.initcodeCost len = some c := by
  have hU := U64_val
  have hn : GasCalc.numWords len ≤ (U64 - 1) / 32 := by
    unfold GasCalc.numWords U64ops.saturatingAdd; split <;> omega
  unfold GasCalc.initcodeCost GasCalc.costPerWord U64ops.checkedMul GasCalc.INITCODE_WORD_COST
  rw [if_pos (by omega)]
  exact ⟨_, rfl⟩

theorem initcodeCharge_sat {k : Nat} {st ne : Bool} {L : Nat} {s : IState} (h : Rel k st ne L s0 s)
    (len : Nat) (hlen : len < U64) :
    Exec.Sat (initcodeCharge len s) (Halt s0) (fun _ s' => ∃ k', k ≤ k' ∧ Rel k' st ne L s0 s') := by
  unfold initcodeCharge
  refine sat_bind (getS_sat h) ?_
  rintro _ _ ⟨rfl, rfl⟩
  split
  · split
    · exact haltWith_sat h _
    · obtain ⟨c, hc⟩ := initcodeCost_some len hlen
      rw [hc]
      simp only []
      refine sat_mono (gasCharge_sat h c) ?_
      intro _ s1 h1
      exact ⟨k + c, by omega, h1.weaken (Nat.le_refl _) (fun e => by simp [e]) (fun e => e) (Nat.le_refl _)⟩
  · exact sat_pure ⟨k, Nat.le_refl _, h⟩

theorem createCode_sat {k : Nat} {ne : Bool} {L : Nat} {s : IState} (h : Rel k true ne L s0 s)
    (codeOffset len : Nat) (hlen : len < U64) :
    Exec.Sat (createCode codeOffset len s) (Halt s0)
      (fun _ s' => ∃ k' L', k ≤ k' ∧ Rel k' true ne L' s0 s') := by
  unfold createCode
  split
  · refine sat_bind (initcodeCharge_sat h len hlen) ?_
    rintro _ s1 ⟨k1, hk1, h1⟩
    refine sat_bind (asUsizeOrFail_sat h1 codeOffset _) ?_
    rintro off _ ⟨rfl, hoff⟩
    refine sat_bind (resizeMem_sat h1 off len hoff hlen) ?_
    intro _ s2 h2
    refine sat_mono (memSlice_sat h2 off len (by omega)) ?_
    rintro code _ ⟨rfl, _⟩
    exact ⟨k1, _, hk1, h2⟩
  · exact sat_pure ⟨k, L, Nat.le_refl _, h⟩

theorem createScheme_sat {k : Nat} {ne : Bool} {L : Nat} {s : IState} (h : Rel k true ne L s0 s)
    (isCreate2 : Bool) (len : Nat) :
    Exec.Sat (createScheme isCreate2 len s) (Halt s0)
      (fun _ s' => ∃ k', k + 32000 ≤ k' ∧ Rel k' true false L s0 s') := by
  unfold createScheme
  split
  · refine sat_bind (pop1_sat h) ?_
    intro salt s1 h1
    refine sat_bind (gasOrFail_sat h1 _) ?_
    rintro _ s2 ⟨c, hc, h2⟩
    have := create2Cost_ge hc
    exact sat_pure ⟨k + c, by omega, h2.weaken (Nat.le_refl _) (fun _ => by simp) (fun e => e) (Nat.le_refl _)⟩
  · refine sat_bind (gasCharge_sat h _) ?_
    intro _ s1 h1
    exact sat_pure ⟨k + GasCalc.CREATE, by unfold GasCalc.CREATE; omega,
      h1.weaken (Nat.le_refl _) (fun _ => by simp) (fun e => by cases e) (Nat.le_refl _)⟩

theorem createI_sat (hb : Base s0) (isCreate2 : Bool) :
    Exec.Sat (createI isCreate2 s0) (Halt s0) (fun a s' => ActRel s0 a s') := by
  unfold createI
  refine sat_bind (requireNonStatic_sat hb.rel) ?_
  rintro _ _ rfl
  refine sat_bind (m := checkWhen isCreate2 _) (Q := fun _ s' => s0 = s') ?_ ?_
  · unfold checkWhen
    split
    · exact check_sat hb.rel _
    · exact sat_pure rfl
  · rintro _ _ rfl
    refine sat_bind (pop3_sat hb.rel) ?_
    rintro ⟨value, codeOffset, len⟩ s1 h1
    refine sat_bind (asUsizeOrFail_sat h1 len _) ?_
    rintro len' _ ⟨rfl, hlen⟩
    refine sat_bind (createCode_sat h1 codeOffset len' hlen) ?_
    rintro code s2 ⟨k2, L2, _, h2⟩
    refine sat_bind (createScheme_sat h2 isCreate2 len') ?_
    rintro salt s3 ⟨k3, hk3, h3⟩
    refine sat_bind (getS_sat h3) ?_
    rintro _ _ ⟨rfl, rfl⟩
    refine sat_bind (gasCharge_sat h3 _) ?_
    intro _ s4 h4
    refine sat_bind (getS_sat h4) ?_
    rintro _ _ ⟨rfl, rfl⟩
    refine sat_pure ⟨_, _, _, _, h4, ?_, trivial⟩
    show (if GasCalc.enabled s3.spec GasCalc.SpecId.TANGERINE = true
      then U64ops.wsub s3.gas.remaining (s3.gas.remaining / 64) else s3.gas.remaining) + 1 ≤ _
    omega

end call

end Revm.Proofs.Interp
