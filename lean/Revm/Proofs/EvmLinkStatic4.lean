import Revm.Proofs.EvmLinkStatic3
import Revm.Proofs.EvmLinkHost
import Revm.Proofs.EvmLinkLoop
import Revm.Props.C10
/-! LINK, static mode (C10), part 4: what a static frame of the whole-EVM model does to the journal. The `Host`
questions of a static frame are operations `Model.Static.allowed` lists, so each answer leaves the world state equal
(C10 `static_frame_state_equal`); a frame opened for a static call is static. -/
set_option linter.unusedSimpArgs false
namespace Revm.Proofs.EvmLink
open Revm Revm.Model Revm.Model.Evm
open Revm.Spec.JournalAbs (Op Run)

/-- the journal operations behind a non-mutating `Host` question are operations a static frame is allowed -/
theorem hostOps_allowed (w : World) (op : Interp.HostOp) (base : Nat) (h : mutating op = false) :
    Static.allowedAll base (hostOps w op) = true := by
  cases op <;> first
    | rfl
    | (simp [mutating] at h)

/-- **a `Host` answer in a static frame leaves the world state equal** (C10 `static_frame_state_equal` on
EvmHost + Interp): whatever instruction a static frame executes, whatever the host is asked and answers, the journaled
world state (balances, nonces, code, storage, transient storage, logs — not warm / cold, not touch marks) after the
answer equals the one before -/
theorem static_host_world_equal (he : HostEnv) (w w1 : World) (s : Interp.IState) (op : Interp.HostOp)
    (k : Interp.HostResp → Interp.Done) (resp : Interp.HostResp)
    (hs : s.isStatic = true) (hstep : Interp.step s = .host op k) (h : answer he w op = .ok (resp, w1))
    (hbal : Static.BalOk w.db w.js) : Static.WorldEq w.db w1.js w.js := by
  have hst := step_static s hs
  rw [hstep] at hst
  cases hst with
  | host hop _ =>
    obtain ⟨hrun, _, _⟩ := answer_trace h []
    exact Props.C10.static_frame_state_equal w.db { js := w.js, cps := [] } { js := w1.js, cps := [] }
      (hostOps w op) hbal (hostOps_allowed w op 0 hop) hrun

/-- `make_call_frame` builds the child interpreter with `inputs.is_static` (C10 `static_inherited`, frame side) -/
theorem callTail_isStatic {κ : Type} {C : CpOps κ} {cfg : Cfg} {w w' : World} {cp : κ} {i : Interp.CallInputs}
    {mem : Memory.SharedMemory} {f : Frame κ} (h : callTail C cfg w cp i mem = .ok (.frame f, w')) :
    f.interp.isStatic = i.isStatic := by
  unfold callTail at h
  obtain ⟨⟨w1, c⟩, _, h⟩ := bind_ok h
  obtain ⟨acc, _, h⟩ := bind_ok h
  obtain ⟨hh, _, h⟩ := bind_ok h
  obtain ⟨bytecode, _, h⟩ := bind_ok h
  split at h
  · simp only [pure, Except.pure, Except.ok.injEq, Prod.mk.injEq] at h
    cases h.1
  · obtain ⟨⟨w2, code2⟩, _, h⟩ := bind_ok h
    simp only [pure, Except.pure, Except.ok.injEq, Prod.mk.injEq, FrameOrResult.frame.injEq] at h
    rw [← h.1]
    rfl

theorem makeCallFrame_isStatic {κ : Type} {C : CpOps κ} {cfg : Cfg} {w w' : World} {i : Interp.CallInputs}
    {mem : Memory.SharedMemory} {f : Frame κ} (h : makeCallFrame C cfg w i mem = .ok (.frame f, w')) :
    f.interp.isStatic = i.isStatic := by
  rw [makeCallFrame_staged] at h
  unfold makeCallFrameS at h
  split at h
  · simp only [pure, Except.pure, Except.ok.injEq, Prod.mk.injEq] at h
    cases h.1
  · obtain ⟨⟨w1, x⟩, _, h⟩ := bind_ok h
    simp only at h
    obtain ⟨⟨w2, failed⟩, _, h⟩ := bind_ok h
    cases failed with
    | some r0 =>
      simp only at h
      obtain ⟨w3, _, h⟩ := bind_ok h
      simp only [pure, Except.pure, Except.ok.injEq, Prod.mk.injEq] at h
      cases h.1
    | none =>
      simp only at h
      unfold callPrecompile at h
      obtain ⟨pc, _, h⟩ := bind_ok h
      cases pc with
      | none => exact callTail_isStatic h
      | some res =>
        simp only at h
        cases res with
        | ok gasUsed out =>
          simp only at h
          split at h
          · simp only [pure, Except.pure, Except.ok.injEq, Prod.mk.injEq] at h
            cases h.1
          · obtain ⟨w3, _, h⟩ := bind_ok h
            simp only [pure, Except.pure, Except.ok.injEq, Prod.mk.injEq] at h
            cases h.1
        | err e =>
          simp only at h
          obtain ⟨w3, _, h⟩ := bind_ok h
          simp only [pure, Except.pure, Except.ok.injEq, Prod.mk.injEq] at h
          cases h.1
        | panic =>
          simp only at h
          obtain ⟨x, hx, _⟩ := bind_ok h
          cases hx

/-- number of open frames in a loop state -/
def nextDepth : Next Journal.Checkpoint → Nat
  | .run stack _ => stack.length
  | .ended _ rest _ _ _ _ => rest.length + 1
  | .done _ _ => 0

/-- the steps of `run_the_loop` during which more than `base` frames stay open (the frame at height `base + 1` has not
returned yet) -/
inductive StepsAbove (cfg : Cfg) (base : Nat) : Next Journal.Checkpoint → Next Journal.Checkpoint → Prop
  | refl (n) : StepsAbove cfg base n n
  | iter {stack w n m} (h : iterate journalOps cfg stack w = .ok n) (hb : base < nextDepth n)
      (t : StepsAbove cfg base n m) : StepsAbove cfg base (.run stack w) m
  | fend {top rest r out s w n m} (h : frameEnd journalOps cfg top rest r out s w = .ok n) (hb : base < nextDepth n)
      (t : StepsAbove cfg base n m) : StepsAbove cfg base (.ended top rest r out s w) m

end Revm.Proofs.EvmLink
