import Revm.Model.Evm
import Revm.Model.InspectorHooks
import Revm.Spec.InspectorHooks
import Revm.Proofs.SelfdestructNotify
/-! C29 / C30 instance, part 1: the concrete frame loop `Evm.runLoop` WITH A TRACE.

`Model.InspectorHooks.runTx` is driven by an arbitrary script. Here the script of a concrete run is written down:
`runLoopTr` repeats the control skeleton of `runLoop` / `runEnded` (and `transactTr` the one of `transactWith`) and
returns, beside the very same value (`runLoopTr_fst`, `transactTr_fst`), the list of loop events `LEv`. The events of one
iteration are computed from the same sub-functions the iteration itself calls (`Interp.step`, `answer`, `makeFrame`), so
nothing but the skeleton is repeated.

* one `.insn x g` per executed instruction of the top frame: `x` is what the inspector's instruction wrappers see
  (`insnOf`: LOG0..4 with the journal's log ids before / after, SELFDESTRUCT with the wrapper's own note computed from
  the journal entries exactly as `SelfdestructNotify.wrapped` does, everything else `plain`); `g` is the ground truth
  about the same instruction computed from the PRE-state without looking at journal entries (`truthOf`), used only to
  state C30 / the log theorem;
* one `.next n` per `execute_frame` that returns: a frame request (`spawn`, answered with a frame or at once with a
  result) or a return (`ret`); a frame that ended without an instruction (`runEnded`) gives a `ret` with no instruction.

`group` cuts the events into `Turn`s and numbers the frame requests 1, 2, 3 … in the order they are made (the
transaction's own request is number 0). -/
namespace Revm.Proofs.EvmInstHooks
open Revm Revm.Model Revm.Model.Evm
open Revm.Model.InspectorHooks (Insn Spawn Turn Kind Ev Stacks St Status HandlerRes)
open Revm.Proofs.SelfdestructNotify (movedValue)

/-- what is known about an instruction from the state BEFORE it, independent of any journal-entry inspection -/
structure Truth where
  /-- a SELFDESTRUCT that completed: (executing contract, beneficiary popped from the stack, balance that moved) -/
  sd : Option (Nat × Nat × Nat) := none
  /-- a LOG0..4 that reached the host: the id of the log record it appends -/
  log : Option Nat := none
deriving DecidableEq, Repr

inductive LEv
  | insn (x : Insn) (g : Truth)
  | next (n : InspectorHooks.Next)
deriving DecidableEq, Repr

/-- the account of the executing contract `a` as `JournaledState::selfdestruct` reads it: after the beneficiary `t`
was loaded (for a contract that is in the journal, the loaded account itself up to the warm flag:
`contractAcct_loaded`) -/
def contractAcct (w : World) (a t : Nat) : Option Journal.Acct :=
  match Journal.loadAccount w.db w.js t with
  | some (s1, _) => s1.state a
  | none => none

/-- the SELFDESTRUCT wrapper's post-check: only when the instruction ended with `SelfDestruct`, the newest
`AccountDestroyed` / `BalanceTransfer` among the entries appended to the innermost journal level since `prev_len`,
else `(contract, contract, 0)` (`SelfdestructNotify.wrapped`) -/
def sdNote (s : Interp.IState) (js js' : Journal.JState) (d : Interp.Done) : Option (Nat × Nat × Nat) :=
  match d with
  | .halt r _ _ =>
    if r = .SelfDestruct then
      some ((SelfdestructNotify.newEntryNote (SelfdestructNotify.lastLen js) js').getD (s.target, s.target, 0))
    else none
  | _ => none

def isLogOp (op : Nat) : Prop := 0xa0 ≤ op ∧ op ≤ 0xa4
instance (op : Nat) : Decidable (isLogOp op) := by unfold isLogOp; infer_instance

/-- the instruction as the inspector's wrappers see it; `s`, `js` before, `d`, `js'` after -/
def insnOf (s : Interp.IState) (js js' : Journal.JState) (d : Interp.Done) : Insn :=
  match s.code[s.pc]? with
  | none => .plain
  | some op =>
    if isLogOp op then .logOp js.logs.length js'.logs
    else if op = 0xff then .sdOp (sdNote s js js' d)
    else .plain

/-- a SELFDESTRUCT that ended with `SelfDestruct`: contract, popped beneficiary, and what leaves the contract
according to the account BEFORE the instruction (`movedValue`: the whole balance, except after Cancun for a
contract not created in this transaction that names itself: 0) -/
def sdTruth (s : Interp.IState) (w : World) (d : Interp.Done) : Option (Nat × Nat × Nat) :=
  match d with
  | .halt r _ _ =>
    if r = .SelfDestruct then
      match s.stack.getLast? with
      | some t0 =>
        match contractAcct w s.target (Interp.addrOfWord t0) with
        | some acc => some (s.target, Interp.addrOfWord t0, movedValue acc w.js.spec s.target (Interp.addrOfWord t0))
        | none => none
      | none => none
    else none
  | _ => none

/-- a LOG that ran to completion appended the record number `w.logs.length` -/
def logTruth (w : World) (d : Interp.Done) : Option Nat :=
  match d with
  | .next _ => some w.logs.length
  | _ => none

def truthOf (s : Interp.IState) (w : World) (d : Interp.Done) : Truth :=
  match s.code[s.pc]? with
  | none => {}
  | some op =>
    if isLogOp op then { log := logTruth w d }
    else if op = 0xff then { sd := sdTruth s w d }
    else {}

def kindOfAct : Interp.Action → Kind
  | .call _ => .call
  | .create _ => .create
  | .eofCreate _ => .eofcreate

def kindOfFrame : FrameKind → Kind
  | .call _ _ => .call
  | .create _ => .create

/-- `execute_frame` returned `InterpreterAction::Return` -/
def retEv : LEv := .next (.ret (some 0) false)

/-- the frame request of an action: the `call` / `create` wrapper, the previous handler answering with a frame or
with a result (an `Err` of the handler makes the concrete run fail: no event) -/
def actionEvs {κ : Type} (C : CpOps κ) (cfg : Cfg) (a : Interp.Action) (mem : Memory.SharedMemory) (w : World) :
    List LEv :=
  match makeFrame C cfg w a mem with
  | .ok (.frame _, _) => [.next (.spawn ⟨kindOfAct a, 0, none, .frame⟩ false)]
  | .ok (.result _, _) => [.next (.spawn ⟨kindOfAct a, 0, none, .result 0⟩ false)]
  | .error _ => []

/-- what follows a resolved instruction -/
def doneEvs {κ : Type} (C : CpOps κ) (cfg : Cfg) (d : Interp.Done) (w : World) : List LEv :=
  match d with
  | .next _ => []
  | .action a s => actionEvs C cfg a s.mem w
  | .halt _ _ _ => [retEv]
  | .fault _ => []

/-- the events of one resolved instruction of frame `top`: world `w` before, `d` in world `w'` after -/
def stepEvs {κ : Type} (C : CpOps κ) (cfg : Cfg) (top : Frame κ) (w : World) (d : Interp.Done) (w' : World) :
    List LEv :=
  .insn (insnOf top.interp w.js w'.js d) (truthOf top.interp w d) :: doneEvs C cfg d w'

/-- the events of `iterate` -/
def iterEvs {κ : Type} (C : CpOps κ) (cfg : Cfg) (stack : List (Frame κ)) (w : World) : List LEv :=
  match stack with
  | [] => []
  | top :: _ =>
    match Interp.step top.interp with
    | .pure d => stepEvs C cfg top w d w
    | .host op k =>
      match answer cfg.he w op with
      | .ok (resp, w') => stepEvs C cfg top w (k resp) w'
      | .error _ => []

mutual
/-- `runEnded` with its events: a turn without an instruction that returns -/
def runEndedTr {κ : Type} (C : CpOps κ) (cfg : Cfg) : Nat → Frame κ → List (Frame κ) → Interp.IResult → List Nat →
    Interp.IState → World → R (Interp.ChildResult × World) × List LEv
  | 0, _, _, _, _, _, _ => (throw .outOfFuel, [])
  | fuel + 1, top, rest, r, out, s, w =>
    match frameEnd C cfg top rest r out s w with
    | .error e => (.error e, [retEv])
    | .ok (.run stack' w') =>
      let p := runLoopTr C cfg fuel stack' w'
      (p.1, retEv :: p.2)
    | .ok (.ended top' rest' r' out' s' w') =>
      let p := runEndedTr C cfg fuel top' rest' r' out' s' w'
      (p.1, retEv :: p.2)
    | .ok (.done r w') => (pure (r, w'), [retEv])

/-- `runLoop` with its events -/
def runLoopTr {κ : Type} (C : CpOps κ) (cfg : Cfg) : Nat → List (Frame κ) → World →
    R (Interp.ChildResult × World) × List LEv
  | 0, _, _ => (throw .outOfFuel, [])
  | fuel + 1, stack, w =>
    match iterate C cfg stack w with
    | .error e => (.error e, iterEvs C cfg stack w)
    | .ok (.run stack' w') =>
      let p := runLoopTr C cfg fuel stack' w'
      (p.1, iterEvs C cfg stack w ++ p.2)
    | .ok (.ended top rest r out s w') =>
      let p := runEndedTr C cfg fuel top rest r out s w'
      (p.1, iterEvs C cfg stack w ++ p.2)
    | .ok (.done r w') => (pure (r, w'), iterEvs C cfg stack w)
end

/-- the traced loop computes what the loop computes, for every fuel -/
theorem runLoopTr_fst_aux {κ : Type} (C : CpOps κ) (cfg : Cfg) : ∀ fuel : Nat,
    (∀ stack w, (runLoopTr C cfg fuel stack w).1 = runLoop C cfg fuel stack w) ∧
    (∀ top rest r out s w, (runEndedTr C cfg fuel top rest r out s w).1 = runEnded C cfg fuel top rest r out s w) := by
  intro fuel
  induction fuel with
  | zero =>
    constructor
    · intro stack w; rw [runLoopTr, runLoop]
    · intro top rest r out s w; rw [runEndedTr, runEnded]
  | succ n ih =>
    constructor
    · intro stack w
      rw [runLoopTr, runLoop]
      simp only [bind, Except.bind]
      cases hi : iterate C cfg stack w with
      | error e => rfl
      | ok nx =>
        cases nx with
        | run st w' => exact ih.1 st w'
        | ended t rs r o s w' => exact ih.2 t rs r o s w'
        | done r w' => rfl
    · intro top rest r out s w
      rw [runEndedTr, runEnded]
      simp only [bind, Except.bind]
      cases hi : frameEnd C cfg top rest r out s w with
      | error e => rfl
      | ok nx =>
        cases nx with
        | run st w' => exact ih.1 st w'
        | ended t rs r o s w' => exact ih.2 t rs r o s w'
        | done r w' => rfl

theorem runLoopTr_fst {κ : Type} (C : CpOps κ) (cfg : Cfg) (fuel : Nat) (stack : List (Frame κ)) (w : World) :
    (runLoopTr C cfg fuel stack w).1 = runLoop C cfg fuel stack w := (runLoopTr_fst_aux C cfg fuel).1 stack w

theorem runEndedTr_fst {κ : Type} (C : CpOps κ) (cfg : Cfg) (fuel : Nat) (top : Frame κ) (rest : List (Frame κ))
    (r : Interp.IResult) (out : List Nat) (s : Interp.IState) (w : World) :
    (runEndedTr C cfg fuel top rest r out s w).1 = runEnded C cfg fuel top rest r out s w :=
  (runLoopTr_fst_aux C cfg fuel).2 top rest r out s w

/-! ### events → script -/

/-- cut the events into turns; `n` = number of the next frame request, `acc` = instructions of the open turn -/
def group : Nat → List Insn → List LEv → List Turn
  | _, _, [] => []
  | n, acc, .insn x _ :: l => group n (acc ++ [x]) l
  | n, acc, .next (.spawn s ie) :: l => { ins := acc, next := .spawn { s with i := n } ie } :: group (n + 1) [] l
  | n, acc, .next (.ret o ie) :: l => { ins := acc, next := .ret o ie } :: group n [] l
  | n, acc, .next .fatal :: l => { ins := acc, next := .fatal } :: group n [] l

/-- the script of a transaction: its own request is number 0 -/
def scriptOf (evs : List LEv) : List Turn := group 1 [] evs

/-- the instructions / ground truths of a trace, in order -/
def insnsOf (evs : List LEv) : List Insn := evs.filterMap fun | .insn x _ => some x | .next _ => none
def truthsOf (evs : List LEv) : List Truth := evs.filterMap fun | .insn _ g => some g | .next _ => none

/-- the transaction's own frame request: `exec.call` / `exec.create` through the inspector's wrapper -/
def firstSpawn {κ : Type} (e : Env) (f : FrameOrResult κ) : Spawn :=
  { k := if e.tx.to.isSome then .call else .create, i := 0, insp := none,
    h := match f with
      | .frame _ => .frame
      | .result _ => .result 0 }

/-- `runFirst` with its events -/
def runFirstTr {κ : Type} (C : CpOps κ) (cfg : Cfg) (fuel : Nat) (first : FrameOrResult κ) (w : World) :
    R (Interp.ChildResult × World) × List LEv :=
  match first with
  | .frame f => runLoopTr C cfg fuel [f] w
  | .result r => (pure (r, w), [])

theorem runFirstTr_fst {κ : Type} (C : CpOps κ) (cfg : Cfg) (fuel : Nat) (first : FrameOrResult κ) (w : World) :
    (runFirstTr C cfg fuel first w).1 = runFirst C cfg fuel first w := by
  cases first with
  | frame f => exact runLoopTr_fst C cfg fuel [f] w
  | result r => rfl

/-- `transactWith` with the trace of its frame loop; no trace when the transaction is rejected (or the model fails)
before the first frame request is answered -/
def transactWithTr {κ : Type} (C : CpOps κ) (fuel : Nat) (w : World) (e : Env) (spec : Nat) :
    R (Outcome × World) × Option (Spawn × List LEv) :=
  match preverify w e (GasCalc.canon spec) with
  | .error err => (.error err, none)
  | .ok none => (pure (.rejected, w), none)
  | .ok (some (w', initialGas, floorGas)) =>
    match prepare C e (GasCalc.canon spec) initialGas w' with
    | .error err => (.error err, none)
    | .ok (first, w1, isCreate, eip7702Refund) =>
      let p := runFirstTr C (e.toCfg (GasCalc.canon spec)) fuel first w1
      ((do
          let (res, w2) ← p.1
          let (r, w3) ← finish e (GasCalc.canon spec) floorGas eip7702Refund isCreate res w2
          pure (.executed r, w3)),
       some (firstSpawn e first, p.2))

/-- `Evm.transact` with the trace -/
def transactTr (fuel : Nat) (w : World) (e : Env) (spec : Nat) : R (Outcome × World) × Option (Spawn × List LEv) :=
  transactWithTr journalOps fuel w e spec

theorem transactWithTr_fst {κ : Type} (C : CpOps κ) (fuel : Nat) (w : World) (e : Env) (spec : Nat) :
    (transactWithTr C fuel w e spec).1 = transactWith C fuel w e spec := by
  unfold transactWithTr transactWith execute
  simp only [bind, Except.bind]
  cases hp : preverify w e (GasCalc.canon spec) with
  | error err => rfl
  | ok x =>
    cases x with
    | none => rfl
    | some y =>
      obtain ⟨w', initialGas, floorGas⟩ := y
      simp only []
      cases hq : prepare C e (GasCalc.canon spec) initialGas w' with
      | error err => rfl
      | ok z =>
        obtain ⟨first, w1, isCreate, refund⟩ := z
        simp only [runFirstTr_fst]
        cases hr : runFirst C (e.toCfg (GasCalc.canon spec)) fuel first w1 with
        | error err => rfl
        | ok u =>
          obtain ⟨res, w2⟩ := u
          rfl

/-- the traced transaction computes what `Evm.transact` computes -/
theorem transactTr_fst (fuel : Nat) (w : World) (e : Env) (spec : Nat) :
    (transactTr fuel w e spec).1 = transact fuel w e spec := transactWithTr_fst journalOps fuel w e spec

end Revm.Proofs.EvmInstHooks
