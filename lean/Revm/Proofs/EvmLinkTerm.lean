import Revm.Proofs.EvmTerm
import Revm.Proofs.EvmLinkStrict6
import Revm.Proofs.EvmLinkResult
import Revm.Proofs.EvmLinkNoFuel
import Revm.Proofs.EvmLinkGasInv4
/-! LINK, termination: **`Evm.runLoop` and `Evm.transact` terminate within `2 · gas + 1` iterations.** The measure
`2 · Σ (gas remaining of the frames on the stack) + number of frames` falls with every iteration of `run_the_loop`:
a continuing instruction consumes gas (`step_strict`), an action pays for the child's gas and one more, a returning
frame hands back at most what it has left. No invariant is needed (C01 `Proofs/EvmTerm.lean`, `runLoop_fuel`). -/
set_option linter.unusedSimpArgs false
set_option linter.unusedVariables false
namespace Revm.Proofs.EvmLink
open Revm Revm.Model Revm.Model.Evm

/-- gas remaining on the meters of the frames of a stack -/
def gsum : List JFrame → Nat
  | [] => 0
  | f :: r => f.interp.gas.remaining + gsum r

/-- the termination measure of a loop state -/
def mu : Next Journal.Checkpoint → Nat
  | .run st _ => 2 * gsum st + st.length
  | .ended _ rest _ _ s _ => 2 * (s.gas.remaining + gsum rest) + rest.length + 1
  | .done _ _ => 0

theorem deliver_mu {kind : FrameKind} {o : Interp.ChildResult} {parent : JFrame} {rest : List JFrame}
    {mem : Memory.SharedMemory} {w : World} {nx} (h : deliver kind o parent rest mem w = .ok nx) :
    mu nx ≤ 2 * (parent.interp.gas.remaining + o.gasRemaining + gsum rest) + rest.length + 1 := by
  unfold deliver at h
  have hk : Keep (plusGas { parent.interp with mem := mem } o.gasRemaining) T
      (insertBy kind o { parent.interp with mem := mem }) := by
    unfold insertBy
    cases kind with
    | call rs re => exact insertCall_kept rs re o _
    | create a => exact insertCreate_kept o _
  generalize insertBy kind o { parent.interp with mem := mem } = e at hk h
  cases hk with
  | @ok _ s hs _ =>
    simp only [pure, Except.pure, Except.ok.injEq] at h
    subst h
    have e2 : s.gas.remaining ≤ parent.interp.gas.remaining + o.gasRemaining := hs.rem
    show 2 * (s.gas.remaining + gsum rest) + (rest.length + 1) ≤ _
    omega
  | @halt r out s hs =>
    simp only [pure, Except.pure, Except.ok.injEq] at h
    subst h
    have e2 : s.gas.remaining ≤ parent.interp.gas.remaining + o.gasRemaining := hs.rem
    show 2 * (s.gas.remaining + gsum rest) + rest.length + 1 ≤ _
    omega
  | fault => cases h

/-- a frame returns: the measure falls -/
theorem frameEnd_mu {cfg : Cfg} {top : JFrame} {rest : List JFrame} {r : Interp.IResult} {out : List Nat}
    {s : Interp.IState} {w : World} {nx} (h : frameEnd journalOps cfg top rest r out s w = .ok nx) :
    mu nx < 2 * (s.gas.remaining + gsum rest) + rest.length + 1 := by
  unfold frameEnd at h
  obtain ⟨mem, _, h⟩ := bind_ok h
  obtain ⟨⟨res, w1⟩, hret, h⟩ := bind_ok h
  have hres : res.gasRemaining ≤ s.gas.remaining := by
    unfold frameReturn at hret
    split at hret
    · rw [callReturn_res hret]; exact Nat.le_refl _
    · exact createReturn_gas hret
  simp only at h
  cases rest with
  | nil =>
    simp only [pure, Except.pure, Except.ok.injEq] at h
    subst h
    show 0 < _
    omega
  | cons parent rest' =>
    simp only at h
    have := deliver_mu h
    show mu nx < 2 * (s.gas.remaining + (parent.interp.gas.remaining + gsum rest')) + (rest'.length + 1) + 1
    omega

/-- the running frame hands out an action that has paid for the child's gas and one more: the measure falls -/
theorem frameAction_mu {cfg : Cfg} {top : JFrame} {rest : List JFrame} {a : Interp.Action} {s : Interp.IState}
    {w : World} {nx} {R : Nat} (hg : s.gas.remaining + a.gasLimit + 1 ≤ R)
    (h : frameAction journalOps cfg top rest a s w = .ok nx) :
    mu nx < 2 * (R + gsum rest) + rest.length + 1 := by
  unfold frameAction at h
  obtain ⟨⟨fr, w1⟩, hmk, h⟩ := bind_ok h
  have hfr : (∀ o, fr = .result o → o.gasRemaining ≤ a.gasLimit) ∧
      (∀ f, fr = .frame f → f.interp.gas.remaining = a.gasLimit) := by
    unfold makeFrame at hmk
    cases a with
    | call i =>
      obtain ⟨x, y⟩ := makeCallFrame_gas hmk
      exact ⟨x, fun f hf => by rw [(y f hf).1]; rfl⟩
    | create i =>
      obtain ⟨x, y⟩ := makeCreateFrame_gas hmk
      exact ⟨x, fun f hf => by rw [(y f hf).1]; rfl⟩
    | eofCreate i => cases hmk
  simp only at h
  cases fr with
  | frame f =>
    simp only [pure, Except.pure, Except.ok.injEq] at h
    subst h
    have := hfr.2 f rfl
    show 2 * (f.interp.gas.remaining + (s.gas.remaining + gsum rest)) + (rest.length + 1 + 1) < _
    omega
  | result o =>
    simp only at h
    have := hfr.1 o rfl
    have := deliver_mu h
    have e : ({ top with interp := s } : JFrame).interp.gas.remaining = s.gas.remaining := rfl
    rw [e] at this
    omega

theorem afterStep_mu {cfg : Cfg} {top : JFrame} {rest : List JFrame} {d : Interp.Done} {w : World} {nx}
    (hd : SDone top.interp d) (h : afterStep journalOps cfg top rest d w = .ok nx) :
    mu nx < 2 * (top.interp.gas.remaining + gsum rest) + rest.length + 1 := by
  unfold afterStep at h
  cases hd with
  | @next s' hk hg =>
    simp only [pure, Except.pure, Except.ok.injEq] at h
    subst h
    show 2 * (s'.gas.remaining + gsum rest) + (rest.length + 1) < _
    omega
  | halt hk =>
    have := frameEnd_mu h
    have := hk.rem
    omega
  | fault => cases h
  | action hk hg => exact frameAction_mu hg h

/-- **every iteration of `run_the_loop` lowers the measure** -/
theorem iterate_mu {cfg : Cfg} {stack : List JFrame} {w : World} {nx}
    (h : iterate journalOps cfg stack w = .ok nx) : mu nx < mu (.run stack w) := by
  unfold iterate at h
  cases stack with
  | nil => cases h
  | cons top rest =>
    simp only at h
    show mu nx < 2 * (top.interp.gas.remaining + gsum rest) + (rest.length + 1)
    have h2 := step_strict top.interp
    generalize Interp.step top.interp = o at h h2
    cases h2 with
    | pure hd => exact afterStep_mu hd h
    | host hk =>
      simp only at h
      obtain ⟨⟨resp, w1⟩, ha, h⟩ := bind_ok h
      exact afterStep_mu (hk resp (answer_ok ha)) h

/-- the frame loop of the whole EVM is decreasing (C01 `EvmTerm.Decreasing`), with no invariant -/
theorem loop_decreasing (cfg : Cfg) : EvmTerm.Decreasing journalOps cfg (fun _ => True) mu where
  iter := fun st w _ => by
    cases h : iterate journalOps cfg st w with
    | ok n => exact ⟨trivial, iterate_mu h⟩
    | error e => exact fun he => nf_iterate cfg st w (by rw [h, he])
  fend := fun t r res out s w _ => by
    cases h : frameEnd journalOps cfg t r res out s w with
    | ok n => exact ⟨trivial, frameEnd_mu h⟩
    | error e => exact fun he => nf_frameEnd cfg t r res out s w (by rw [h, he])

/-- **`run_the_loop` terminates**: with more fuel than `2 · Σ gas remaining + number of frames` it never runs out of
fuel — for every stack of frames, in any state -/
theorem runLoop_terminates (cfg : Cfg) (fuel : Nat) (stack : List JFrame) (w : World)
    (h : 2 * gsum stack + stack.length < fuel) : runLoop journalOps cfg fuel stack w ≠ .error .outOfFuel :=
  (EvmTerm.runLoop_fuel (loop_decreasing cfg) fuel).1 stack w trivial h

theorem nf_bind' {α β} {x : R α} {f : α → R β} (h1 : NF x) (h2 : ∀ a, x = .ok a → NF (f a)) : NF (x >>= f) := by
  cases x with
  | error e => intro h; exact h1 (by simpa [bind, Except.bind] using h)
  | ok a => exact h2 a rfl

theorem nf_prepare (e : Evm.Env) (spec ig : Nat) (w : World) : NF (prepare journalOps e spec ig w) := by
  unfold prepare
  repeat (first
    | nf_prim
    | exact nf_applyAuthList _ _ _
    | refine nf_bind ?_ (fun _ => ?_)
    | split
    | dsimp only)

/-- **`Evm.transact` terminates**: `2 · gas_limit + 2` units of fuel always suffice — for every world, environment
and fork the answer is never "out of fuel" (it is a result, or a model-level panic / fatal error / missing oracle
answer, which do not depend on the fuel) -/
theorem transact_terminates' (fuel : Nat) (w : World) (e : Evm.Env) (spec : Nat)
    (hf : 2 * e.tx.gasLimit + 2 ≤ fuel) : Evm.transact fuel w e spec ≠ .error .outOfFuel := by
  show NF (Evm.transact fuel w e spec)
  unfold Evm.transact transactWith
  refine nf_bind' (nf_preverify w e _) (fun o ho => ?_)
  cases o with
  | none => exact nf_pure _
  | some p =>
    obtain ⟨w1, ig, fg⟩ := p
    simp only
    refine nf_bind ?_ (fun _ => nf_pure _)
    unfold execute
    refine nf_bind' (nf_prepare e _ ig w1) (fun q hq => ?_)
    obtain ⟨first, w2, isCreate, k⟩ := q
    simp only
    refine nf_bind ?_ (fun _ => nf_finish _ _ _ _ _ _ _)
    cases first with
    | result r => exact nf_pure _
    | frame f =>
      obtain ⟨_, _, hig, _, _⟩ := preverify_some_inv w w1 e _ ig fg ho
      have hg := (prepare_gas hq).2 f rfl
      have hle : U64ops.wsub e.tx.gasLimit ig ≤ e.tx.gasLimit := by
        have := wsub_le' e.tx.gasLimit ig hig; omega
      refine runLoop_terminates _ fuel [f] w2 ?_
      show 2 * (f.interp.gas.remaining + 0) + 1 < fuel
      rw [hg]
      show 2 * (U64ops.wsub e.tx.gasLimit ig + 0) + 1 < fuel
      omega

end Revm.Proofs.EvmLink
