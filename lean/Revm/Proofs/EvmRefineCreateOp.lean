import Revm.Proofs.EvmRefineOps3
/-! Congruence of `create_account_checkpoint` with respect to `JRel`: on success both machines hold related states; on a
collision / overflow the journal machine's internal revert gives back a state related to the one the creation started
from (which the specification restores). -/
set_option linter.unusedSimpArgs false
set_option linter.unusedVariables false
namespace Revm.Proofs.EvmRefine
open Revm Revm.Model Revm.Model.Journal Revm.Spec.JournalAbs Revm.Proofs.Journal

/-- `checkpoint_revert` to a checkpoint that is exactly one level below the top -/
theorem revert_one {s : JState} {cp : Checkpoint} {l : List Entry} {rest : List (List Entry)}
    (hj : s.journal = l :: rest) (hcp : cp.journalI = rest.length) :
    revert s cp = (undoLevel (decide (s.spec ≥ SPURIOUS_DRAGON)) s l).map fun s' =>
      { s' with depth := decU64 s.depth, logs := s.logs.take cp.logI, journal := rest } := by
  unfold revert
  have hlen : s.journal.length = rest.length + 1 := by rw [hj]; simp
  have hlt : ¬ s.journal.length < cp.journalI := by omega
  simp only [hlt, if_false]
  have hn : s.journal.length - cp.journalI = 1 := by omega
  rw [hn, hj]
  simp only [List.take_succ_cons, List.take_zero, undoLevels, bind, Option.bind, List.drop_succ_cons, List.drop_zero]
  cases undoLevel (decide (s.spec ≥ SPURIOUS_DRAGON)) s l with
  | none => rfl
  | some s' => rfl

/-- `create_account_checkpoint`, middle part: created mark, emptied code cache, touch -/
def createMark (s : JState) (a : Addr) (acc : Acct) : Option (JState × Acct) := do
  let acc := { acc with created := true }
  let s ← pushEntry (setAcct s a acc) (.accountCreated a)
  let acc := { acc with info := { acc.info with code := none } }
  let s := setAcct s a acc
  touchAccount s a acc

/-- the endowed new account: balance, and nonce 1 from Spurious Dragon on -/
def endow (acc : Acct) (balance specId : Nat) : Acct :=
  let acc := { acc with info := { acc.info with balance := acc.info.balance + balance } }
  if specId ≥ SPURIOUS_DRAGON then { acc with info := { acc.info with nonce := 1 } } else acc

/-- the debit of the caller and the journal entry of the endowment -/
def createDebit (s : JState) (caller a : Addr) (balance : Nat) : Option JState := do
  let c ← s.state caller
  let s := setAcct s caller { c with info := { c.info with balance := bsub c.info.balance balance } }
  pushEntry s (.balanceTransfer caller a balance)

/-- `create_account_checkpoint`, last part: endowment, nonce, debit of the caller -/
def createFund (s : JState) (caller a : Addr) (acc : Acct) (balance specId : Nat) : Option JState :=
  createDebit (setAcct s a (endow acc balance specId)) caller a balance

theorem create_eq (s : JState) (caller a : Addr) (hs : Bool) (bal spec : Nat) :
    createAccountCheckpoint s caller a hs bal spec = (do
      let acc ← (checkpoint s).1.state a
      if acc.info.codeHash ≠ KECCAK_EMPTY ∨ acc.info.nonce ≠ 0 ∨ hs then do
        let s' ← revert (checkpoint s).1 (checkpoint s).2
        some (s', .error .collision)
      else do
      let (s3, acc3) ← createMark (checkpoint s).1 a acc
      if acc3.info.balance + bal ≥ W then do
        let s' ← revert s3 (checkpoint s).2
        some (s', .error .overflowPayment)
      else do
      let s' ← createFund s3 caller a acc3 bal spec
      some (s', .ok (checkpoint s).2)) := by
  simp only [createAccountCheckpoint, createMark, createFund, createDebit, endow, bind, Option.bind]
  cases (checkpoint s).1.state a with
  | none => rfl
  | some acc =>
    simp only
    split
    · rfl
    · cases pushEntry (setAcct (checkpoint s).1 a { acc with created := true }) (.accountCreated a) with
      | none => rfl
      | some s1 =>
        simp only
        cases touchAccount (setAcct s1 a { acc with created := true, info := { acc.info with code := none } }) a
            { acc with created := true, info := { acc.info with code := none } } with
        | none => rfl
        | some p =>
          simp only
          split
          · rfl
          · generalize (setAcct p.1 a (if spec ≥ SPURIOUS_DRAGON then _ else _)) = sx
            cases sx.state caller with
            | none => rfl
            | some c =>
              simp only
              try (cases pushEntry _ (.balanceTransfer caller a bal) <;> rfl)

/-- the created mark on related accounts: slots never read count as zero now, which is what they were (the database
holds no storage for the address) -/
theorem arel_created {db : Db} {a : Addr} {x y : Acct} (h : ARel db a x y) (hx : x.created = false)
    (hz : ∀ k, db.storage a k = 0) :
    ARel db a { x with created := true, info := { x.info with code := none } }
      { y with created := true, info := { y.info with code := none } } := by
  obtain ⟨e1, e2, e3, e4, e5, e6, e7, e8, e9⟩ := h
  refine ⟨e1, e2, e3, rfl, e5, e6, e7, e8, ?_⟩
  have hy : y.created = false := by rw [← e4]; exact hx
  funext k
  have := congrFun e9 k
  simp only [slotsOf, hx, hy, hz, Bool.false_eq_true, if_false] at this
  simp only [slotsOf, if_true]
  exact this

theorem createMark_rel {db : Db} {j s j3 : JState} {a : Addr} {x y x3 : Acct} (h : JRel db j s)
    (hx : j.state a = some x) (hy : s.state a = some y) (hcr : x.created = false) (hz : ∀ k, db.storage a k = 0)
    (hl : createMark j a x = some (j3, x3)) :
    ∃ s3 y3, createMark s a y = some (s3, y3) ∧ JRel db j3 s3 ∧ j3.state a = some x3 ∧ s3.state a = some y3 ∧
      ARel db a x3 y3 ∧ Dom s s3 [] := by
  have ar : ARel db a x y := by have := h.ent a; rw [hx, hy] at this; exact this
  simp only [createMark, bind, Option.bind] at hl ⊢
  cases hp : pushEntry (setAcct j a { x with created := true }) (.accountCreated a) with
  | none => rw [hp] at hl; simp at hl
  | some j1 =>
    rw [hp] at hl
    simp only at hl
    obtain ⟨s1, hps, hs1⟩ := pushEntry_ne (s := setAcct s a { y with created := true }) (e := .accountCreated a)
      (by simpa [setAcct] using h.sne)
    rw [hps]
    simp only
    have ar' := arel_created ar hcr hz
    -- states after the push and the second `setAcct`
    have hj1 := pushEntry_some hp
    have r0 : JRel db (setAcct j a { x with created := true, info := { x.info with code := none } })
        (setAcct s a { y with created := true, info := { y.info with code := none } }) :=
      h.setAcct a _ _ ar' (by intro c hc; simp at hc) (by intro c hc; simp at hc)
    have hjeq : SameButJournal (setAcct j a { x with created := true, info := { x.info with code := none } })
        (setAcct j1 a { x with created := true, info := { x.info with code := none } }) := by
      obtain ⟨p1, p2, p3, p4, p5, p6, p7⟩ := hj1
      refine ⟨?_, p2, p3, p4, p5, p6, by simpa [setAcct] using p7⟩
      funext b; simp only [setAcct, p1]; by_cases hb : b = a <;> simp [hb]
    have hseq : SameButJournal (setAcct s a { y with created := true, info := { y.info with code := none } })
        (setAcct s1 a { y with created := true, info := { y.info with code := none } }) := by
      obtain ⟨p1, p2, p3, p4, p5, p6, p7⟩ := hs1
      refine ⟨?_, p2, p3, p4, p5, p6, by simpa [setAcct] using p7⟩
      funext b; simp only [setAcct, p1]; by_cases hb : b = a <;> simp [hb]
    have r1 := r0.of_same hjeq hseq
    obtain ⟨s3, y3, hts, r3, hx3, hy3, ar3, d3⟩ := touchAccount_rel (y := { y with created := true, info := { y.info with code := none } }) r1
      (by simp [setAcct]) (by simp [setAcct]) hl
    refine ⟨s3, y3, hts, r3, hx3, hy3, ar3, ?_⟩
    have d0 : Dom s (setAcct s1 a { y with created := true, info := { y.info with code := none } }) [] := by
      intro b
      by_cases hb : b = a
      · subst hb; simp [setAcct, hy]
      · simp [setAcct, hb, hs1.1]
    exact (d0.trans d3).perm (by simp)

theorem arel_endow {db : Db} {a : Addr} {x y : Acct} (h : ARel db a x y) (bal spec : Nat) :
    ARel db a (endow x bal spec) (endow y bal spec) := by
  obtain ⟨e1, e2, e3, e4, e5, e6, e7, e8, e9⟩ := h
  unfold endow
  by_cases hsd : spec ≥ SPURIOUS_DRAGON
  · simp only [hsd, if_true]; exact ⟨by simp [e1], rfl, e3, e4, e5, e6, e7, e8, e9⟩
  · simp only [hsd, if_false]; exact ⟨by simp [e1], e2, e3, e4, e5, e6, e7, e8, e9⟩

theorem endow_code (x : Acct) (bal spec : Nat) :
    (endow x bal spec).info.code = x.info.code ∧ (endow x bal spec).info.codeHash = x.info.codeHash := by
  unfold endow
  by_cases hsd : spec ≥ SPURIOUS_DRAGON
  · rw [if_pos hsd]; exact ⟨rfl, rfl⟩
  · rw [if_neg hsd]; exact ⟨rfl, rfl⟩

theorem createDebit_rel {db : Db} {j s j' : JState} {caller a : Addr} {bal : Nat} (h : JRel db j s)
    (hl : createDebit j caller a bal = some j') :
    ∃ s', createDebit s caller a bal = some s' ∧ JRel db j' s' ∧ Dom s s' [] := by
  simp only [createDebit, bind, Option.bind] at hl ⊢
  cases hc : j.state caller with
  | none => rw [hc] at hl; simp at hl
  | some c =>
    rw [hc] at hl
    obtain ⟨c', hc', arc⟩ := h.get hc
    rw [hc']
    simp only at hl ⊢
    have eb : c.info.balance = c'.info.balance := arc.1
    obtain ⟨r2, d2⟩ := h.setBal hc hc' (bsub c.info.balance bal)
    obtain ⟨s3, hps, hs3⟩ := pushEntry_ne
      (s := setAcct s caller { c' with info := { c'.info with balance := bsub c.info.balance bal } })
      (e := .balanceTransfer caller a bal) r2.sne
    rw [← eb, hps]
    exact ⟨s3, rfl, r2.of_same (pushEntry_some hl) hs3, (d2.trans (Dom.push hps)).perm (by simp)⟩

theorem createFund_rel {db : Db} {j s j' : JState} {caller a : Addr} {x y : Acct} {bal spec : Nat} (h : JRel db j s)
    (hx : j.state a = some x) (hy : s.state a = some y) (hl : createFund j caller a x bal spec = some j') :
    ∃ s', createFund s caller a y bal spec = some s' ∧ JRel db j' s' ∧ Dom s s' [] := by
  have ar : ARel db a x y := by have := h.ent a; rw [hx, hy] at this; exact this
  unfold createFund at hl ⊢
  have r1 := h.setAcct a _ _ (arel_endow ar bal spec)
    (by intro c hc; rw [(endow_code x bal spec).1] at hc; rw [(endow_code x bal spec).2]; exact h.cj a x hx c hc)
    (by intro c hc; rw [(endow_code y bal spec).1] at hc; rw [(endow_code y bal spec).2]; exact h.cs a y hy c hc)
  obtain ⟨s', hs', r2, d2⟩ := createDebit_rel r1 hl
  exact ⟨s', hs', r2, ((Dom.upd hy).trans d2).perm (by simp)⟩

/-- undoing what `createMark` journaled gives back the account it started from (with the code cache emptied) -/
theorem createMark_undo {jc j3 : JState} {x x3 : Acct} {a : Addr} {rest : List (List Entry)} {sd : Bool}
    (hj : jc.journal = [] :: rest) (hx : jc.state a = some x) (hcr : x.created = false) (hn : x.info.nonce = 0)
    (h3 : ¬ (sd = true ∧ a = PRECOMPILE3)) (hl : createMark jc a x = some (j3, x3)) :
    ∃ l j4, j3.journal = l :: rest ∧ undoLevel sd j3 l = some j4 ∧
      j4.state = (setAcct jc a { x with info := { x.info with code := none } }).state ∧
      j4.transient = jc.transient ∧ j4.spec = jc.spec ∧ j4.preloaded = jc.preloaded ∧
      j3.depth = jc.depth ∧ j3.logs = jc.logs ∧ j3.spec = jc.spec := by
  simp only [createMark, bind, Option.bind, pushEntry, setAcct, hj] at hl
  unfold touchAccount at hl
  by_cases ht : x.touched = true
  · simp only [ht, Bool.not_true, Bool.false_eq_true, if_false, Option.some.injEq, Prod.mk.injEq] at hl
    obtain ⟨hl1, hl2⟩ := hl
    subst hl1
    refine ⟨[.accountCreated a], ?_⟩
    simp only [undoLevel, undoEntry, bind, Option.bind, if_true, true_and]
    refine ⟨_, rfl, ?_, rfl, rfl, rfl, trivial⟩
    funext b
    by_cases hb : b = a
    · subst hb
      simp only [setAcct, if_true, Option.some.injEq]
      cases x with | mk info st cr sdd t ne c => cases info with | mk bb n ch co => simp at hcr hn ht; simp [hcr, hn, ht]
    · simp [setAcct, hb]
  · have ht' : x.touched = false := by cases h : x.touched <;> simp_all
    simp only [ht', Bool.not_false, if_true, bind, Option.bind, pushEntry, setAcct, Option.some.injEq, Prod.mk.injEq] at hl
    obtain ⟨hl1, hl2⟩ := hl
    subst hl1
    refine ⟨[.accountTouched a, .accountCreated a], ?_⟩
    simp only [undoLevel, undoEntry, bind, Option.bind, h3, if_false, if_true, setAcct, true_and]
    refine ⟨_, rfl, ?_, rfl, rfl, rfl, trivial⟩
    funext b
    by_cases hb : b = a
    · subst hb
      simp only [setAcct, if_true, Option.some.injEq]
      cases x with | mk info st cr sdd t ne c => cases info with | mk bb n ch co => simp at hcr hn ht'; simp [hcr, hn, ht']
    · simp [setAcct, hb]

theorem decU64_incU64' (x : Nat) : decU64 (incU64 x) = x := by
  unfold decU64 incU64
  have hU : U64 = 18446744073709551616 := U64_val
  by_cases h : x = U64 - 1
  · simp [h]
  · simp only [h, if_false]
    have : x + 1 ≠ 0 := by omega
    simp [this]

/-- the internal revert of `create_account_checkpoint` goes back exactly one level -/
theorem revert_back {j j3 j4 : JState} {l : List Entry} (h1 : j3.journal = l :: j.journal)
    (h2 : undoLevel (decide (j3.spec ≥ SPURIOUS_DRAGON)) j3 l = some j4) (hd : j3.depth = incU64 j.depth)
    (hlg : j3.logs = j.logs) :
    ∃ j', revert j3 (checkpoint j).2 = some j' ∧ j'.state = j4.state ∧ j'.transient = j4.transient ∧
      j'.spec = j4.spec ∧ j'.preloaded = j4.preloaded ∧ j'.depth = j.depth ∧ j'.logs = j.logs ∧
      j'.journal = j.journal := by
  rw [revert_one h1 (by simp [checkpoint]), h2]
  refine ⟨_, rfl, rfl, rfl, rfl, rfl, ?_, ?_, rfl⟩
  · show decU64 j3.depth = j.depth
    rw [hd, decU64_incU64']
  · show j3.logs.take (checkpoint j).2.logI = j.logs
    rw [hlg]; simp [checkpoint]

/-- a state that differs from `j` in the journal and in the code cache of one account only is related to what `j` is
related to -/
theorem JRel.of_back {db : Db} {j s j' : JState} (h : JRel db j s) {a : Addr} {x : Acct}
    (hst : j'.state = j.state ∨ (j.state a = some x ∧ j'.state = (Journal.setAcct j a { x with info := { x.info with code := none } }).state))
    (htr : j'.transient = j.transient) (hsp : j'.spec = j.spec) (hpr : j'.preloaded = j.preloaded)
    (hd : j'.depth = j.depth) (hlg : j'.logs = j.logs) (hj : j'.journal = j.journal) : JRel db j' s := by
  refine ⟨?_, ?_, by rw [hlg]; exact h.logs, by rw [hd]; exact h.depth, by rw [hsp]; exact h.spec,
    by rw [hpr]; exact h.pre, by rw [hj]; exact h.jne, h.sne, ?_, h.cs⟩
  · intro b
    rcases hst with hst | ⟨hx, hst⟩
    · rw [hst]; exact h.ent b
    · rw [hst]
      by_cases hb : b = a
      · subst hb
        have := h.ent b
        rw [hx] at this
        simp only [Journal.setAcct, if_true]
        cases hs : s.state b with
        | none => rw [hs] at this; exact this.elim
        | some y => rw [hs] at this; exact this
      · simp only [Journal.setAcct, hb, if_false]; exact h.ent b
  · intro b k; simp only [tload, htr]; exact h.tr b k
  · intro b acc hacc
    rcases hst with hst | ⟨hx, hst⟩
    · rw [hst] at hacc; exact h.cj b acc hacc
    · rw [hst] at hacc
      by_cases hb : b = a
      · subst hb
        simp only [Journal.setAcct, if_true, Option.some.injEq] at hacc
        subst hacc
        intro c hc; simp at hc
      · simp only [Journal.setAcct, hb, if_false] at hacc; exact h.cj b acc hacc

theorem checkpoint_jrel {db : Db} {j s : JState} (h : JRel db j s) : JRel db (checkpoint j).1 (checkpoint s).1 := by
  refine ⟨h.ent, h.tr, h.logs, ?_, h.spec, h.pre, by simp [checkpoint], by simp [checkpoint], h.cj, h.cs⟩
  show incU64 j.depth = incU64 s.depth
  rw [h.depth]

/-- the result of `create_account_checkpoint` on the two machines -/
def CreateRes (db : Db) (j s j' s' : JState) : Except CreateErr Checkpoint → Except CreateErr Checkpoint → Prop
  | .ok cp, .ok _ => cp = (checkpoint j).2 ∧ JRel db j' s' ∧ Dom s s' []
  | .error e, .error e' => e = e' ∧ JRel db j' s
  | _, _ => False

/-- `create_account_checkpoint`: on success related states; on collision / overflow the same error and the journal
machine is back at a state related to the one the specification restores -/
theorem create_rel {db : Db} {j s j' : JState} {caller a : Addr} {hs : Bool} {bal spec : Nat}
    {r : Except CreateErr Checkpoint} (h : JRel db j s)
    (hcr : ∀ x, j.state a = some x →
      x.created = false ∨ (x.info.codeHash ≠ KECCAK_EMPTY ∨ x.info.nonce ≠ 0 ∨ hs = true))
    (hz : hs = false → ∀ k, db.storage a k = 0)
    (h3 : a ≠ PRECOMPILE3) (hl : createAccountCheckpoint j caller a hs bal spec = some (j', r)) :
    ∃ s' r', createAccountCheckpoint s caller a hs bal spec = some (s', r') ∧ CreateRes db j s j' s' r r' := by
  rw [create_eq] at hl ⊢
  simp only [bind, Option.bind] at hl ⊢
  have hc := checkpoint_jrel h
  cases hx : (checkpoint j).1.state a with
  | none => rw [hx] at hl; simp at hl
  | some x =>
    rw [hx] at hl
    obtain ⟨y, hy, ar⟩ := hc.get hx
    rw [hy]
    simp only at hl ⊢
    have hxj : j.state a = some x := hx
    have hys : s.state a = some y := hy
    obtain ⟨e1, e2, e3, e4, e5, e6, e7, e8, e9⟩ := ar
    rw [← e2, ← e3]
    by_cases hcol : x.info.codeHash ≠ KECCAK_EMPTY ∨ x.info.nonce ≠ 0 ∨ hs = true
    · rw [if_pos hcol] at hl ⊢
      obtain ⟨jr, hjr, a1, a2, a3, a4, a5, a6, a7⟩ := revert_back (j := j) (j3 := (checkpoint j).1) (j4 := (checkpoint j).1)
        (l := []) rfl rfl rfl rfl
      obtain ⟨sr, hsr, _⟩ := revert_back (j := s) (j3 := (checkpoint s).1) (j4 := (checkpoint s).1)
        (l := []) rfl rfl rfl rfl
      rw [hjr] at hl
      rw [hsr]
      simp only [Option.some.injEq, Prod.mk.injEq] at hl ⊢
      obtain ⟨hl1, hl2⟩ := hl
      subst hl1; subst hl2
      exact ⟨sr, _, ⟨rfl, rfl⟩, rfl, h.of_back (a := a) (x := x) (.inl a1) a2 a3 a4 a5 a6 a7⟩
    · rw [if_neg hcol] at hl ⊢
      have hcrx : x.created = false := (hcr x hxj).resolve_right hcol
      have hn : x.info.nonce = 0 := by
        by_cases h0 : x.info.nonce = 0
        · exact h0
        · exact absurd (Or.inr (Or.inl h0)) hcol
      have hhs : hs = false := by
        cases hs
        · rfl
        · exact absurd (Or.inr (Or.inr rfl)) hcol
      cases hm : createMark (checkpoint j).1 a x with
      | none => rw [hm] at hl; simp at hl
      | some p =>
        obtain ⟨j3, x3⟩ := p
        rw [hm] at hl
        obtain ⟨s3, y3, hms, r3, hx3, hy3, ar3, d3⟩ := createMark_rel hc hx hy hcrx (hz hhs) hm
        rw [hms]
        simp only at hl ⊢
        have eb3 : x3.info.balance = y3.info.balance := ar3.1
        rw [← eb3]
        by_cases hov : x3.info.balance + bal ≥ W
        · rw [if_pos hov] at hl ⊢
          have hsd : ∀ (jj : JState), ¬ (decide (jj.spec ≥ SPURIOUS_DRAGON) = true ∧ a = PRECOMPILE3) := fun _ hh => h3 hh.2
          obtain ⟨l, j4, b1, b2, b3, b4, b5, b6, b7, b8, b9⟩ := createMark_undo (sd := decide (j3.spec ≥ SPURIOUS_DRAGON))
            (rest := j.journal) rfl hx hcrx hn (hsd j3) hm
          obtain ⟨jr, hjr, a1, a2, a3, a4, a5, a6, a7⟩ := revert_back (j := j) b1 b2 b7 b8
          have hcry : y.created = false := by rw [← e4]; exact hcrx
          have hny : y.info.nonce = 0 := by rw [← e2]; exact hn
          obtain ⟨l', s4, c1, c2, c3, c4, c5, c6, c7, c8, c9⟩ := createMark_undo (sd := decide (s3.spec ≥ SPURIOUS_DRAGON))
            (rest := s.journal) rfl hy hcry hny (hsd s3) hms
          obtain ⟨sr, hsr, _⟩ := revert_back (j := s) c1 c2 c7 c8
          rw [hjr] at hl
          rw [hsr]
          simp only [Option.some.injEq, Prod.mk.injEq] at hl ⊢
          obtain ⟨hl1, hl2⟩ := hl
          subst hl1; subst hl2
          refine ⟨sr, _, ⟨rfl, rfl⟩, rfl, h.of_back (a := a) (x := x) (.inr ⟨hxj, ?_⟩) (a2.trans b4) (a3.trans b5)
            (a4.trans b6) a5 a6 a7⟩
          rw [a1, b3]; rfl
        · rw [if_neg hov] at hl ⊢
          cases hf : createFund j3 caller a x3 bal spec with
          | none => rw [hf] at hl; simp at hl
          | some j5 =>
            rw [hf] at hl
            obtain ⟨s5, hfs, r5, d5⟩ := createFund_rel r3 hx3 hy3 hf
            rw [hfs]
            simp only [Option.some.injEq, Prod.mk.injEq] at hl ⊢
            obtain ⟨hl1, hl2⟩ := hl
            subst hl1; subst hl2
            refine ⟨s5, _, ⟨rfl, rfl⟩, rfl, r5, ?_⟩
            have d0 : Dom s (checkpoint s).1 [] := Dom.of_state_eq rfl
            exact ((d0.trans d3).trans d5).perm (by simp)

/-- a creation that collides leaves the journal state exactly as it was -/
theorem create_collision {j j' : JState} {caller a : Addr} {hs : Bool} {bal spec : Nat}
    {r : Except CreateErr Checkpoint} {x : Acct} (hx : j.state a = some x)
    (hcol : x.info.codeHash ≠ KECCAK_EMPTY ∨ x.info.nonce ≠ 0 ∨ hs = true)
    (hl : createAccountCheckpoint j caller a hs bal spec = some (j', r)) : r = .error .collision ∧ j' = j := by
  rw [create_eq] at hl
  simp only [bind, Option.bind] at hl
  have hx' : (checkpoint j).1.state a = some x := hx
  rw [hx'] at hl
  simp only at hl
  rw [if_pos hcol] at hl
  obtain ⟨jr, hjr, a1, a2, a3, a4, a5, a6, a7⟩ := revert_back (j := j) (j3 := (checkpoint j).1) (j4 := (checkpoint j).1)
    (l := []) rfl rfl rfl rfl
  rw [hjr] at hl
  simp only [Option.some.injEq, Prod.mk.injEq] at hl
  obtain ⟨hl1, hl2⟩ := hl
  subst hl1; subst hl2
  refine ⟨rfl, ?_⟩
  cases jr with | mk st tr lg dp jn sp pr =>
  cases j with | mk st' tr' lg' dp' jn' sp' pr' =>
  simp only at a1 a2 a3 a4 a5 a6 a7
  simp only [checkpoint] at a1 a2 a3 a4
  subst a1; subst a2; subst a3; subst a4; subst a5; subst a6; subst a7
  rfl
