import Revm.Proofs.EvmRefineOps
import Revm.Proofs.JournalOps
/-! Congruence of the forward journal operations with respect to `JRel` (part 2: storage, transient storage, logs,
nonce, code). -/
set_option linter.unusedSimpArgs false
set_option linter.unusedVariables false
namespace Revm.Proofs.EvmRefine
open Revm Revm.Model Revm.Model.Journal Revm.Spec.JournalAbs Revm.Proofs.Journal

theorem slotsOf_setSlot (db : Db) (a : Addr) (c : Bool) (acc : Acct) (k : Nat) (sl : Slot) :
    slotsOf db a c (setSlot acc k sl).storage =
      fun k' => if k' = k then { orig := sl.orig, present := sl.present, warm := !sl.cold } else slotsOf db a c acc.storage k' := by
  funext k'
  by_cases hk : k' = k
  · subst hk; simp [slotsOf, setSlot]
  · simp [slotsOf, setSlot, hk]

/-- `sload` in terms of the abstract slot -/
theorem sload_eq (db : Db) (s : JState) (a : Addr) (k : Nat) (acc : Acct) (hs : s.state a = some acc) :
    sload db s a k =
      (let A := slotsOf db a acc.created acc.storage k
       let s1 := setAcct s a (setSlot acc k ⟨A.orig, A.present, false⟩)
       if (!A.warm) = true then (pushEntry s1 (.storageWarmed a k)).map (·, A.present, true)
       else some (s1, A.present, false)) := by
  simp only [sload, bind, Option.bind, hs]
  cases hk : acc.storage k with
  | some sl =>
    simp only [slotsOf, hk, Bool.not_not]
    try (cases hc : sl.cold <;> simp)
  | none =>
    simp only [slotsOf, hk]
    simp

theorem setSlot_created (acc : Acct) (k : Nat) (sl : Slot) : (setSlot acc k sl).created = acc.created := rfl

theorem arel_setSlot {db : Db} {a : Addr} {x y : Acct} (h : ARel db a x y) (k : Nat) (sx sy : Slot)
    (h1 : sx.orig = sy.orig) (h2 : sx.present = sy.present) (h3 : sx.cold = sy.cold) :
    ARel db a (setSlot x k sx) (setSlot y k sy) := by
  obtain ⟨e1, e2, e3, e4, e5, e6, e7, e8, e9⟩ := h
  refine ⟨e1, e2, e3, e4, e5, e6, e7, e8, ?_⟩
  show slotsOf db a x.created (setSlot x k sx).storage = slotsOf db a y.created (setSlot y k sy).storage
  rw [slotsOf_setSlot, slotsOf_setSlot, h1, h2, h3, e9]

/-- `sload` -/
theorem sload_rel {db : Db} {j s j' : JState} {a : Addr} {k v : Nat} {c : Bool} (h : JRel db j s)
    (hl : sload db j a k = some (j', v, c)) :
    ∃ s', sload db s a k = some (s', v, c) ∧ JRel db j' s' ∧ Dom s s' [] := by
  cases hx : j.state a with
  | none => simp [sload, hx] at hl
  | some x =>
    obtain ⟨y, hy, ar⟩ := h.get hx
    rw [sload_eq db j a k x hx] at hl
    rw [sload_eq db s a k y hy]
    have e9 := ar.2.2.2.2.2.2.2.2
    have eA : slotsOf db a x.created x.storage k = slotsOf db a y.created y.storage k := congrFun e9 k
    simp only at hl ⊢
    rw [← eA]
    have ar' : ARel db a (setSlot x k ⟨(slotsOf db a x.created x.storage k).orig, (slotsOf db a x.created x.storage k).present, false⟩)
        (setSlot y k ⟨(slotsOf db a x.created x.storage k).orig, (slotsOf db a x.created x.storage k).present, false⟩) :=
      arel_setSlot ar k _ _ rfl rfl rfl
    have r1 := h.setAcct a _ _ ar' (h.cj a x hx) (h.cs a y hy)
    by_cases hw : (!(slotsOf db a x.created x.storage k).warm) = true
    · rw [if_pos hw] at hl ⊢
      cases hp : pushEntry (setAcct j a (setSlot x k ⟨(slotsOf db a x.created x.storage k).orig, (slotsOf db a x.created x.storage k).present, false⟩)) (.storageWarmed a k) with
      | none => rw [hp] at hl; simp at hl
      | some j1 =>
        rw [hp] at hl
        simp only [Option.map_some, Option.some.injEq, Prod.mk.injEq] at hl
        obtain ⟨hl1, hl2, hl3⟩ := hl
        subst hl1; subst hl2; subst hl3
        obtain ⟨s1, hps, hs1⟩ := pushEntry_ne (s := setAcct s a (setSlot y k ⟨(slotsOf db a x.created x.storage k).orig, (slotsOf db a x.created x.storage k).present, false⟩))
          (e := .storageWarmed a k) (by simpa [setAcct] using h.sne)
        rw [hps]
        exact ⟨s1, rfl, r1.of_same (pushEntry_some hp) hs1, ((Dom.upd hy).trans (Dom.push hps)).perm (by simp)⟩
    · rw [if_neg hw] at hl ⊢
      simp only [Option.some.injEq, Prod.mk.injEq] at hl
      obtain ⟨hl1, hl2, hl3⟩ := hl
      subst hl1; subst hl2; subst hl3
      exact ⟨_, rfl, r1, Dom.upd hy⟩

/-- `sstore` -/
theorem sstore_rel {db : Db} {j s j' : JState} {a : Addr} {k new o p n : Nat} {c : Bool} (h : JRel db j s)
    (hl : sstore db j a k new = some (j', o, p, n, c)) :
    ∃ s', sstore db s a k new = some (s', o, p, n, c) ∧ JRel db j' s' ∧ Dom s s' [] := by
  simp only [sstore, bind, Option.bind] at hl ⊢
  cases hsl : sload db j a k with
  | none => rw [hsl] at hl; simp at hl
  | some r =>
    obtain ⟨j1, v, c1⟩ := r
    rw [hsl] at hl
    obtain ⟨s1, hss, r1, d1⟩ := sload_rel h hsl
    rw [hss]
    simp only at hl ⊢
    obtain ⟨_, _, _, x, slx, hx, hkx, _⟩ := sload_pushes (db := db) hsl
    obtain ⟨_, _, _, y, sly, hy, hky, _⟩ := sload_pushes (db := db) hss
    rw [hx] at hl
    rw [hy]
    simp only at hl ⊢
    rw [hkx] at hl
    rw [hky]
    simp only at hl ⊢
    have ar : ARel db a x y := by have := r1.ent a; rw [hx, hy] at this; exact this
    have e9 := congrFun ar.2.2.2.2.2.2.2.2 k
    simp only [slotsOf, hkx, hky, AbsSlot.mk.injEq] at e9
    obtain ⟨eo, ep, ec⟩ := e9
    by_cases hv : v = new
    · rw [if_pos hv] at hl ⊢
      simp only [Option.some.injEq, Prod.mk.injEq] at hl
      obtain ⟨hl1, hl2, hl3, hl4, hl5⟩ := hl
      subst hl1
      exact ⟨s1, by rw [← eo, hl2, hl3, hl4, hl5], r1, d1⟩
    · rw [if_neg hv] at hl ⊢
      cases hp : pushEntry j1 (.storageChanged a k v) with
      | none => rw [hp] at hl; simp at hl
      | some j2 =>
        rw [hp] at hl
        simp only [Option.some.injEq, Prod.mk.injEq] at hl
        obtain ⟨hl1, hl2, hl3, hl4, hl5⟩ := hl
        subst hl1
        obtain ⟨s2, hps, hs2⟩ := pushEntry_ne (s := s1) (e := .storageChanged a k v) r1.sne
        rw [hps]
        have r2 := r1.of_same (pushEntry_some hp) hs2
        have ar' : ARel db a (setSlot x k { slx with present := new }) (setSlot y k { sly with present := new }) :=
          arel_setSlot ar k _ _ eo rfl (by simpa using ec)
        have hy2 : s2.state a = some y := by rw [hs2.1]; exact hy
        refine ⟨_, by rw [← eo, hl2, hl3, hl4, hl5], r2.setAcct a _ _ ar' (r1.cj a x hx) (r1.cs a y hy), ?_⟩
        exact ((d1.trans (Dom.push hps)).trans (Dom.upd hy2)).perm (by simp)

/-- a change of the journal and of the transient storage only -/
def SameButTr (s s' : JState) : Prop :=
  s'.state = s.state ∧ s'.logs = s.logs ∧ s'.depth = s.depth ∧ s'.spec = s.spec ∧ s'.preloaded = s.preloaded ∧
  s'.journal ≠ []

theorem JRel.of_tr {db : Db} {j s j' s' : JState} (h : JRel db j s) (hj : SameButTr j j') (hs : SameButTr s s')
    (htr : ∀ a k, tload j' a k = tload s' a k) : JRel db j' s' := by
  obtain ⟨a1, a3, a4, a5, a6, a7⟩ := hj
  obtain ⟨b1, b3, b4, b5, b6, b7⟩ := hs
  refine ⟨?_, htr, ?_, ?_, ?_, ?_, a7, b7, ?_, ?_⟩
  · intro a; rw [a1, b1]; exact h.ent a
  · rw [a3, b3]; exact h.logs
  · rw [a4, b4]; exact h.depth
  · rw [a5, b5]; exact h.spec
  · rw [a6, b6]; exact h.pre
  · intro a acc hacc; rw [a1] at hacc; exact h.cj a acc hacc
  · intro a acc hacc; rw [b1] at hacc; exact h.cs a acc hacc

theorem SameButTr.push {s s1 s' : JState} {e : Entry} (hp : pushEntry s1 e = some s') (h : s1.state = s.state ∧ s1.logs = s.logs ∧ s1.depth = s.depth ∧
    s1.spec = s.spec ∧ s1.preloaded = s.preloaded) : SameButTr s s' := by
  obtain ⟨p1, p2, p3, p4, p5, p6, p7⟩ := pushEntry_some hp
  exact ⟨p1.trans h.1, p3.trans h.2.1, p4.trans h.2.2.1, p5.trans h.2.2.2.1, p6.trans h.2.2.2.2, p7⟩

theorem tload_setTransient (s : JState) (a : Addr) (k : Nat) (v : Option Nat) (b : Addr) (k' : Nat) :
    tload (setTransient s a k v) b k' = if b = a ∧ k' = k then v.getD 0 else tload s b k' := by
  simp only [tload, setTransient]
  by_cases hb : b = a ∧ k' = k
  · simp [hb]
  · simp [hb]

/-- what `tstore` does, on any state -/
theorem tstore_char {s s' : JState} {a : Addr} {k new : Nat} (hne : s.journal ≠ []) (h : tstore s a k new = some s') :
    SameButTr s s' ∧ ∀ b k', tload s' b k' = if b = a ∧ k' = k then new else tload s b k' := by
  unfold tstore at h
  by_cases hn : new = 0
  · rw [if_pos hn] at h
    cases ht : s.transient a k with
    | none =>
      rw [ht] at h
      simp only [Option.some.injEq] at h
      subst h
      refine ⟨⟨rfl, rfl, rfl, rfl, rfl, hne⟩, ?_⟩
      intro b k'
      by_cases hb : b = a ∧ k' = k
      · rw [if_pos hb, hb.1, hb.2, hn]; simp [tload, ht]
      · rw [if_neg hb]
    | some had =>
      rw [ht] at h
      simp only at h
      have e := pushEntry_some h
      refine ⟨SameButTr.push h ⟨rfl, rfl, rfl, rfl, rfl⟩, ?_⟩
      intro b k'
      have : tload s' b k' = tload (setTransient s a k none) b k' := by simp only [tload, e.2.1]
      rw [this, tload_setTransient, hn]; rfl
  · rw [if_neg hn] at h
    simp only at h
    by_cases hp : (s.transient a k).getD 0 ≠ new
    · rw [if_pos hp] at h
      have e := pushEntry_some h
      refine ⟨SameButTr.push h ⟨rfl, rfl, rfl, rfl, rfl⟩, ?_⟩
      intro b k'
      have : tload s' b k' = tload (setTransient s a k (some new)) b k' := by simp only [tload, e.2.1]
      rw [this, tload_setTransient]; rfl
    · rw [if_neg hp] at h
      simp only [Option.some.injEq] at h
      subst h
      refine ⟨⟨rfl, rfl, rfl, rfl, rfl, hne⟩, ?_⟩
      intro b k'
      rw [tload_setTransient]; rfl

theorem tstore_total (s : JState) (a : Addr) (k new : Nat) (hne : s.journal ≠ []) : ∃ s', tstore s a k new = some s' := by
  unfold tstore
  by_cases hn : new = 0
  · rw [if_pos hn]
    cases ht : s.transient a k with
    | none => exact ⟨_, rfl⟩
    | some had =>
      obtain ⟨s1, h1, _⟩ := pushEntry_ne (s := setTransient s a k none) (e := .transientChange a k had) (by simpa [setTransient] using hne)
      exact ⟨s1, h1⟩
  · rw [if_neg hn]
    simp only
    by_cases hp : (s.transient a k).getD 0 ≠ new
    · rw [if_pos hp]
      obtain ⟨s1, h1, _⟩ := pushEntry_ne (s := setTransient s a k (some new)) (e := .transientChange a k ((s.transient a k).getD 0))
        (by simpa [setTransient] using hne)
      exact ⟨s1, h1⟩
    · rw [if_neg hp]; exact ⟨_, rfl⟩

/-- `tstore` -/
theorem tstore_rel {db : Db} {j s j' : JState} {a : Addr} {k new : Nat} (h : JRel db j s)
    (hl : tstore j a k new = some j') : ∃ s', tstore s a k new = some s' ∧ JRel db j' s' ∧ Dom s s' [] := by
  obtain ⟨s', hs'⟩ := tstore_total s a k new h.sne
  obtain ⟨c1, t1⟩ := tstore_char h.jne hl
  obtain ⟨c2, t2⟩ := tstore_char h.sne hs'
  refine ⟨s', hs', h.of_tr c1 c2 ?_, Dom.of_state_eq c2.1⟩
  intro b k'
  rw [t1, t2, h.tr b k']

/-- `log` -/
theorem log_rel {db : Db} {j s : JState} (l : Nat) (h : JRel db j s) : JRel db (Journal.log j l) (Journal.log s l) := by
  refine ⟨h.ent, h.tr, ?_, h.depth, h.spec, h.pre, h.jne, h.sne, h.cj, h.cs⟩
  simp only [Journal.log]; rw [h.logs]

/-- `inc_nonce` -/
theorem incNonce_rel {db : Db} {j s j' : JState} {a : Addr} {r : Option Nat} (h : JRel db j s)
    (hl : incNonce j a = some (j', r)) : ∃ s', incNonce s a = some (s', r) ∧ JRel db j' s' ∧ Dom s s' [] := by
  simp only [incNonce, bind, Option.bind] at hl ⊢
  cases hx : j.state a with
  | none => rw [hx] at hl; simp at hl
  | some x =>
    rw [hx] at hl
    obtain ⟨y, hy, ar⟩ := h.get hx
    rw [hy]
    simp only at hl ⊢
    have e2 := ar.2.1
    rw [← e2]
    by_cases hn : x.info.nonce = U64 - 1
    · rw [if_pos hn] at hl ⊢
      simp only [Option.some.injEq, Prod.mk.injEq] at hl
      obtain ⟨h1, h2⟩ := hl
      subst h1; subst h2
      exact ⟨s, rfl, h, Dom.refl s⟩
    · rw [if_neg hn] at hl ⊢
      cases hta : touchAccount j a x with
      | none => rw [hta] at hl; simp at hl
      | some p =>
        obtain ⟨j1, x1⟩ := p
        rw [hta] at hl
        obtain ⟨s1, y1, hts, r1, hx1, hy1, ar1, d1⟩ := touchAccount_rel h hx hy hta
        rw [hts]
        simp only at hl ⊢
        cases hp : pushEntry j1 (.nonceChange a) with
        | none => rw [hp] at hl; simp at hl
        | some j2 =>
          rw [hp] at hl
          simp only [Option.some.injEq, Prod.mk.injEq] at hl
          obtain ⟨h1, h2⟩ := hl
          subst h1; subst h2
          obtain ⟨s2, hps, hs2⟩ := pushEntry_ne (s := s1) (e := .nonceChange a) r1.sne
          rw [hps]
          have r2 := r1.of_same (pushEntry_some hp) hs2
          obtain ⟨e1, e2', e3, e4, e5, e6, e7, e8, e9⟩ := ar1
          have hy2 : s2.state a = some y1 := by rw [hs2.1]; exact hy1
          refine ⟨setAcct s2 a { y1 with info := { y1.info with nonce := y1.info.nonce + 1 } }, by simp only [e2'],
            r2.setAcct a _ _ ⟨e1, by simp [e2'], e3, e4, e5, e6, e7, e8, e9⟩ (r1.cj a x1 hx1) (r1.cs a y1 hy1), ?_⟩
          exact ((d1.trans (Dom.push hps)).trans (Dom.upd hy2)).perm (by simp)

/-- `set_code_with_hash` -/
theorem setCode_rel {db : Db} {j s j' : JState} {a : Addr} {hash : Nat} (h : JRel db j s)
    (hl : setCode j a hash = some j') : ∃ s', setCode s a hash = some s' ∧ JRel db j' s' ∧ Dom s s' [] := by
  simp only [setCode, bind, Option.bind] at hl ⊢
  cases hx : j.state a with
  | none => rw [hx] at hl; simp at hl
  | some x =>
    rw [hx] at hl
    obtain ⟨y, hy, ar⟩ := h.get hx
    rw [hy]
    simp only at hl ⊢
    cases hta : touchAccount j a x with
    | none => rw [hta] at hl; simp at hl
    | some p =>
      obtain ⟨j1, x1⟩ := p
      rw [hta] at hl
      obtain ⟨s1, y1, hts, r1, hx1, hy1, ar1, d1⟩ := touchAccount_rel h hx hy hta
      rw [hts]
      simp only at hl ⊢
      cases hp : pushEntry j1 (.codeChange a) with
      | none => rw [hp] at hl; simp at hl
      | some j2 =>
        rw [hp] at hl
        simp only [Option.some.injEq] at hl
        subst hl
        obtain ⟨s2, hps, hs2⟩ := pushEntry_ne (s := s1) (e := .codeChange a) r1.sne
        rw [hps]
        have r2 := r1.of_same (pushEntry_some hp) hs2
        obtain ⟨e1, e2, e3, e4, e5, e6, e7, e8, e9⟩ := ar1
        have hy2 : s2.state a = some y1 := by rw [hs2.1]; exact hy1
        refine ⟨_, rfl, r2.setAcct a _ _ ⟨e1, e2, rfl, e4, e5, e6, e7, e8, e9⟩
          (by intro c hc; simp at hc; exact hc.symm) (by intro c hc; simp at hc; exact hc.symm), ?_⟩
        exact ((d1.trans (Dom.push hps)).trans (Dom.upd hy2)).perm (by simp)

end Revm.Proofs.EvmRefine
