import Revm.Proofs.EvmLinkTx
import Revm.Proofs.EvmHost
/-! LINK, the balance legs of the transaction handler: what `Evm.deductCaller` takes and what `Evm.finish` gives back
and pays are the amounts `TxGas.deductAmount`, `TxGas.reimburseAmount`, `TxGas.rewardAmount` of C09, applied with the
same saturating operations as `TxGas.balances`. -/
set_option linter.unusedSimpArgs false
namespace Revm.Proofs.EvmLink
open Revm Revm.Model Revm.Model.Evm
open Revm.Model.GasCalc (enabled)

/-- `load_account` changes the journal's account map at the loaded address only -/
theorem loadAccount_state_ne {db : Journal.Db} {s s' : Journal.JState} {a : Nat} {c : Bool}
    (h : Journal.loadAccount db s a = some (s', c)) (x : Nat) (hx : x ≠ a) : s'.state x = s.state x := by
  simp only [Journal.loadAccount] at h
  split at h
  · split at h
    · simp only [Option.map_eq_some_iff, Prod.mk.injEq] at h
      obtain ⟨s2, h2, rfl, _⟩ := h
      rw [Proofs.EvmHost.pushEntry_state _ _ _ h2]
      simp [Journal.setAcct, hx]
    · simp only [Option.some.injEq, Prod.mk.injEq] at h
      rw [← h.1]; simp [Journal.setAcct, hx]
  · split at h
    · simp only [Option.map_eq_some_iff, Prod.mk.injEq] at h
      obtain ⟨s2, h2, rfl, _⟩ := h
      rw [Proofs.EvmHost.pushEntry_state _ _ _ h2]
      simp [Journal.setAcct, hx]
    · simp only [Option.some.injEq, Prod.mk.injEq] at h
      rw [← h.1]; simp [Journal.setAcct, hx]

theorem world_loadAccount_inv {w w1 : World} {a : Nat} {c : Bool} (h : w.loadAccount a = .ok (w1, c)) :
    Journal.loadAccount w.db w.js a = some (w1.js, c) := by
  unfold World.loadAccount at h
  obtain ⟨⟨js, c'⟩, h1, h2⟩ := bind_ok h
  simp only [pure, Except.pure, Except.ok.injEq, Prod.mk.injEq] at h2
  obtain ⟨rfl, rfl⟩ := h2
  rw [Proofs.EvmHost.noteAddr_js]
  exact Proofs.EvmHost.ofOpt_ok h1

theorem world_loadAccount_state_ne {w w1 : World} {a : Nat} {c : Bool} (h : w.loadAccount a = .ok (w1, c))
    (x : Nat) (hx : x ≠ a) : w1.js.state x = w.js.state x :=
  loadAccount_state_ne (world_loadAccount_inv h) x hx

theorem acct_ok {w : World} {a : Nat} {acc : Journal.Acct} (h : w.acct a = .ok acc) : w.js.state a = some acc :=
  Proofs.EvmHost.ofOpt_ok h

/-! ## `deduct_caller` -/

/-- **`Evm.deductCaller` takes `TxGas.deductAmount`** from the loaded caller with `TxGas.deductCaller`
(`saturating_sub`), bumps the nonce of a call transaction, and touches nobody else -/
theorem deductCaller_leg (e : Evm.Env) (spec : Nat) (w w' : World) (h : Evm.deductCaller e spec w = .ok w') :
    ∃ (w1 : World) (cold : Bool) (acc acc' : Journal.Acct) (d : Nat),
      w.loadAccount e.tx.caller = .ok (w1, cold) ∧ w1.acct e.tx.caller = .ok acc ∧
      TxGas.deductAmount (gasEnv e spec) = some d ∧
      w'.js.state e.tx.caller = some acc' ∧
      acc'.info.balance = TxGas.deductCaller acc.info.balance d ∧
      acc'.info.nonce = (if e.tx.to.isSome then U64ops.saturatingAdd acc.info.nonce 1 else acc.info.nonce) ∧
      (∀ x, x ≠ e.tx.caller → w'.js.state x = w1.js.state x) := by
  unfold Evm.deductCaller at h
  obtain ⟨⟨w1, cold⟩, h1, h⟩ := bind_ok h
  obtain ⟨acc, h2, h⟩ := bind_ok h
  obtain ⟨d, h3, h⟩ := bind_ok h
  simp only [pure, Except.pure, Except.ok.injEq] at h
  subst h
  have hd : TxGas.deductAmount (gasEnv e spec) = some d := by
    unfold TxGas.deductAmount
    rw [← effectiveGasPrice_eq, ← calcDataFee_eq]
    have hs : (gasEnv e spec).spec = spec := rfl
    have hg : (gasEnv e spec).gasLimit = e.tx.gasLimit := rfl
    rw [hs, hg]
    split at h3
    · rename_i hc
      obtain ⟨fee, hf, h3⟩ := bind_ok h3
      have hf' := Proofs.EvmHost.ofOpt_ok hf
      simp only [pure, Except.pure, Except.ok.injEq] at h3
      simp only [hc, if_true, hf', h3]
    · rename_i hc
      simp only [pure, Except.pure, Except.ok.injEq] at h3
      simp only [hc, h3]
      rfl
  refine ⟨w1, cold, acc,
    { acc with info := (if e.tx.to.isSome = true then
                  { acc.info with balance := U256.saturatingSub acc.info.balance d,
                                  nonce := U64ops.saturatingAdd acc.info.nonce 1 }
                else { acc.info with balance := U256.saturatingSub acc.info.balance d }), touched := true },
    d, h1, h2, hd, ?_, ?_, ?_, ?_⟩
  · simp only [Journal.setAcct, if_true]
  · simp only; split <;> rfl
  · simp only; split <;> rfl
  · intro x hx
    simp only [Journal.setAcct, hx, if_false]

/-! ## `reimburse_caller`, `reward_beneficiary`, `output` -/

/-- an account with another balance -/
def withBalance (acc : Journal.Acct) (b : Nat) : Journal.Acct := { acc with info := { acc.info with balance := b } }
/-- a world with another journal -/
def setJs (w : World) (js : Journal.JState) : World := { w with js := js }

theorem reimburse_eq (e : Evm.Env) (spec : Nat) (g : Gas.Gas) :
    U256.wmul e.effectiveGasPrice (U64ops.wadd g.remaining (Gas.i64AsU64 g.refunded)) =
      TxGas.reimburseAmount (gasEnv e spec) g := rfl

theorem reward_eq (e : Evm.Env) (spec : Nat) (g : Gas.Gas) :
    U256.wmul (if enabled spec GasCalc.SpecId.LONDON then U256.saturatingSub e.effectiveGasPrice e.block.basefee
               else e.effectiveGasPrice)
      (U64ops.wsub (Gas.spent g) (Gas.i64AsU64 g.refunded)) = TxGas.rewardAmount (gasEnv e spec) g := rfl

/-- **`Evm.finish` gives the caller `TxGas.reimburseAmount` and the beneficiary `TxGas.rewardAmount`** (both with
`saturating_add`, in this order, each on the freshly loaded account), and reports `txResultOf` of the final meter.
`w2` is the world between the two payments. -/
theorem finish_legs (e : Evm.Env) (spec floorGas r7 : Nat) (isCreate : Bool) (res : Interp.ChildResult)
    (w w' : World) (r : TxResult) (h : Evm.finish e spec floorGas r7 isCreate res w = .ok (r, w')) :
    ∃ (w1 : World) (c1 : Bool) (cacc cacc' : Journal.Acct) (w2 w3 : World) (c3 : Bool) (bacc bacc' : Journal.Acct)
      (cls : ResultClass) (logs : List LogRec),
      w.loadAccount e.tx.caller = .ok (w1, c1) ∧ w1.acct e.tx.caller = .ok cacc ∧
      cacc'.info.balance = U256.saturatingAdd cacc.info.balance
        (TxGas.reimburseAmount (gasEnv e spec) (Evm.finalGas e spec floorGas r7 res)) ∧
      w2.js = Journal.setAcct w1.js e.tx.caller cacc' ∧
      w2.loadAccount e.block.coinbase = .ok (w3, c3) ∧
      w3.acct e.block.coinbase = .ok bacc ∧
      bacc'.info.balance = U256.saturatingAdd bacc.info.balance
        (TxGas.rewardAmount (gasEnv e spec) (Evm.finalGas e spec floorGas r7 res)) ∧
      bacc'.touched = true ∧
      w'.js = Journal.setAcct w3.js e.block.coinbase bacc' ∧
      classOf res.result = some cls ∧
      r = txResultOf cls res isCreate (Evm.finalGas e spec floorGas r7 res) logs := by
  unfold Evm.finish at h
  generalize Evm.finalGas e spec floorGas r7 res = g at h ⊢
  obtain ⟨⟨w1, c1⟩, h1, h⟩ := bind_ok h
  obtain ⟨cacc, h2, h⟩ := bind_ok h
  simp only [reimburse_eq e spec g] at h
  obtain ⟨⟨w3, c3⟩, h3, h⟩ := bind_ok h
  obtain ⟨bacc, h4, h⟩ := bind_ok h
  simp only [reward_eq e spec g] at h
  obtain ⟨cls, h5, h⟩ := bind_ok h
  simp only [pure, Except.pure, Except.ok.injEq, Prod.mk.injEq] at h
  obtain ⟨hr, hw⟩ := h
  exact ⟨w1, c1, cacc, _, _, w3, c3, bacc, _, cls, _, h1, h2, rfl, rfl, h3, h4, rfl, rfl, by rw [← hw],
    Proofs.EvmHost.ofOpt_ok h5, hr.symm⟩

/-- the caller's account after `finish`, when the caller is not the beneficiary: the account as the execution left
it plus `TxGas.reimburseAmount` (`saturating_add`) -/
theorem finish_caller (e : Evm.Env) (spec floorGas r7 : Nat) (isCreate : Bool) (res : Interp.ChildResult)
    (w w' : World) (r : TxResult) (h : Evm.finish e spec floorGas r7 isCreate res w = .ok (r, w'))
    (hne : e.tx.caller ≠ e.block.coinbase) :
    ∃ (w1 : World) (c1 : Bool) (cacc acc' : Journal.Acct),
      w.loadAccount e.tx.caller = .ok (w1, c1) ∧ w1.acct e.tx.caller = .ok cacc ∧
      w'.js.state e.tx.caller = some acc' ∧
      acc'.info.balance = U256.saturatingAdd cacc.info.balance
        (TxGas.reimburseAmount (gasEnv e spec) (Evm.finalGas e spec floorGas r7 res)) := by
  obtain ⟨w1, c1, cacc, cacc', w2, w3, c3, bacc, bacc', cls, logs, h1, h2, hb, hw2, h3, h4, _, _, hw, _, _⟩ :=
    finish_legs e spec floorGas r7 isCreate res w w' r h
  refine ⟨w1, c1, cacc, cacc', h1, h2, ?_, hb⟩
  rw [hw]
  simp only [Journal.setAcct, hne, if_false]
  rw [world_loadAccount_state_ne h3 _ hne, hw2]
  simp only [Journal.setAcct, if_true]

/-- the beneficiary's account after `finish`: the account as `load_account(coinbase)` finds it after the reimbursement
(`bacc`) plus `TxGas.rewardAmount` (`saturating_add`) -/
theorem finish_beneficiary (e : Evm.Env) (spec floorGas r7 : Nat) (isCreate : Bool) (res : Interp.ChildResult)
    (w w' : World) (r : TxResult) (h : Evm.finish e spec floorGas r7 isCreate res w = .ok (r, w')) :
    ∃ (w3 : World) (bacc acc' : Journal.Acct),
      w3.acct e.block.coinbase = .ok bacc ∧
      w'.js.state e.block.coinbase = some acc' ∧
      acc'.info.balance = U256.saturatingAdd bacc.info.balance
        (TxGas.rewardAmount (gasEnv e spec) (Evm.finalGas e spec floorGas r7 res)) := by
  obtain ⟨w1, c1, cacc, cacc', w2, w3, c3, bacc, bacc', cls, logs, h1, h2, _, _, h3, h4, hb, _, hw, _, _⟩ :=
    finish_legs e spec floorGas r7 isCreate res w w' r h
  refine ⟨w3, bacc, bacc', h4, ?_, hb⟩
  rw [hw]; simp only [Journal.setAcct, if_true]

/-- the result reported by `finish` carries the gas numbers of `TxGas` on the final meter -/
theorem finish_gas (e : Evm.Env) (spec floorGas r7 : Nat) (isCreate : Bool) (res : Interp.ChildResult)
    (w w' : World) (r : TxResult) (h : Evm.finish e spec floorGas r7 isCreate res w = .ok (r, w')) :
    classOf res.result = some r.cls ∧
    r.gasUsed = TxGas.gasUsed (Evm.finalGas e spec floorGas r7 res) ∧
    (r.cls = .success → r.gasRefunded = TxGas.gasRefunded (Evm.finalGas e spec floorGas r7 res)) ∧
    (r.cls ≠ .success → r.gasRefunded = 0) := by
  obtain ⟨w1, c1, cacc, cacc', w2, w3, c3, bacc, bacc', cls, logs, _, _, _, _, _, _, _, _, _, hc, hr⟩ :=
    finish_legs e spec floorGas r7 isCreate res w w' r h
  generalize Evm.finalGas e spec floorGas r7 res = g at hr ⊢
  subst hr
  have hcls : (txResultOf cls res isCreate g logs).cls = cls := by cases cls <;> rfl
  rw [hcls]
  exact ⟨hc, txResultOf_gas cls res isCreate g logs⟩

end Revm.Proofs.EvmLink
