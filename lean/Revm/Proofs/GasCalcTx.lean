import Revm.Proofs.GasCalc
/-! C14, transaction part: intrinsic gas, EIP-7623 floor, `validate_initial_tx_gas` (core Lean only). -/
set_option linter.unusedSimpArgs false
set_option linter.unusedVariables false
namespace Revm.Proofs.GasCalc
open Revm Revm.U64ops Revm.Model.GasCalc Revm.Model.GasCalc.SpecId
open Revm.Spec.GasCalc (Fork ceil32 zeroBytes nonZeroBytes intrinsicGas floorGas tokens7623)
open Revm.Spec.GasCalc.Fork

theorem foldl_wadd (l : List Nat) (a : Nat) (ha : a < U64) :
    l.foldl (fun a k => wadd a k) a = (a + l.sum) % U64 := by
  have hU := U64_val
  induction l generalizing a with
  | nil => simp only [List.foldl_nil, List.sum_nil, Nat.add_zero]; exact (Nat.mod_eq_of_lt ha).symm
  | cons x xs ih =>
    simp only [List.foldl_cons, List.sum_cons]
    rw [ih _ (by unfold wadd; rw [hU]; omega)]; unfold wadd
    rw [Nat.mod_add_mod, Nat.add_assoc]

theorem zeros_eq (input : List Nat) : (input.filter (fun v => v == 0)).length = zeroBytes input := by
  unfold zeroBytes
  rw [List.countP_eq_length_filter]
  congr 1

theorem zeros_add_nonzeros (input : List Nat) : zeroBytes input + nonZeroBytes input = input.length := by
  unfold zeroBytes nonZeroBytes
  rw [List.length_eq_countP_add_countP (fun x => decide (x = 0)) (l := input)]
  congr 1
  apply List.countP_congr
  intro x _; simp

theorem wadd_eq (a b : Nat) (h : a + b < U64) : wadd a b = a + b := Nat.mod_eq_of_lt h
theorem wmul_eq (a b : Nat) (h : a * b < U64) : wmul a b = a * b := Nat.mod_eq_of_lt h
theorem wsub_eq (a b : Nat) (h : b ≤ a) (ha : a < U64) : wsub a b = a - b := by
  unfold wsub
  rw [Nat.mod_eq_of_lt (by omega : b < U64)]
  have : a + U64 - b = (a - b) + U64 := by omega
  rw [this, Nat.add_mod_right]; exact Nat.mod_eq_of_lt (by omega)

theorem calculateInitialTxGas_eq (f : Fork) (input : List Nat) (cr : Bool) (acl : List Nat) (auth : Nat)
    (h1 : intrinsicGas f input cr acl auth < U64) (h2 : floorGas f input < U64) :
    calculateInitialTxGas f.id input cr acl auth
      = some (intrinsicGas f input cr acl auth, floorGas f input) := by
  have hU := U64_val
  have hlen := zeros_add_nonzeros input
  have hlen2 : input.length + 31 < U64 := by
    unfold intrinsicGas at h1
    generalize zeroBytes input = z at *
    generalize nonZeroBytes input = nz at *
    generalize hasEIP2200 f = i at h1
    cases i <;> simp only [Bool.false_eq_true, if_true, if_false] at h1 <;> omega
  unfold calculateInitialTxGas
  rw [initcodeCost_eq _ hlen2]
  unfold getTokensInCalldata calcTxFloorCost
  rw [zeros_eq, foldl_wadd _ _ (by omega), en_istanbul, en_berlin, en_homestead, en_shanghai, en_prague]
  unfold intrinsicGas floorGas tokens7623 Spec.GasCalc.initcodeCost at *
  generalize zeroBytes input = z at *
  generalize nonZeroBytes input = nz at *
  generalize input.length = len at *
  subst hlen
  generalize acl.length = L at *
  generalize acl.sum = S at *
  generalize ceil32 (z + nz) = C at *
  unfold STANDARD_TOKEN_COST NON_ZERO_BYTE_MULTIPLIER_ISTANBUL NON_ZERO_BYTE_MULTIPLIER
    NON_ZERO_BYTE_DATA_COST_ISTANBUL NON_ZERO_BYTE_DATA_COST STANDARD_TOKEN_COST
    ACCESS_LIST_ADDRESS ACCESS_LIST_STORAGE_KEY PER_EMPTY_ACCOUNT_COST TOTAL_COST_FLOOR_PER_TOKEN
  have hmono := gates_monotone f
  generalize hasEIP2 f = e1 at *
  generalize hasEIP150 f = e0 at *
  generalize hasEIP160 f = e00 at *
  generalize hasEIP2200 f = e2 at *
  generalize hasEIP2929 f = e3 at *
  generalize hasEIP3529 f = e33 at *
  generalize hasEIP3860 f = e4 at *
  generalize hasEIP7623 f = e5 at *
  have d1 : 68 / 4 = 17 := rfl
  have d2 : 16 / 4 = 4 := rfl
  cases e1 <;> cases e0 <;> cases e00 <;> cases e2 <;> cases e3 <;> cases e33 <;> cases e4 <;> cases e5 <;>
    simp at hmono <;> cases cr <;>
    simp only [Bool.false_eq_true, if_true, if_false, Bool.and_true, Bool.and_false, Bool.true_and,
      and_true, and_false, true_and, false_and, Option.some.injEq, Prod.mk.injEq, d1, d2, Nat.zero_add] at h1 h2 ⊢ <;>
    simp (disch := omega) only [wadd_eq, wmul_eq, wsub_eq, Nat.mod_eq_of_lt, Nat.zero_add] <;>
    omega

theorem calcTxFloorCost_eq (t : Nat) (h : 21000 + 10 * t < U64) : calcTxFloorCost t = 21000 + 10 * t := by
  have hU := U64_val
  unfold calcTxFloorCost TOTAL_COST_FLOOR_PER_TOKEN
  rw [wmul_eq _ _ (by omega), wadd_eq _ _ (by omega)]; omega

theorem getTokensInCalldata_eq (input : List Nat) (ist : Bool)
    (h : zeroBytes input + 17 * nonZeroBytes input < U64) :
    getTokensInCalldata input ist = zeroBytes input + (if ist then 4 else 17) * nonZeroBytes input := by
  have hU := U64_val
  have hlen := zeros_add_nonzeros input
  unfold getTokensInCalldata NON_ZERO_BYTE_MULTIPLIER_ISTANBUL NON_ZERO_BYTE_MULTIPLIER
    NON_ZERO_BYTE_DATA_COST_ISTANBUL NON_ZERO_BYTE_DATA_COST STANDARD_TOKEN_COST
  rw [zeros_eq]
  generalize zeroBytes input = z at *
  generalize nonZeroBytes input = nz at *
  generalize input.length = len at *
  subst hlen
  have d1 : 68 / 4 = 17 := rfl
  have d2 : 16 / 4 = 4 := rfl
  cases ist <;> simp only [Bool.false_eq_true, if_true, if_false, d1, d2] <;>
    simp (disch := omega) only [wadd_eq, wmul_eq, wsub_eq] <;> omega

/-- the fork a `SpecId` is executed as by `spec_to_generic!` -/
def canonFork : Fork → Fork
  | .frontierThawing => .frontier
  | .daoFork => .homestead
  | .constantinople => .petersburg
  | .muirGlacier => .istanbul
  | .arrowGlacier => .london
  | .grayGlacier => .london
  | f => f

theorem canon_id (f : Fork) : canon f.id = (canonFork f).id := by cases f <;> rfl
theorem intrinsic_canon (f : Fork) (input : List Nat) (cr : Bool) (acl : List Nat) (auth : Nat) :
    intrinsicGas (canonFork f) input cr acl auth = intrinsicGas f input cr acl auth := by cases f <;> rfl
theorem floor_canon (f : Fork) (input : List Nat) : floorGas (canonFork f) input = floorGas f input := by
  cases f <;> rfl
theorem prague_canon (f : Fork) : hasEIP7623 (canonFork f) = hasEIP7623 f := by cases f <;> rfl

theorem validateInitialTxGas_eq (f : Fork) (input : List Nat) (cr : Bool) (acl : List Nat) (nauth lim : Nat)
    (h1 : intrinsicGas f input cr acl nauth < U64) (h2 : floorGas f input < U64) :
    validateInitialTxGas f.id input cr acl nauth lim =
      if intrinsicGas f input cr acl nauth > lim then .callGasCostMoreThanGasLimit
      else if floorGas f input > lim then .gasFloorMoreThanGasLimit
      else .ok (intrinsicGas f input cr acl nauth) (floorGas f input) := by
  unfold validateInitialTxGas
  simp only []
  rw [canon_id, calculateInitialTxGas_eq (canonFork f) input cr acl nauth
    (by rw [intrinsic_canon]; exact h1) (by rw [floor_canon]; exact h2), en_prague, prague_canon,
    intrinsic_canon, floor_canon]
  simp only []
  by_cases hi : intrinsicGas f input cr acl nauth > lim
  · simp only [hi, if_true]
  · simp only [hi, if_false]
    by_cases hf : floorGas f input > lim
    · have hp : hasEIP7623 f = true := by
        unfold floorGas at hf
        cases h : hasEIP7623 f
        · simp only [h, Bool.false_eq_true, if_false] at hf; omega
        · rfl
      simp only [hf, hp, and_self, if_true]
    · simp only [hf, and_false, if_false]

end Revm.Proofs.GasCalc
