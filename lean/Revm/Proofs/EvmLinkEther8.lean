import Revm.Proofs.EvmLinkEther7
import Revm.Proofs.EvmLinkPay
import Revm.Proofs.EvmLinkGasInv4
/-! LINK, ether conservation (C08), part 9: the two transaction-level hypotheses of C08's `tx_conserves` —
`Validated` and `GasOk` — are consequences of the whole-EVM run (C02 validation, C09 gas accounting, the gas loop
invariant), and the assembly: **`Evm.transact` conserves ether**. -/
set_option linter.unusedSimpArgs false
set_option linter.unusedVariables false
namespace Revm.Proofs.EvmLink
open Revm Revm.Model Revm.Model.Evm
open Revm.Spec.Ether Revm.Proofs.Ether

theorem sumOver_mono {f g : Nat → Nat} (h : ∀ a, f a ≤ g a) : ∀ L : List Nat, sumOver L f ≤ sumOver L g := by
  intro L
  induction L with
  | nil => exact Nat.le_refl _
  | cons a L ih => simp only [sumOver]; have := h a; omega

/-- C09's blob fee is C08's data fee -/
theorem blobFee_eq (e : Evm.Env) (spec : Nat) : Props.C09.blobFee (gasEnv e spec) = dataFee spec (feeEnv e) := by
  unfold Props.C09.blobFee dataFee
  have hc : TxGas.calcDataFee (gasEnv e spec) = TxFeeLegs.calcDataFee (feeEnv e) := by
    unfold TxGas.calcDataFee TxFeeLegs.calcDataFee
    show (match e.block.blobGasPrice with | some p => _ | none => _) = e.block.blobGasPrice.map _
    cases e.block.blobGasPrice <;> rfl
  rw [hc]
  have hsp : (gasEnv e spec).spec = spec := rfl
  rw [hsp]
  by_cases h : spec ≥ GasCalc.SpecId.CANCUN
  · have h' : spec ≥ Journal.CANCUN := h
    simp only [GasCalc.enabled, h, h', decide_true, if_true]
  · have h' : ¬ spec ≥ Journal.CANCUN := h
    simp only [GasCalc.enabled, h, h', decide_false, if_false, Bool.false_eq_true]

/-- **`Validated` from validation**: a transaction `preverify` accepts covers `gas_limit · effective price + data fee`
with the balance validation saw, and that is still the sender's balance when `deduct_caller` runs -/
theorem validated_of_preverify {w w1 : World} {e : Evm.Env} {spec ig fg : Nat}
    (hp : Evm.preverify w e spec = .ok (some (w1, ig, fg))) :
    e.tx.gasLimit * e.effectiveGasPrice + dataFee spec (feeEnv e) ≤
      bal (loadAccounts e spec w1).db (loadAccounts e spec w1).js e.tx.caller := by
  obtain ⟨hvE, _, _, _, accV, code, hl, hvs⟩ := preverify_some_inv w w1 e _ ig fg hp
  have hv := txgas_validateEnv_of_evm e _ hvE
  have hs := txgas_validateAgainstState_of_evm e _ code accV.info hvs
  obtain ⟨cold, hh, _, hacct, _, _⟩ := loadSender_inv hl
  have hinfo : HasInfo w1.js e.tx.caller accV.info := ⟨accV, acct_ok hacct, rfl⟩
  obtain ⟨accl, hsl, hil⟩ := loadAccounts_info (e := e) (spec := spec) hinfo
  rw [bal_some hsl, hil]
  obtain ⟨_, hcover, _, _⟩ := Props.C09.validated_facts _ (feeShape e) accV.info.balance hv hs
  have heff := Proofs.TxGas.eff_le_gasPrice (gasEnv e spec)
  rw [blobFee_eq] at hcover
  have hle : e.tx.gasLimit * e.effectiveGasPrice ≤ e.tx.gasLimit * e.tx.gasPrice :=
    Nat.mul_le_mul (Nat.le_refl _) heff
  have hg : (gasEnv e spec).gasLimit * (gasEnv e spec).gasPrice = e.tx.gasLimit * e.tx.gasPrice := rfl
  rw [hg] at hcover
  omega

/-- **`GasOk` from the gas loop invariant**: the final meter of an executed transaction splits the gas limit, the
capped refund is at most what was spent, and the reported `gas_used` is `spent − refunded` -/
theorem gasOk_of_firstFrame {fuel : Nat} {w : World} {e : Evm.Env} {spec ig fg k : Nat}
    {res : Interp.ChildResult} {w3 : World} (hff : FirstFrameResult fuel w e spec ig fg k res w3)
    (hL : e.tx.gasLimit < U64) (g : Gas.Gas)
    (hg : g = Evm.finalGas e (GasCalc.canon spec) fg (U64ops.wmul k (Evm.PER_EMPTY_ACCOUNT_COST - Evm.PER_AUTH_BASE_COST)) res) :
    GasOk (feeEnv e) g.remaining (Gas.spent g) (Gas.i64AsU64 g.refunded) ∧
      TxGas.gasUsed g = Gas.spent g - Gas.i64AsU64 g.refunded := by
  have ha := admissible_of_firstFrame hff hL (frameAccounting fuel w e spec ig fg k res w3 hff)
    (U64ops.wsub e.tx.gasLimit ig)
  have hfg := finalGas_eq_txgas e (GasCalc.canon spec) fg k res (U64ops.wsub e.tx.gasLimit ig)
  obtain ⟨u1, u2⟩ := Props.C09.used_plus_refunded _ ig fg k _ ha
  rw [← hfg, ← hg] at u1 u2
  have hgl : (gasEnv e (GasCalc.canon spec)).gasLimit = e.tx.gasLimit := rfl
  rw [hgl] at u2
  have e1 : TxGas.gasRefunded g = Gas.i64AsU64 g.refunded := rfl
  rw [e1] at u1 u2
  refine ⟨⟨?_, ?_, hL⟩, ?_⟩
  · show Gas.spent g + g.remaining = e.tx.gasLimit
    omega
  · omega
  · omega

/-- `prepare`, staged: the world `deduct_caller` leaves, and the ledger invariant from there to the first frame -/
theorem prepare_pres {L : List Nat} {B : Nat → Nat} (hn : L.Nodup) (hB : sumOver L B < W)
    {e : Evm.Env} {spec ig : Nat} {w w2 : World} {first isCreate k}
    (h : prepare journalOps e spec ig w = .ok (first, w2, isCreate, k)) :
    ∃ wd, deductCaller e spec (loadAccounts e spec w) = .ok wd ∧ Pres L B wd w2 := by
  unfold prepare at h
  obtain ⟨wd, hd, h⟩ := bind_ok h
  obtain ⟨⟨wa, rf⟩, hauth, h⟩ := bind_ok h
  have pA := pres_applyAuthList (L := L) (B := B) hn hB hauth
  refine ⟨wd, hd, ?_⟩
  simp only at h
  split at h
  · obtain ⟨⟨f, wf⟩, hmk, h⟩ := bind_ok h
    simp only [pure, Except.pure, Except.ok.injEq, Prod.mk.injEq] at h
    obtain ⟨_, rfl, _, _⟩ := h
    exact pA.trans (pres_makeCallFrame hn hB hmk)
  · obtain ⟨⟨f, wf⟩, hmk, h⟩ := bind_ok h
    simp only [pure, Except.pure, Except.ok.injEq, Prod.mk.injEq] at h
    obtain ⟨_, rfl, _, _⟩ := h
    exact pA.trans (pres_makeCreateFrame hn hB hmk)

/-- **ETHER CONSERVATION FOR THE WHOLE EVM.** For an executed `Evm.transact` from a journal without balance entries
(a fresh journal), with `L` a duplicate-free list containing every account present in the final journal state and
the sum of the initial balances over `L` below 2^256: the balances over `L` at the end, plus the base-fee burn
`burnt per gas · gas used`, plus the blob fee, plus what self-destructs naming themselves destroyed, is the sum of the
balances at the start. -/
theorem transact_conserves (fuel : Nat) (w w' : World) (e : Evm.Env) (spec : Nat) (r : TxResult) (L : List Nat)
    (h : Evm.transact fuel w e spec = .ok (.executed r, w'))
    (hL : e.tx.gasLimit < U64) (hn : L.Nodup) (hK : KeysIn L w')
    (hok : BalOk w.db w.js) (hj : JB w.js = []) (hSum : total L w.db w.js < W) :
    total L w'.db w'.js + burntPerGas (GasCalc.canon spec) (feeEnv e) * r.gasUsed
      + dataFee (GasCalc.canon spec) (feeEnv e) + burnt w'.js = total L w.db w.js := by
  obtain ⟨w1, ig, fg, first, w2, isCreate, k, res, w3, hp, hpr, hk, hrf, hfin⟩ :=
    transact_executed_stages fuel w w' e spec r h
  have hff : FirstFrameResult fuel w e spec ig fg k res w3 := ⟨w1, first, w2, isCreate, hp, hpr, hrf⟩
  generalize hsp : GasCalc.canon spec = s at *
  -- validation and `load_accounts` move nothing
  obtain ⟨_, _, _, _, accV, code, hl, _⟩ := preverify_some_inv w w1 e _ ig fg hp
  obtain ⟨cold, hh, hlc, _, _, _⟩ := loadSender_inv hl
  have q : Quiet w (loadAccounts e s w1) := (quiet_loadCode hlc).trans (quiet_loadAccounts e s w1)
  generalize hwl : loadAccounts e s w1 = wl at q
  have hbl : bal wl.db wl.js = bal w.db w.js := by rw [q.db]; exact q.same.1
  have hokl : BalOk wl.db wl.js := fun a => by rw [hbl]; exact hok a
  have hjl : JB wl.js = [] := q.same.2.trans hj
  have hSl : total L wl.db wl.js < W := by simp only [total, hbl]; exact hSum
  -- the fee legs
  obtain ⟨g, hg⟩ : ∃ g, g = Evm.finalGas e s fg (U64ops.wmul k (Evm.PER_EMPTY_ACCOUNT_COST - Evm.PER_AUTH_BASE_COST)) res :=
    ⟨_, rfl⟩
  obtain ⟨hpost, hdb'⟩ := finish_feeLegs hfin
  rw [← hg] at hpost
  obtain ⟨kf, hpc, hpb, jf⟩ := postExecution_keys hpost
  have hK3 : KeysIn L w3 := fun a ha => hK a (kf a ha)
  obtain ⟨hgas, hused⟩ := gasOk_of_firstFrame hff hL g (by rw [hsp]; exact hg)
  obtain ⟨_, hu, _, _⟩ := finish_gas e _ fg _ isCreate res w3 w' r hfin
  rw [← hg, hused] at hu
  -- the debit
  obtain ⟨wd, hd⟩ := prepare_deduct hpr
  rw [hwl] at hd
  obtain ⟨hded, hdbd⟩ := deductCaller_feeLegs hd
  obtain ⟨c, hcost, b1, j1⟩ := deductCaller_bal hded
  have hle : ∀ a, bal wl.db wd.js a ≤ bal wl.db wl.js a := by
    intro a
    rw [b1]
    by_cases ha : a = (feeEnv e).caller
    · subst ha; rw [upd_same]; unfold U256.saturatingSub; omega
    · rw [upd_other _ _ ha]; exact Nat.le_refl _
  have hBd : sumOver L (bal wd.db wd.js) < W := by
    rw [hdbd]; exact Nat.lt_of_le_of_lt (sumOver_mono hle L) hSl
  have hokd : BalOk wd.db wd.js := fun a => by rw [hdbd]; exact Nat.lt_of_le_of_lt (hle a) (hokl a)
  have hjd : JB wd.js = [] := j1.trans hjl
  have hval : Validated wl.db wl.js s (feeEnv e) := by
    refine ⟨?_, ?_⟩
    · have := validated_of_preverify hp
      rw [hwl] at this
      exact this
    · intro hcan
      unfold TxFeeLegs.gasCost at hcost
      simp only [] at hcost
      rw [if_pos hcan] at hcost
      unfold TxFeeLegs.calcDataFee at hcost
      cases hb : (feeEnv e).blobGasPrice with
      | none => rw [hb] at hcost; cases hcost
      | some p => rfl
  -- the execution
  obtain ⟨wd', hd', pP⟩ := prepare_pres (B := bal wd.db wd.js) hn hBd hpr
  rw [hwl, hd] at hd'
  cases hd'
  have pR := pres_runFirst (B := bal wd.db wd.js) hn hBd hrf
  have p := pP.trans pR
  have ei3 : EI L (bal wd.db wd.js) w3 := p.ei hK3 (binv_fresh hokd hjd)
  have hled := ei3.ledger hn
  have hdb3 : w3.db.basic = wl.db.basic := by rw [p.dbb, hdbd]
  have hexec : total L wl.db w3.js + burnt w3.js = total L wl.db wd.js := by
    have e3 : absB wl.db w3.js = absB w3.db w3.js := (absB_db hdb3 w3.js).symm
    have ed : bal wl.db wd.js = bal wd.db wd.js := by rw [hdbd]
    simp only [total, ed]
    have : bal wl.db w3.js = (absB w3.db w3.js).f := by rw [← e3]; rfl
    rw [this]
    exact hled
  have hpost' : TxFeeLegs.postExecution wl.db w3.js s (feeEnv e) true g.remaining (Gas.spent g)
      (Gas.i64AsU64 g.refunded) = some w'.js := by
    rw [← postExecution_db hdb3]; exact hpost
  have hfinal := tx_conserves hn (hK _ hpc) (hK _ hpb) hokl hSl hval hgas hded hexec hpost'
  simp only [if_true, Nat.add_zero] at hfinal
  have hdbf : w'.db.basic = wl.db.basic := by rw [hdb', hdb3]
  have ef : total L w'.db w'.js = total L wl.db w'.js := by
    have := absB_db hdbf w'.js
    simp only [total]
    exact congrArg (fun b => sumOver L b.f) this
  have eb : burnt w'.js = burnt w3.js := by unfold burnt; rw [jf]
  have e0 : total L w.db w.js = total L wl.db wl.js := by simp only [total, hbl]
  rw [ef, eb, e0, hu, ← hfinal]

end Revm.Proofs.EvmLink
