import Revm.Proofs.FrameTotal2
/-! C07: `run_the_loop` never panics - the invariant that the loop preserves for unbounded runs. -/
namespace Revm.Proofs.Frame
open Revm Revm.Model.Journal Revm.Model.Frame Revm.Spec.JournalAbs Revm.Proofs.Journal
set_option linter.unusedSimpArgs false
set_option linter.unusedVariables false

/-! ### host operations -/

/-- the account an instruction dereferences is loaded (SLOAD / SSTORE / SELFDESTRUCT act on the executing
contract, which `make_*_frame` loaded; the Rust `unwrap`s there) -/
def hostOk (s : JState) : HostOp → Prop
  | .sload a _ => (s.state a).isSome
  | .sstore a _ _ => (s.state a).isSome
  | .selfdestruct a _ => (s.state a).isSome
  | _ => True

theorem exists_pair_of_isSome {α β : Type} {o : Option (α × β)} (h : o.isSome = true) : ∃ a b, o = some (a, b) := by
  cases o with
  | none => simp at h
  | some p => exact ⟨p.1, p.2, rfl⟩

theorem sload_total {db : Db} {s : JState} (g : Good s) {a : Addr} (k : Nat) (ha : (s.state a).isSome) :
    ∃ s' r, sload db s a k = some (s', r) := by
  obtain ⟨acc, hacc⟩ := isSome_cases ha
  simp only [sload, hacc, bind, Option.bind_some]
  cases hk : acc.storage k with
  | some sl =>
    simp only
    by_cases hc : sl.cold = true
    · obtain ⟨s1, h1⟩ := pushEntry_total (s := setAcct s a (setSlot acc k { sl with cold := false })) (.storageWarmed a k) g.ne
      exact exists_pair_of_isSome (by simp [hc, h1])
    · exact exists_pair_of_isSome (by simp [hc])
  | none =>
    simp only
    obtain ⟨s1, h1⟩ := pushEntry_total
      (s := setAcct s a (setSlot acc k { orig := if acc.created then 0 else db.storage a k,
                                         present := if acc.created then 0 else db.storage a k, cold := false }))
      (.storageWarmed a k) g.ne
    exact exists_pair_of_isSome (by simp [h1])

theorem pushEntry_isSome {s : JState} (e : Entry) (h : s.journal ≠ []) : (pushEntry s e).isSome = true := by
  obtain ⟨s', h'⟩ := pushEntry_total e h; simp [h']

theorem selfdestruct_isSome {db : Db} {s : JState} (hdb : DbBal db) (g : Good s) {a : Addr} (t : Addr)
    (hok : (s.state a).isSome) : (selfdestruct db s a t).isSome = true := by
  obtain ⟨s1, c1, h1, g1, gr1, l1, pt⟩ := loadAccount_good hdb g t
  obtain ⟨tacc, htacc⟩ := isSome_cases pt
  obtain ⟨acc, hacc⟩ := isSome_cases (gr1.acct a hok)
  simp only [selfdestruct, h1, bind, Option.bind_some, htacc]
  by_cases hat : a = t
  · subst hat
    rw [htacc] at hacc; cases hacc
    simp only [ne_eq, not_true_eq_false, if_false, Option.bind_some, htacc]
    split
    · obtain ⟨x, hx⟩ := pushEntry_total (s := setAcct s1 a { tacc with selfdestructed := true, info := { tacc.info with balance := 0 } })
        (.accountDestroyed a a tacc.selfdestructed tacc.info.balance) g1.ne
      simp [hx]
    · simp
  · obtain ⟨s2, t2, h2, g2, hs2, _, hoth, _, gr2⟩ := touchAccount_good g1 htacc
    have ha2 : (setAcct s2 t { t2 with info := { t2.info with balance := U256.wadd t2.info.balance acc.info.balance } }).state a = some acc := by
      rw [setAcct_state_ne _ _ hat, hoth a hat]; exact hacc
    simp only [ne_eq, hat, not_false_eq_true, if_true, hacc, htacc, h2, Option.bind_some, ha2]
    split
    · obtain ⟨x, hx⟩ := pushEntry_total
        (s := setAcct (setAcct s2 t { t2 with info := { t2.info with balance := U256.wadd t2.info.balance acc.info.balance } }) a
          { acc with selfdestructed := true, info := { acc.info with balance := 0 } })
        (.accountDestroyed a t acc.selfdestructed acc.info.balance) g2.ne
      simp [hx]
    · obtain ⟨x, hx⟩ := pushEntry_total
        (s := setAcct (setAcct s2 t { t2 with info := { t2.info with balance := U256.wadd t2.info.balance acc.info.balance } }) a
          { acc with info := { acc.info with balance := 0 } })
        (.balanceTransfer a t acc.info.balance) g2.ne
      simp [hx]

theorem hostStep_total {db : Db} {s : JState} (hdb : DbBal db) (g : Good s) (op : HostOp) (hok : hostOk s op) :
    ∃ s', hostStep db s op = some s' ∧ Good s' ∧ Grows s s' ∧ s'.journal.length = s.journal.length := by
  cases op with
  | loadAccountDelegated a =>
    obtain ⟨s', r, h, g', gr, l⟩ := loadAccountDelegated_good hdb g a
    exact ⟨s', by simp [hostStep, h], g', gr, l⟩
  | balance a =>
    obtain ⟨s', r, h, g', gr, l, _⟩ := loadAccount_good hdb g a
    exact ⟨s', by simp [hostStep, h], g', gr, l⟩
  | code a =>
    obtain ⟨s', r, h, g', gr, l, _⟩ := loadCode_good hdb g a
    exact ⟨s', by simp [hostStep, h], g', gr, l⟩
  | sload a k =>
    obtain ⟨s', ⟨v, c⟩, h⟩ := sload_total (db := db) g k hok
    obtain ⟨p, _⟩ := sload_pushes (db := db) h
    obtain ⟨g', gr, l⟩ := g.of_pushes hdb p
    exact ⟨s', by simp [hostStep, h], g', gr, l⟩
  | sstore a k v =>
    obtain ⟨s1, ⟨pv, c⟩, h1⟩ := sload_total (db := db) g k hok
    obtain ⟨p1, _, _, acc, sl, hacc, hsl, _⟩ := sload_pushes (db := db) h1
    obtain ⟨g1, gr1, l1⟩ := g.of_pushes hdb p1
    have : ∃ s' r, sstore db s a k v = some (s', r) := by
      simp only [sstore, h1, bind, Option.bind_some, hacc, hsl]
      by_cases he : pv = v
      · exact exists_pair_of_isSome (by simp [he])
      · obtain ⟨s2, h2⟩ := pushEntry_total (.storageChanged a k pv) g1.ne
        exact exists_pair_of_isSome (by simp [he, h2])
    obtain ⟨s', ⟨o, p, n, c'⟩, h⟩ := this
    obtain ⟨⟨es, pp⟩, _⟩ := sstore_pushes (db := db) h
    obtain ⟨g', gr, l⟩ := g.of_pushes hdb pp
    exact ⟨s', by simp [hostStep, h], g', gr, l⟩
  | tload a k => exact ⟨s, rfl, g, Grows.refl _, rfl⟩
  | tstore a k v =>
    have : ∃ s', tstore s a k v = some s' := by
      unfold tstore
      by_cases hn : v = 0
      · simp only [hn, if_true]
        cases ht : s.transient a k with
        | none => exact ⟨s, rfl⟩
        | some had => exact pushEntry_total (s := setTransient s a k none) _ g.ne
      · simp only [hn, if_false]
        by_cases hp : (s.transient a k).getD 0 ≠ v
        · simp only [hp, if_true, ne_eq, not_false_eq_true]
          exact pushEntry_total (s := setTransient s a k (some v)) _ g.ne
        · simp only [hp, if_false]; exact ⟨_, rfl⟩
    obtain ⟨s', h⟩ := this
    obtain ⟨es, p, _⟩ := tstore_pushes (db := db) h
    obtain ⟨g', gr, l⟩ := g.of_pushes hdb p
    exact ⟨s', by simp [hostStep, h], g', gr, l⟩
  | log lg =>
    exact ⟨log s lg, rfl, ⟨JRefs.mono g.refs (Grows.of_state_eq rfl) rfl, g.ne, fun a acc h => g.bal a acc h⟩,
      Grows.of_state_eq rfl, rfl⟩
  | selfdestruct a t =>
    obtain ⟨s1, c1, h1, g1, gr1, l1, pt⟩ := loadAccount_good hdb g t
    obtain ⟨tacc, htacc⟩ := isSome_cases pt
    have : ∃ s' r, selfdestruct db s a t = some (s', r) := exists_pair_of_isSome (selfdestruct_isSome hdb g t hok)
    obtain ⟨s', r, h⟩ := this
    obtain ⟨⟨es, p⟩, _⟩ := selfdestruct_pushes (db := db) (balOk_of hdb g.bal) h
    obtain ⟨g', gr, l⟩ := g.of_pushes hdb p
    exact ⟨s', by simp [hostStep, h], g', gr, l⟩

/-! ### the invariant of the loop -/

def frameCp : Frame → Checkpoint
  | .call cp => cp
  | .create cp _ => cp
  | .eofcreate cp _ => cp

/-- the created address of a create frame is loaded (`set_code` dereferences it) -/
def frameAddrOk (s : JState) : Frame → Prop
  | .call _ => True
  | .create _ a => (s.state a).isSome
  | .eofcreate _ a => (s.state a).isSome

/-- checkpoints of the open frames: journal indices strictly increasing inwards, at least 1, the innermost
below `n` -/
def Chain : List Frame → Nat → Prop
  | [], _ => True
  | f :: rest, n => 1 ≤ (frameCp f).journalI ∧ (frameCp f).journalI < n ∧ Chain rest (frameCp f).journalI

theorem Chain.mono {st : List Frame} {n m : Nat} (h : Chain st n) (hnm : n ≤ m) : Chain st m := by
  cases st with
  | nil => trivial
  | cons f rest => exact ⟨h.1, by have := h.2.1; omega, h.2.2⟩

/-- journal well-formedness of a running loop: what makes every `unwrap` / index subtraction of the frame
machine safe. Preserved by every step (`step_total`), so it holds along unbounded runs. -/
structure LInv (l : Loop) : Prop where
  good : Good l.js
  chain : Chain l.stack l.js.journal.length
  addrs : ∀ f, f ∈ l.stack → frameAddrOk l.js f

theorem frameAddrOk_mono {s s' : JState} (g : Grows s s') {f : Frame} (h : frameAddrOk s f) : frameAddrOk s' f := by
  cases f with
  | call cp => trivial
  | create cp a => exact g.acct a h
  | eofcreate cp a => exact g.acct a h

/-- what an action needs beyond the invariant: loaded accounts for the instructions that `unwrap`, a container
that decodes for `eofcreate_return`'s `expect`, a loaded caller for an EOF create transaction -/
def actOk (l : Loop) : Action → Prop
  | .host op => hostOk l.js op
  | .ret r => r.eofcreate.decodes = true
  | .eofcreate inp kind _ => ∀ d v f, kind = .tx d v f → (l.js.state inp.caller).isSome
  | _ => True

theorem afterFrameOrResult_linv {l : Loop} {s1 : JState} {r : FrameOrResult} {mk : Checkpoint → Frame}
    (hl : LInv l) (fo : FrameOut l.js s1 r) (hmk : ∀ cp, frameCp (mk cp) = cp)
    (haddr : ∀ cp, r = .frame cp → frameAddrOk s1 (mk cp)) :
    ∀ l', afterFrameOrResult l.stack s1 mk r = .running l' → LInv l' := by
  intro l' h
  cases r with
  | result res =>
    simp only [afterFrameOrResult] at h; cases h
    exact ⟨fo.good, hl.chain.mono fo.len, fun f hf => frameAddrOk_mono fo.grows (hl.addrs f hf)⟩
  | frame cp =>
    simp only [afterFrameOrResult] at h; cases h
    obtain ⟨h1, h2⟩ := fo.cp cp rfl
    have hpos := journal_len_pos hl.good
    refine ⟨fo.good, ⟨by rw [hmk]; omega, by rw [hmk]; exact h2, by rw [hmk]; exact hl.chain.mono h1⟩, ?_⟩
    intro f hf
    rcases List.mem_cons.1 hf with rfl | hf
    · exact haddr cp rfl
    · exact frameAddrOk_mono fo.grows (hl.addrs f hf)
  | fatal => simp only [afterFrameOrResult] at h; cases h

/-- **one iteration of `run_the_loop` never panics**, and keeps the invariant -/
theorem step_total {db : Db} {spec : Nat} {l : Loop} (hdb : DbBal db) (hi : Inv l) (hl : LInv l) (a : Action)
    (hok : actOk l a) :
    ∃ out, Model.Frame.step db spec l a = some out ∧ ∀ l', out = .running l' → LInv l' := by
  cases a with
  | host op =>
    obtain ⟨s', h, g', gr, len⟩ := hostStep_total hdb hl.good op hok
    refine ⟨.running { l with js := s' }, by simp [Model.Frame.step, h], ?_⟩
    intro l' e; cases e
    exact ⟨g', by show Chain l.stack s'.journal.length; rw [len]; exact hl.chain,
      fun f hf => frameAddrOk_mono gr (hl.addrs f hf)⟩
  | call inp o =>
    obtain ⟨s1, r, h, fo⟩ := makeCallFrame_total hdb hl.good inp o
    exact ⟨_, by simp [Model.Frame.step, h], afterFrameOrResult_linv (mk := Frame.call) hl fo (fun _ => rfl) (fun _ _ => trivial)⟩
  | create inp o =>
    obtain ⟨s1, r, a, h, fo, ha⟩ := makeCreateFrame_total hdb hl.good spec inp o
    exact ⟨_, by simp [Model.Frame.step, h], afterFrameOrResult_linv (mk := (Frame.create · a)) hl fo (fun _ => rfl) (fun cp hr => ha cp hr)⟩
  | eofcreate inp kind o =>
    obtain ⟨s1, r, a, h, fo, ha⟩ := makeEofCreateFrame_total hdb hl.good spec inp kind o hok
    exact ⟨_, by simp [Model.Frame.step, h], afterFrameOrResult_linv (mk := (Frame.eofcreate · a)) hl fo (fun _ => rfl) (fun cp hr => ha cp hr)⟩
  | ret r =>
    obtain ⟨_, hne, _⟩ := hi
    cases hst : l.stack with
    | nil => rw [hst] at hne; simp at hne
    | cons f rest =>
      have hch := hl.chain; rw [hst] at hch
      obtain ⟨c1, c2, c3⟩ := hch
      have hfa := hl.addrs f (by rw [hst]; simp)
      have fin : ∀ (s' : JState) (res : IRes), Good s' → Grows l.js s' → (frameCp f).journalI ≤ s'.journal.length →
          Model.Frame.step db spec l (.ret r) = some (match rest with
            | [] => StepOut.done s' res
            | _ :: _ => StepOut.running { js := s', stack := rest }) →
          ∃ out, Model.Frame.step db spec l (.ret r) = some out ∧ ∀ l', out = .running l' → LInv l' := by
        intro s' res g' gr len hs
        refine ⟨_, hs, ?_⟩
        cases rest with
        | nil => intro l' e; cases e
        | cons f2 rest2 =>
          intro l' e; cases e
          exact ⟨g', Chain.mono c3 len, fun f' hf' => frameAddrOk_mono gr (hl.addrs f' (by rw [hst]; simp [hf']))⟩
      cases f with
      | call cp =>
        obtain ⟨s', h, g', gr, len⟩ := callReturn_total hl.good r.callOk c1 c2
        simp only [frameCp] at h
        refine fin s' (if r.callOk then IRes.otherOk else IRes.otherHalt) g' gr len ?_
        cases rest <;> simp [Model.Frame.step, hst, h]
      | create cp a =>
        obtain ⟨s', res, h, g', gr, len⟩ := createReturn_total hl.good spec a r.create c1 c2 hfa
        simp only [frameCp] at h
        refine fin s' res g' gr len ?_
        cases rest <;> simp [Model.Frame.step, hst, h]
      | eofcreate cp a =>
        obtain ⟨s', res, h, g', gr, len⟩ := eofcreateReturn_total hl.good a r.eofcreate c1 c2 hfa hok
        simp only [frameCp] at h
        refine fin s' res g' gr len ?_
        cases rest <;> simp [Model.Frame.step, hst, h]

/-- the conditions of `actOk` along a run (each evaluated in the state the action is taken in) -/
def ActsOk (db : Db) (spec : Nat) : Loop → List Action → Prop
  | _, [] => True
  | l, a :: rest => actOk l a ∧ ∀ l', Model.Frame.step db spec l a = some (.running l') → ActsOk db spec l' rest

/-- **`run_the_loop` never panics**, for any program and any number of steps -/
theorem run_total {db : Db} {spec : Nat} (hdb : DbBal db) (acts : List Action) : ∀ {l : Loop},
    Inv l → LInv l → ActsOk db spec l acts →
    ∃ out, Model.Frame.run db spec l acts = some out ∧ ∀ l', out = .running l' → LInv l' := by
  induction acts with
  | nil => intro l hi hl _; exact ⟨.running l, rfl, fun l' e => by cases e; exact hl⟩
  | cons a rest ih =>
    intro l hi hl hok
    obtain ⟨out, hs, hout⟩ := step_total (spec := spec) hdb hi hl a hok.1
    cases out with
    | running l1 =>
      obtain ⟨out2, h2, ho2⟩ := ih (step_inv hi hs) (hout l1 rfl) (hok.2 l1 hs)
      exact ⟨out2, by simp [Model.Frame.run, hs, h2], ho2⟩
    | done js r => exact ⟨.done js r, by simp [Model.Frame.run, hs], fun _ e => by cases e⟩
    | fatal => exact ⟨.fatal, by simp [Model.Frame.run, hs], fun _ e => by cases e⟩

/-- the first frame of a transaction, from a well-formed transaction-level journal -/
theorem firstFrame_total {db : Db} {spec : Nat} {s : JState} (hdb : DbBal db) (g : Good s) (f : FirstFrame)
    (hcaller : ∀ inp d v x o, f = .eofcreate inp (.tx d v x) o → (s.state inp.caller).isSome) :
    ∃ out, firstFrame db spec s f = some out ∧ ∀ l', out = .running l' → LInv l' := by
  have hpos := journal_len_pos g
  cases f with
  | call inp o =>
    obtain ⟨s1, r, h, fo⟩ := makeCallFrame_total hdb g inp o
    cases r with
    | result res => exact ⟨.done s1 res, by simp [firstFrame, h], fun _ e => by cases e⟩
    | fatal => exact ⟨.fatal, by simp [firstFrame, h], fun _ e => by cases e⟩
    | frame cp =>
      refine ⟨.running { js := s1, stack := [Frame.call cp] }, by simp [firstFrame, h], ?_⟩
      intro l' e; cases e
      obtain ⟨h1, h2⟩ := fo.cp cp rfl
      exact ⟨fo.good, ⟨by show 1 ≤ cp.journalI; omega, h2, trivial⟩, fun f hf => by simp at hf; subst hf; trivial⟩
  | create inp o =>
    obtain ⟨s1, r, a, h, fo, ha⟩ := makeCreateFrame_total hdb g spec inp o
    cases r with
    | result res => exact ⟨.done s1 res, by simp [firstFrame, h], fun _ e => by cases e⟩
    | fatal => exact ⟨.fatal, by simp [firstFrame, h], fun _ e => by cases e⟩
    | frame cp =>
      refine ⟨.running { js := s1, stack := [Frame.create cp a] }, by simp [firstFrame, h], ?_⟩
      intro l' e; cases e
      obtain ⟨h1, h2⟩ := fo.cp cp rfl
      exact ⟨fo.good, ⟨by show 1 ≤ cp.journalI; omega, h2, trivial⟩, fun f hf => by simp at hf; subst hf; exact ha cp rfl⟩
  | eofcreate inp kind o =>
    obtain ⟨s1, r, a, h, fo, ha⟩ := makeEofCreateFrame_total hdb g spec inp kind o
      (fun d v x hk => hcaller inp d v x o (by rw [hk]))
    cases r with
    | result res => exact ⟨.done s1 res, by simp [firstFrame, h], fun _ e => by cases e⟩
    | fatal => exact ⟨.fatal, by simp [firstFrame, h], fun _ e => by cases e⟩
    | frame cp =>
      refine ⟨.running { js := s1, stack := [Frame.eofcreate cp a] }, by simp [firstFrame, h], ?_⟩
      intro l' e; cases e
      obtain ⟨h1, h2⟩ := fo.cp cp rfl
      exact ⟨fo.good, ⟨by show 1 ≤ cp.journalI; omega, h2, trivial⟩, fun f hf => by simp at hf; subst hf; exact ha cp rfl⟩

end Revm.Proofs.Frame
