import Revm.Proofs.EvmLinkEther3
import Revm.Proofs.EvmLinkLoop2
/-! LINK, ether conservation (C08), part 5: the loop. Along ANY run of `Evm.runLoop` (no fuel in the statement) the
ledger invariant is preserved, given that the accounts present at the end lie in the address list. -/
set_option linter.unusedSimpArgs false
set_option linter.unusedVariables false
namespace Revm.Proofs.EvmLink
open Revm Revm.Model Revm.Model.Evm
open Revm.Spec.Ether Revm.Proofs.Ether

/-- the world of a loop state -/
def nextWorld : Next Journal.Checkpoint → World
  | .run _ w => w
  | .ended _ _ _ _ _ w => w
  | .done _ w => w

section loop
variable {L : List Nat} {B : Nat → Nat} (hn : L.Nodup) (hB : sumOver L B < W)
include hn hB

omit hn hB in
theorem deliver_world {kind : FrameKind} {o : Interp.ChildResult} {parent : JFrame} {rest : List JFrame}
    {mem : Memory.SharedMemory} {w : World} {nx} (h : deliver kind o parent rest mem w = .ok nx) : nextWorld nx = w := by
  unfold deliver at h
  split at h
  · simp only [pure, Except.pure, Except.ok.injEq] at h; subst h; rfl
  · simp only [pure, Except.pure, Except.ok.injEq] at h; subst h; rfl
  · cases h

theorem pres_frameEnd {cfg : Cfg} {top : JFrame} {rest : List JFrame} {r : Interp.IResult} {out : List Nat}
    {s : Interp.IState} {w : World} {nx} (h : frameEnd journalOps cfg top rest r out s w = .ok nx) :
    Pres L B w (nextWorld nx) := by
  unfold frameEnd at h
  obtain ⟨mem, _, h⟩ := bind_ok h
  obtain ⟨⟨res, w1⟩, hret, h⟩ := bind_ok h
  have p : Pres L B w w1 := by
    unfold frameReturn at hret
    split at hret
    · exact pres_callReturn hn hB hret
    · exact pres_createReturn hn hB hret
  simp only at h
  cases rest with
  | nil =>
    simp only [pure, Except.pure, Except.ok.injEq] at h
    subst h; exact p
  | cons parent rest' =>
    simp only at h
    rw [deliver_world h]; exact p

theorem pres_frameAction {cfg : Cfg} {top : JFrame} {rest : List JFrame} {a : Interp.Action}
    {s : Interp.IState} {w : World} {nx} (h : frameAction journalOps cfg top rest a s w = .ok nx) :
    Pres L B w (nextWorld nx) := by
  unfold frameAction at h
  obtain ⟨⟨fr, w1⟩, hmk, h⟩ := bind_ok h
  have p : Pres L B w w1 := by
    unfold makeFrame at hmk
    cases a with
    | call i => exact pres_makeCallFrame hn hB hmk
    | create i => exact pres_makeCreateFrame hn hB hmk
    | eofCreate i => cases hmk
  simp only at h
  cases fr with
  | frame f =>
    simp only [pure, Except.pure, Except.ok.injEq] at h
    subst h; exact p
  | result o =>
    simp only at h
    rw [deliver_world h]; exact p

theorem pres_afterStep {cfg : Cfg} {top : JFrame} {rest : List JFrame} {d : Interp.Done} {w : World} {nx}
    (h : afterStep journalOps cfg top rest d w = .ok nx) : Pres L B w (nextWorld nx) := by
  unfold afterStep at h
  cases d with
  | next s =>
    simp only [pure, Except.pure, Except.ok.injEq] at h
    subst h; exact Pres.refl _ _ _
  | action a s => exact pres_frameAction hn hB h
  | halt r out s => exact pres_frameEnd hn hB h
  | fault f => cases h

theorem pres_iterate {cfg : Cfg} {stack : List JFrame} {w : World} {nx}
    (h : iterate journalOps cfg stack w = .ok nx) : Pres L B w (nextWorld nx) := by
  unfold iterate at h
  cases stack with
  | nil => cases h
  | cons top rest =>
    simp only at h
    split at h
    · exact pres_afterStep hn hB h
    · obtain ⟨⟨resp, w1⟩, ha, h⟩ := bind_ok h
      exact (pres_answer hn hB ha).trans (pres_afterStep hn hB h)

/-- **the ledger invariant along every run** -/
theorem pres_steps {cfg : Cfg} {n m : Next Journal.Checkpoint} (t : Steps cfg n m) :
    Pres L B (nextWorld n) (nextWorld m) := by
  induction t with
  | refl n => exact Pres.refl _ _ _
  | iter h _ ih => exact (pres_iterate hn hB h).trans ih
  | fend h _ ih => exact (pres_frameEnd hn hB h).trans ih

theorem pres_runFirst {cfg : Cfg} {fuel : Nat} {first : FrameOrResult Journal.Checkpoint} {w w' : World} {res}
    (h : runFirst journalOps cfg fuel first w = .ok (res, w')) : Pres L B w w' := by
  cases first with
  | frame f => exact pres_steps hn hB ((runLoop_steps cfg fuel).1 _ _ _ _ h)
  | result r =>
    simp only [runFirst, pure, Except.pure, Except.ok.injEq, Prod.mk.injEq] at h
    rw [← h.2]; exact Pres.refl _ _ _

end loop
end Revm.Proofs.EvmLink
