import Revm.Proofs.EvmRefineE1
/-! The `Host` of the interpreter on the two machines, errors included. -/
set_option linter.unusedSimpArgs false
set_option linter.unusedVariables false
namespace Revm.Proofs.EvmRefine
open Revm Revm.Model Revm.Model.Journal Revm.Spec.JournalAbs Revm.Proofs.Journal Revm.Proofs.Frame
open Revm.Model.Evm
open Revm.Spec.Evm (Snap snapshotOps journalOpsStrict)
open Revm.Proofs.EvmRR Revm.Proofs.EvmSim

variable {ks1 : List Checkpoint} {ks2 : List Snap} {w1 w2 : World}

/-- after `load_code` on both machines the two entries of the account carry the same `AccountInfo`, cache included -/
theorem fetch_info (a : Addr) {wa wb : World} {c c' : Bool} {x y : Acct}
    (h1 : w1.loadCode a = .ok (wa, c)) (h2 : w2.loadCode a = .ok (wb, c')) (hr : CfgRel ks1 wa ks2 wb)
    (hxy : AcctRel wa wb a x y) : y.info = x.info := by
  obtain ⟨jx, hhx, hjx, hcx⟩ : ∃ acc hh, wa.js.state a = some acc ∧ acc.info.code = some hh := by
    unfold World.loadCode at h1
    simp only [bind, Except.bind] at h1
    cases ho : ofOpt "load_code" (Journal.loadCode w1.db w1.js a) with
    | error e => rw [ho] at h1; simp at h1
    | ok q =>
      rw [ho] at h1
      simp only [pure, Except.pure, Except.ok.injEq, Prod.mk.injEq] at h1
      have : wa.js = q.1 := by rw [← h1.1]; exact (noteAddr_fields _ a).1
      rw [this]; exact loadCode_cached (s' := q.1) (c := q.2) (ofOpt_ok ho)
  obtain ⟨sy, hhy, hsy, hcy⟩ : ∃ acc hh, wb.js.state a = some acc ∧ acc.info.code = some hh := by
    unfold World.loadCode at h2
    simp only [bind, Except.bind] at h2
    cases ho : ofOpt "load_code" (Journal.loadCode w2.db w2.js a) with
    | error e => rw [ho] at h2; simp at h2
    | ok q =>
      rw [ho] at h2
      simp only [pure, Except.pure, Except.ok.injEq, Prod.mk.injEq] at h2
      have : wb.js = q.1 := by rw [← h2.1]; exact (noteAddr_fields _ a).1
      rw [this]; exact loadCode_cached (s' := q.1) (c := q.2) (ofOpt_ok ho)
  obtain ⟨ar, hxs, hys⟩ := hxy
  rw [hxs] at hjx; cases hjx
  rw [hys] at hsy; cases hsy
  obtain ⟨e1, e2, e3, _⟩ := ar
  have c1 := hr.w.rel.cj a x hxs hhx hcx
  have c2 := hr.w.rel.cs a y hys hhy hcy
  cases hxi : x.info with
  | mk b1 n1 ch1 co1 =>
    cases hyi : y.info with
    | mk b2 n2 ch2 co2 =>
      rw [hxi] at e1 e2 e3 hcx c1
      rw [hyi] at e1 e2 e3 hcy c2
      simp only at e1 e2 e3 hcx hcy c1 c2
      rw [e1, e2, e3, hcx, hcy, c1, c2, e3]

/-- the loaded account with its code, on both machines: what `fetch` hands to the continuation -/
structure Fetched (ks1 : List Checkpoint) (ks2 : List Snap) (a : Addr) (wa wb : World) (x y : Acct) : Prop where
  rel : CfgRel ks1 wa ks2 wb
  acct : AcctRel wa wb a x y
  info : y.info = x.info

theorem none_of_symm {α β : Type} {o1 : Option α} {o2 : Option β} (h : ∀ b, o2 = some b → ∃ a, o1 = some a)
    (hn : o1 = none) : o2 = none := by
  cases ho : o2 with
  | none => rfl
  | some b => obtain ⟨a, ha⟩ := h b ho; rw [hn] at ha; cases ha

/-- the `host` obligation, errors included -/
theorem host_rr (he : HostEnv) (h : CfgRel ks1 w1 ks2 w2) (op : Interp.HostOp) :
    RR (ValRel CfgRel ks1 ks2) (answer he w1 op) (answer he w2 op) := by
  refine RR.of (fun p hp => ?_) (fun e hE => ?_)
  · obtain ⟨resp, w1'⟩ := p
    obtain ⟨w2', h2, hr⟩ := host_rel he h op resp w1' hp
    exact ⟨(resp, w2'), h2, rfl, hr⟩
  · cases op with
    | balance a =>
      have : RR (ValRel CfgRel ks1 ks2) (answer he w1 (.balance a)) (answer he w2 (.balance a)) := by
        simp only [answer]
        refine RR.bind (wLoadAccount_rr h a) ?_
        rintro ⟨wa, c⟩ ⟨wb, c'⟩ ⟨hc, hr⟩
        simp only at hc hr
        subst hc
        refine RR.bind (acct_rr hr a) ?_
        rintro x y ⟨ar, _, _⟩
        exact RR.pure ⟨by rw [ar.1], hr⟩
      exact this.err hE
    | code a =>
      have : RR (ValRel CfgRel ks1 ks2) (answer he w1 (.code a)) (answer he w2 (.code a)) := by
        simp only [answer]
        refine RR.bind (RR.withEq (wLoadCode_rr h a)) ?_
        rintro ⟨wa, c⟩ ⟨wb, c'⟩ ⟨⟨hc, hr⟩, h1, h2⟩
        simp only at hc hr
        subst hc
        refine RR.bind (acct_rr hr a) ?_
        intro x y hxy
        rw [fetch_info a h1 h2 hr hxy]
        refine RR.bind (RR.same _) ?_
        intro hh hh' ehh
        subst ehh
        rw [hr.codeOf hh]
        refine RR.bind (RR.same _) ?_
        intro code code' ec
        subst ec
        exact RR.pure ⟨rfl, hr⟩
      exact this.err hE
    | codeHash a =>
      have : RR (ValRel CfgRel ks1 ks2) (answer he w1 (.codeHash a)) (answer he w2 (.codeHash a)) := by
        simp only [answer]
        refine RR.bind (wLoadCode_rr h a) ?_
        rintro ⟨wa, c⟩ ⟨wb, c'⟩ ⟨hc, hr⟩
        simp only at hc hr
        subst hc
        refine RR.bind (acct_rr hr a) ?_
        rintro x y ⟨ar, _, _⟩
        obtain ⟨e1, e2, e3, _⟩ := ar
        have hie : y.info.isEmpty = x.info.isEmpty := by simp only [Info.isEmpty, e1, e2, e3]
        simp only
        rw [hie, ← e3]
        by_cases hem : x.info.isEmpty = true
        · rw [if_pos hem, if_pos hem]; exact RR.pure ⟨rfl, hr⟩
        · rw [if_neg hem, if_neg hem]; exact RR.pure ⟨rfl, hr⟩
      exact this.err hE
    | loadAccountDelegated a =>
      have : RR (ValRel CfgRel ks1 ks2) (answer he w1 (.loadAccountDelegated a)) (answer he w2 (.loadAccountDelegated a)) := by
        simp only [answer]
        refine RR.bind (wLoadAccountDelegated_rr h a) ?_
        rintro ⟨wa, r⟩ ⟨wb, r'⟩ ⟨hc, hr⟩
        simp only at hc hr
        subst hc
        exact RR.pure ⟨rfl, hr⟩
      exact this.err hE
    | sload a k =>
      simp only [answer] at hE ⊢
      refine world_err (fun p => ⟨_, rfl⟩) (fun hn => ?_) hE
      rw [sload_congr (db_storage w1)] at hn
      rw [sload_congr h.st2]
      refine none_of_symm (fun b hb => ?_) hn
      obtain ⟨s', v, c⟩ := b
      obtain ⟨j', hj, _⟩ := sload_rel h.w.rel.symm hb
      exact ⟨_, hj⟩
    | sstore a k v =>
      simp only [answer] at hE ⊢
      refine world_err (fun p => ⟨_, rfl⟩) (fun hn => ?_) hE
      rw [sstore_congr (db_storage w1)] at hn
      rw [sstore_congr h.st2]
      refine none_of_symm (fun b hb => ?_) hn
      obtain ⟨s', o, p, n, c⟩ := b
      obtain ⟨j', hj, _⟩ := sstore_rel h.w.rel.symm hb
      exact ⟨_, hj⟩
    | tstore a k v =>
      simp only [answer] at hE ⊢
      refine world_err (fun p => ⟨_, rfl⟩) (fun hn => ?_) hE
      refine none_of_symm (fun b hb => ?_) hn
      obtain ⟨j', hj, _⟩ := tstore_rel (db := dbPre w1.pre) h.w.rel.symm hb
      exact ⟨_, hj⟩
    | selfdestruct a t =>
      simp only [answer] at hE ⊢
      refine world_err (fun p => ⟨_, rfl⟩) (fun hn => ?_) hE
      rw [selfdestruct_congr (db_basic w1)] at hn
      rw [selfdestruct_congr h.db2]
      refine none_of_symm (fun b hb => ?_) hn
      obtain ⟨s', r⟩ := b
      obtain ⟨j', hj, _⟩ := selfdestruct_rel h.w.rel.symm (dbCode_pre _) hb
      exact ⟨_, hj⟩
    | _ =>
      -- the answers that cannot fail
      simp [answer, pure, Except.pure] at hE

end Revm.Proofs.EvmRefine
