import Revm.Proofs.InterpEofWf
/-! C25, EOF part 2: the EOF primitives (immediate reads, relative jumps, `stack.f(..); ip += 1`) and the EOF
instructions that stay inside the running section, each under exactly the facts about immediates and targets that
well-formedness provides. -/
set_option linter.unusedSimpArgs false
set_option linter.unusedVariables false
namespace Revm.Proofs.Interp
open Revm Revm.Model Revm.Model.Interp
open Revm.Proofs.Memory (WF)

/-- the handler continues, having consumed at least 1 gas, in the same section, with the instruction pointer at
a position satisfying `T` -/
def DoneT (T : Nat → Prop) (s0 s' : IState) : Prop :=
  ∃ k st ne L, 1 ≤ k ∧ Core k st ne L s0 s' ∧ T s'.pc

theorem Done1.toT {T : Nat → Prop} {s0 s' : IState} (h : Done1 s0 s') (ht : T s0.pc) : DoneT T s0 s' := by
  obtain ⟨k, st, ne, L, hk, hr⟩ := h
  exact ⟨k, st, ne, L, hk, hr.toCore, by rw [hr.pc]; exact ht⟩

section prims
variable {k : Nat} {st ne : Bool} {L : Nat} {s0 s : IState}

theorem requireEof_pass (h : Rel k st ne L s0 s) (hE : s0.isEof = true) :
    Exec.Sat (requireEof s) (Halt s0) (fun _ s' => s = s') := by
  unfold requireEof
  rw [h.isEof, hE]
  exact sat_ok rfl

theorem requireInitEof_sat (h : Rel k st ne L s0 s) :
    Exec.Sat (requireInitEof s) (Halt s0) (fun _ s' => s = s') := by
  unfold requireInitEof
  split
  · exact sat_halt h.toCore.toHalt
  · exact sat_ok rfl

theorem codeByte_sat (h : Rel k st ne L s0 s) (off : Nat) (hin : s.pc + off < s.code.length) :
    Exec.Sat (codeByte off s) (Halt s0) (fun b s' => s = s' ∧ b = s.code.getD (s.pc + off) 0) := by
  unfold codeByte
  rw [List.getElem?_eq_getElem hin]
  refine sat_ok ⟨rfl, ?_⟩
  rw [List.getD_eq_getElem?_getD, List.getElem?_eq_getElem hin]; rfl

theorem readU16_sat (h : Rel k st ne L s0 s) (off : Nat) (hin : s.pc + off + 1 < s.code.length) :
    Exec.Sat (readU16 off s) (Halt s0) (fun v s' => s = s' ∧ v = u16At s.code (s.pc + off)) := by
  unfold readU16
  refine sat_bind (codeByte_sat h off (by omega)) ?_
  rintro a _ ⟨rfl, ha⟩
  refine sat_bind (codeByte_sat h (off + 1) (by omega)) ?_
  rintro b _ ⟨rfl, hb⟩
  refine sat_pure ⟨rfl, ?_⟩
  rw [ha, hb]; unfold u16At
  rw [Nat.add_assoc]

theorem readI16_sat (h : Rel k st ne L s0 s) (off : Nat) (hin : s.pc + off + 1 < s.code.length) :
    Exec.Sat (readI16 off s) (Halt s0) (fun v s' => s = s' ∧ v = i16At s.code (s.pc + off)) := by
  unfold readI16
  refine sat_bind (readU16_sat h off hin) ?_
  rintro v _ ⟨rfl, hv⟩
  refine sat_pure ⟨rfl, ?_⟩
  rw [hv]; rfl

theorem getEof_sat (h : Rel k st ne L s0 s) {c : EofCtx} (hc : s.eof = some c) :
    Exec.Sat (getEof s) (Halt s0) (fun c' s' => s = s' ∧ c' = c) := by
  unfold getEof
  rw [hc]
  exact sat_ok ⟨rfl, rfl⟩

theorem Core.setPc {s' : IState} (h : Core k st ne L s0 s') (p : Nat) :
    Core k st ne L s0 { s' with pc := p } := { h with }

/-- `instruction_pointer.offset(d)` to a position that is not before the buffer -/
theorem jumpRel_sat {T : Nat → Prop} (h : Rel k st ne L s0 s) (hk : 1 ≤ k) (d : Int)
    (hd : 0 ≤ (s.pc : Int) + d) (ht : T ((s.pc : Int) + d).toNat) :
    Exec.Sat (jumpRel d s) (Halt s0) (fun _ s' => DoneT T s0 s') := by
  unfold jumpRel
  simp only []
  rw [if_neg (by omega)]
  exact sat_ok ⟨k, st, ne, L, hk, h.toCore.setPc _, ht⟩

theorem advancePc_sat {T : Nat → Prop} (h : Rel k st ne L s0 s) (hk : 1 ≤ k) (n : Nat) (ht : T (s.pc + n)) :
    Exec.Sat (advancePc n s) (Halt s0) (fun _ s' => DoneT T s0 s') :=
  sat_ok ⟨k, st, ne, L, hk, h.toCore.setPc _, ht⟩

/-- `if let Err(r) = stack.f(..) { result = r }; ip += n` -/
theorem stackCallAdv_sat {T : Nat → Prop} (h : Rel k true ne L s0 s) (hk : 1 ≤ k)
    (f : List Nat → List Nat × Stack.Res Unit) (n : Nat) (op : Stack.Op) (hp : op.pre)
    (hf : ∀ d, (Stack.step d op).1 = (f d).1 ∧ ((f d).2 = .panic → (Stack.step d op).2 = .panic)
      ∧ ((f d).2 = .ub → (Stack.step d op).2 = .ub)) (ht : T (s.pc + n)) :
    Exec.Sat (stackCallAdv f n s) (Halt s0) (fun _ s' => DoneT T s0 s') := by
  have hstk := h.stack
  have hlen := Proofs.Stack.step_len_le s.stack op (by simpa [Stack.STACK_LIMIT] using hstk) hp
  have hnp := Proofs.Stack.step_no_panic_ub s.stack op (by simpa [Stack.STACK_LIMIT] using hstk) hp
  obtain ⟨h1, h2, h3⟩ := hf s.stack
  rw [h1] at hlen
  unfold stackCallAdv
  cases hfs : f s.stack with
  | mk d r =>
    rw [hfs] at hlen h2 h3
    cases r with
    | ok u =>
      refine sat_ok ⟨k, true, false, L, hk, ?_, ht⟩
      show Core k true false L s0 { s with stack := d, pc := s.pc + n }
      exact
        { h.toCore with
          stack := by simpa [Stack.STACK_LIMIT] using hlen
          safe := Or.inl (h.strict rfl)
          nonempty := fun e => by cases e }
    | err e =>
      refine sat_halt ?_
      show Halt s0 { s with pc := s.pc + n }
      exact { h.toCore.toHalt with }
    | panic => exact absurd (h2 rfl) hnp.1
    | ub => exact absurd (h3 rfl) hnp.2

end prims

/-! ## the EOF instructions inside one section -/

section instr
variable {s0 : IState} {T : Nat → Prop}

theorem rjumpI_sat (h : Rel 0 false false 0 s0 s0) (hE : s0.isEof = true)
    (himm : s0.pc + 1 < s0.code.length)
    (hd : 0 ≤ (s0.pc : Int) + (i16At s0.code s0.pc + 2))
    (ht : T ((s0.pc : Int) + (i16At s0.code s0.pc + 2)).toNat) :
    Exec.Sat (rjumpI s0) (Halt s0) (fun _ s' => DoneT T s0 s') := by
  unfold rjumpI
  refine sat_bind (requireEof_pass h hE) ?_
  rintro _ _ rfl
  refine sat_bind (gasCharge_sat h _) ?_
  intro _ s1 h1
  refine sat_bind (readI16_sat h1 0 (by rw [h1.pc, h1.code]; omega)) ?_
  rintro d _ ⟨rfl, hdv⟩
  rw [hdv, h1.pc, h1.code, Nat.add_zero]
  exact jumpRel_sat h1 (by decide) _ (by rw [h1.pc]; exact hd) (by rw [h1.pc]; exact ht)

theorem rjumpiI_sat (h : Rel 0 false false 0 s0 s0) (hE : s0.isEof = true)
    (himm : s0.pc + 1 < s0.code.length)
    (hd : 0 ≤ (s0.pc : Int) + (2 + i16At s0.code s0.pc))
    (ht : T ((s0.pc : Int) + (2 + i16At s0.code s0.pc)).toNat) (hn : T (s0.pc + 2)) :
    Exec.Sat (rjumpiI s0) (Halt s0) (fun _ s' => DoneT T s0 s') := by
  unfold rjumpiI
  refine sat_bind (requireEof_pass h hE) ?_
  rintro _ _ rfl
  refine sat_bind (gasCharge_sat h _) ?_
  intro _ s1 h1
  refine sat_bind (pop1_sat h1) ?_
  intro c s2 h2
  split
  · refine sat_bind (readI16_sat h2 0 (by rw [h2.pc, h2.code]; omega)) ?_
    rintro d _ ⟨rfl, hdv⟩
    rw [hdv, h2.pc, h2.code, Nat.add_zero]
    exact jumpRel_sat h2 (by decide) _ (by rw [h2.pc]; exact hd) (by rw [h2.pc]; exact ht)
  · refine jumpRel_sat h2 (by decide) 2 (by omega) ?_
    rw [h2.pc]
    have : ((s0.pc : Int) + 2).toNat = s0.pc + 2 := by omega
    rw [this]; exact hn

theorem rjumpvI_sat (h : Rel 0 false false 0 s0 s0) (hE : s0.isEof = true)
    (himm : s0.pc + 2 * (s0.code.getD s0.pc 0 + 1) < s0.code.length)
    (htab : ∀ j, j ≤ s0.code.getD s0.pc 0 →
      0 ≤ (s0.pc : Int) + ((((s0.code.getD s0.pc 0 + 1) * 2 + 1 : Nat) : Int) + i16At s0.code (s0.pc + (1 + j * 2)))
      ∧ T ((s0.pc : Int) + ((((s0.code.getD s0.pc 0 + 1) * 2 + 1 : Nat) : Int)
            + i16At s0.code (s0.pc + (1 + j * 2)))).toNat)
    (hn : T (s0.pc + ((s0.code.getD s0.pc 0 + 1) * 2 + 1))) :
    Exec.Sat (rjumpvI s0) (Halt s0) (fun _ s' => DoneT T s0 s') := by
  unfold rjumpvI
  refine sat_bind (requireEof_pass h hE) ?_
  rintro _ _ rfl
  refine sat_bind (gasCharge_sat h _) ?_
  intro _ s1 h1
  refine sat_bind (pop1_sat h1) ?_
  intro c s2 h2
  refine sat_bind (codeByte_sat h2 0 (by rw [h2.pc, h2.code]; omega)) ?_
  rintro mx _ ⟨rfl, hmx⟩
  rw [h2.pc, h2.code, Nat.add_zero] at hmx
  subst hmx
  dsimp only []
  split
  · rename_i hcase
    refine sat_bind (readI16_sat h2 (1 + asIsizeSat c * 2) (by rw [h2.pc, h2.code]; omega)) ?_
    rintro d _ ⟨rfl, hdv⟩
    rw [hdv, h2.pc, h2.code]
    obtain ⟨ha, hb⟩ := htab (asIsizeSat c) hcase
    exact jumpRel_sat h2 (by decide) _ (by rw [h2.pc]; exact ha) (by rw [h2.pc]; exact hb)
  · refine jumpRel_sat h2 (by decide) _ (by omega) ?_
    rw [h2.pc]
    have : ((s0.pc : Int) + (((s0.code.getD s0.pc 0 + 1) * 2 + 1 : Nat) : Int)).toNat
        = s0.pc + ((s0.code.getD s0.pc 0 + 1) * 2 + 1) := by omega
    rw [this]; exact hn

theorem stackAdv_hf (f : List Nat → List Nat × Stack.Res Unit) (op : Stack.Op)
    (h : ∀ d, Stack.step d op = ((f d).1, Stack.Out.ofUnit (f d).2)) :
    ∀ d, (Stack.step d op).1 = (f d).1 ∧ ((f d).2 = .panic → (Stack.step d op).2 = .panic)
      ∧ ((f d).2 = .ub → (Stack.step d op).2 = .ub) := by
  intro d
  rw [h d]
  exact ⟨rfl, fun e => by show Stack.Out.ofUnit _ = _; rw [e]; rfl,
    fun e => by show Stack.Out.ofUnit _ = _; rw [e]; rfl⟩

theorem dupnI_sat (h : Rel 0 false false 0 s0 s0) (hE : s0.isEof = true)
    (himm : s0.pc < s0.code.length) (ht : T (s0.pc + 1)) :
    Exec.Sat (dupnI s0) (Halt s0) (fun _ s' => DoneT T s0 s') := by
  unfold dupnI
  refine sat_bind (requireEof_pass h hE) ?_
  rintro _ _ rfl
  refine sat_bind (gasCharge_sat h _) ?_
  intro _ s1 h1
  refine sat_bind (codeByte_sat h1 0 (by rw [h1.pc, h1.code]; omega)) ?_
  rintro imm _ ⟨rfl, _⟩
  exact stackCallAdv_sat (h1.mkStrict (by decide)) (by decide) _ 1 (.dup (imm + 1)) (Nat.succ_pos _)
    (stackAdv_hf _ _ (fun d => rfl)) (by rw [h1.pc]; exact ht)

theorem byte_lt_of_mem {code : List Nat} (hb : ∀ b ∈ code, b < 256) (i : Nat) : code.getD i 0 < 256 := by
  rw [List.getD_eq_getElem?_getD]
  cases h : code[i]? with
  | none => simp
  | some b => exact hb b (List.mem_of_getElem? h)

theorem swapnI_sat (h : Rel 0 false false 0 s0 s0) (hE : s0.isEof = true)
    (himm : s0.pc < s0.code.length) (hbyte : s0.code.getD s0.pc 0 < U64 - 1) (ht : T (s0.pc + 1)) :
    Exec.Sat (swapnI s0) (Halt s0) (fun _ s' => DoneT T s0 s') := by
  unfold swapnI
  refine sat_bind (requireEof_pass h hE) ?_
  rintro _ _ rfl
  refine sat_bind (gasCharge_sat h _) ?_
  intro _ s1 h1
  refine sat_bind (codeByte_sat h1 0 (by rw [h1.pc, h1.code]; omega)) ?_
  rintro imm _ ⟨rfl, himmv⟩
  rw [h1.pc, h1.code, Nat.add_zero] at himmv
  exact stackCallAdv_sat (h1.mkStrict (by decide)) (by decide) _ 1 (.swap (imm + 1))
    ⟨Nat.succ_pos _, by rw [himmv]; omega⟩
    (stackAdv_hf _ _ (fun d => rfl)) (by rw [h1.pc]; exact ht)

theorem exchangeI_sat (h : Rel 0 false false 0 s0 s0) (hE : s0.isEof = true)
    (himm : s0.pc < s0.code.length) (hbyte : s0.code.getD s0.pc 0 < U64 - 2) (ht : T (s0.pc + 1)) :
    Exec.Sat (exchangeI s0) (Halt s0) (fun _ s' => DoneT T s0 s') := by
  unfold exchangeI
  refine sat_bind (requireEof_pass h hE) ?_
  rintro _ _ rfl
  refine sat_bind (gasCharge_sat h _) ?_
  intro _ s1 h1
  refine sat_bind (codeByte_sat h1 0 (by rw [h1.pc, h1.code]; omega)) ?_
  rintro imm _ ⟨rfl, himmv⟩
  rw [h1.pc, h1.code, Nat.add_zero] at himmv
  have h16 : imm / 16 + 1 + (imm % 16 + 1) < U64 := by
    have : imm / 16 ≤ imm := Nat.div_le_self _ _
    have : imm % 16 < 16 := Nat.mod_lt _ (by decide)
    rw [himmv]; rw [himmv] at this; omega
  exact stackCallAdv_sat (h1.mkStrict (by decide)) (by decide) _ 1
    (.exchange (imm / 16 + 1) (imm % 16 + 1)) ⟨Nat.succ_pos _, h16⟩
    (stackAdv_hf _ _ (fun d => rfl)) (by rw [h1.pc]; exact ht)

theorem dataloadI_sat (h : Rel 0 false false 0 s0 s0) (hE : s0.isEof = true) {c : EofCtx} (hc : s0.eof = some c) :
    Exec.Sat (dataloadI s0) (Halt s0) (fun _ s' => Done1 s0 s') := by
  unfold dataloadI
  refine sat_bind (requireEof_pass h hE) ?_
  rintro _ _ rfl
  refine sat_bind (gasCharge_sat h _) ?_
  intro _ s1 h1
  refine sat_bind (popTop1_sat h1) ?_
  intro off s2 h2
  refine sat_bind (getEof_sat h2 (by rw [h2.eofc]; exact hc)) ?_
  rintro _ _ ⟨rfl, rfl⟩
  exact sat_mono (setTop_sat h2 _) (fun _ _ h3 => done1_of h3 (by decide))

theorem dataloadnI_sat (h : Rel 0 false false 0 s0 s0) (hE : s0.isEof = true) {c : EofCtx} (hc : s0.eof = some c)
    (himm : s0.pc + 1 < s0.code.length) (ht : T (s0.pc + 2)) :
    Exec.Sat (dataloadnI s0) (Halt s0) (fun _ s' => DoneT T s0 s') := by
  unfold dataloadnI
  refine sat_bind (requireEof_pass h hE) ?_
  rintro _ _ rfl
  refine sat_bind (gasCharge_sat h _) ?_
  intro _ s1 h1
  refine sat_bind (readU16_sat h1 0 (by rw [h1.pc, h1.code]; omega)) ?_
  rintro off _ ⟨rfl, _⟩
  refine sat_bind (getEof_sat h1 (by rw [h1.eofc]; exact hc)) ?_
  rintro _ _ ⟨rfl, rfl⟩
  refine sat_bind (push_sat (h1.mkStrict (by decide)) _) ?_
  intro _ s2 h2
  exact advancePc_sat h2 (by decide) 2 (by rw [h2.pc]; exact ht)

theorem datasizeI_sat (h : Rel 0 false false 0 s0 s0) (hE : s0.isEof = true) {c : EofCtx} (hc : s0.eof = some c) :
    Exec.Sat (datasizeI s0) (Halt s0) (fun _ s' => Done1 s0 s') := by
  unfold datasizeI
  refine sat_bind (requireEof_pass h hE) ?_
  rintro _ _ rfl
  refine sat_bind (gasCharge_sat h _) ?_
  intro _ s1 h1
  refine sat_bind (getEof_sat h1 (by rw [h1.eofc]; exact hc)) ?_
  rintro _ _ ⟨rfl, rfl⟩
  exact sat_mono (push_sat (h1.mkStrict (by decide)) _) (fun _ _ h3 => done1_of h3 (by decide))

theorem datacopyI_sat (h : Rel 0 false false 0 s0 s0) (hE : s0.isEof = true) {c : EofCtx} (hc : s0.eof = some c)
    (hdl : c.data.length ≤ Memory.ISIZE_MAX) :
    Exec.Sat (datacopyI s0) (Halt s0) (fun _ s' => Done1 s0 s') := by
  unfold datacopyI
  refine sat_bind (requireEof_pass h hE) ?_
  rintro _ _ rfl
  refine sat_bind (gasCharge_sat h _) ?_
  intro _ s1 h1
  refine sat_bind (pop3_sat h1) ?_
  rintro ⟨memOff, off, size⟩ s2 h2
  refine sat_bind (asUsizeOrFail_sat h2 size _) ?_
  rintro size' _ ⟨rfl, hsz⟩
  split
  · exact sat_pure (done1_of h2 (by decide))
  · refine sat_bind (asUsizeOrFail_sat h2 memOff _) ?_
    rintro memOff' _ ⟨rfl, hmo⟩
    refine sat_bind (resizeMem_sat h2 memOff' size' hmo hsz) ?_
    intro _ s3 h3
    refine sat_bind (gasOrFail_sat h3 _) ?_
    rintro _ s4 ⟨g, _, h4⟩
    refine sat_bind (getEof_sat h4 (by rw [h4.eofc]; exact hc)) ?_
    rintro c' _ ⟨rfl, hc'⟩
    rw [hc']
    refine sat_mono (memSetData_sat h4 memOff' _ size' c.data hdl (by omega)) ?_
    intro _ s5 h5
    exact done1_of h5 (by have : 1 ≤ 0 + GasCalc.VERYLOW := by decide
                          omega)

theorem returndataloadI_sat (h : Rel 0 false false 0 s0 s0) (hE : s0.isEof = true) :
    Exec.Sat (returndataloadI s0) (Halt s0) (fun _ s' => Done1 s0 s') := by
  unfold returndataloadI
  refine sat_bind (requireEof_pass h hE) ?_
  rintro _ _ rfl
  refine sat_bind (gasCharge_sat h _) ?_
  intro _ s1 h1
  refine sat_bind (popTop1_sat h1) ?_
  intro off s2 h2
  refine sat_bind (getS_sat h2) ?_
  rintro _ _ ⟨rfl, rfl⟩
  exact sat_mono (setTop_sat h2 _) (fun _ _ h3 => done1_of h3 (by decide))

end instr

end Revm.Proofs.Interp
