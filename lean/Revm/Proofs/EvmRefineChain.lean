import Revm.Proofs.EvmRefineRevert
import Revm.Proofs.FrameRestore
import Revm.Proofs.FrameTotal
/-! The open checkpoints of the journal machine as C06 histories (`Chain`): forward steps extend them, a commit folds the
frame's history into the enclosing one, a revert does not panic and restores observably (C06 `revert_restores`). -/
set_option linter.unusedSimpArgs false
set_option linter.unusedVariables false
namespace Revm.Proofs.EvmRefine
open Revm Revm.Model Revm.Model.Journal Revm.Spec.JournalAbs Revm.Proofs.Journal Revm.Proofs.Frame

/-- the journal state `r'` is reached from `r` by history operations that are admissible at every base up to the number
of checkpoints handed out so far, and they keep the journal well formed -/
def TransAt (db : Db) (hs : Addr → Bool) (r r' : Run) : Prop :=
  ∃ ops, run db r ops = some r' ∧ (∀ base, base ≤ r.cps.length → admissibleRun db hs base r ops = true) ∧
    (Good r.js → Good r'.js)

/-- the same for every list of checkpoints: a forward operation of the frame machine -/
def Trans (db : Db) (hs : Addr → Bool) (j j' : JState) : Prop := ∀ cps, TransAt db hs ⟨j, cps⟩ ⟨j', cps⟩

theorem TransAt.refl (db : Db) (hs : Addr → Bool) (r : Run) : TransAt db hs r r :=
  ⟨[], rfl, fun _ _ => rfl, id⟩

theorem run_cps_le {db : Db} {r r' : Run} {ops : List Op} (h : run db r ops = some r') : r.cps.length ≤ r'.cps.length := by
  obtain ⟨t, ht⟩ := run_cps_prefix (db := db) ops h
  rw [ht]; simp

theorem TransAt.trans {db : Db} {hs : Addr → Bool} {r1 r2 r3 : Run} (h1 : TransAt db hs r1 r2)
    (h2 : TransAt db hs r2 r3) : TransAt db hs r1 r3 := by
  obtain ⟨o1, a1, b1, c1⟩ := h1
  obtain ⟨o2, a2, b2, c2⟩ := h2
  refine ⟨o1 ++ o2, ?_, ?_, fun g => c2 (c1 g)⟩
  · have := jrun_append (db := db) o1 o2 a1
    show jrun db r1 (o1 ++ o2) = some r3
    rw [this]; exact a2
  · intro base hb
    exact adm_append o1 o2 (b1 base hb) a1 (b2 base (Nat.le_trans hb (run_cps_le a1)))

theorem Trans.refl (db : Db) (hs : Addr → Bool) (j : JState) : Trans db hs j j := fun _ => TransAt.refl _ _ _
theorem Trans.trans {db : Db} {hs : Addr → Bool} {j1 j2 j3 : JState} (h1 : Trans db hs j1 j2) (h2 : Trans db hs j2 j3) :
    Trans db hs j1 j3 := fun cps => (h1 cps).trans (h2 cps)

/-- one history operation whose admissibility does not depend on the base -/
theorem TransAt.single {db : Db} {hs : Addr → Bool} {r r' : Run} {op : Op} (hst : step db r op = some r')
    (hadm : ∀ base, admissible db hs base r op = true) (hg : Good r.js → Good r'.js) : TransAt db hs r r' := by
  refine ⟨[op], ?_, fun base _ => adm_single (hadm base), hg⟩
  simp [run, hst]

/-- the open checkpoints (innermost first), each with the state the specification saved for it: for each of them the
journal state is reached by an admissible history from the state the checkpoint was taken in (the hypotheses of C06's
`revert_restores`), that state is related to the saved one, and it is itself the end of the history of the next outer
checkpoint -/
inductive Chain (db : Db) (hs : Addr → Bool) : Run → List (Checkpoint × JState) → Prop
  | nil (r : Run) : Good r.js → Chain db hs r []
  | cons (rpre r0 r : Run) (op : Op) (ops : List Op) (cp : Checkpoint) (snap : JState)
      (rest : List (Checkpoint × JState)) :
      Chain db hs rpre rest → admissible db hs 0 rpre op = true → step db rpre op = some r0 →
      r0.cps = rpre.cps ++ [cp] → admissibleRun db hs (rpre.cps.length + 1) r0 ops = true →
      run db r0 ops = some r → JRel db rpre.js snap → Chain db hs r ((cp, snap) :: rest)

variable {db : Db} {hs : Addr → Bool}

theorem Chain.good (hdb : DbOk db hs) (hbal : DbBal db) {r : Run} {ks : List (Checkpoint × JState)}
    (h : Chain db hs r ks) : Good r.js := by
  induction h with
  | nil r g => exact g
  | cons rpre r0 r op ops cp snap rest hc hadm0 hst hcp hadm hrun hrel ih =>
    have hb := balOk_of hbal ih.bal
    obtain ⟨_, i0⟩ := inv_init hdb hb hadm0 hst hcp
    have i := inv_run hdb ops i0 hadm hrun
    have j0 : JRefs r0.js := jrefs_step hdb hb ih.ne ih.refs hadm0 hst
    have j := jrefs_run hdb ops i0 j0 hadm hrun
    refine ⟨j, ?_, cbal_of i.bal⟩
    intro e; have := i.len; rw [e] at this; simp at this

/-- a forward step of the innermost frame (or of the transaction level) -/
theorem Chain.fwd {r r' : Run} {ks : List (Checkpoint × JState)} (h : Chain db hs r ks) (t : TransAt db hs r r') :
    Chain db hs r' ks := by
  cases h with
  | nil _ g =>
    obtain ⟨_, _, _, c⟩ := t
    exact .nil r' (c g)
  | cons rpre r0 _ op ops cp snap rest hc hadm0 hst hcp hadm hrun hrel =>
    obtain ⟨o2, a2, b2, c2⟩ := t
    refine .cons rpre r0 r' op (ops ++ o2) cp snap rest hc hadm0 hst hcp ?_ ?_ hrel
    · have hlen : rpre.cps.length + 1 ≤ r.cps.length := by
        have := run_cps_le hrun; rw [hcp] at this; simpa using this
      exact adm_append ops o2 hadm hrun (b2 _ hlen)
    · have := jrun_append (db := db) ops o2 hrun
      show jrun db r0 (ops ++ o2) = some r'
      rw [this]; exact a2

/-- a frame opens with `checkpoint` -/
theorem Chain.open_ {r : Run} {ks : List (Checkpoint × JState)} (h : Chain db hs r ks) (snap : JState)
    (hrel : JRel db r.js snap) :
    Chain db hs ⟨(checkpoint r.js).1, r.cps ++ [(checkpoint r.js).2]⟩ (((checkpoint r.js).2, snap) :: ks) :=
  .cons r ⟨(checkpoint r.js).1, r.cps ++ [(checkpoint r.js).2]⟩ _ .checkpoint [] _ snap ks h rfl rfl rfl rfl rfl hrel


theorem admissible_mono {r : Run} {op : Op} {b b' : Nat} (hb : b ≤ b') (h : admissible db hs b' r op = true) :
    admissible db hs b r op = true := by
  cases op <;> simp only [admissible] at h ⊢ <;> try exact h
  case revert i => simp only [decide_eq_true_eq] at h ⊢; omega

theorem admRun_mono {b b' : Nat} (hb : b ≤ b') : ∀ (ops : List Op) (r : Run),
    admissibleRun db hs b' r ops = true → admissibleRun db hs b r ops = true := by
  intro ops
  induction ops with
  | nil => intro r _; rfl
  | cons op rest ih =>
    intro r h
    simp only [admissibleRun, Bool.and_eq_true] at h ⊢
    refine ⟨admissible_mono hb h.1, ?_⟩
    cases hst : step db r op with
    | none => rfl
    | some r' => simp only [hst] at h ⊢; exact ih r' h.2

/-- the operation that hands out a checkpoint is admissible at every base -/
theorem admissible_opener {rpre r0 : Run} {op : Op} {cp : Checkpoint} (hst : step db rpre op = some r0)
    (hcp : r0.cps = rpre.cps ++ [cp]) (h0 : admissible db hs 0 rpre op = true) (base : Nat) :
    admissible db hs base rpre op = true := by
  cases op <;> simp only [admissible] at h0 ⊢ <;> try exact h0
  case revert i =>
    exfalso
    have hl := congrArg List.length hcp
    rcases step_cps (db := db) hst with h | ⟨h, _⟩
    · rw [h] at hl; simp at hl
    · rcases h with h | ⟨_, _, _, _, _, h⟩ <;> cases h


/-- the whole life of a frame, as a transition of the enclosing history -/
theorem frame_life {rpre r0 r r' : Run} {op last : Op} {ops : List Op} {cp : Checkpoint}
    (hadm0 : admissible db hs 0 rpre op = true) (hst : step db rpre op = some r0) (hcp : r0.cps = rpre.cps ++ [cp])
    (hadm : admissibleRun db hs (rpre.cps.length + 1) r0 ops = true) (hrun : run db r0 ops = some r)
    (hlast : step db r last = some r') (hal : ∀ base, base ≤ rpre.cps.length → admissible db hs base r last = true)
    (hg : Good r'.js) : TransAt db hs rpre r' := by
  refine ⟨op :: (ops ++ [last]), ?_, ?_, fun _ => hg⟩
  · simp only [run, hst]
    have := jrun_append (db := db) ops [last] hrun
    show jrun db r0 (ops ++ [last]) = some r'
    rw [this]; simp [jrun, run, hlast]
  · intro base hb
    simp only [admissibleRun, Bool.and_eq_true, hst]
    refine ⟨admissible_opener hst hcp hadm0 base, ?_⟩
    exact adm_append ops [last] (admRun_mono (Nat.le_succ_of_le hb) ops r0 hadm) hrun (adm_single (hal base hb))

/-- a frame closes with `checkpoint_commit` -/
theorem Chain.close_commit (hdb : DbOk db hs) (hbal : DbBal db) {r : Run} {cp : Checkpoint} {snap : JState}
    {rest : List (Checkpoint × JState)} (h : Chain db hs r ((cp, snap) :: rest)) :
    Chain db hs ⟨commit r.js, r.cps⟩ rest := by
  have hg := h.good hdb hbal
  cases h with
  | cons rpre r0 _ op ops _ _ _ hc hadm0 hst hcp hadm hrun hrel =>
    exact hc.fwd (frame_life (last := .commit) hadm0 hst hcp hadm hrun rfl (fun _ _ => rfl) (good_commit hg))

/-- a frame closes with `checkpoint_revert`: the revert does not panic, the reverted journal state is observably the
state the checkpoint was taken in (C06), which is related to the state the specification saved -/
theorem Chain.close_revert (hdb : DbOk db hs) (hbal : DbBal db) {r : Run} {cp : Checkpoint} {snap : JState}
    {rest : List (Checkpoint × JState)} (h : Chain db hs r ((cp, snap) :: rest)) :
    ∃ j' jpre, Journal.revert r.js cp = some j' ∧ AbsEq db j' jpre ∧ JRel db jpre snap ∧ j'.journal ≠ [] ∧
      Chain db hs ⟨j', r.cps⟩ rest := by
  have hg := h.good hdb hbal
  cases h with
  | cons rpre r0 _ op ops _ _ _ hc hadm0 hst hcp hadm hrun hrel =>
    have gpre := hc.good hdb hbal
    have hb := balOk_of hbal gpre.bal
    obtain ⟨hcpe, i0⟩ := inv_init hdb hb hadm0 hst hcp
    have i := inv_run hdb ops i0 hadm hrun
    have hJ : cp.journalI = rpre.js.journal.length := by rw [hcpe]; rfl
    have h1 : 1 ≤ cp.journalI := by
      rw [hJ]; cases hj : rpre.js.journal with
      | nil => exact absurd hj gpre.ne
      | cons _ _ => simp
    have h2 : cp.journalI ≤ r.js.journal.length := by rw [hJ]; exact Nat.le_of_lt i.len
    obtain ⟨j', hrev, gj', _, hlen⟩ := revert_good hg h1 h2
    have habs := revert_restores_core hdb hb hadm0 hst hcp hadm hrun hrev
    refine ⟨j', rpre.js, hrev, habs, hrel, gj'.ne, ?_⟩
    have hidx : r.cps[rpre.cps.length]? = some cp := by
      obtain ⟨t, ht⟩ := run_cps_prefix (db := db) ops hrun
      rw [ht, hcp]; simp
    have hlast : step db r (.revert rpre.cps.length) = some ⟨j', r.cps⟩ := by
      simp only [step, hidx, hrev, Option.map_some]
    exact hc.fwd (frame_life (last := .revert rpre.cps.length) hadm0 hst hcp hadm hrun hlast
      (fun base hbase => by simp only [admissible, decide_eq_true_eq]; exact hbase) gj')

end Revm.Proofs.EvmRefine
