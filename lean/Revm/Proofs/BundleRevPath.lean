import Revm.Proofs.BundleRevAcct
/-! C17, second sentence, per address: the `AccountRevert` recorded by one iteration of
`apply_transitions_and_create_reverts`, applied by `revert_latest` to a reverted entry that matches the entry after
the group, gives a reverted entry that matches the entry before the group (`RevTriple`). Closed facts about
`update_and_create_revert` (which paths change the destroyed family, what a wiping revert lists) plus the
invariants of C16. Core Lean only. -/
namespace Revm.Proofs.Bundle
open Revm.Model.Bundle Revm.Spec.Bundle

set_option linter.unusedSimpArgs false
set_option linter.unusedVariables false
set_option linter.unusedSectionVars false

/-! ## closed facts about `update_and_create_revert` -/

theorem nd5 (s : Status) (h : s.wasDestroyed = false) :
    s = .loadedNotExisting ∨ (s = .inMemoryChange ∨ s = .changed ∨ s = .loadedEmptyEIP161 ∨ s = .loaded) := by
  revert h; cases s <;> simp [Status.wasDestroyed]

theorem d3 (s : Status) (h : s.wasDestroyed = true) : s = .destroyed ∨ s = .destroyedChanged ∨ s = .destroyedAgain := by
  revert h; cases s <;> simp [Status.wasDestroyed]

theorem filterEmpty_wipe (r : ARevert) (h : r.wipe = true) : filterEmpty (some r) = some r :=
  filterEmpty_some_of r (by simp [ARevert.isEmpty, h])

/-- a step from the non-destroyed into the destroyed family records a wiping revert, except from
`LoadedNotExisting` (no revert, or `DeleteIt` without wipe) -/
theorem fam_cases (acc : BAcct) (t : Transition) (acc' : BAcct) (rev : Option ARevert)
    (h : updateAndCreateRevert acc t = some (acc', rev)) (hnd : acc.status.wasDestroyed = false)
    (htd : t.status.wasDestroyed = true) :
    (acc.status = .loadedNotExisting ∧ (rev = none ∨ ∃ r, rev = some r ∧ r.account = .deleteIt ∧ r.wipe = false)) ∨
    (∃ r, rev = some r ∧ r.wipe = true ∧ (r.storage = [] → acc.storage = [])) := by
  rcases nd5 _ hnd with h4 | h4 <;> rcases d3 _ htd with h3 | h3 | h3
  · rw [uacr_destroyed_lne acc t h3 h4] at h
    simp only [Option.some.injEq, Prod.mk.injEq] at h
    exact Or.inl ⟨h4, Or.inl h.2.symm⟩
  · rw [uacr_dc_h acc t h3 (Or.inr h4), filterEmpty_some_of _ (by simp [ARevert.isEmpty])] at h
    simp only [Option.some.injEq, Prod.mk.injEq] at h
    exact Or.inl ⟨h4, Or.inr ⟨_, h.2.symm, rfl, rfl⟩⟩
  · rw [uacr_da_none acc t h3 (Or.inr (Or.inr h4))] at h
    simp only [Option.some.injEq, Prod.mk.injEq] at h
    exact Or.inl ⟨h4, Or.inl h.2.symm⟩
  · rw [uacr_destroyed acc t h3 h4, filterEmpty_wipe _ rfl] at h
    simp only [Option.some.injEq, Prod.mk.injEq] at h
    refine Or.inr ⟨_, h.2.symm, rfl, fun hn => ?_⟩
    simpa [presentAsRevert] using hn
  · rw [uacr_dc_from acc t h3 h4, filterEmpty_wipe _ rfl] at h
    simp only [Option.some.injEq, Prod.mk.injEq] at h
    refine Or.inr ⟨_, h.2.symm, rfl, fun hn => ?_⟩
    simp only at hn
    cases hs : acc.storage with
    | nil => rfl
    | cons e rest =>
      exfalso
      have hg : (markDestroyed t.storage (presentAsRevert acc.storage)).get e.1 = none := by rw [hn]; rfl
      have hp : (presentAsRevert acc.storage).get e.1 = some (RevSlot.some e.2.present) := by
        rw [presentAsRevert_get, hs, get_cons]; simp
      have hmono : ∀ (us : BMap Slot) (base : BMap RevSlot) (v : RevSlot), base.get e.1 = some v →
          (markDestroyed us base).get e.1 = some v := by
        intro us
        induction us with
        | nil => intro base v hb; exact hb
        | cons u rest' ih =>
          intro base v hb
          rw [markDestroyed_eq]; simp only [List.foldl]
          rw [← markDestroyed_eq]
          apply ih
          rw [mdStep_get]
          by_cases hk : u.1 = e.1
          · simp only [hk, if_true, mdF, hb]
          · simp only [hk, if_false]; exact hb
      rw [hmono _ _ _ hp] at hg
      cases hg
  · rw [uacr_da_from acc t h3 h4, filterEmpty_wipe _ rfl] at h
    simp only [Option.some.injEq, Prod.mk.injEq] at h
    refine Or.inr ⟨_, h.2.symm, rfl, fun hn => ?_⟩
    simpa [presentAsRevert] using hn

theorem hasInfo_false_nd (s : Status) (h1 : hasInfo s = false) (h2 : s.wasDestroyed = false) : s = .loadedNotExisting := by
  revert h1 h2; cases s <;> simp [hasInfo, Status.wasDestroyed]

theorem hasInfo_false_st5 (s : Status) (h1 : hasInfo s = false) (h2 : st5 s = true) : s.wasDestroyed = true := by
  revert h1 h2; cases s <;> simp [hasInfo, Status.wasDestroyed, st5]

theorem st5_nd (s : Status) (h1 : st5 s = true) (h2 : s.wasDestroyed = false) : s = .changed ∨ s = .inMemoryChange := by
  revert h1 h2; cases s <;> simp [st5, Status.wasDestroyed]

theorem extendStorage_keys (this upd : BMap Slot) (hw : WF upd) (k : Nat)
    (h : (this.get k).isSome = true ∨ (upd.get k).isSome = true) : ((extendStorage this upd).get k).isSome = true := by
  rw [extendStorage_get _ _ hw]
  cases hu : upd.get k with
  | none =>
    rw [hu] at h
    simp only [Option.elim]
    cases h with
    | inl h => exact h
    | inr h => cases h
  | some x => simp [Option.elim, esF]

section path
variable (acc : BAcct) (t : Transition) (c : CacheAcct) (Pi : Option Info) (Ps : Nat → Nat) (Mi : Option Info)
  (Ms : Nat → Nat) (Ri : Option Info) (Rs : Nat → Nat)
variable (hb : BInvAcc acc t.prevStatus Pi Ps Mi Ms) (hm : Facts t.prevStatus Mi Ms)
  (ht : TInv t c Mi Ms Rs) (hc : CInv c Ri Rs)
include hb hm ht hc

/-- transitions into `Changed` / `InMemoryChange`: the account stays in the non-destroyed family, the revert
lists `Some` values of updated slots only, and the updated account holds every old and every updated key -/
theorem nd_paths (hnd : t.status.wasDestroyed = false) :
    ∃ X ir, updateAndCreateRevert acc t = some (⟨t.info, acc.origInfo, X, t.status⟩,
        filterEmpty (some ⟨ir, prevStorageFromUpdate t.storage, acc.status, false⟩)) ∧
      acc.status.wasDestroyed = false ∧ WF t.storage ∧
      (∀ k, (acc.storage.get k).isSome = true ∨ (t.storage.get k).isSome = true → (X.get k).isSome = true) := by
  have hw : WF t.storage := ht.stor.1
  have hok := ht.ok; rw [← hb.status] at hok
  rcases st5_nd _ (trOK_shape _ _ _ _ ht.ok).1 hnd with hts | hts
  · rw [hts] at hok
    obtain ⟨hbs, _⟩ := tab_changed _ _ _ hok
    refine ⟨_, _, by rw [uacr_changed acc t hts hbs, hts], by rcases hbs with h | h <;> rw [h] <;> rfl, hw,
      fun k hk => extendStorage_keys _ _ hw k hk⟩
  · rw [hts] at hok
    obtain ⟨hbs, _⟩ := tab_imc _ _ _ hok
    rcases hbs with hbs | hbs | hbs
    · refine ⟨_, _, by rw [uacr_imc acc t hts hbs, hts], by rcases hbs with h | h <;> rw [h] <;> rfl, hw,
        fun k hk => extendStorage_keys _ _ hw k hk⟩
    · have hnil := hb.loadedNil (by rw [hbs]; rfl)
      refine ⟨_, _, by rw [uacr_imc_empty acc t hts hbs, hts], by rw [hbs]; rfl, hw, fun k hk => ?_⟩
      rw [hnil] at hk
      cases hk with
      | inl h => simp [BMap.get] at h
      | inr h => exact h
    · have hnil := hb.loadedNil (by rw [hbs]; rfl)
      refine ⟨_, _, by rw [uacr_imc_lne acc t hts hbs, hts], by rw [hbs]; rfl, hw, fun k hk => ?_⟩
      rw [hnil] at hk
      cases hk with
      | inl h => simp [BMap.get] at h
      | inr h => exact h

theorem acc_ok : trOK acc.status t.status (ncO c.info) t.wasDestroyed = true := by
  rw [hb.status]; exact ht.ok

/-- no revert recorded: nothing changed, and a bundle account stays in its family -/
theorem rev_core_none (acc' : BAcct) (h : updateAndCreateRevert acc t = some (acc', none)) :
    Mi = Ri ∧ (∀ k, Ms k = Rs k) ∧ (st5 acc.status = true → t.status.wasDestroyed = acc.status.wasDestroyed) := by
  obtain ⟨a2, r2, e1, hsem, _⟩ := merge_core acc t c Pi Ps Mi Ms Ri Rs hb hm ht hc
  rw [h] at e1
  simp only [Option.some.injEq, Prod.mk.injEq] at e1
  rw [← e1.2] at hsem
  refine ⟨hsem.1, hsem.2, fun h5 => ?_⟩
  have hok := acc_ok acc t c Pi Ps Mi Ms Ri Rs hb hm ht hc
  cases hwd : acc.status.wasDestroyed with
  | true => exact trOK_wd_mono _ _ _ _ hok hwd
  | false =>
    cases htd : t.status.wasDestroyed with
    | false => rfl
    | true =>
      exfalso
      rcases fam_cases acc t acc' none h hwd htd with ⟨hl, _⟩ | ⟨r, hr, _⟩
      · rw [hl] at h5; cases h5
      · cases hr

/-- a revert was recorded: `revert` with it leads from an account that describes the state after the group to
one that describes the state before it. The account it is applied to may describe its states relative to another
pre-state `P'` (bundles joined by `extend`): `hdelP` — an address that did not exist at the last merge and is not in
the bundle did not exist at `P'` either; `hwP` — a wiping revert needs the same pre-bundle slots -/
theorem rev_core_some (Pi' : Option Info) (Ps' : Nat → Nat) (hdelP : t.prevStatus = .loadedNotExisting → Pi' = none)
    (acc' : BAcct) (r : ARevert)
    (h : updateAndCreateRevert acc t = some (acc', some r)) (hwP : r.wipe = true → ∀ k, Ps' k = Ps k)
    (b' : BAcct) (hOK : OKAcc b' Pi' Ps' Ri Rs)
    (hwd : b'.status.wasDestroyed = t.status.wasDestroyed)
    (hk : t.status.wasDestroyed = false → ∀ k, ((acc.storage.get k).isSome = true ∨ (t.storage.get k).isSome = true) →
      (b'.storage.get k).isSome = true)
    (hwo : wipeOk (some b') r = true) :
    ((b'.revert r).2 = true → Pi' = none ∧ Mi = none ∧ ∀ k, Ms k = 0) ∧
    ((b'.revert r).2 = false → OKAcc (b'.revert r).1 Pi' Ps' Mi Ms ∧
      (b'.revert r).1.status.wasDestroyed = acc.status.wasDestroyed ∧
      (acc.status.wasDestroyed = false → keysSub acc.storage (b'.revert r).1.storage)) := by
  obtain ⟨a2, r2, e1, hsem, _⟩ := merge_core acc t c Pi Ps Mi Ms Ri Rs hb hm ht hc
  rw [h] at e1
  simp only [Option.some.injEq, Prod.mk.injEq] at e1
  rw [← e1.2] at hsem
  have hok := acc_ok acc t c Pi Ps Mi Ms Ri Rs hb hm ht hc
  have hbs := hb.status
  cases hw : r.wipe with
  | false =>
    -- the family changes only on the `DeleteIt` path from `LoadedNotExisting`
    have hfam' : r.account ≠ .deleteIt → t.status.wasDestroyed = acc.status.wasDestroyed := by
      intro hnd
      cases hwa : acc.status.wasDestroyed with
      | true => exact trOK_wd_mono _ _ _ _ hok hwa
      | false =>
        cases htd : t.status.wasDestroyed with
        | false => rfl
        | true =>
          exfalso
          rcases fam_cases acc t acc' (some r) h hwa htd with ⟨_, hx | ⟨r', hr', hd, _⟩⟩ | ⟨r', hr', hw', _⟩
          · cases hx
          · injection hr' with hr'; rw [← hr'] at hd; exact hnd hd
          · injection hr' with hr'; rw [← hr', hw] at hw'; cases hw'
    have hfam : r.account ≠ .deleteIt → b'.status.wasDestroyed = t.prevStatus.wasDestroyed := by
      intro hnd; rw [hwd, hfam' hnd, hbs]
    have hsh : r.account ≠ .deleteIt → t.prevStatus.wasDestroyed = false → ∀ k x, r.storage.get k = some x →
        (∃ v, x = RevSlot.some v) ∧ (b'.storage.get k).isSome = true := by
      intro hnd hpw k x hg
      rw [← hbs] at hpw
      have htn : t.status.wasDestroyed = false := by rw [hfam' hnd]; exact hpw
      obtain ⟨X, ir, e2, _, hwt, _⟩ := nd_paths acc t c Pi Ps Mi Ms Ri Rs hb hm ht hc htn
      rw [h] at e2
      simp only [Option.some.injEq, Prod.mk.injEq] at e2
      have hr := filterEmpty_eq_some _ _ e2.2.symm
      rw [hr] at hg
      simp only at hg
      rw [prevStorage_get _ hwt] at hg
      cases hu : t.storage.get k with
      | none => rw [hu] at hg; cases hg
      | some s =>
        rw [hu] at hg
        simp only [Option.bind] at hg
        by_cases hch : s.isChanged = true
        · simp only [hch, if_true, Option.some.injEq] at hg
          exact ⟨⟨s.orig, hg.symm⟩, hk htn k (Or.inr (by rw [hu]; rfl))⟩
        · simp only [hch, Bool.false_eq_true, if_false] at hg; cases hg
    have hdel : r.account = .deleteIt → t.prevStatus.wasDestroyed = false → Pi' = none := by
      intro hd hpw
      have hMn : Mi = none := by have := hsem.2.2.1; rw [hd] at this; exact this
      have hhi : hasInfo t.prevStatus = false := by
        have := hm.some_iff; rw [hMn] at this; exact this.symm
      exact hdelP (hasInfo_false_nd _ hhi hpw)
    have hsem' : RevSem (some r) t.prevStatus Ps' Mi Ms Ri Rs := by
      obtain ⟨z1, z2, z3, z4, z5⟩ := hsem
      refine ⟨z1, z2, z3, fun k => ?_, fun hh => by rw [hw] at hh; cases hh⟩
      have := z4 k
      rw [hw] at this ⊢
      rw [← this]
      unfold revSlotV
      cases r.storage.get k with
      | none => rfl
      | some v => cases v <;> simp
    obtain ⟨g1, g2⟩ := revert_okacc r t.prevStatus Pi' Ps' Mi Ms Ri Rs hsem' hm b' hOK hw hfam hsh hdel
    refine ⟨fun hf => ?_, fun hf => ?_⟩
    · obtain ⟨q1, q2⟩ := g1 hf
      exact ⟨q1, q2, hm.none_zero q2⟩
    · obtain ⟨q1, q2, q3⟩ := g2 hf
      refine ⟨q1, by rw [q2, hbs], fun hwa => ?_⟩
      have hpw : t.prevStatus.wasDestroyed = false := by rw [← hbs]; exact hwa
      have hnd : r.account ≠ .deleteIt := by
        intro hd
        have hPn := hdel hd hpw
        -- `DeleteIt` with no original info removes the account
        have hon : b'.origInfo = none := by
          have := hOK.orig; rw [hPn] at this; exact (map_wc_none _).mp this
        rw [revert_eq, hd] at hf
        simp [hon] at hf
      have htn : t.status.wasDestroyed = false := by rw [hfam' hnd]; exact hwa
      exact keysSub_trans (fun k hk' => hk htn k (Or.inl hk')) (q3 hpw)
  | true =>
    obtain ⟨w1, w2⟩ := uacr_wipe acc t acc' r h hw
    have hnil : r.storage = [] ∧ b'.storage = [] := by
      simp only [wipeOk, hw, Bool.not_true, Bool.false_or, Bool.and_eq_true, List.isEmpty_iff] at hwo
      exact hwo
    have haccnil : acc.storage = [] := by
      rcases fam_cases acc t acc' (some r) h w2 w1 with ⟨_, hx | ⟨r', hr', _, hw'⟩⟩ | ⟨r', hr', _, hn⟩
      · cases hx
      · injection hr' with hr'; rw [← hr', hw] at hw'; cases hw'
      · injection hr' with hr'; rw [← hr'] at hn; exact hn hnil.1
    obtain ⟨hps, hwr, hio, hsl, _⟩ := hsem
    have hMP : ∀ k, Ms k = Ps' k := by
      intro k
      have := hsl k
      rw [hnil.1, hw] at this
      rw [hwP hw k]
      simpa [revSlotV, BMap.get] using this.symm
    have hpw : r.prevStatus.wasDestroyed = false := by rw [hps, ← hbs]; exact w2
    have hstor : ∀ i : Option Info, StorageInv ⟨i, b'.origInfo, [], r.prevStatus⟩ Ps' Ms := fun i =>
      (storageInv_nd ⟨i, b'.origInfo, [], r.prevStatus⟩ Ps' Ms hpw).mpr ⟨WF_nil, fun k => hMP k⟩
    have hwda : r.prevStatus.wasDestroyed = acc.status.wasDestroyed := by rw [hps, ← hbs]
    rw [revert_eq, hnil.1, hnil.2]
    cases hra : r.account with
    | doNothing =>
      rw [hra] at hio; simp only [revInfoOK] at hio
      simp only
      exact ⟨fun hf => (by cases hf), fun _ => ⟨⟨by rw [hio]; exact hOK.info, hOK.orig, hstor _⟩, hwda,
        fun _ => by rw [haccnil]; exact keysSub_nil _⟩⟩
    | revertTo i =>
      rw [hra] at hio; simp only [revInfoOK] at hio
      simp only
      exact ⟨fun hf => (by cases hf), fun _ => ⟨⟨by rw [hio]; rfl, hOK.orig, hstor _⟩, hwda,
        fun _ => by rw [haccnil]; exact keysSub_nil _⟩⟩
    | deleteIt =>
      rw [hra] at hio; simp only [revInfoOK] at hio
      simp only
      cases hon : b'.origInfo with
      | none =>
        simp only [Option.isNone, if_true]
        refine ⟨fun _ => ⟨by rw [← hOK.orig, hon]; rfl, hio, hm.none_zero hio⟩, fun hf => (by cases hf)⟩
      | some o =>
        simp only [Option.isNone, Bool.false_eq_true, if_false]
        refine ⟨fun hf => (by cases hf), fun _ => ⟨⟨by rw [hio]; rfl, by rw [← hOK.orig, hon], ?_⟩, hwda,
          fun _ => by rw [haccnil]; exact keysSub_nil _⟩⟩
        exact hon ▸ hstor none

end path

end Revm.Proofs.Bundle
