import Revm.Proofs.EvmRefineTx
/-! The transaction-level obligations of the simulation, part 2: `load_accounts` and the EIP-7702 authorization list. -/
set_option linter.unusedSimpArgs false
set_option linter.unusedVariables false
namespace Revm.Proofs.EvmRefine
open Revm Revm.Model Revm.Model.Journal Revm.Spec.JournalAbs Revm.Proofs.Journal Revm.Proofs.Frame
open Revm.Model.Evm
open Revm.Spec.Evm (Snap snapshotOps journalOpsStrict)

variable {w1 w2 : World}

/-! ## `load_accounts` -/

/-- the storage map after `initial_account_load` of the keys `ks` -/
def ialSt (db : Db) (a : Addr) : List Nat → (Nat → Option Slot) → (Nat → Option Slot)
  | [], st => st
  | k :: ks, st =>
    ialSt db a ks (match st k with
      | some _ => st
      | none => fun x => if x = k then some { orig := db.storage a k, present := db.storage a k, cold := false } else st x)

def ialStep (db : Db) (a : Addr) (acc : Acct) (k : Nat) : Acct :=
  match acc.storage k with
  | some _ => acc
  | none => let v := db.storage a k; setSlot acc k { orig := v, present := v, cold := false }

theorem ial_fold (db : Db) (a : Addr) (ks : List Nat) (acc : Acct) :
    ks.foldl (ialStep db a) acc = { acc with storage := ialSt db a ks acc.storage } := by
  induction ks generalizing acc with
  | nil => rfl
  | cons k ks ih =>
    simp only [List.foldl_cons, ialSt]
    rw [ih]
    unfold ialStep
    cases hk : acc.storage k with
    | some sl => simp only [hk]
    | none => simp only [hk, setSlot]

theorem ialSt_mono (db : Db) (a : Addr) (ks : List Nat) (st : Nat → Option Slot) (k : Nat) (h : (st k).isSome) :
    (ialSt db a ks st k).isSome := by
  induction ks generalizing st with
  | nil => exact h
  | cons k' ks ih =>
    simp only [ialSt]
    apply ih
    cases hk : st k' with
    | some sl => simp only [hk]; exact h
    | none =>
      simp only [hk]
      by_cases e : k = k'
      · simp [e]
      · simp [e]; exact h

/-- the account `initial_account_load` starts from -/
def ialBase (db : Db) (s : JState) (a : Addr) : Acct :=
  match s.state a with
  | some acc => acc
  | none => dbAcct db a

theorem ial_eq (db : Db) (s : JState) (a : Addr) (ks : List Nat) :
    initialAccountLoad db s a ks =
      Journal.setAcct s a { ialBase db s a with storage := ialSt db a ks (ialBase db s a).storage } := by
  have : initialAccountLoad db s a ks = Journal.setAcct s a (ks.foldl (ialStep db a) (ialBase db s a)) := by
    unfold initialAccountLoad ialBase dbAcct ialStep
    cases s.state a <;> rfl
  rw [this, ial_fold]

theorem ial_congr {db db' : Db} (hb : db'.basic = db.basic) (hs : db'.storage = db.storage) (s : JState) (a : Addr)
    (ks : List Nat) : initialAccountLoad db' s a ks = initialAccountLoad db s a ks := by
  unfold initialAccountLoad; rw [hb, hs]

theorem dbAcct_bal {db : Db} (hbal : DbBal db) (a : Addr) : (dbAcct db a).info.balance < W := by
  have := hbal a
  unfold dbAcct
  cases hb : db.basic a with
  | none => rw [hb] at this; exact this
  | some i => rw [hb] at this; exact this

theorem dbAcct_code {db : Db} (hdb : ∀ b i, db.basic b = some i → ∀ hh, i.code = some hh → hh = i.codeHash) (a : Addr) :
    ∀ c, (dbAcct db a).info.code = some c → c = (dbAcct db a).info.codeHash := by
  unfold dbAcct
  cases hb : db.basic a with
  | none => intro c hc; simp [Acct.newNotExisting, Info.default] at hc ⊢; exact hc.symm
  | some i => intro c hc; exact hdb a i hb c hc

/-- `initial_account_load` on related states with the same storage maps -/
theorem ial_rel {db : Db} {j s : JState} (h : JRel db j s) (hst : SameSt j s)
    (hdb : ∀ b i, db.basic b = some i → ∀ hh, i.code = some hh → hh = i.codeHash) (a : Addr) (ks : List Nat) :
    JRel db (initialAccountLoad db j a ks) (initialAccountLoad db s a ks) ∧
    SameSt (initialAccountLoad db j a ks) (initialAccountLoad db s a ks) ∧
    Dom s (initialAccountLoad db s a ks) [a] := by
  rw [ial_eq, ial_eq]
  unfold ialBase
  cases hx : j.state a with
  | some x =>
    obtain ⟨y, hy, ar⟩ := h.get hx
    rw [hy]
    simp only
    have est : x.storage = y.storage := hst a x y hx hy
    obtain ⟨e1, e2, e3, e4, e5, e6, e7, e8, e9⟩ := ar
    refine ⟨h.setAcct a _ _ ⟨e1, e2, e3, e4, e5, e6, e7, e8, ?_⟩ (h.cj a x hx) (h.cs a y hy), ?_, ?_⟩
    · show slotsOf db a x.created (ialSt db a ks x.storage) = slotsOf db a y.created (ialSt db a ks y.storage)
      rw [est, e4]
    · intro b x' y' hx' hy'
      by_cases hb : b = a
      · subst hb
        simp only [Journal.setAcct, if_true, Option.some.injEq] at hx' hy'
        subst hx'; subst hy'
        show ialSt db b ks x.storage = ialSt db b ks y.storage
        rw [est]
      · simp only [Journal.setAcct, hb, if_false] at hx' hy'
        exact hst b x' y' hx' hy'
    · exact (Dom.upd hy).absorb (by rw [hy]; rfl)
  | none =>
    rw [h.get_none hx]
    simp only
    refine ⟨h.setAcct a _ _ ⟨rfl, rfl, rfl, rfl, rfl, rfl, rfl, rfl, rfl⟩ (dbAcct_code hdb a) (dbAcct_code hdb a), ?_,
      Dom.ins s a _⟩
    intro b x' y' hx' hy'
    by_cases hb : b = a
    · subst hb
      simp only [Journal.setAcct, if_true, Option.some.injEq] at hx' hy'
      subst hx'; subst hy'
      rfl
    · simp only [Journal.setAcct, hb, if_false] at hx' hy'
      exact hst b x' y' hx' hy'

theorem ial_good {db : Db} {j : JState} (hbal : DbBal db) (g : Good j) (a : Addr) (ks : List Nat) :
    Good (initialAccountLoad db j a ks) := by
  rw [ial_eq]
  refine ⟨Revm.Proofs.Frame.JRefs.mono g.refs (Grows.setAcct ?_) rfl, g.ne, ?_⟩
  · intro acc hacc k hk
    show (ialSt db a ks (ialBase db j a).storage k).isSome
    unfold ialBase; rw [hacc]
    exact ialSt_mono db a ks _ k hk
  · intro b accb hb
    by_cases e : b = a
    · subst e
      simp only [Journal.setAcct, if_true, Option.some.injEq] at hb
      subst hb
      show (ialBase db j b).info.balance < W
      unfold ialBase
      cases hx : j.state b with
      | some x => exact g.bal b x hx
      | none => exact dbAcct_bal hbal b
    · simp only [Journal.setAcct, e, if_false] at hb
      exact g.bal b accb hb

/-- a change of fork and pre-warmed set (not journaled, transaction level) -/
theorem R0.setSpecPre (h : R0 w1 w2) (spec' : Nat) (f : (Addr → Bool) → Addr → Bool) :
    R0 { w1 with js := { w1.js with spec := spec', preloaded := f w1.js.preloaded } }
       { w2 with js := { w2.js with spec := spec', preloaded := f w2.js.preloaded } } := by
  obtain ⟨hc, hst⟩ := h
  have g := hc.good
  refine ⟨CfgRel.nil_intro ⟨?_, hc.w.pre, hc.w.codes, hc.w.logs, hc.w.pc, hc.w.hs1, hc.w.hs2, hc.w.pres, hc.w.bal⟩ ?_, hst⟩
  · refine ⟨hc.w.rel.ent, hc.w.rel.tr, hc.w.rel.logs, hc.w.rel.depth, rfl, ?_, hc.w.rel.jne, hc.w.rel.sne, hc.w.rel.cj,
      hc.w.rel.cs⟩
    show f w1.js.preloaded = f w2.js.preloaded
    rw [hc.w.rel.pre]
  · exact ⟨Revm.Proofs.Frame.JRefs.mono g.refs (Grows.of_state_eq rfl) rfl, g.ne, g.bal⟩

/-- a change of the pre-warmed set (not journaled, transaction level) -/
theorem R0.setPre (h : R0 w1 w2) (f : (Addr → Bool) → Addr → Bool) :
    R0 { w1 with js := { w1.js with preloaded := f w1.js.preloaded } }
       { w2 with js := { w2.js with preloaded := f w2.js.preloaded } } := by
  obtain ⟨hc, hst⟩ := h
  have g := hc.good
  refine ⟨CfgRel.nil_intro ⟨?_, hc.w.pre, hc.w.codes, hc.w.logs, hc.w.pc, hc.w.hs1, hc.w.hs2, hc.w.pres, hc.w.bal⟩ ?_, hst⟩
  · refine ⟨hc.w.rel.ent, hc.w.rel.tr, hc.w.rel.logs, hc.w.rel.depth, hc.w.rel.spec, ?_, hc.w.rel.jne, hc.w.rel.sne, hc.w.rel.cj,
      hc.w.rel.cs⟩
    show f w1.js.preloaded = f w2.js.preloaded
    rw [hc.w.rel.pre]
  · exact ⟨Revm.Proofs.Frame.JRefs.mono g.refs (Grows.of_state_eq rfl) rfl, g.ne, g.bal⟩

theorem foldl_noteSlot_fields (a : Addr) (ks : List Nat) (w : World) :
    (ks.foldl (fun w k => w.noteSlot a k) w).js = w.js ∧ (ks.foldl (fun w k => w.noteSlot a k) w).pre = w.pre ∧
    (ks.foldl (fun w k => w.noteSlot a k) w).codes = w.codes ∧ (ks.foldl (fun w k => w.noteSlot a k) w).logs = w.logs ∧
    (ks.foldl (fun w k => w.noteSlot a k) w).pcOracle = w.pcOracle ∧
    (ks.foldl (fun w k => w.noteSlot a k) w).dbHasStorage = w.dbHasStorage ∧
    (ks.foldl (fun w k => w.noteSlot a k) w).addrs = w.addrs := by
  induction ks generalizing w with
  | nil => exact ⟨rfl, rfl, rfl, rfl, rfl, rfl, rfl⟩
  | cons k ks ih =>
    simp only [List.foldl_cons]
    have f := noteSlot_fields w a k
    have i := ih (w.noteSlot a k)
    exact ⟨i.1.trans f.1, i.2.1.trans f.2.1, i.2.2.1.trans f.2.2.1, i.2.2.2.1.trans f.2.2.2.1,
      i.2.2.2.2.1.trans f.2.2.2.2.1, i.2.2.2.2.2.1.trans f.2.2.2.2.2.1, i.2.2.2.2.2.2.trans f.2.2.2.2.2.2⟩

/-- the world after one access-list item -/
def alItem (w : World) (it : AccessItem) : World :=
  let w := { w with js := Journal.initialAccountLoad w.db w.js it.addr it.keys }.noteAddr it.addr
  it.keys.foldl (fun w k => w.noteSlot it.addr k) w

theorem alItem_rel (h : R0 w1 w2) (it : AccessItem) : R0 (alItem w1 it) (alItem w2 it) := by
  obtain ⟨hc, hst⟩ := h
  have e1 : Journal.initialAccountLoad w1.db w1.js it.addr it.keys =
      Journal.initialAccountLoad (dbPre w1.pre) w1.js it.addr it.keys := ial_congr (db_basic w1) (db_storage w1) _ _ _
  have e2 : Journal.initialAccountLoad w2.db w2.js it.addr it.keys =
      Journal.initialAccountLoad (dbPre w1.pre) w2.js it.addr it.keys := ial_congr hc.db2 hc.st2 _ _ _
  obtain ⟨hrel, hst', hdom⟩ := ial_rel hc.w.rel hst (dbCode_pre _) it.addr it.keys
  have g' := ial_good hc.w.dbBal hc.good it.addr it.keys
  unfold alItem
  simp only
  rw [e1, e2]
  have f1 := foldl_noteSlot_fields it.addr it.keys
    ({ w1 with js := Journal.initialAccountLoad (dbPre w1.pre) w1.js it.addr it.keys }.noteAddr it.addr)
  have f2 := foldl_noteSlot_fields it.addr it.keys
    ({ w2 with js := Journal.initialAccountLoad (dbPre w1.pre) w2.js it.addr it.keys }.noteAddr it.addr)
  have n1 := noteAddr_fields { w1 with js := Journal.initialAccountLoad (dbPre w1.pre) w1.js it.addr it.keys } it.addr
  have n2 := noteAddr_fields { w2 with js := Journal.initialAccountLoad (dbPre w1.pre) w2.js it.addr it.keys } it.addr
  refine ⟨CfgRel.nil_intro ⟨?_, ?_, ?_, ?_, ?_, ?_, ?_, ?_, ?_⟩ ?_, ?_⟩
  · rw [f1.1, n1.1, f2.1, n2.1, f1.2.1, n1.2.1]; exact hrel
  · rw [f1.2.1, n1.2.1, f2.2.1, n2.2.1]; exact hc.w.pre
  · rw [f1.2.2.1, n1.2.2.1, f2.2.2.1, n2.2.2.1]; exact hc.w.codes
  · rw [f1.2.2.2.1, n1.2.2.2.1, f2.2.2.2.1, n2.2.2.2.1]; exact hc.w.logs
  · rw [f1.2.2.2.2.1, n1.2.2.2.2.1, f2.2.2.2.2.1, n2.2.2.2.2.1]; exact hc.w.pc
  · rw [f1.2.2.2.2.2.1, n1.2.2.2.2.2.1]; exact hc.w.hs1
  · rw [f2.2.2.2.2.2.1, n2.2.2.2.2.2.1]; exact hc.w.hs2
  · intro b
    rw [f2.2.2.2.2.2.2, noteAddr_contains, f2.1, n2.1]
    show (w2.addrs.contains b || b == it.addr) = _
    rw [hdom b, hc.w.pres b]
    by_cases hb : b = it.addr <;> simp [hb]
  · rw [f1.2.1, n1.2.1]; exact hc.w.bal
  · rw [f1.1, n1.1]; exact g'
  · rw [f1.1, n1.1, f2.1, n2.1]; exact hst'

theorem alFold_rel (l : List AccessItem) (h : R0 w1 w2) :
    R0 (l.foldl alItem w1) (l.foldl alItem w2) := by
  induction l generalizing w1 w2 with
  | nil => exact h
  | cons it l ih => simp only [List.foldl_cons]; exact ih (alItem_rel h it)

/-- `load_accounts` -/
theorem load_rel (e : Evm.Env) (spec : Nat) (h : R0 w1 w2) :
    CfgRel [] (loadAccounts e spec w1) [] (loadAccounts e spec w2) := by
  have hA := h.setSpecPre spec
    (fun p a => p a || (GasCalc.enabled spec GasCalc.SpecId.SHANGHAI && a == e.block.coinbase))
  have hB := alFold_rel e.tx.accessList hA
  exact (hB.setPre (fun p a => p a || isPrecompile spec a)).1

/-! ## EIP-7702 authorization list -/

theorem addCode_js (w : World) (h : Nat) (c : List Nat) : (w.addCode h c).js = w.js := by
  unfold World.addCode
  split
  · rfl
  · split <;> rfl

theorem applyAuth_rel (e : Evm.Env) (a : Auth) (h : CfgRel [] w1 [] w2) {w1' : World} {r : Bool}
    (hl : applyAuth e w1 a = .ok (w1', r)) : ∃ w2', applyAuth e w2 a = .ok (w2', r) ∧ CfgRel [] w1' [] w2' := by
  unfold applyAuth at hl ⊢
  simp only [bind, Except.bind] at hl ⊢
  by_cases c1 : a.chainId ≠ 0 ∧ a.chainId ≠ e.cfg.chainId
  · rw [if_pos c1] at hl ⊢
    simp only [pure, Except.pure, Except.ok.injEq, Prod.mk.injEq] at hl ⊢
    obtain ⟨h1, h2⟩ := hl
    subst h1; subst h2
    exact ⟨w2, ⟨rfl, rfl⟩, h⟩
  · rw [if_neg c1] at hl ⊢
    by_cases c2 : a.nonce = U64 - 1
    · rw [if_pos c2] at hl ⊢
      simp only [pure, Except.pure, Except.ok.injEq, Prod.mk.injEq] at hl ⊢
      obtain ⟨h1, h2⟩ := hl
      subst h1; subst h2
      exact ⟨w2, ⟨rfl, rfl⟩, h⟩
    · rw [if_neg c2] at hl ⊢
      cases hau : a.authority with
      | none =>
        rw [hau] at hl
        simp only [pure, Except.pure, Except.ok.injEq, Prod.mk.injEq] at hl ⊢
        obtain ⟨h1, h2⟩ := hl
        subst h1; subst h2
        exact ⟨w2, ⟨rfl, rfl⟩, h⟩
      | some authority =>
        rw [hau] at hl
        simp only at hl ⊢
        cases h1 : w1.loadCode authority with
        | error err => rw [h1] at hl; simp at hl
        | ok p =>
          obtain ⟨wa, c⟩ := p
          rw [h1] at hl
          simp only at hl
          cases hx : wa.acct authority with
          | error err => rw [hx] at hl; simp at hl
          | ok x =>
            rw [hx] at hl
            simp only at hl
            cases hc : ofOpt "code not cached" x.info.code with
            | error err => rw [hc] at hl; simp at hl
            | ok hh =>
              rw [hc] at hl
              simp only at hl
              obtain ⟨wb, y, h2, hy, hcy, hco, hr⟩ := fetch_rel h h1 hx hc
              rw [h2]
              simp only
              rw [hy]
              simp only
              rw [hcy]
              simp only
              rw [hco]
              cases hb2 : ofOpt "code_by_hash" (wa.codeOf hh) with
              | error err => rw [hb2] at hl; simp at hl
              | ok code =>
                rw [hb2] at hl
                simp only at hl ⊢
                obtain ⟨y', hy', ar, hxs, hys⟩ := hr.acct hx
                rw [hy] at hy'
                simp only [Except.ok.injEq] at hy'
                subst hy'
                obtain ⟨e1, e2, e3, e4, e5, e6, e7, e8, e9⟩ := ar
                by_cases c3 : (!code.isEmpty) = true ∧ (delegateOf code).isNone = true
                · rw [if_pos c3] at hl ⊢
                  simp only [pure, Except.pure, Except.ok.injEq, Prod.mk.injEq] at hl ⊢
                  obtain ⟨hl1, hl2⟩ := hl
                  subst hl1; subst hl2
                  exact ⟨wb, ⟨rfl, rfl⟩, hr⟩
                · rw [if_neg c3] at hl ⊢
                  rw [← e2]
                  by_cases c4 : a.nonce ≠ x.info.nonce
                  · rw [if_pos c4] at hl ⊢
                    simp only [pure, Except.pure, Except.ok.injEq, Prod.mk.injEq] at hl ⊢
                    obtain ⟨hl1, hl2⟩ := hl
                    subst hl1; subst hl2
                    exact ⟨wb, ⟨rfl, rfl⟩, hr⟩
                  · rw [if_neg c4] at hl ⊢
                    have hie : y.info.isEmpty = x.info.isEmpty := by simp only [Info.isEmpty, e1, e2, e3]
                    have hbx : x.info.balance < W := hr.good.bal _ x hxs
                    by_cases c5 : a.address = 0
                    · simp only [c5, if_true, pure, Except.pure, Except.ok.injEq, Prod.mk.injEq] at hl ⊢
                      obtain ⟨hl1, hl2⟩ := hl
                      subst hl1; subst hl2
                      refine ⟨_, ⟨rfl, by rw [hie]⟩, ?_⟩
                      exact hr.nil_upd hxs hys ⟨e1, rfl, rfl, e4, e5, rfl, e7, e8, e9⟩ rfl hbx
                        (by intro c hc'; simp at hc'; exact hc'.symm) (by intro c hc'; simp at hc'; exact hc'.symm)
                    · simp only [c5, if_false, pure, Except.pure, Except.ok.injEq, Prod.mk.injEq] at hl ⊢
                      obtain ⟨hl1, hl2⟩ := hl
                      subst hl1; subst hl2
                      refine ⟨_, ⟨rfl, by rw [hie]⟩, ?_⟩
                      have hr' := addCode_rel hr (Keccak.keccak256w (designator a.address)) (designator a.address)
                      rw [addCode_js, addCode_js]
                      have hxs' : (wa.addCode (Keccak.keccak256w (designator a.address)) (designator a.address)).js.state authority = some x := by
                        rw [addCode_js]; exact hxs
                      have hys' : (wb.addCode (Keccak.keccak256w (designator a.address)) (designator a.address)).js.state authority = some y := by
                        rw [addCode_js]; exact hys
                      have e9' : slotsOf (dbPre (wa.addCode (Keccak.keccak256w (designator a.address)) (designator a.address)).pre) authority x.created x.storage =
                          slotsOf (dbPre (wa.addCode (Keccak.keccak256w (designator a.address)) (designator a.address)).pre) authority y.created y.storage := by
                        have : (wa.addCode (Keccak.keccak256w (designator a.address)) (designator a.address)).pre = wa.pre := by
                          unfold World.addCode; split; rfl; split <;> rfl
                        rw [this]; exact e9
                      have := hr'.nil_upd hxs' hys' (x' := { x with info := { x.info with codeHash := Keccak.keccak256w (designator a.address), code := some (Keccak.keccak256w (designator a.address)), nonce := U64ops.saturatingAdd x.info.nonce 1 }, touched := true })
                        (y' := { y with info := { y.info with codeHash := Keccak.keccak256w (designator a.address), code := some (Keccak.keccak256w (designator a.address)), nonce := U64ops.saturatingAdd x.info.nonce 1 }, touched := true })
                        ⟨e1, rfl, rfl, e4, e5, rfl, e7, e8, e9'⟩ rfl hbx
                        (by intro c hc'; simp at hc'; exact hc'.symm) (by intro c hc'; simp at hc'; exact hc'.symm)
                      rw [addCode_js, addCode_js] at this
                      exact this

/-- the body of the loop of `apply_eip7702_auth_list` -/
def authBody (e : Evm.Env) (a : Auth) (s : World × Nat) : R (ForInStep (World × Nat)) := do
  let x ← applyAuth e s.1 a
  match x with
  | (w', r) => if r = true then pure (ForInStep.yield (w', s.2 + 1)) else pure (ForInStep.yield (w', s.2))

theorem forIn_auth_rel (e : Evm.Env) (l : List Auth) : ∀ (w1 w2 : World) (n : Nat) (w1' : World) (n' : Nat),
    CfgRel [] w1 [] w2 → forIn l (w1, n) (authBody e) = .ok (w1', n') →
    ∃ w2', forIn l (w2, n) (authBody e) = .ok (w2', n') ∧ CfgRel [] w1' [] w2' := by
  induction l with
  | nil =>
    intro w1 w2 n w1' n' h hl
    simp only [List.forIn_nil, pure, Except.pure, Except.ok.injEq, Prod.mk.injEq] at hl ⊢
    obtain ⟨h1, h2⟩ := hl
    subst h1; subst h2
    exact ⟨w2, ⟨rfl, rfl⟩, h⟩
  | cons a l ih =>
    intro w1 w2 n w1' n' h hl
    simp only [List.forIn_cons, bind, Except.bind] at hl ⊢
    unfold authBody at hl ⊢
    simp only [bind, Except.bind] at hl ⊢
    cases h1 : applyAuth e w1 a with
    | error err => rw [h1] at hl; simp at hl
    | ok p =>
      obtain ⟨wa, r⟩ := p
      rw [h1] at hl
      obtain ⟨wb, h2, hr⟩ := applyAuth_rel e a h h1
      rw [h2]
      simp only at hl ⊢
      by_cases hrr : r = true
      · simp only [hrr, if_true, pure, Except.pure] at hl ⊢
        exact ih wa wb (n + 1) w1' n' hr hl
      · simp only [hrr, if_false, pure, Except.pure] at hl ⊢
        exact ih wa wb n w1' n' hr hl

/-- `apply_eip7702_auth_list` -/
theorem auth_rel (e : Evm.Env) (spec : Nat) (h : CfgRel [] w1 [] w2) {w1' : World} {n : Nat}
    (hl : applyAuthList e spec w1 = .ok (w1', n)) :
    ∃ w2', applyAuthList e spec w2 = .ok (w2', n) ∧ CfgRel [] w1' [] w2' := by
  unfold applyAuthList at hl ⊢
  by_cases c1 : (!GasCalc.enabled spec GasCalc.SpecId.PRAGUE) = true
  · rw [if_pos c1] at hl ⊢
    simp only [pure, Except.pure, Except.ok.injEq, Prod.mk.injEq] at hl ⊢
    obtain ⟨h1, h2⟩ := hl
    subst h1; subst h2
    exact ⟨w2, ⟨rfl, rfl⟩, h⟩
  · rw [if_neg c1] at hl ⊢
    cases hal : e.tx.authList with
    | none =>
      rw [hal] at hl
      simp only [pure, Except.pure, Except.ok.injEq, Prod.mk.injEq] at hl ⊢
      obtain ⟨h1, h2⟩ := hl
      subst h1; subst h2
      exact ⟨w2, ⟨rfl, rfl⟩, h⟩
    | some l =>
      rw [hal] at hl
      change (do
        let s ← forIn l (w1, 0) (authBody e)
        pure (s.1, U64ops.wmul s.2 (PER_EMPTY_ACCOUNT_COST - PER_AUTH_BASE_COST)) : R (World × Nat)) = Except.ok (w1', n) at hl
      show ∃ w2', (do
        let s ← forIn l (w2, 0) (authBody e)
        pure (s.1, U64ops.wmul s.2 (PER_EMPTY_ACCOUNT_COST - PER_AUTH_BASE_COST)) : R (World × Nat)) = Except.ok (w2', n) ∧ _
      simp only [bind, Except.bind] at hl ⊢
      cases hf : forIn l (w1, 0) (authBody e) with
      | error err => rw [hf] at hl; simp at hl
      | ok v =>
        obtain ⟨wa, na⟩ := v
        rw [hf] at hl
        obtain ⟨wb, hf2, hr⟩ := forIn_auth_rel e l w1 w2 0 wa na h hf
        rw [hf2]
        simp only [pure, Except.pure, Except.ok.injEq, Prod.mk.injEq] at hl ⊢
        obtain ⟨h1, h2⟩ := hl
        subst h1; subst h2
        exact ⟨wb, ⟨rfl, rfl⟩, hr⟩

end Revm.Proofs.EvmRefine
