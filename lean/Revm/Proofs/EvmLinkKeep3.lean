import Revm.Proofs.EvmLinkKeep2
/-! LINK, frame accounting and static mode, part 3: every pure handler of `Model.Interp` keeps `is_static`, the gas
limit, and never gives gas back. A small tactic walks through the do-blocks. -/
set_option linter.unusedSimpArgs false
set_option linter.unusedVariables false
namespace Revm.Proofs.EvmLink
open Revm Revm.Model Revm.Model.Interp

-- failing alternatives of the dispatcher must fail syntactically, not by unfolding two primitives against each other
attribute [local irreducible] gasCharge getS check requireNonStatic requireEof requireInitEof requireSome assumeNotEof
  gasOrFail refund advancePc setEof popN popTop setTop push stackCall stackCallAdv asUsizeOrFail resizeMem memSlice
  memSliceRange memGetU256 memSetU256 memSetByte memSetData memCopy codeSlice codeByte jumpRel getEof loadEofCode
  haltWith haltOut faultWith modifyS liftMemWrite

/-- a primitive (or an already proved helper) at the head of a bind -/
syntax "keep_prim" : tactic
macro_rules | `(tactic| keep_prim) => `(tactic| first
  | exact keep_mono (keep_gasCharge ‹_› _) (fun _ _ _ _ => trivial)
  | exact keep_mono (keep_getS ‹_›) (fun _ _ _ _ => trivial)
  | exact keep_check ‹_› _
  | exact keep_requireNonStatic ‹_›
  | exact keep_requireEof ‹_›
  | exact keep_requireInitEof ‹_›
  | exact keep_requireSome ‹_› _
  | exact keep_assumeNotEof ‹_›
  | exact keep_gasOrFail ‹_› _
  | exact keep_refund ‹_› _
  | exact keep_advancePc ‹_› _
  | exact keep_setEof ‹_› _
  | exact keep_popN ‹_› _
  | exact keep_popTop ‹_› _
  | exact keep_setTop ‹_› _
  | exact keep_push ‹_› _
  | exact keep_stackCall ‹_› _
  | exact keep_stackCallAdv ‹_› _ _
  | exact keep_asUsizeOrFail ‹_› _ _
  | exact keep_resizeMem ‹_› _ _
  | exact keep_memSlice ‹_› _ _
  | exact keep_memSliceRange ‹_› _ _
  | exact keep_memGetU256 ‹_› _
  | exact keep_memSetU256 ‹_› _ _
  | exact keep_memSetByte ‹_› _ _
  | exact keep_memSetData ‹_› _ _ _ _
  | exact keep_memCopy ‹_› _ _ _
  | exact keep_codeSlice ‹_› _
  | exact keep_codeByte ‹_› _
  | exact keep_jumpRel ‹_› _
  | exact keep_getEof ‹_›
  | exact keep_loadEofCode ‹_› _ _
  | exact keep_haltWith ‹_› _
  | exact keep_haltOut ‹_› _ _
  | exact keep_faultWith _
  | exact keep_pure ‹_› trivial
  | exact keep_modifyS ‹_› _ ⟨rfl, rfl, Nat.le_refl _⟩)

/-- walk through a do-block -/
syntax "keep_auto" : tactic
macro_rules | `(tactic| keep_auto) => `(tactic| repeat (first
  | keep_prim
  | refine keep_bind (by keep_prim) (fun _ _ _ _ => ?_)
  | refine keep_bind (Q := T) (by split <;> keep_auto) (fun _ _ _ _ => ?_)
  | split
  | dsimp only))

section helpers
variable {s0 s : IState}

theorem keep_pop1 (h : Kept s0 s) : Keep s0 T (pop1 s) := by unfold pop1; keep_auto
theorem keep_pop2 (h : Kept s0 s) : Keep s0 T (pop2 s) := by unfold pop2; keep_auto
theorem keep_pop3 (h : Kept s0 s) : Keep s0 T (pop3 s) := by unfold pop3; keep_auto
theorem keep_pop4 (h : Kept s0 s) : Keep s0 T (pop4 s) := by unfold pop4; keep_auto
macro_rules | `(tactic| keep_prim) => `(tactic| first
  | exact keep_pop1 ‹_› | exact keep_pop2 ‹_› | exact keep_pop3 ‹_› | exact keep_pop4 ‹_›)
attribute [local irreducible] pop1 pop2 pop3 pop4

theorem keep_popAddress (h : Kept s0 s) : Keep s0 T (popAddress s) := by unfold popAddress; keep_auto
theorem keep_popTop1 (h : Kept s0 s) : Keep s0 T (popTop1 s) := by unfold popTop1; keep_auto
theorem keep_popTop2 (h : Kept s0 s) : Keep s0 T (popTop2 s) := by unfold popTop2; keep_auto
theorem keep_popTop3 (h : Kept s0 s) : Keep s0 T (popTop3 s) := by unfold popTop3; keep_auto
theorem keep_readU16 (h : Kept s0 s) (o : Nat) : Keep s0 T (readU16 o s) := by unfold readU16; keep_auto
macro_rules | `(tactic| keep_prim) => `(tactic| first
  | exact keep_popAddress ‹_› | exact keep_popTop1 ‹_› | exact keep_popTop2 ‹_› | exact keep_popTop3 ‹_›
  | exact keep_readU16 ‹_› _)
theorem keep_readI16 (h : Kept s0 s) (o : Nat) : Keep s0 T (readI16 o s) := by unfold readI16; keep_auto
macro_rules | `(tactic| keep_prim) => `(tactic| exact keep_readI16 ‹_› _)
attribute [local irreducible] popAddress popTop1 popTop2 popTop3 readU16 readI16

theorem keep_unopI (h : Kept s0 s) (g : Nat) (f) : Keep s0 T (unopI g f s) := by unfold unopI; keep_auto
theorem keep_binopI (h : Kept s0 s) (g k : Nat) (f) : Keep s0 T (binopI g k f s) := by unfold binopI; keep_auto
theorem keep_teropI (h : Kept s0 s) (g : Nat) (f) : Keep s0 T (teropI g f s) := by unfold teropI; keep_auto
theorem keep_expI (h : Kept s0 s) : Keep s0 T (expI s) := by unfold expI; keep_auto

theorem keep_jumpInner (h : Kept s0 s) (t : Nat) : Keep s0 T (jumpInner t s) := by unfold jumpInner; keep_auto
theorem keep_returnInner (h : Kept s0 s) (r : IResult) : Keep s0 T (returnInner r s) := by unfold returnInner; keep_auto
macro_rules | `(tactic| keep_prim) => `(tactic| first | exact keep_jumpInner ‹_› _ | exact keep_returnInner ‹_› _)
attribute [local irreducible] jumpInner returnInner

theorem keep_copyToMem (h : Kept s0 s) (data : IState → List Nat) (guard : M Unit)
    (hg : ∀ s', Kept s0 s' → Keep s0 T (guard s')) : Keep s0 T (copyToMem data guard s) := by
  unfold copyToMem
  repeat (first
    | exact hg _ ‹_›
    | refine keep_bind (hg _ ‹_›) (fun _ _ _ _ => ?_)
    | keep_prim
    | refine keep_bind (by keep_prim) (fun _ _ _ _ => ?_)
    | split
    | dsimp only)

theorem keep_pushValI (h : Kept s0 s) (g) (k) (v) : Keep s0 T (pushValI g k v s) := by unfold pushValI; keep_auto
theorem keep_difficultyI (h : Kept s0 s) : Keep s0 T (difficultyI s) := by
  unfold difficultyI
  refine keep_bind (by keep_prim) (fun _ _ _ _ => ?_)
  refine keep_bind (keep_getS ‹_›) (fun x s' hk hq => ?_)
  split
  · cases x.env.prevrandao with
    | some w => (try dsimp only); keep_auto
    | none => (try dsimp only); keep_auto
  · (try dsimp only); keep_auto
theorem keep_calldataloadI (h : Kept s0 s) : Keep s0 T (calldataloadI s) := by unfold calldataloadI; keep_auto
theorem keep_codesizeI (h : Kept s0 s) : Keep s0 T (codesizeI s) := by unfold codesizeI; keep_auto
theorem keep_returndatacopyI (h : Kept s0 s) : Keep s0 T (returndatacopyI s) := by unfold returndatacopyI; keep_auto
theorem keep_blobhashI (h : Kept s0 s) : Keep s0 T (blobhashI s) := by unfold blobhashI; keep_auto
theorem keep_popI (h : Kept s0 s) : Keep s0 T (popI s) := by unfold popI; keep_auto
theorem keep_push0I (h : Kept s0 s) : Keep s0 T (push0I s) := by unfold push0I; keep_auto
theorem keep_pushI (h : Kept s0 s) (n) : Keep s0 T (pushI n s) := by unfold pushI; keep_auto
theorem keep_dupI (h : Kept s0 s) (n) : Keep s0 T (dupI n s) := by unfold dupI; keep_auto
theorem keep_swapI (h : Kept s0 s) (n) : Keep s0 T (swapI n s) := by unfold swapI; keep_auto
theorem keep_mloadI (h : Kept s0 s) : Keep s0 T (mloadI s) := by unfold mloadI; keep_auto
theorem keep_mstoreI (h : Kept s0 s) : Keep s0 T (mstoreI s) := by unfold mstoreI; keep_auto
theorem keep_mstore8I (h : Kept s0 s) : Keep s0 T (mstore8I s) := by unfold mstore8I; keep_auto
theorem keep_mcopyI (h : Kept s0 s) : Keep s0 T (mcopyI s) := by unfold mcopyI; keep_auto
theorem keep_jumpI (h : Kept s0 s) : Keep s0 T (jumpI s) := by unfold jumpI; keep_auto
theorem keep_jumpiI (h : Kept s0 s) : Keep s0 T (jumpiI s) := by unfold jumpiI; keep_auto
theorem keep_revertI (h : Kept s0 s) : Keep s0 T (revertI s) := by unfold revertI; keep_auto
theorem keep_rjumpI (h : Kept s0 s) : Keep s0 T (rjumpI s) := by unfold rjumpI; keep_auto
theorem keep_rjumpiI (h : Kept s0 s) : Keep s0 T (rjumpiI s) := by unfold rjumpiI; keep_auto
theorem keep_rjumpvI (h : Kept s0 s) : Keep s0 T (rjumpvI s) := by unfold rjumpvI; keep_auto
theorem keep_callfI (h : Kept s0 s) : Keep s0 T (callfI s) := by
  unfold callfI
  refine keep_bind (by keep_prim) (fun _ _ _ _ => ?_)
  refine keep_bind (by keep_prim) (fun _ _ _ _ => ?_)
  refine keep_bind (by keep_prim) (fun idx _ _ _ => ?_)
  refine keep_bind (by keep_prim) (fun c s' hk _ => ?_)
  split
  · (try dsimp only); keep_auto
  · cases c.types[idx]? with
    | none => (try dsimp only); keep_auto
    | some t => (try dsimp only); keep_auto
theorem keep_retfI (h : Kept s0 s) : Keep s0 T (retfI s) := by
  unfold retfI
  refine keep_bind (by keep_prim) (fun _ _ _ _ => ?_)
  refine keep_bind (by keep_prim) (fun _ _ _ _ => ?_)
  refine keep_bind (by keep_prim) (fun c s' hk _ => ?_)
  cases c.retStack with
  | nil => (try dsimp only); keep_auto
  | cons p rest => obtain ⟨idx, pc⟩ := p; (try dsimp only); keep_auto
theorem keep_jumpfI (h : Kept s0 s) : Keep s0 T (jumpfI s) := by
  unfold jumpfI
  refine keep_bind (by keep_prim) (fun _ _ _ _ => ?_)
  refine keep_bind (by keep_prim) (fun _ _ _ _ => ?_)
  refine keep_bind (by keep_prim) (fun idx _ _ _ => ?_)
  refine keep_bind (by keep_prim) (fun c s' hk _ => ?_)
  cases c.types[idx]? with
  | none => (try dsimp only); keep_auto
  | some t => (try dsimp only); keep_auto
theorem keep_dupnI (h : Kept s0 s) : Keep s0 T (dupnI s) := by unfold dupnI; keep_auto
theorem keep_swapnI (h : Kept s0 s) : Keep s0 T (swapnI s) := by unfold swapnI; keep_auto
theorem keep_exchangeI (h : Kept s0 s) : Keep s0 T (exchangeI s) := by unfold exchangeI; keep_auto
theorem keep_dataloadI (h : Kept s0 s) : Keep s0 T (dataloadI s) := by unfold dataloadI; keep_auto
theorem keep_dataloadnI (h : Kept s0 s) : Keep s0 T (dataloadnI s) := by unfold dataloadnI; keep_auto
theorem keep_datasizeI (h : Kept s0 s) : Keep s0 T (datasizeI s) := by unfold datasizeI; keep_auto
theorem keep_datacopyI (h : Kept s0 s) : Keep s0 T (datacopyI s) := by unfold datacopyI; keep_auto
theorem keep_returndataloadI (h : Kept s0 s) : Keep s0 T (returndataloadI s) := by unfold returndataloadI; keep_auto
theorem keep_returnContractI (h : Kept s0 s) : Keep s0 T (returnContractI s) := by
  unfold returnContractI
  refine keep_bind (by keep_prim) (fun _ _ _ _ => ?_)
  refine keep_bind (by keep_prim) (fun idx _ _ _ => ?_)
  refine keep_bind (by keep_prim) (fun p _ _ _ => ?_)
  obtain ⟨auxOff, auxSize⟩ := p
  dsimp only
  refine keep_bind (by keep_prim) (fun auxSize' _ _ _ => ?_)
  refine keep_bind (by keep_prim) (fun c s' hk _ => ?_)
  cases c.containers[idx]? with
  | none => (try dsimp only); keep_auto
  | some container =>
    (try dsimp only)
    cases headerOf container with
    | none => (try dsimp only); keep_auto
    | some hd =>
      (try dsimp only)
      have haux : Keep s0 T ((if auxSize' ≠ 0 then do
          let auxOff ← asUsizeOrFail auxOff
          resizeMem auxOff auxSize'
          memSlice auxOff auxSize'
        else pure []) s') := by
        split
        · keep_auto
        · keep_auto
      refine keep_bind haux (fun aux s2 hk2 _ => ?_)
      (try dsimp only)
      split
      · (try dsimp only); keep_auto
      · split
        · (try dsimp only); keep_auto
        · cases patchU16 (container ++ aux) hd.dataSizeRawI _ with
          | none => (try dsimp only); keep_auto
          | some out => (try dsimp only); keep_auto

/-- **every pure handler** keeps `is_static` and the gas limit and never gives gas back -/
theorem keep_execPure (i : Instr) (m : M Unit) (hm : execPure i = some m) (h : Kept s0 s) : Keep s0 T (m s) := by
  cases i <;> simp only [execPure, Option.some.injEq, reduceCtorEq] at hm <;> subst hm
  all_goals first
    | exact keep_haltWith h _
    | exact keep_returnContractI h
    | exact keep_rjumpI h | exact keep_rjumpiI h | exact keep_rjumpvI h | exact keep_callfI h | exact keep_retfI h
    | exact keep_jumpfI h | exact keep_dupnI h | exact keep_swapnI h | exact keep_exchangeI h
    | exact keep_dataloadI h | exact keep_dataloadnI h | exact keep_datasizeI h | exact keep_datacopyI h
    | exact keep_returndataloadI h
    | exact keep_unopI h _ _ | exact keep_binopI h _ _ _ | exact keep_teropI h _ _ | exact keep_expI h
    | exact keep_pushValI h _ _ _ | exact keep_difficultyI h | exact keep_calldataloadI h
    | exact keep_copyToMem h _ _ (fun s' h' => keep_pure h' trivial)
    | exact keep_copyToMem h _ _ (fun s' h' => keep_assumeNotEof h')
    | exact keep_codesizeI h | exact keep_returndatacopyI h | exact keep_blobhashI h
    | exact keep_popI h | exact keep_push0I h | exact keep_pushI h _ | exact keep_dupI h _ | exact keep_swapI h _
    | exact keep_mloadI h | exact keep_mstoreI h | exact keep_mstore8I h | exact keep_mcopyI h
    | exact keep_jumpI h | exact keep_jumpiI h
    | exact keep_mono (keep_gasCharge h _) (fun _ _ _ _ => trivial)
    | exact keep_returnInner h _ | exact keep_revertI h

end helpers
end Revm.Proofs.EvmLink
