import Revm.Proofs.BundleInvAcct
/-! From the executable reachability predicate `Spec.evmOk` to the per-address hypotheses `EvOk`, and the
observations of `Spec.applyCommitAcct` / `Spec.applyCommit` at every address. Core Lean only. -/
namespace Revm.Proofs.Bundle
open Revm.Model.Bundle Revm.Spec.Bundle

set_option linter.unusedSimpArgs false

theorem distinctKeys_WF {α : Type} (l : List (Nat × α)) (h : distinctKeys l = true) : WF l := by
  induction l with
  | nil => exact WF_nil
  | cons e r ih =>
    simp only [distinctKeys, Bool.and_eq_true, Bool.not_eq_true', List.any_eq_false, beq_iff_eq] at h
    rw [WF_cons]
    refine ⟨?_, ih h.2⟩
    intro hm
    obtain ⟨x, hx, hxe⟩ := List.mem_map.mp hm
    exact h.1 x hx hxe

theorem evOk_of (sc : Bool) (p : Plain) (a : Nat) (e : EvmAcct) (h : evmOk sc p a e = true)
    (ht : e.touched = true) : EvOk (p.acct a) (fun k => p.slot a k) e := by
  simp only [evmOk, ht, Bool.not_true, Bool.false_eq_true, if_false, Bool.and_eq_true] at h
  obtain ⟨⟨hdk, horig⟩, hcase⟩ := h
  have hw := distinctKeys_WF _ hdk
  have horig' : ∀ k s, e.storage.get k = some s → s.orig = if e.created then 0 else p.slot a k := by
    intro k s hg
    have := List.all_eq_true.mp horig (k, s) (mem_of_get _ _ _ hg)
    simpa using this
  refine ⟨hw, horig', ?_, ?_, ?_⟩
  · intro _ hcr
    simp only [hcr, if_true] at hcase
    cases ho : p.acct a with
    | none => exact Or.inl rfl
    | some o =>
      rw [ho] at hcase
      simp only [Bool.and_eq_true, beq_iff_eq, Bool.not_eq_true'] at hcase
      exact Or.inr ⟨o, rfl, hcase.1.1, hcase.1.2, fun k => hasStorage_false p a hcase.2 k⟩
  · intro hsd hcr hem
    simp only [hcr, hsd, hem, Bool.false_eq_true, if_false, if_true, Bool.and_eq_true, Bool.not_eq_true',
      List.any_eq_false] at hcase
    refine ⟨?_, fun k s hg => ?_⟩
    · cases ho : p.acct a with
      | none => exact Or.inl rfl
      | some o => rw [ho] at hcase; exact Or.inr ⟨o, rfl, hcase.1⟩
    · have := hcase.2 (k, s) (mem_of_get _ _ _ hg)
      simpa using this
  · intro hsd hcr hem o ho
    simp only [hcr, hsd, hem, Bool.false_eq_true, if_false, ho, Bool.and_eq_true, Bool.or_eq_true, beq_iff_eq,
      decide_eq_true_eq] at hcase
    exact ⟨hcase.1.1, hcase.1.2⟩

theorem writeSlots_map (chg : BMap Slot) (f : Nat → Nat) (k : Nat) :
    writeSlots (chg.map (fun e => (e.1, e.2.present))) f k = writeCh chg f k := by
  unfold writeSlots writeCh
  rw [get_map_present]
  cases chg.get k <;> rfl

theorem applyCommitAcct_acct (sc : Bool) (p : Plain) (a : Nat) (ea : EvmAcct) (a' : Nat) :
    (applyCommitAcct sc p a ea).acct a' = if a = a' then evInfo sc (p.acct a) ea else p.acct a' := by
  unfold applyCommitAcct evInfo
  cases ea.touched <;> cases ea.selfdestructed <;> cases ea.created <;> cases ea.info.isEmpty <;> cases sc <;>
    by_cases h : a = a' <;>
    simp [acct_setAcct, acct_setSlots, acct_wipe, h]

theorem applyCommitAcct_slot (sc : Bool) (p : Plain) (a : Nat) (ea : EvmAcct) (hw : ea.touched = true → WF ea.storage)
    (a' k : Nat) :
    (applyCommitAcct sc p a ea).slot a' k = if a = a' then evSlots sc (fun k => p.slot a k) ea k else p.slot a' k := by
  cases ht : ea.touched with
  | false => by_cases h : a = a' <;> simp [applyCommitAcct, evSlots, ht, h]
  | true =>
    have hwc : WF ((ea.storage.filter (fun e => e.2.isChanged)).map (fun e => (e.1, e.2.present))) :=
      WF_map_val _ _ (WF_filter _ _ (hw ht))
    unfold applyCommitAcct evSlots
    simp only [ht, Bool.not_true, Bool.false_eq_true, if_false]
    cases ea.selfdestructed <;> cases ea.created <;> cases ea.info.isEmpty <;> cases sc <;>
      by_cases h : a = a' <;>
      simp [slot_setAcct, slot_setSlots _ _ _ hwc, slot_wipe, h, writeSlots_map, chgOf]

end Revm.Proofs.Bundle
