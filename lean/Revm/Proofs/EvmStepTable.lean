import Revm.Proofs.EvmStep
import Revm.Props.C03
/-! The rule tables of `Spec/EvmRules.lean` against `Interp.step`: word operations with their `Spec.Arith` meaning (through the
C03 theorems), environment reads, and the decoding of the DUP / SWAP / PUSH families. -/
namespace Revm.Proofs.EvmStep
open Revm Revm.Model Revm.Model.Interp Revm.Spec.EvmRules
open Revm.Model.GasCalc (enabled)

theorem mem_of_reverse_cons {l : List Nat} {a : Nat} {rest : List Nat} (h : l.reverse = a :: rest) : a ∈ l := by
  have : a ∈ l.reverse := by rw [h]; exact List.mem_cons_self
  simpa using this

theorem binopRule_congr (g fork : Nat) (f f' : Nat → Nat → Nat) (s : IState)
    (h : ∀ a b, a < W → b < W → f a b = f' a b) (hw : ∀ w ∈ s.stack, w < W) :
    binopRule g fork f s = binopRule g fork f' s := by
  unfold binopRule
  rcases hrev : s.stack.reverse with _ | ⟨a, _ | ⟨b, rest⟩⟩
  · rfl
  · rfl
  · have ha : a ∈ s.stack := mem_of_reverse_cons hrev
    have hb : b ∈ s.stack := by
      have : b ∈ s.stack.reverse := by rw [hrev]; simp
      simpa using this
    simp only [h a b (hw a ha) (hw b hb)]

theorem unopRule_congr (g : Nat) (f f' : Nat → Nat) (s : IState)
    (h : ∀ a, a < W → f a = f' a) (hw : ∀ w ∈ s.stack, w < W) :
    unopRule g f s = unopRule g f' s := by
  unfold unopRule
  rcases hrev : s.stack.reverse with _ | ⟨a, rest⟩
  · rfl
  · have ha : a ∈ s.stack := mem_of_reverse_cons hrev
    simp only [h a (hw a ha)]

theorem teropRule_congr (g : Nat) (f f' : Nat → Nat → Nat → Nat) (s : IState)
    (h : ∀ a b c, f a b c = f' a b c) : teropRule g f s = teropRule g f' s := by
  have : f = f' := by funext a b c; exact h a b c
  rw [this]

open Revm.Props.C03 in
/-- every word operation of the table: `Interp.step` is the Yellow-Paper rule with the `Spec.Arith` meaning -/
theorem step_word_agrees (e : WordEntry) (he : e ∈ wordTable) (s : IState) (hcode : s.code[s.pc]? = some e.op)
    (hwf : WF s) : step s = .pure (e.rule s) := by
  have hg := hwf.gas
  have hw := hwf.words
  simp only [wordTable, List.mem_cons, List.not_mem_nil, or_false] at he
  rcases he with rfl | rfl | rfl | rfl | rfl | rfl | rfl | rfl | rfl | rfl | rfl | rfl | rfl | rfl | rfl | rfl | rfl
    | rfl | rfl | rfl | rfl | rfl | rfl | rfl
  · exact (step_binop s _ _ _ _ hcode rfl hg).trans (congrArg _ (binopRule_congr _ _ _ _ s (fun a b _ _ => add_eq a b) hw))
  · exact (step_binop s _ _ _ _ hcode rfl hg).trans (congrArg _ (binopRule_congr _ _ _ _ s (fun a b _ _ => mul_eq a b) hw))
  · exact (step_binop s _ _ _ _ hcode rfl hg).trans (congrArg _ (binopRule_congr _ _ _ _ s (fun a b ha hb => sub_eq a b ha hb) hw))
  · exact (step_binop s _ _ _ _ hcode rfl hg).trans (congrArg _ (binopRule_congr _ _ _ _ s (fun a b _ _ => div_eq a b) hw))
  · exact (step_binop s _ _ _ _ hcode rfl hg).trans (congrArg _ (binopRule_congr _ _ _ _ s (fun a b ha hb => sdiv_eq a b ha hb) hw))
  · exact (step_binop s _ _ _ _ hcode rfl hg).trans (congrArg _ (binopRule_congr _ _ _ _ s (fun a b _ _ => mod_eq a b) hw))
  · exact (step_binop s _ _ _ _ hcode rfl hg).trans (congrArg _ (binopRule_congr _ _ _ _ s (fun a b ha hb => smod_eq a b ha hb) hw))
  · exact (step_terop s _ _ _ hcode rfl hg).trans (congrArg _ (teropRule_congr _ _ _ s (fun a b c => addmod_eq a b c)))
  · exact (step_terop s _ _ _ hcode rfl hg).trans (congrArg _ (teropRule_congr _ _ _ s (fun a b c => mulmod_eq a b c)))
  · exact (step_binop s _ _ _ _ hcode rfl hg).trans (congrArg _ (binopRule_congr _ _ _ _ s (fun a b _ hb => signextend_eq a b hb) hw))
  · exact (step_binop s _ _ _ _ hcode rfl hg).trans (congrArg _ (binopRule_congr _ _ _ _ s (fun a b _ _ => lt_eq a b) hw))
  · exact (step_binop s _ _ _ _ hcode rfl hg).trans (congrArg _ (binopRule_congr _ _ _ _ s (fun a b _ _ => gt_eq a b) hw))
  · exact (step_binop s _ _ _ _ hcode rfl hg).trans (congrArg _ (binopRule_congr _ _ _ _ s (fun a b ha hb => slt_eq a b ha hb) hw))
  · exact (step_binop s _ _ _ _ hcode rfl hg).trans (congrArg _ (binopRule_congr _ _ _ _ s (fun a b ha hb => sgt_eq a b ha hb) hw))
  · exact (step_binop s _ _ _ _ hcode rfl hg).trans (congrArg _ (binopRule_congr _ _ _ _ s (fun a b _ _ => eq_eq a b) hw))
  · exact (step_unop s _ _ _ hcode rfl hg).trans (congrArg _ (unopRule_congr _ _ _ s (fun a _ => iszero_eq a) hw))
  · exact (step_binop s _ _ _ _ hcode rfl hg).trans (congrArg _ (binopRule_congr _ _ _ _ s (fun a b _ _ => and_eq a b) hw))
  · exact (step_binop s _ _ _ _ hcode rfl hg).trans (congrArg _ (binopRule_congr _ _ _ _ s (fun a b _ _ => or_eq a b) hw))
  · exact (step_binop s _ _ _ _ hcode rfl hg).trans (congrArg _ (binopRule_congr _ _ _ _ s (fun a b _ _ => xor_eq a b) hw))
  · exact (step_unop s _ _ _ hcode rfl hg).trans (congrArg _ (unopRule_congr _ _ _ s (fun a _ => not_eq a) hw))
  · exact (step_binop s _ _ _ _ hcode rfl hg).trans (congrArg _ (binopRule_congr _ _ _ _ s (fun a b _ _ => byte_eq a b) hw))
  · exact (step_binop s _ _ _ _ hcode rfl hg).trans (congrArg _ (binopRule_congr _ _ _ _ s (fun a b _ _ => shl_eq a b) hw))
  · exact (step_binop s _ _ _ _ hcode rfl hg).trans (congrArg _ (binopRule_congr _ _ _ _ s (fun a b _ hb => shr_eq a b hb) hw))
  · exact (step_binop s _ _ _ _ hcode rfl hg).trans (congrArg _ (binopRule_congr _ _ _ _ s (fun a b _ hb => sar_eq a b hb) hw))

/-- every environment read of the table -/
theorem step_env_agrees (e : EnvEntry) (he : e ∈ envTable) (s : IState) (hcode : s.code[s.pc]? = some e.op)
    (hwf : WF s) : step s = .pure (e.rule s) := by
  have hg := hwf.gas
  simp only [envTable, List.mem_cons, List.not_mem_nil, or_false] at he
  rcases he with rfl | rfl | rfl | rfl | rfl | rfl | rfl | rfl | rfl | rfl | rfl | rfl | rfl | rfl | rfl | rfl | rfl
    | rfl | rfl <;> exact step_pushVal s _ _ _ _ hcode rfl hg

set_option maxRecDepth 8000 in
theorem decode_dup (n : Fin 16) : decode (0x80 + n.val) = .dup n := by
  rcases n with ⟨k, hk⟩
  repeat (first | (cases k with | zero => rfl | succ k => ?_) | omega)

set_option maxRecDepth 8000 in
theorem decode_swap (n : Fin 16) : decode (0x90 + n.val) = .swap n := by
  rcases n with ⟨k, hk⟩
  repeat (first | (cases k with | zero => rfl | succ k => ?_) | omega)

set_option maxRecDepth 8000 in
theorem decode_push (n : Fin 32) : decode (0x60 + n.val) = .push n := by
  rcases n with ⟨k, hk⟩
  repeat (first | (cases k with | zero => rfl | succ k => ?_) | omega)

end Revm.Proofs.EvmStep
