import Revm.Proofs.EvmStep
import Revm.Props.C03
/-! The rule tables of `Spec/EvmRules.lean` against `Interp.step`: word operations with their `Spec.Arith` meaning (through the
C03 theorems), environment reads, and the decoding of the DUP / SWAP / PUSH families. -/
namespace Revm.Proofs.EvmStep
open Revm Revm.Model Revm.Model.Interp Revm.Spec.EvmRules
open Revm.Model.GasCalc (enabled)

theorem mem_of_reverse_cons {l : List Nat} {a : Nat} {rest : List Nat} (h : l.reverse = a :: rest) : a ∈ l := by
  have : a ∈ l.reverse := by rw [h]; exact List.mem_cons_self
  simpa using this

theorem binopRule_congr (g fork : Nat) (f f' : Nat → Nat → Nat) (s : IState)
    (h : ∀ a b, a < W → b < W → f a b = f' a b) (hw : ∀ w ∈ s.stack, w < W) :
    binopRule g fork f s = binopRule g fork f' s := by
  unfold binopRule
  rcases hrev : s.stack.reverse with _ | ⟨a, _ | ⟨b, rest⟩⟩
  · rfl
  · rfl
  · have ha : a ∈ s.stack := mem_of_reverse_cons hrev
    have hb : b ∈ s.stack := by
      have : b ∈ s.stack.reverse := by rw [hrev]; simp
      simpa using this
    simp only [h a b (hw a ha) (hw b hb)]

theorem unopRule_congr (g : Nat) (f f' : Nat → Nat) (s : IState)
    (h : ∀ a, a < W → f a = f' a) (hw : ∀ w ∈ s.stack, w < W) :
    unopRule g f s = unopRule g f' s := by
  unfold unopRule
  rcases hrev : s.stack.reverse with _ | ⟨a, rest⟩
  · rfl
  · have ha : a ∈ s.stack := mem_of_reverse_cons hrev
    simp only [h a (hw a ha)]

theorem teropRule_congr (g : Nat) (f f' : Nat → Nat → Nat → Nat) (s : IState)
    (h : ∀ a b c, f a b c = f' a b c) : teropRule g f s = teropRule g f' s := by
  have : f = f' := by funext a b c; exact h a b c
  rw [this]

open Revm.Props.C03 in
/-- every word operation of the table: `Interp.step` is the Yellow-Paper rule with the `Spec.Arith` meaning -/
theorem step_word_agrees (e : WordEntry) (he : e ∈ wordTable) (s : IState) (hcode : s.code[s.pc]? = some e.op)
    (hwf : WF s) : step s = .pure (e.rule s) := by
  have hg := hwf.gas
  have hw := hwf.words
  simp only [wordTable, List.mem_cons, List.not_mem_nil, or_false] at he
  rcases he with rfl | rfl | rfl | rfl | rfl | rfl | rfl | rfl | rfl | rfl | rfl | rfl | rfl | rfl | rfl | rfl | rfl
    | rfl | rfl | rfl | rfl | rfl | rfl | rfl
  · exact (step_binop s _ _ _ _ hcode rfl hg).trans (congrArg _ (binopRule_congr _ _ _ _ s (fun a b _ _ => add_eq a b) hw))
  · exact (step_binop s _ _ _ _ hcode rfl hg).trans (congrArg _ (binopRule_congr _ _ _ _ s (fun a b _ _ => mul_eq a b) hw))
  · exact (step_binop s _ _ _ _ hcode rfl hg).trans (congrArg _ (binopRule_congr _ _ _ _ s (fun a b ha hb => sub_eq a b ha hb) hw))
  · exact (step_binop s _ _ _ _ hcode rfl hg).trans (congrArg _ (binopRule_congr _ _ _ _ s (fun a b _ _ => div_eq a b) hw))
  · exact (step_binop s _ _ _ _ hcode rfl hg).trans (congrArg _ (binopRule_congr _ _ _ _ s (fun a b ha hb => sdiv_eq a b ha hb) hw))
  · exact (step_binop s _ _ _ _ hcode rfl hg).trans (congrArg _ (binopRule_congr _ _ _ _ s (fun a b _ _ => mod_eq a b) hw))
  · exact (step_binop s _ _ _ _ hcode rfl hg).trans (congrArg _ (binopRule_congr _ _ _ _ s (fun a b ha hb => smod_eq a b ha hb) hw))
  · exact (step_terop s _ _ _ hcode rfl hg).trans (congrArg _ (teropRule_congr _ _ _ s (fun a b c => addmod_eq a b c)))
  · exact (step_terop s _ _ _ hcode rfl hg).trans (congrArg _ (teropRule_congr _ _ _ s (fun a b c => mulmod_eq a b c)))
  · exact (step_binop s _ _ _ _ hcode rfl hg).trans (congrArg _ (binopRule_congr _ _ _ _ s (fun a b _ hb => signextend_eq a b hb) hw))
  · exact (step_binop s _ _ _ _ hcode rfl hg).trans (congrArg _ (binopRule_congr _ _ _ _ s (fun a b _ _ => lt_eq a b) hw))
  · exact (step_binop s _ _ _ _ hcode rfl hg).trans (congrArg _ (binopRule_congr _ _ _ _ s (fun a b _ _ => gt_eq a b) hw))
  · exact (step_binop s _ _ _ _ hcode rfl hg).trans (congrArg _ (binopRule_congr _ _ _ _ s (fun a b ha hb => slt_eq a b ha hb) hw))
  · exact (step_binop s _ _ _ _ hcode rfl hg).trans (congrArg _ (binopRule_congr _ _ _ _ s (fun a b ha hb => sgt_eq a b ha hb) hw))
  · exact (step_binop s _ _ _ _ hcode rfl hg).trans (congrArg _ (binopRule_congr _ _ _ _ s (fun a b _ _ => eq_eq a b) hw))
  · exact (step_unop s _ _ _ hcode rfl hg).trans (congrArg _ (unopRule_congr _ _ _ s (fun a _ => iszero_eq a) hw))
  · exact (step_binop s _ _ _ _ hcode rfl hg).trans (congrArg _ (binopRule_congr _ _ _ _ s (fun a b _ _ => and_eq a b) hw))
  · exact (step_binop s _ _ _ _ hcode rfl hg).trans (congrArg _ (binopRule_congr _ _ _ _ s (fun a b _ _ => or_eq a b) hw))
  · exact (step_binop s _ _ _ _ hcode rfl hg).trans (congrArg _ (binopRule_congr _ _ _ _ s (fun a b _ _ => xor_eq a b) hw))
  · exact (step_unop s _ _ _ hcode rfl hg).trans (congrArg _ (unopRule_congr _ _ _ s (fun a _ => not_eq a) hw))
  · exact (step_binop s _ _ _ _ hcode rfl hg).trans (congrArg _ (binopRule_congr _ _ _ _ s (fun a b _ _ => byte_eq a b) hw))
  · exact (step_binop s _ _ _ _ hcode rfl hg).trans (congrArg _ (binopRule_congr _ _ _ _ s (fun a b _ _ => shl_eq a b) hw))
  · exact (step_binop s _ _ _ _ hcode rfl hg).trans (congrArg _ (binopRule_congr _ _ _ _ s (fun a b _ hb => shr_eq a b hb) hw))
  · exact (step_binop s _ _ _ _ hcode rfl hg).trans (congrArg _ (binopRule_congr _ _ _ _ s (fun a b _ hb => sar_eq a b hb) hw))

/-- CODESIZE in legacy code (`assume!(!is_eof)`: in an EOF frame the handler is a fault) -/
theorem step_codesize (s : IState) (hcode : s.code[s.pc]? = some 0x38) (hwf : s.gas.remaining < U64)
    (hleg : s.isEof = false) :
    step s = .pure (pushValRule GasCalc.BASE GasCalc.SpecId.FRONTIER (fun s => s.origLen) s) := by
  unfold step
  rw [hcode]
  have hdec : decode 0x38 = .codesize := rfl
  simp only [hdec, execInstr, execPure]
  show Outcome.pure (codesizeI (adv s)).toDone = _
  congr 1
  unfold codesizeI pushValRule
  have hen : enabled s.spec GasCalc.SpecId.FRONTIER = true := by simp [enabled, GasCalc.SpecId.FRONTIER]
  simp only [hen, Bool.not_true, Bool.false_eq_true, if_false]
  by_cases hg : s.gas.remaining < GasCalc.BASE
  · rw [bind_halt _ _ _ _ _ _ (gasCharge_fail (adv s) _ hg), if_pos hg]; rfl
  · rw [bind_ok _ _ _ _ _ (gasCharge_ok (adv s) _ hwf (by show _ ≤ s.gas.remaining; omega)), if_neg hg]
    have ha : assumeNotEof (charge (adv s) GasCalc.BASE) = .ok () (charge (adv s) GasCalc.BASE) := by
      have : (charge (adv s) GasCalc.BASE).isEof = false := hleg
      simp [assumeNotEof, this]
    have hget : getS (charge (adv s) GasCalc.BASE) = .ok _ _ := rfl
    show ((assumeNotEof >>= fun _ => getS >>= fun s' => push s'.origLen) (charge (adv s) GasCalc.BASE)).toDone = _
    rw [bind_ok _ _ _ _ _ ha, bind_ok _ _ _ _ _ hget]
    simp only [push, Stack.push, Stack.STACK_LIMIT]
    have hst : (charge (adv s) GasCalc.BASE).stack = s.stack := rfl
    rw [hst]
    by_cases hl : s.stack.length = 1024
    · simp only [hl, if_true, Exec.toDone, stackErr]
    · simp only [hl, if_false, Exec.toDone]

/-- every environment read of the table (CODESIZE: in legacy code) -/
theorem step_env_agrees (e : EnvEntry) (he : e ∈ envTable) (s : IState) (hcode : s.code[s.pc]? = some e.op)
    (hwf : WF s) (hleg : e.op = 0x38 → s.isEof = false) : step s = .pure (e.rule s) := by
  have hg := hwf.gas
  simp only [envTable, List.mem_cons, List.not_mem_nil, or_false] at he
  rcases he with rfl | rfl | rfl | rfl | rfl | rfl | rfl | rfl | rfl | rfl | rfl | rfl | rfl | rfl | rfl | rfl | rfl
    | rfl <;> first | exact step_pushVal s _ _ _ _ hcode rfl hg | exact step_codesize s hcode hg (hleg rfl)

set_option maxRecDepth 8000 in
theorem decode_dup (n : Fin 16) : decode (0x80 + n.val) = .dup n := by
  rcases n with ⟨k, hk⟩
  repeat (first | (cases k with | zero => rfl | succ k => ?_) | omega)

set_option maxRecDepth 8000 in
theorem decode_swap (n : Fin 16) : decode (0x90 + n.val) = .swap n := by
  rcases n with ⟨k, hk⟩
  repeat (first | (cases k with | zero => rfl | succ k => ?_) | omega)

set_option maxRecDepth 8000 in
theorem decode_push (n : Fin 32) : decode (0x60 + n.val) = .push n := by
  rcases n with ⟨k, hk⟩
  repeat (first | (cases k with | zero => rfl | succ k => ?_) | omega)

/-! ## EXP -/

theorem expI_eq (s : IState) (hwf : s.gas.remaining < U64) (hw : ∀ w ∈ s.stack, w < W) :
    (expI s).toDone =
      (match s.stack.reverse with
       | a :: b :: rest =>
         let c := Spec.Arith.expCost (enabled s.spec GasCalc.SpecId.SPURIOUS_DRAGON) b
         if s.gas.remaining < c then Done.halt .OutOfGas [] { s with stack := (b :: rest).reverse }
         else .next { charge s c with stack := (Spec.Arith.exp a b :: rest).reverse }
       | _ => .halt .StackUnderflow [] s) := by
  unfold expI
  rcases hrev : s.stack.reverse with _ | ⟨a, _ | ⟨b, rest⟩⟩
  · have : s.stack.length < 2 := by rw [← List.length_reverse, hrev]; decide
    rw [bind_halt _ _ _ _ _ _ (popTop2_underflow s this)]; rfl
  · have : s.stack.length < 2 := by rw [← List.length_reverse, hrev]; simp
    rw [bind_halt _ _ _ _ _ _ (popTop2_underflow s this)]; rfl
  · have hs : s.stack = rest.reverse ++ [b, a] := by
      have := congrArg List.reverse hrev; simpa using this
    have hb : b < W := hw b (by rw [hs]; simp)
    rw [bind_ok _ _ _ _ _ (popTop2_ok s _ a b hs)]
    simp only []
    have hget : getS ({ s with stack := rest.reverse ++ [b] } : IState) = .ok _ _ := rfl
    rw [bind_ok _ _ _ _ _ hget]
    have hcost : GasCalc.expCost s.spec b =
        some (Spec.Arith.expCost (enabled s.spec GasCalc.SpecId.SPURIOUS_DRAGON) b) := by
      unfold GasCalc.expCost; exact Props.C03.expCost_eq _ b hb
    simp only [hcost, gasOrFail]
    generalize Spec.Arith.expCost (enabled s.spec GasCalc.SpecId.SPURIOUS_DRAGON) b = c
    by_cases hg : s.gas.remaining < c
    · have := gasCharge_fail ({ s with stack := rest.reverse ++ [b] } : IState) c hg
      rw [bind_halt _ _ _ _ _ _ this]
      simp only [hg, if_true, Exec.toDone, List.reverse_cons]
    · have := gasCharge_ok ({ s with stack := rest.reverse ++ [b] } : IState) c hwf (by show c ≤ s.gas.remaining; omega)
      rw [bind_ok _ _ _ _ _ this]
      have hst := setTop_ok
        ({ s with stack := rest.reverse ++ [b], gas := { s.gas with remaining := s.gas.remaining - c } } : IState)
        rest.reverse b (Arith.exp a b) rfl
      have hsame : ({ ({ s with stack := rest.reverse ++ [b] } : IState) with
          gas := { s.gas with remaining := s.gas.remaining - c } } : IState) =
          { s with stack := rest.reverse ++ [b], gas := { s.gas with remaining := s.gas.remaining - c } } := rfl
      rw [hsame, hst]
      simp only [Exec.toDone, hg, if_false, Props.C03.exp_eq a b hb, List.reverse_cons, charge]

theorem step_exp (s : IState) (hcode : s.code[s.pc]? = some 0x0a) (hwf : WF s) :
    step s = .pure (expRule s) := by
  unfold step
  rw [hcode]
  have hdec : decode 0x0a = .exp := rfl
  simp only [hdec, execInstr, execPure]
  show Outcome.pure (expI (adv s)).toDone = _
  rw [expI_eq (adv s) hwf.gas hwf.words]
  rfl

end Revm.Proofs.EvmStep
