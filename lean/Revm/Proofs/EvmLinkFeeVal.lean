import Revm.Proofs.EvmLinkCor
/-! LINK: the validation that guards the fee arithmetic of C09 (`TxGas.validateEnv`, `TxGas.validateAgainstState`, a
subset of the checks) is implied by the validation `Evm.preverify` performs. -/
set_option linter.unusedSimpArgs false
namespace Revm.Proofs.EvmLink
open Revm Revm.Model Revm.Model.Evm
open Revm.Model.GasCalc (enabled)
open Revm.Proofs.TxValidate (andThen_eq_ok)

/-- the shape of the transaction as the fee validation of C09 reads it. `dataLen := 0`: the EIP-3860 rule of
`TxGas.validateEnv` uses the fixed default limit, `Evm.validateEnv` the configurable one; the rule plays no role in the
fee theorems, so the shape switches it off. -/
def feeShape (e : Evm.Env) : TxGas.TxShape :=
  { isCreate := e.tx.to.isNone, dataLen := 0, accessList := e.tx.accessList.map (·.keys.length),
    authLen := e.tx.authList.map List.length }

theorem txgas_balanceCheck_eq (e : Evm.Env) (spec : Nat) :
    TxGas.balanceCheck (gasEnv e spec) = TxValidate.balanceCheck spec (tvTx e) := by
  unfold TxGas.balanceCheck TxValidate.balanceCheck
  rw [← calcMaxDataFee_eq, maxDataFee_eq]
  rfl

/-- an accepting `Evm.validateAgainstState` implies the balance validation of C09 -/
theorem txgas_validateAgainstState_of_evm (e : Evm.Env) (spec : Nat) (code : List Nat) (info : Journal.Info)
    (h : Evm.validateAgainstState e spec code info = true) :
    TxGas.validateAgainstState (gasEnv e spec) info.balance = none := by
  rw [validateAgainstState_link] at h
  unfold TxGas.validateAgainstState
  rw [txgas_balanceCheck_eq]
  unfold TxValidate.validateTxAgainstState at h
  split at h
  · cases h
  · have h2 : ((TxValidate.nonceCheck (tvTx e) (senderOf code info)).andThen
        (match TxValidate.balanceCheck spec (tvTx e) with
          | none => .err .OverflowPaymentInTransaction
          | some bc => if bc > (senderOf code info).balance then .err .LackOfFundForMaxFee else .ok)) = .ok := by
      generalize (TxValidate.nonceCheck (tvTx e) (senderOf code info)).andThen _ = r at h
      cases r <;> first | rfl | cases h
    obtain ⟨_, hb⟩ := (andThen_eq_ok _ _).1 h2
    cases hbc : TxValidate.balanceCheck spec (tvTx e) with
    | none => rw [hbc] at hb; cases hb
    | some bc =>
      rw [hbc] at hb
      simp only at hb ⊢
      have hbal : (senderOf code info).balance = info.balance := rfl
      rw [hbal] at hb
      split at hb
      · cases hb
      · rename_i hle; rw [if_neg hle]

theorem ite_err_ok {c : Prop} [Decidable c] {x : TxValidate.Err} {r : TxValidate.Res}
    (h : (if c then TxValidate.Res.err x else r) = .ok) : ¬ c ∧ r = .ok := by
  split at h
  · cases h
  · exact ⟨‹_›, h⟩

/-- `TxGas.validateEnv` accepts when none of its conditions holds -/
theorem txgas_validateEnv_none (g : TxGas.Env) (t : TxGas.TxShape)
    (h1 : (enabled g.spec GasCalc.SpecId.CANCUN && g.blobPrice.isNone) = false)
    (h2 : (!enabled g.spec GasCalc.SpecId.BERLIN && !t.accessList.isEmpty) = false)
    (h3 : ∀ p, g.priorityFee = some p → enabled g.spec GasCalc.SpecId.LONDON = true → ¬ p > g.gasPrice)
    (h4 : (enabled g.spec GasCalc.SpecId.LONDON && decide (TxGas.effectiveGasPrice g < g.basefee)) = false)
    (h5 : (enabled g.spec GasCalc.SpecId.SHANGHAI && t.isCreate && decide (t.dataLen > TxGas.MAX_INITCODE_SIZE)) = false)
    (h6 : (!enabled g.spec GasCalc.SpecId.CANCUN && (g.maxFeePerBlobGas.isSome || decide (g.nBlobs ≠ 0))) = false)
    (h7a : ∀ m, g.maxFeePerBlobGas = some m → ∃ price, g.blobPrice = some price ∧ ¬ price > m ∧ g.nBlobs ≠ 0 ∧
      t.isCreate = false ∧
      (enabled g.spec GasCalc.SpecId.CANCUN &&
        decide (g.nBlobs > (if enabled g.spec GasCalc.SpecId.PRAGUE then 9 else 6))) = false)
    (h7b : g.maxFeePerBlobGas = none → g.nBlobs = 0)
    (h8 : (!enabled g.spec GasCalc.SpecId.PRAGUE && t.authLen.isSome) = false)
    (h9 : ∀ n, t.authLen = some n → n ≠ 0 ∧ (g.maxFeePerBlobGas.isSome || decide (g.nBlobs ≠ 0)) = false ∧
      t.isCreate = false) :
    TxGas.validateEnv g t = none := by
  unfold TxGas.validateEnv
  simp only [h1, h2, h4, h5, h6, h8, Bool.false_eq_true, if_false]
  cases hp : g.priorityFee with
  | none =>
    simp only [Bool.and_false, Bool.false_eq_true, if_false]
    cases hm : g.maxFeePerBlobGas with
    | none =>
      have hz := h7b hm
      simp only [hz, ne_eq, not_true_eq_false, if_false]
      cases ha : t.authLen with
      | none => rfl
      | some n =>
        obtain ⟨a1, a2, a3⟩ := h9 n ha
        rw [hm] at a2
        simp [a1, a2, a3] at *
    | some m =>
      obtain ⟨price, b1, b2, b3, b4, b5⟩ := h7a m hm
      simp only [b1, b2, b3, b4, b5, if_false, Bool.false_eq_true]
      cases ha : t.authLen with
      | none => rfl
      | some n =>
        obtain ⟨a1, a2, a3⟩ := h9 n ha
        rw [hm] at a2
        simp [a1, a2, a3] at *
  | some p =>
    have hnp : (enabled g.spec GasCalc.SpecId.LONDON && decide (p > g.gasPrice)) = false := by
      cases hL : enabled g.spec GasCalc.SpecId.LONDON
      · rfl
      · simpa using h3 p hp hL
    simp only [hnp, Bool.false_eq_true, if_false]
    cases hm : g.maxFeePerBlobGas with
    | none =>
      have hz := h7b hm
      simp only [hz, ne_eq, not_true_eq_false, if_false]
      cases ha : t.authLen with
      | none => rfl
      | some n =>
        obtain ⟨a1, a2, a3⟩ := h9 n ha
        rw [hm] at a2
        simp [a1, a2, a3] at *
    | some m =>
      obtain ⟨price, b1, b2, b3, b4, b5⟩ := h7a m hm
      simp only [b1, b2, b3, b4, b5, if_false, Bool.false_eq_true]
      cases ha : t.authLen with
      | none => rfl
      | some n =>
        obtain ⟨a1, a2, a3⟩ := h9 n ha
        rw [hm] at a2
        simp [a1, a2, a3] at *

/-- an accepting `Evm.validateEnv` implies the fee-guarding validation of C09 -/
theorem txgas_validateEnv_of_evm (e : Evm.Env) (spec : Nat) (h : Evm.validateEnv e spec = .ok true) :
    TxGas.validateEnv (gasEnv e spec) (feeShape e) = none := by
  rw [validateEnv_link] at h
  have hv : TxValidate.validateEnv spec (tvCfg e) (tvBlock e) (tvTx e) = .ok := by
    generalize TxValidate.validateEnv spec (tvCfg e) (tvBlock e) (tvTx e) = r at h
    cases r <;> first | rfl | (simp [resToR] at h)
  unfold TxValidate.validateEnv at hv
  obtain ⟨hblk, htx⟩ := (andThen_eq_ok _ _).1 hv
  unfold TxValidate.validateBlockEnv at hblk
  obtain ⟨_, hblk⟩ := ite_err_ok hblk
  obtain ⟨hb2, _⟩ := ite_err_ok hblk
  unfold TxValidate.validateTx at htx
  obtain ⟨_, htx⟩ := ite_err_ok htx
  obtain ⟨_, htx⟩ := ite_err_ok htx
  obtain ⟨hacc, htx⟩ := ite_err_ok htx
  obtain ⟨hfee, htx⟩ := (andThen_eq_ok _ _).1 htx
  obtain ⟨_, htx⟩ := (andThen_eq_ok _ _).1 htx
  obtain ⟨hblob, hauth⟩ := (andThen_eq_ok _ _).1 htx
  apply txgas_validateEnv_none
  · show (enabled spec GasCalc.SpecId.CANCUN && e.block.blobGasPrice.isNone) = false
    have hb2' : ¬ (enabled spec GasCalc.SpecId.CANCUN && e.block.blobGasPrice.isNone) = true := hb2
    cases hx : (enabled spec GasCalc.SpecId.CANCUN && e.block.blobGasPrice.isNone)
    · rfl
    · exact absurd hx hb2'
  · show (!enabled spec GasCalc.SpecId.BERLIN && !(e.tx.accessList.map (·.keys.length)).isEmpty) = false
    simpa [tvTx] using hacc
  · intro p hp hL
    change e.tx.priorityFee = some p at hp
    change enabled spec GasCalc.SpecId.LONDON = true at hL
    show ¬ p > e.tx.gasPrice
    unfold TxValidate.feeChecks at hfee
    rw [hL] at hfee
    simp only [if_true] at hfee
    obtain ⟨h1, _⟩ := ite_err_ok hfee
    simpa [tvTx, hp] using h1
  · show (enabled spec GasCalc.SpecId.LONDON && decide (e.effectiveGasPrice < e.block.basefee)) = false
    unfold TxValidate.feeChecks at hfee
    cases hL : enabled spec GasCalc.SpecId.LONDON
    · rfl
    · rw [hL] at hfee
      simp only [if_true] at hfee
      obtain ⟨_, hfee⟩ := ite_err_ok hfee
      obtain ⟨h2, _⟩ := ite_err_ok hfee
      have h2' : ¬ e.effectiveGasPrice < e.block.basefee := h2
      simpa using h2'
  · show (enabled spec GasCalc.SpecId.SHANGHAI && e.tx.to.isNone && decide (0 > TxGas.MAX_INITCODE_SIZE)) = false
    simp
  · show (!enabled spec GasCalc.SpecId.CANCUN &&
        (e.tx.maxFeePerBlobGas.isSome || decide (e.tx.blobHashes.length ≠ 0))) = false
    unfold TxValidate.blobChecks at hblob
    obtain ⟨h6, _⟩ := ite_err_ok hblob
    have : (e.tx.blobHashes.map (fun h => h / 2 ^ 248)).isEmpty = e.tx.blobHashes.isEmpty := List.isEmpty_map
    cases hbe : e.tx.blobHashes with
    | nil => simpa [tvTx, hbe] using h6
    | cons x xs => simpa [tvTx, hbe] using h6
  · intro m hm
    change e.tx.maxFeePerBlobGas = some m at hm
    unfold TxValidate.blobChecks at hblob
    obtain ⟨_, hblob⟩ := ite_err_ok hblob
    have hm' : (tvTx e).maxFeePerBlobGas = some m := hm
    rw [hm'] at hblob
    simp only at hblob
    cases hpr : e.block.blobGasPrice with
    | none =>
      have : (tvBlock e).blobGasPrice = none := hpr
      rw [this] at hblob; cases hblob
    | some price =>
      have : (tvBlock e).blobGasPrice = some price := hpr
      rw [this] at hblob
      simp only at hblob
      obtain ⟨b1, hblob⟩ := ite_err_ok hblob
      obtain ⟨b2, hblob⟩ := ite_err_ok hblob
      obtain ⟨b3, hblob⟩ := ite_err_ok hblob
      obtain ⟨_, hblob⟩ := ite_err_ok hblob
      obtain ⟨b5, _⟩ := ite_err_ok hblob
      refine ⟨price, hpr, b1, ?_, ?_, ?_⟩
      · show e.tx.blobHashes.length ≠ 0
        intro hz
        apply b2
        simp only [tvTx, List.isEmpty_map]
        exact List.isEmpty_iff.2 (List.length_eq_zero_iff.1 hz)
      · show e.tx.to.isNone = false
        have b3' : ¬ e.tx.to.isNone = true := b3
        cases hx : e.tx.to.isNone
        · rfl
        · exact absurd hx b3'
      · show (enabled spec GasCalc.SpecId.CANCUN &&
            decide (e.tx.blobHashes.length > (if enabled spec GasCalc.SpecId.PRAGUE then 9 else 6))) = false
        rw [blobMaxCount_eq] at b5
        have hlen : (tvTx e).blobHashes.length = e.tx.blobHashes.length := by simp [tvTx]
        rw [hlen] at b5
        have hmc : Evm.blobMaxCount spec = (if enabled spec GasCalc.SpecId.PRAGUE then 9 else 6) := by
          unfold Evm.blobMaxCount GasCalc.enabled
          by_cases hp : spec ≥ GasCalc.SpecId.PRAGUE
          · simp [hp]
          · by_cases hc : spec ≥ GasCalc.SpecId.CANCUN <;> simp [hp, hc]
        rw [hmc] at b5
        simpa using b5
  · intro hm
    change e.tx.maxFeePerBlobGas = none at hm
    show e.tx.blobHashes.length = 0
    unfold TxValidate.blobChecks at hblob
    obtain ⟨_, hblob⟩ := ite_err_ok hblob
    have hm' : (tvTx e).maxFeePerBlobGas = none := hm
    rw [hm'] at hblob
    simp only at hblob
    obtain ⟨b1, _⟩ := ite_err_ok hblob
    have : (tvTx e).blobHashes.isEmpty = true := by simpa using b1
    simp only [tvTx, List.isEmpty_map] at this
    exact List.length_eq_zero_iff.2 (List.isEmpty_iff.1 this)
  · show (!enabled spec GasCalc.SpecId.PRAGUE && (e.tx.authList.map List.length).isSome) = false
    unfold TxValidate.authChecks at hauth
    obtain ⟨h8, _⟩ := ite_err_ok hauth
    simpa [tvTx] using h8
  · intro n hn
    change e.tx.authList.map List.length = some n at hn
    unfold TxValidate.authChecks at hauth
    obtain ⟨_, hauth⟩ := ite_err_ok hauth
    have hn' : (tvTx e).authList = some n := hn
    rw [hn'] at hauth
    simp only at hauth
    obtain ⟨a1, hauth⟩ := ite_err_ok hauth
    obtain ⟨a2, hauth⟩ := ite_err_ok hauth
    obtain ⟨a3, _⟩ := ite_err_ok hauth
    have a3' : ¬ e.tx.to.isNone = true := a3
    have a3'' : (feeShape e).isCreate = false := by
      show e.tx.to.isNone = false
      cases hx : e.tx.to.isNone
      · rfl
      · exact absurd hx a3'
    refine ⟨a1, ?_, a3''⟩
    show (e.tx.maxFeePerBlobGas.isSome || decide (e.tx.blobHashes.length ≠ 0)) = false
    cases hbe : e.tx.blobHashes with
    | nil => simpa [tvTx, hbe] using a2
    | cons x xs => simp [tvTx, hbe] at a2

end Revm.Proofs.EvmLink
