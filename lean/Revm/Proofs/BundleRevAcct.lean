import Revm.Proofs.BundleInvMerge
/-! C17, second sentence, per account: what `BundleAccount::revert` does with the `AccountRevert` recorded by
`update_and_create_revert`, when applied to a bundle account that describes the state after the merge group
(possibly itself the result of earlier reverts). Core Lean only.

`OKAcc b' P M` = "`to_plain_state` of `b'` turns the pre-bundle (info, slots) `P` into `M`" (info, original
info, `StorageInv`); `RInv b'? b?` relates the reverted bundle entry `b'?` of an address to the entry `b?` the
forward-built bundle had at that time. -/
namespace Revm.Proofs.Bundle
open Revm.Model.Bundle Revm.Spec.Bundle

set_option linter.unusedSimpArgs false
set_option linter.unusedVariables false
set_option linter.unusedSectionVars false

/-! ## the storage loop of `BundleAccount::revert` as lookups -/

def rvStep (acc : BMap Slot) (e : Nat × RevSlot) : BMap Slot :=
  match e.2 with
  | .some v => (match acc.get e.1 with
      | none => acc.set e.1 ⟨v, v⟩
      | some s => acc.set e.1 { s with present := v })
  | .destroyed => acc.del e.1

def rvF (x : RevSlot) (o : Option Slot) : Option Slot :=
  match x with
  | .some v => some (match o with | none => ⟨v, v⟩ | some s => { s with present := v })
  | .destroyed => none

theorem rvStep_get (acc : BMap Slot) (e : Nat × RevSlot) (k : Nat) :
    (rvStep acc e).get k = if e.1 = k then rvF e.2 (acc.get k) else acc.get k := by
  obtain ⟨a, x⟩ := e
  cases x with
  | some v =>
    simp only [rvStep, rvF]
    by_cases hk : a = k
    · subst hk; cases acc.get a <;> simp [get_set]
    · cases acc.get a <;> simp [get_set, hk]
  | destroyed => simp only [rvStep, rvF, get_del]

theorem rvStep_WF (acc : BMap Slot) (e : Nat × RevSlot) (hw : WF acc) : WF (rvStep acc e) := by
  obtain ⟨a, x⟩ := e
  cases x with
  | some v => simp only [rvStep]; cases acc.get a <;> exact WF_set _ _ _ hw
  | destroyed => exact WF_del _ _ hw

def revStorage (rs : BMap RevSlot) (st : BMap Slot) : BMap Slot := rs.foldl rvStep st

theorem revStorage_get (rs : BMap RevSlot) (hw : WF rs) (st : BMap Slot) (k : Nat) :
    (revStorage rs st).get k = (rs.get k).elim (st.get k) (fun x => rvF x (st.get k)) :=
  foldl_get rvStep_get rs hw st k

theorem revStorage_WF (rs : BMap RevSlot) (st : BMap Slot) (hw : WF st) : WF (revStorage rs st) :=
  foldl_WF rvStep_WF rs st hw

def zeroed (st : BMap Slot) : BMap Slot := st.map (fun e => (e.1, { e.2 with present := 0 }))

/-- `BundleAccount::revert` in closed form -/
theorem revert_eq (b : BAcct) (r : ARevert) : b.revert r =
    match r.account with
    | .doNothing => (⟨b.info, b.origInfo, revStorage r.storage b.storage, r.prevStatus⟩, false)
    | .deleteIt => if b.origInfo.isNone then (⟨none, b.origInfo, [], r.prevStatus⟩, true)
        else (⟨none, b.origInfo, zeroed b.storage, r.prevStatus⟩, false)
    | .revertTo i => (⟨some i, b.origInfo, revStorage r.storage b.storage, r.prevStatus⟩, false) := by
  unfold BAcct.revert
  cases r.account <;> rfl

/-- the status of the account a revert is applied to is irrelevant -/
theorem revert_status (b : BAcct) (s : Status) (r : ARevert) :
    (⟨b.info, b.origInfo, b.storage, s⟩ : BAcct).revert r = b.revert r := by
  rw [revert_eq, revert_eq]

def keysSub (a b : BMap Slot) : Prop := ∀ k, (a.get k).isSome = true → (b.get k).isSome = true

theorem keysSub_nil (b : BMap Slot) : keysSub [] b := fun k h => by simp [BMap.get] at h

theorem keysSub_trans {a b c : BMap Slot} (h1 : keysSub a b) (h2 : keysSub b c) : keysSub a c :=
  fun k h => h2 k (h1 k h)

/-- destroyed family: listed slots get their recorded value, `Destroyed` markers are removed, the rest stays -/
theorem revStorage_d (rs : BMap RevSlot) (st : BMap Slot) (Ps Ms Rs : Nat → Nat) (hw : WF rs) (hd : DRel st Rs)
    (hv : ∀ k, revSlotV true rs false Ps Rs k = Ms k) : DRel (revStorage rs st) Ms := by
  refine ⟨revStorage_WF rs st hd.1, fun k => ?_⟩
  rw [revStorage_get rs hw]
  have h := hv k
  unfold revSlotV at h
  cases hg : rs.get k with
  | none =>
    rw [hg] at h
    simp only [Bool.false_eq_true, if_false] at h
    simp only [Option.elim]
    cases hs : st.get k with
    | none => simp only; rw [← h]; exact hd.get_none hs
    | some s => simp only; rw [← h]; exact hd.get_some hs
  | some x =>
    rw [hg] at h
    cases x with
    | some v =>
      simp only at h
      simp only [Option.elim, rvF]
      cases st.get k <;> exact h
    | destroyed =>
      simp only [Bool.and_false, Bool.false_eq_true, if_false] at h
      simp only [Option.elim, rvF]
      exact h.symm

/-- non-destroyed family: every listed slot is a `Some` of a key the account already holds -/
theorem revStorage_nd (rs : BMap RevSlot) (st : BMap Slot) (Ps Ms Rs : Nat → Nat) (hw : WF rs) (hs : SlotsRel st Ps Rs)
    (hv : ∀ k, revSlotV true rs false Ps Rs k = Ms k)
    (hsh : ∀ k x, rs.get k = some x → (∃ v, x = RevSlot.some v) ∧ (st.get k).isSome = true) :
    SlotsRel (revStorage rs st) Ps Ms ∧ keysSub st (revStorage rs st) := by
  refine ⟨⟨revStorage_WF rs st hs.1, fun k => ?_⟩, fun k hk => ?_⟩
  · rw [revStorage_get rs hw]
    have h := hv k
    unfold revSlotV at h
    cases hg : rs.get k with
    | none =>
      rw [hg] at h
      simp only [Bool.false_eq_true, if_false] at h
      simp only [Option.elim]
      cases hst : st.get k with
      | none => simp only; rw [← h]; exact hs.get_none hst
      | some s => simp only; rw [← h]; exact hs.get_some hst
    | some x =>
      obtain ⟨⟨v, hx⟩, hsome⟩ := hsh k x hg
      subst hx
      rw [hg] at h
      simp only at h
      cases hst : st.get k with
      | none => rw [hst] at hsome; cases hsome
      | some s =>
        simp only [Option.elim, rvF]
        exact ⟨h, (hs.get_some hst).2⟩
  · rw [revStorage_get rs hw]
    cases hg : rs.get k with
    | none => simpa [Option.elim] using hk
    | some x =>
      obtain ⟨⟨v, hx⟩, _⟩ := hsh k x hg
      subst hx
      simp [Option.elim, rvF]

theorem zeroed_d (st : BMap Slot) (hw : WF st) (Ms : Nat → Nat) (hz : ∀ k, Ms k = 0) : DRel (zeroed st) Ms := by
  refine ⟨WF_map_val st _ hw, fun k => ?_⟩
  unfold zeroed
  rw [get_map_val st (fun e => ({ e.2 with present := 0 } : Slot)) k]
  cases st.get k with
  | none => exact hz k
  | some s => simp only [Option.map]; exact (hz k).symm

/-! ## accounts that describe a plain state -/

/-- `to_plain_state` of `b` turns the pre-bundle (info, slots) `P` into `M` (what `BundleOK` asks per address) -/
structure OKAcc (b : BAcct) (Pi : Option Info) (Ps : Nat → Nat) (Mi : Option Info) (Ms : Nat → Nat) : Prop where
  info : b.info.map wc = Mi
  orig : b.origInfo.map wc = Pi
  stor : StorageInv b Ps Ms

theorem OKAcc.congr {b : BAcct} {Pi : Option Info} {Ps : Nat → Nat} {Mi Ri : Option Info} {Ms Rs : Nat → Nat}
    (h : OKAcc b Pi Ps Ri Rs) (hi : Mi = Ri) (hs : ∀ k, Ms k = Rs k) : OKAcc b Pi Ps Mi Ms := by
  have : Ms = Rs := funext hs
  subst hi; subst this; exact h

/-- reverted entry `b'?` of an address vs. the entry `b?` of the forward-built bundle at that time; `P` =
pre-bundle, `M` = reference (info, slots) at that time -/
def RInv (b'? b? : Option BAcct) (Pi : Option Info) (Ps : Nat → Nat) (Mi : Option Info) (Ms : Nat → Nat) : Prop :=
  match b'?, b? with
  | none, none => Mi = Pi ∧ ∀ k, Ms k = Ps k
  | none, some b => b.status.wasDestroyed = true ∧ Pi = none ∧ Mi = none ∧ (∀ k, Ms k = 0) ∧ (∀ k, Ps k = 0)
  | some b', none => OKAcc b' Pi Ps Mi Ms
  | some b', some b => OKAcc b' Pi Ps Mi Ms ∧ b'.status.wasDestroyed = b.status.wasDestroyed ∧
      (b.status.wasDestroyed = false → keysSub b.storage b'.storage)

/-- storage of `BundleAccount::revert` (`DoNothing` / `RevertTo`) for a non-wiping revert -/
theorem stor_after (b' : BAcct) (r : ARevert) (i : Option Info) (Ps Ms Rs : Nat → Nat) (ms : Status)
    (hps : r.prevStatus = ms) (hw : WF r.storage) (hst : StorageInv b' Ps Rs)
    (hfam : b'.status.wasDestroyed = ms.wasDestroyed)
    (hv : ∀ k, revSlotV true r.storage false Ps Rs k = Ms k)
    (hsh : ms.wasDestroyed = false → ∀ k x, r.storage.get k = some x →
      (∃ v, x = RevSlot.some v) ∧ (b'.storage.get k).isSome = true) :
    StorageInv ⟨i, b'.origInfo, revStorage r.storage b'.storage, r.prevStatus⟩ Ps Ms ∧
    (ms.wasDestroyed = false → keysSub b'.storage (revStorage r.storage b'.storage)) := by
  subst hps
  cases hwd : r.prevStatus.wasDestroyed with
  | false =>
    have h1 := (storageInv_nd b' Ps Rs (by rw [hfam, hwd])).mp hst
    have h2 := revStorage_nd r.storage b'.storage Ps Ms Rs hw h1 hv (hsh hwd)
    exact ⟨(storageInv_nd ⟨i, b'.origInfo, revStorage r.storage b'.storage, r.prevStatus⟩ Ps Ms hwd).mpr h2.1,
      fun _ => h2.2⟩
  | true =>
    have h1 := (storageInv_d b' Ps Rs (by rw [hfam, hwd])).mp hst
    exact ⟨(storageInv_d ⟨i, b'.origInfo, revStorage r.storage b'.storage, r.prevStatus⟩ Ps Ms hwd).mpr
      (revStorage_d _ _ Ps Ms Rs hw h1 hv), fun h => by cases h⟩

/-- a non-wiping revert that satisfies the plain-state reading `RevSem`, applied to an account that describes
the state after the group, gives an account that describes the state before the group — or removes the account,
and then the address did not exist before the bundle nor before the group -/
theorem revert_okacc (r : ARevert) (ms : Status) (Pi : Option Info) (Ps : Nat → Nat) (Mi : Option Info)
    (Ms : Nat → Nat) (Ri : Option Info) (Rs : Nat → Nat)
    (hsem : RevSem (some r) ms Ps Mi Ms Ri Rs) (hm : Facts ms Mi Ms) (b' : BAcct) (hOK : OKAcc b' Pi Ps Ri Rs)
    (hnw : r.wipe = false)
    (hfam : r.account ≠ .deleteIt → b'.status.wasDestroyed = ms.wasDestroyed)
    (hsh : r.account ≠ .deleteIt → ms.wasDestroyed = false → ∀ k x, r.storage.get k = some x →
      (∃ v, x = RevSlot.some v) ∧ (b'.storage.get k).isSome = true)
    (hdel : r.account = .deleteIt → ms.wasDestroyed = false → Pi = none) :
    ((b'.revert r).2 = true → Pi = none ∧ Mi = none) ∧
    ((b'.revert r).2 = false → OKAcc (b'.revert r).1 Pi Ps Mi Ms ∧ (b'.revert r).1.status = ms ∧
      (ms.wasDestroyed = false → keysSub b'.storage (b'.revert r).1.storage)) := by
  obtain ⟨hps, hwr, hio, hsl, _⟩ := hsem
  rw [hnw] at hsl
  rw [revert_eq]
  cases hra : r.account with
  | doNothing =>
    rw [hra] at hio
    simp only [revInfoOK] at hio
    obtain ⟨s1, s2⟩ := stor_after b' r b'.info Ps Ms Rs ms hps hwr hOK.stor (hfam (by rw [hra]; simp)) hsl
      (hsh (by rw [hra]; simp))
    simp only
    exact ⟨fun h => (by cases h), fun _ => ⟨⟨by rw [hio]; exact hOK.info, hOK.orig, s1⟩, hps, s2⟩⟩
  | revertTo i =>
    rw [hra] at hio
    simp only [revInfoOK] at hio
    obtain ⟨s1, s2⟩ := stor_after b' r (some i) Ps Ms Rs ms hps hwr hOK.stor (hfam (by rw [hra]; simp)) hsl
      (hsh (by rw [hra]; simp))
    simp only
    exact ⟨fun h => (by cases h), fun _ => ⟨⟨by rw [hio]; rfl, hOK.orig, s1⟩, hps, s2⟩⟩
  | deleteIt =>
    rw [hra] at hio
    simp only [revInfoOK] at hio
    simp only
    cases hon : b'.origInfo with
    | none =>
      simp only [Option.isNone, if_true]
      refine ⟨fun _ => ⟨?_, hio⟩, fun h => by cases h⟩
      rw [← hOK.orig, hon]; rfl
    | some o =>
      simp only [Option.isNone, Bool.false_eq_true, if_false]
      refine ⟨fun h => (by cases h), fun _ => ?_⟩
      have hMz := hm.none_zero hio
      cases hwd : ms.wasDestroyed with
      | false =>
        have := hdel hra hwd
        rw [← hOK.orig, hon] at this
        cases this
      | true =>
        refine ⟨⟨by rw [hio]; rfl, by rw [← hOK.orig, hon], ?_⟩, hps, fun h => by cases h⟩
        exact (storageInv_d ⟨none, some o, zeroed b'.storage, r.prevStatus⟩ Ps Ms (by rw [hps]; exact hwd)).mpr
          (zeroed_d _ hOK.stor.1 Ms hMz)

end Revm.Proofs.Bundle
