import Revm.Proofs.AccessSets
/-! C34: the simulation invariant between the journal model and the access-set machine, and its
preservation by every step of an admissible well-nested history. -/
namespace Revm.Proofs.Access
open Revm Revm.Model.Journal Revm.Spec.JournalAbs Revm.Proofs.Journal Revm.Spec.AccessHistory
open Revm.Spec.AccessSets (Access Sets State)
set_option linter.unusedSimpArgs false
set_option linter.unusedVariables false

/-- the warm component of an observable state, as sets -/
def setsOf (x : AState) : Sets := { addrs := x.warm, slots := fun a k => (x.slot a k).warm }

theorem warmSets_eq (db : Db) (s : JState) : warmSets db s = setsOf (absT db s) := rfl

/-- the simulation invariant: the model's warm component is the current access sets; for every open
checkpoint the C06 invariant holds and the copy saved by the set machine is the warm component of the
checkpointed state; the pre-warmed set is contained in the current sets and in every live copy -/
structure Sim (db : Db) (l : Lock) : Prop where
  rel : SetsEq (warmSets db l.r.js) l.st.cur
  bal : BalOk (absT db l.r.js)
  len : l.st.snaps.length = l.r.cps.length
  lt : ∀ i, i ∈ l.open_ → i < l.r.cps.length
  sorted : l.open_.Pairwise (· < ·)
  preCur : SetsLe l.st.pre l.st.cur
  inv : ∀ i, i ∈ l.open_ → ∃ cp snap x0 logs0 spec0 pre0, l.r.cps[i]? = some cp ∧ l.st.snaps[i]? = some snap ∧
      Inv db cp.journalI cp.logI x0 logs0 spec0 pre0 (i + 1) l.r ∧ SetsEq (setsOf x0) snap ∧ SetsLe l.st.pre snap

theorem admissible_base (db : Db) (hasStorage : Addr → Bool) (b b' : Nat) (r : Run) (op : Op)
    (h : ∀ i, op ≠ .revert i) : admissible db hasStorage b r op = admissible db hasStorage b' r op := by
  cases op <;> first | rfl | exact absurd rfl (h _)

theorem addAll_le (s : Sets) (xs : List Access) : SetsLe s (s.addAll xs) :=
  ⟨fun a h => by rw [addAll_addrs, h]; rfl, fun a k h => by rw [addAll_slots, h]; rfl⟩

/-- an operation that hands out no checkpoint, closes none, and whose forward warm effect is the accesses `xs` -/
theorem sim_ordinary {db : Db} {hasStorage : Addr → Bool} (hdb : DbOk db hasStorage) {l : Lock} {r' : Run}
    {op : Op} {xs : List Access} (h : Sim db l)
    (hstep : step db l.r op = some r') (hcps : r'.cps = l.r.cps)
    (hnr : ∀ i, op ≠ .revert i) (hadm : admissible db hasStorage 0 l.r op = true)
    (hw : Warms db l.r.js r'.js (aAddrs xs) (aSlots xs)) (hbal : BalOk (absT db r'.js)) :
    Sim db { r := r', st := (Spec.AccessSets.accessAll l.st xs).1, open_ := l.open_ } := by
  obtain ⟨c1, c2, c3⟩ := accessAll_cur xs l.st
  have hsets := Warms.sets hw
  refine ⟨?_, hbal, ?_, ?_, h.sorted, ?_, ?_⟩
  · show SetsEq (warmSets db r'.js) (Spec.AccessSets.accessAll l.st xs).1.cur
    rw [c1]
    refine SetsEq.trans hsets ⟨fun a => ?_, fun a k => ?_⟩
    · rw [addAll_addrs, addAll_addrs, h.rel.1 a]
    · rw [addAll_slots, addAll_slots, h.rel.2 a k]
  · show (Spec.AccessSets.accessAll l.st xs).1.snaps.length = r'.cps.length
    rw [c2, hcps]; exact h.len
  · intro i hi; show i < r'.cps.length; rw [hcps]; exact h.lt i hi
  · show SetsLe (Spec.AccessSets.accessAll l.st xs).1.pre (Spec.AccessSets.accessAll l.st xs).1.cur
    rw [c1, c3]; exact SetsLe.trans h.preCur (addAll_le _ _)
  · intro i hi
    obtain ⟨cp, snap, x0, logs0, spec0, pre0, e1, e2, iv, e3, e4⟩ := h.inv i hi
    refine ⟨cp, snap, x0, logs0, spec0, pre0, ?_, ?_, ?_, e3, ?_⟩
    · show r'.cps[i]? = some cp; rw [hcps]; exact e1
    · show (Spec.AccessSets.accessAll l.st xs).1.snaps[i]? = some snap; rw [c2]; exact e2
    · exact inv_step hdb iv (by rw [admissible_base db hasStorage (i+1) 0 l.r op hnr]; exact hadm) hstep
    · show SetsLe (Spec.AccessSets.accessAll l.st xs).1.pre snap; rw [c3]; exact e4


/-- unpacking one lockstep step -/
theorem lockStep_some {db : Db} {hasStorage : Addr → Bool} {l l' : Lock} {op : Op}
    (hs : lockStep db hasStorage l op = some l') :
    admOp db hasStorage l.r op = true ∧ ∃ r' o' st' bits, step db l.r op = some r' ∧
      wnStep l.open_ l.r r' op = some o' ∧ specStep db l.r r' l.st op = some (st', bits) ∧
      l' = { r := r', st := st', open_ := o' } := by
  unfold lockStep at hs
  by_cases hadm : admOp db hasStorage l.r op = true
  · rw [if_pos hadm] at hs
    cases hstep : step db l.r op with
    | none => simp [hstep] at hs
    | some r' =>
      simp only [hstep] at hs
      cases hwn : wnStep l.open_ l.r r' op with
      | none => simp [hwn] at hs
      | some o' =>
        cases hsp : specStep db l.r r' l.st op with
        | none => simp [hwn, hsp] at hs
        | some x =>
          obtain ⟨st', bits⟩ := x
          simp [hwn, hsp] at hs
          exact ⟨hadm, r', o', st', bits, rfl, hwn, hsp, hs.symm⟩
  · rw [if_neg hadm] at hs; cases hs

theorem has_addr (db : Db) (s : JState) (st : State) (h : SetsEq (warmSets db s) st.cur) (a : Addr) :
    st.cur.has (Access.addr a) = (absT db s).warm a := (h.1 a).symm
theorem has_slot (db : Db) (s : JState) (st : State) (h : SetsEq (warmSets db s) st.cur) (a : Addr) (k : Nat) :
    st.cur.has (Access.slot a k) = ((absT db s).slot a k).warm := (h.2 a k).symm


end Revm.Proofs.Access
