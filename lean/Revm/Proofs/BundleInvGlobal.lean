import Revm.Proofs.BundleInvMerge
import Revm.Proofs.BundleInvReach
/-! The per-address invariant lifted to the whole `State` (cache, transition state, bundle) against the
reference plain state: preserved by `commit` (every EVM-reachable `EvmState`) and by `merge_transitions`.
Core Lean only. -/
namespace Revm.Proofs.Bundle
open Revm.Model.Bundle Revm.Spec.Bundle

set_option linter.unusedSimpArgs false
set_option linter.unusedVariables false

/-- invariant of one address: `P` = pre-bundle (info, slots), `M` = reference (info, slots) at the last merge,
`R` = current reference (info, slots) -/
def AInv (dbi : Option Info) (c? : Option CacheAcct) (t? : Option Transition) (b? : Option BAcct)
    (Pi : Option Info) (Ps : Nat → Nat) (Mi : Option Info) (Ms : Nat → Nat) (Ri : Option Info) (Rs : Nat → Nat) : Prop :=
  dbi.map wc = Pi ∧ (Pi = none → ∀ k, Ps k = 0) ∧
  match c? with
  | none => t? = none ∧ b? = none ∧ Ri = Pi ∧ Rs = Ps ∧ Mi = Pi ∧ Ms = Ps
  | some c => CInv c Ri Rs ∧ ∃ ms, GInv t? c ms Mi Ms Ri Rs ∧ Facts ms Mi Ms ∧ BInv b? ms Pi Ps Mi Ms

/-- an address with a storage-wiping revert in some block is in the bundle with a destroyed-family status -/
def WipeInv (b : BState) : Prop :=
  ∀ blk, blk ∈ b.reverts → ∀ a r, (a, r) ∈ blk → r.wipe = true →
    ∃ o, b.state.get a = some o ∧ o.status.wasDestroyed = true

/-- the blocks have unique addresses, and an address has a storage-wiping revert in at most one block -/
def WipeOnce (b : BState) : Prop :=
  (∀ blk, blk ∈ b.reverts → WF blk) ∧
  b.reverts.Pairwise (fun blk1 blk2 => ∀ a r1 r2, (a, r1) ∈ blk1 → r1.wipe = true → (a, r2) ∈ blk2 → r2.wipe = true → False)

/-- `p0` = plain state when the bundle was started, `Mp` = reference state at the last merge, `R` = now -/
structure SInv (s : SState) (p0 Mp R : Plain) : Prop where
  wfts : WF s.ts
  wfb : WF s.bundle.state
  wipe : WipeInv s.bundle
  once : WipeOnce s.bundle
  acct : ∀ a, AInv (s.db.get a) (s.cache.get a) (s.ts.get a) (s.bundle.state.get a)
    (p0.acct a) (fun k => p0.slot a k) (Mp.acct a) (fun k => Mp.slot a k) (R.acct a) (fun k => R.slot a k)

/-! ## `load_cache_account` -/

def loadOf (dbi : Option Info) : CacheAcct :=
  match dbi with
  | none => ⟨none, .loadedNotExisting⟩
  | some i => if i.isEmpty then ⟨some Info.dflt, .loadedEmptyEIP161⟩ else ⟨some i, .loaded⟩

theorem load_eq (s : SState) (a : Nat) :
    s.load a = match s.cache.get a with
      | some c => (s, c)
      | none => ({ s with cache := s.cache.set a (loadOf (s.db.get a)) }, loadOf (s.db.get a)) := by
  unfold SState.load loadOf
  cases s.cache.get a with
  | some c => rfl
  | none => cases s.db.get a <;> rfl

theorem load_ainv (dbi : Option Info) (t? : Option Transition) (b? : Option BAcct) (Pi : Option Info)
    (Ps : Nat → Nat) (Mi : Option Info) (Ms : Nat → Nat) (Ri : Option Info) (Rs : Nat → Nat)
    (h : AInv dbi none t? b? Pi Ps Mi Ms Ri Rs) :
    AInv dbi (some (loadOf dbi)) t? b? Pi Ps Mi Ms Ri Rs := by
  obtain ⟨h1, h2, h3, h4, h5, h6, h7, h8⟩ := h
  subst h3; subst h4; rw [h5, h6, h7, h8]
  refine ⟨h1, h2, ?_⟩
  have hc : CInv (loadOf dbi) Pi Ps := by
    cases dbi with
    | none =>
      have hP : Pi = none := by rw [← h1]; rfl
      exact ⟨by rw [hP]; rfl, ⟨rfl, fun h => (by cases h), fun _ => h2 hP⟩, fun h => (by cases h), fun h => (by cases h)⟩
    | some i =>
      by_cases he : i.isEmpty = true
      · have hl : loadOf (some i) = ⟨some Info.dflt, .loadedEmptyEIP161⟩ := by simp [loadOf, he]
        rw [hl]
        refine ⟨?_, ⟨rfl, fun h => (by cases h), fun h => (by cases h)⟩, fun _ j hj => ?_, fun h => (by cases h)⟩
        · rw [← h1]; simp only [Option.map]; rw [isEmpty_wc i he]
        · injection hj with hj; rw [← hj]; rfl
      · have hl : loadOf (some i) = ⟨some i, .loaded⟩ := by simp [loadOf, he]
        rw [hl]
        refine ⟨h1, ⟨rfl, fun h => (by cases h), fun h => (by cases h)⟩, fun h => (by cases h), fun _ j hj => ?_⟩
        injection hj with hj; rw [← hj]; simpa using he
  refine ⟨hc, (loadOf dbi).status, ⟨rfl, rfl, rfl⟩, ?_, ⟨rfl, rfl, ?_⟩⟩
  · have := hc.facts; rw [← Facts.wc_iff, hc.info] at this; exact this
  · cases dbi with
    | none => simp [loadOf]
    | some i => by_cases he : i.isEmpty = true <;> simp [loadOf, he]

/-! ## `commit` as a sequence of per-account steps -/

def addT (ts : BMap Transition) (a : Nat) (tr : Option Transition) : BMap Transition :=
  match tr with
  | none => ts
  | some t => match ts.get a with
    | some old => ts.set a (old.update t)
    | none => ts.set a t

theorem addT_get (ts : BMap Transition) (a : Nat) (tr : Option Transition) (a' : Nat) :
    (addT ts a tr).get a' = if a = a' then combine (ts.get a) tr else ts.get a' := by
  unfold addT combine
  cases tr with
  | none => by_cases h : a = a' <;> simp [h]
  | some t =>
    cases hg : ts.get a with
    | none => by_cases h : a = a' <;> simp [get_set, h]
    | some old => by_cases h : a = a' <;> simp [get_set, h]

theorem addT_WF (ts : BMap Transition) (a : Nat) (tr : Option Transition) (hw : WF ts) : WF (addT ts a tr) := by
  unfold addT
  cases tr with
  | none => exact hw
  | some t => cases ts.get a <;> exact WF_set _ _ _ hw

def stepRes (s1 : SState) (a : Nat) (c' : CacheAcct) (tr : Option Transition) : SState :=
  { s1 with cache := s1.cache.set a c', ts := addT s1.ts a tr }

/-- one account of a committed `EvmState`: load, apply, record the transition -/
def stepAcct (s : SState) (e : Nat × EvmAcct) : Option SState :=
  match applyAccountState (s.load e.1).1.sc (s.load e.1).2 e.2 with
  | none => none
  | some r => some (stepRes (s.load e.1).1 e.1 r.1 r.2)

def commitSeq (s : SState) : List (Nat × EvmAcct) → Option SState
  | [] => some s
  | e :: rest => (stepAcct s e).bind (fun s' => commitSeq s' rest)

theorem load_ts (s : SState) (T : BMap Transition) (a : Nat) :
    ({ s with ts := T } : SState).load a = ({ (s.load a).1 with ts := T }, (s.load a).2) := by
  rw [load_eq, load_eq]
  cases s.cache.get a <;> rfl

theorem addTransitions_snoc (ts : BMap Transition) (trs : List (Nat × Transition)) (a : Nat) (t : Transition) :
    addTransitions ts (trs ++ [(a, t)]) = addT (addTransitions ts trs) a (some t) := by
  unfold addTransitions addT
  rw [List.foldl_append]
  simp only [List.foldl]
  cases (List.foldl _ ts trs).get a <;> rfl

theorem go_eq (rest : List (Nat × EvmAcct)) (s : SState) (trs : List (Nat × Transition)) :
    commitSeq { s with ts := addTransitions s.ts trs } rest =
      match SState.commit.go s trs rest with
      | none => none
      | some r => some { r.1 with ts := addTransitions r.1.ts r.2 } := by
  induction rest generalizing s trs with
  | nil => simp [SState.commit.go, commitSeq]
  | cons e rest ih =>
    obtain ⟨a, ea⟩ := e
    unfold SState.commit.go
    simp only [commitSeq, stepAcct, stepRes, load_ts]
    cases hap : applyAccountState (s.load a).1.sc (s.load a).2 ea with
    | none => simp [hap]
    | some r =>
      obtain ⟨c', tr⟩ := r
      simp only [hap, Option.bind]
      have hts : (s.load a).1.ts = s.ts := by rw [load_eq]; cases s.cache.get a <;> rfl
      cases tr with
      | none =>
        have := ih { (s.load a).1 with cache := (s.load a).1.cache.set a c' } trs
        simp only [addT, hts] at this ⊢
        exact this
      | some t =>
        have := ih { (s.load a).1 with cache := (s.load a).1.cache.set a c' } (trs ++ [(a, t)])
        rw [addTransitions_snoc] at this
        simp only [hts] at this ⊢
        exact this

theorem commit_eq (s : SState) (accts : List (Nat × EvmAcct)) : s.commit accts = commitSeq s accts := by
  have := go_eq accts s []
  have h0 : ({ s with ts := addTransitions s.ts [] } : SState) = s := by cases s; rfl
  rw [h0] at this
  rw [this]
  unfold SState.commit
  cases SState.commit.go s [] accts with
  | none => rfl
  | some r => obtain ⟨s', trs⟩ := r; rfl

/-! ## one committed account preserves the invariant -/

theorem load_props (s : SState) (p0 Mp R : Plain) (a : Nat) (h : SInv s p0 Mp R) :
    (s.load a).1.db = s.db ∧ (s.load a).1.sc = s.sc ∧ (s.load a).1.ts = s.ts ∧ (s.load a).1.bundle = s.bundle ∧
    (s.load a).1.cache.get a = some (s.load a).2 ∧ (∀ a', a' ≠ a → (s.load a).1.cache.get a' = s.cache.get a') ∧
    AInv (s.db.get a) (some (s.load a).2) (s.ts.get a) (s.bundle.state.get a)
      (p0.acct a) (fun k => p0.slot a k) (Mp.acct a) (fun k => Mp.slot a k) (R.acct a) (fun k => R.slot a k) := by
  have hA := h.acct a
  rw [load_eq]
  cases hg : s.cache.get a with
  | some c => rw [hg] at hA; exact ⟨rfl, rfl, rfl, rfl, hg, fun _ _ => rfl, hA⟩
  | none =>
    rw [hg] at hA
    refine ⟨rfl, rfl, rfl, rfl, by simp [get_set], fun a' ha' => ?_, load_ainv _ _ _ _ _ _ _ _ _ hA⟩
    simp only [get_set]
    have : ¬ a = a' := fun h => ha' h.symm
    simp [this]

theorem step_inv (s : SState) (p0 Mp R : Plain) (a : Nat) (ea : EvmAcct) (h : SInv s p0 Mp R)
    (hev : ea.touched = true → EvOk (R.acct a) (fun k => R.slot a k) ea) :
    ∃ s', stepAcct s (a, ea) = some s' ∧ SInv s' p0 Mp (applyCommitAcct s.sc R a ea) ∧ s'.sc = s.sc ∧ s'.bundle = s.bundle := by
  obtain ⟨hdb, hsc, hts, hbu, hca, hco, hA⟩ := load_props s p0 Mp R a h
  obtain ⟨hP1, hP2, hC, ms, hG, hF, hB⟩ := hA
  obtain ⟨c', tr, hap, hC', hG'⟩ := apply_event s.sc (s.load a).2 (s.ts.get a) ms _ _ _ _ ea hC hG hev
  have hst : stepAcct s (a, ea) = some (stepRes (s.load a).1 a c' tr) := by
    simp only [stepAcct, hsc, hap]
  refine ⟨_, hst, ⟨?_, ?_, ?_, ?_, fun a' => ?_⟩, hsc, hbu⟩
  · show WF (addT (s.load a).1.ts a tr)
    rw [hts]; exact addT_WF _ _ _ h.wfts
  · show WF (s.load a).1.bundle.state
    rw [hbu]; exact h.wfb
  · show WipeInv (s.load a).1.bundle
    rw [hbu]; exact h.wipe
  · show WipeOnce (s.load a).1.bundle
    rw [hbu]; exact h.once
  · show AInv ((s.load a).1.db.get a') (((s.load a).1.cache.set a c').get a') ((addT (s.load a).1.ts a tr).get a')
      ((s.load a).1.bundle.state.get a') _ _ _ _ _ _
    have hw : ea.touched = true → WF ea.storage := fun ht => (hev ht).wf
    have hRs : (fun k => (applyCommitAcct s.sc R a ea).slot a' k) =
        if a = a' then evSlots s.sc (fun k => R.slot a k) ea else fun k => R.slot a' k := by
      funext k; rw [applyCommitAcct_slot _ _ _ _ hw]; by_cases h : a = a' <;> simp [h]
    rw [hdb, hts, hbu, get_set, addT_get, applyCommitAcct_acct, hRs]
    by_cases haa : a = a'
    · subst haa
      simp only [if_true]
      exact ⟨hP1, hP2, hC', ms, hG', hF, hB⟩
    · simp only [haa, if_false]
      rw [hco a' (fun h => haa h.symm)]
      exact h.acct a'

theorem applyCommitAcct_other_acct (sc : Bool) (R : Plain) (a : Nat) (ea : EvmAcct) (a' : Nat) (h : a ≠ a') :
    (applyCommitAcct sc R a ea).acct a' = R.acct a' := by
  rw [applyCommitAcct_acct]; simp [h]

theorem commitSeq_inv (p0 Mp : Plain) (l : List (Nat × EvmAcct)) (s : SState) (R : Plain) (h : SInv s p0 Mp R) (hw : WF l)
    (hev : ∀ e, e ∈ l → e.2.touched = true → EvOk (R.acct e.1) (fun k => R.slot e.1 k) e.2) :
    ∃ s', commitSeq s l = some s' ∧ SInv s' p0 Mp (applyCommit s.sc R l) ∧ s'.sc = s.sc ∧ s'.bundle = s.bundle := by
  induction l generalizing s R with
  | nil => exact ⟨s, rfl, h, rfl, rfl⟩
  | cons e rest ih =>
    obtain ⟨a, ea⟩ := e
    rw [WF_cons] at hw
    obtain ⟨s1, h1, h2, h3, h3b⟩ := step_inv s p0 Mp R a ea h (hev (a, ea) List.mem_cons_self)
    have hev' : ∀ e, e ∈ rest → e.2.touched = true →
        EvOk ((applyCommitAcct s.sc R a ea).acct e.1) (fun k => (applyCommitAcct s.sc R a ea).slot e.1 k) e.2 := by
      intro e he ht
      have hne : a ≠ e.1 := fun hh => hw.1 (hh ▸ List.mem_map_of_mem (f := (·.1)) he)
      have hwa : ea.touched = true → WF ea.storage := fun ht => (hev (a, ea) List.mem_cons_self ht).wf
      have hRs : (fun k => (applyCommitAcct s.sc R a ea).slot e.1 k) = fun k => R.slot e.1 k := by
        funext k; rw [applyCommitAcct_slot _ _ _ _ hwa]; simp [hne]
      rw [applyCommitAcct_other_acct _ _ _ _ _ hne, hRs]
      exact hev e (List.mem_cons_of_mem _ he) ht
    obtain ⟨s2, h4, h5, h6, h6b⟩ := ih s1 _ h2 hw.2 hev'
    refine ⟨s2, by simp only [commitSeq, h1, Option.bind]; exact h4, ?_, by rw [h6, h3], by rw [h6b, h3b]⟩
    rw [h3] at h5
    exact h5

/-- `commit` of an EVM-reachable `EvmState` never panics and preserves the invariant -/
theorem commit_inv (sc : Bool) (p0 Mp R : Plain) (s : SState) (l : List (Nat × EvmAcct)) (h : SInv s p0 Mp R) (hsc : s.sc = sc)
    (hd : distinctKeys l = true) (hr : l.all (fun e => evmOk sc R e.1 e.2) = true) :
    ∃ s', s.commit l = some s' ∧ SInv s' p0 Mp (applyCommit sc R l) ∧ s'.sc = sc ∧ s'.bundle = s.bundle := by
  have hev : ∀ e, e ∈ l → e.2.touched = true → EvOk (R.acct e.1) (fun k => R.slot e.1 k) e.2 :=
    fun e he ht => evOk_of sc R e.1 e.2 (List.all_eq_true.mp hr e he) ht
  obtain ⟨s', h1, h2, h3, h4⟩ := commitSeq_inv p0 Mp l s R h (distinctKeys_WF l hd) hev
  rw [hsc] at h2 h3
  exact ⟨s', by rw [commit_eq]; exact h1, h2, h3, h4⟩

/-! ## `merge_transitions` -/

theorem get_append_single {α : Type} (m : BMap α) (a : Nat) (v : α) (a' : Nat) :
    BMap.get (m ++ [(a, v)]) a' = match m.get a' with
      | some x => some x
      | none => if a = a' then some v else none := by
  induction m with
  | nil => simp [BMap.get]
  | cons e r ih =>
    simp only [List.cons_append, get_cons]
    by_cases h : e.1 = a'
    · simp [h]
    · simp only [h, if_false]; exact ih

theorem WF_append_single {α : Type} (m : BMap α) (a : Nat) (v : α) (hw : WF m) (hn : m.get a = none) :
    WF (m ++ [(a, v)]) := by
  induction m with
  | nil => rw [List.nil_append, WF_cons]; exact ⟨by simp, WF_nil⟩
  | cons e r ih =>
    rw [WF_cons] at hw
    rw [get_cons] at hn
    by_cases h : e.1 = a
    · simp [h] at hn
    · simp only [h, if_false] at hn
      rw [List.cons_append, WF_cons]
      refine ⟨?_, ih hw.2 hn⟩
      simp only [List.map_append, List.map, List.mem_append, List.mem_cons, List.not_mem_nil, or_false, not_or]
      exact ⟨hw.1, h⟩

theorem oneAcct_none (b? : Option BAcct) (t : Transition) (rev : Option ARevert)
    (h : oneAcct b? t = some (none, rev)) : b? = none := by
  cases b? with
  | none => rfl
  | some acc =>
    simp only [oneAcct] at h
    cases hu : updateAndCreateRevert acc t with
    | none => rw [hu] at h; cases h
    | some r => rw [hu] at h; simp at h

def setOpt (m : BMap BAcct) (a : Nat) (x? : Option BAcct) : BMap BAcct :=
  match x? with | some x => m.set a x | none => m
def pushOpt (revs : BMap ARevert) (a : Nat) (r? : Option ARevert) : BMap ARevert :=
  match r? with | some r => revs ++ [(a, r)] | none => revs
def newContracts (b : BState) (t : Transition) : List Nat :=
  match t.hasNewContract with | some h => insertContract b.contracts h | none => b.contracts

theorem applyOne_eq' (b : BState) (a : Nat) (t : Transition) (b?' : Option BAcct) (rev : Option ARevert)
    (h : oneAcct (b.state.get a) t = some (b?', rev)) :
    applyOne b a t = some (⟨setOpt b.state a b?', newContracts b t, b.reverts⟩, rev) := by
  rw [applyOne_eq, h]; cases b?' <;> rfl

theorem go_cons (b b1 : BState) (revs : BMap ARevert) (a : Nat) (t : Transition) (rest : List (Nat × Transition))
    (rev : Option ARevert) (h : applyOne b a t = some (b1, rev)) :
    applyTransitions.go true b revs ((a, t) :: rest) = applyTransitions.go true b1 (pushOpt revs a rev) rest := by
  rw [applyTransitions.go]
  simp only [h]
  cases rev <;> rfl

theorem setOpt_get_self (m : BMap BAcct) (a : Nat) (x? : Option BAcct) (h : x? = none → m.get a = none) :
    (setOpt m a x?).get a = x? := by
  cases x? with
  | some x => simp [setOpt, get_set]
  | none => exact h rfl

theorem setOpt_get_ne (m : BMap BAcct) (a : Nat) (x? : Option BAcct) (a' : Nat) (h : a' ≠ a) :
    (setOpt m a x?).get a' = m.get a' := by
  cases x? with
  | some x =>
    have hne : ¬ a = a' := fun hh => h hh.symm
    simp only [setOpt, get_set, hne, if_false]
  | none => rfl

theorem setOpt_WF (m : BMap BAcct) (a : Nat) (x? : Option BAcct) (hw : WF m) : WF (setOpt m a x?) := by
  cases x? with
  | some x => exact WF_set _ _ _ hw
  | none => exact hw

theorem pushOpt_get_self (m : BMap ARevert) (a : Nat) (r? : Option ARevert) (h : m.get a = none) :
    (pushOpt m a r?).get a = r? := by
  cases r? with
  | some r => simp only [pushOpt, get_append_single, h]; simp
  | none => exact h

theorem pushOpt_get_ne (m : BMap ARevert) (a : Nat) (r? : Option ARevert) (a' : Nat) (h : a' ≠ a) :
    (pushOpt m a r?).get a' = m.get a' := by
  cases r? with
  | some r =>
    simp only [pushOpt, get_append_single]
    have hne : ¬ a = a' := fun hh => h hh.symm
    cases m.get a' with
    | some x => rfl
    | none => simp only [hne, if_false]
  | none => rfl

theorem pushOpt_WF (m : BMap ARevert) (a : Nat) (r? : Option ARevert) (hw : WF m) (h : m.get a = none) :
    WF (pushOpt m a r?) := by
  cases r? with
  | some r => exact WF_append_single _ _ _ hw h
  | none => exact hw

theorem go_fold (Pre : Nat → Transition → Option BAcct → Prop)
    (Post : Nat → Transition → Option BAcct → Option ARevert → Prop)
    (hstep : ∀ a t b?, Pre a t b? → ∃ b?' rev, oneAcct b? t = some (b?', rev) ∧ Post a t b?' rev)
    (l : List (Nat × Transition)) (b : BState) (revs : BMap ARevert) (hwl : WF l) (hwb : WF b.state) (hwr : WF revs)
    (hdis : ∀ a t, BMap.get l a = some t → revs.get a = none)
    (hpre : ∀ a t, BMap.get l a = some t → Pre a t (b.state.get a)) :
    ∃ b' revs', applyTransitions.go true b revs l = some (b', revs') ∧ WF b'.state ∧ b'.reverts = b.reverts ∧ WF revs' ∧
      (∀ a, BMap.get l a = none → b'.state.get a = b.state.get a ∧ revs'.get a = revs.get a) ∧
      (∀ a t, BMap.get l a = some t → Post a t (b'.state.get a) (revs'.get a)) := by
  induction l generalizing b revs with
  | nil =>
    refine ⟨b, revs, by simp [applyTransitions.go], hwb, rfl, hwr, fun _ _ => ⟨rfl, rfl⟩, fun a t h => ?_⟩
    simp [BMap.get] at h
  | cons e rest ih =>
    obtain ⟨a, t⟩ := e
    rw [WF_cons] at hwl
    have hga : BMap.get ((a, t) :: rest) a = some t := by simp [get_cons]
    have hrn : BMap.get rest a = none := get_none_of_not_mem rest a hwl.1
    obtain ⟨b?', rev, h1, h2⟩ := hstep a t _ (hpre a t hga)
    have hone := applyOne_eq' b a t b?' rev h1
    have hra := hdis a t hga
    have hne : ∀ a' t', BMap.get rest a' = some t' → a' ≠ a := by
      intro a' t' h hh; rw [hh, hrn] at h; cases h
    have hrest : ∀ a' t', BMap.get rest a' = some t' → BMap.get ((a, t) :: rest) a' = some t' := by
      intro a' t' h
      rw [get_cons]
      have : ¬ a = a' := fun hh => hne a' t' h hh.symm
      simp only [this, if_false]; exact h
    obtain ⟨b', revs', g1, g2, g3, g4, g5, g6⟩ := ih
      ⟨setOpt b.state a b?', newContracts b t, b.reverts⟩ (pushOpt revs a rev) hwl.2 (setOpt_WF _ _ _ hwb)
      (pushOpt_WF _ _ _ hwr hra)
      (fun a' t' h => by rw [pushOpt_get_ne _ _ _ _ (hne a' t' h)]; exact hdis a' t' (hrest a' t' h))
      (fun a' t' h => by
        show Pre a' t' ((setOpt b.state a b?').get a')
        rw [setOpt_get_ne _ _ _ _ (hne a' t' h)]; exact hpre a' t' (hrest a' t' h))
    refine ⟨b', revs', by rw [go_cons _ _ _ _ _ _ _ hone]; exact g1, g2, g3, g4, fun a' h => ?_, fun a' t' h => ?_⟩
    · rw [get_cons] at h
      by_cases haa : a = a'
      · simp [haa] at h
      · simp only [haa, if_false] at h
        obtain ⟨q1, q2⟩ := g5 a' h
        exact ⟨by rw [q1]; exact setOpt_get_ne _ _ _ _ (fun hh => haa hh.symm),
               by rw [q2]; exact pushOpt_get_ne _ _ _ _ (fun hh => haa hh.symm)⟩
    · rw [get_cons] at h
      by_cases haa : a = a'
      · subst haa
        simp only [if_true] at h
        injection h with h; subst h
        obtain ⟨q1, q2⟩ := g5 a hrn
        rw [q1, q2]
        show Post a t ((setOpt b.state a b?').get a) _
        rw [setOpt_get_self _ _ _ (fun hn => by rw [hn] at h1; exact oneAcct_none _ _ _ h1), pushOpt_get_self _ _ _ hra]
        exact h2
      · simp only [haa, if_false] at h
        exact g6 a' t' h

/-- one block of reverts leads from the reference state `R` back to the reference state `Mp` -/
def BlockSem (blk : BMap ARevert) (p0 Mp R : Plain) : Prop :=
  WF blk ∧ ∀ a, ∃ ms, RevSem (blk.get a) ms (fun k => p0.slot a k) (Mp.acct a) (fun k => Mp.slot a k)
    (R.acct a) (fun k => R.slot a k)

/-- **(i), whole state**: `merge_transitions` never reaches an `unreachable!`, re-establishes the bundle
invariant w.r.t. the current reference state, and appends one block of reverts leading back to the
reference state of the previous merge -/
theorem merge_inv (s : SState) (p0 Mp R : Plain) (h : SInv s p0 Mp R) :
    ∃ s' blk, s.merge true = some s' ∧ SInv s' p0 R R ∧ s'.ts = [] ∧ s'.sc = s.sc ∧
      s'.bundle.reverts = s.bundle.reverts ++ [blk] ∧ BlockSem blk p0 Mp R := by
  let Pre : Nat → Transition → Option BAcct → Prop := fun a t b? =>
    ∃ c, s.cache.get a = some c ∧ CInv c (R.acct a) (fun k => R.slot a k) ∧
      TInv t c (Mp.acct a) (fun k => Mp.slot a k) (fun k => R.slot a k) ∧
      Facts t.prevStatus (Mp.acct a) (fun k => Mp.slot a k) ∧
      BInv b? t.prevStatus (p0.acct a) (fun k => p0.slot a k) (Mp.acct a) (fun k => Mp.slot a k) ∧
      b? = s.bundle.state.get a
  let Post : Nat → Transition → Option BAcct → Option ARevert → Prop := fun a t b?' rev =>
    (∀ c, s.cache.get a = some c → BInv b?' c.status (p0.acct a) (fun k => p0.slot a k) (R.acct a) (fun k => R.slot a k)) ∧
    RevSem rev t.prevStatus (fun k => p0.slot a k) (Mp.acct a) (fun k => Mp.slot a k) (R.acct a) (fun k => R.slot a k) ∧
    (∀ r, rev = some r → r.wipe = true →
      (∃ o', b?' = some o' ∧ o'.status.wasDestroyed = true) ∧
      (∀ o, s.bundle.state.get a = some o → o.status.wasDestroyed = false)) ∧
    (∀ o, s.bundle.state.get a = some o → o.status.wasDestroyed = true →
      ∃ o', b?' = some o' ∧ o'.status.wasDestroyed = true)
  have hstep : ∀ a t b?, Pre a t b? → ∃ b?' rev, oneAcct b? t = some (b?', rev) ∧ Post a t b?' rev := by
    intro a t b? ⟨c, hc, hC, hT, hF, hB, hbe⟩
    obtain ⟨b?', rev, h1, h2, h3, h4, h5⟩ := merge_acct_wipe b? t c _ _ _ _ _ _ hB hF hT hC
    rw [hbe] at h4 h5
    exact ⟨b?', rev, h1, fun c' hc' => by rw [hc] at hc'; injection hc' with hc'; rw [← hc']; exact h2, h3, h4, h5⟩
  have hpre : ∀ a t, BMap.get s.ts a = some t → Pre a t (s.bundle.state.get a) := by
    intro a t ht
    obtain ⟨_, _, hrest⟩ := h.acct a
    cases hc : s.cache.get a with
    | none => rw [hc] at hrest; rw [ht] at hrest; cases hrest.1
    | some c =>
      rw [hc, ht] at hrest
      obtain ⟨hC, ms, ⟨hT, hms⟩, hF, hB⟩ := hrest
      rw [hms] at hF hB
      exact ⟨c, hc, hC, hT, hF, hB, rfl⟩
  obtain ⟨b', revs', g1, g2, g3, g4, g5, g6⟩ := go_fold Pre Post hstep s.ts s.bundle [] h.wfts h.wfb WF_nil
    (fun _ _ _ => rfl) hpre
  have hm : s.merge true = some ⟨s.db, s.sc, s.cache, [], ⟨b'.state, b'.contracts, b'.reverts ++ [revs']⟩⟩ := by
    simp only [SState.merge, applyTransitions, g1, Option.map]
  have hkeep : ∀ a o, s.bundle.state.get a = some o → o.status.wasDestroyed = true →
      ∃ o', b'.state.get a = some o' ∧ o'.status.wasDestroyed = true := by
    intro a o ho hwd
    cases ht : s.ts.get a with
    | none => rw [(g5 a ht).1]; exact ⟨o, ho, hwd⟩
    | some t => exact (g6 a t ht).2.2.2 o ho hwd
  have hnew : ∀ a r, (a, r) ∈ revs' → r.wipe = true →
      (∃ o', b'.state.get a = some o' ∧ o'.status.wasDestroyed = true) ∧
      (∀ o, s.bundle.state.get a = some o → o.status.wasDestroyed = false) := by
    intro a r hm hw
    have hgr := get_some_of_mem revs' g4 a r hm
    cases ht : s.ts.get a with
    | none => rw [(g5 a ht).2] at hgr; cases hgr
    | some t => exact (g6 a t ht).2.2.1 r hgr hw
  refine ⟨_, revs', hm, ⟨WF_nil, g2, ?_, ?_, fun a => ?_⟩, rfl, rfl, by simp only [g3], g4, fun a => ?_⟩
  · intro blk hblk a r hmem hw
    show ∃ o, b'.state.get a = some o ∧ _
    simp only [g3, List.mem_append, List.mem_singleton] at hblk
    cases hblk with
    | inl h1 =>
      obtain ⟨o, ho, hwd⟩ := h.wipe blk h1 a r hmem hw
      exact hkeep a o ho hwd
    | inr h1 => subst h1; exact (hnew a r hmem hw).1
  · constructor
    · intro blk hblk
      simp only [g3, List.mem_append, List.mem_singleton] at hblk
      cases hblk with
      | inl h1 => exact h.once.1 blk h1
      | inr h1 => subst h1; exact g4
    · show List.Pairwise _ (b'.reverts ++ [revs'])
      rw [g3, List.pairwise_append]
      refine ⟨h.once.2, List.pairwise_singleton _ _, fun blk1 h1 blk2 h2 a r1 r2 hm1 hw1 hm2 hw2 => ?_⟩
      simp only [List.mem_singleton] at h2
      subst h2
      obtain ⟨o, ho, hwd⟩ := h.wipe blk1 h1 a r1 hm1 hw1
      have := (hnew a r2 hm2 hw2).2 o ho
      rw [hwd] at this; cases this
  · show AInv (s.db.get a) (s.cache.get a) (BMap.get [] a) (b'.state.get a) _ _ _ _ _ _
    obtain ⟨hP1, hP2, hrest⟩ := h.acct a
    refine ⟨hP1, hP2, ?_⟩
    cases hc : s.cache.get a with
    | none =>
      rw [hc] at hrest
      obtain ⟨q1, q2, q3, q4, q5, q6⟩ := hrest
      simp only
      exact ⟨rfl, by rw [(g5 a q1).1]; exact q2, q3, q4, q3, q4⟩
    | some c =>
      rw [hc] at hrest
      obtain ⟨hC, ms, hG, hF, hB⟩ := hrest
      simp only
      refine ⟨hC, ?_⟩
      cases ht : s.ts.get a with
      | none =>
        rw [ht] at hG
        obtain ⟨q1, q2, q3⟩ := hG
        rw [q1, q2] at hF hB
        exact ⟨ms, ⟨rfl, rfl, q3⟩, hF, by rw [(g5 a ht).1]; exact hB⟩
      | some t =>
        refine ⟨c.status, ⟨rfl, rfl, rfl⟩, ?_, (g6 a t ht).1 c hc⟩
        have := hC.facts; rw [← Facts.wc_iff, hC.info] at this; exact this
  · cases ht : s.ts.get a with
    | none =>
      rw [(g5 a ht).2]
      refine ⟨.loaded, ?_⟩
      show _ ∧ _
      obtain ⟨_, _, hrest⟩ := h.acct a
      cases hc : s.cache.get a with
      | none =>
        rw [hc] at hrest
        obtain ⟨q1, q2, q3, q4, q5, q6⟩ := hrest
        exact ⟨by rw [q5, q3], fun k => by rw [q6, q4]⟩
      | some c =>
        rw [hc, ht] at hrest
        obtain ⟨_, ms, ⟨q1, q2, _⟩, _, _⟩ := hrest
        exact ⟨q1, fun k => by rw [q2]⟩
    | some t => exact ⟨t.prevStatus, (g6 a t ht).2.1⟩

/-! ## merge groups and histories -/

theorem runGroup_inv (sc : Bool) (p0 Mp : Plain) (g : Group) (s : SState) (R : Plain) (h : SInv s p0 Mp R)
    (hsc : s.sc = sc) (hr : reachGroup sc R g = true) :
    ∃ s' blk, runGroup s R g = some (s', groupEnd sc R g) ∧ SInv s' p0 (groupEnd sc R g) (groupEnd sc R g) ∧
      s'.ts = [] ∧ s'.sc = sc ∧ s'.bundle.reverts = s.bundle.reverts ++ [blk] ∧
      BlockSem blk p0 Mp (groupEnd sc R g) := by
  induction g generalizing s R with
  | nil =>
    obtain ⟨s', blk, h1, h2, h3, h4, h5, h6⟩ := merge_inv s p0 Mp R h
    exact ⟨s', blk, by simp [runGroup, h1, groupEnd], h2, h3, by rw [h4, hsc], h5, h6⟩
  | cons c cs ih =>
    simp only [reachGroup, Bool.and_eq_true] at hr
    obtain ⟨⟨hd, hall⟩, hrest⟩ := hr
    obtain ⟨s1, h1, h2, h3, h4⟩ := commit_inv sc p0 Mp R s c h hsc hd hall
    obtain ⟨s', blk, g1, g2, g3, g4, g5, g6⟩ := ih s1 _ h2 h3 hrest
    refine ⟨s', blk, ?_, g2, g3, g4, by rw [g5, h4], g6⟩
    simp only [runGroup, h1, Option.bind, hsc]
    exact g1

/-- blocks `blks` lead backwards through the reference states `R :: refs` -/
def BlocksSem (p0 : Plain) (blks : List (BMap ARevert)) (R : Plain) (refs : List Plain) : Prop :=
  blks.length = refs.length ∧
  ∀ (k : Nat) blk before after, blks[k]? = some blk → (R :: refs)[k]? = some before → refs[k]? = some after →
    BlockSem blk p0 before after

/-- reference state after a history -/
def histEnd (sc : Bool) (p : Plain) (h : List Group) : Plain := h.foldl (groupEnd sc) p

theorem reachHistory_append (sc : Bool) (p : Plain) (h1 h2 : List Group) :
    reachHistory sc p (h1 ++ h2) = (reachHistory sc p h1 && reachHistory sc (histEnd sc p h1) h2) := by
  induction h1 generalizing p with
  | nil => simp [reachHistory, histEnd]
  | cons g gs ih => simp only [List.cons_append, reachHistory, ih, histEnd, List.foldl, Bool.and_assoc]

theorem runHistory_inv (sc : Bool) (p0 : Plain) (h : List Group) (s : SState) (R : Plain) (hi : SInv s p0 R R)
    (hsc : s.sc = sc) (hr : reachHistory sc R h = true) :
    ∃ l, runHistory s R h = some l ∧ l.length = h.length ∧
      ∀ s' r, l.getLast? = some (s', r) → SInv s' p0 r r ∧ s'.ts = [] ∧ r = histEnd sc R h ∧
        ∃ blks, s'.bundle.reverts = s.bundle.reverts ++ blks ∧ BlocksSem p0 blks R (l.map (·.2)) := by
  induction h generalizing s R with
  | nil => exact ⟨[], rfl, rfl, fun s' r hl => by simp at hl⟩
  | cons g gs ih =>
    simp only [reachHistory, Bool.and_eq_true] at hr
    obtain ⟨s1, blk, g1, g2, g3, g4, g5, g6⟩ := runGroup_inv sc p0 R g s R hi hsc hr.1
    obtain ⟨l', q1, q2, q3⟩ := ih s1 _ g2 g4 hr.2
    refine ⟨(s1, groupEnd sc R g) :: l', by simp [runHistory, g1, q1], by simp [q2], fun s' r hl => ?_⟩
    cases l' with
    | nil =>
      simp only [List.getLast?_singleton, Option.some.injEq, Prod.mk.injEq] at hl
      obtain ⟨hl1, hl2⟩ := hl
      subst hl1; subst hl2
      have hgs : gs = [] := by cases gs with
        | nil => rfl
        | cons _ _ => simp at q2
      refine ⟨g2, g3, by rw [hgs]; rfl, [blk], g5, rfl, fun k b before after hb hbe haf => ?_⟩
      cases k with
      | zero =>
        simp only [List.getElem?_cons_zero, Option.some.injEq, List.map] at hb hbe haf
        subst hb; subst hbe; subst haf; exact g6
      | succ k => simp at hb
    | cons x xs =>
      rw [List.getLast?_cons_cons] at hl
      obtain ⟨w1, w2, w2', blks, w3, w4, w5⟩ := q3 s' r hl
      refine ⟨w1, w2, by rw [w2']; rfl, blk :: blks, by rw [w3, g5, List.append_assoc]; rfl, by simp [w4], fun k b before after hb hbe haf => ?_⟩
      cases k with
      | zero =>
        simp only [List.getElem?_cons_zero, Option.some.injEq, List.map] at hb hbe haf
        subst hb; subst hbe; subst haf; exact g6
      | succ k =>
        simp only [List.getElem?_cons_succ, List.map_cons] at hb hbe haf
        exact w5 k b before after hb (by simpa using hbe) haf

/-- the invariant holds for a fresh `State` over a database that agrees with the plain state -/
theorem init_inv (db : BMap Info) (sc : Bool) (p0 : Plain) (hdb : dbMatches db p0) (hwf : plainWF p0) :
    SInv { db := db, sc := sc } p0 p0 p0 :=
  ⟨WF_nil, WF_nil, fun blk hb => (by cases hb), ⟨fun blk hb => (by cases hb), List.Pairwise.nil⟩,
    fun a => ⟨hdb a, hwf a, rfl, rfl, rfl, rfl, rfl, rfl⟩⟩

/-- the reference state keeps no storage under absent accounts -/
theorem plainWF_of_inv (s : SState) (p0 Mp R : Plain) (h : SInv s p0 Mp R) : plainWF R := by
  intro a ha k
  obtain ⟨_, hP2, hrest⟩ := h.acct a
  cases hc : s.cache.get a with
  | none =>
    rw [hc] at hrest
    obtain ⟨_, _, q3, q4, _, _⟩ := hrest
    have := hP2 (by rw [← q3]; exact ha) k
    rw [← this]; exact congrFun q4 k
  | some c =>
    rw [hc] at hrest
    obtain ⟨hC, _⟩ := hrest
    exact hC.facts.none_zero (info_of_Ri_none hC ha) k

end Revm.Proofs.Bundle
