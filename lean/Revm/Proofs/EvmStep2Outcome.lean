import Revm.Proofs.EvmStep2Prim
import Revm.Spec.EvmRules2Call
/-! (f) re-entry of a child's result: `Interpreter::insert_call_outcome` / `insert_create_outcome` are the rules
`insertCallOutcomeRule` / `insertCreateOutcomeRule` of `Spec/EvmRules2Call.lean`. -/
set_option linter.unusedSimpArgs false
set_option linter.unusedVariables false
namespace Revm.Proofs.EvmStep2
open Revm Revm.Model Revm.Model.Interp
open Revm.Model.GasCalc (enabled)
open Revm.Spec.EvmRules Revm.Spec.EvmRules2
open Revm.Spec.GasCalc (Fork ceil32 memCost)
open Revm.Proofs.EvmStep

theorem outcome_push_ok (v : Nat) (s : IState) (h : s.stack.length < 1024) :
    push v s = .ok () { s with stack := s.stack ++ [v] } := by
  have hne : ¬ s.stack.length = Stack.STACK_LIMIT := by unfold Stack.STACK_LIMIT; omega
  unfold push Stack.push
  rw [if_neg hne]

/-- `erase_cost` then `record_refund` without wrap-around are `giveBack` then `refund` of the unbounded meter -/
theorem settleOk_eq (s : IState) (x : Nat) (r : Int) (hx : x + s.gas.remaining < U64)
    (h0 : -(2^62 : Int) ≤ s.gas.refunded ∧ s.gas.refunded ≤ 2^62) (h1 : -(2^62 : Int) ≤ r ∧ r < 2^62) :
    modifyS (fun s => { s with gas := Gas.recordRefund (Gas.eraseCost s.gas x) r }) s
      = .ok () (setMeter s (Spec.Gas.refund (Spec.Gas.giveBack (Spec.Gas.abs s.gas) x) r)) := by
  have ha : U64ops.wadd s.gas.remaining x = s.gas.remaining + x := Proofs.Gas.wadd_of_lt _ _ (by omega)
  have hb : Gas.i64WrapAdd s.gas.refunded r = s.gas.refunded + r :=
    Proofs.Gas.i64WrapAdd_exact _ _ (by unfold Gas.I64MIN; omega) (by unfold Gas.I64MAX; omega)
  unfold modifyS setMeter Gas.recordRefund Gas.eraseCost Spec.Gas.refund Spec.Gas.giveBack Spec.Gas.abs
  simp only []
  rw [ha, hb]

theorem settleRevert_eq (s : IState) (x : Nat) (hx : x + s.gas.remaining < U64) :
    modifyS (fun s => { s with gas := Gas.eraseCost s.gas x }) s
      = .ok () (setMeter s (Spec.Gas.giveBack (Spec.Gas.abs s.gas) x)) := by
  have ha : U64ops.wadd s.gas.remaining x = s.gas.remaining + x := Proofs.Gas.wadd_of_lt _ _ (by omega)
  unfold modifyS setMeter Gas.eraseCost Spec.Gas.giveBack Spec.Gas.abs
  simp only []
  rw [ha]

theorem not_fatal_of_ok {r : IResult} (h : r.isOk = true) : r ≠ .FatalExternalError := by
  intro e; rw [e] at h; cases h

theorem not_fatal_of_revert {r : IResult} (h : r.isRevert = true) : r ≠ .FatalExternalError := by
  intro e; rw [e] at h; cases h

/-- the memory write of `insert_call_outcome` on a state `s1` whose return window is addressable -/
theorem outcome_write (s1 : IState) (retStart retEnd : Nat) (out : List Nat) (hm : Proofs.Memory.WF s1.mem)
    (hwin : retStart < retEnd → retEnd ≤ (memOf s1).length) :
    liftMemWrite (fun m => Memory.set m retStart (out.take (min (retEnd - retStart) out.length))) s1
      = .ok () (if min (retEnd - retStart) out.length ≠ 0
                then setMem s1 (store (memOf s1) retStart (out.take (min (retEnd - retStart) out.length))) else s1) := by
  by_cases hn : min (retEnd - retStart) out.length = 0
  · rw [if_neg (fun hne => hne hn), hn]
    rfl
  · rw [if_pos hn]
    have hlen : (out.take (min (retEnd - retStart) out.length)).length = min (retEnd - retStart) out.length := by
      rw [List.length_take]; omega
    have hne : out.take (min (retEnd - retStart) out.length) ≠ [] := by
      intro e; rw [e] at hlen; exact hn hlen.symm
    have hw := hwin (by omega)
    exact memSet_eq s1 retStart _ hm hne (by rw [hlen]; omega)

/-- `Interpreter::insert_call_outcome` is `insertCallOutcomeRule`. The hypotheses beyond `WFM` hold when the frame
machine re-enters a frame after the call it made:
* `hwin`: the CALL instruction made the out-range addressable before it emitted the action (`callMem`: a non-empty
  window is `(off, off + len)` after `memAccessO … off len`), and memory never shrinks while the child runs (the child
  works behind a new checkpoint, which is dropped again);
* `hgas`: the child's `gasRemaining` is at most the gas limit it was given, which the CALL took out of this meter
  (plus the 2300 stipend), so the sum is below the frame's own limit + 2300, far below `2^64`;
* `href`: the child's refund counter obeys the same `±2^62` bound as every frame's (`WFM.refund`);
* `hdepth`: the CALL popped at least 6 words, so there is room for the status word. -/
theorem insertCallOutcome_agrees (retStart retEnd : Nat) (o : ChildResult) (s : IState) (hwf : WFM s)
    (hwin : retStart < retEnd → retEnd ≤ (memOf s).length)
    (hgas : o.gasRemaining + s.gas.remaining < U64)
    (href : -(2^62 : Int) ≤ o.gasRefunded ∧ o.gasRefunded < 2^62)
    (hdepth : s.stack.length < 1024) :
    (insertCallOutcome retStart retEnd o s).toDone = insertCallOutcomeRule retStart retEnd o s := by
  unfold insertCallOutcome insertCallOutcomeRule
  have h0 : modifyS (fun s => { s with returnData := o.output }) s = .ok () { s with returnData := o.output } := rfl
  rw [bind_ok _ _ _ _ _ h0]
  simp only []
  rw [bind_ok _ _ _ _ _ (getS_ok _)]
  by_cases hok : o.result.isOk = true
  · rw [if_pos hok, if_neg (not_fatal_of_ok hok)]
    unfold settle
    rw [if_pos hok]
    rw [bind_ok _ _ _ _ _ (settleOk_eq _ _ _ (by exact hgas) (by exact hwf.refund) href)]
    rw [bind_ok _ _ _ _ _ (outcome_write _ retStart retEnd o.output (by exact hwf.mem) (by exact hwin))]
    by_cases hn : min (retEnd - retStart) o.output.length = 0
    · rw [if_neg (show ¬ min (retEnd - retStart) o.output.length ≠ 0 from fun hne => hne hn),
        if_neg (show ¬ ((o.result.isOk = true ∨ o.result.isRevert = true) ∧ min (retEnd - retStart) o.output.length ≠ 0)
          from fun hc => hc.2 hn)]
      rw [outcome_push_ok _ _ (by exact hdepth)]
      unfold callStatus
      rw [if_pos hok]
      rfl
    · rw [if_pos (show min (retEnd - retStart) o.output.length ≠ 0 from hn),
        if_pos (show (o.result.isOk = true ∨ o.result.isRevert = true) ∧ min (retEnd - retStart) o.output.length ≠ 0
          from ⟨Or.inl hok, hn⟩)]
      rw [outcome_push_ok _ _ (by exact hdepth)]
      unfold callStatus
      rw [if_pos hok]
      rfl
  · rw [if_neg hok]
    by_cases hrev : o.result.isRevert = true
    · rw [if_pos hrev, if_neg (not_fatal_of_revert hrev)]
      unfold settle
      rw [if_neg hok, if_pos hrev]
      rw [bind_ok _ _ _ _ _ (settleRevert_eq _ _ (by exact hgas))]
      rw [bind_ok _ _ _ _ _ (outcome_write _ retStart retEnd o.output (by exact hwf.mem) (by exact hwin))]
      by_cases hn : min (retEnd - retStart) o.output.length = 0
      · rw [if_neg (show ¬ min (retEnd - retStart) o.output.length ≠ 0 from fun hne => hne hn),
        if_neg (show ¬ ((o.result.isOk = true ∨ o.result.isRevert = true) ∧ min (retEnd - retStart) o.output.length ≠ 0)
          from fun hc => hc.2 hn)]
        rw [outcome_push_ok _ _ (by exact hdepth)]
        unfold callStatus
        rw [if_neg hok, if_pos hrev]
        rfl
      · rw [if_pos (show min (retEnd - retStart) o.output.length ≠ 0 from hn),
          if_pos (show (o.result.isOk = true ∨ o.result.isRevert = true) ∧ min (retEnd - retStart) o.output.length ≠ 0
            from ⟨Or.inr hrev, hn⟩)]
        rw [outcome_push_ok _ _ (by exact hdepth)]
        unfold callStatus
        rw [if_neg hok, if_pos hrev]
        rfl
    · rw [if_neg hrev]
      by_cases hfat : o.result = .FatalExternalError
      · rw [if_pos hfat, if_pos hfat]
        rfl
      · rw [if_neg hfat, if_neg hfat]
        unfold settle
        rw [if_neg hok, if_neg hrev,
          if_neg (show ¬ ((o.result.isOk = true ∨ o.result.isRevert = true) ∧ min (retEnd - retStart) o.output.length ≠ 0)
            from fun hc => hc.1.elim hok hrev)]
        rw [outcome_push_ok _ _ (by exact hdepth)]
        unfold callStatus
        rw [if_neg hok, if_neg hrev]
        rfl

/-- `Interpreter::insert_create_outcome` is `insertCreateOutcomeRule`; `hgas`, `href`, `hdepth` as for
`insertCallOutcome_agrees` (CREATE popped 3 words; no stipend) -/
theorem insertCreateOutcome_agrees (o : ChildResult) (s : IState) (hwf : WFM s)
    (hgas : o.gasRemaining + s.gas.remaining < U64)
    (href : -(2^62 : Int) ≤ o.gasRefunded ∧ o.gasRefunded < 2^62)
    (hdepth : s.stack.length < 1024) :
    (insertCreateOutcome o s).toDone = insertCreateOutcomeRule o s := by
  unfold insertCreateOutcome insertCreateOutcomeRule
  have h0 : modifyS (fun s => { s with returnData := if o.result.isRevert then o.output else [] }) s
      = .ok () { s with returnData := if o.result.isRevert then o.output else [] } := rfl
  rw [bind_ok _ _ _ _ _ h0]
  by_cases hok : o.result.isOk = true
  · rw [if_pos hok, if_neg (not_fatal_of_ok hok)]
    unfold settle
    rw [if_pos hok]
    rw [bind_ok _ _ _ _ _ (outcome_push_ok _ _ (by exact hdepth))]
    rw [settleOk_eq _ _ _ (by exact hgas) (by exact hwf.refund) href]
    simp only [hok, if_true]
    rfl
  · rw [if_neg hok]
    by_cases hrev : o.result.isRevert = true
    · rw [if_pos hrev, if_neg (not_fatal_of_revert hrev)]
      unfold settle
      rw [if_neg hok, if_pos hrev]
      rw [bind_ok _ _ _ _ _ (outcome_push_ok _ _ (by exact hdepth))]
      rw [settleRevert_eq _ _ (by exact hgas)]
      simp only [hok, hrev, if_true, if_false]
      rfl
    · rw [if_neg hrev]
      by_cases hfat : o.result = .FatalExternalError
      · rw [if_pos hfat, if_pos hfat]
        rfl
      · rw [if_neg hfat, if_neg hfat]
        unfold settle
        rw [if_neg hok, if_neg hrev]
        rw [outcome_push_ok _ _ (by exact hdepth)]
        simp only [hok, hrev, if_true, if_false]
        rfl

end Revm.Proofs.EvmStep2
