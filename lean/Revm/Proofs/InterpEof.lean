import Revm.Proofs.InterpEofInstr
/-! C25, EOF part 3: the instructions that leave the section (CALLF, RETF, JUMPF) or the frame (EOFCREATE,
RETURNCONTRACT, EXTCALL, EXTDELEGATECALL, EXTSTATICCALL), PUSHn / JUMP / JUMPI inside EOF code, and `step` as a whole
for a well-formed container. -/
set_option linter.unusedSimpArgs false
set_option linter.unusedVariables false
namespace Revm.Proofs.Interp
open Revm Revm.Model Revm.Model.Interp
open Revm.Proofs.Memory (WF)

/-- the state right after the opcode fetch at boundary `i` of the running section `sec` of a well-formed
container `c` -/
structure StartE (K : EofCtx) (s0 : IState) (c : EofCtx) (sec : List Nat) (i : Nat) : Prop extends Base s0 where
  isEof : s0.isEof = true
  jt : s0.jumpTable = []
  eof : s0.eof = some c
  ok : CtxOk c
  hsec : c.sections[c.curIdx]? = some sec
  code : s0.code = sec
  bdry : i ∈ boundaries sec
  pc : s0.pc = i + 1
  static : StaticEq K c

/-- the frame continues with the invariant of EOF code, at least 1 gas poorer -/
def NextE (K : EofCtx) (s0 s' : IState) : Prop := InvE K s' ∧ measure s' + 1 ≤ measure s0

def ActE (K : EofCtx) (s0 : IState) (a : Action) (s' : IState) : Prop :=
  InvE K s' ∧ measure s' + a.gasLimit + 1 ≤ measure s0 ∧ RetOk a (clen s'.mem)

section eof
variable {K : EofCtx} {s0 : IState} {c : EofCtx} {sec : List Nat} {i : Nat}

theorem StartE.rel (hs : StartE K s0 c sec i) : Rel 0 false false 0 s0 s0 := hs.toBase.rel

/-- a state that differs from `s0` by what `Core` allows and whose instruction pointer is at a boundary -/
theorem StartE.invE (hs : StartE K s0 c sec i) {k : Nat} {st ne : Bool} {L : Nat} {s' : IState}
    (hc : Core k st ne L s0 s') (hpc : s'.pc ∈ boundaries sec) : InvE K s' :=
  { toBase := hs.toBase.ofRes hc.toRes
    isEof := by rw [hc.isEof]; exact hs.isEof
    jt := by rw [hc.jt]; exact hs.jt
    ctx := ⟨c, sec, by rw [hc.eofc]; exact hs.eof, hs.ok, hs.hsec, by rw [hc.code]; exact hs.code, hpc⟩
    static := by
      intro c1 h1
      rw [hc.eofc, hs.eof] at h1
      injection h1 with h1
      subst h1
      exact hs.static }

theorem StartE.nextT (hs : StartE K s0 c sec i) {s' : IState} (h : DoneT (· ∈ boundaries sec) s0 s') :
    NextE K s0 s' := by
  obtain ⟨k, st, ne, L, hk, hc, hpc⟩ := h
  exact ⟨hs.invE hc hpc, by have := hc.meas; omega⟩

theorem StartE.next1 (hs : StartE K s0 c sec i) (hb : i + 1 ∈ boundaries sec) {s' : IState}
    (h : Done1 s0 s') : NextE K s0 s' :=
  hs.nextT (h.toT (by rw [hs.pc]; exact hb))

theorem StartE.act (hs : StartE K s0 c sec i) (hb : i + 1 ∈ boundaries sec) {a : Action} {s' : IState}
    (h : ActRel s0 a s') : ActE K s0 a s' := by
  obtain ⟨k, st, ne, L, hr, hk, hret⟩ := h
  refine ⟨hs.invE hr.toCore (by rw [hr.pc, hs.pc]; exact hb), by have := hr.meas; omega, ?_⟩
  cases a with
  | call ci =>
    rcases hret with h0 | ⟨h1, h2⟩
    · exact Or.inl h0
    · exact Or.inr ⟨h1, Nat.le_trans h2 hr.memL⟩
  | create ci => trivial
  | eofCreate ci => trivial

theorem StartE.lt (hs : StartE K s0 c sec i) : i < sec.length := ((hs.ok.wf.secs _ _ hs.hsec).2.2 _ hs.bdry).1

theorem StartE.bytes (hs : StartE K s0 c sec i) : ∀ b ∈ sec, b < 256 := (hs.ok.wf.secs _ _ hs.hsec).1

theorem StartE.instrOk (hs : StartE K s0 c sec i) :
    instrOk (boundaries sec) c.types c.containers c.curIdx sec i = true :=
  ((hs.ok.wf.secs _ _ hs.hsec).2.2 _ hs.bdry).2

/-! ### PUSHn, JUMP, JUMPI in EOF code -/

theorem pushI_satT {T : Nat → Prop} (h : Rel 0 false false 0 s0 s0) (n : Nat)
    (hin : s0.pc + n ≤ s0.code.length) (ht : T (s0.pc + n)) :
    Exec.Sat (pushI n s0) (Halt s0) (fun _ s' => DoneT T s0 s') := by
  unfold pushI
  refine sat_bind (gasCharge_sat h _) ?_
  intro _ s1 h1
  have hpc : s1.pc + n ≤ s1.code.length := by rw [h1.pc, h1.code]; exact hin
  refine sat_bind (m := codeSlice n) (Q := fun _ s' => s1 = s') ?_ ?_
  · unfold codeSlice; rw [if_pos hpc]; exact sat_ok rfl
  · rintro bs _ rfl
    refine sat_bind (stackCall_sat (h1.mkStrict (by decide)) _ (.pushSlice bs) trivial ?_) ?_
    · intro d
      exact ⟨rfl, fun e => by show Stack.Out.ofUnit _ = _; rw [e]; rfl,
        fun e => by show Stack.Out.ofUnit _ = _; rw [e]; rfl⟩
    · intro _ s2 h2
      exact advancePc_sat h2 (by decide) n (by rw [h2.pc]; exact ht)

/-- without a jump table (EOF code) a legacy jump never succeeds -/
theorem jumpInner_halts {k : Nat} {st ne : Bool} {L : Nat} {s : IState} {Q : Unit → IState → Prop}
    (h : Rel k st ne L s0 s) (hjt : s0.jumpTable = []) (target : Nat) :
    Exec.Sat (jumpInner target s) (Halt s0) Q := by
  unfold jumpInner
  refine sat_bind (asUsizeOrFail_sat h target _) ?_
  rintro t _ ⟨rfl, _⟩
  refine sat_bind (getS_sat h) ?_
  rintro _ _ ⟨rfl, rfl⟩
  have : Jump.isValid s.jumpTable t = false := by
    rw [h.jt, hjt]; unfold Jump.isValid; simp
  rw [this]
  simp only [Bool.not_false, if_true]
  exact haltWith_sat h _

theorem jumpI_halts {Q : Unit → IState → Prop} (h : Rel 0 false false 0 s0 s0) (hjt : s0.jumpTable = []) :
    Exec.Sat (jumpI s0) (Halt s0) Q := by
  unfold jumpI
  refine sat_bind (gasCharge_sat h _) ?_
  intro _ s1 h1
  refine sat_bind (pop1_sat h1) ?_
  intro target s2 h2
  exact jumpInner_halts h2 hjt target

theorem jumpiI_satE (h : Rel 0 false false 0 s0 s0) (hjt : s0.jumpTable = []) :
    Exec.Sat (jumpiI s0) (Halt s0) (fun _ s' => Done1 s0 s') := by
  unfold jumpiI
  refine sat_bind (gasCharge_sat h _) ?_
  intro _ s1 h1
  refine sat_bind (pop2_sat h1) ?_
  rintro ⟨target, cond⟩ s2 h2
  show Exec.Sat ((if cond ≠ 0 then jumpInner target else pure ()) s2) _ _
  split
  · exact jumpInner_halts h2 hjt target
  · exact sat_pure (done1_of h2 (by decide))

/-! ### CALLF, RETF, JUMPF -/

/-- the state after `load_eof_code(idx, pc)` with an updated function stack -/
theorem invE_load {k : Nat} {st ne : Bool} {L : Nat} {s : IState} (hs : StartE K s0 c sec i)
    (h : Rel k st ne L s0 s) (c' : EofCtx) (sec' : List Nat) (p : Nat)
    (e1 : c'.sections = c.sections) (e2 : c'.types = c.types) (e3 : c'.containers = c.containers)
    (e4 : c'.data = c.data)
    (hcur : c'.curIdx < c'.sections.length) (hdepth : c'.retStack.length ≤ 1024)
    (hframes : FramesOk c'.sections c'.types c'.curIdx c'.retStack)
    (hsec : c'.sections[c'.curIdx]? = some sec') (hp : p ∈ boundaries sec') :
    InvE K { s with eof := some c', code := sec', origLen := sec'.length, pc := p } :=
  { toBase :=
      { (hs.toBase.ofRes h.toRes) with }
    isEof := by show s.isEof = true; rw [h.isEof]; exact hs.isEof
    jt := by show s.jumpTable = []; rw [h.jt]; exact hs.jt
    ctx := ⟨c', sec', rfl,
      { wf := by
          show WfStatic c'.sections c'.types c'.containers c'.data
          rw [e1, e2, e3, e4]; exact hs.ok.wf
        cur := hcur, depth := hdepth, frames := hframes }, hsec, rfl, hp⟩
    static := by
      intro c1 h1
      have h1' : some c' = some c1 := h1
      injection h1' with h1'
      subst h1'
      exact ⟨e1.trans hs.static.sections, e2.trans hs.static.types, e3.trans hs.static.containers,
        e4.trans hs.static.data⟩ }

theorem callfI_sat (hs : StartE K s0 c sec i) (himm : i + 3 ≤ sec.length)
    (hnext : i + 3 ∈ boundaries sec) (hidx : u16At sec (i + 1) < c.types.length) :
    Exec.Sat (callfI s0) (Halt s0) (fun _ s' => NextE K s0 s') := by
  have h := hs.rel
  unfold callfI
  refine sat_bind (requireEof_pass h hs.isEof) ?_
  rintro _ _ rfl
  refine sat_bind (gasCharge_sat h _) ?_
  intro _ s1 h1
  refine sat_bind (readU16_sat h1 0 (by rw [h1.pc, h1.code, hs.code, hs.pc]; omega)) ?_
  rintro idx _ ⟨rfl, hidxv⟩
  rw [h1.pc, h1.code, hs.code, hs.pc, Nat.add_zero] at hidxv
  subst hidxv
  refine sat_bind (getEof_sat h1 (by rw [h1.eofc]; exact hs.eof)) ?_
  rintro c' _ ⟨rfl, hc'⟩
  rw [hc']
  split
  · exact haltWith_sat h1 _
  · rename_i hdepth
    have hsome : c.types[u16At sec (i + 1)]? = some (c.types[u16At sec (i + 1)]'hidx) :=
      List.getElem?_eq_getElem hidx
    rw [hsome]
    simp only []
    refine sat_bind (getS_sat h1) ?_
    rintro _ _ ⟨rfl, rfl⟩
    split
    · exact haltWith_sat h1 _
    · -- `function_stack.push(pc + 2, idx)`, then `load_eof_code(idx, 0)`
      have hidx' : u16At sec (i + 1) < c.sections.length := by rw [← hs.ok.wf.typesLen]; exact hidx
      have hsec' : c.sections[u16At sec (i + 1)]? = some (c.sections[u16At sec (i + 1)]'hidx') :=
        List.getElem?_eq_getElem hidx'
      refine sat_bind (m := setEof _) (Q := fun _ x => x = { s1 with eof := some { c with retStack := (c.curIdx, s1.pc + 2) :: c.retStack, curIdx := u16At sec (i + 1) } }) ?_ ?_
      · refine sat_ok ?_
        show { s1 with eof := s1.eof.map _ } = _
        rw [h1.eofc, hs.eof]; rfl
      · rintro _ _ rfl
        unfold loadEofCode
        simp only []
        rw [hsec']
        simp only []
        refine sat_ok ⟨?_, ?_⟩
        · refine invE_load hs h1
            { c with retStack := (c.curIdx, s1.pc + 2) :: c.retStack, curIdx := u16At sec (i + 1) }
            _ 0 rfl rfl rfl rfl hidx' ?_ ?_ hsec' (hs.ok.wf.secs _ _ hsec').2.1
          · show (c.retStack.length + 1) ≤ 1024
            omega
          · show (∃ sec', c.sections[c.curIdx]? = some sec' ∧ s1.pc + 2 ∈ boundaries sec') ∧
              FramesOk c.sections c.types c.curIdx c.retStack
            refine ⟨⟨sec, hs.hsec, ?_⟩, hs.ok.frames⟩
            rw [h1.pc, hs.pc]
            have : i + 1 + 2 = i + 3 := by omega
            rw [this]; exact hnext
        · have := h1.meas
          show measure s1 + 1 ≤ measure s0
          have h5 : (0 : Nat) + GasCalc.LOW = 5 := rfl
          omega

theorem retfI_sat (hs : StartE K s0 c sec i) (hret : returning (typeOf c.types c.curIdx) = true) :
    Exec.Sat (retfI s0) (Halt s0) (fun _ s' => NextE K s0 s') := by
  have h := hs.rel
  unfold retfI
  refine sat_bind (requireEof_pass h hs.isEof) ?_
  rintro _ _ rfl
  refine sat_bind (gasCharge_sat h _) ?_
  intro _ s1 h1
  refine sat_bind (getEof_sat h1 (by rw [h1.eofc]; exact hs.eof)) ?_
  rintro c' _ ⟨rfl, hc'⟩
  rw [hc']
  have hfr := hs.ok.frames
  cases hrs : c.retStack with
  | nil =>
    rw [hrs] at hfr
    have : returning (typeOf c.types c.curIdx) = false := hfr
    rw [this] at hret; cases hret
  | cons f rest =>
    obtain ⟨idx, pc⟩ := f
    rw [hrs] at hfr
    obtain ⟨⟨sec', hsec', hpc'⟩, hrest⟩ := hfr
    simp only []
    have hidx' : idx < c.sections.length := by
      rcases Nat.lt_or_ge idx c.sections.length with hh | hh
      · exact hh
      · rw [List.getElem?_eq_none hh] at hsec'; cases hsec'
    refine sat_bind (m := setEof _) (Q := fun _ x => x = { s1 with eof := some { c with retStack := rest, curIdx := idx } }) ?_ ?_
    · refine sat_ok ?_
      show { s1 with eof := s1.eof.map _ } = _
      rw [h1.eofc, hs.eof]; rfl
    · rintro _ _ rfl
      unfold loadEofCode
      simp only []
      rw [hsec']
      simp only []
      refine sat_ok ⟨?_, ?_⟩
      · refine invE_load hs h1 { c with retStack := rest, curIdx := idx } sec' pc rfl rfl rfl rfl hidx' ?_ hrest
          hsec' hpc'
        have := hs.ok.depth
        rw [hrs] at this
        show rest.length ≤ 1024
        simp only [List.length_cons] at this; omega
      · have := h1.meas
        show measure s1 + 1 ≤ measure s0
        have h3 : (0 : Nat) + GasCalc.RETF_GAS = 3 := rfl
        omega

theorem jumpfI_sat (hs : StartE K s0 c sec i) (himm : i + 3 ≤ sec.length)
    (hidx : u16At sec (i + 1) < c.types.length)
    (hty : returning (typeOf c.types (u16At sec (i + 1))) = true → returning (typeOf c.types c.curIdx) = true) :
    Exec.Sat (jumpfI s0) (Halt s0) (fun _ s' => NextE K s0 s') := by
  have h := hs.rel
  unfold jumpfI
  refine sat_bind (requireEof_pass h hs.isEof) ?_
  rintro _ _ rfl
  refine sat_bind (gasCharge_sat h _) ?_
  intro _ s1 h1
  refine sat_bind (readU16_sat h1 0 (by rw [h1.pc, h1.code, hs.code, hs.pc]; omega)) ?_
  rintro idx _ ⟨rfl, hidxv⟩
  rw [h1.pc, h1.code, hs.code, hs.pc, Nat.add_zero] at hidxv
  subst hidxv
  refine sat_bind (getEof_sat h1 (by rw [h1.eofc]; exact hs.eof)) ?_
  rintro c' _ ⟨rfl, hc'⟩
  rw [hc']
  have hsome : c.types[u16At sec (i + 1)]? = some (c.types[u16At sec (i + 1)]'hidx) :=
    List.getElem?_eq_getElem hidx
  rw [hsome]
  simp only []
  refine sat_bind (getS_sat h1) ?_
  rintro _ _ ⟨rfl, rfl⟩
  split
  · exact haltWith_sat h1 _
  · have hidx' : u16At sec (i + 1) < c.sections.length := by rw [← hs.ok.wf.typesLen]; exact hidx
    have hsec' : c.sections[u16At sec (i + 1)]? = some (c.sections[u16At sec (i + 1)]'hidx') :=
      List.getElem?_eq_getElem hidx'
    refine sat_bind (m := setEof _) (Q := fun _ x => x = { s1 with eof := some { c with curIdx := u16At sec (i + 1) } }) ?_ ?_
    · refine sat_ok ?_
      show { s1 with eof := s1.eof.map _ } = _
      rw [h1.eofc, hs.eof]; rfl
    · rintro _ _ rfl
      unfold loadEofCode
      simp only []
      rw [hsec']
      simp only []
      refine sat_ok ⟨?_, ?_⟩
      · refine invE_load hs h1 { c with curIdx := u16At sec (i + 1) } _ 0 rfl rfl rfl rfl hidx' hs.ok.depth ?_
          hsec' (hs.ok.wf.secs _ _ hsec').2.1
        show FramesOk c.sections c.types (u16At sec (i + 1)) c.retStack
        have hfr := hs.ok.frames
        cases hrs : c.retStack with
        | nil =>
          rw [hrs] at hfr
          have hcur : returning (typeOf c.types c.curIdx) = false := hfr
          show returning (typeOf c.types (u16At sec (i + 1))) = false
          cases ht : returning (typeOf c.types (u16At sec (i + 1))) with
          | false => rfl
          | true => rw [hty ht] at hcur; cases hcur
        | cons f rest =>
          rw [hrs] at hfr
          obtain ⟨idx, pc⟩ := f
          exact hfr
      · have := h1.meas
        show measure s1 + 1 ≤ measure s0
        have h5 : (0 : Nat) + GasCalc.LOW = 5 := rfl
        omega

end eof

end Revm.Proofs.Interp
