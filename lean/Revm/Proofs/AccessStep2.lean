import Revm.Proofs.AccessStep
/-! C34: the steps that open or close checkpoints, and transaction-level pre-warming. -/
namespace Revm.Proofs.Access
open Revm Revm.Model.Journal Revm.Spec.JournalAbs Revm.Proofs.Journal Revm.Spec.AccessHistory
open Revm.Spec.AccessSets (Access Sets State)
set_option linter.unusedSimpArgs false
set_option linter.unusedVariables false

section ops
variable {db : Db} {hasStorage : Addr → Bool} (hdb : DbOk db hasStorage) {l l' : Lock} (h : Sim db l)
include hdb h

/-- a step that hands out a checkpoint (`checkpoint`, or a creation that succeeds): the set machine saves a
copy; the C06 invariant for the new checkpoint starts here -/
theorem sim_opening {op : Op} {r' : Run} {cp : Checkpoint}
    (hadm : admissible db hasStorage 0 l.r op = true) (hnr : ∀ i, op ≠ .revert i)
    (hstep : step db l.r op = some r') (hcp : r'.cps = l.r.cps ++ [cp])
    (hsame : SetsEq (warmSets db r'.js) (warmSets db l.r.js)) (hbal : BalOk (absT db r'.js)) :
    Sim db { r := r', st := Spec.AccessSets.checkpoint l.st, open_ := l.open_ ++ [l.r.cps.length] } := by
  obtain ⟨hcpe, i0⟩ := inv_init hdb h.bal hadm hstep hcp
  have hlen : r'.cps.length = l.r.cps.length + 1 := by rw [hcp]; simp
  refine ⟨?_, hbal, ?_, ?_, ?_, h.preCur, ?_⟩
  · show SetsEq (warmSets db r'.js) l.st.cur
    exact SetsEq.trans hsame h.rel
  · show (l.st.snaps ++ [l.st.cur]).length = r'.cps.length
    rw [hlen]; simp [h.len]
  · intro i hi
    show i < r'.cps.length
    rw [hlen]
    rcases List.mem_append.1 hi with hi | hi
    · exact Nat.lt_succ_of_lt (h.lt i hi)
    · simp at hi; omega
  · show (l.open_ ++ [l.r.cps.length]).Pairwise (· < ·)
    rw [List.pairwise_append]
    exact ⟨h.sorted, by simp, fun a ha b hb => by simp at hb; rw [hb]; exact h.lt a ha⟩
  · intro i hi
    rcases List.mem_append.1 hi with hi | hi
    · obtain ⟨cp0, snap, x0, logs0, spec0, pre0, e1, e2, iv, e3, e4⟩ := h.inv i hi
      have hil := h.lt i hi
      refine ⟨cp0, snap, x0, logs0, spec0, pre0, ?_, ?_, ?_, e3, e4⟩
      · show r'.cps[i]? = some cp0
        rw [hcp, List.getElem?_append_left hil]; exact e1
      · show (l.st.snaps ++ [l.st.cur])[i]? = some snap
        rw [List.getElem?_append_left (by rw [h.len]; exact hil)]; exact e2
      · exact inv_step hdb iv (by rw [admissible_base db hasStorage (i+1) 0 l.r op hnr]; exact hadm) hstep
    · simp at hi; subst hi
      refine ⟨cp, l.st.cur, absT db l.r.js, l.r.js.logs, l.r.js.spec, l.r.js.preloaded, ?_, ?_, ?_, h.rel, h.preCur⟩
      · show r'.cps[l.r.cps.length]? = some cp
        rw [hcp]; simp
      · show (l.st.snaps ++ [l.st.cur])[l.r.cps.length]? = some l.st.cur
        rw [← h.len]; simp
      · have hJ : cp.journalI = l.r.js.journal.length := by rw [hcpe]; rfl
        have hL : cp.logI = l.r.js.logs.length := by rw [hcpe]; rfl
        rw [hJ, hL]; exact i0

theorem sim_step_checkpoint (hs : lockStep db hasStorage l .checkpoint = some l') : StepOk db l l' .checkpoint := by
  obtain ⟨hadm, r', o', st', bits, hstep, hwn, hsp, rfl⟩ := lockStep_some hs
  have hstep0 := hstep
  simp [step] at hstep; subst hstep
  simp [specStep] at hsp; obtain ⟨rfl, rfl⟩ := hsp
  simp [wnStep] at hwn; subst hwn
  exact ⟨sim_opening hdb h (op := .checkpoint) rfl (fun _ h => by cases h) hstep0 rfl (SetsEq.refl _) h.bal,
    fun hx => by simp [exposes] at hx⟩

theorem sim_step_create {c a : Addr} {hst : Bool} {bal spec : Nat}
    (hs : lockStep db hasStorage l (.create c a hst bal spec) = some l') :
    StepOk db l l' (.create c a hst bal spec) := by
  obtain ⟨hadm, r', o', st', bits, hstep, hwn, hsp, rfl⟩ := lockStep_some hs
  have hstep0 := hstep
  have hadm0 : admissible db hasStorage 0 l.r (.create c a hst bal spec) = true := hadm
  simp only [step] at hstep
  have hadm1 := hadm0
  simp only [admissible, Bool.and_eq_true, Bool.or_eq_true, Bool.not_eq_true'] at hadm1
  obtain ⟨⟨ha1, ha2⟩, ha3⟩ := hadm1
  have hcr : ∀ acc, l.r.js.state a = some acc → acc.created = false := by
    intro acc hacc; simp [hacc] at ha1; exact ha1
  have hcal : ∀ acc, l.r.js.state c = some acc → bal ≤ acc.info.balance := by
    intro acc hacc; simp [hacc] at ha3; exact ha3
  cases hc : createAccountCheckpoint l.r.js c a hst bal spec with
  | none => simp [hc] at hstep
  | some res =>
    obtain ⟨js', out⟩ := res
    have hp := create_pushes hdb h.bal hcr ha2 hcal hc
    cases out with
    | error e =>
      simp [hc] at hstep; subst hstep
      simp [specStep] at hsp; obtain ⟨rfl, rfl⟩ := hsp
      simp [wnStep] at hwn; subst hwn
      have w : Warms db l.r.js js' [] [] := Pushes.warms_nil hp NoWarm.nil
      exact ⟨sim_ordinary hdb (xs := []) h hstep0 rfl (fun _ h => by cases h) hadm0 w (hp.bal h.bal),
        fun hx => by simp [exposes] at hx⟩
    | ok cp =>
      simp [hc] at hstep; subst hstep
      simp [specStep] at hsp; obtain ⟨rfl, rfl⟩ := hsp
      simp [wnStep] at hwn; subst hwn
      obtain ⟨rfl, es, p, n⟩ := hp
      have w := p.warms_nil n
      refine ⟨sim_opening hdb h (op := .create c a hst bal spec) hadm0 (fun _ h => by cases h) hstep0 rfl
        ⟨fun b => ?_, fun b k => ?_⟩ (p.bal h.bal), fun hx => by simp [exposes] at hx⟩
      · have := w.addr b; rw [checkpoint_absT] at this; simpa [warmSets] using this
      · have := w.slot b k; rw [checkpoint_absT] at this; simpa [warmSets] using this

end ops

end Revm.Proofs.Access
