import Revm.Proofs.EvmStep2Prim
/-! BLOBHASH and the EOF-only opcode bytes in legacy code. -/
set_option linter.unusedSimpArgs false
set_option linter.unusedVariables false
namespace Revm.Proofs.EvmStep2
open Revm Revm.Model Revm.Model.Interp
open Revm.Model.GasCalc (enabled)
open Revm.Spec.EvmRules Revm.Spec.EvmRules2
open Revm.Proofs.EvmStep

theorem step_blobhash (s : IState) (hcode : s.code[s.pc]? = some 0x49) (hwf : WFM s) :
    step s = .pure (blobhashRule s) := by
  unfold step
  rw [hcode]
  have hdec : decode 0x49 = .blobhash := rfl
  simp only [hdec, execInstr, execPure]
  show Outcome.pure (blobhashI (adv s)).toDone = _
  congr 1
  unfold blobhashI blobhashRule unopRule
  by_cases hen : enabled s.spec GasCalc.SpecId.CANCUN = true
  · rw [bind_ok _ _ _ _ _ (check_ok _ (adv s) hen)]
    simp only [hen, Bool.not_true, Bool.false_eq_true, if_false]
    by_cases hg : s.gas.remaining < GasCalc.VERYLOW
    · rw [bind_halt _ _ _ _ _ _ (gasCharge_fail (adv s) _ hg), if_pos hg]; rfl
    · rw [bind_ok _ _ _ _ _ (gasCharge_ok (adv s) _ hwf.gas (by show _ ≤ s.gas.remaining; omega)), if_neg hg]
      have hst : (charge (adv s) GasCalc.VERYLOW).stack = s.stack := rfl
      have henv : (charge (adv s) GasCalc.VERYLOW).env = s.env := rfl
      show (M.bind popTop1 _ (charge (adv s) GasCalc.VERYLOW)).toDone = _
      generalize charge (adv s) GasCalc.VERYLOW = s2 at hst henv ⊢
      rcases hrev : s.stack.reverse with _ | ⟨a, rest⟩
      · have : s2.stack.length < 1 := by rw [hst, ← List.length_reverse, hrev]; decide
        have := popTop1_underflow s2 this
        simp only [M.bind, this]; rfl
      · have hs : s2.stack = rest.reverse ++ [a] := by rw [hst]; exact stack_of_reverse (pre := [a]) hrev
        have h1 := popTop1_ok s2 _ a hs
        simp only [M.bind, h1]
        show ((getS >>= fun s' => setTop (match s'.env.blobHashes[asUsizeSat a]? with | some h => h | none => 0)) s2).toDone = _
        rw [bind_ok _ _ _ _ _ (getS_ok s2)]
        have hmin : asUsizeSat a = min a (U64 - 1) := by
          unfold asUsizeSat U256.asU64Sat
          have hU := U64_val
          split <;> omega
        have e : (match s2.env.blobHashes[asUsizeSat a]? with | some h => h | none => 0)
            = (s.env.blobHashes[min a (U64 - 1)]?).getD 0 := by
          rw [henv, hmin]
          cases s.env.blobHashes[min a (U64 - 1)]? <;> rfl
        rw [e, setTop_ok s2 rest.reverse a _ hs]
        simp only [Exec.toDone, List.reverse_cons]
  · rw [bind_halt _ _ _ _ _ _ (check_fail _ (adv s) hen)]
    simp [hen, Exec.toDone]

/-- an opcode whose handler starts with `require_eof!` stops a legacy frame -/
theorem requireEof_legacy (s : IState) (h : s.isEof = false) :
    requireEof s = .halt .EOFOpcodeDisabledInLegacy [] s := by
  simp [requireEof, h]

/-- the instructions that exist only in EOF code -/
def IsEofOnly : Instr → Prop
  | .eofcreate | .extcall | .extdelegatecall | .extstaticcall | .rjump | .rjumpi | .rjumpv | .callf | .retf | .jumpf | .dupn | .swapn | .exchange
  | .dataload | .dataloadn | .datasize | .datacopy | .returndataload => True
  | _ => False

theorem step_eofOnly (s : IState) (op : Nat) (hcode : s.code[s.pc]? = some op) (hdec : IsEofOnly (decode op))
    (hl : Legacy s) : step s = .pure (eofOnlyRule s) := by
  unfold step
  rw [hcode]
  have hr : requireEof (adv s) = .halt .EOFOpcodeDisabledInLegacy [] (adv s) := requireEof_legacy (adv s) hl.1
  show execInstr (decode op) (adv s) = _
  generalize decode op = i at hdec ⊢
  cases i <;> first
    | exact hdec.elim
    | (simp only [execInstr, execPure]
       first
         | (unfold rjumpI; rw [bind_halt _ _ _ _ _ _ hr]; rfl)
         | (unfold rjumpiI; rw [bind_halt _ _ _ _ _ _ hr]; rfl)
         | (unfold rjumpvI; rw [bind_halt _ _ _ _ _ _ hr]; rfl)
         | (unfold callfI; rw [bind_halt _ _ _ _ _ _ hr]; rfl)
         | (unfold retfI; rw [bind_halt _ _ _ _ _ _ hr]; rfl)
         | (unfold jumpfI; rw [bind_halt _ _ _ _ _ _ hr]; rfl)
         | (unfold dupnI; rw [bind_halt _ _ _ _ _ _ hr]; rfl)
         | (unfold swapnI; rw [bind_halt _ _ _ _ _ _ hr]; rfl)
         | (unfold exchangeI; rw [bind_halt _ _ _ _ _ _ hr]; rfl)
         | (unfold dataloadI; rw [bind_halt _ _ _ _ _ _ hr]; rfl)
         | (unfold dataloadnI; rw [bind_halt _ _ _ _ _ _ hr]; rfl)
         | (unfold datasizeI; rw [bind_halt _ _ _ _ _ _ hr]; rfl)
         | (unfold datacopyI; rw [bind_halt _ _ _ _ _ _ hr]; rfl)
         | (unfold returndataloadI; rw [bind_halt _ _ _ _ _ _ hr]; rfl)
         | (unfold eofcreateI eofcreatePre hostCallAction; rw [bind_halt _ _ _ _ _ _ hr]; rfl)
         | (unfold extcallI hostCallOptAction; rw [bind_halt _ _ _ _ _ _ hr]; rfl)
         | (unfold extdelegatecallI hostCallOptAction; rw [bind_halt _ _ _ _ _ _ hr]; rfl)
         | (unfold extstaticcallI hostCallOptAction; rw [bind_halt _ _ _ _ _ _ hr]; rfl))

theorem step_returnContract (s : IState) (hcode : s.code[s.pc]? = some 0xee) (hl : Legacy s) :
    step s = .pure (returnContractRule s) := by
  unfold step
  rw [hcode]
  have hdec : decode 0xee = .returnContract := rfl
  simp only [hdec, execInstr, execPure]
  have h2 : (adv s).isEofInit = false := hl.2
  have hr : requireInitEof (adv s) = .halt .ReturnContractInNotInitEOF [] (adv s) := by
    simp [requireInitEof, h2]
  show Outcome.pure (returnContractI (adv s)).toDone = _
  unfold returnContractI
  rw [bind_halt _ _ _ _ _ _ hr]
  rfl

end Revm.Proofs.EvmStep2
