import Revm.Proofs.EvmRefineE3
/-! `make_call_frame` on the two machines, errors included. -/
set_option linter.unusedSimpArgs false
set_option linter.unusedVariables false
namespace Revm.Proofs.EvmRefine
open Revm Revm.Model Revm.Model.Journal Revm.Spec.JournalAbs Revm.Proofs.Journal Revm.Proofs.Frame
open Revm.Model.Evm
open Revm.Spec.Evm (Snap snapshotOps journalOpsStrict)
open Revm.Proofs.EvmRR Revm.Proofs.EvmSim

variable {ks1 : List Checkpoint} {ks2 : List Snap} {w1 w2 : World}

theorem callValueStep_rr (h : CfgRel ks1 w1 ks2 w2) (i : Interp.CallInputs) :
    RR (WV ks1 ks2) (callValueStep w1 i) (callValueStep w2 i) := by
  unfold callValueStep
  by_cases hv : i.valueTransfer = true
  · rw [if_pos hv, if_pos hv]
    by_cases hz : i.value = 0
    · rw [if_pos hz, if_pos hz]
      refine RR.bind (wLoadAccount_rr h _) ?_
      rintro ⟨wa, c⟩ ⟨wb, c'⟩ ⟨hc, hr⟩
      refine RR.bind (wTouch_rr hr _) ?_
      intro wc wd hr2
      exact RR.pure ⟨rfl, hr2⟩
    · rw [if_neg hz, if_neg hz]
      refine RR.bind (wTransfer_rr h _ _ _) ?_
      rintro ⟨wa, e⟩ ⟨wb, e'⟩ ⟨he, hr⟩
      simp only at he hr
      subst he
      cases e with
      | none => exact RR.pure ⟨rfl, hr⟩
      | some e => cases e <;> exact RR.pure ⟨rfl, hr⟩
  · rw [if_neg hv, if_neg hv]; exact RR.pure ⟨rfl, h⟩

theorem callCode_rr {k1 : Checkpoint} {k2 : Snap} (cfg : Cfg) (i : Interp.CallInputs) (mem : Memory.SharedMemory)
    (h : CfgRel (k1 :: ks1) w1 (k2 :: ks2) w2) :
    RR (ForRel CfgRel ks1 ks2) (callCode journalOpsStrict cfg w1 k1 i mem) (callCode snapshotOps cfg w2 k2 i mem) := by
  unfold callCode
  refine RR.bind (RR.withEq (wLoadCode_rr h i.bytecodeAddress)) ?_
  rintro ⟨wa, c⟩ ⟨wb, c'⟩ ⟨⟨hc, hr⟩, h1, h2⟩
  simp only at hc hr
  subst hc
  refine RR.bind (acct_rr hr _) ?_
  intro x y hxy
  rw [fetch_info _ h1 h2 hr hxy]
  refine RR.bind (RR.same _) ?_
  intro hh hh' ehh
  subst ehh
  rw [hr.codeOf hh]
  refine RR.bind (RR.same _) ?_
  intro bytecode bytecode' ec
  subst ec
  by_cases hem : bytecode.isEmpty = true
  · simp only [hem, if_true]
    exact RR.pure ⟨rfl, commit_rel hr⟩
  · simp only [hem, Bool.false_eq_true, if_false]
    cases hd : delegateOf bytecode with
    | none =>
      simp only [pure_bind]
      exact RR.pure ⟨⟨rfl, rfl⟩, hr⟩
    | some d =>
      simp only [bind_assoc, pure_bind]
      refine RR.bind (RR.withEq (wLoadCode_rr hr d)) ?_
      rintro ⟨wc, c3⟩ ⟨wd, c3'⟩ ⟨⟨hc3, hr3⟩, h3, h4⟩
      simp only at hc3 hr3
      subst hc3
      refine RR.bind (acct_rr hr3 _) ?_
      intro x3 y3 hxy3
      rw [fetch_info _ h3 h4 hr3 hxy3]
      refine RR.bind (RR.same _) ?_
      intro dh dh' edh
      subst edh
      rw [hr3.codeOf dh]
      refine RR.bind (RR.same _) ?_
      intro dcode dcode' edc
      subst edc
      exact RR.pure ⟨⟨rfl, rfl⟩, hr3⟩

theorem callPrecompile_rr {k1 : Checkpoint} {k2 : Snap} (cfg : Cfg) (i : Interp.CallInputs) (mem : Memory.SharedMemory)
    (h : CfgRel (k1 :: ks1) w1 (k2 :: ks2) w2) :
    RR (ForRel CfgRel ks1 ks2) (callPrecompile journalOpsStrict cfg w1 k1 i mem)
      (callPrecompile snapshotOps cfg w2 k2 i mem) := by
  unfold callPrecompile
  rw [runPrecompile_eq h]
  refine RR.bind (RR.same _) ?_
  intro o o' ho
  subst ho
  have rev : ∀ (x : Interp.IResult), RR (ForRel CfgRel ks1 ks2)
      (journalOpsStrict.revert w1 k1 >>= fun w => pure (FrameOrResult.result (earlyResult x i.gasLimit), w))
      (snapshotOps.revert w2 k2 >>= fun w => pure (FrameOrResult.result (earlyResult x i.gasLimit), w)) :=
    fun x => RR.bind (revert_rr h) (fun a b hab => RR.pure ⟨rfl, hab⟩)
  cases o with
  | none => exact callCode_rr cfg i mem h
  | some res =>
    cases res with
    | ok gasUsed out =>
      simp only
      by_cases hg : gasUsed ≤ i.gasLimit
      · simp only [hg, if_true]; exact RR.pure ⟨rfl, commit_rel h⟩
      · simp only [hg, if_false]; exact rev _
    | err e => simp only; exact rev _
    | panic => exact RR.throw trivial

/-- the `callFrame` obligation, errors included -/
theorem makeCallFrame_rr (cfg : Cfg) (i : Interp.CallInputs) (mem : Memory.SharedMemory) (h : CfgRel ks1 w1 ks2 w2) :
    RR (ForRel CfgRel ks1 ks2) (makeCallFrame journalOpsStrict cfg w1 i mem) (makeCallFrame snapshotOps cfg w2 i mem) := by
  rw [makeCallFrame_eq, makeCallFrame_eq]
  rw [← h.w.rel.depth]
  by_cases hd : w1.js.depth > CALL_STACK_LIMIT
  · simp only [hd, if_true]; exact RR.pure ⟨rfl, h⟩
  · simp only [hd, if_false]
    refine RR.bind (wLoadAccountDelegated_rr h _) ?_
    rintro ⟨wa, r⟩ ⟨wb, r'⟩ ⟨_, hr⟩
    have hcp : CfgRel ((journalOpsStrict.checkpoint wa).2 :: ks1) (journalOpsStrict.checkpoint wa).1
        ((snapshotOps.checkpoint wb).2 :: ks2) (snapshotOps.checkpoint wb).1 := checkpoint_rel hr
    refine RR.bind (callValueStep_rr hcp i) ?_
    rintro ⟨wc, f⟩ ⟨wd, f'⟩ ⟨hf, hr2⟩
    simp only at hf hr2
    subst hf
    cases f with
    | none => exact callPrecompile_rr cfg i mem hr2
    | some r =>
      exact RR.bind (revert_rr hr2) (fun a b hab => RR.pure ⟨rfl, hab⟩)

end Revm.Proofs.EvmRefine
