import Revm.Proofs.EvmRefineFwd
/-! The world-level operations and the host of the interpreter: journal machine vs snapshot machine. -/
set_option linter.unusedSimpArgs false
set_option linter.unusedVariables false
namespace Revm.Proofs.EvmRefine
open Revm Revm.Model Revm.Model.Journal Revm.Spec.JournalAbs Revm.Proofs.Journal Revm.Proofs.Frame
open Revm.Model.Evm (World PreAcct CpOps journalOps R ofOpt)
open Revm.Spec.Evm (Snap snapshotOps)

theorem ofOpt_ok {α : Type} {msg : String} {o : Option α} {x : α} (h : ofOpt msg o = .ok x) : o = some x := by
  cases o with
  | none => simp [ofOpt] at h
  | some y => simp only [ofOpt, Except.ok.injEq] at h; rw [h]

theorem ofOpt_some {α : Type} (msg : String) (x : α) : ofOpt msg (some x) = .ok x := rfl

variable {ks1 : List Checkpoint} {ks2 : List Snap} {w1 w2 : World}

theorem CfgRel.db2 (h : CfgRel ks1 w1 ks2 w2) : w2.db.basic = (dbPre w1.pre).basic := by rw [db_basic, h.w.pre]
theorem CfgRel.st2 (h : CfgRel ks1 w1 ks2 w2) : w2.db.storage = (dbPre w1.pre).storage := by rw [db_storage, h.w.pre]

/-- `w'` is `w` with the journal state replaced and the addresses of `l` noted -/
def Upd (w w' : World) (j' : JState) (l : List Addr) : Prop :=
  w'.js = j' ∧ w'.pre = w.pre ∧ w'.codes = w.codes ∧ w'.logs = w.logs ∧ w'.pcOracle = w.pcOracle ∧
  w'.dbHasStorage = w.dbHasStorage ∧ ∀ b, w'.addrs.contains b = (w.addrs.contains b || l.contains b)

theorem Upd.js (w : World) (j' : JState) : Upd w { w with js := j' } j' [] :=
  ⟨rfl, rfl, rfl, rfl, rfl, rfl, fun b => by simp⟩

theorem Upd.note {w w' : World} {j' : JState} {l : List Addr} (h : Upd w w' j' l) (a : Addr) :
    Upd w (w'.noteAddr a) j' (l ++ [a]) := by
  obtain ⟨a1, a2, a3, a4, a5, a6, a7⟩ := h
  have f := noteAddr_fields w' a
  refine ⟨f.1.trans a1, f.2.1.trans a2, f.2.2.1.trans a3, f.2.2.2.1.trans a4, f.2.2.2.2.1.trans a5,
    f.2.2.2.2.2.1.trans a6, ?_⟩
  intro b; rw [noteAddr_contains, a7 b]
  by_cases hb : b = a
  · subst hb; simp
  · have : (b == a) = false := by simpa using hb
    simp [this, hb]

theorem Upd.slot {w w' : World} {j' : JState} {l : List Addr} (h : Upd w w' j' l) (a k : Nat) :
    Upd w (w'.noteSlot a k) j' l := by
  obtain ⟨a1, a2, a3, a4, a5, a6, a7⟩ := h
  have f := noteSlot_fields w' a k
  refine ⟨f.1.trans a1, f.2.1.trans a2, f.2.2.1.trans a3, f.2.2.2.1.trans a4, f.2.2.2.2.1.trans a5,
    f.2.2.2.2.2.1.trans a6, ?_⟩
  intro b; rw [f.2.2.2.2.2.2, a7 b]

/-- a forward step of both machines, in the shape the world operations have -/
theorem CfgRel.step {w1' w2' : World} {j' s' : JState} {l1 l2 l : List Addr} (h : CfgRel ks1 w1 ks2 w2)
    (u1 : Upd w1 w1' j' l1) (u2 : Upd w2 w2' s' l2) (hrel : JRel (dbPre w1.pre) j' s')
    (hf : Fwd (dbPre w1.pre) (hsPre w1.pre) w1.js j') (hdom : Dom w2.js s' l)
    (hl : ∀ b, l2.contains b = l.contains b) : CfgRel ks1 w1' ks2 w2' := by
  obtain ⟨a1, a2, a3, a4, a5, a6, a7⟩ := u1
  obtain ⟨b1, b2, b3, b4, b5, b6, b7⟩ := u2
  refine h.fwd a2 b2 (by rw [a3, b3]; exact h.w.codes) (by rw [a4, b4]; exact h.w.logs)
    (by rw [a5, b5]; exact h.w.pc) (by rw [a6]; exact h.w.hs1) (by rw [b6]; exact h.w.hs2)
    (by rw [a1, b1]; exact hrel) (by rw [a1]; exact hf) (l := l) (by rw [b1]; exact hdom) ?_
  intro b; rw [b7 b, hl b]

/-- `World.loadAccount` -/
theorem wLoadAccount_rel (h : CfgRel ks1 w1 ks2 w2) {a : Addr} {w1' : World} {c : Bool}
    (hl : w1.loadAccount a = .ok (w1', c)) : ∃ w2', w2.loadAccount a = .ok (w2', c) ∧ CfgRel ks1 w1' ks2 w2' := by
  unfold World.loadAccount at hl ⊢
  simp only [bind, Except.bind] at hl ⊢
  cases ho : ofOpt "load_account" (Journal.loadAccount w1.db w1.js a) with
  | error e => rw [ho] at hl; simp at hl
  | ok p =>
    obtain ⟨j', c'⟩ := p
    rw [ho] at hl
    simp only [pure, Except.pure, Except.ok.injEq, Prod.mk.injEq] at hl
    obtain ⟨hl1, hl2⟩ := hl
    subst hl1; subst hl2
    have hj := ofOpt_ok ho
    rw [loadAccount_congr (db_basic w1)] at hj
    obtain ⟨s', hs', hrel, hdom⟩ := loadAccount_rel' h.w.rel (dbCode_pre _) hj
    rw [loadAccount_congr h.db2, hs']
    exact ⟨_, rfl, h.step ((Upd.js w1 j').note a) ((Upd.js w2 s').note a) hrel
      (loadAccount_fwd h.w.dbBal h.good hj) hdom (fun b => by simp)⟩

/-- `World.loadCode` -/
theorem wLoadCode_rel (h : CfgRel ks1 w1 ks2 w2) {a : Addr} {w1' : World} {c : Bool}
    (hl : w1.loadCode a = .ok (w1', c)) : ∃ w2', w2.loadCode a = .ok (w2', c) ∧ CfgRel ks1 w1' ks2 w2' := by
  unfold World.loadCode at hl ⊢
  simp only [bind, Except.bind] at hl ⊢
  cases ho : ofOpt "load_code" (Journal.loadCode w1.db w1.js a) with
  | error e => rw [ho] at hl; simp at hl
  | ok p =>
    obtain ⟨j', c'⟩ := p
    rw [ho] at hl
    simp only [pure, Except.pure, Except.ok.injEq, Prod.mk.injEq] at hl
    obtain ⟨hl1, hl2⟩ := hl
    subst hl1; subst hl2
    have hj := ofOpt_ok ho
    rw [loadCode_congr (db_basic w1)] at hj
    obtain ⟨s', hs', hrel, hdom⟩ := loadCode_rel h.w.rel (dbCode_pre _) hj
    rw [loadCode_congr h.db2, hs']
    exact ⟨_, rfl, h.step ((Upd.js w1 j').note a) ((Upd.js w2 s').note a) hrel
      (loadCode_fwd h.w.dbBal h.good hj) hdom (fun b => by simp)⟩

/-- `World.touch` -/
theorem wTouch_rel (h : CfgRel ks1 w1 ks2 w2) {a : Addr} {w1' : World}
    (hl : w1.touch a = .ok w1') : ∃ w2', w2.touch a = .ok w2' ∧ CfgRel ks1 w1' ks2 w2' := by
  unfold World.touch at hl ⊢
  simp only [bind, Except.bind] at hl ⊢
  cases ho : ofOpt "touch" (Journal.touch w1.js a) with
  | error e => rw [ho] at hl; simp at hl
  | ok j' =>
    rw [ho] at hl
    simp only [pure, Except.pure, Except.ok.injEq] at hl
    subst hl
    have hj := ofOpt_ok ho
    obtain ⟨s', hs', hrel, hdom⟩ := touch_rel h.w.rel hj
    rw [hs']
    exact ⟨_, rfl, h.step (Upd.js w1 j') (Upd.js w2 s') hrel (touch_fwd h.w.dbBal h.good hj) hdom (fun b => rfl)⟩

theorem transfer_congr {db db' : Db} (hb : db'.basic = db.basic) (s : JState) (a b v : Nat) :
    transfer db' s a b v = transfer db s a b v := by
  unfold transfer; simp only [loadAccount_congr hb]

/-- `World.transfer` -/
theorem wTransfer_rel (h : CfgRel ks1 w1 ks2 w2) {a b v : Nat} {w1' : World} {e : Option TransferErr}
    (hl : w1.transfer a b v = .ok (w1', e)) : ∃ w2', w2.transfer a b v = .ok (w2', e) ∧ CfgRel ks1 w1' ks2 w2' := by
  unfold World.transfer at hl ⊢
  simp only [bind, Except.bind] at hl ⊢
  cases ho : ofOpt "transfer" (Journal.transfer w1.db w1.js a b v) with
  | error e => rw [ho] at hl; simp at hl
  | ok p =>
    obtain ⟨j', e'⟩ := p
    rw [ho] at hl
    simp only [pure, Except.pure, Except.ok.injEq, Prod.mk.injEq] at hl
    obtain ⟨hl1, hl2⟩ := hl
    subst hl1; subst hl2
    have hj := ofOpt_ok ho
    rw [transfer_congr (db_basic w1)] at hj
    obtain ⟨s', hs', hrel, hdom⟩ := transfer_rel h.w.rel (dbCode_pre _) hj
    rw [transfer_congr h.db2, hs']
    exact ⟨_, rfl, h.step (((Upd.js w1 j').note a).note b) (((Upd.js w2 s').note a).note b) hrel
      (transfer_fwd h.w.dbBal h.good hj) hdom (fun b => by simp)⟩

theorem db_eq_of {w w' : World} (hp : w'.pre = w.pre) (hc : w'.codes = w.codes) : w'.db = w.db := by
  unfold World.db World.preAcct World.codeOf
  rw [hp, hc]

/-- after `load_account_delegated` the code cache of the account is filled -/
theorem loadAccountDelegated_cached {dbw : Db} {s s' : JState} {a : Addr} {r}
    (h : loadAccountDelegated dbw s a = some (s', r)) : ∃ acc hh, s'.state a = some acc ∧ acc.info.code = some hh := by
  simp only [loadAccountDelegated, bind, Option.bind] at h
  cases h1 : loadCode dbw s a with
  | none => rw [h1] at h; simp at h
  | some p1 =>
    obtain ⟨s1, c1⟩ := p1
    rw [h1] at h
    obtain ⟨x, hh, hx, hcx⟩ := loadCode_cached h1
    simp only at h
    rw [hx] at h
    simp only at h
    cases hd : Option.bind x.info.code dbw.delegate with
    | none =>
      simp only [bind, Option.bind] at hd
      rw [hd] at h
      simp only [Option.some.injEq, Prod.mk.injEq] at h
      rw [← h.1]; exact ⟨x, hh, hx, hcx⟩
    | some d =>
      simp only [bind, Option.bind] at hd
      rw [hd] at h
      simp only at h
      cases h2 : loadAccount dbw s1 d with
      | none => rw [h2] at h; simp at h
      | some p2 =>
        obtain ⟨s2, c2⟩ := p2
        rw [h2] at h
        simp only [Option.some.injEq, Prod.mk.injEq] at h
        rw [← h.1]
        obtain ⟨x', hx', hi⟩ := loadAccount_info h2 a x hx
        exact ⟨x', hh, hx', by rw [hi]; exact hcx⟩

/-- both machines note the same delegate -/
theorem dlg_same {db dbw : Db} {j s j' s' : JState} {a : Addr} {r}
    (h1 : loadAccountDelegated dbw j a = some (j', r)) (h2 : loadAccountDelegated dbw s a = some (s', r))
    (hrel : JRel db j' s') :
    (s'.state a).bind (fun acc => acc.info.code.bind dbw.delegate) =
      (j'.state a).bind (fun acc => acc.info.code.bind dbw.delegate) := by
  obtain ⟨x, hh, hx, hcx⟩ := loadAccountDelegated_cached h1
  obtain ⟨y, hh', hy, hcy⟩ := loadAccountDelegated_cached h2
  have ar : ARel db a x y := by have := hrel.ent a; rw [hx, hy] at this; exact this
  have e3 : x.info.codeHash = y.info.codeHash := ar.2.2.1
  have hhx : hh = x.info.codeHash := hrel.cj a x hx hh hcx
  have hhy : hh' = y.info.codeHash := hrel.cs a y hy hh' hcy
  rw [hx, hy]
  simp only [Option.bind_some]
  rw [hcx, hcy, hhx, hhy, e3]

theorem loadAccountDelegated_congr {db db' : Db} (hb : db'.basic = db.basic) (hd : db'.delegate = db.delegate)
    (s : JState) (a : Addr) : loadAccountDelegated db' s a = loadAccountDelegated db s a := by
  unfold loadAccountDelegated; simp only [loadAccount_congr hb, loadCode_congr hb, hd]

/-- `World.loadAccountDelegated` -/
theorem wLoadAccountDelegated_rel (h : CfgRel ks1 w1 ks2 w2) {a : Addr} {w1' : World} {r : Bool × Bool × Option Bool}
    (hl : w1.loadAccountDelegated a = .ok (w1', r)) :
    ∃ w2', w2.loadAccountDelegated a = .ok (w2', r) ∧ CfgRel ks1 w1' ks2 w2' := by
  unfold World.loadAccountDelegated at hl ⊢
  simp only [bind, Except.bind] at hl ⊢
  cases ho : ofOpt "load_account_delegated" (Journal.loadAccountDelegated w1.db w1.js a) with
  | error e => rw [ho] at hl; simp at hl
  | ok p =>
    obtain ⟨j', r'⟩ := p
    rw [ho] at hl
    simp only [pure, Except.pure, Except.ok.injEq, Prod.mk.injEq] at hl
    obtain ⟨hl1, hl2⟩ := hl
    subst hl1; subst hl2
    have hj := ofOpt_ok ho
    have hdb12 : w2.db = w1.db := db_eq_of h.w.pre h.w.codes
    obtain ⟨s', hs', hrel, hdom⟩ := loadAccountDelegated_rel (db := dbPre w1.pre) (dbw := w1.db) (db_basic w1) h.w.rel
      (dbCode_pre _) hj
    rw [hdb12, hs']
    have hsame := dlg_same hj hs' hrel
    have hdbn1 : ({ w1 with js := j' }.noteAddr a).db = w1.db := db_eq_of (noteAddr_fields _ a).2.1 (noteAddr_fields _ a).2.2.1
    have hdbn2 : ({ w2 with js := s' }.noteAddr a).db = w1.db := by
      rw [← hdb12]; exact db_eq_of (noteAddr_fields _ a).2.1 (noteAddr_fields _ a).2.2.1
    refine ⟨_, rfl, ?_⟩
    simp only
    rw [hdbn1, hdbn2, hsame]
    have hfw := loadAccountDelegated_fwd (hs := hsPre w1.pre) h.w.dbBal (db_basic w1) h.good hj
    unfold dlgList at hdom
    cases hd : (j'.state a).bind (fun acc => acc.info.code.bind w1.db.delegate) with
    | none =>
      rw [hd] at hdom
      exact h.step ((Upd.js w1 j').note a) ((Upd.js w2 s').note a) hrel hfw hdom (fun b => by simp)
    | some d =>
      rw [hd] at hdom
      exact h.step (((Upd.js w1 j').note a).note d) (((Upd.js w2 s').note a).note d) hrel hfw hdom (fun b => by simp)

end Revm.Proofs.EvmRefine
