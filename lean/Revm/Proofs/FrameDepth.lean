import Revm.Proofs.Frame
/-! Depth of the journal after `make_*_frame` / `*_return`, and the invariant of `run_the_loop` (C07). -/
namespace Revm.Proofs.Frame
open Revm Revm.Model.Journal Revm.Model.Frame

/-- depth after a `make_*_frame` in terms of the depth `d` before it -/
def DepthAfter (d : Nat) (r : FrameOrResult) (d' : Nat) : Prop :=
  match r with
  | .result _ => d' = d
  | .frame _ => d' = incU64 d
  | .fatal => True

theorem callValueStep_depth {db : Db} {s s' : JState} {inp : CallInputs} {r}
    (h : callValueStep db s inp = some (s', r)) : s'.depth = s.depth := by
  simp only [callValueStep] at h
  split at h
  · split at h
    · simp only [bind, Option.bind_eq_some_iff] at h
      obtain ⟨⟨s1, c1⟩, h1, s2, h2, h3⟩ := h
      have := loadAccount_depth h1
      have := touch_depth h2
      grind
    · exact transfer_depth h
  · grind

theorem callTail_depth {db : Db} {s s' : JState} {cp : Checkpoint} {inp : CallInputs} {o : CallOracle} {r}
    (h : callTail true db s cp inp o = some (s', r)) :
    (match r with
     | .result _ => s'.depth = decU64 s.depth
     | .frame _ => s'.depth = s.depth
     | .fatal => True) := by
  simp only [callTail, bind, Option.bind_eq_some_iff] at h
  obtain ⟨⟨s1, c1⟩, h1, acc, h2, h3⟩ := h
  have d1 := loadCode_depth h1
  split at h3
  · simp only [if_true, Option.bind_eq_some_iff] at h3
    obtain ⟨s2, h4, h5⟩ := h3
    have := revert_depth h4
    grind
  · split at h3
    · grind [commit_depth]
    · split at h3
      · simp only [Option.bind_eq_some_iff] at h3
        obtain ⟨⟨s2, c2⟩, h4, h5⟩ := h3
        have := loadCode_depth h4
        grind
      · grind

theorem makeCallFrame_depth {db : Db} {s s' : JState} {inp : CallInputs} {o : CallOracle} {r}
    (h : makeCallFrame db s inp o = some (s', r)) : DepthAfter s.depth r s'.depth := by
  simp only [makeCallFrame, makeCallFrameCore] at h
  split at h
  · cases h; rfl
  · simp only [bind, Option.bind_eq_some_iff] at h
    obtain ⟨⟨s1, x1⟩, h1, ⟨s2, terr⟩, h2, h3⟩ := h
    have d1 := loadAccountDelegated_depth h1
    have d2 := callValueStep_depth h2
    simp only [checkpoint_depth] at d2
    have di := dec_inc s.depth
    split at h3
    · simp only [Option.bind_eq_some_iff] at h3
      obtain ⟨s3, h4, h5⟩ := h3
      have := revert_depth h4
      cases h5
      simp only [DepthAfter]; grind
    · split at h3
      · split at h3
        · cases h3; trivial
        · split at h3
          · cases h3; simp only [DepthAfter, commit_depth]; grind
          · simp only [Option.bind_eq_some_iff] at h3
            obtain ⟨s3, h4, h5⟩ := h3
            have := revert_depth h4
            cases h5
            simp only [DepthAfter]; grind
      · have := callTail_depth h3
        cases r <;> simp only [DepthAfter] <;> grind
theorem createTail_depth {db : Db} {s s' : JState} {spec caller v created : Nat} {ip hs} {r a}
    (h : createTail db s spec caller v created ip hs = some (s', r, a)) : DepthAfter s.depth r s'.depth := by
  simp only [createTail] at h
  split at h
  · cases h; rfl
  · simp only [bind, Option.bind_eq_some_iff] at h
    obtain ⟨⟨s1, c1⟩, h1, ⟨s2, r2⟩, h2, h3⟩ := h
    have d1 := loadAccount_depth h1
    have d2 := createAccountCheckpoint_depth h2
    split at h3
    · cases h3; simp only [DepthAfter]; grind
    · cases h3; simp only [DepthAfter]; grind

theorem makeCreateFrame_depth {db : Db} {s s' : JState} {spec : Nat} {inp : CreateInputs} {o : CreateOracle} {r a}
    (h : makeCreateFrame db s spec inp o = some (s', r, a)) : DepthAfter s.depth r s'.depth := by
  simp only [makeCreateFrame] at h
  split at h
  · cases h; rfl
  · split at h
    · cases h; rfl
    · simp only [bind, Option.bind_eq_some_iff] at h
      obtain ⟨⟨s1, c1⟩, h1, c, h2, h3⟩ := h
      have d1 := loadAccount_depth h1
      split at h3
      · cases h3; simp only [DepthAfter]; exact d1
      · simp only [Option.bind_eq_some_iff] at h3
        obtain ⟨⟨s2, n⟩, h4, h5⟩ := h3
        have d2 := incNonce_depth h4
        split at h5
        · cases h5; simp only [DepthAfter]; omega
        · have := createTail_depth h5
          cases r <;> simp only [DepthAfter] at this ⊢ <;> grind

theorem makeEofCreateFrame_depth {db : Db} {s s' : JState} {spec : Nat} {inp : CreateInputs} {kind} {o : CreateOracle} {r a}
    (h : makeEofCreateFrame db s spec inp kind o = some (s', r, a)) : DepthAfter s.depth r s'.depth := by
  simp only [makeEofCreateFrame] at h
  split at h
  · cases h
  · rename_i s0 hpre
    have d0 : s0.depth = s.depth := by
      split at hpre
      · cases hpre
      · split at hpre
        · simp only [bind, Option.bind_eq_some_iff] at hpre
          obtain ⟨⟨s1, n⟩, h1, h2⟩ := hpre
          have := incNonce_depth h1
          grind
        · cases hpre
    cases h; simp only [DepthAfter]; exact d0
  · rename_i s0 createdOpt hpre
    have d0 : s0.depth = s.depth := by
      split at hpre
      · cases hpre; rfl
      · split at hpre
        · simp only [bind, Option.bind_eq_some_iff] at hpre
          obtain ⟨⟨s1, n⟩, h1, h2⟩ := hpre
          cases h2
        · cases hpre; rfl
    split at h
    · cases h; simp only [DepthAfter]; exact d0
    · simp only [bind, Option.bind_eq_some_iff] at h
      obtain ⟨⟨s1, c1⟩, h1, c, h2, h3⟩ := h
      have d1 := loadAccount_depth h1
      split at h3
      · cases h3; simp only [DepthAfter]; omega
      · simp only [Option.bind_eq_some_iff] at h3
        obtain ⟨⟨s2, n⟩, h4, h5⟩ := h3
        have d2 := incNonce_depth h4
        split at h5
        · cases h5; simp only [DepthAfter]; omega
        · have := createTail_depth h5
          cases r <;> simp only [DepthAfter] at this ⊢ <;> grind

theorem callReturn_depth {s s' : JState} {cp : Checkpoint} {ok : Bool}
    (h : callReturn s cp ok = some s') : s'.depth = decU64 s.depth := by
  simp only [callReturn] at h
  split at h
  · cases h; rfl
  · exact revert_depth h

theorem createReturn_depth {s s' : JState} {spec : Nat} {cp : Checkpoint} {a : Addr} {r : CreateRet} {res}
    (h : createReturn s spec cp a r = some (s', res)) : s'.depth = decU64 s.depth := by
  simp only [createReturn] at h
  repeat' split at h
  all_goals first
    | (simp only [Option.map_eq_some_iff] at h
       obtain ⟨s1, h1, h2⟩ := h
       have := revert_depth h1
       grind)
    | (simp only [bind, Option.bind_eq_some_iff] at h
       obtain ⟨s1, h1, h2⟩ := h
       have := setCode_depth h1
       grind [commit_depth])

theorem eofcreateReturn_depth {s s' : JState} {cp : Checkpoint} {a : Addr} {r : EofCreateRet} {res}
    (h : eofcreateReturn s cp a r = some (s', res)) : s'.depth = decU64 s.depth := by
  simp only [eofcreateReturn] at h
  repeat' split at h
  all_goals first
    | (simp only [Option.map_eq_some_iff] at h
       obtain ⟨s1, h1, h2⟩ := h
       have := revert_depth h1
       grind)
    | (cases h; done)
    | (simp only [bind, Option.bind_eq_some_iff] at h
       obtain ⟨s1, h1, h2⟩ := h
       have := setCode_depth h1
       grind [commit_depth])
theorem toRes_ne_tooDeep {pc : PrecompileOutcome} {r : IRes} (h : pc.toRes = some r) : r ≠ .callTooDeep := by
  cases pc <;> simp [PrecompileOutcome.toRes] at h <;> subst h <;> decide

theorem transferErrRes_ne (e : TransferErr) : transferErrRes e ≠ .callTooDeep := by cases e <;> decide
theorem createErrRes_ne (e : CreateErr) : createErrRes e ≠ .callTooDeep := by cases e <;> decide

/-- the only path of `make_call_frame` that answers CallTooDeep is the depth check -/
theorem makeCallFrame_tooDeep {db : Db} {s s' : JState} {inp : CallInputs} {o : CallOracle}
    (h : makeCallFrame db s inp o = some (s', .result .callTooDeep)) : s.depth > CALL_STACK_LIMIT := by
  simp only [makeCallFrame, makeCallFrameCore] at h
  split at h
  · assumption
  · exfalso
    simp only [bind, Option.bind_eq_some_iff] at h
    obtain ⟨⟨s1, x1⟩, h1, ⟨s2, terr⟩, h2, h3⟩ := h
    split at h3
    · simp only [Option.bind_eq_some_iff] at h3
      obtain ⟨s3, h4, h5⟩ := h3
      rename_i e _
      have := transferErrRes_ne e
      grind
    · split at h3
      · split at h3
        · cases h3
        · rename_i pc r hr
          have := toRes_ne_tooDeep hr
          split at h3
          · grind
          · simp only [Option.bind_eq_some_iff] at h3
            obtain ⟨s3, h4, h5⟩ := h3
            grind
      · simp only [callTail, bind, Option.bind_eq_some_iff] at h3
        obtain ⟨⟨s3, c3⟩, h4, acc, h5, h6⟩ := h3
        split at h6
        · simp only [if_true, Option.bind_eq_some_iff] at h6
          obtain ⟨s4, h7, h8⟩ := h6
          grind
        · split at h6
          · grind
          · split at h6
            · simp only [Option.bind_eq_some_iff] at h6
              obtain ⟨⟨s4, c4⟩, h7, h8⟩ := h6
              grind
            · grind

theorem makeCallFrame_deep {db : Db} {s s' : JState} {inp : CallInputs} {o : CallOracle} {r}
    (h : makeCallFrame db s inp o = some (s', r)) (hd : s.depth > CALL_STACK_LIMIT) :
    r = .result .callTooDeep ∧ s' = s := by
  simp only [makeCallFrame, makeCallFrameCore, hd, if_true] at h
  cases h; exact ⟨rfl, rfl⟩

theorem createTail_tooDeep {db : Db} {s s' : JState} {spec caller v created : Nat} {ip hs} {a}
    (h : createTail db s spec caller v created ip hs = some (s', .result .callTooDeep, a)) : False := by
  simp only [createTail] at h
  split at h
  · cases h
  · simp only [bind, Option.bind_eq_some_iff] at h
    obtain ⟨⟨s1, c1⟩, h1, ⟨s2, r2⟩, h2, h3⟩ := h
    split at h3
    · cases h3
    · rename_i e _
      have := createErrRes_ne e
      grind

theorem makeCreateFrame_tooDeep {db : Db} {s s' : JState} {spec : Nat} {inp : CreateInputs} {o : CreateOracle} {a}
    (h : makeCreateFrame db s spec inp o = some (s', .result .callTooDeep, a)) : s.depth > CALL_STACK_LIMIT := by
  simp only [makeCreateFrame] at h
  split at h
  · assumption
  · exfalso
    split at h
    · cases h
    · simp only [bind, Option.bind_eq_some_iff] at h
      obtain ⟨⟨s1, c1⟩, h1, c, h2, h3⟩ := h
      split at h3
      · cases h3
      · simp only [Option.bind_eq_some_iff] at h3
        obtain ⟨⟨s2, n⟩, h4, h5⟩ := h3
        split at h5
        · cases h5
        · exact createTail_tooDeep h5

theorem makeCreateFrame_deep {db : Db} {s s' : JState} {spec : Nat} {inp : CreateInputs} {o : CreateOracle} {r a}
    (h : makeCreateFrame db s spec inp o = some (s', r, a)) (hd : s.depth > CALL_STACK_LIMIT) :
    r = .result .callTooDeep ∧ s' = s := by
  simp only [makeCreateFrame, hd, if_true] at h
  cases h; exact ⟨rfl, rfl⟩

theorem makeEofCreateFrame_tooDeep {db : Db} {s s' : JState} {spec : Nat} {inp : CreateInputs} {kind} {o : CreateOracle} {a}
    (h : makeEofCreateFrame db s spec inp kind o = some (s', .result .callTooDeep, a)) : s.depth > CALL_STACK_LIMIT := by
  simp only [makeEofCreateFrame] at h
  split at h
  · cases h
  · cases h
  · rename_i s0 createdOpt hpre
    have d0 : s0.depth = s.depth := by
      split at hpre
      · cases hpre; rfl
      · split at hpre
        · simp only [bind, Option.bind_eq_some_iff] at hpre
          obtain ⟨⟨s1, n⟩, h1, h2⟩ := hpre
          cases h2
        · cases hpre; rfl
    split at h
    · omega
    · exfalso
      simp only [bind, Option.bind_eq_some_iff] at h
      obtain ⟨⟨s1, c1⟩, h1, c, h2, h3⟩ := h
      split at h3
      · cases h3
      · simp only [Option.bind_eq_some_iff] at h3
        obtain ⟨⟨s2, n⟩, h4, h5⟩ := h3
        split at h5
        · cases h5
        · exact createTail_tooDeep h5

/-- EOFCREATE from an opcode, or a create transaction whose container is valid: refused at the depth check -/
theorem makeEofCreateFrame_deep {db : Db} {s s' : JState} {spec : Nat} {inp : CreateInputs} {kind} {o : CreateOracle} {r a}
    (h : makeEofCreateFrame db s spec inp kind o = some (s', r, a)) (hd : s.depth > CALL_STACK_LIMIT)
    (hk : ∀ d v f, kind = .tx d v f → d = true ∧ v = true) :
    r = .result .callTooDeep ∧ s' = s := by
  cases kind with
  | opcode c =>
    simp only [makeEofCreateFrame, hd, if_true] at h
    cases h; exact ⟨rfl, rfl⟩
  | tx d v f =>
    obtain ⟨rfl, rfl⟩ := hk d v f rfl
    simp [makeEofCreateFrame, hd] at h
    obtain ⟨rfl, rfl, _⟩ := h
    exact ⟨rfl, rfl⟩
end Revm.Proofs.Frame
