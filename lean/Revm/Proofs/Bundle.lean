import Revm.Model.Bundle
import Revm.Spec.Bundle
/-! Lemmas about the bundle-state model (C16–C18). Core Lean only. -/
namespace Revm.Proofs.Bundle
open Revm.Model.Bundle Revm.Spec.Bundle

/-! ## BMap -/
section bmap
variable {α : Type}

theorem get_del_self (m : BMap α) (k : Nat) : (BMap.del m k).get k = none := by
  induction m with
  | nil => rfl
  | cons e r ih =>
    obtain ⟨k', v⟩ := e
    by_cases h : k' = k
    · simp [BMap.del, List.filter, h]; simpa [BMap.del] using ih
    · have : ((k', v).1 != k) = true := by simp [h]
      simp only [BMap.del, List.filter, this]
      simp only [BMap.get, h, if_false]; simpa [BMap.del] using ih

theorem get_del_ne (m : BMap α) (k k' : Nat) (h : k' ≠ k) : (BMap.del m k).get k' = m.get k' := by
  induction m with
  | nil => rfl
  | cons e r ih =>
    obtain ⟨k₀, v⟩ := e
    by_cases h0 : k₀ = k
    · have hk : k₀ ≠ k' := by intro h1; exact h (h1 ▸ h0 ▸ rfl)
      simp [BMap.del, List.filter, h0]
      have : k ≠ k' := fun h1 => h h1.symm
      simp only [BMap.get, h0 ▸ hk, if_false]; simpa [BMap.del] using ih
    · have : ((k₀, v).1 != k) = true := by simp [h0]
      simp only [BMap.del, List.filter, this]
      simp only [BMap.get]
      by_cases h1 : k₀ = k'
      · simp [h1]
      · simp only [h1, if_false]; simpa [BMap.del] using ih

theorem get_set (m : BMap α) (k k' : Nat) (v : α) :
    (BMap.set m k v).get k' = if k = k' then some v else m.get k' := by
  by_cases h : k = k'
  · simp [BMap.set, BMap.get, h]
  · simp only [BMap.set, BMap.get, h, if_false]
    exact get_del_ne m k k' (fun h1 => h h1.symm)
end bmap

/-! ## `take_n_reverts` is `List.splitAt` -/
theorem takeN_fst (b : BState) (n : Nat) : (takeNReverts b n).1 = b.reverts.take n := by
  unfold takeNReverts
  by_cases h : n > b.reverts.length
  · simp only [h, if_true]; exact (List.take_of_length_le (Nat.le_of_lt h)).symm
  · simp [h]

theorem takeN_snd_reverts (b : BState) (n : Nat) : (takeNReverts b n).2.reverts = b.reverts.drop n := by
  unfold takeNReverts
  by_cases h : n > b.reverts.length
  · simp only [h, if_true]; exact (List.drop_of_length_le (Nat.le_of_lt h)).symm
  · simp [h]

theorem takeN_snd_rest (b : BState) (n : Nat) :
    (takeNReverts b n).2.state = b.state ∧ (takeNReverts b n).2.contracts = b.contracts := by
  unfold takeNReverts
  by_cases h : n > b.reverts.length <;> simp [h]

theorem takeN_splitAt (b : BState) (n : Nat) :
    ((takeNReverts b n).1, (takeNReverts b n).2.reverts) = b.reverts.splitAt n := by
  rw [takeN_fst, takeN_snd_reverts, List.splitAt_eq]

theorem takeN_append (b : BState) (n : Nat) :
    (takeNReverts b n).1 ++ (takeNReverts b n).2.reverts = b.reverts := by
  rw [takeN_fst, takeN_snd_reverts, List.take_append_drop]

theorem takeAll_eq (b : BState) : takeAllReverts b = takeNReverts b (b.reverts.length + 1) := by
  simp [takeAllReverts, takeNReverts]

/-! ## `revert(n)` -/
theorem revertLatest_reverts (b : BState) : (revertLatest b).1.reverts = b.reverts.dropLast := by
  unfold revertLatest
  cases h : b.reverts.getLast? with
  | none =>
    have : b.reverts = [] := List.getLast?_eq_none_iff.mp h
    simp [this]
  | some blk => simp

theorem revertLatest_flag (b : BState) : (revertLatest b).2 = !b.reverts.isEmpty := by
  unfold revertLatest
  cases h : b.reverts.getLast? with
  | none =>
    have : b.reverts = [] := List.getLast?_eq_none_iff.mp h
    simp [this]
  | some blk =>
    have : b.reverts ≠ [] := by intro h0; simp [h0] at h
    cases hr : b.reverts with
    | nil => exact absurd hr this
    | cons _ _ => simp

theorem revertLatest_noop (b : BState) (h : b.reverts = []) : (revertLatest b).1 = b := by
  unfold revertLatest; simp [h]

theorem revertN_zero (b : BState) : revertN b 0 = b := rfl

theorem revertN_length (b : BState) (n : Nat) :
    (revertN b n).reverts.length = b.reverts.length - n := by
  induction n generalizing b with
  | zero => simp [revertN]
  | succ n ih =>
    unfold revertN
    by_cases h : b.reverts = []
    · have hf : (revertLatest b).2 = false := by rw [revertLatest_flag]; simp [h]
      simp only [hf]; rw [revertLatest_noop b h]; simp [h]
    · have hf : (revertLatest b).2 = true := by
        rw [revertLatest_flag]; cases hr : b.reverts with
        | nil => exact absurd hr h
        | cons _ _ => simp
      simp only [hf, if_true]
      rw [ih, revertLatest_reverts, List.length_dropLast]; omega

theorem revertN_reverts (b : BState) (n : Nat) :
    (revertN b n).reverts = b.reverts.take (b.reverts.length - n) := by
  induction n generalizing b with
  | zero => simp [revertN]
  | succ n ih =>
    unfold revertN
    by_cases h : b.reverts = []
    · have hf : (revertLatest b).2 = false := by rw [revertLatest_flag]; simp [h]
      simp only [hf]; rw [revertLatest_noop b h]; simp [h]
    · have hf : (revertLatest b).2 = true := by
        rw [revertLatest_flag]; cases hr : b.reverts with
        | nil => exact absurd hr h
        | cons _ _ => simp
      simp only [hf, if_true]
      rw [ih, revertLatest_reverts, List.length_dropLast, List.dropLast_eq_take, List.take_take]
      congr 1; omega

/-! ## status machine: the `unreachable!` arms of `update_and_create_revert` -/

/-- (bundle status, transition status) pairs on which `update_and_create_revert` panics -/
def panicPair : Status → Status → Bool
  | .inMemoryChange, .changed | .loadedNotExisting, .changed | .destroyed, .changed
  | .destroyedChanged, .changed | .destroyedAgain, .changed => true
  | .changed, .inMemoryChange | .destroyed, .inMemoryChange | .destroyedChanged, .inMemoryChange
  | .destroyedAgain, .inMemoryChange => true
  | .destroyed, .destroyed | .destroyedChanged, .destroyed | .destroyedAgain, .destroyed => true
  | _, _ => false

theorem update_panics_iff (b : BAcct) (t : Transition) :
    updateAndCreateRevert b t = none ↔ panicPair b.status t.status = true := by
  unfold updateAndCreateRevert
  cases hw : t.wasDestroyed <;> cases hb : b.status <;> cases ht : t.status <;>
    simp [panicPair, newSelfdestructedFromBundle, hb, hw, Option.map]

/-- events of `CacheState::apply_account_state` / `increment_balances` / `drain_balances` on one account.
The state tracked per account is its cache status and one bit `nc` = "the cached info has a non-zero
nonce or non-empty code". EVM-level facts used (and nothing else): an account with nonce or code is
never a creation target and is never empty; a change never removes nonce-or-code (nonces do not
decrease, code disappears only through self-destruct, EIP-7702 clearing leaves nonce ≥ 1). -/
inductive Event
  | selfdestruct | create (nc' : Bool) | touchEmptyPost | touchEmptyPre (hadNoInfo : Bool) | change (nc' : Bool)
deriving DecidableEq

/-- status and bit after one event; `none` = the event is impossible for the EVM in this state, or
the cache-level status function hits its own `unreachable!` -/
def stepStatus (s : Status) (nc : Bool) : Event → Option (Status × Bool)
  | .selfdestruct => some (s.onSelfdestructed, false)
  | .create nc' => if nc then none else some (s.onCreated, nc')
  | .touchEmptyPost => if nc then none else s.onTouchedEmptyPostEip161.map (fun s' => (s', false))
  | .touchEmptyPre h => if nc then none else (s.onTouchedCreatedPreEip161 h).map (fun o => (o.getD s, false))
  | .change nc' => if nc && !nc' then none else some (s.onChanged (!nc), nc')

def evolve (s : Status) (nc : Bool) : List Event → Option (Status × Bool)
  | [] => some (s, nc)
  | e :: es => (stepStatus s nc e).bind (fun r => evolve r.1 r.2 es)

/-- closed over-approximation of "status `s` is reachable from status `s0` by cache events" -/
def reach (s0 s : Status) : Bool :=
  s0 == s ||
  match s0 with
  | .loadedNotExisting => s != .loaded && s != .loadedEmptyEIP161 && s != .changed
  | .loaded => s != .loadedNotExisting && s != .loadedEmptyEIP161
  | .loadedEmptyEIP161 => s != .loadedNotExisting && s != .loaded && s != .changed
  | .inMemoryChange => s.wasDestroyed
  | .changed => s.wasDestroyed
  | .destroyed => s == .destroyedChanged || s == .destroyedAgain
  | .destroyedChanged => s == .destroyedAgain
  | .destroyedAgain => s == .destroyedChanged

/-- invariant: reachable from `s0`, and status `Changed` implies nonce-or-code -/
def inv (s0 s : Status) (nc : Bool) : Bool := reach s0 s && (s != .changed || nc)

def checkStep (s0 s : Status) (nc : Bool) (e : Event) : Bool :=
  !inv s0 s nc || match stepStatus s nc e with
    | none => true
    | some r => inv s0 r.1 r.2

theorem checkStep_all : ∀ (s0 s : Status) (nc : Bool) (e : Event), checkStep s0 s nc e = true := by
  intro s0 s nc e
  cases e with
  | touchEmptyPre h => cases h <;> cases nc <;> cases s0 <;> cases s <;> rfl
  | change h => cases h <;> cases nc <;> cases s0 <;> cases s <;> rfl
  | selfdestruct => cases nc <;> cases s0 <;> cases s <;> rfl
  | create h => cases h <;> cases nc <;> cases s0 <;> cases s <;> rfl
  | touchEmptyPost => cases nc <;> cases s0 <;> cases s <;> rfl

theorem inv_step (s0 s : Status) (nc : Bool) (e : Event) (s' : Status) (nc' : Bool)
    (h : inv s0 s nc = true) (hs : stepStatus s nc e = some (s', nc')) : inv s0 s' nc' = true := by
  have := checkStep_all s0 s nc e
  simp only [checkStep, h, hs, Bool.not_true, Bool.false_or] at this
  exact this

theorem inv_evolve (s0 s : Status) (nc : Bool) (es : List Event) (s' : Status) (nc' : Bool)
    (h : inv s0 s nc = true) (he : evolve s nc es = some (s', nc')) : inv s0 s' nc' = true := by
  induction es generalizing s nc with
  | nil => simp [evolve] at he; obtain ⟨h1, h2⟩ := he; subst h1; subst h2; exact h
  | cons e es ih =>
    simp only [evolve] at he
    cases hs : stepStatus s nc e with
    | none => simp [hs] at he
    | some r => obtain ⟨s1, nc1⟩ := r; simp [hs] at he; exact ih s1 nc1 (inv_step s0 s nc e s1 nc1 h hs) he

theorem inv_refl (s : Status) (nc : Bool) (h : s = .changed → nc = true) : inv s s nc = true := by
  cases s <;> cases nc <;> simp_all [inv, reach]

/-- a status that changed along a reachable path never forms a panicking pair with its origin -/
theorem reach_no_panic : ∀ s0 s : Status, reach s0 s = true → s0 ≠ s → panicPair s0 s = false := by
  intro s0 s; cases s0 <;> cases s <;> decide

/-- same status at both ends: the only panicking pair is (Destroyed, Destroyed) -/
theorem same_status_panic (s : Status) : panicPair s s = true ↔ s = .destroyed := by
  cases s <;> decide

/-- … and no event yields a transition from a destroyed status into `Destroyed` except the
post-EIP-161 touch of an already `Destroyed` account, which returns no transition at all
(`touch_empty_eip161`: `previous_status ∈ {LoadedNotExisting, Destroyed, DestroyedAgain} ⇒ None`) -/
def checkLoop (s : Status) (nc : Bool) (e : Event) : Bool :=
  !s.wasDestroyed || match stepStatus s nc e with
    | some (.destroyed, _) => e == .touchEmptyPost && s == .destroyed
    | _ => true

theorem checkLoop_all : ∀ (s : Status) (nc : Bool) (e : Event), checkLoop s nc e = true := by
  intro s nc e
  cases e with
  | touchEmptyPre h => cases h <;> cases nc <;> cases s <;> rfl
  | change h => cases h <;> cases nc <;> cases s <;> rfl
  | selfdestruct => cases nc <;> cases s <;> rfl
  | create h => cases h <;> cases nc <;> cases s <;> rfl
  | touchEmptyPost => cases nc <;> cases s <;> rfl

theorem destroyed_loop_impossible (s : Status) (nc : Bool) (e : Event) (nc' : Bool)
    (hd : s.wasDestroyed = true) (hs : stepStatus s nc e = some (.destroyed, nc')) :
    e = .touchEmptyPost ∧ s = .destroyed := by
  have := checkLoop_all s nc e
  simp only [checkLoop, hd, hs, Bool.not_true, Bool.false_or, Bool.and_eq_true, beq_iff_eq] at this
  exact this


/-! ## `to_plain_state` of one account is correct under the per-account invariant (DESIGN A.3) -/

/-- keys of a `BMap` are unique (what a `HashMap` guarantees) -/
def WF {α : Type} (m : BMap α) : Prop := (m.map (·.1)).Nodup

theorem get_none_of_not_mem {α : Type} (m : BMap α) (k : Nat) (h : k ∉ m.map (·.1)) : m.get k = none := by
  induction m with
  | nil => rfl
  | cons e r ih =>
    obtain ⟨k', v⟩ := e
    simp only [List.map, List.mem_cons, not_or] at h
    simp only [BMap.get, show ¬ k' = k from fun h1 => h.1 h1.symm, if_false]
    exact ih h.2

theorem get_filter {α : Type} (m : BMap α) (c : Nat × α → Bool) (k : Nat) (hw : WF m) :
    BMap.get (m.filter c) k = (m.get k).bind (fun v => if c (k, v) then some v else none) := by
  induction m with
  | nil => rfl
  | cons e r ih =>
    obtain ⟨k', v⟩ := e
    have hw' : WF r := by unfold WF at hw ⊢; simp only [List.map, List.nodup_cons] at hw; exact hw.2
    have hnot : k' ∉ r.map (·.1) := by unfold WF at hw; simp only [List.map, List.nodup_cons] at hw; exact hw.1
    by_cases hk : k' = k
    · subst hk
      by_cases hc : c (k', v) = true
      · simp [List.filter, hc, BMap.get]
      · have hc' : c (k', v) = false := by simpa using hc
        simp only [List.filter, hc', BMap.get, if_true, Option.bind]
        rw [ih hw', get_none_of_not_mem r k' hnot]; simp [hc']
    · by_cases hc : c (k', v) = true
      · simp only [List.filter, hc, BMap.get, hk, if_false]; exact ih hw'
      · have hc' : c (k', v) = false := by simpa using hc
        simp only [List.filter, hc', BMap.get, hk, if_false]; exact ih hw'

theorem get_map_present (m : BMap Slot) (k : Nat) :
    BMap.get (m.map (fun e => (e.1, e.2.present))) k = (m.get k).map (·.present) := by
  induction m with
  | nil => rfl
  | cons e r ih =>
    obtain ⟨k', v⟩ := e
    by_cases hk : k' = k
    · simp [BMap.get, hk]
    · simp only [List.map, BMap.get, hk, if_false]; exact ih

/-- meaning of one `PlainStorageChangeset` row on the slots of its address -/
def applyRow (wipe : Bool) (row : List (Nat × Nat)) (base : Nat → Nat) (k : Nat) : Nat :=
  match BMap.get row k with
  | some v => v
  | none => if wipe then 0 else base k

/-- DESIGN A.3, storage part: `p` = slot values of this address when the bundle was started,
`c` = current values -/
def StorageInv (acc : BAcct) (p c : Nat → Nat) : Prop :=
  WF acc.storage ∧
  (acc.status.wasDestroyed = false → ∀ k, match acc.storage.get k with
      | some s => s.present = c k ∧ s.orig = p k
      | none => c k = p k) ∧
  (acc.status.wasDestroyed = true → ∀ k, match acc.storage.get k with
      | some s => s.present = c k
      | none => c k = 0)

/-- the storage row that `to_plain_state` emits for an account turns the pre-bundle slots into the
current slots, for both `OriginalValuesKnown` settings. (When no row is emitted the row is empty and
not wiping, so `applyRow false [] p = p`: covered by the same statement.) -/
theorem storage_row_correct (acc : BAcct) (known : Bool) (p c : Nat → Nat) (h : StorageInv acc p c) (k : Nat) :
    applyRow acc.status.wasDestroyed (acc.plainStorage known) p k = c k := by
  obtain ⟨hw, hnd, hd⟩ := h
  unfold applyRow BAcct.plainStorage
  rw [get_map_present, get_filter _ _ _ hw]
  cases hwd : acc.status.wasDestroyed with
  | false =>
    have h1 := hnd hwd k
    cases hg : acc.storage.get k with
    | none => simp [hg] at h1 ⊢; exact h1.symm
    | some s =>
      simp only [hg] at h1
      obtain ⟨hp, ho⟩ := h1
      cases known with
      | false => simp [hp]
      | true =>
        by_cases hch : s.orig = s.present
        · simp [Slot.isChanged, hch]; rw [← ho, hch, hp]
        · have hch' : ¬ s.orig = c k := hp ▸ hch
          simp [Slot.isChanged, hch', hp]
  | true =>
    have h1 := hd hwd k
    cases hg : acc.storage.get k with
    | none => simp [hg] at h1 ⊢; exact h1.symm
    | some s =>
      simp only [hg] at h1
      cases known with
      | false => simp [h1]
      | true =>
        by_cases hz : s.present = 0
        · simp [hz]; rw [← h1, hz]
        · have hz' : ¬ c k = 0 := h1 ▸ hz
          simp [hz', h1]

/-- a row is emitted whenever it matters: if `to_plain_state` emits no storage row for the account,
the slots did not change -/
theorem no_row_means_unchanged (acc : BAcct) (known : Bool) (p c : Nat → Nat) (h : StorageInv acc p c)
    (hrow : ((!(acc.plainStorage known).isEmpty) || acc.status.wasDestroyed) = false) (k : Nat) : c k = p k := by
  have hwd : acc.status.wasDestroyed = false := by
    cases h1 : acc.status.wasDestroyed <;> simp_all
  have hemp : acc.plainStorage known = [] := by
    cases h2 : acc.plainStorage known with
    | nil => rfl
    | cons _ _ => simp [h2, hwd] at hrow
  have := storage_row_correct acc known p c h k
  rw [hemp, hwd] at this
  simpa [applyRow, BMap.get] using this.symm

/-- account row: with `OriginalValuesKnown::Yes` the row is omitted only when the info is unchanged -/
theorem account_row_correct (acc : BAcct) (known : Bool) (pInfo cInfo : Option Info)
    (hc : cInfo = acc.info.map Info.withoutCode) (hp : pInfo = acc.origInfo.map Info.withoutCode) :
    (if !known || acc.isInfoChanged then acc.info.map Info.withoutCode else pInfo) = cInfo := by
  cases known with
  | false => simp [hc]
  | true =>
    by_cases hch : acc.isInfoChanged = true
    · simp [hch, hc]
    · have hs : optSame acc.info acc.origInfo = true := by
        simpa [BAcct.isInfoChanged] using hch
      simp only [Bool.not_true, Bool.false_or, hch]
      rw [hc, hp]
      cases hi : acc.info with
      | none => cases ho : acc.origInfo with
        | none => rfl
        | some o => simp [hi, ho, optSame] at hs
      | some i => cases ho : acc.origInfo with
        | none => simp [hi, ho, optSame] at hs
        | some o =>
          simp only [hi, ho, optSame, Info.same, Bool.and_eq_true, beq_iff_eq] at hs
          obtain ⟨⟨h1, h2⟩, h3⟩ := hs
          cases i; cases o; simp_all [Info.withoutCode]


theorem mem_of_get {α : Type} (m : BMap α) (k : Nat) (v : α) (h : m.get k = some v) : (k, v) ∈ m := by
  induction m with
  | nil => simp [BMap.get] at h
  | cons e r ih =>
    obtain ⟨k', v'⟩ := e
    by_cases hk : k' = k
    · simp [BMap.get, hk] at h; subst hk; subst h; exact List.mem_cons_self
    · simp only [BMap.get, hk, if_false] at h; exact List.mem_cons_of_mem _ (ih h)

theorem get_some_of_mem {α : Type} (m : BMap α) (hw : WF m) (k : Nat) (v : α) (h : (k, v) ∈ m) :
    m.get k = some v := by
  induction m with
  | nil => cases h
  | cons e r ih =>
    have hw' : WF r := by unfold WF at hw ⊢; simp only [List.map, List.nodup_cons] at hw; exact hw.2
    have hnot : e.1 ∉ r.map (·.1) := by unfold WF at hw; simp only [List.map, List.nodup_cons] at hw; exact hw.1
    cases h with
    | head => simp [BMap.get]
    | tail _ hin =>
      have hne : e.1 ≠ k := by
        intro h1; apply hnot; rw [h1]; exact List.mem_map_of_mem (f := (·.1)) hin
      obtain ⟨k', v'⟩ := e
      simp only [BMap.get, show ¬ k' = k from hne, if_false]; exact ih hw' hin

theorem present_unique (m : BMap Slot) (hw : WF m) (k : Nat) (a b : Slot) (ha : (k, a) ∈ m) (hb : (k, b) ∈ m) :
    a.present = b.present := by
  have h1 := get_some_of_mem m hw k a ha
  have h2 := get_some_of_mem m hw k b hb
  rw [h1] at h2; injection h2 with h2; rw [h2]

/-- one iteration of the `extend_storage` closure -/
def esStep (acc : BMap Slot) (e : Nat × Slot) : BMap Slot :=
  match acc.get e.1 with
  | none => acc.set e.1 e.2
  | some s => acc.set e.1 { s with present := e.2.present }

theorem extendStorage_eq (this upd : BMap Slot) : extendStorage this upd = upd.foldl esStep this := rfl

theorem esStep_get_ne (acc : BMap Slot) (e : Nat × Slot) (k : Nat) (h : e.1 ≠ k) :
    (esStep acc e).get k = acc.get k := by
  unfold esStep; cases acc.get e.1 <;> simp [get_set, h]

theorem foldl_esStep_not_mem (upd this : BMap Slot) (k : Nat) (h : k ∉ upd.map (·.1)) :
    (upd.foldl esStep this).get k = this.get k := by
  induction upd generalizing this with
  | nil => rfl
  | cons e r ih =>
    simp only [List.map, List.mem_cons, not_or] at h
    simp only [List.foldl]
    rw [ih _ h.2, esStep_get_ne _ _ _ (fun h1 => h.1 h1.symm)]

/-- `extend_storage`: every updated slot carries the update's present value, and keeps the older
original value if there was one -/
theorem extendStorage_present (this upd : BMap Slot) (hw : WF upd) (k : Nat) (s : Slot) (hm : (k, s) ∈ upd) :
    ∃ r, (extendStorage this upd).get k = some r ∧ r.present = s.present ∧
         r.orig = (match this.get k with | some o => o.orig | none => s.orig) := by
  rw [extendStorage_eq]
  induction upd generalizing this with
  | nil => cases hm
  | cons e rest ih =>
    have hw' : WF rest := by unfold WF at hw ⊢; simp only [List.map, List.nodup_cons] at hw; exact hw.2
    have hnot : e.1 ∉ rest.map (·.1) := by unfold WF at hw; simp only [List.map, List.nodup_cons] at hw; exact hw.1
    simp only [List.foldl]
    cases hm with
    | head =>
      rw [foldl_esStep_not_mem rest _ k hnot]
      unfold esStep
      cases hg : this.get k with
      | none => exact ⟨s, by simp [get_set], rfl, rfl⟩
      | some o => exact ⟨{ o with present := s.present }, by simp [get_set], rfl, rfl⟩
    | tail _ hin =>
      have hne : e.1 ≠ k := by
        intro h1; apply hnot; rw [h1]; exact List.mem_map_of_mem (f := (·.1)) hin
      obtain ⟨r, h1, h2, h3⟩ := ih (esStep this e) hw' hin
      exact ⟨r, h1, h2, by rw [h3, esStep_get_ne _ _ _ hne]⟩

/-- slots the update does not mention are untouched -/
theorem extendStorage_other (this upd : BMap Slot) (k : Nat) (h : k ∉ upd.map (·.1)) :
    (extendStorage this upd).get k = this.get k := by
  rw [extendStorage_eq]; exact foldl_esStep_not_mem upd this k h


/-! ## `extend_state` / `prepend_state`: the newer bundle's values win -/

/-- one iteration of `extend_state` -/
def extStep (acc : BMap BAcct) (e : Nat × BAcct) : BMap BAcct :=
  match acc.get e.1 with
  | some t =>
    acc.set e.1 { t with storage := if e.2.status.wasDestroyed then e.2.storage else extendStorage t.storage e.2.storage,
                         info := e.2.info, status := t.status.transition e.2.status }
  | none => acc.set e.1 e.2

theorem extendState_eq (this other : BMap BAcct) : extendState this other = other.foldl extStep this := rfl

theorem extStep_get_ne (acc : BMap BAcct) (e : Nat × BAcct) (a : Nat) (h : e.1 ≠ a) :
    (extStep acc e).get a = acc.get a := by
  unfold extStep
  cases acc.get e.1 <;> simp [get_set, h]

theorem foldl_extStep_not_mem (other : BMap BAcct) (this : BMap BAcct) (a : Nat)
    (h : a ∉ other.map (·.1)) : (other.foldl extStep this).get a = this.get a := by
  induction other generalizing this with
  | nil => rfl
  | cons e r ih =>
    simp only [List.map, List.mem_cons, not_or] at h
    simp only [List.foldl]
    rw [ih _ h.2, extStep_get_ne _ _ _ (fun h1 => h.1 h1.symm)]

/-- what `extend_state` leaves for an address of the newer (`other`) state -/
def NewerWins (o r : BAcct) : Prop :=
  r.info = o.info ∧ (o.status.wasDestroyed = true → r.storage = o.storage) ∧
  (WF o.storage → ∀ k s, (k, s) ∈ o.storage → ∃ rs, r.storage.get k = some rs ∧ rs.present = s.present)

theorem extStep_get_self (acc : BMap BAcct) (e : Nat × BAcct) :
    ∃ r, (extStep acc e).get e.1 = some r ∧ NewerWins e.2 r := by
  unfold extStep
  cases hg : acc.get e.1 with
  | none =>
    exact ⟨e.2, by simp [get_set], rfl, fun _ => rfl,
      fun hw k s hm => ⟨s, get_some_of_mem e.2.storage hw k s hm, rfl⟩⟩
  | some t =>
    refine ⟨{ t with storage := if e.2.status.wasDestroyed then e.2.storage else extendStorage t.storage e.2.storage,
                     info := e.2.info, status := t.status.transition e.2.status }, by simp [get_set], rfl, ?_, ?_⟩
    · intro hd; simp [hd]
    · intro hw k s hm
      cases hd : e.2.status.wasDestroyed with
      | true => simp only [if_true]; exact ⟨s, get_some_of_mem e.2.storage hw k s hm, rfl⟩
      | false =>
        obtain ⟨r, h1, h2, _⟩ := extendStorage_present t.storage e.2.storage hw k s hm
        exact ⟨r, by simpa using h1, h2⟩

theorem extendState_newer_wins (this other : BMap BAcct) (hw : WF other) (a : Nat) (o : BAcct)
    (hm : (a, o) ∈ other) : ∃ r, (extendState this other).get a = some r ∧ NewerWins o r := by
  rw [extendState_eq]
  induction other generalizing this with
  | nil => cases hm
  | cons e rest ih =>
    have hw' : WF rest := by unfold WF at hw ⊢; simp only [List.map, List.nodup_cons] at hw; exact hw.2
    have hnot : e.1 ∉ rest.map (·.1) := by unfold WF at hw; simp only [List.map, List.nodup_cons] at hw; exact hw.1
    simp only [List.foldl]
    cases hm with
    | head =>
      rw [foldl_extStep_not_mem rest _ a hnot]
      exact extStep_get_self this (a, o)
    | tail _ hin => exact ih _ hw' hin

/-- addresses only in the older bundle are kept as they are -/
theorem extendState_older_kept (this other : BMap BAcct) (a : Nat) (h : a ∉ other.map (·.1)) :
    (extendState this other).get a = this.get a := by
  rw [extendState_eq]; exact foldl_extStep_not_mem other this a h


/-! ## concrete witnesses (used by the `_counterexample` theorems; same cases as corpus/C16..C18) -/
namespace Wit

def ea (bal nonce code : Nat) (created sd : Bool) (st : BMap Slot) : EvmAcct :=
  { info := ⟨bal, nonce, code, true⟩, created := created, selfdestructed := sd, touched := true, storage := st }

def runLast (s : SState) (p : Plain) (h : List Group) : Option (SState × Plain) :=
  (runHistory s p h).bind (fun l => l.getLast?)

/-- for every block of the plain reverts of the final bundle: the value the block gives slot (a,k)
when applied to the reference state after that block -/
def slotsBefore (dbr : Bool) (b : BState) (p0 : Plain) (refs : List Plain) (a k : Nat) : List Nat :=
  (toPlainStateReverts b).zipIdx.map fun (blk, i) => (applyRevertBlock dbr p0 blk (refs.getD i {})).slot a k

def refsOf (s : SState) (p : Plain) (h : List Group) : List Plain :=
  match runHistory s p h with | some l => l.map (·.2) | none => []

/-- F1: account 1 (slot 1 = 7) destroyed and re-created writing slot 1 inside one merge group -/
def f1db : BMap Info := [(1, ⟨0, 1, 1, false⟩)]
def f1p0 : Plain := { accts := [(1, some ⟨0, 1, 1, false⟩)], stor := [(1, 1, 7)] }
def f1h : List Group := [[[(1, ea 0 1 1 false true [])], [(1, ea 0 1 1 true false [(1, ⟨0, 5⟩)])]]]

/-- F2a: balance-only account 1 created over (slot 2 := 9), next group destroyed; revert(1) -/
def f2adb : BMap Info := [(1, ⟨5, 0, 0, false⟩)]
def f2ap0 : Plain := { accts := [(1, some ⟨5, 0, 0, false⟩)] }
def f2ah : List Group := [[[(1, ea 5 1 1 true false [(2, ⟨0, 9⟩)])]], [[(1, ea 0 1 1 false true [])]]]

/-- F2b: contract 3 (slot 1 = 9) destroyed, next group re-created (slot 1 := 7); revert(2) -/
def f2bdb : BMap Info := [(3, ⟨0xb1, 1, 1, false⟩)]
def f2bp0 : Plain := { accts := [(3, some ⟨0xb1, 1, 1, false⟩)], stor := [(3, 1, 9)] }
def f2bh : List Group := [[[(3, ea 0 1 1 false true [])]], [[(3, ea 0 1 3 true false [(1, ⟨0, 7⟩)])]]]

/-- F3: contract 2 destroyed and re-created (slot 4 := 7) in bundle A; `take_bundle`; balance change in bundle B -/
def f3db : BMap Info := [(2, ⟨0xb5, 1, 2, false⟩)]
def f3p0 : Plain := { accts := [(2, some ⟨0xb5, 1, 2, false⟩)], stor := [(2, 4, 7)] }
def f3h1 : List Group := [[[(2, ea 0 1 2 false true [])], [(2, ea 0 1 1 true false [(4, ⟨0, 7⟩)])]]]
def f3h2 : List Group := [[[(2, ea 1 1 1 false false [])]]]
/-- `State::take_bundle` -/
def takeBundle (s : SState) : SState := { s with bundle := {} }

/-- F4: slot 1 of contract 2 set to 7 in bundle A; bundle B (fresh `State`) destroys and re-creates it writing slot 1 -/
def f4db : BMap Info := [(2, ⟨3, 1, 1, false⟩)]
def f4p0 : Plain := { accts := [(2, some ⟨3, 1, 1, false⟩)] }
def f4h1 : List Group := [[[(2, ea 3 1 1 false false [(1, ⟨0, 7⟩)])]]]
def f4h2 : List Group := [[[(2, ea 0 1 1 false true [])], [(2, ea 0 1 3 true false [(1, ⟨0, 9⟩)])]]]

/-- F5: contract 5 (slot 3 = 7) destroyed in bundle A; bundle B (fresh `State`) re-creates it -/
def f5db : BMap Info := [(5, ⟨0xb0, 1, 2, false⟩)]
def f5p0 : Plain := { accts := [(5, some ⟨0xb0, 1, 2, false⟩)], stor := [(5, 3, 7)] }
def f5h1 : List Group := [[[(5, ea 0 1 2 false true [])]]]
def f5h2 : List Group := [[[(5, ea 0 1 1 true false [(3, ⟨0, 7⟩)])]]]

/-- bundle A from (db, p0, h1), bundle B from a fresh `State` over `db2` and h2, the reference states -/
def split (db db2 : BMap Info) (p0 : Plain) (h1 h2 : List Group) : Option (BState × BState × Plain × Plain) :=
  (runLast { db := db, sc := true } p0 h1).bind fun (s1, r1) =>
    (runLast { db := db2, sc := true } r1 h2).map fun (s2, r2) => (s1.bundle, s2.bundle, r1, r2)

end Wit

end Revm.Proofs.Bundle
