import Revm.Model.InspectorWrap
/-! Instantiating C28 with the whole-EVM model, part 4a: facts about the DRIVER of an arbitrary frame machine
(`Model/InspectorWrap.lean`): the loop body in named pieces, and monotonicity in the fuel.

The abstract driver uses nested fuel (`loop (n+1)` runs `runInterp n` and then `loop n`); a run that returns on some
fuel returns the same on every larger fuel. -/
namespace Revm.Proofs.EvmInstWrap
open Revm Revm.Model Revm.Model.InspectorWrap

section Generic
variable {T : Ty} {C : Type}

/-! ## the loop body in pieces -/

/-- what `Interpreter::run` makes of the interpreter the `while` loop left -/
def runPost (st : IState T) (c : C) : Action T × IState T × C :=
  match st.nextAction with
  | .none => (.ret { result := st.instructionResult, output := [], gas := st.gas }, st, c)
  | a => (a, { st with nextAction := .none }, c)

/-- the end of the loop body: the verdict of `handle_action` -/
def loopNext (m : Machine T C) (n : Nat) : Res T.Err (LoopNext T C) → Option (Res T.Err (FrameResult × C))
  | .err e => some (.err e)
  | .panic => some .panic
  | .ok (.done r c) => some (.ok (r, c))
  | .ok (.continue stack shared c) => m.loop n stack shared c

/-- the loop body after `take_error` -/
def loopHandle (m : Machine T C) (n : Nat) (a : Action T) (f : Frame T) (rest : List (Frame T)) (shared : T.Mem) :
    Res T.Err C → Option (Res T.Err (FrameResult × C))
  | .err e => some (.err e)
  | .panic => some .panic
  | .ok c => loopNext m n (m.handleAction a f rest shared c)

/-- the loop body after `execute_frame` -/
def loopTail (m : Machine T C) (n : Nat) (rest : List (Frame T)) (x : Action T × Frame T × T.Mem × C) :
    Option (Res T.Err (FrameResult × C)) :=
  loopHandle m n x.1 x.2.1 rest x.2.2.1 (m.takeError x.2.2.2)

/-- `execute_frame` once the `while` loop of `run` has returned `(st, c)` -/
def framePost (m : Machine T C) (f : Frame T) (st : IState T) (c : C) : Action T × Frame T × T.Mem × C :=
  ((runPost st c).1, { f with interp := { (runPost st c).2.1 with mem := m.emptyMem } }, (runPost st c).2.1.mem,
    (runPost st c).2.2)

theorem run_eq (m : Machine T C) (n : Nat) (st0 : IState T) (mem : T.Mem) (c : C) :
    m.run n st0 mem c =
      (m.runInterp n { st0 with nextAction := .none, mem := mem } c).map (fun p => runPost p.1 p.2) := by
  unfold Machine.run
  dsimp only
  generalize m.runInterp n _ c = r
  cases r with
  | none => rfl
  | some p =>
    obtain ⟨st, c'⟩ := p
    simp only [Option.map, runPost]
    cases h : st.nextAction <;> rfl

theorem executeFrame_eq (m : Machine T C) (n : Nat) (f : Frame T) (shared : T.Mem) (c : C) :
    m.executeFrame n f shared c =
      (m.runInterp n { f.interp with nextAction := .none, mem := shared } c).map (fun p => framePost m f p.1 p.2) := by
  unfold Machine.executeFrame
  rw [run_eq]
  cases m.runInterp n { f.interp with nextAction := .none, mem := shared } c with
  | none => rfl
  | some p => rfl

theorem loop_succ (m : Machine T C) (n : Nat) (f : Frame T) (rest : List (Frame T)) (shared : T.Mem) (c : C) :
    m.loop (n + 1) (f :: rest) shared c = (m.executeFrame n f shared c).bind (loopTail m n rest) := by
  rw [Machine.loop]
  cases m.executeFrame n f shared c with
  | none => rfl
  | some x =>
    obtain ⟨a, f', sh', c'⟩ := x
    simp only [Option.bind, loopTail]
    cases m.takeError c' with
    | err e => rfl
    | panic => rfl
    | ok c2 =>
      simp only [loopHandle]
      cases m.handleAction a f' rest sh' c2 with
      | err e => rfl
      | panic => rfl
      | ok nx => cases nx <;> rfl

/-- the loop body of a frame whose `while` loop returns `(st, c')` -/
theorem loop_of_runInterp (m : Machine T C) (n : Nat) (f : Frame T) (rest : List (Frame T)) (shared : T.Mem) (c : C)
    (st : IState T) (c' : C)
    (h : m.runInterp n { f.interp with nextAction := .none, mem := shared } c = some (st, c')) :
    m.loop (n + 1) (f :: rest) shared c = loopTail m n rest (framePost m f st c') := by
  rw [loop_succ, executeFrame_eq, h]; rfl

/-! ## the `while` loop of `run` -/

theorem runInterp_halted (m : Machine T C) (n : Nat) (st : IState T) (c : C)
    (h : st.instructionResult ≠ .Continue) : m.runInterp (n + 1) st c = some (st, c) := by
  rw [Machine.runInterp]; simp only [h, if_false]

theorem runInterp_step (m : Machine T C) (n : Nat) (st : IState T) (c : C)
    (h : st.instructionResult = .Continue) :
    m.runInterp (n + 1) st c = m.runInterp n (m.step st c).1 (m.step st c).2 := by
  rw [Machine.runInterp]; simp only [h, if_true]

/-- one instruction that leaves `instruction_result` set ends the `while` loop -/
theorem runInterp_last (m : Machine T C) (n : Nat) (st : IState T) (c : C)
    (h : st.instructionResult = .Continue) (h' : (m.step st c).1.instructionResult ≠ .Continue) :
    m.runInterp (n + 2) st c = some (m.step st c) := by
  rw [runInterp_step m (n + 1) st c h, runInterp_halted m n _ _ h']

/-! ## monotonicity in the fuel -/

theorem runInterp_mono (m : Machine T C) : ∀ (n : Nat) (st : IState T) (c : C) (x : IState T × C),
    m.runInterp n st c = some x → m.runInterp (n + 1) st c = some x := by
  intro n
  induction n with
  | zero => intro st c x h; simp [Machine.runInterp] at h
  | succ n ih =>
    intro st c x h
    by_cases hc : st.instructionResult = .Continue
    · rw [runInterp_step m _ st c hc] at h ⊢
      exact ih _ _ x h
    · rw [runInterp_halted m _ st c hc] at h ⊢
      exact h

theorem executeFrame_mono (m : Machine T C) (n : Nat) (f : Frame T) (shared : T.Mem) (c : C)
    (x : Action T × Frame T × T.Mem × C) (h : m.executeFrame n f shared c = some x) :
    m.executeFrame (n + 1) f shared c = some x := by
  rw [executeFrame_eq] at h ⊢
  cases hr : m.runInterp n { f.interp with nextAction := .none, mem := shared } c with
  | none => rw [hr] at h; simp at h
  | some p => rw [hr] at h; rw [runInterp_mono m n _ _ p hr]; exact h

theorem loop_mono (m : Machine T C) : ∀ (n : Nat) (fs : List (Frame T)) (shared : T.Mem) (c : C)
    (x : Res T.Err (FrameResult × C)), m.loop n fs shared c = some x → m.loop (n + 1) fs shared c = some x := by
  intro n
  induction n with
  | zero => intro fs shared c x h; simp [Machine.loop] at h
  | succ n ih =>
    intro fs shared c x h
    cases fs with
    | nil => rw [Machine.loop] at h ⊢; exact h
    | cons f rest =>
      rw [loop_succ] at h ⊢
      cases he : m.executeFrame n f shared c with
      | none => rw [he] at h; simp at h
      | some y =>
        rw [he] at h
        rw [executeFrame_mono m n f shared c y he]
        simp only [Option.bind, loopTail] at h ⊢
        cases ht : m.takeError y.2.2.2 with
        | err e => rw [ht] at h; exact h
        | panic => rw [ht] at h; exact h
        | ok c2 =>
          rw [ht] at h
          simp only [loopHandle] at h ⊢
          cases hh : m.handleAction y.1 y.2.1 rest y.2.2.1 c2 with
          | err e => rw [hh] at h; exact h
          | panic => rw [hh] at h; exact h
          | ok nx =>
            rw [hh] at h
            cases nx with
            | done r c3 => exact h
            | «continue» st sh c3 => exact ih st sh c3 x h

theorem loop_mono_add (m : Machine T C) (k n : Nat) (fs : List (Frame T)) (shared : T.Mem) (c : C)
    (x : Res T.Err (FrameResult × C)) (h : m.loop n fs shared c = some x) : m.loop (n + k) fs shared c = some x := by
  induction k with
  | zero => exact h
  | succ k ih => exact loop_mono m (n + k) fs shared c x ih

theorem loop_mono_le (m : Machine T C) {n n' : Nat} (hle : n ≤ n') (fs : List (Frame T)) (shared : T.Mem) (c : C)
    (x : Res T.Err (FrameResult × C)) (h : m.loop n fs shared c = some x) : m.loop n' fs shared c = some x := by
  obtain ⟨k, rfl⟩ := Nat.exists_eq_add_of_le hle
  exact loop_mono_add m k n fs shared c x h

theorem loop_zero (m : Machine T C) (fs : List (Frame T)) (shared : T.Mem) (c : C) : m.loop 0 fs shared c = none := by
  rw [Machine.loop]

theorem exec_mono_le (m : Machine T C) {n n' : Nat} (hle : n ≤ n') (inp : FirstInput T) (c : C)
    (x : Res T.Err (FrameResult × C)) (h : m.exec n inp c = some x) : m.exec n' inp c = some x := by
  unfold Machine.exec at h ⊢
  cases hf : m.firstFrame inp c with
  | err e => rw [hf] at h; exact h
  | panic => rw [hf] at h; exact h
  | ok p =>
    obtain ⟨fr, c1⟩ := p
    rw [hf] at h
    cases fr with
    | inr r => exact h
    | inl f =>
      simp only at h ⊢
      cases hl : m.loop n [f] (m.newContext m.newMem) c1 with
      | none => rw [hl] at h; simp at h
      | some y =>
        rw [hl] at h
        rw [loop_mono_le m hle _ _ _ y hl]
        exact h

/-! ## stepping the loop from the outside -/

/-- the running frame executes one instruction that leaves `instruction_result = Continue`: the loop continues as from
the state after it -/
theorem loop_after_step (m : Machine T C) (f : Frame T) (rest : List (Frame T)) (shared : T.Mem) (c : C)
    (hc : f.interp.instructionResult = .Continue)
    (st1 : IState T) (c1 : C) (hs : m.step { f.interp with nextAction := .none, mem := shared } c = (st1, c1))
    (hna : { st1 with nextAction := .none, mem := st1.mem } = st1)
    (n : Nat) (x : Res T.Err (FrameResult × C))
    (h : m.loop n ({ f with interp := st1 } :: rest) st1.mem c1 = some x) :
    m.loop (n + 1) (f :: rest) shared c = some x := by
  cases n with
  | zero => rw [loop_zero] at h; simp at h
  | succ n =>
    rw [loop_succ, executeFrame_eq] at h
    rw [loop_succ, executeFrame_eq]
    have e1 : m.runInterp (n + 1) { f.interp with nextAction := .none, mem := shared } c =
        m.runInterp n st1 c1 := by
      have hc' : ({ f.interp with nextAction := .none, mem := shared } : IState T).instructionResult = .Continue := hc
      rw [runInterp_step m n _ c hc', hs]
    rw [e1]
    simp only [hna] at h
    cases hr : m.runInterp n st1 c1 with
    | none => rw [hr] at h; simp at h
    | some p =>
      rw [hr] at h
      simp only [Option.map, Option.bind] at h ⊢
      -- the tail of the body, one unit of fuel more
      have hmono : ∀ y, loopTail m n rest y = some x → loopTail m (n + 1) rest y = some x := by
        intro y hy
        simp only [loopTail] at hy ⊢
        cases ht : m.takeError y.2.2.2 with
        | err e => rw [ht] at hy; exact hy
        | panic => rw [ht] at hy; exact hy
        | ok c2 =>
          rw [ht] at hy
          simp only [loopHandle] at hy ⊢
          cases hh : m.handleAction y.1 y.2.1 rest y.2.2.1 c2 with
          | err e => rw [hh] at hy; exact hy
          | panic => rw [hh] at hy; exact hy
          | ok nx =>
            rw [hh] at hy
            cases nx with
            | done r c3 => exact hy
            | «continue» st sh c3 => exact loop_mono m n st sh c3 x hy
      exact hmono _ h

end Generic

end Revm.Proofs.EvmInstWrap
