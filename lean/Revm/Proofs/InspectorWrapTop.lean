import Revm.Proofs.InspectorWrapLoop
/-! Proofs for C28, part 3: first frame + loop + `last_frame_return` (`Machine.exec`); the three inspectors;
the consumers of an outcome never read the gas of an error-class result. -/
namespace Revm.Proofs.InspectorWrap
open Revm Revm.Model.InspectorWrap

set_option linter.unusedSimpArgs false
set_option linter.unusedVariables false

variable {T : Ty} {S : Type}

theorem inv_nil (w : WState T S) : Inv ([] : List (Frame T)) w := fun k => Nat.zero_le _

theorem one_le_of_invPlus_nil {k0 : Kind} {w : WState T S} (h : InvPlus k0 ([] : List (Frame T)) w) :
    1 ≤ wlen k0 w := by
  have := h k0; simp [kcount] at this; exact this

/-- post-condition of the first handler -/
def FirstPost (a : (Frame T ⊕ FrameResult) × T.E) (b : (Frame T ⊕ FrameResult) × (T.E × WState T S)) : Prop :=
  b.1 = a.1 ∧ b.2.1 = a.2 ∧
    (match a.1 with
     | .inl f => Inv [f] b.2.2
     | .inr r => 1 ≤ wlen (kindOf r) b.2.2)

theorem sim_firstFrame {rel : ORel} {obs : Observer T S} (h : Observing obs rel) (ops : EnvOps T)
    (m : Machine T T.E) (inp : FirstInput T) (c : T.E × WState T S) :
    RSim FirstPost (m.firstFrame inp c.1) ((wrap ops obs m).firstFrame inp c) := by
  cases inp with
  | call i =>
    obtain ⟨s', hs⟩ := wrap_call h ops m c i
    show RSim FirstPost ((m.call c.1 i).bind _) (((wrap ops obs m).call c i).bind _)
    rw [hs]
    refine RSim.bind (rsim_liftRes _ _) ?_
    intro x y hxy; subst hxy
    obtain ⟨x, e⟩ := x
    have hp := invPlus_push_call (inv_nil c.2) i s'
    cases x with
    | frame interp data => exact .ok ⟨rfl, rfl, inv_of_invPlus_frame hp _ rfl⟩
    | result o => exact .ok ⟨rfl, rfl, one_le_of_invPlus_nil hp⟩
  | create i =>
    obtain ⟨s', hs⟩ := wrap_create h ops m c i
    show RSim FirstPost ((m.create c.1 i).bind _) (((wrap ops obs m).create c i).bind _)
    rw [hs]
    refine RSim.bind (rsim_liftRes _ _) ?_
    intro x y hxy; subst hxy
    obtain ⟨x, e⟩ := x
    have hp := invPlus_push_create (inv_nil c.2) i s'
    cases x with
    | frame interp data => exact .ok ⟨rfl, rfl, inv_of_invPlus_frame hp _ rfl⟩
    | result o => exact .ok ⟨rfl, rfl, one_le_of_invPlus_nil hp⟩
  | eofcreate i =>
    obtain ⟨s', hs⟩ := wrap_eofcreate h ops m c i
    show RSim FirstPost ((m.eofcreate c.1 i).bind _) (((wrap ops obs m).eofcreate c i).bind _)
    rw [hs]
    refine RSim.bind (rsim_liftRes _ _) ?_
    intro x y hxy; subst hxy
    obtain ⟨x, e⟩ := x
    have hp := invPlus_push_eof (inv_nil c.2) i s'
    cases x with
    | frame interp data => exact .ok ⟨rfl, rfl, inv_of_invPlus_frame hp _ rfl⟩
    | result o => exact .ok ⟨rfl, rfl, one_le_of_invPlus_nil hp⟩

/-- forget the wrapper state (inspector and input stacks) of a result -/
def dropW : Option (Res T.Err (FrameResult × (T.E × WState T S))) → Option (Res T.Err (FrameResult × T.E)) :=
  Option.map (Res.map (fun x => (x.1, x.2.1)))

theorem dropW_of_rsim {x : Res T.Err (FrameResult × T.E)} {y : Res T.Err (FrameResult × (T.E × WState T S))}
    (hxy : RSim (fun a b => b.1 = a.1 ∧ b.2.1 = a.2) x y) : dropW (some y) = some x := by
  cases hxy with
  | @ok a b hp =>
    obtain ⟨a1, a2⟩ := a; obtain ⟨b1, b2, b3⟩ := b
    simp only at hp
    obtain ⟨h1, h2⟩ := hp; subst h1; subst h2; rfl
  | err => rfl
  | panic => rfl

/-- first frame, the whole loop and `last_frame_return`: for every fuel the wrapped machine returns what the
plain machine returns (same `FrameResult`, same context, same error, no additional panic, out of fuel at
the same fuel) -/
theorem exec_eq {rel : ORel} {obs : Observer T S} (h : Observing obs rel) (ops : EnvOps T)
    (m : Machine T T.E) (hr : Respects m rel) (fuel : Nat) (inp : FirstInput T) (c : T.E × WState T S) :
    dropW ((wrap ops obs m).exec fuel inp c) = m.exec fuel inp c.1 := by
  have hf := sim_firstFrame h ops m inp c
  unfold Machine.exec
  generalize hp : m.firstFrame inp c.1 = p at hf ⊢
  generalize hq : (wrap ops obs m).firstFrame inp c = q at hf ⊢
  cases hf with
  | err => rfl
  | panic => rfl
  | @ok a b hab =>
    obtain ⟨a1, e1⟩ := a; obtain ⟨b1, c1⟩ := b
    obtain ⟨h1, h2, h3⟩ := hab
    simp only at h1 h2 h3
    subst h1
    cases b1 with
    | inr r =>
      simp only at h3 ⊢
      have := wrap_lastFrameReturn h ops m hr c1 r h3
      rw [h2] at this
      exact dropW_of_rsim this
    | inl f =>
      simp only at h3 ⊢
      have hl := sim_loop h ops m hr fuel [f] (m.newContext m.newMem) c1 h3
      rw [h2] at hl
      have hnc : (wrap ops obs m).newContext (wrap ops obs m).newMem = m.newContext m.newMem := rfl
      rw [hnc]
      generalize hp2 : m.loop fuel [f] (m.newContext m.newMem) e1 = p2 at hl ⊢
      generalize hq2 : (wrap ops obs m).loop fuel [f] (m.newContext m.newMem) c1 = q2 at hl ⊢
      cases p2 with
      | none => cases q2 with
        | none => rfl
        | some y => exact hl.elim
      | some x => cases q2 with
        | none => exact hl.elim
        | some y =>
          have hl' : RSim _ x y := hl
          cases hl' with
          | err => rfl
          | panic => rfl
          | @ok a b hab =>
            obtain ⟨r, e2⟩ := a; obtain ⟨r', c2⟩ := b
            obtain ⟨g1, g2, g3⟩ := hab
            simp only at g1 g2 g3
            subst g1
            have := wrap_lastFrameReturn h ops m hr c2 r' g3
            rw [g2] at this
            exact dropW_of_rsim this

/-! ### the three inspectors -/

theorem noop_observing (T : Ty) : Observing (noop T) ORel.eq where
  initializeInterp _ _ _ := rfl
  step _ _ _ := rfl
  stepEnd _ _ _ := rfl
  log _ _ _ _ := rfl
  call _ _ _ := rfl
  create _ _ _ := rfl
  eofcreate _ _ _ := rfl
  callEnd _ _ _ _ := ⟨rfl, rfl⟩
  createEnd _ _ _ _ := ⟨rfl, rfl⟩
  eofcreateEnd _ _ _ _ := ⟨rfl, rfl⟩

theorem gasEndResult_errGasEq (s : GasInsp) (r : InterpreterResult) : errGasEq r (gasEndResult s r).2 := by
  unfold gasEndResult
  by_cases he : r.result.isError = true
  · simp only [he, if_true]; exact ⟨rfl, rfl, fun hf => by rw [he] at hf; cases hf⟩
  · simp only [he, if_false]; exact ⟨rfl, rfl, fun _ => rfl⟩

/-- `GasInspector` observes up to the gas record of error-class outcomes -/
theorem gasInspector_observing (T : Ty) : Observing (gasInspector T) ORel.errGas where
  initializeInterp _ _ _ := rfl
  step _ _ _ := rfl
  stepEnd _ _ _ := rfl
  log _ _ _ _ := rfl
  call _ _ _ := rfl
  create _ _ _ := rfl
  eofcreate _ _ _ := rfl
  callEnd s _ _ o := ⟨rfl, rfl, gasEndResult_errGasEq s o.result⟩
  createEnd s _ _ o := ⟨rfl, rfl, gasEndResult_errGasEq s o.result⟩
  eofcreateEnd _ _ _ o := ⟨rfl, rfl, rfl, rfl, fun _ => rfl⟩

/-- `TracerEip3155`: its `call_end` / `create_end` return exactly what `GasInspector`'s return -/
theorem tracer_end_eq_gas (T : Ty) (ops : EnvOps T) (s : Tracer) (e : T.E) (i : T.CallIn) (j : T.CreateIn)
    (o : CallOutcome) (o' : CreateOutcome) :
    ((tracer3155 T ops).callEnd s e i o).2 = ((gasInspector T).callEnd s.gasInspector e i o).2 ∧
    ((tracer3155 T ops).createEnd s e j o').2 = ((gasInspector T).createEnd s.gasInspector e j o').2 :=
  ⟨rfl, rfl⟩

theorem tracer_observing (T : Ty) (ops : EnvOps T) : Observing (tracer3155 T ops) ORel.errGas where
  initializeInterp _ _ _ := rfl
  step _ _ _ := rfl
  stepEnd s st e := by
    show (if s.skip then _ else _ : Tracer × IState T × T.E).2 = (st, e)
    cases s.skip <;> rfl
  log _ _ _ _ := rfl
  call _ _ _ := rfl
  create _ _ _ := rfl
  eofcreate _ _ _ := rfl
  callEnd s _ _ o := ⟨rfl, rfl, gasEndResult_errGasEq s.gasInspector o.result⟩
  createEnd s _ _ o := ⟨rfl, rfl, gasEndResult_errGasEq s.gasInspector o.result⟩
  eofcreateEnd _ _ _ o := ⟨rfl, rfl, rfl, rfl, fun _ => rfl⟩

/-! ### the consumers never read the gas of an error-class outcome -/

theorem isError_not_ok_revert (r : IR) (h : r.isError = true) : r.isOk = false ∧ r.isRevert = false ∧ r ≠ .ReturnContract := by
  cases r <;> simp [IR.isError, IR.isOk, IR.isRevert] at h ⊢

/-- every variant is in exactly one class (or is `CallOrCreate`) -/
theorem ir_classes (r : IR) :
    (r.isOk = true ∧ r.isRevert = false ∧ r.isError = false) ∨
    (r.isOk = false ∧ r.isRevert = true ∧ r.isError = false) ∨
    (r.isOk = false ∧ r.isRevert = false ∧ r.isError = true) ∨
    (r = .CallOrCreate ∧ r.isOk = false ∧ r.isRevert = false ∧ r.isError = false) := by
  cases r <;> simp [IR.isError, IR.isOk, IR.isRevert]

theorem errGasEq_cases {r r' : InterpreterResult} (h : errGasEq r r') :
    r' = r ∨ (r.result.isError = true ∧ r'.result = r.result ∧ r'.output = r.output) := by
  obtain ⟨h1, h2, h3⟩ := h
  by_cases he : r.result.isError = true
  · exact .inr ⟨he, h1, h2⟩
  · left
    have := h3 (by simpa using he)
    cases r; cases r'; simp only at h1 h2 this; subst h1; subst h2; subst this; rfl

theorem insertCallOutcome_blind {T : Ty} (io : InterpOps T) (st : IState T) (sh : T.Mem) (o o' : CallOutcome)
    (h : ORel.errGas.call o o') : insertCallOutcome io st sh o' = insertCallOutcome io st sh o := by
  obtain ⟨hm, hg⟩ := h
  rcases errGasEq_cases hg with heq | ⟨he, hres, hout⟩
  · cases o; cases o'; simp only at hm heq; subst hm; subst heq; rfl
  · obtain ⟨hok, hrev, _⟩ := isError_not_ok_revert _ he
    unfold insertCallOutcome targetLen
    simp only [hres, hout, hm, hok, hrev, if_false, Bool.false_eq_true]

theorem insertCreateOutcome_blind {T : Ty} (io : InterpOps T) (st : IState T) (o o' : CreateOutcome)
    (h : ORel.errGas.create o o') : insertCreateOutcome io st o' = insertCreateOutcome io st o := by
  obtain ⟨hm, hg⟩ := h
  rcases errGasEq_cases hg with heq | ⟨he, hres, hout⟩
  · cases o; cases o'; simp only at hm heq; subst hm; subst heq; rfl
  · obtain ⟨hok, hrev, _⟩ := isError_not_ok_revert _ he
    unfold insertCreateOutcome
    simp only [hres, hout, hm, hok, hrev, if_false, Bool.false_eq_true]

theorem insertEofcreateOutcome_blind {T : Ty} (io : InterpOps T) (st : IState T) (o o' : CreateOutcome)
    (h : ORel.errGas.create o o') : insertEofcreateOutcome io st o' = insertEofcreateOutcome io st o := by
  obtain ⟨hm, hg⟩ := h
  rcases errGasEq_cases hg with heq | ⟨he, hres, hout⟩
  · cases o; cases o'; simp only at hm heq; subst hm; subst heq; rfl
  · obtain ⟨hok, hrev, hrc⟩ := isError_not_ok_revert _ he
    unfold insertEofcreateOutcome
    simp only [hres, hout, hm, hrev, hrc, if_false, Bool.false_eq_true]

theorem setGas_errGas_call (o o' : CallOutcome) (g : Gas) (hm : o'.memoryOffset = o.memoryOffset)
    (hres : o'.result.result = o.result.result) (hout : o'.result.output = o.result.output) :
    (FrameResult.call o').setGas g = (FrameResult.call o).setGas g := by
  obtain ⟨⟨r, out, gg⟩, mo⟩ := o; obtain ⟨⟨r', out', gg'⟩, mo'⟩ := o'
  simp only at hm hres hout; subst hm; subst hres; subst hout; rfl

theorem setGas_errGas_create (o o' : CreateOutcome) (g : Gas) (hm : o'.address = o.address)
    (hres : o'.result.result = o.result.result) (hout : o'.result.output = o.result.output) :
    (FrameResult.create o').setGas g = (FrameResult.create o).setGas g ∧
    (FrameResult.eofcreate o').setGas g = (FrameResult.eofcreate o).setGas g := by
  obtain ⟨⟨r, out, gg⟩, mo⟩ := o; obtain ⟨⟨r', out', gg'⟩, mo'⟩ := o'
  simp only at hm hres hout; subst hm; subst hres; subst hout; exact ⟨rfl, rfl⟩

theorem lastFrameReturn_blind_call (lim : Nat) (o o' : CallOutcome) (h : ORel.errGas.call o o') :
    lastFrameReturn lim (.call o') = lastFrameReturn lim (.call o) := by
  obtain ⟨hm, hg⟩ := h
  rcases errGasEq_cases hg with heq | ⟨he, hres, hout⟩
  · cases o; cases o'; simp only at hm heq; subst hm; subst heq; rfl
  · obtain ⟨hok, hrev, _⟩ := isError_not_ok_revert _ he
    unfold lastFrameReturn
    simp only [FrameResult.interpreterResult, hres, hok, hrev, if_false, Bool.false_eq_true]
    exact setGas_errGas_call o o' _ hm hres hout

theorem lastFrameReturn_blind_create (lim : Nat) (o o' : CreateOutcome) (h : ORel.errGas.create o o') :
    lastFrameReturn lim (.create o') = lastFrameReturn lim (.create o) ∧
    lastFrameReturn lim (.eofcreate o') = lastFrameReturn lim (.eofcreate o) := by
  obtain ⟨hm, hg⟩ := h
  rcases errGasEq_cases hg with heq | ⟨he, hres, hout⟩
  · cases o; cases o'; simp only at hm heq; subst hm; subst heq; exact ⟨rfl, rfl⟩
  · obtain ⟨hok, hrev, _⟩ := isError_not_ok_revert _ he
    unfold lastFrameReturn
    simp only [FrameResult.interpreterResult, hres, hok, hrev, if_false, Bool.false_eq_true]
    exact setGas_errGas_create o o' _ hm hres hout

theorem lastFrameReturnOp_blind_call (lim : Nat) (dep : Bool) (sys : Option Bool) (reg : Bool)
    (o o' : CallOutcome) (h : ORel.errGas.call o o') :
    lastFrameReturnOp lim dep sys reg (.call o') = lastFrameReturnOp lim dep sys reg (.call o) := by
  obtain ⟨hm, hg⟩ := h
  rcases errGasEq_cases hg with heq | ⟨he, hres, hout⟩
  · cases o; cases o'; simp only at hm heq; subst hm; subst heq; rfl
  · obtain ⟨hok, hrev, _⟩ := isError_not_ok_revert _ he
    unfold lastFrameReturnOp
    simp only [FrameResult.interpreterResult, hres, hok, hrev, if_false, Bool.false_eq_true]
    exact setGas_errGas_call o o' _ hm hres hout

theorem lastFrameReturnOp_blind_create (lim : Nat) (dep : Bool) (sys : Option Bool) (reg : Bool)
    (o o' : CreateOutcome) (h : ORel.errGas.create o o') :
    lastFrameReturnOp lim dep sys reg (.create o') = lastFrameReturnOp lim dep sys reg (.create o) ∧
    lastFrameReturnOp lim dep sys reg (.eofcreate o') = lastFrameReturnOp lim dep sys reg (.eofcreate o) := by
  obtain ⟨hm, hg⟩ := h
  rcases errGasEq_cases hg with heq | ⟨he, hres, hout⟩
  · cases o; cases o'; simp only at hm heq; subst hm; subst heq; exact ⟨rfl, rfl⟩
  · obtain ⟨hok, hrev, _⟩ := isError_not_ok_revert _ he
    unfold lastFrameReturnOp
    simp only [FrameResult.interpreterResult, hres, hok, hrev, if_false, Bool.false_eq_true]
    exact setGas_errGas_create o o' _ hm hres hout

/-! ### `Respects` -/

/-- every machine respects equality -/
theorem respects_eq {T : Ty} (m : Machine T T.E) : Respects m ORel.eq where
  insertCall _ _ _ _ _ h := by cases h; rfl
  insertCreate _ _ _ _ h := by cases h; rfl
  insertEofcreate _ _ _ _ h := by cases h; rfl
  lastCall _ _ _ h := by cases h; rfl
  lastCreate _ _ _ h := by cases h; rfl
  lastEofcreate _ _ _ h := by cases h; rfl

theorem mainnet_respects {T : Ty} {ops : EnvOps T} {io : InterpOps T} {m : Machine T T.E}
    (hm : MainnetConsumers ops io m) : Respects m ORel.errGas where
  insertCall c f sh o o' h := by
    rw [hm.insertCall, hm.insertCall]; unfold mainnetInsertCall; rw [insertCallOutcome_blind io f.interp _ o o' h]
  insertCreate c f o o' h := by
    rw [hm.insertCreate, hm.insertCreate]; unfold mainnetInsertCreate; rw [insertCreateOutcome_blind io f.interp o o' h]
  insertEofcreate c f o o' h := by
    rw [hm.insertEofcreate, hm.insertEofcreate]; unfold mainnetInsertEofcreate
    rw [insertEofcreateOutcome_blind io f.interp o o' h]
  lastCall c o o' h := by rw [hm.last, hm.last, lastFrameReturn_blind_call _ o o' h]
  lastCreate c o o' h := by rw [hm.last, hm.last, (lastFrameReturn_blind_create _ o o' h).1]
  lastEofcreate c o o' h := by rw [hm.last, hm.last, (lastFrameReturn_blind_create _ o o' h).2]

theorem optimism_respects {T : Ty} {ops : EnvOps T} {io : InterpOps T} {dep : T.E → Bool}
    {sys : T.E → Option Bool} {reg : Bool} {m : Machine T T.E}
    (hm : OptimismConsumers ops io dep sys reg m) : Respects m ORel.errGas where
  insertCall c f sh o o' h := by
    rw [hm.insertCall, hm.insertCall]; unfold mainnetInsertCall; rw [insertCallOutcome_blind io f.interp _ o o' h]
  insertCreate c f o o' h := by
    rw [hm.insertCreate, hm.insertCreate]; unfold mainnetInsertCreate; rw [insertCreateOutcome_blind io f.interp o o' h]
  insertEofcreate c f o o' h := by
    rw [hm.insertEofcreate, hm.insertEofcreate]; unfold mainnetInsertEofcreate
    rw [insertEofcreateOutcome_blind io f.interp o o' h]
  lastCall c o o' h := by rw [hm.last, hm.last, lastFrameReturnOp_blind_call _ _ _ _ o o' h]
  lastCreate c o o' h := by rw [hm.last, hm.last, (lastFrameReturnOp_blind_create _ _ _ _ o o' h).1]
  lastEofcreate c o o' h := by rw [hm.last, hm.last, (lastFrameReturnOp_blind_create _ _ _ _ o o' h).2]

end Revm.Proofs.InspectorWrap
