import Revm.Proofs.InterpCall
/-! Proofs for C25, part 7: `execInstr` and `step` as a whole, re-entry of a child result, and the loop. -/
set_option linter.unusedSimpArgs false
set_option linter.unusedVariables false
namespace Revm.Proofs.Interp
open Revm Revm.Model Revm.Model.Interp
open Revm.Proofs.Memory (WF)

theorem execInstr_good {s0 : IState} (hs : Start s0) (i : Instr) : Good s0 (execInstr i s0) := by
  unfold execInstr
  cases hp : execPure i with
  | some m => exact .pure (toDone_next (execPure_sat hs i m hp))
  | none =>
    cases i with
    | keccak256 => exact keccak256I_good hs
    | balance => exact balanceI_good hs
    | selfbalance => exact selfbalanceI_good hs
    | extcodesize => exact extcodesizeI_good hs
    | extcodehash => exact extcodehashI_good hs
    | extcodecopy => exact extcodecopyI_good hs
    | blockhash => exact blockhashI_good hs
    | sload => exact sloadI_good hs
    | sstore => exact sstoreI_good hs
    | tload => exact tloadI_good hs
    | tstore => exact tstoreI_good hs
    | log n => exact logI_good hs n.val
    | selfdestruct => exact selfdestructI_good hs
    | create c2 => exact .pure (toDoneAction_good hs (createI_sat hs c2))
    | call => exact callI_good hs
    | callcode => exact callcodeI_good hs
    | delegatecall => exact delegatecallI_good hs
    | staticcall => exact staticcallI_good hs
    | _ => simp [execPure] at hp

/-! ## the invariant at instruction boundaries -/

/-- what holds of every state `run` reaches between two instructions -/
structure Inv (s : IState) : Prop where
  codeLen : s.code.length = s.origLen + 33
  pad : ∀ i, s.origLen ≤ i → i < s.code.length → s.code[i]? = some 0
  jt : ∀ t, Jump.isValid s.jumpTable t = true → t < s.origLen
  legacy : s.isEof = false
  notInit : s.isEofInit = false
  envOk : GasCalc.enabled s.spec GasCalc.SpecId.MERGE = true → s.env.prevrandao ≠ none
  origLe : s.origLen ≤ Memory.ISIZE_MAX
  /-- `pc_in_bounds` -/
  pc : s.pc < s.code.length
  stack : s.stack.length ≤ 1024
  memWF : WF s.mem
  memCk : s.mem.lastCheckpoint ≤ 2^62
  rdLen : s.returnData.length ≤ Memory.ISIZE_MAX
  inLen : s.input.length ≤ Memory.ISIZE_MAX
  meas : measure s ≤ U64 - 1
  safe : measure s < U64 - 1 ∨ s.stack = []

/-- `Inv` survives whatever a handler does (`Core`), as long as the instruction pointer stays in the code -/
theorem Inv.ofCore {s s1 s' : IState} {k : Nat} {st ne : Bool} {L : Nat} (hi : Inv s)
    (e1 : s1.code = s.code) (e2 : s1.origLen = s.origLen) (e3 : s1.jumpTable = s.jumpTable)
    (e4 : s1.isEof = s.isEof) (e5 : s1.isEofInit = s.isEofInit) (e6 : s1.spec = s.spec) (e7 : s1.env = s.env)
    (hc : Core k st ne L s1 s') (hpc : s'.pc < s'.code.length) : Inv s' where
  codeLen := by rw [hc.code, hc.origLen, e1, e2]; exact hi.codeLen
  pad := by rw [hc.code, hc.origLen, e1, e2]; exact hi.pad
  jt := by rw [hc.jt, hc.origLen, e3, e2]; exact hi.jt
  legacy := by rw [hc.isEof, e4]; exact hi.legacy
  notInit := by rw [hc.isEofInit, e5]; exact hi.notInit
  envOk := by rw [hc.spec, hc.env, e6, e7]; exact hi.envOk
  origLe := by rw [hc.origLen, e2]; exact hi.origLe
  pc := hpc
  stack := hc.stack
  memWF := hc.memWF
  memCk := hc.memCk
  rdLen := hc.rdLen
  inLen := hc.inLen
  meas := by have := hc.meas; have := hc.m0; omega
  safe := hc.safe

/-- the running relation of a state with itself -/
theorem Inv.rel {s : IState} (h : Inv s) (st : Bool) (hst : st = true → measure s < U64 - 1) :
    Rel 0 st false (clen s.mem) s s :=
  { code := rfl, origLen := rfl, jt := rfl, isEof := rfl, isEofInit := rfl, spec := rfl, env := rfl, input := rfl,
    ck := rfl, cks := rfl, stack := h.stack, memWF := h.memWF, memCk := h.memCk, memL := Nat.le_refl _, grow := Nat.le_refl _,
    rdLen := h.rdLen, inLen := h.inLen, m0 := h.meas, meas := Nat.le_of_eq (Nat.add_zero _),
    strict := hst, safe := h.safe, nonempty := fun e => (by cases e), pc := rfl }

theorem Inv.ofRel {s s' : IState} {k : Nat} {st ne : Bool} {L : Nat} (hi : Inv s) (hr : Rel k st ne L s s') :
    Inv s' :=
  hi.ofCore (s1 := s) rfl rfl rfl rfl rfl rfl rfl hr.toCore (by rw [hr.pc, hr.code]; exact hi.pc)

/-! ## one instruction -/

/-- the outcome of one resolved instruction, relative to the state before it -/
inductive StepOk (s : IState) : Done → Prop
  | next {s' : IState} (hi : Inv s') (hm : measure s' + 1 ≤ measure s)
      (hc : s'.code = s.code ∧ s'.origLen = s.origLen) : StepOk s (.next s')
  | action {a : Action} {s' : IState} (hi : Inv s') (hm : measure s' + a.gasLimit + 1 ≤ measure s)
      (hr : RetOk a (clen s'.mem)) (hc : s'.code = s.code ∧ s'.origLen = s.origLen) : StepOk s (.action a s')
  | halt {r : IResult} {o : List Nat} {s' : IState} (hm : measure s' ≤ measure s) : StepOk s (.halt r o s')

inductive StepGood (s : IState) : Outcome → Prop
  | pure {d : Done} (h : StepOk s d) : StepGood s (.pure d)
  | host {op : HostOp} {k : HostResp → Done} (h : ∀ r, RespOk r → StepOk s (k r)) : StepGood s (.host op k)

theorem decode_zero : decode 0 = .stop := rfl

theorem stepOk_of_doneGood {s : IState} (hi : Inv s) {d : Done}
    (hd : DoneGood { s with pc := s.pc + 1 } d) : StepOk s d := by
  have hmeq : measure { s with pc := s.pc + 1 } = measure s := rfl
  cases hd with
  | next hn =>
    refine .next (hi.ofCore (s1 := { s with pc := s.pc + 1 }) rfl rfl rfl rfl rfl rfl rfl hn.core hn.pcOk) ?_
      ⟨hn.core.code, hn.core.origLen⟩
    have := hn.core.meas; rw [hmeq] at this; exact this
  | action hn =>
    refine .action (hi.ofCore (s1 := { s with pc := s.pc + 1 }) rfl rfl rfl rfl rfl rfl rfl hn.core hn.pcOk) ?_ hn.ret
      ⟨hn.core.code, hn.core.origLen⟩
    have := hn.gas; rw [hmeq] at this; exact this
  | halt hn =>
    have h2 := hn.meas
    rw [hmeq, Nat.add_zero] at h2
    exact .halt h2

theorem step_eq {s : IState} (h : s.pc < s.code.length) :
    step s = execInstr (decode s.code[s.pc]) { s with pc := s.pc + 1 } := by
  unfold step
  rw [List.getElem?_eq_getElem h]

theorem step_good {s : IState} (hi : Inv s) : StepGood s (step s) := by
  have hpc := hi.pc
  rw [step_eq hpc]
  by_cases hin : s.pc < s.origLen
  · -- an opcode of the code proper
    have hs : Start { s with pc := s.pc + 1 } :=
      { codeLen := hi.codeLen, jt := hi.jt, legacy := hi.legacy, notInit := hi.notInit, envOk := hi.envOk,
        origLe := hi.origLe, pc := hin, stack := hi.stack, memWF := hi.memWF, memCk := hi.memCk,
        rdLen := hi.rdLen, inLen := hi.inLen, meas := hi.meas, safe := hi.safe }
    have hg := execInstr_good hs (decode s.code[s.pc])
    generalize execInstr (decode s.code[s.pc]) { s with pc := s.pc + 1 } = o at hg ⊢
    cases hg with
    | pure hd => exact .pure (stepOk_of_doneGood hi hd)
    | host hk => exact .host (fun r hr => stepOk_of_doneGood hi (hk r hr))
  · -- inside the padding: the byte is 0 = STOP
    have h0 := hi.pad s.pc (by omega) hpc
    rw [List.getElem?_eq_getElem hpc] at h0
    injection h0 with h0
    rw [h0, decode_zero]
    exact .pure (.halt (Nat.le_refl _))

/-! ## re-entry of a child result -/

/-- what the frame machine hands back for an action: at most the gas it was given, never `FatalExternalError`
(the EVM loop leaves through `take_error()?` before `insert_*_outcome` in that case), output a Rust `Bytes` -/
structure ChildOk (a : Action) (c : ChildResult) : Prop where
  gas : c.gasRemaining ≤ a.gasLimit
  notFatal : c.result ≠ .FatalExternalError
  outLen : c.output.length ≤ Memory.ISIZE_MAX

/-- invariant, a bound on the measure, same code as `s` -/
def Mid (B : Nat) (s x : IState) : Prop := Inv x ∧ measure x ≤ B ∧ x.code = s.code ∧ x.origLen = s.origLen

theorem sat_conv {α} {e : Exec α} {H H' : IState → Prop} {Q Q' : α → IState → Prop}
    (h : Exec.Sat e H Q) (hH : ∀ x, H x → H' x) (hQ : ∀ a x, Q a x → Q' a x) : Exec.Sat e H' Q' := by
  cases h with
  | ok h => exact .ok (hQ _ _ h)
  | halt h => exact .halt (hH _ h)

theorem modifyS_sat {H : IState → Prop} (f : IState → IState) (s : IState) :
    Exec.Sat (modifyS f s) H (fun _ x => x = f s) := .ok rfl

theorem mid_push {B : Nat} {s0 s : IState} (h : Mid B s0 s) (hB : B ≤ U64 - 2) (v : Nat) :
    Exec.Sat (push v s) (fun x => measure x ≤ B) (fun _ x => Mid B s0 x) := by
  have hU := U64_val
  have hst : measure s < U64 - 1 := by have := h.2.1; omega
  refine sat_conv (push_sat (h.1.rel true (fun _ => hst)) v) ?_ ?_
  · intro x hx; have := hx.meas; have := h.2.1; omega
  · intro _ x hx
    exact ⟨h.1.ofRel hx, by have := hx.meas; have := h.2.1; omega, hx.code.trans h.2.2.1,
      hx.origLen.trans h.2.2.2⟩

theorem mid_memSet {B : Nat} {s0 s : IState} (h : Mid B s0 s) (off : Nat) (val : List Nat)
    (hin : val = [] ∨ off + val.length ≤ clen s.mem) :
    Exec.Sat (liftMemWrite (fun m => Memory.set m off val) s) (fun x => measure x ≤ B)
      (fun _ x => Mid B s0 x) := by
  refine sat_conv (memSet_sat (h.1.rel false (fun e => by cases e)) off val hin) ?_ ?_
  · intro x hx; have := hx.meas; have := h.2.1; omega
  · intro _ x hx
    exact ⟨h.1.ofRel hx, by have := hx.meas; have := h.2.1; omega, hx.code.trans h.2.2.1,
      hx.origLen.trans h.2.2.2⟩

/-- giving gas back: `erase_cost(returned)` (+ `record_refund`) keeps the invariant while the total stays below
`u64::MAX` -/
theorem Inv.gasBack {s : IState} (hi : Inv s) (g' : Gas.Gas) (ret : Nat)
    (hg : g'.remaining = U64ops.wadd s.gas.remaining ret) (hm : measure s + ret ≤ U64 - 2) :
    Inv { s with gas := g' } ∧ measure { s with gas := g' } = measure s + ret := by
  have hU := U64_val
  have hms : measure s = s.gas.remaining + mcost s := rfl
  have hmeq : measure { s with gas := g' } = g'.remaining + mcost s := rfl
  have hw : U64ops.wadd s.gas.remaining ret = s.gas.remaining + ret :=
    Proofs.Gas.wadd_of_lt _ _ (by omega)
  have hm' : measure { s with gas := g' } = measure s + ret := by rw [hmeq, hg, hw, hms]; omega
  refine ⟨?_, hm'⟩
  exact
    { codeLen := hi.codeLen, pad := hi.pad, jt := hi.jt, legacy := hi.legacy, notInit := hi.notInit,
      envOk := hi.envOk, origLe := hi.origLe, pc := hi.pc, stack := hi.stack, memWF := hi.memWF,
      memCk := hi.memCk, rdLen := hi.rdLen, inLen := hi.inLen,
      meas := by rw [hm']; omega
      safe := Or.inl (by rw [hm']; omega) }

theorem Inv.setReturnData {s : IState} (hi : Inv s) (rd : List Nat) (h : rd.length ≤ Memory.ISIZE_MAX) :
    Inv { s with returnData := rd } :=
  { codeLen := hi.codeLen, pad := hi.pad, jt := hi.jt, legacy := hi.legacy, notInit := hi.notInit,
    envOk := hi.envOk, origLe := hi.origLe, pc := hi.pc, stack := hi.stack, memWF := hi.memWF,
    memCk := hi.memCk, rdLen := h, inLen := hi.inLen, meas := hi.meas, safe := hi.safe }

theorem insertCall_sat {s : IState} {B gl : Nat} (hi : Inv s) (hB1 : measure s + gl ≤ B) (hB2 : B ≤ U64 - 2)
    (retStart retEnd : Nat) (c : ChildResult)
    (hret : retEnd - retStart = 0 ∨ (retStart ≤ retEnd ∧ retEnd ≤ clen s.mem))
    (hg : c.gasRemaining ≤ gl) (hnf : c.result ≠ .FatalExternalError)
    (hol : c.output.length ≤ Memory.ISIZE_MAX) :
    Exec.Sat (insertCallOutcome retStart retEnd c s) (fun x => measure x ≤ B) (fun _ x => Mid B s x) := by
  unfold insertCallOutcome
  refine sat_bind (modifyS_sat _ s) ?_
  rintro _ s1 rfl
  have hi1 := hi.setReturnData c.output hol
  have hm1 : measure { s with returnData := c.output } = measure s := rfl
  have hval : (c.output.take (min (retEnd - retStart) c.output.length)) = []
      ∨ retStart + (c.output.take (min (retEnd - retStart) c.output.length)).length ≤ clen s.mem := by
    rcases hret with h0 | ⟨h1, h2⟩
    · left; rw [h0]; simp
    · right; simp only [List.length_take]; omega
  refine sat_bind (m := getS) (Q := fun a x => { s with returnData := c.output } = a ∧ { s with returnData := c.output } = x) (.ok ⟨rfl, rfl⟩) ?_
  rintro _ _ ⟨rfl, rfl⟩
  dsimp only []
  by_cases hok : c.result.isOk = true
  · -- return_ok!
    rw [if_pos hok]
    refine sat_bind (modifyS_sat _ _) ?_
    rintro _ s2 rfl
    obtain ⟨hi2, hm2⟩ := hi1.gasBack
      (Gas.recordRefund (Gas.eraseCost s.gas c.gasRemaining) c.gasRefunded) c.gasRemaining rfl
      (by rw [hm1]; omega)
    have hmid : Mid B s _ := ⟨hi2, by rw [hm2, hm1]; omega, rfl, rfl⟩
    refine sat_bind (mid_memSet hmid retStart _ hval) ?_
    intro _ s3 h3
    exact mid_push h3 hB2 _
  · rw [if_neg hok]
    by_cases hrev : c.result.isRevert = true
    · -- return_revert!
      rw [if_pos hrev]
      refine sat_bind (modifyS_sat _ _) ?_
      rintro _ s2 rfl
      obtain ⟨hi2, hm2⟩ := hi1.gasBack (Gas.eraseCost s.gas c.gasRemaining) c.gasRemaining rfl
        (by rw [hm1]; omega)
      have hmid : Mid B s _ := ⟨hi2, by rw [hm2, hm1]; omega, rfl, rfl⟩
      refine sat_bind (mid_memSet hmid retStart _ hval) ?_
      intro _ s3 h3
      exact mid_push h3 hB2 _
    · rw [if_neg hrev, if_neg hnf]
      exact mid_push (s0 := s) ⟨hi1, by rw [hm1]; omega, rfl, rfl⟩ hB2 _

theorem insertCreate_sat {s : IState} {B gl : Nat} (hi : Inv s) (hB1 : measure s + gl ≤ B) (hB2 : B ≤ U64 - 2)
    (c : ChildResult) (hg : c.gasRemaining ≤ gl) (hnf : c.result ≠ .FatalExternalError)
    (hol : c.output.length ≤ Memory.ISIZE_MAX) :
    Exec.Sat (insertCreateOutcome c s) (fun x => measure x ≤ B) (fun _ x => Mid B s x) := by
  unfold insertCreateOutcome
  refine sat_bind (modifyS_sat _ s) ?_
  rintro _ s1 rfl
  have hi1 : Inv { s with returnData := if c.result.isRevert = true then c.output else [] } :=
    hi.setReturnData _ (by split <;> simp [hol])
  have hm1 : measure { s with returnData := if c.result.isRevert = true then c.output else [] } = measure s := rfl
  have hmid1 : Mid (B - gl) s { s with returnData := if c.result.isRevert = true then c.output else [] } :=
    ⟨hi1, by rw [hm1]; omega, rfl, rfl⟩
  by_cases hok : c.result.isOk = true
  · rw [if_pos hok]
    refine sat_bind (sat_conv (mid_push hmid1 (by omega) _) (fun x hx => by omega) (fun _ _ hq => hq)) ?_
    intro _ s2 h2
    refine sat_conv (modifyS_sat (H := fun x => measure x ≤ B) _ s2) (fun _ hx => hx) ?_
    rintro _ s3 rfl
    obtain ⟨hi3, hm3⟩ := h2.1.gasBack
      (Gas.recordRefund (Gas.eraseCost s2.gas c.gasRemaining) c.gasRefunded) c.gasRemaining rfl
      (by have := h2.2.1; omega)
    exact ⟨hi3, by rw [hm3]; have := h2.2.1; omega, h2.2.2.1, h2.2.2.2⟩
  · rw [if_neg hok]
    by_cases hrev : c.result.isRevert = true
    · rw [if_pos hrev]
      refine sat_bind (sat_conv (mid_push hmid1 (by omega) _) (fun x hx => by omega) (fun _ _ hq => hq)) ?_
      intro _ s2 h2
      refine sat_conv (modifyS_sat (H := fun x => measure x ≤ B) _ s2) (fun _ hx => hx) ?_
      rintro _ s3 rfl
      obtain ⟨hi3, hm3⟩ := h2.1.gasBack (Gas.eraseCost s2.gas c.gasRemaining) c.gasRemaining rfl
        (by have := h2.2.1; omega)
      exact ⟨hi3, by rw [hm3]; have := h2.2.1; omega, h2.2.2.1, h2.2.2.2⟩
    · rw [if_neg hrev, if_neg hnf]
      exact sat_conv (mid_push hmid1 (by omega) _) (fun x hx => by omega)
        (fun _ x hq => ⟨hq.1, by have := hq.2.1; omega, hq.2.2.1, hq.2.2.2⟩)

theorem insertOutcome_sat {s : IState} {B : Nat} (a : Action) (c : ChildResult) (hi : Inv s)
    (hB1 : measure s + a.gasLimit ≤ B) (hB2 : B ≤ U64 - 2) (hret : RetOk a (clen s.mem)) (hc : ChildOk a c) :
    Exec.Sat (insertOutcome a c s) (fun x => measure x ≤ B) (fun _ x => Mid B s x) := by
  cases a with
  | call i => exact insertCall_sat hi hB1 hB2 i.retStart i.retEnd c hret hc.gas hc.notFatal hc.outLen
  | create i => exact insertCreate_sat hi hB1 hB2 c hc.gas hc.notFatal hc.outLen

/-! ## the loop -/

/-- the oracle answers like Rust values and like a frame machine -/
structure OracleOk {η : Type} (o : Oracle η) : Prop where
  host : ∀ h op, RespOk (o.host h op).1
  child : ∀ h a, ChildOk a (o.child h a).1

/-- a finished run: a defined result, within the gas the frame had -/
def RunOk (s : IState) : RunResult → Prop
  | .done _ _ s' => measure s' ≤ measure s
  | .fault _ => False
  | .outOfFuel => False

theorem continueWith_ok {η : Type} (o : Oracle η) (ho : OracleOk o) (n : Nat) (s : IState) (d : Done) (h : η)
    (hd : StepOk s d) (hfuel : measure s < n + 1) (hs : measure s ≤ U64 - 1)
    (ih : ∀ (s' : IState) (h' : η), Inv s' → measure s' < n → RunOk s' (run o n s' h').1) :
    RunOk s (continueWith o (run o n) d h).1 := by
  cases hd with
  | next hi hm _ =>
    have := ih _ h hi (by omega)
    show RunOk s (run o n _ h).1
    revert this
    cases (run o n _ h).1 with
    | done r out s'' => intro this; show measure s'' ≤ measure s; have : measure s'' ≤ _ := this; omega
    | fault f => intro this; exact this
    | outOfFuel => intro this; exact this
  | @action a s' hi hm hr _ =>
    have hc := ho.child h a
    have hins := insertOutcome_sat (B := measure s - 1) a (o.child h a).1 hi (by omega) (by omega) hr hc
    show RunOk s (match insertOutcome a (o.child h a).1 s' with
      | .ok _ s'' => run o n s'' (o.child h a).2
      | .halt r out s'' => (RunResult.done r out s'', (o.child h a).2)
      | .fault f => (RunResult.fault f, (o.child h a).2)).1
    cases hx : insertOutcome a (o.child h a).1 s' with
    | ok u s'' =>
      rw [hx] at hins
      have hmid := sat_ok_inv hins
      have := ih s'' (o.child h a).2 hmid.1 (by have := hmid.2.1; omega)
      show RunOk s (run o n s'' (o.child h a).2).1
      revert this
      cases (run o n s'' (o.child h a).2).1 with
      | done r out s3 =>
        intro this; show measure s3 ≤ measure s
        have h1 : measure s3 ≤ measure s'' := this
        have := hmid.2.1; omega
      | fault f => intro this; exact this
      | outOfFuel => intro this; exact this
    | halt r out s'' =>
      rw [hx] at hins
      have := sat_halt_inv hins
      show measure s'' ≤ measure s
      omega
    | fault f => rw [hx] at hins; exact (sat_fault_inv hins).elim
  | halt hm => exact hm

/-- `no_panic_legacy`, `run_terminates`, "within the gas limit": with `measure + 1` instructions of fuel the loop
ends with a defined result, never a fault, never out of fuel, and the final state's gas (plus paid-for memory) is
at most what the frame started with -/
theorem run_ok {η : Type} (o : Oracle η) (ho : OracleOk o) :
    ∀ (fuel : Nat) (s : IState) (h : η), Inv s → measure s < fuel → RunOk s (run o fuel s h).1 := by
  intro fuel
  induction fuel with
  | zero => intro s h _ hf; omega
  | succ n ih =>
    intro s h hi hf
    have hg := step_good hi
    show RunOk s (match step s with
      | .pure d => continueWith o (run o n) d h
      | .host op k => continueWith o (run o n) (k (o.host h op).1) (o.host h op).2).1
    generalize step s = st at hg
    cases hg with
    | pure hd => exact continueWith_ok o ho n s _ h hd hf hi.meas ih
    | host hk =>
      exact continueWith_ok o ho n s _ _ (hk _ (ho.host h _)) hf hi.meas ih

end Revm.Proofs.Interp
