import Revm.Proofs.InterpLoop
/-! Proofs for C25, part 8: legacy code — `execInstr` and `step` as a whole, the invariant of instruction
boundaries, and the instantiation of the generic loop theorems. -/
set_option linter.unusedSimpArgs false
set_option linter.unusedVariables false
namespace Revm.Proofs.Interp
open Revm Revm.Model Revm.Model.Interp
open Revm.Proofs.Memory (WF)

theorem execInstr_good {s0 : IState} (hs : Start s0) (i : Instr) : Good s0 (execInstr i s0) := by
  have hb := hs.toBase
  have hN : ∀ s', Done1 s0 s' → Next s0 s' := fun _ h => Done1.next hs h
  have hA : ∀ a s', ActRel s0 a s' → ActOk s0 a s' := fun _ _ h => ActRel.ok hs h
  unfold execInstr
  cases hp : execPure i with
  | some m => exact .pure (toDone_next (execPure_sat hs i m hp))
  | none =>
    cases i with
    | keccak256 => exact keccak256I_good hb hN
    | balance => exact balanceI_good hb hN
    | selfbalance => exact selfbalanceI_good hb hN
    | extcodesize => exact extcodesizeI_good hb hN
    | extcodehash => exact extcodehashI_good hb hN
    | extcodecopy => exact extcodecopyI_good hb hN
    | blockhash => exact blockhashI_good hb hN
    | sload => exact sloadI_good hb hN
    | sstore => exact sstoreI_good hb hN
    | tload => exact tloadI_good hb hN
    | tstore => exact tstoreI_good hb hN
    | log n => exact logI_good hb hN n.val
    | selfdestruct => exact selfdestructI_good hb hN
    | create c2 => exact .pure (toDoneAction_good hs (createI_sat hb c2))
    | call => exact callI_good hb hA
    | callcode => exact callcodeI_good hb hA
    | delegatecall => exact delegatecallI_good hb hA
    | staticcall => exact staticcallI_good hb hA
    | eofcreate =>
      exact hostCallAction_good hA _ _ (fun _ _ => False)
        (by unfold eofcreatePre; exact eofGuard_sat hs _) (fun _ _ _ hf => hf.elim)
    | extcall =>
      exact hostCallOptAction_good hN hA _ _ (fun _ _ => False) (eofGuard_sat hs _) (fun _ _ _ hf => hf.elim)
    | extdelegatecall =>
      exact hostCallOptAction_good hN hA _ _ (fun _ _ => False) (eofGuard_sat hs _) (fun _ _ _ hf => hf.elim)
    | extstaticcall =>
      exact hostCallOptAction_good hN hA _ _ (fun _ _ => False) (eofGuard_sat hs _) (fun _ _ _ hf => hf.elim)
    | _ => simp [execPure] at hp

/-! ## the invariant at instruction boundaries -/

/-- what holds of every state `run` reaches between two instructions of legacy code -/
structure Inv (s : IState) : Prop where
  codeLen : s.code.length = s.origLen + 33
  pad : ∀ i, s.origLen ≤ i → i < s.code.length → s.code[i]? = some 0
  jt : ∀ t, Jump.isValid s.jumpTable t = true → t < s.origLen
  legacy : s.isEof = false
  notInit : s.isEofInit = false
  envOk : GasCalc.enabled s.spec GasCalc.SpecId.MERGE = true → s.env.prevrandao ≠ none
  origLe : s.origLen ≤ Memory.ISIZE_MAX
  /-- `pc_in_bounds` -/
  pc : s.pc < s.code.length
  stack : s.stack.length ≤ 1024
  memWF : WF s.mem
  memCk : s.mem.lastCheckpoint ≤ 2^62
  rdLen : s.returnData.length ≤ Memory.ISIZE_MAX
  inLen : s.input.length ≤ Memory.ISIZE_MAX
  meas : measure s ≤ U64 - 1
  safe : measure s < U64 - 1 ∨ s.stack = []

theorem Inv.base {s : IState} (h : Inv s) : Base s :=
  { envOk := h.envOk, stack := h.stack, memWF := h.memWF, memCk := h.memCk, rdLen := h.rdLen, inLen := h.inLen,
    meas := h.meas, safe := h.safe }

/-- `Inv` only looks at the static part of the state beyond `Base` -/
theorem Inv.transfer {s x : IState} (h : Inv s) (hs : SameStatic s x) (hb : Base x) : Inv x :=
  { codeLen := by rw [hs.code, hs.origLen]; exact h.codeLen
    pad := by rw [hs.code, hs.origLen]; exact h.pad
    jt := by rw [hs.jt, hs.origLen]; exact h.jt
    legacy := by rw [hs.isEof]; exact h.legacy
    notInit := by rw [hs.isEofInit]; exact h.notInit
    envOk := hb.envOk
    origLe := by rw [hs.origLen]; exact h.origLe
    pc := by rw [hs.pc, hs.code]; exact h.pc
    stack := hb.stack, memWF := hb.memWF, memCk := hb.memCk, rdLen := hb.rdLen, inLen := hb.inLen
    meas := hb.meas, safe := hb.safe }

/-- the legacy invariant together with "the code is still `c`" (what `pc_in_bounds` is stated about) -/
def InvC (c : List Nat) (n : Nat) (s : IState) : Prop := Inv s ∧ s.code = c ∧ s.origLen = n

theorem invC_loop (c : List Nat) (n : Nat) : LoopInv (InvC c n) :=
  ⟨fun _ h => h.1.base,
   fun s x h hs hb => ⟨h.1.transfer hs hb, hs.code.trans h.2.1, hs.origLen.trans h.2.2⟩⟩

/-! ## one instruction -/

theorem decode_zero : decode 0 = .stop := rfl

theorem step_eq {s : IState} (h : s.pc < s.code.length) :
    step s = execInstr (decode s.code[s.pc]) { s with pc := s.pc + 1 } := by
  unfold step
  rw [List.getElem?_eq_getElem h]

theorem Inv.start {s : IState} (hi : Inv s) (hin : s.pc < s.origLen) : Start { s with pc := s.pc + 1 } :=
  { codeLen := hi.codeLen, jt := hi.jt, legacy := hi.legacy, notInit := hi.notInit, envOk := hi.envOk,
    origLe := hi.origLe, pc := hin, stack := hi.stack, memWF := hi.memWF, memCk := hi.memCk,
    rdLen := hi.rdLen, inLen := hi.inLen, meas := hi.meas, safe := hi.safe }

theorem stepOk_of_doneGood {c : List Nat} {n : Nat} {s : IState} (hi : InvC c n s) {d : Done}
    (hd : DoneGood { s with pc := s.pc + 1 } d) : StepOkP (InvC c n) s d := by
  have hmeq : measure { s with pc := s.pc + 1 } = measure s := rfl
  have tr : ∀ {k : Nat} {st ne : Bool} {L : Nat} {s' : IState},
      Core k st ne L { s with pc := s.pc + 1 } s' → s'.pc < s'.code.length → InvC c n s' := by
    intro k st ne L s' hc hpc
    have hb : Base s' := (hi.1.base : Base s).ofRes (s := s) (s' := s')
      { hc.toRes with }
    refine ⟨?_, hc.code.trans hi.2.1, hc.origLen.trans hi.2.2⟩
    exact
      { codeLen := by rw [hc.code, hc.origLen]; exact hi.1.codeLen
        pad := by rw [hc.code, hc.origLen]; exact hi.1.pad
        jt := by rw [hc.jt, hc.origLen]; exact hi.1.jt
        legacy := by rw [hc.isEof]; exact hi.1.legacy
        notInit := by rw [hc.isEofInit]; exact hi.1.notInit
        envOk := hb.envOk
        origLe := by rw [hc.origLen]; exact hi.1.origLe
        pc := hpc
        stack := hb.stack, memWF := hb.memWF, memCk := hb.memCk, rdLen := hb.rdLen, inLen := hb.inLen
        meas := hb.meas, safe := hb.safe }
  cases hd with
  | next hn =>
    refine .next (tr hn.core hn.pcOk) ?_
    have := hn.core.meas; rw [hmeq] at this; exact this
  | action hn =>
    refine .action (tr hn.core hn.pcOk) ?_ hn.ret
    have := hn.gas; rw [hmeq] at this; exact this
  | halt hn =>
    have h2 := hn.meas
    rw [hmeq, Nat.add_zero] at h2
    exact .halt h2

/-- one instruction of legacy code: never a fault, the invariant is kept, at least 1 gas is consumed when the frame
continues (and the child's gas on top when an action goes out) -/
theorem step_good (c : List Nat) (n : Nat) : StepInv (InvC c n) := by
  intro s hi
  have hpc := hi.1.pc
  rw [step_eq hpc]
  by_cases hin : s.pc < s.origLen
  · have hs := hi.1.start hin
    have hg := execInstr_good hs (decode s.code[s.pc])
    generalize execInstr (decode s.code[s.pc]) { s with pc := s.pc + 1 } = o at hg ⊢
    cases hg with
    | pure hd => exact .pure (stepOk_of_doneGood hi hd)
    | host hk => exact .host (fun r hr => stepOk_of_doneGood hi (hk r hr))
  · have h0 := hi.1.pad s.pc (by omega) hpc
    rw [List.getElem?_eq_getElem hpc] at h0
    injection h0 with h0
    rw [h0, decode_zero]
    exact .pure (.halt (Nat.le_refl _))

theorem run_safe (c : List Nat) (n : Nat) {η : Type} (o : Oracle η) (ho : OracleOk o) :
    ∀ (fuel : Nat) (s : IState) (h : η), InvC c n s → RunSafe fuel s (run o fuel s h).1 :=
  run_safeP (invC_loop c n) (step_good c n) o ho

theorem reach_inv (c : List Nat) (n : Nat) {η : Type} (o : Oracle η) (ho : OracleOk o) {s0 : IState} {h0 : η}
    (hi0 : InvC c n s0) {s : IState} {h : η} (hr : Reach o s0 h0 s h) : InvC c n s ∧ measure s ≤ measure s0 :=
  reach_invP (invC_loop c n) (step_good c n) o ho hi0 hr

end Revm.Proofs.Interp
