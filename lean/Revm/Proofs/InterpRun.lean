import Revm.Proofs.InterpCall
/-! Proofs for C25, part 7: `execInstr` and `step` as a whole, re-entry of a child result, and the loop. -/
set_option linter.unusedSimpArgs false
set_option linter.unusedVariables false
namespace Revm.Proofs.Interp
open Revm Revm.Model Revm.Model.Interp
open Revm.Proofs.Memory (WF)

theorem execInstr_good {s0 : IState} (hs : Start s0) (i : Instr) : Good s0 (execInstr i s0) := by
  unfold execInstr
  cases hp : execPure i with
  | some m => exact .pure (toDone_next (execPure_sat hs i m hp))
  | none =>
    cases i with
    | keccak256 => exact keccak256I_good hs
    | balance => exact balanceI_good hs
    | selfbalance => exact selfbalanceI_good hs
    | extcodesize => exact extcodesizeI_good hs
    | extcodehash => exact extcodehashI_good hs
    | extcodecopy => exact extcodecopyI_good hs
    | blockhash => exact blockhashI_good hs
    | sload => exact sloadI_good hs
    | sstore => exact sstoreI_good hs
    | tload => exact tloadI_good hs
    | tstore => exact tstoreI_good hs
    | log n => exact logI_good hs n.val
    | selfdestruct => exact selfdestructI_good hs
    | create c2 => exact .pure (toDoneAction_good hs (createI_sat hs c2))
    | call => exact callI_good hs
    | callcode => exact callcodeI_good hs
    | delegatecall => exact delegatecallI_good hs
    | staticcall => exact staticcallI_good hs
    | _ => simp [execPure] at hp

/-! ## the invariant at instruction boundaries -/

/-- what holds of every state `run` reaches between two instructions -/
structure Inv (s : IState) : Prop where
  codeLen : s.code.length = s.origLen + 33
  pad : ∀ i, s.origLen ≤ i → i < s.code.length → s.code[i]? = some 0
  jt : ∀ t, Jump.isValid s.jumpTable t = true → t < s.origLen
  legacy : s.isEof = false
  notInit : s.isEofInit = false
  envOk : GasCalc.enabled s.spec GasCalc.SpecId.MERGE = true → s.env.prevrandao ≠ none
  origLe : s.origLen ≤ Memory.ISIZE_MAX
  /-- `pc_in_bounds` -/
  pc : s.pc < s.code.length
  stack : s.stack.length ≤ 1024
  memWF : WF s.mem
  memCk : s.mem.lastCheckpoint ≤ 2^62
  rdLen : s.returnData.length ≤ Memory.ISIZE_MAX
  inLen : s.input.length ≤ Memory.ISIZE_MAX
  meas : measure s ≤ U64 - 1
  safe : measure s < U64 - 1 ∨ s.stack = []

/-- `Inv` survives whatever a handler does (`Core`), as long as the instruction pointer stays in the code -/
theorem Inv.ofCore {s s1 s' : IState} {k : Nat} {st ne : Bool} {L : Nat} (hi : Inv s)
    (e1 : s1.code = s.code) (e2 : s1.origLen = s.origLen) (e3 : s1.jumpTable = s.jumpTable)
    (e4 : s1.isEof = s.isEof) (e5 : s1.isEofInit = s.isEofInit) (e6 : s1.spec = s.spec) (e7 : s1.env = s.env)
    (hc : Core k st ne L s1 s') (hpc : s'.pc < s'.code.length) : Inv s' where
  codeLen := by rw [hc.code, hc.origLen, e1, e2]; exact hi.codeLen
  pad := by rw [hc.code, hc.origLen, e1, e2]; exact hi.pad
  jt := by rw [hc.jt, hc.origLen, e3, e2]; exact hi.jt
  legacy := by rw [hc.isEof, e4]; exact hi.legacy
  notInit := by rw [hc.isEofInit, e5]; exact hi.notInit
  envOk := by rw [hc.spec, hc.env, e6, e7]; exact hi.envOk
  origLe := by rw [hc.origLen, e2]; exact hi.origLe
  pc := hpc
  stack := hc.stack
  memWF := hc.memWF
  memCk := hc.memCk
  rdLen := hc.rdLen
  inLen := hc.inLen
  meas := by have := hc.meas; have := hc.m0; omega
  safe := hc.safe

/-- the running relation of a state with itself -/
theorem Inv.rel {s : IState} (h : Inv s) (st : Bool) (hst : st = true → measure s < U64 - 1) :
    Rel 0 st false (clen s.mem) s s :=
  { code := rfl, origLen := rfl, jt := rfl, isEof := rfl, isEofInit := rfl, spec := rfl, env := rfl, input := rfl,
    ck := rfl, cks := rfl, stack := h.stack, memWF := h.memWF, memCk := h.memCk, memL := Nat.le_refl _,
    rdLen := h.rdLen, inLen := h.inLen, m0 := h.meas, meas := Nat.le_of_eq (Nat.add_zero _),
    strict := hst, safe := h.safe, nonempty := fun e => (by cases e), pc := rfl }

theorem Inv.ofRel {s s' : IState} {k : Nat} {st ne : Bool} {L : Nat} (hi : Inv s) (hr : Rel k st ne L s s') :
    Inv s' :=
  hi.ofCore (s1 := s) rfl rfl rfl rfl rfl rfl rfl hr.toCore (by rw [hr.pc, hr.code]; exact hi.pc)

/-! ## one instruction -/

/-- the outcome of one resolved instruction, relative to the state before it -/
inductive StepOk (s : IState) : Done → Prop
  | next {s' : IState} (hi : Inv s') (hm : measure s' + 1 ≤ measure s) : StepOk s (.next s')
  | action {a : Action} {s' : IState} (hi : Inv s') (hm : measure s' + a.gasLimit + 1 ≤ measure s)
      (hr : RetOk a (clen s'.mem)) : StepOk s (.action a s')
  | halt {r : IResult} {o : List Nat} {s' : IState} (hm : measure s' ≤ measure s) : StepOk s (.halt r o s')

inductive StepGood (s : IState) : Outcome → Prop
  | pure {d : Done} (h : StepOk s d) : StepGood s (.pure d)
  | host {op : HostOp} {k : HostResp → Done} (h : ∀ r, RespOk r → StepOk s (k r)) : StepGood s (.host op k)

theorem decode_zero : decode 0 = .stop := rfl

theorem stepOk_of_doneGood {s : IState} (hi : Inv s) {d : Done}
    (hd : DoneGood { s with pc := s.pc + 1 } d) : StepOk s d := by
  have hmeq : measure { s with pc := s.pc + 1 } = measure s := rfl
  cases hd with
  | next hn =>
    refine .next (hi.ofCore (s1 := { s with pc := s.pc + 1 }) rfl rfl rfl rfl rfl rfl rfl hn.core hn.pcOk) ?_
    have := hn.core.meas; rw [hmeq] at this; exact this
  | action hn =>
    refine .action (hi.ofCore (s1 := { s with pc := s.pc + 1 }) rfl rfl rfl rfl rfl rfl rfl hn.core hn.pcOk) ?_ hn.ret
    have := hn.gas; rw [hmeq] at this; exact this
  | halt hn =>
    have h2 := hn.meas
    rw [hmeq, Nat.add_zero] at h2
    exact .halt h2

theorem step_eq {s : IState} (h : s.pc < s.code.length) :
    step s = execInstr (decode s.code[s.pc]) { s with pc := s.pc + 1 } := by
  unfold step
  rw [List.getElem?_eq_getElem h]

theorem step_good {s : IState} (hi : Inv s) : StepGood s (step s) := by
  have hpc := hi.pc
  rw [step_eq hpc]
  by_cases hin : s.pc < s.origLen
  · -- an opcode of the code proper
    have hs : Start { s with pc := s.pc + 1 } :=
      { codeLen := hi.codeLen, jt := hi.jt, legacy := hi.legacy, notInit := hi.notInit, envOk := hi.envOk,
        origLe := hi.origLe, pc := hin, stack := hi.stack, memWF := hi.memWF, memCk := hi.memCk,
        rdLen := hi.rdLen, inLen := hi.inLen, meas := hi.meas, safe := hi.safe }
    have hg := execInstr_good hs (decode s.code[s.pc])
    generalize execInstr (decode s.code[s.pc]) { s with pc := s.pc + 1 } = o at hg ⊢
    cases hg with
    | pure hd => exact .pure (stepOk_of_doneGood hi hd)
    | host hk => exact .host (fun r hr => stepOk_of_doneGood hi (hk r hr))
  · -- inside the padding: the byte is 0 = STOP
    have h0 := hi.pad s.pc (by omega) hpc
    rw [List.getElem?_eq_getElem hpc] at h0
    injection h0 with h0
    rw [h0, decode_zero]
    exact .pure (.halt (Nat.le_refl _))

end Revm.Proofs.Interp
