import Revm.Proofs.BundleInvAcct
/-! `BundleAccount::update_and_create_revert` preserves the per-account bundle invariant (DESIGN A.3) for
every reachable (bundle status, transition status, was_destroyed flag), and the revert it records maps the
current (info, slots) of the address back to those at the previous merge (wipe-aware reading). Core Lean only. -/
namespace Revm.Proofs.Bundle
open Revm.Model.Bundle Revm.Spec.Bundle

set_option linter.unusedSimpArgs false
set_option linter.unusedVariables false
set_option linter.unusedSectionVars false

/-- storage of a destroyed-family bundle account: listed slots are current, unlisted are zero -/
def DRel (st : BMap Slot) (c : Nat → Nat) : Prop :=
  WF st ∧ ∀ k, match st.get k with
    | some s => s.present = c k
    | none => c k = 0

theorem DRel.get_some {st : BMap Slot} {c : Nat → Nat} (h : DRel st c) {k : Nat} {s : Slot}
    (hg : st.get k = some s) : s.present = c k := by
  have := h.2 k; rw [hg] at this; exact this

theorem DRel.get_none {st : BMap Slot} {c : Nat → Nat} (h : DRel st c) {k : Nat}
    (hg : st.get k = none) : c k = 0 := by
  have := h.2 k; rw [hg] at this; exact this

theorem storageInv_nd (acc : BAcct) (p c : Nat → Nat) (h : acc.status.wasDestroyed = false) :
    StorageInv acc p c ↔ SlotsRel acc.storage p c := by
  unfold StorageInv SlotsRel
  constructor
  · intro ⟨hw, h1, _⟩; exact ⟨hw, h1 h⟩
  · intro ⟨hw, h1⟩; exact ⟨hw, ⟨fun _ => h1, fun h2 => (by rw [h] at h2; cases h2)⟩⟩

theorem storageInv_d (acc : BAcct) (p c : Nat → Nat) (h : acc.status.wasDestroyed = true) :
    StorageInv acc p c ↔ DRel acc.storage c := by
  unfold StorageInv DRel
  constructor
  · intro ⟨hw, _, h1⟩; exact ⟨hw, h1 h⟩
  · intro ⟨hw, h1⟩; exact ⟨hw, ⟨fun h2 => (by rw [h] at h2; cases h2), fun _ => h1⟩⟩

/-- bundle account vs. (state when the bundle was started → state at the last merge) -/
structure BInvAcc (acc : BAcct) (ms : Status) (Pi : Option Info) (Ps : Nat → Nat) (Mi : Option Info)
    (Ms : Nat → Nat) : Prop where
  status : acc.status = ms
  info : acc.info.map wc = Mi
  orig : acc.origInfo.map wc = Pi
  stor : StorageInv acc Ps Ms
  loadedNil : st5 acc.status = false → acc.storage = []

/-- value a revert gives to slot `k` (`dbr`: `Destroyed` in a wiping revert reads as the pre-bundle value) -/
def revSlotV (dbr : Bool) (st : BMap RevSlot) (wipe : Bool) (Ps Rs : Nat → Nat) (k : Nat) : Nat :=
  match st.get k with
  | some (.some v) => v
  | some .destroyed => if dbr && wipe then Ps k else 0
  | none => if wipe then Ps k else Rs k

def revInfoOK (ir : InfoRevert) (Mi Ri : Option Info) : Prop :=
  match ir with
  | .doNothing => Mi = Ri
  | .deleteIt => Mi = none
  | .revertTo i => Mi = some (wc i)

/-- the recorded revert maps the current (info, slots) back to those at the previous merge -/
def RevSem (rev : Option ARevert) (ms : Status) (Ps : Nat → Nat) (Mi : Option Info) (Ms : Nat → Nat)
    (Ri : Option Info) (Rs : Nat → Nat) : Prop :=
  match rev with
  | none => Mi = Ri ∧ ∀ k, Ms k = Rs k
  | some r => r.prevStatus = ms ∧ WF r.storage ∧ revInfoOK r.account Mi Ri ∧
      (∀ k, revSlotV true r.storage r.wipe Ps Rs k = Ms k) ∧
      (r.wipe = true → ∀ k, r.storage.get k = none → Rs k = 0)

theorem RevSem.filter (r : ARevert) (ms : Status) (Ps : Nat → Nat) (Mi : Option Info) (Ms : Nat → Nat)
    (Ri : Option Info) (Rs : Nat → Nat) (h : RevSem (some r) ms Ps Mi Ms Ri Rs) :
    RevSem (filterEmpty (some r)) ms Ps Mi Ms Ri Rs := by
  unfold filterEmpty
  by_cases he : r.isEmpty = true
  · simp only [he, if_true]
    obtain ⟨_, _, h3, h4⟩ := h
    simp only [ARevert.isEmpty, Bool.and_eq_true, List.isEmpty_iff, Bool.not_eq_true'] at he
    obtain ⟨⟨h5, h6⟩, h7⟩ := he
    refine ⟨?_, fun k => ?_⟩
    · cases hra : r.account with
      | doNothing => rw [hra] at h3; exact h3
      | deleteIt => rw [hra] at h5; cases h5
      | revertTo i => rw [hra] at h5; cases h5
    · have := h4.1 k
      rw [h6, h7] at this
      simpa [revSlotV, BMap.get] using this.symm
  · simp only [he]; exact h

/-! ## slot values given by the recorded storage reverts -/

theorem rs_prev (dbr : Bool) (us : BMap Slot) (Ps Ms Rs : Nat → Nat) (h : SlotsRel us Ms Rs) (k : Nat) :
    revSlotV dbr (prevStorageFromUpdate us) false Ps Rs k = Ms k := by
  unfold revSlotV
  rw [prevStorage_get us h.1 k]
  cases hg : us.get k with
  | none => simp only [Option.bind, Bool.false_eq_true, if_false]; exact h.get_none hg
  | some s =>
    have hs := h.get_some hg
    by_cases hc : s.isChanged = true
    · simp only [Option.bind, hc, if_true]; exact hs.2
    · simp only [Option.bind, hc, Bool.false_eq_true, if_false]
      have : s.orig = s.present := by simpa [Slot.isChanged] using hc
      rw [← hs.1, ← this]; exact hs.2

theorem rs_present_wipe (dbr : Bool) (accS : BMap Slot) (Ps Ms Rs : Nat → Nat) (h : SlotsRel accS Ps Ms) (k : Nat) :
    revSlotV dbr (presentAsRevert accS) true Ps Rs k = Ms k := by
  unfold revSlotV
  rw [presentAsRevert_get]
  cases hg : accS.get k with
  | none => simp only [Option.map, if_true]; exact (h.get_none hg).symm
  | some s => simp only [Option.map]; exact (h.get_some hg).1

theorem rs_md_wipe (accS us : BMap Slot) (Ps Ms Rs : Nat → Nat) (h : SlotsRel accS Ps Ms) (hw : WF us) (k : Nat) :
    revSlotV true (markDestroyed us (presentAsRevert accS)) true Ps Rs k = Ms k := by
  unfold revSlotV
  rw [markDestroyed_get _ _ hw, presentAsRevert_get]
  cases hg : accS.get k with
  | none =>
    simp only [Option.map]
    cases (us.get k).isSome <;> simp [(h.get_none hg).symm]
  | some s => simp only [Option.map]; exact (h.get_some hg).1

theorem md_none_us (us : BMap Slot) (base : BMap RevSlot) (hw : WF us) (k : Nat)
    (h : (markDestroyed us base).get k = none) : us.get k = none := by
  rw [markDestroyed_get _ _ hw] at h
  cases hb : base.get k with
  | some v => rw [hb] at h; cases h
  | none =>
    rw [hb] at h
    cases hu : us.get k with
    | none => rfl
    | some s => rw [hu] at h; simp at h

theorem rs_md_nowipe (dbr : Bool) (accS us : BMap Slot) (Ps Ms Rs : Nat → Nat) (hd : DRel accS Ms)
    (hu : SlotsRel us (fun _ => 0) Rs) (k : Nat) :
    revSlotV dbr (markDestroyed us (presentAsRevert accS)) false Ps Rs k = Ms k := by
  unfold revSlotV
  rw [markDestroyed_get _ _ hu.1, presentAsRevert_get]
  cases hg : accS.get k with
  | none =>
    simp only [Option.map]
    cases hu' : us.get k with
    | none => simp [hd.get_none hg, hu.get_none hu']
    | some s => simp [hd.get_none hg]
  | some s => simp only [Option.map]; exact hd.get_some hg

theorem rs_present_nowipe (dbr : Bool) (accS : BMap Slot) (Ps Ms Rs : Nat → Nat) (hd : DRel accS Ms)
    (hz : ∀ k, Rs k = 0) (k : Nat) :
    revSlotV dbr (presentAsRevert accS) false Ps Rs k = Ms k := by
  unfold revSlotV
  rw [presentAsRevert_get]
  cases hg : accS.get k with
  | none => simp [hd.get_none hg, hz k]
  | some s => simp only [Option.map]; exact hd.get_some hg

/-! ## storage of the updated bundle account -/

theorem st_extend_nd (accS us : BMap Slot) (Ps Ms Rs : Nat → Nat) (ha : SlotsRel accS Ps Ms) (hu : SlotsRel us Ms Rs) :
    SlotsRel (extendStorage accS us) Ps Rs := by
  refine ⟨extendStorage_WF _ _ ha.1, fun k => ?_⟩
  rw [extendStorage_get _ _ hu.1]
  cases hg : us.get k with
  | none =>
    simp only [Option.elim]
    cases hs : accS.get k with
    | none => simp only; rw [hu.get_none hg]; exact ha.get_none hs
    | some s => simp only; rw [hu.get_none hg]; exact ha.get_some hs
  | some x =>
    simp only [Option.elim, esF]
    have hx := hu.get_some hg
    cases hs : accS.get k with
    | none => simp only; exact ⟨hx.1, by rw [hx.2]; exact ha.get_none hs⟩
    | some s => simp only; exact ⟨hx.1, (ha.get_some hs).2⟩

theorem st_extend_d (st0 us : BMap Slot) (X Rs : Nat → Nat) (ha : DRel st0 X) (hu : SlotsRel us X Rs) :
    DRel (extendStorage st0 us) Rs := by
  refine ⟨extendStorage_WF _ _ ha.1, fun k => ?_⟩
  rw [extendStorage_get _ _ hu.1]
  cases hg : us.get k with
  | none =>
    simp only [Option.elim]
    cases hs : st0.get k with
    | none => simp only; rw [hu.get_none hg]; exact ha.get_none hs
    | some s => simp only; rw [hu.get_none hg]; exact ha.get_some hs
  | some x =>
    simp only [Option.elim, esF]
    have hx := hu.get_some hg
    cases hs : st0.get k with
    | none => simp only; exact hx.1
    | some s => simp only; exact hx.1

theorem DRel_of_rel0 (us : BMap Slot) (Rs : Nat → Nat) (hu : SlotsRel us (fun _ => 0) Rs) : DRel us Rs := by
  refine ⟨hu.1, fun k => ?_⟩
  cases hg : us.get k with
  | none => exact hu.get_none hg
  | some s => exact (hu.get_some hg).1

theorem DRel_nil (Rs : Nat → Nat) (hz : ∀ k, Rs k = 0) : DRel [] Rs := ⟨WF_nil, fun k => hz k⟩

theorem DRel_zero_of (st : BMap Slot) (Ms : Nat → Nat) (h : DRel st Ms) (hz : ∀ k, Ms k = 0) : DRel st (fun _ => 0) := by
  refine ⟨h.1, fun k => ?_⟩
  cases hg : st.get k with
  | none => rfl
  | some s => simp only; rw [h.get_some hg]; exact hz k

theorem SlotsRel_nil_eq (Ps Ms : Nat → Nat) (h : SlotsRel [] Ps Ms) : Ms = Ps :=
  funext fun k => h.get_none (st := []) rfl

/-! ## `update_and_create_revert` computed on each reachable path -/

def infoRevertOf (acc : BAcct) (t : Transition) : InfoRevert :=
  if !(optSame acc.info t.info) then .revertTo (acc.info.getD Info.dflt) else .doNothing

theorem uacr_changed (acc : BAcct) (t : Transition) (hts : t.status = .changed)
    (hbs : acc.status = .changed ∨ acc.status = .loaded) :
    updateAndCreateRevert acc t = some (⟨t.info, acc.origInfo, extendStorage acc.storage t.storage, .changed⟩,
      filterEmpty (some ⟨infoRevertOf acc t, prevStorageFromUpdate t.storage, acc.status, false⟩)) := by
  rcases hbs with h | h <;> simp [updateAndCreateRevert, hts, h, infoRevertOf]

theorem uacr_imc (acc : BAcct) (t : Transition) (hts : t.status = .inMemoryChange)
    (hbs : acc.status = .loaded ∨ acc.status = .inMemoryChange) :
    updateAndCreateRevert acc t = some (⟨t.info, acc.origInfo, extendStorage acc.storage t.storage, .inMemoryChange⟩,
      filterEmpty (some ⟨infoRevertOf acc t, prevStorageFromUpdate t.storage, acc.status, false⟩)) := by
  rcases hbs with h | h <;> simp [updateAndCreateRevert, hts, h, infoRevertOf]

theorem uacr_imc_empty (acc : BAcct) (t : Transition) (hts : t.status = .inMemoryChange)
    (hbs : acc.status = .loadedEmptyEIP161) :
    updateAndCreateRevert acc t = some (⟨t.info, acc.origInfo, t.storage, .inMemoryChange⟩,
      filterEmpty (some ⟨infoRevertOf acc t, prevStorageFromUpdate t.storage, acc.status, false⟩)) := by
  simp [updateAndCreateRevert, hts, hbs, infoRevertOf]

theorem uacr_imc_lne (acc : BAcct) (t : Transition) (hts : t.status = .inMemoryChange)
    (hbs : acc.status = .loadedNotExisting) :
    updateAndCreateRevert acc t = some (⟨t.info, acc.origInfo, t.storage, .inMemoryChange⟩,
      filterEmpty (some ⟨.deleteIt, prevStorageFromUpdate t.storage, acc.status, false⟩)) := by
  simp [updateAndCreateRevert, hts, hbs, infoRevertOf]

theorem uacr_destroyed (acc : BAcct) (t : Transition) (hts : t.status = .destroyed)
    (hbs : acc.status = .inMemoryChange ∨ acc.status = .changed ∨ acc.status = .loadedEmptyEIP161 ∨ acc.status = .loaded) :
    updateAndCreateRevert acc t = some (⟨none, acc.origInfo, [], .destroyed⟩,
      filterEmpty (some ⟨infoRevertOf acc t, presentAsRevert acc.storage, acc.status, true⟩)) := by
  rcases hbs with h | h | h | h <;> simp [updateAndCreateRevert, hts, h, infoRevertOf, newSelfdestructed]

theorem uacr_destroyed_lne (acc : BAcct) (t : Transition) (hts : t.status = .destroyed)
    (hbs : acc.status = .loadedNotExisting) :
    updateAndCreateRevert acc t = some (⟨acc.info, acc.origInfo, [], acc.status⟩, none) := by
  simp [updateAndCreateRevert, hts, hbs]

theorem uacr_dc_from (acc : BAcct) (t : Transition) (hts : t.status = .destroyedChanged)
    (hbs : acc.status = .inMemoryChange ∨ acc.status = .changed ∨ acc.status = .loadedEmptyEIP161 ∨ acc.status = .loaded) :
    updateAndCreateRevert acc t = some (⟨t.info, acc.origInfo, t.storage, .destroyedChanged⟩,
      filterEmpty (some ⟨infoRevertOf acc t, markDestroyed t.storage (presentAsRevert acc.storage), acc.status, true⟩)) := by
  rcases hbs with h | h | h | h <;>
    simp [updateAndCreateRevert, hts, h, infoRevertOf, newSelfdestructedFromBundle, newSelfdestructedAgain]

theorem uacr_dc_h (acc : BAcct) (t : Transition) (hts : t.status = .destroyedChanged)
    (hbs : acc.status = .destroyed ∨ acc.status = .loadedNotExisting) :
    updateAndCreateRevert acc t = some (⟨t.info, acc.origInfo, extendStorage acc.storage t.storage, .destroyedChanged⟩,
      filterEmpty (some ⟨.deleteIt, prevStorageFromUpdate t.storage, acc.status, false⟩)) := by
  rcases hbs with h | h <;> simp [updateAndCreateRevert, hts, h, newSelfdestructedFromBundle]

theorem uacr_dc_dc (acc : BAcct) (t : Transition) (hts : t.status = .destroyedChanged)
    (hbs : acc.status = .destroyedChanged) :
    updateAndCreateRevert acc t = some (⟨t.info, acc.origInfo,
        extendStorage (if t.wasDestroyed then [] else acc.storage) t.storage, .destroyedChanged⟩,
      filterEmpty (some ⟨infoRevertOf acc t,
        if t.wasDestroyed then markDestroyed t.storage (presentAsRevert acc.storage) else prevStorageFromUpdate t.storage,
        .destroyedChanged, false⟩)) := by
  cases hwd : t.wasDestroyed <;> simp [updateAndCreateRevert, hts, hbs, infoRevertOf, newSelfdestructedFromBundle, hwd]

theorem uacr_dc_da (acc : BAcct) (t : Transition) (hts : t.status = .destroyedChanged)
    (hbs : acc.status = .destroyedAgain) :
    updateAndCreateRevert acc t = some (⟨t.info, acc.origInfo, extendStorage acc.storage t.storage, .destroyedChanged⟩,
      filterEmpty (some ⟨.deleteIt, markDestroyed t.storage (presentAsRevert []), .destroyedAgain, false⟩)) := by
  simp [updateAndCreateRevert, hts, hbs, newSelfdestructedFromBundle, newSelfdestructedAgain]

theorem uacr_da_from (acc : BAcct) (t : Transition) (hts : t.status = .destroyedAgain)
    (hbs : acc.status = .inMemoryChange ∨ acc.status = .changed ∨ acc.status = .loadedEmptyEIP161 ∨ acc.status = .loaded) :
    updateAndCreateRevert acc t = some (⟨none, acc.origInfo, [], .destroyedAgain⟩,
      filterEmpty (some ⟨infoRevertOf acc t, presentAsRevert acc.storage, acc.status, true⟩)) := by
  rcases hbs with h | h | h | h <;>
    simp [updateAndCreateRevert, hts, h, infoRevertOf, newSelfdestructedFromBundle, newSelfdestructedAgain, markDestroyed]

theorem uacr_da_none (acc : BAcct) (t : Transition) (hts : t.status = .destroyedAgain)
    (hbs : acc.status = .destroyed ∨ acc.status = .destroyedAgain ∨ acc.status = .loadedNotExisting) :
    updateAndCreateRevert acc t = some (⟨none, acc.origInfo, [], .destroyedAgain⟩, none) := by
  rcases hbs with h | h | h <;> simp [updateAndCreateRevert, hts, h, newSelfdestructedFromBundle, filterEmpty]

theorem uacr_da_dc (acc : BAcct) (t : Transition) (hts : t.status = .destroyedAgain)
    (hbs : acc.status = .destroyedChanged) :
    updateAndCreateRevert acc t = some (⟨none, acc.origInfo, [], .destroyedAgain⟩,
      filterEmpty (some ⟨.revertTo (acc.info.getD Info.dflt), presentAsRevert acc.storage, .destroyedChanged, false⟩)) := by
  simp [updateAndCreateRevert, hts, hbs, newSelfdestructedFromBundle, newSelfdestructedAgain, markDestroyed]

/-! ## which (previous status, flag) a transition of each status can have -/

theorem tab_changed (s0 : Status) (nc wd : Bool) (h : trOK s0 .changed nc wd = true) :
    (s0 = .changed ∨ s0 = .loaded) ∧ wd = false := by
  cases s0 <;> cases nc <;> cases wd <;> simp_all [trOK, inv, reach, st5, Status.wasDestroyed]

theorem tab_imc (s0 : Status) (nc wd : Bool) (h : trOK s0 .inMemoryChange nc wd = true) :
    ((s0 = .loaded ∨ s0 = .inMemoryChange) ∨ s0 = .loadedEmptyEIP161 ∨ s0 = .loadedNotExisting) ∧ wd = false := by
  cases s0 <;> cases nc <;> cases wd <;> simp_all [trOK, inv, reach, st5, Status.wasDestroyed]

theorem tab_destroyed (s0 : Status) (nc wd : Bool) (h : trOK s0 .destroyed nc wd = true) :
    ((s0 = .inMemoryChange ∨ s0 = .changed ∨ s0 = .loadedEmptyEIP161 ∨ s0 = .loaded) ∨ s0 = .loadedNotExisting)
      ∧ wd = true := by
  cases s0 <;> cases nc <;> cases wd <;> simp_all [trOK, inv, reach, st5, Status.wasDestroyed]

theorem tab_dc (s0 : Status) (nc wd : Bool) (h : trOK s0 .destroyedChanged nc wd = true) :
    ((s0 = .inMemoryChange ∨ s0 = .changed ∨ s0 = .loadedEmptyEIP161 ∨ s0 = .loaded) ∧ wd = true) ∨
    (s0 = .destroyed ∨ s0 = .loadedNotExisting) ∨ s0 = .destroyedChanged ∨ s0 = .destroyedAgain := by
  cases s0 <;> cases nc <;> cases wd <;> simp_all [trOK, inv, reach, st5, Status.wasDestroyed]

theorem tab_da (s0 : Status) (nc wd : Bool) (h : trOK s0 .destroyedAgain nc wd = true) :
    ((s0 = .inMemoryChange ∨ s0 = .changed ∨ s0 = .loadedEmptyEIP161 ∨ s0 = .loaded) ∧ wd = true) ∨
    (s0 = .destroyed ∨ s0 = .destroyedAgain ∨ s0 = .loadedNotExisting) ∨ s0 = .destroyedChanged := by
  cases s0 <;> cases nc <;> cases wd <;> simp_all [trOK, inv, reach, st5, Status.wasDestroyed]

theorem nd_of4 (s : Status) (h : s = .inMemoryChange ∨ s = .changed ∨ s = .loadedEmptyEIP161 ∨ s = .loaded) :
    s.wasDestroyed = false ∧ hasInfo s = true := by
  rcases h with h | h | h | h <;> rw [h] <;> exact ⟨rfl, rfl⟩

theorem infoRevert_ok (acc : BAcct) (t : Transition) (Mi Ri : Option Info) (hMi : acc.info.map wc = Mi)
    (hRi : t.info.map wc = Ri) (hsome : acc.info.isSome = true) : revInfoOK (infoRevertOf acc t) Mi Ri := by
  unfold infoRevertOf
  by_cases ho : optSame acc.info t.info = true
  · simp only [ho, Bool.not_true, Bool.false_eq_true, if_false, revInfoOK]
    rw [← hMi, ← hRi]; exact optSame_wc _ _ ho
  · simp only [ho, Bool.not_false, if_true, revInfoOK]
    cases hi : acc.info with
    | none => rw [hi] at hsome; cases hsome
    | some i => rw [← hMi, hi]; rfl

theorem binv_mk (acc : BAcct) (i' : Option Info) (X : BMap Slot) (s' cs : Status) (Pi Ri : Option Info)
    (Ps Rs : Nat → Nat) (hs : s' = cs) (hst : st5 s' = true) (hi : i'.map wc = Ri)
    (ho : acc.origInfo.map wc = Pi) (hstor : StorageInv ⟨i', acc.origInfo, X, s'⟩ Ps Rs) :
    BInvAcc ⟨i', acc.origInfo, X, s'⟩ cs Pi Ps Ri Rs :=
  ⟨hs, hi, ho, hstor, fun h => by rw [show (BAcct.mk i' acc.origInfo X s').status = s' from rfl, hst] at h; cases h⟩

section merge
variable (acc : BAcct) (t : Transition) (c : CacheAcct) (Pi : Option Info) (Ps : Nat → Nat) (Mi : Option Info)
  (Ms : Nat → Nat) (Ri : Option Info) (Rs : Nat → Nat)

/-- conclusion of the per-account merge lemma -/
def MergeGoal : Prop :=
  ∃ acc' rev, updateAndCreateRevert acc t = some (acc', rev) ∧ RevSem rev t.prevStatus Ps Mi Ms Ri Rs ∧
    (st5 acc.status = true → BInvAcc acc' c.status Pi Ps Ri Rs)

variable (hb : BInvAcc acc t.prevStatus Pi Ps Mi Ms) (hm : Facts t.prevStatus Mi Ms)
  (ht : TInv t c Mi Ms Rs) (hc : CInv c Ri Rs)
include hb hm ht hc

theorem merge_hti : t.info.map wc = Ri := by rw [ht.info]; exact hc.info

theorem merge_accsome : acc.info.isSome = hasInfo acc.status := by
  rw [← isSome_wc, hb.info, hb.status]; exact hm.some_iff

theorem merge_changed (hts : t.status = .changed) : MergeGoal acc t c Pi Ps Mi Ms Ri Rs := by
  have hok := ht.ok; rw [hts, ← hb.status] at hok
  obtain ⟨hbs, hwd⟩ := tab_changed _ _ _ hok
  have hnd : acc.status.wasDestroyed = false := by rcases hbs with h | h <;> rw [h] <;> rfl
  have hhi : hasInfo acc.status = true := by rcases hbs with h | h <;> rw [h] <;> rfl
  have ha := (storageInv_nd acc Ps Ms hnd).mp hb.stor
  have hu : SlotsRel t.storage Ms Rs := by have := ht.stor; simpa [hwd] using this
  refine ⟨_, _, uacr_changed acc t hts hbs, RevSem.filter _ _ _ _ _ _ _ ⟨hb.status, prevStorage_WF _ hu.1, ?_, ?_⟩, fun _ => ?_⟩
  · exact infoRevert_ok acc t Mi Ri hb.info (merge_hti acc t c Pi Ps Mi Ms Ri Rs hb hm ht hc)
      (by rw [merge_accsome acc t c Pi Ps Mi Ms Ri Rs hb hm ht hc, hhi])
  · exact ⟨rs_prev true _ Ps Ms Rs hu, fun h => absurd h (by simp)⟩
  · exact binv_mk acc _ _ _ _ Pi Ri Ps Rs (by rw [← ht.status, hts]) rfl
      (merge_hti acc t c Pi Ps Mi Ms Ri Rs hb hm ht hc) hb.orig
      ((storageInv_nd _ Ps Rs rfl).mpr (st_extend_nd _ _ Ps Ms Rs ha hu))

theorem merge_imc (hts : t.status = .inMemoryChange) : MergeGoal acc t c Pi Ps Mi Ms Ri Rs := by
  have hti := merge_hti acc t c Pi Ps Mi Ms Ri Rs hb hm ht hc
  have hsome := merge_accsome acc t c Pi Ps Mi Ms Ri Rs hb hm ht hc
  have hcs : Status.inMemoryChange = c.status := by rw [← ht.status, hts]
  have hok := ht.ok; rw [hts, ← hb.status] at hok
  obtain ⟨hbs, hwd⟩ := tab_imc _ _ _ hok
  have hu : SlotsRel t.storage Ms Rs := by have := ht.stor; simpa [hwd] using this
  rcases hbs with hbs | hbs | hbs
  · have hnd : acc.status.wasDestroyed = false := by rcases hbs with h | h <;> rw [h] <;> rfl
    have hhi : hasInfo acc.status = true := by rcases hbs with h | h <;> rw [h] <;> rfl
    have ha := (storageInv_nd acc Ps Ms hnd).mp hb.stor
    refine ⟨_, _, uacr_imc acc t hts hbs, RevSem.filter _ _ _ _ _ _ _ ⟨hb.status, prevStorage_WF _ hu.1, ?_, ?_⟩, fun _ => ?_⟩
    · exact infoRevert_ok acc t Mi Ri hb.info hti (by rw [hsome, hhi])
    · exact ⟨rs_prev true _ Ps Ms Rs hu, fun h => absurd h (by simp)⟩
    · exact binv_mk acc _ _ _ _ Pi Ri Ps Rs hcs rfl hti hb.orig
        ((storageInv_nd _ Ps Rs rfl).mpr (st_extend_nd _ _ Ps Ms Rs ha hu))
  · have hnd : acc.status.wasDestroyed = false := by rw [hbs]; rfl
    have ha := (storageInv_nd acc Ps Ms hnd).mp hb.stor
    have hnil := hb.loadedNil (by rw [hbs]; rfl)
    rw [hnil] at ha
    have hMP := SlotsRel_nil_eq Ps Ms ha
    refine ⟨_, _, uacr_imc_empty acc t hts hbs, RevSem.filter _ _ _ _ _ _ _ ⟨hb.status, prevStorage_WF _ hu.1, ?_, ?_⟩, fun _ => ?_⟩
    · exact infoRevert_ok acc t Mi Ri hb.info hti (by rw [hsome, hbs]; rfl)
    · exact ⟨rs_prev true _ Ps Ms Rs hu, fun h => absurd h (by simp)⟩
    · exact binv_mk acc _ _ _ _ Pi Ri Ps Rs hcs rfl hti hb.orig
        ((storageInv_nd _ Ps Rs rfl).mpr (by rw [← hMP]; exact hu))
  · have hnd : acc.status.wasDestroyed = false := by rw [hbs]; rfl
    have ha := (storageInv_nd acc Ps Ms hnd).mp hb.stor
    have hnil := hb.loadedNil (by rw [hbs]; rfl)
    rw [hnil] at ha
    have hMP := SlotsRel_nil_eq Ps Ms ha
    have hMn : Mi = none := by
      have := hm.some_iff; rw [← hb.status, hbs] at this
      cases hMi : Mi with
      | none => rfl
      | some i => rw [hMi] at this; cases this
    refine ⟨_, _, uacr_imc_lne acc t hts hbs, RevSem.filter _ _ _ _ _ _ _ ⟨hb.status, prevStorage_WF _ hu.1, hMn, ?_⟩, fun _ => ?_⟩
    · exact ⟨rs_prev true _ Ps Ms Rs hu, fun h => absurd h (by simp)⟩
    · exact binv_mk acc _ _ _ _ Pi Ri Ps Rs hcs rfl hti hb.orig
        ((storageInv_nd _ Ps Rs rfl).mpr (by rw [← hMP]; exact hu))

/-- current state of a destroyed / destroyed-again account -/
theorem merge_R_zero (hs : t.status = .destroyed ∨ t.status = .destroyedAgain) : Ri = none ∧ ∀ k, Rs k = 0 := by
  have hci : c.info = none := by
    have := hc.facts.some_iff
    rw [← ht.status] at this
    cases hi : c.info with
    | none => rfl
    | some i => rw [hi] at this; rcases hs with h | h <;> rw [h] at this <;> cases this
  exact ⟨by rw [← hc.info, hci]; rfl, hc.facts.none_zero hci⟩

/-- state at the last merge when the bundle status has no info -/
theorem merge_M_zero (hs : hasInfo acc.status = false) : Mi = none ∧ ∀ k, Ms k = 0 := by
  have hMn : Mi = none := by
    have := hm.some_iff; rw [← hb.status, hs] at this
    cases hMi : Mi with
    | none => rfl
    | some i => rw [hMi] at this; cases this
  exact ⟨hMn, hm.none_zero hMn⟩

theorem merge_destroyed (hts : t.status = .destroyed) : MergeGoal acc t c Pi Ps Mi Ms Ri Rs := by
  have hti := merge_hti acc t c Pi Ps Mi Ms Ri Rs hb hm ht hc
  have hsome := merge_accsome acc t c Pi Ps Mi Ms Ri Rs hb hm ht hc
  have hcs : Status.destroyed = c.status := by rw [← ht.status, hts]
  obtain ⟨hRi, hRs⟩ := merge_R_zero acc t c Pi Ps Mi Ms Ri Rs hb hm ht hc (Or.inl hts)
  have hok := ht.ok; rw [hts, ← hb.status] at hok
  obtain ⟨hbs, hwd⟩ := tab_destroyed _ _ _ hok
  rcases hbs with hbs | hbs
  · obtain ⟨hnd, hhi⟩ := nd_of4 _ hbs
    have ha := (storageInv_nd acc Ps Ms hnd).mp hb.stor
    refine ⟨_, _, uacr_destroyed acc t hts hbs, RevSem.filter _ _ _ _ _ _ _ ⟨hb.status, presentAsRevert_WF _ ha.1, ?_, ?_⟩, fun _ => ?_⟩
    · exact infoRevert_ok acc t Mi Ri hb.info hti (by rw [hsome, hhi])
    · exact ⟨rs_present_wipe true _ Ps Ms Rs ha, fun _ k _ => hRs k⟩
    · exact binv_mk acc _ _ _ _ Pi Ri Ps Rs hcs rfl (by rw [hRi]; rfl) hb.orig
        ((storageInv_d _ Ps Rs rfl).mpr (DRel_nil Rs hRs))
  · obtain ⟨hMi, hMs⟩ := merge_M_zero acc t c Pi Ps Mi Ms Ri Rs hb hm ht hc (by rw [hbs]; rfl)
    refine ⟨_, _, uacr_destroyed_lne acc t hts hbs, ⟨by rw [hMi, hRi], fun k => by rw [hMs, hRs]⟩, fun h => ?_⟩
    rw [hbs] at h; cases h

theorem merge_dc (hts : t.status = .destroyedChanged) : MergeGoal acc t c Pi Ps Mi Ms Ri Rs := by
  have hti := merge_hti acc t c Pi Ps Mi Ms Ri Rs hb hm ht hc
  have hsome := merge_accsome acc t c Pi Ps Mi Ms Ri Rs hb hm ht hc
  have hcs : Status.destroyedChanged = c.status := by rw [← ht.status, hts]
  have hok := ht.ok; rw [hts, ← hb.status] at hok
  rcases tab_dc _ _ _ hok with ⟨hbs, hwd⟩ | hbs | hbs | hbs
  · obtain ⟨hnd, hhi⟩ := nd_of4 _ hbs
    have ha := (storageInv_nd acc Ps Ms hnd).mp hb.stor
    have hu : SlotsRel t.storage (fun _ => 0) Rs := by have := ht.stor; simpa [hwd] using this
    refine ⟨_, _, uacr_dc_from acc t hts hbs, RevSem.filter _ _ _ _ _ _ _
      ⟨hb.status, markDestroyed_WF _ _ (presentAsRevert_WF _ ha.1), ?_, ?_⟩, fun _ => ?_⟩
    · exact infoRevert_ok acc t Mi Ri hb.info hti (by rw [hsome, hhi])
    · exact ⟨rs_md_wipe _ _ Ps Ms Rs ha hu.1, fun _ k hk => hu.get_none (md_none_us _ _ hu.1 k hk)⟩
    · exact binv_mk acc _ _ _ _ Pi Ri Ps Rs hcs rfl hti hb.orig
        ((storageInv_d _ Ps Rs rfl).mpr (DRel_of_rel0 _ Rs hu))
  · -- bundle status Destroyed / LoadedNotExisting: the state at the last merge is empty
    obtain ⟨hMi, hMs⟩ := merge_M_zero acc t c Pi Ps Mi Ms Ri Rs hb hm ht hc (by rcases hbs with h | h <;> rw [h] <;> rfl)
    have hu : SlotsRel t.storage Ms Rs := by
      have := ht.stor
      have he : (fun k => if t.wasDestroyed = true then 0 else Ms k) = Ms := by
        funext k; cases t.wasDestroyed <;> simp [hMs k]
      rw [he] at this; exact this
    have ha : DRel acc.storage Ms := by
      rcases hbs with h | h
      · exact (storageInv_d acc Ps Ms (by rw [h]; rfl)).mp hb.stor
      · rw [hb.loadedNil (by rw [h]; rfl)]; exact DRel_nil Ms hMs
    refine ⟨_, _, uacr_dc_h acc t hts hbs, RevSem.filter _ _ _ _ _ _ _ ⟨hb.status, prevStorage_WF _ hu.1, hMi, ?_⟩, fun _ => ?_⟩
    · exact ⟨rs_prev true _ Ps Ms Rs hu, fun h => absurd h (by simp)⟩
    · exact binv_mk acc _ _ _ _ Pi Ri Ps Rs hcs rfl hti hb.orig
        ((storageInv_d _ Ps Rs rfl).mpr (st_extend_d _ _ Ms Rs ha hu))
  · have ha : DRel acc.storage Ms := (storageInv_d acc Ps Ms (by rw [hbs]; rfl)).mp hb.stor
    unfold MergeGoal
    rw [uacr_dc_dc acc t hts hbs]
    cases hwd : t.wasDestroyed with
    | true =>
      have hu : SlotsRel t.storage (fun _ => 0) Rs := by have := ht.stor; simpa [hwd] using this
      refine ⟨_, _, rfl, RevSem.filter _ _ _ _ _ _ _
        ⟨by rw [← hb.status, hbs], by simp only [if_true]; exact markDestroyed_WF _ _ (presentAsRevert_WF _ ha.1), ?_, ?_⟩, fun _ => ?_⟩
      · exact infoRevert_ok acc t Mi Ri hb.info hti (by rw [hsome, hbs]; rfl)
      · simp only [if_true]; exact ⟨rs_md_nowipe true _ _ Ps Ms Rs ha hu, fun h => absurd h (by simp)⟩
      · simp only [if_true]
        exact binv_mk acc _ _ _ _ Pi Ri Ps Rs hcs rfl hti hb.orig
          ((storageInv_d _ Ps Rs rfl).mpr (st_extend_d _ _ (fun _ => 0) Rs (DRel_nil _ (fun _ => rfl)) hu))
    | false =>
      have hu : SlotsRel t.storage Ms Rs := by have := ht.stor; simpa [hwd] using this
      refine ⟨_, _, rfl, RevSem.filter _ _ _ _ _ _ _
        ⟨by rw [← hb.status, hbs], by simp only [Bool.false_eq_true, if_false]; exact prevStorage_WF _ hu.1, ?_, ?_⟩, fun _ => ?_⟩
      · exact infoRevert_ok acc t Mi Ri hb.info hti (by rw [hsome, hbs]; rfl)
      · simp only [Bool.false_eq_true, if_false]; exact ⟨rs_prev true _ Ps Ms Rs hu, fun h => absurd h (by simp)⟩
      · simp only [Bool.false_eq_true, if_false]
        exact binv_mk acc _ _ _ _ Pi Ri Ps Rs hcs rfl hti hb.orig
          ((storageInv_d _ Ps Rs rfl).mpr (st_extend_d _ _ Ms Rs ha hu))
  · obtain ⟨hMi, hMs⟩ := merge_M_zero acc t c Pi Ps Mi Ms Ri Rs hb hm ht hc (by rw [hbs]; rfl)
    have hu : SlotsRel t.storage (fun _ => 0) Rs := by
      have := ht.stor
      have he : (fun k => if t.wasDestroyed = true then 0 else Ms k) = fun _ => 0 := by
        funext k; cases t.wasDestroyed <;> simp [hMs k]
      rw [he] at this; exact this
    have ha : DRel acc.storage Ms := (storageInv_d acc Ps Ms (by rw [hbs]; rfl)).mp hb.stor
    refine ⟨_, _, uacr_dc_da acc t hts hbs, RevSem.filter _ _ _ _ _ _ _
      ⟨by rw [← hb.status, hbs], markDestroyed_WF _ _ (presentAsRevert_WF _ WF_nil), hMi, ?_⟩, fun _ => ?_⟩
    · exact ⟨rs_md_nowipe true [] _ Ps Ms Rs (DRel_nil Ms hMs) hu, fun h => absurd h (by simp)⟩
    · exact binv_mk acc _ _ _ _ Pi Ri Ps Rs hcs rfl hti hb.orig
        ((storageInv_d _ Ps Rs rfl).mpr (st_extend_d _ _ (fun _ => 0) Rs (DRel_zero_of _ Ms ha hMs) hu))

theorem merge_da (hts : t.status = .destroyedAgain) : MergeGoal acc t c Pi Ps Mi Ms Ri Rs := by
  have hti := merge_hti acc t c Pi Ps Mi Ms Ri Rs hb hm ht hc
  have hsome := merge_accsome acc t c Pi Ps Mi Ms Ri Rs hb hm ht hc
  have hcs : Status.destroyedAgain = c.status := by rw [← ht.status, hts]
  obtain ⟨hRi, hRs⟩ := merge_R_zero acc t c Pi Ps Mi Ms Ri Rs hb hm ht hc (Or.inr hts)
  have hnew : BInvAcc ⟨none, acc.origInfo, [], .destroyedAgain⟩ c.status Pi Ps Ri Rs :=
    binv_mk acc _ _ _ _ Pi Ri Ps Rs hcs rfl (by rw [hRi]; rfl) hb.orig
      ((storageInv_d _ Ps Rs rfl).mpr (DRel_nil Rs hRs))
  have hok := ht.ok; rw [hts, ← hb.status] at hok
  rcases tab_da _ _ _ hok with ⟨hbs, hwd⟩ | hbs | hbs
  · obtain ⟨hnd, hhi⟩ := nd_of4 _ hbs
    have ha := (storageInv_nd acc Ps Ms hnd).mp hb.stor
    refine ⟨_, _, uacr_da_from acc t hts hbs, RevSem.filter _ _ _ _ _ _ _ ⟨hb.status, presentAsRevert_WF _ ha.1, ?_, ?_⟩, fun _ => hnew⟩
    · exact infoRevert_ok acc t Mi Ri hb.info hti (by rw [hsome, hhi])
    · exact ⟨rs_present_wipe true _ Ps Ms Rs ha, fun _ k _ => hRs k⟩
  · obtain ⟨hMi, hMs⟩ := merge_M_zero acc t c Pi Ps Mi Ms Ri Rs hb hm ht hc
      (by rcases hbs with h | h | h <;> rw [h] <;> rfl)
    exact ⟨_, _, uacr_da_none acc t hts hbs, ⟨by rw [hMi, hRi], fun k => by rw [hMs, hRs]⟩, fun _ => hnew⟩
  · have ha : DRel acc.storage Ms := (storageInv_d acc Ps Ms (by rw [hbs]; rfl)).mp hb.stor
    refine ⟨_, _, uacr_da_dc acc t hts hbs, RevSem.filter _ _ _ _ _ _ _
      ⟨by rw [← hb.status, hbs], presentAsRevert_WF _ ha.1, ?_, ?_⟩, fun _ => hnew⟩
    · have : acc.info.isSome = true := by rw [hsome, hbs]; rfl
      cases hi : acc.info with
      | none => rw [hi] at this; cases this
      | some i => simp only [revInfoOK, Option.getD]; rw [← hb.info, hi]; rfl
    · exact ⟨rs_present_nowipe true _ Ps Ms Rs ha hRs, fun h => absurd h (by simp)⟩

/-- **(i)** `update_and_create_revert` on a bundle account satisfying the A.3 invariant w.r.t. (P → M) and
a transition satisfying the transition invariant w.r.t. (M → R): no `unreachable!`, the new bundle account
satisfies the invariant w.r.t. (P → R), and the recorded revert maps R back to M -/
theorem merge_core : MergeGoal acc t c Pi Ps Mi Ms Ri Rs := by
  have h5 := (trOK_shape _ _ _ _ ht.ok).1
  cases hts : t.status with
  | changed => exact merge_changed acc t c Pi Ps Mi Ms Ri Rs hb hm ht hc hts
  | inMemoryChange => exact merge_imc acc t c Pi Ps Mi Ms Ri Rs hb hm ht hc hts
  | destroyed => exact merge_destroyed acc t c Pi Ps Mi Ms Ri Rs hb hm ht hc hts
  | destroyedChanged => exact merge_dc acc t c Pi Ps Mi Ms Ri Rs hb hm ht hc hts
  | destroyedAgain => exact merge_da acc t c Pi Ps Mi Ms Ri Rs hb hm ht hc hts
  | loaded => rw [hts] at h5; cases h5
  | loadedNotExisting => rw [hts] at h5; cases h5
  | loadedEmptyEIP161 => rw [hts] at h5; cases h5

end merge

/-! ## addresses that are not yet in the bundle; the per-address effect of `apply_transitions_and_create_reverts` -/

theorem filterEmpty_some_of (r : ARevert) (h : r.isEmpty = false) : filterEmpty (some r) = some r := by
  simp [filterEmpty, h]

/-- a transition into `DestroyedChanged` always records a revert, unless the bundle account already is `DestroyedChanged` -/
theorem dc_rev_some (acc : BAcct) (t : Transition) (nc : Bool) (hts : t.status = .destroyedChanged)
    (hok : trOK acc.status .destroyedChanged nc t.wasDestroyed = true) (hne : acc.status ≠ .destroyedChanged)
    (acc' : BAcct) (h : updateAndCreateRevert acc t = some (acc', none)) : False := by
  rcases tab_dc _ _ _ hok with ⟨hbs, _⟩ | hbs | hbs | hbs
  · rw [uacr_dc_from acc t hts hbs, filterEmpty_some_of _ (by simp [ARevert.isEmpty])] at h
    simp at h
  · rw [uacr_dc_h acc t hts hbs, filterEmpty_some_of _ (by simp [ARevert.isEmpty])] at h
    simp at h
  · exact hne hbs
  · rw [uacr_dc_da acc t hts hbs, filterEmpty_some_of _ (by simp [ARevert.isEmpty])] at h
    simp at h

/-- bundle side of the per-address invariant: `none` = the address is not in the bundle -/
def BInv (b? : Option BAcct) (ms : Status) (Pi : Option Info) (Ps : Nat → Nat) (Mi : Option Info)
    (Ms : Nat → Nat) : Prop :=
  match b? with
  | none => Mi = Pi ∧ Ms = Ps ∧ ms ≠ .destroyedChanged
  | some b => BInvAcc b ms Pi Ps Mi Ms ∧ st5 ms = true

/-- what one iteration of `apply_transitions_and_create_reverts` does to the bundle entry of its address -/
def oneAcct (b? : Option BAcct) (t : Transition) : Option (Option BAcct × Option ARevert) :=
  match b? with
  | some acc => (updateAndCreateRevert acc t).map fun r => (some r.1, r.2)
  | none => (updateAndCreateRevert t.originalBundleAccount t).map fun r =>
      match r.2 with
      | some rv => (some t.presentBundleAccount, some rv)
      | none => (none, none)

theorem applyOne_eq (b : BState) (a : Nat) (t : Transition) :
    applyOne b a t = (oneAcct (b.state.get a) t).map fun r =>
      ({ b with contracts := (match t.hasNewContract with | some h => insertContract b.contracts h | none => b.contracts),
                state := (match r.1 with | some x => b.state.set a x | none => b.state) }, r.2) := by
  unfold applyOne oneAcct
  cases hg : b.state.get a with
  | some acc =>
    simp only
    cases updateAndCreateRevert acc t with
    | none => rfl
    | some r => rfl
  | none =>
    simp only
    cases updateAndCreateRevert t.originalBundleAccount t with
    | none => rfl
    | some r =>
      obtain ⟨x, rv⟩ := r
      cases rv <;> rfl

/-- **(i), per address**: one iteration of the merge loop re-establishes the bundle invariant w.r.t. the
current state and records a revert that leads back to the state at the previous merge -/
theorem merge_acct (b? : Option BAcct) (t : Transition) (c : CacheAcct) (Pi : Option Info) (Ps : Nat → Nat)
    (Mi : Option Info) (Ms : Nat → Nat) (Ri : Option Info) (Rs : Nat → Nat)
    (hb : BInv b? t.prevStatus Pi Ps Mi Ms) (hm : Facts t.prevStatus Mi Ms)
    (ht : TInv t c Mi Ms Rs) (hc : CInv c Ri Rs) :
    ∃ b?' rev, oneAcct b? t = some (b?', rev) ∧ BInv b?' c.status Pi Ps Ri Rs ∧
      RevSem rev t.prevStatus Ps Mi Ms Ri Rs := by
  have h5 : st5 c.status = true := by rw [← ht.status]; exact (trOK_shape _ _ _ _ ht.ok).1
  cases b? with
  | some acc =>
    obtain ⟨hb1, hb2⟩ := hb
    obtain ⟨acc', rev, h1, h2, h3⟩ := merge_core acc t c Pi Ps Mi Ms Ri Rs hb1 hm ht hc
    refine ⟨some acc', rev, by simp [oneAcct, h1], ⟨h3 (by rw [hb1.status]; exact hb2), h5⟩, h2⟩
  | none =>
    obtain ⟨hMP, hMsP, hndc⟩ := hb
    subst hMP; subst hMsP
    have hstor0 : StorageInv t.originalBundleAccount Ms Ms := by
      cases hwd : t.prevStatus.wasDestroyed with
      | false => exact (storageInv_nd _ _ _ hwd).mpr (SlotsRel.nil Ms)
      | true =>
        have hhi : hasInfo t.prevStatus = false := by
          revert hwd hndc; cases t.prevStatus <;> simp [Status.wasDestroyed, hasInfo]
        have hMn : Mi = none := by
          have := hm.some_iff; rw [hhi] at this
          cases hMi : Mi with
          | none => rfl
          | some i => rw [hMi] at this; cases this
        exact (storageInv_d _ _ _ hwd).mpr (DRel_nil Ms (hm.none_zero hMn))
    have hb0 : BInvAcc t.originalBundleAccount t.prevStatus Mi Ms Mi Ms :=
      ⟨rfl, ht.prev, ht.prev, hstor0, fun _ => rfl⟩
    obtain ⟨acc', rev, h1, h2, _⟩ := merge_core _ t c Mi Ms Mi Ms Ri Rs hb0 hm ht hc
    have hti : t.info.map wc = Ri := by rw [ht.info]; exact hc.info
    cases rev with
    | none =>
      obtain ⟨hMR, hMsR⟩ := h2
      have hMsR' : Ms = Rs := funext hMsR
      refine ⟨none, none, by simp [oneAcct, h1], ⟨hMR.symm, hMsR'.symm, ?_⟩, ⟨hMR, hMsR⟩⟩
      intro hcs
      have hts : t.status = .destroyedChanged := by rw [ht.status]; exact hcs
      have hok := ht.ok; rw [hts] at hok
      exact dc_rev_some t.originalBundleAccount t _ hts hok hndc acc' h1
    | some r =>
      refine ⟨some t.presentBundleAccount, some r, by simp [oneAcct, h1], ⟨?_, h5⟩, h2⟩
      have hok := ht.ok
      refine ⟨ht.status, hti, ht.prev, ?_, fun h => ?_⟩
      · cases hsd : t.status.wasDestroyed with
        | false =>
          have hfl : t.wasDestroyed = false ∧ t.prevStatus.wasDestroyed = false := by
            revert hok hsd
            cases t.prevStatus <;> cases t.status <;> cases t.wasDestroyed <;> cases ncO c.info <;>
              simp [trOK, inv, reach, st5, Status.wasDestroyed]
          have hu : SlotsRel t.storage Ms Rs := by have := ht.stor; simpa [hfl.1] using this
          exact (storageInv_nd t.presentBundleAccount Ms Rs hsd).mpr hu
        | true =>
          have hu : SlotsRel t.storage (fun _ => 0) Rs := by
            have := ht.stor
            cases hwd : t.wasDestroyed with
            | true => simpa [hwd] using this
            | false =>
              have hpd : t.prevStatus.wasDestroyed = true := by
                revert hok hsd hwd
                cases t.prevStatus <;> cases t.status <;> cases t.wasDestroyed <;> cases ncO c.info <;>
                  simp [trOK, inv, reach, st5, Status.wasDestroyed]
              have hhi : hasInfo t.prevStatus = false := by
                revert hpd hndc; cases t.prevStatus <;> simp [Status.wasDestroyed, hasInfo]
              have hMn : Mi = none := by
                have := hm.some_iff; rw [hhi] at this
                cases hMi : Mi with
                | none => rfl
                | some i => rw [hMi] at this; cases this
              have he : (fun k => if t.wasDestroyed = true then 0 else Ms k) = fun _ => 0 := by
                funext k; simp [hwd, hm.none_zero hMn k]
              rw [he] at this; exact this
          exact (storageInv_d t.presentBundleAccount Ms Rs hsd).mpr (DRel_of_rel0 _ Rs hu)
      · have : st5 t.status = true := (trOK_shape _ _ _ _ ht.ok).1
        rw [show t.presentBundleAccount.status = t.status from rfl, this] at h; cases h

/-! ## wiping reverts and destroyed statuses (used by C18) -/

theorem filterEmpty_eq_some (r r' : ARevert) (h : filterEmpty (some r) = some r') : r' = r := by
  unfold filterEmpty at h
  by_cases he : r.isEmpty = true
  · simp [he] at h
  · simp [he] at h; exact h.symm

/-- a wiping revert is recorded only when the account moves from a non-destroyed bundle status into a
destroyed one (a closed fact about `update_and_create_revert`, no invariant needed) -/
theorem uacr_wipe (acc : BAcct) (t : Transition) (acc' : BAcct) (r : ARevert)
    (h : updateAndCreateRevert acc t = some (acc', some r)) (hw : r.wipe = true) :
    t.status.wasDestroyed = true ∧ acc.status.wasDestroyed = false := by
  unfold updateAndCreateRevert at h
  cases hts : t.status <;> cases hbs : acc.status <;> cases hwd : t.wasDestroyed <;>
    simp [hts, hbs, hwd, newSelfdestructedFromBundle, newSelfdestructedAgain, newSelfdestructed, Option.map,
      Status.wasDestroyed] at h ⊢ <;>
    (try first
      | (obtain ⟨_, h2⟩ := h; have := filterEmpty_eq_some _ _ h2; rw [this] at hw; simp at hw; done)
      | (simp [filterEmpty] at h; done))

theorem trOK_wd_mono (s0 s : Status) (nc wd : Bool) (h : trOK s0 s nc wd = true) (h0 : s0.wasDestroyed = true) :
    s.wasDestroyed = true := by
  revert h h0
  cases s0 <;> cases s <;> cases nc <;> cases wd <;> simp [trOK, inv, reach, st5, Status.wasDestroyed]

/-- `merge_acct` plus: a wiping revert leaves a destroyed-family bundle account and is recorded only for an
address that was absent or not destroyed; a destroyed-family bundle account stays one -/
theorem merge_acct_wipe (b? : Option BAcct) (t : Transition) (c : CacheAcct) (Pi : Option Info) (Ps : Nat → Nat)
    (Mi : Option Info) (Ms : Nat → Nat) (Ri : Option Info) (Rs : Nat → Nat)
    (hb : BInv b? t.prevStatus Pi Ps Mi Ms) (hm : Facts t.prevStatus Mi Ms)
    (ht : TInv t c Mi Ms Rs) (hc : CInv c Ri Rs) :
    ∃ b?' rev, oneAcct b? t = some (b?', rev) ∧ BInv b?' c.status Pi Ps Ri Rs ∧
      RevSem rev t.prevStatus Ps Mi Ms Ri Rs ∧
      (∀ r, rev = some r → r.wipe = true →
        (∃ o', b?' = some o' ∧ o'.status.wasDestroyed = true) ∧ (∀ o, b? = some o → o.status.wasDestroyed = false)) ∧
      (∀ o, b? = some o → o.status.wasDestroyed = true → ∃ o', b?' = some o' ∧ o'.status.wasDestroyed = true) := by
  obtain ⟨b?', rev, h1, h2, h3⟩ := merge_acct b? t c Pi Ps Mi Ms Ri Rs hb hm ht hc
  refine ⟨b?', rev, h1, h2, h3, ?_, ?_⟩
  · intro r hr hw
    subst hr
    cases b? with
    | some acc =>
      simp only [oneAcct] at h1
      cases hu : updateAndCreateRevert acc t with
      | none => rw [hu] at h1; cases h1
      | some x =>
        obtain ⟨acc', rv⟩ := x
        rw [hu] at h1
        simp only [Option.map, Option.some.injEq, Prod.mk.injEq] at h1
        obtain ⟨q1, q2⟩ := h1
        subst q1
        have hu' : updateAndCreateRevert acc t = some (acc', some r) := by rw [hu, q2]
        obtain ⟨w1, w2⟩ := uacr_wipe acc t acc' r hu' hw
        refine ⟨⟨acc', rfl, ?_⟩, fun o ho => by injection ho with ho; rw [← ho]; exact w2⟩
        have := h2.1.status
        rw [this, ← ht.status]; exact w1
    | none =>
      simp only [oneAcct] at h1
      cases hu : updateAndCreateRevert t.originalBundleAccount t with
      | none => rw [hu] at h1; cases h1
      | some x =>
        obtain ⟨acc', rv⟩ := x
        rw [hu] at h1
        cases rv with
        | none => simp [Option.map] at h1
        | some r' =>
          simp only [Option.map, Option.some.injEq, Prod.mk.injEq] at h1
          obtain ⟨q1, q2⟩ := h1
          subst q1
          have hw' : r'.wipe = true := by rw [q2]; exact hw
          obtain ⟨w1, _⟩ := uacr_wipe _ t acc' r' hu hw'
          exact ⟨⟨t.presentBundleAccount, rfl, w1⟩, fun o ho => by cases ho⟩
  · intro o ho hwd
    subst ho
    simp only [oneAcct] at h1
    cases hu : updateAndCreateRevert o t with
    | none => rw [hu] at h1; cases h1
    | some x =>
      rw [hu] at h1
      simp only [Option.map, Option.some.injEq, Prod.mk.injEq] at h1
      obtain ⟨q1, _⟩ := h1
      subst q1
      refine ⟨x.1, rfl, ?_⟩
      have hs := h2.1.status
      have h0 : t.prevStatus.wasDestroyed = true := by rw [← hb.1.status]; exact hwd
      rw [hs, ← ht.status]
      exact trOK_wd_mono _ _ _ _ ht.ok h0

end Revm.Proofs.Bundle
