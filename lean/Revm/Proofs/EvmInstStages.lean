import Revm.Model.EvmTx
/-! Instantiating the abstract machines of C28-C31 with the whole-EVM model, part 0: the handler STAGES of
`Revm.Model.Evm.transact` as named functions, and the proof that `transact` is their composition.

`Model/EvmTx.lean` writes `preverify`, `prepare`, `finish` as single `do` blocks. Here every handler stage of
`crates/revm/src/evm.rs` (`validation.env`, `validation.initial_tx_gas`, `validation.tx_against_state`,
`pre_execution.load_accounts` + `set_precompiles`, `deduct_caller`, `apply_eip7702_auth_list`, first frame,
`run_the_loop`, `last_frame_return`, `refund` (+ EIP-7623 floor), `reimburse_caller`, `reward_beneficiary`,
`output`) gets a name, so that the abstract models can be instantiated stage by stage. -/
namespace Revm.Proofs.EvmInst
open Revm Revm.Model Revm.Model.Evm
open Revm.Model.GasCalc (enabled)

/-! ## validation -/

/-- `validation.initial_tx_gas`: `none` = rejected (`CallGasCostMoreThanGasLimit` / `GasFloorMoreThanGasLimit`) -/
def initialTxGas (e : Env) (spec : Nat) : R (Option (Nat × Nat)) := do
  let (initialGas, floorGas) ← ofOpt "initcode_cost"
    (GasCalc.calculateInitialTxGas spec e.tx.data e.tx.to.isNone (e.tx.accessList.map (·.keys.length))
      (match e.tx.authList with | some l => l.length | none => 0))
  if initialGas > e.tx.gasLimit then return none
  if enabled spec GasCalc.SpecId.PRAGUE ∧ floorGas > e.tx.gasLimit then return none
  return some (initialGas, floorGas)

/-- `validation.tx_against_state`: `load_code(caller)`, then `Env::validate_tx_against_state`; the world with the
caller loaded and whether the transaction is accepted -/
def txAgainstState (e : Env) (spec : Nat) (w : World) : R (World × Bool) := do
  let (w, _) ← w.loadCode e.tx.caller
  let acc ← w.acct e.tx.caller
  let h ← ofOpt "code not cached" acc.info.code
  let code ← ofOpt "code_by_hash" (w.codeOf h)
  pure (w, validateAgainstState e spec code acc.info)

theorem preverify_eq (w : World) (e : Env) (spec : Nat) :
    preverify w e spec = (do
      if !(← validateEnv e spec) then return none
      match ← initialTxGas e spec with
      | none => return none
      | some (ig, fg) =>
        let (w, ok) ← txAgainstState e spec w
        if !ok then return none
        return some (w, ig, fg)) := by
  unfold preverify initialTxGas txAgainstState
  cases hv : validateEnv e spec with
  | error err => rfl
  | ok b =>
    cases b with
    | false => rfl
    | true =>
      simp only [bind, Except.bind, pure, Except.pure, Bool.not_true, Bool.false_eq_true, if_false]
      cases hg : ofOpt "initcode_cost"
        (GasCalc.calculateInitialTxGas spec e.tx.data e.tx.to.isNone (e.tx.accessList.map (·.keys.length))
          (match e.tx.authList with | some l => l.length | none => 0)) with
      | error err => rfl
      | ok g =>
        obtain ⟨ig, fg⟩ := g
        simp only []
        by_cases h1 : ig > e.tx.gasLimit
        · simp only [h1, if_true]
        · simp only [h1, if_false]
          by_cases h2 : enabled spec GasCalc.SpecId.PRAGUE = true ∧ fg > e.tx.gasLimit
          · simp only [h2, and_self, if_true]
          · simp only [h2, if_false]
            cases hl : w.loadCode e.tx.caller with
            | error err => rfl
            | ok p =>
              obtain ⟨w1, c⟩ := p
              simp only []
              cases ha : w1.acct e.tx.caller with
              | error err => rfl
              | ok acc =>
                simp only []
                cases hc : ofOpt "code not cached" acc.info.code with
                | error err => rfl
                | ok hh =>
                  simp only []
                  cases hb : ofOpt "code_by_hash" (w1.codeOf hh) with
                  | error err => rfl
                  | ok code =>
                    cases validateAgainstState e spec code acc.info <;> rfl

/-! ## pre-execution and the first frame -/

/-- `gas_limit - initial_gas` -/
def firstGasLimit (e : Env) (initialGas : Nat) : Nat := U64ops.wsub e.tx.gasLimit initialGas

/-- the `CallInputs` of a call transaction -/
def firstCallInputs (e : Env) (to gasLimit : Nat) : Interp.CallInputs :=
  { input := e.tx.data, retStart := 0, retEnd := 0, gasLimit := gasLimit, bytecodeAddress := to,
    targetAddress := to, caller := e.tx.caller, valueTransfer := true, value := e.tx.value, scheme := .call,
    isStatic := false, isEof := false }

/-- the `CreateInputs` of a create transaction -/
def firstCreateInputs (e : Env) (gasLimit : Nat) : Interp.CreateInputs :=
  { caller := e.tx.caller, salt := none, value := e.tx.value, initCode := e.tx.data, gasLimit := gasLimit }

/-- `exec.call` / `exec.create` for the first frame -/
def firstFrame {κ : Type} (C : CpOps κ) (cfg : Cfg) (e : Env) (gasLimit : Nat) (w : World) :
    R (FrameOrResult κ × World) :=
  match e.tx.to with
  | some to => makeCallFrame C cfg w (firstCallInputs e to gasLimit) Memory.new
  | none => makeCreateFrame C cfg w (firstCreateInputs e gasLimit) Memory.new

theorem prepare_eq {κ : Type} (C : CpOps κ) (e : Env) (spec initialGas : Nat) (w : World) :
    prepare C e spec initialGas w = (do
      let w ← deductCaller e spec (loadAccounts e spec w)
      let (w, refund) ← applyAuthList e spec w
      let (f, w) ← firstFrame C (e.toCfg spec) e (firstGasLimit e initialGas) w
      pure (f, w, e.tx.to.isNone, refund)) := by
  unfold prepare firstFrame firstGasLimit firstCallInputs firstCreateInputs
  dsimp only
  cases hd : deductCaller e spec (loadAccounts e spec w) with
  | error err => rfl
  | ok w1 =>
    simp only [bind, Except.bind]
    cases ha : applyAuthList e spec w1 with
    | error err => rfl
    | ok p =>
      obtain ⟨w2, r⟩ := p
      simp only []
      cases hto : e.tx.to with
      | none =>
        cases makeCreateFrame C (e.toCfg spec) w2
          { caller := e.tx.caller, salt := none, value := e.tx.value, initCode := e.tx.data,
            gasLimit := U64ops.wsub e.tx.gasLimit initialGas } Memory.new <;> rfl
      | some to =>
        cases makeCallFrame C (e.toCfg spec) w2
          { input := e.tx.data, retStart := 0, retEnd := 0, gasLimit := U64ops.wsub e.tx.gasLimit initialGas,
            bytecodeAddress := to, targetAddress := to, caller := e.tx.caller, valueTransfer := true,
            value := e.tx.value, scheme := .call, isStatic := false, isEof := false } Memory.new <;> rfl

/-! ## post-execution -/

/-- `last_frame_return`: the meter of the transaction from the first frame's result -/
def lastFrameGas (e : Env) (res : Interp.ChildResult) : Gas.Gas :=
  let gas := Gas.newSpent e.tx.gasLimit
  if res.result.isOk then Gas.recordRefund (Gas.eraseCost gas res.gasRemaining) res.gasRefunded
  else if res.result.isRevert then Gas.eraseCost gas res.gasRemaining
  else gas

/-- `post_execution.refund` and the EIP-7623 floor of `transact_preverified_inner` -/
def refundGas (spec floorGas eip7702Refund : Nat) (gas : Gas.Gas) : Gas.Gas :=
  let gas := Gas.recordRefund gas (Gas.u64AsI64 eip7702Refund)
  let gas := Gas.setFinalRefund gas (enabled spec GasCalc.SpecId.LONDON)
  if Gas.spentSubRefunded gas < floorGas then Gas.setRefund (Gas.setSpent gas floorGas) 0 else gas

theorem finalGas_eq (e : Env) (spec floorGas eip7702Refund : Nat) (res : Interp.ChildResult) :
    finalGas e spec floorGas eip7702Refund res = refundGas spec floorGas eip7702Refund (lastFrameGas e res) := rfl

/-- `reimburse_caller` -/
def reimburse (e : Env) (gas : Gas.Gas) (w : World) : R World := do
  let price := e.effectiveGasPrice
  let (w, _) ← w.loadAccount e.tx.caller
  let cacc ← w.acct e.tx.caller
  let back := U256.wmul price (U64ops.wadd gas.remaining (Gas.i64AsU64 gas.refunded))
  let cacc' := { cacc with info := { cacc.info with balance := U256.saturatingAdd cacc.info.balance back } }
  pure { w with js := Journal.setAcct w.js e.tx.caller cacc' }

/-- `reward_beneficiary` -/
def reward (e : Env) (spec : Nat) (gas : Gas.Gas) (w : World) : R World := do
  let price := e.effectiveGasPrice
  let coinbasePrice := if enabled spec GasCalc.SpecId.LONDON then U256.saturatingSub price e.block.basefee else price
  let (w, _) ← w.loadAccount e.block.coinbase
  let bacc ← w.acct e.block.coinbase
  let reward := U256.wmul coinbasePrice (U64ops.wsub (Gas.spent gas) (Gas.i64AsU64 gas.refunded))
  let bacc' := { bacc with touched := true,
                           info := { bacc.info with balance := U256.saturatingAdd bacc.info.balance reward } }
  pure { w with js := Journal.setAcct w.js e.block.coinbase bacc' }

/-- the logs of the journal, resolved in the store of log records -/
def logsOf (ids : List Nat) (store : List LogRec) : List LogRec := ids.filterMap (fun i => store[i]?)

/-- `output`: the `ExecutionResult` -/
def output (isCreate : Bool) (res : Interp.ChildResult) (gas : Gas.Gas) (ids : List Nat) (store : List LogRec) :
    R TxResult := do
  let cls ← ofOpt "unexpected internal return flag" (classOf res.result)
  pure (txResultOf cls res isCreate gas (logsOf ids store))

theorem finish_eq (e : Env) (spec floorGas eip7702Refund : Nat) (isCreate : Bool) (res : Interp.ChildResult)
    (w : World) :
    finish e spec floorGas eip7702Refund isCreate res w = (do
      let gas := refundGas spec floorGas eip7702Refund (lastFrameGas e res)
      let w ← reimburse e gas w
      let w ← reward e spec gas w
      let r ← output isCreate res gas w.js.logs w.logs
      pure (r, w)) := by
  unfold finish reimburse reward output logsOf
  rw [finalGas_eq]
  simp only [bind, Except.bind, pure, Except.pure]
  cases w.loadAccount e.tx.caller with
  | error err => rfl
  | ok p =>
    obtain ⟨w1, c⟩ := p
    simp only []
    cases w1.acct e.tx.caller with
    | error err => rfl
    | ok cacc =>
      simp only []
      generalize hw2 : ({ w1 with js := Journal.setAcct w1.js e.tx.caller _ } : World) = w2
      cases w2.loadAccount e.block.coinbase with
      | error err => rfl
      | ok p =>
        obtain ⟨w3, c⟩ := p
        simp only []
        cases w3.acct e.block.coinbase with
        | error err => rfl
        | ok bacc =>
          simp only []
          cases ofOpt "unexpected internal return flag" (classOf res.result) <;> rfl

/-! ## the whole transaction as the composition of its stages -/

theorem execute_eq {κ : Type} (C : CpOps κ) (fuel : Nat) (e : Env) (spec initialGas floorGas : Nat) (w : World) :
    execute C fuel e spec initialGas floorGas w = (do
      let w ← deductCaller e spec (loadAccounts e spec w)
      let (w, refund) ← applyAuthList e spec w
      let (f, w) ← firstFrame C (e.toCfg spec) e (firstGasLimit e initialGas) w
      let (res, w) ← runFirst C (e.toCfg spec) fuel f w
      finish e spec floorGas refund e.tx.to.isNone res w) := by
  unfold execute
  rw [prepare_eq]
  simp only [bind, Except.bind, pure, Except.pure]
  cases deductCaller e spec (loadAccounts e spec w) with
  | error err => rfl
  | ok w1 =>
    simp only []
    cases applyAuthList e spec w1 with
    | error err => rfl
    | ok p =>
      obtain ⟨w2, r⟩ := p
      simp only []
      cases firstFrame C (e.toCfg spec) e (firstGasLimit e initialGas) w2 with
      | error err => rfl
      | ok q => rfl

end Revm.Proofs.EvmInst
