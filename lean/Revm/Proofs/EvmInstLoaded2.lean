import Revm.Proofs.EvmInstLoaded
import Revm.Proofs.EvmInstTgt6
import Revm.Proofs.EvmInstSdRun
import Revm.Proofs.EvmInstStages
/-! C30 instance, the run invariant "the executing contract is in the journal", part 2: the loop and the trace.

`Inv stack w`: the target of every open frame is in the journal's state map. It holds of the first frame
(`make_call_frame` / `make_create_frame`, part 1), and `Evm.iterate` / `Evm.frameEnd` keep it: no instruction changes the
frame's `target` (`EvmInstTgt.step_target`), no outcome insertion does, no journal operation removes an account
(`KLe`), and a new frame's target is loaded by its creation or is the running frame's own (DELEGATECALL). Hence every
instruction of every `transact` run executes at an address that is in the journal: `contract_loaded` closes
`FullStatementContractLoaded`, and `evm_selfdestruct_balance_left` holds without hypothesis. -/
namespace Revm.Proofs.EvmInstLoaded
open Revm Revm.Model Revm.Model.Evm
open Revm.Proofs.EvmLink (KLe bind_ok Pres nextWorld)
open Revm.Proofs.EvmInstTgt (KeptT KeepT TDone TOutcome step_target insertCall_target insertCreate_target)
open Revm.Proofs.EvmInstHooks
open Revm.Proofs.EvmInstSd (Resolved EvLoaded FullStatementContractLoaded)

set_option linter.unusedSimpArgs false
set_option linter.unusedVariables false

abbrev JFrame := Frame Journal.Checkpoint

/-- the target of every open frame is in the journal -/
def Inv (stack : List JFrame) (w : World) : Prop := ∀ f ∈ stack, In w f.interp.target

def InvN : Next Journal.Checkpoint → Prop
  | .run st w => Inv st w
  | .ended _ rest _ _ _ w => Inv rest w
  | .done _ _ => True

theorem Inv.mono {st : List JFrame} {w w' : World} (h : Inv st w) (k : KLe w.js w'.js) : Inv st w' :=
  fun f hf => k _ (h f hf)

theorem Inv.cons {f : JFrame} {st : List JFrame} {w : World} (hf : In w f.interp.target) (h : Inv st w) :
    Inv (f :: st) w := by
  intro g hg
  rcases List.mem_cons.1 hg with rfl | hg
  · exact hf
  · exact h g hg

theorem Inv.tail {f : JFrame} {st : List JFrame} {w : World} (h : Inv (f :: st) w) : Inv st w :=
  fun g hg => h g (List.mem_cons_of_mem _ hg)

theorem Inv.head {f : JFrame} {st : List JFrame} {w : World} (h : Inv (f :: st) w) : In w f.interp.target :=
  h f (List.mem_cons_self ..)

/-! ## the frame machine keeps the invariant -/

theorem insertBy_target (kind : FrameKind) (o : Interp.ChildResult) (s0 : Interp.IState) :
    KeepT s0 Revm.Proofs.EvmInstTgt.T (insertBy kind o s0) := by
  unfold insertBy
  cases kind with
  | call rs re => exact insertCall_target rs re o s0
  | create a => exact insertCreate_target o s0

theorem deliver_inv {kind : FrameKind} {o : Interp.ChildResult} {parent : JFrame} {rest : List JFrame}
    {mem : Memory.SharedMemory} {w : World} {nx} (h : deliver kind o parent rest mem w = .ok nx)
    (hp : In w parent.interp.target) (hr : Inv rest w) : InvN nx := by
  unfold deliver at h
  have hk := insertBy_target kind o { parent.interp with mem := mem }
  revert h
  generalize insertBy kind o { parent.interp with mem := mem } = x at hk
  intro h
  cases hk with
  | ok hkept _ =>
    simp only [pure, Except.pure, Except.ok.injEq] at h
    subst h
    refine Inv.cons ?_ hr
    show In w _
    rw [show ({ parent with interp := _ } : JFrame).interp.target = parent.interp.target from hkept.tgt]
    exact hp
  | halt hkept =>
    simp only [pure, Except.pure, Except.ok.injEq] at h
    subst h
    exact hr
  | fault => cases h

theorem kle_frameReturn {cfg : Cfg} {top : JFrame} {w w1 : World} {res res' : Interp.ChildResult}
    (h : frameReturn journalOps cfg top w res = .ok (res', w1)) : KLe w.js w1.js := by
  unfold frameReturn at h
  split at h
  · exact (Revm.Proofs.EvmLink.pres_callReturn (L := []) (B := fun _ => 0) List.nodup_nil hB0 h).kle
  · exact (Revm.Proofs.EvmLink.pres_createReturn (L := []) (B := fun _ => 0) List.nodup_nil hB0 h).kle

theorem frameEnd_inv {cfg : Cfg} {top : JFrame} {rest : List JFrame} {r : Interp.IResult} {out : List Nat}
    {s : Interp.IState} {w : World} {nx} (h : frameEnd journalOps cfg top rest r out s w = .ok nx)
    (hr : Inv rest w) : InvN nx := by
  unfold frameEnd at h
  obtain ⟨mem, _, h⟩ := bind_ok h
  obtain ⟨⟨res, w1⟩, hret, h⟩ := bind_ok h
  have k := kle_frameReturn hret
  simp only at h
  cases rest with
  | nil =>
    simp only [pure, Except.pure, Except.ok.injEq] at h
    subst h; trivial
  | cons parent rest' =>
    simp only at h
    exact deliver_inv h (k _ hr.head) (hr.tail.mono k)

theorem kle_makeFrame {cfg : Cfg} {w w1 : World} {a : Interp.Action} {mem fr}
    (h : makeFrame journalOps cfg w a mem = .ok (fr, w1)) : KLe w.js w1.js := by
  unfold makeFrame at h
  cases a with
  | call i => exact (Revm.Proofs.EvmLink.pres_makeCallFrame (L := []) (B := fun _ => 0) List.nodup_nil hB0 h).kle
  | create i => exact (Revm.Proofs.EvmLink.pres_makeCreateFrame (L := []) (B := fun _ => 0) List.nodup_nil hB0 h).kle
  | eofCreate i => cases h

theorem frameAction_inv {cfg : Cfg} {top : JFrame} {rest : List JFrame} {a : Interp.Action} {s : Interp.IState}
    {w : World} {nx} (h : frameAction journalOps cfg top rest a s w = .ok nx)
    (hs : In w s.target) (hq : ∀ i, a = .call i → i.valueTransfer = false → i.targetAddress = s.target)
    (hr : Inv rest w) : InvN nx := by
  unfold frameAction at h
  obtain ⟨⟨fr, w1⟩, hmk, h⟩ := bind_ok h
  have k := kle_makeFrame hmk
  simp only at h
  cases fr with
  | result o =>
    simp only at h
    exact deliver_inv h (k _ hs) (hr.mono k)
  | frame f =>
    simp only [pure, Except.pure, Except.ok.injEq] at h
    subst h
    have hf : In w1 f.interp.target := by
      unfold makeFrame at hmk
      cases a with
      | call i =>
        obtain ⟨htg, hin⟩ := makeCallFrame_target hmk (fun hv => by rw [hq i rfl hv]; exact hs)
        rw [htg]; exact hin
      | create i => exact makeCreateFrame_target hmk
      | eofCreate i => cases hmk
    exact Inv.cons hf (Inv.cons (k _ hs) (hr.mono k))

theorem afterStep_inv {cfg : Cfg} {top : JFrame} {rest : List JFrame} {d : Interp.Done} {w : World} {nx}
    (h : afterStep journalOps cfg top rest d w = .ok nx) (ht : TDone top.interp d)
    (hi : Inv (top :: rest) w) : InvN nx := by
  unfold afterStep at h
  cases ht with
  | next hk =>
    simp only [pure, Except.pure, Except.ok.injEq] at h
    subst h
    refine Inv.cons ?_ hi.tail
    show In w _
    rw [show ({ top with interp := _ } : JFrame).interp.target = top.interp.target from hk.tgt]
    exact hi.head
  | action hk hq =>
    refine frameAction_inv h ?_ ?_ hi.tail
    · show w.js.state _ ≠ none
      rw [hk.tgt]; exact hi.head
    · intro i hi' hv; rw [hk.tgt]; exact hq i hi' hv
  | halt hk => exact frameEnd_inv h hi.tail
  | fault => cases h

theorem kle_answer {he : HostEnv} {w w1 : World} {op : Interp.HostOp} {resp : Interp.HostResp}
    (h : answer he w op = .ok (resp, w1)) : KLe w.js w1.js :=
  (Revm.Proofs.EvmLink.pres_answer (L := []) (B := fun _ => 0) List.nodup_nil hB0 h).kle

theorem iterate_inv {cfg : Cfg} {stack : List JFrame} {w : World} {nx}
    (h : iterate journalOps cfg stack w = .ok nx) (hi : Inv stack w) : InvN nx := by
  unfold iterate at h
  cases stack with
  | nil => cases h
  | cons top rest =>
    simp only at h
    have ht := step_target top.interp
    revert h
    generalize Interp.step top.interp = o at ht
    intro h
    cases ht with
    | pure hd => exact afterStep_inv h hd hi
    | host hk =>
      simp only at h
      obtain ⟨⟨resp, w1⟩, ha, h⟩ := bind_ok h
      exact afterStep_inv h (hk resp) (hi.mono (kle_answer ha))

/-! ## every instruction of the trace executes at a loaded address -/

theorem stepEvs_loaded (cfg : Cfg) (top : JFrame) (w w' : World) (d : Interp.Done)
    (hr : Resolved cfg.he top.interp w d w') (hin : In w top.interp.target) :
    ∀ ev ∈ stepEvs journalOps cfg top w d w', EvLoaded cfg.he ev := by
  intro ev hev
  unfold stepEvs at hev
  rcases List.mem_cons.1 hev with rfl | hev
  · refine ⟨top.interp, w, d, w', hr, rfl, rfl, ?_⟩
    cases hs : w.js.state top.interp.target with
    | none => exact absurd hs hin
    | some _ => rfl
  · cases d with
    | next s => cases hev
    | action a s =>
      simp only [doneEvs, actionEvs] at hev
      split at hev
      · simp only [List.mem_singleton] at hev; subst hev; trivial
      · simp only [List.mem_singleton] at hev; subst hev; trivial
      · cases hev
    | halt r o s =>
      simp only [doneEvs, retEv, List.mem_singleton] at hev; subst hev; trivial
    | fault f => cases hev

theorem iterEvs_loaded (cfg : Cfg) (stack : List JFrame) (w : World) (hi : Inv stack w) :
    ∀ ev ∈ iterEvs journalOps cfg stack w, EvLoaded cfg.he ev := by
  intro ev hev
  unfold iterEvs at hev
  cases stack with
  | nil => cases hev
  | cons top rest =>
    simp only at hev
    cases hs : Interp.step top.interp with
    | pure d =>
      rw [hs] at hev
      exact stepEvs_loaded cfg top w w d (.pure d hs) hi.head ev hev
    | host op k =>
      rw [hs] at hev
      simp only at hev
      cases ha : answer cfg.he w op with
      | error e => rw [ha] at hev; cases hev
      | ok p =>
        obtain ⟨resp, w'⟩ := p
        rw [ha] at hev
        exact stepEvs_loaded cfg top w w' (k resp) (.host op k resp w' hs ha) hi.head ev hev

theorem runLoopTr_loaded_aux (cfg : Cfg) : ∀ fuel : Nat,
    (∀ stack w, Inv stack w → ∀ ev ∈ (runLoopTr journalOps cfg fuel stack w).2, EvLoaded cfg.he ev) ∧
    (∀ top rest r out s w, Inv rest w →
      ∀ ev ∈ (runEndedTr journalOps cfg fuel top rest r out s w).2, EvLoaded cfg.he ev) := by
  intro fuel
  induction fuel with
  | zero =>
    constructor
    · intro stack w _ ev hev; rw [runLoopTr] at hev; cases hev
    · intro top rest r out s w _ ev hev; rw [runEndedTr] at hev; cases hev
  | succ n ih =>
    have hret : EvLoaded cfg.he retEv := trivial
    constructor
    · intro stack w hinv ev hev
      rw [runLoopTr] at hev
      have hi := iterEvs_loaded cfg stack w hinv
      cases hit : iterate journalOps cfg stack w with
      | error e => rw [hit] at hev; exact hi ev hev
      | ok nx =>
        rw [hit] at hev
        have hn := iterate_inv hit hinv
        cases nx with
        | run st w' =>
          rcases List.mem_append.1 hev with h | h
          · exact hi ev h
          · exact ih.1 st w' hn ev h
        | ended t rs r o s w' =>
          rcases List.mem_append.1 hev with h | h
          · exact hi ev h
          · exact ih.2 t rs r o s w' hn ev h
        | done r w' => exact hi ev hev
    · intro top rest r out s w hinv ev hev
      rw [runEndedTr] at hev
      cases hit : frameEnd journalOps cfg top rest r out s w with
      | error e =>
        rw [hit] at hev
        simp only [List.mem_singleton] at hev; subst hev; exact hret
      | ok nx =>
        rw [hit] at hev
        have hn := frameEnd_inv hit hinv
        cases nx with
        | run st w' =>
          rcases List.mem_cons.1 hev with rfl | h
          · exact hret
          · exact ih.1 st w' hn ev h
        | ended t rs r o s w' =>
          rcases List.mem_cons.1 hev with rfl | h
          · exact hret
          · exact ih.2 t rs r o s w' hn ev h
        | done r w' =>
          simp only [List.mem_singleton] at hev; subst hev; exact hret

/-- the first frame of a transaction runs at an address that is in the journal -/
theorem prepare_inv {e : Env} {spec initialGas : Nat} {w w' : World} {f : JFrame} {isCreate : Bool} {refund : Nat}
    (h : prepare journalOps e spec initialGas w = .ok (.frame f, w', isCreate, refund)) : Inv [f] w' := by
  rw [Revm.Proofs.EvmInst.prepare_eq] at h
  obtain ⟨w1, _, h⟩ := bind_ok h
  obtain ⟨⟨w2, r⟩, _, h⟩ := bind_ok h
  simp only at h
  obtain ⟨⟨fr, w3⟩, hf, h⟩ := bind_ok h
  simp only [pure, Except.pure, Except.ok.injEq, Prod.mk.injEq] at h
  obtain ⟨rfl, rfl, _, _⟩ := h
  refine Inv.cons ?_ (fun g hg => nomatch hg)
  unfold Revm.Proofs.EvmInst.firstFrame at hf
  split at hf
  · obtain ⟨htg, hin⟩ := makeCallFrame_target hf (fun hv => nomatch hv)
    rw [htg]; exact hin
  · exact makeCreateFrame_target hf

/-- `FullStatementContractLoaded` holds: in every `transact` run (completed or not) every instruction executes in a
frame whose target is in the journal when the instruction starts -/
theorem contract_loaded : FullStatementContractLoaded := by
  intro fuel w e spec r first evs h
  unfold transactTr transactWithTr at h
  cases hp : preverify w e (GasCalc.canon spec) with
  | error err => rw [hp] at h; simp at h
  | ok x =>
    rw [hp] at h
    cases x with
    | none => simp at h
    | some y =>
      obtain ⟨w1, initialGas, floorGas⟩ := y
      simp only at h
      cases hq : prepare journalOps e (GasCalc.canon spec) initialGas w1 with
      | error err => rw [hq] at h; simp at h
      | ok z =>
        rw [hq] at h
        obtain ⟨fr, w2, isCreate, refund⟩ := z
        simp only [Prod.mk.injEq, Option.some.injEq] at h
        obtain ⟨_, _, hevs⟩ := h
        subst hevs
        cases fr with
        | result r => intro ev hev; cases hev
        | frame f =>
          exact (runLoopTr_loaded_aux (e.toCfg (GasCalc.canon spec)) fuel).1 [f] w2 (prepare_inv hq)

/-- C30 on `Evm.transact`, "the balance that left the contract", NO hypothesis: every entry `(c, t, v)` of the completed
SELFDESTRUCTs of a traced `transact` run (= of the inspector's notifications, `evm_selfdestruct_notified_once`) belongs to
an instruction the loop resolved in a frame at `c` whose account `acc` was in the journal, `v` is what `acc` loses
(`movedValue`), and the journal balance of `c` before the instruction is its balance after it plus `v` -/
theorem evm_selfdestruct_balance_left (fuel : Nat) (w : World) (e : Env) (spec : Nat) (r : R (Outcome × World))
    (first : InspectorHooks.Spawn) (evs : List LEv) (h : transactTr fuel w e spec = (r, some (first, evs)))
    (x : InspectorHooks.Insn) (g : Truth) (hev : LEv.insn x g ∈ evs) (y : Nat × Nat × Nat) (hy : g.sd = some y) :
    ∃ s w0 d w1 acc, Resolved { blockNumber := e.block.number } s w0 d w1 ∧ s.code[s.pc]? = some 0xff ∧
      w0.js.state s.target = some acc ∧ y.1 = s.target ∧
      y.2.2 = Revm.Proofs.SelfdestructNotify.movedValue acc w0.js.spec s.target y.2.1 ∧
      SelfdestructNotify.balanceOf w0.js s.target = SelfdestructNotify.balanceOf w1.js s.target + y.2.2 := by
  obtain ⟨s, w0, d, w1, hr, _, hg, hl⟩ := contract_loaded fuel w e spec r first evs h _ hev
  cases hacc : w0.js.state s.target with
  | none => rw [hacc] at hl; cases hl
  | some acc =>
    -- the ground truth carries a self-destruct only at opcode 0xFF
    have hcode : s.code[s.pc]? = some 0xff ∧ sdTruth s w0 d = some y := by
      rw [hg] at hy
      unfold truthOf at hy
      cases hc : s.code[s.pc]? with
      | none => rw [hc] at hy; cases hy
      | some op =>
        rw [hc] at hy
        simp only at hy
        by_cases hlog : isLogOp op
        · simp only [hlog, if_true] at hy; cases hy
        · simp only [hlog, if_false] at hy
          by_cases hop : op = 0xff
          · simp only [hop, if_true] at hy
            exact ⟨by rw [hop], hy⟩
          · simp only [hop, if_false] at hy; cases hy
    obtain ⟨h1, h2, h3⟩ :=
      Revm.Proofs.EvmInstSd.evm_selfdestruct_balance_left_partial hcode.1 hr hacc hcode.2
    exact ⟨s, w0, d, w1, acc, hr, hcode.1, hacc, h1, h2, h3⟩

end Revm.Proofs.EvmInstLoaded
